import FfuzzyProofs.Tables
