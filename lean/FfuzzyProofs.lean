import FfuzzyProofs.Tables
import FfuzzyProofs.Lcs
import FfuzzyProofs.Hyyro
import FfuzzyProofs.CommonSub
import FfuzzyProofs.PosArrayInit
import FfuzzyProofs.Properties.C08
import FfuzzyProofs.Properties.C09
