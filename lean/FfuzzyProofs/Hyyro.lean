/-
  C08: the bit-parallel (Hyyro) recurrence of `edit_distance_internal` computes the LCS distance.
  Proved over `BitVec 64` against an abstract position-array specification `PaSpec`
  (discharged for the concrete `init_from` in `FfuzzyProofs/PosArrayInit.lean`).
-/
import FfuzzyModel.PosArray
import FfuzzyProofs.Lcs
namespace Ffuzzy.Hyyro
open Ffuzzy

/-- ripple "carry" of the row update: c 0 = false, c (i+1) = if e[i] then v[i] else v[i] && c i -/
def hc (v e : BitVec 64) : Nat → Bool
  | 0 => false
  | i+1 => if e.getLsbD i then v.getLsbD i else (v.getLsbD i && hc v e i)

theorem carry_eq (v e : BitVec 64) (i : Nat) :
    BitVec.carry i v (e &&& v) false = hc v e i := by
  induction i with
  | zero => simp [hc, BitVec.carry, Nat.mod_one]
  | succ i ih =>
    rw [BitVec.carry_succ, ih]
    simp only [hc, BitVec.getLsbD_and]
    cases e.getLsbD i <;> cases v.getLsbD i <;> cases hc v e i <;> rfl

theorem sub_subset (v p : BitVec 64) (h : p &&& v = p) : v - p = v &&& ~~~p := by
  have hd : (v &&& ~~~p) &&& p = 0#64 := by
    ext i; simp
  have : v = (v &&& ~~~p) + p := by
    rw [BitVec.add_eq_or_of_and_eq_zero _ _ hd]
    ext i
    have := congrArg (fun x => x.getLsbD i) h
    simp at this
    simp
    cases hv : v.getLsbD i <;> cases hp : p.getLsbD i <;> simp_all
  calc v - p = ((v &&& ~~~p) + p) - p := by rw [← this]
    _ = v &&& ~~~p := by rw [BitVec.add_sub_cancel]

theorem step_bit (v e : BitVec 64) (i : Nat) (hi : i < 64) :
    (((v + (e &&& v)) ||| (v - (e &&& v))).getLsbD i)
      = (if e.getLsbD i then hc v e i else (v.getLsbD i || hc v e i)) := by
  have hsub : (e &&& v) &&& v = (e &&& v) := by ext j; simp
  rw [sub_subset v (e &&& v) hsub]
  simp only [BitVec.getLsbD_or, BitVec.getLsbD_add hi, carry_eq, BitVec.getLsbD_and, BitVec.getLsbD_not, hi, decide_true, Bool.true_and]
  cases e.getLsbD i <;> cases v.getLsbD i <;> cases hc v e i <;> rfl



/-- prefix-DP cell: LCS of the first i symbols of a against the processed prefix (kept reversed) -/
def P (a : List UInt8) (i : Nat) (B : List UInt8) : Nat := Spec.lcs (a.take i).reverse B


theorem take_succ_rev (a : List UInt8) (i : Nat) (h : i < a.length) :
    (a.take (i+1)).reverse = a[i] :: (a.take i).reverse := by
  rw [List.take_succ_eq_append_getElem h]; simp

theorem P_succ_cons (a : List UInt8) (i : Nat) (h : i < a.length) (y : UInt8) (B : List UInt8) :
    P a (i+1) (y :: B) =
      if a[i] = y then P a i B + 1 else max (P a i (y :: B)) (P a (i+1) B) := by
  unfold P; rw [take_succ_rev a i h, Spec.lcs]

theorem P_zero (a B : List UInt8) : P a 0 B = 0 := by simp [P, Spec.lcs]

-- differences are 0/1
theorem P_vert (a : List UInt8) (i : Nat) (h : i < a.length) (B : List UInt8) :
    P a i B ≤ P a (i+1) B ∧ P a (i+1) B ≤ P a i B + 1 := by
  unfold P; rw [take_succ_rev a i h]
  exact ⟨Spec.lcs_cons_le _ _ _, Spec.lcs_cons_le_succ _ _ _⟩
theorem P_horiz (a : List UInt8) (i : Nat) (y : UInt8) (B : List UInt8) :
    P a i B ≤ P a i (y :: B) ∧ P a i (y :: B) ≤ P a i B + 1 := by
  unfold P; exact ⟨Spec.lcs_cons_le' _ _ _, Spec.lcs_cons_le_succ' _ _ _⟩

/-- the row invariant: bit i of v is clear exactly when the vertical difference at i is 1 (i < |a|) -/
def RowInv (a : List UInt8) (B : List UInt8) (v : BitVec 64) : Prop :=
  ∀ i, i < 64 → v.getLsbD i = !(decide (i < a.length ∧ P a (i+1) B = P a i B + 1))

def step (v e : BitVec 64) : BitVec 64 := (v + (e &&& v)) ||| (v - (e &&& v))

theorem hc_eq (a : List UInt8) (B : List UInt8) (y : UInt8) (v e : BitVec 64)
    (hv : RowInv a B v)
    (he : ∀ i, i < 64 → e.getLsbD i = decide (a[i]? = some y)) (hm : a.length ≤ 64) :
    ∀ i, i ≤ a.length → hc v e i = decide (P a i (y :: B) = P a i B + 1) := by
  intro i
  induction i with
  | zero => intro _; simp [hc, P_zero]
  | succ i ih =>
    intro hi
    have hi' : i < a.length := by omega
    have hi64 : i < 64 := by omega
    have ih := ih (by omega)
    simp only [hc, he i hi64, hv i hi64, ih]
    have hrec := P_succ_cons a i hi' y B
    have ⟨v1, v2⟩ := P_vert a i hi' B
    have ⟨h1, h2⟩ := P_horiz a i y B
    have ⟨h3, h4⟩ := P_horiz a (i+1) y B
    have hget : a[i]? = some a[i] := by simp [hi']
    by_cases hxy : a[i] = y
    · rw [if_pos hxy] at hrec
      simp [hxy, hi']
      by_cases hD : P a (i+1) B = P a i B + 1 <;> by_cases hH : P a i (y :: B) = P a i B + 1 <;> simp [hD, hH] <;> omega
    · rw [if_neg hxy] at hrec
      have : ¬ (a[i]? = some y) := by simp [hget, hxy]
      simp [hxy, hi']
      by_cases hD : P a (i+1) B = P a i B + 1 <;> by_cases hH : P a i (y :: B) = P a i B + 1 <;> simp [hD, hH] <;> omega

theorem step_inv (a : List UInt8) (B : List UInt8) (y : UInt8) (v e : BitVec 64)
    (hv : RowInv a B v)
    (he : ∀ i, i < 64 → e.getLsbD i = decide (a[i]? = some y)) (hm : a.length ≤ 64) :
    RowInv a (y :: B) (step v e) := by
  intro i hi
  unfold step
  rw [step_bit v e i hi]
  by_cases hia : i < a.length
  · have hc1 := hc_eq a B y v e hv he hm i (by omega)
    rw [hc1, he i hi, hv i hi]
    have hrec := P_succ_cons a i hia y B
    have ⟨v1, v2⟩ := P_vert a i hia B
    have ⟨h1, h2⟩ := P_horiz a i y B
    have ⟨h3, h4⟩ := P_horiz a (i+1) y B
    have hget : a[i]? = some a[i] := by simp [hia]
    by_cases hxy : a[i] = y
    · rw [if_pos hxy] at hrec
      simp [hxy, hia]
      by_cases hD : P a (i+1) B = P a i B + 1 <;> by_cases hH : P a i (y :: B) = P a i B + 1 <;> simp [hD, hH] <;> omega
    · rw [if_neg hxy] at hrec
      have : ¬ (a[i]? = some y) := by simp [hget, hxy]
      simp [hxy, hia]
      by_cases hD : P a (i+1) B = P a i B + 1 <;> by_cases hH : P a i (y :: B) = P a i B + 1 <;> simp [hD, hH] <;> omega
  · have : a[i]? = none := by simp; omega
    simp [he i hi, this, hv i hi, hia]

/-! ### closing the argument: initial row, fold over `b`, zero count -/

/-- position array spec: bit i of `pa c` is set iff `a[i] = c` -/
def PaSpec (a : List UInt8) (pa : UInt8 → BitVec 64) : Prop :=
  ∀ c i, i < 64 → (pa c).getLsbD i = decide (a[i]? = some c)

def rows (pa : UInt8 → BitVec 64) (b : List UInt8) : BitVec 64 :=
  b.foldl (fun v c => step v (pa c)) (BitVec.allOnes 64)

def zeroCount (v : BitVec 64) : Nat := ((List.range 64).filter (fun i => !v.getLsbD i)).length

def editDistance (pa : UInt8 → BitVec 64) (len : Nat) (b : List UInt8) : Nat :=
  len + b.length - 2 * zeroCount (rows pa b)


theorem rowInv_init (a : List UInt8) : RowInv a [] (BitVec.allOnes 64) := by
  intro i hi
  rw [BitVec.getLsbD_allOnes]
  simp [P, hi, Spec.lcs_nil_right]

theorem rows_inv (a : List UInt8) (pa : UInt8 → BitVec 64) (hpa : PaSpec a pa) (hm : a.length ≤ 64) :
    ∀ (b : List UInt8) (B : List UInt8) (v : BitVec 64), RowInv a B v →
      RowInv a (b.reverse ++ B) (b.foldl (fun v c => step v (pa c)) v) := by
  intro b
  induction b with
  | nil => intro B v h; simpa using h
  | cons y ys ih =>
    intro B v h
    have h' := step_inv a B y v (pa y) h (hpa y) hm
    have := ih (y :: B) _ h'
    simpa [List.foldl] using this

/-- number of i < n with the vertical difference equal to 1 telescopes to `P a n B` -/
theorem count_telescope (a B : List UInt8) :
    ∀ n, n ≤ a.length →
      ((List.range n).filter (fun i => decide (P a (i+1) B = P a i B + 1))).length = P a n B := by
  intro n
  induction n with
  | zero => intro _; simp [P_zero]
  | succ n ih =>
    intro hn
    have ih := ih (by omega)
    have ⟨v1, v2⟩ := P_vert a n (by omega) B
    rw [List.range_succ, List.filter_append, List.length_append, ih]
    by_cases h : P a (n+1) B = P a n B + 1
    · simp [h]
    · simp [h]; omega

theorem zeroCount_eq (a B : List UInt8) (v : BitVec 64) (hm : a.length ≤ 64) (hv : RowInv a B v) :
    zeroCount v = P a a.length B := by
  unfold zeroCount
  rw [← count_telescope a B a.length (Nat.le_refl _)]
  -- split range 64 = range m ++ [m, 64)
  have hsplit : List.range 64 = List.range a.length ++ (List.range' a.length (64 - a.length)) := by
    rw [List.range_eq_range', List.range_eq_range']
    have := @List.range'_append_1 0 a.length (64 - a.length)
    rw [Nat.zero_add] at this
    rw [this]; congr 1; omega
  rw [hsplit, List.filter_append, List.length_append]
  have h1 : (List.range a.length).filter (fun i => !v.getLsbD i)
          = (List.range a.length).filter (fun i => decide (P a (i+1) B = P a i B + 1)) := by
    apply List.filter_congr
    intro i hi
    have hi' : i < a.length := by simpa using hi
    rw [hv i (by omega)]
    simp [hi']
  have h2 : (List.range' a.length (64 - a.length)).filter (fun i => !v.getLsbD i) = [] := by
    apply List.filter_eq_nil_iff.mpr
    intro i hi
    have := List.mem_range'_1.mp hi
    rw [hv i (by omega)]
    simp; omega
  rw [h1, h2]; simp

theorem editDistance_eq_lcs (a b : List UInt8) (pa : UInt8 → BitVec 64)
    (hpa : PaSpec a pa) (hm : a.length ≤ 64) :
    editDistance pa a.length b = a.length + b.length - 2 * Spec.lcs a b := by
  unfold editDistance rows
  have hinv := rows_inv a pa hpa hm b [] _ (rowInv_init a)
  rw [zeroCount_eq a _ _ hm hinv]
  simp only [List.append_nil, P, List.take_length]
  rw [Spec.lcs_reverse]

theorem editDistance_symm (a b : List UInt8) (pa pb : UInt8 → BitVec 64)
    (hpa : PaSpec a pa) (hpb : PaSpec b pb) (ha : a.length ≤ 64) (hb : b.length ≤ 64) :
    editDistance pa a.length b = editDistance pb b.length a := by
  rw [editDistance_eq_lcs a b pa hpa ha, editDistance_eq_lcs b a pb hpb hb, Spec.lcs_comm a b]; omega



end Ffuzzy.Hyyro
