/-
  A position array built by `init_from` is valid, and represents exactly its string
  (`is_valid`, `len`, `is_equiv`) — C17 `posArray_represents`.
-/
import FfuzzyProofs.PosArrayInit
import FfuzzyProofs.CommonSub
namespace Ffuzzy.PosInit
open Ffuzzy

theorem lsbOnes_bit (n j : Nat) (hn : n ≤ 64) (hj : j < 64) :
    (u64LsbOnes n).getLsbD j = decide (j < n) := by
  unfold u64LsbOnes
  by_cases h : n = 64
  · subst h
    simp only [if_true]
    have : (0 : BitVec 64) - 1 = BitVec.allOnes 64 := by decide
    have e2 : (BitVec.allOnes 64).getLsbD j = decide (j < 64) := BitVec.getLsbD_allOnes
    rw [this, e2]
  · simp only [h, if_false]
    have hlt : n < 64 := by omega
    have e : ((1 : BitVec 64) <<< n) - 1 = BitVec.ofNat 64 (2 ^ n - 1) := by
      apply BitVec.eq_of_toNat_eq
      have hp : 2 ^ n < 2 ^ 64 := Nat.pow_lt_pow_right (by omega) hlt
      have hpos : 0 < 2 ^ n := Nat.two_pow_pos n
      have t1 : (1 : BitVec 64).toNat = 1 := by decide
      rw [BitVec.toNat_sub, BitVec.toNat_shiftLeft, BitVec.toNat_ofNat, t1]
      simp only [Nat.shiftLeft_eq, Nat.one_mul]
      rw [Nat.mod_eq_of_lt hp, Nat.mod_eq_of_lt (by omega : 2 ^ n - 1 < 2 ^ 64)]
      omega
    rw [e, BitVec.getLsbD_ofNat, Nat.testBit_two_pow_sub_one]
    simp [hj]

/-- the validity fold over the 64 masks, started at symbol `k` with `total` = positions of symbols `< k` -/
theorem isValidLoop_spec (a : List UInt8) (rep : List (BitVec 64)) (hrep : rep.length = 64)
    (hspec : ∀ (c : UInt8) (j : Nat), j < 64 → (rep.getD c.toNat 0).getLsbD j = decide (a[j]? = some c)) :
    ∀ (m k : Nat) (total : BitVec 64), k + m = 64 →
      (∀ j, j < 64 → total.getLsbD j = a[j]?.any (fun c => decide (c.toNat < k))) →
      ∃ t, PA.isValidLoop (rep.drop k) total = some t ∧
        ∀ j, j < 64 → t.getLsbD j = a[j]?.any (fun c => decide (c.toNat < 64)) := by
  intro m
  induction m with
  | zero =>
    intro k total hk ht
    have : k = 64 := by omega
    subst this
    rw [List.drop_of_length_le (by omega)]
    exact ⟨total, rfl, ht⟩
  | succ m ih =>
    intro k total hk ht
    have hk64 : k < 64 := by omega
    have hdrop : rep.drop k = rep.getD k 0 :: rep.drop (k + 1) := by
      rw [List.drop_eq_getElem_cons (by omega)]
      simp [List.getD_eq_getElem?_getD, hrep, hk64]
    have hkc : (k.toUInt8).toNat = k := by
      simp [Nat.toUInt8, UInt8.toNat_ofNat']; omega
    have hbit : ∀ j, j < 64 → (rep.getD k 0).getLsbD j = decide (a[j]? = some k.toUInt8) := by
      intro j hj
      have := hspec k.toUInt8 j hj
      rw [hkc] at this; exact this
    have hdisj : total &&& rep.getD k 0 = 0 := by
      apply BitVec.eq_of_getLsbD_eq
      intro j hj
      rw [BitVec.getLsbD_and, ht j hj, hbit j hj]
      cases hv : a[j]? with
      | none => simp
      | some c =>
        by_cases e : c = k.toUInt8
        · subst e; simp [hkc]
        · simp [e]
    rw [hdrop]
    simp only [PA.isValidLoop, hdisj, beq_self_eq_true, if_true]
    apply ih (k + 1) (total ||| rep.getD k 0) (by omega)
    intro j hj
    rw [BitVec.getLsbD_or, ht j hj, hbit j hj]
    cases hv : a[j]? with
    | none => simp
    | some c =>
      simp only [Option.any_some, Option.some.injEq]
      by_cases e : c = k.toUInt8
      · subst e; simp [hkc]
      · have hne : c.toNat ≠ k := by
          intro h; apply e; apply UInt8.toNat_inj.mp; rw [hkc]; exact h
        simp only [e, decide_false, Bool.or_false]
        apply decide_eq_decide.mpr; omega

/-- **C17.** whatever the array held before, `init_from a` yields a *valid* position array -/
theorem initFrom_valid (p : PA) (a : List UInt8) (hlen : a.length ≤ 64) (hall : ∀ b ∈ a, b.toNat < 64) :
    ∃ q, p.initFrom a = some q ∧ q.isValid = true ∧ q.len.toNat = a.length := by
  obtain ⟨q, hq, hrep, hl, hspec⟩ := initFrom_spec p a hlen hall
  refine ⟨q, hq, ?_, hl⟩
  unfold PA.isValid
  have hl8 : ¬ (q.len > 64) := by
    intro h
    have := UInt8.lt_iff_toNat_lt.mp h
    simp at this; omega
  simp only [hl8, if_false]
  obtain ⟨t, ht, hbits⟩ := isValidLoop_spec a q.rep hrep (fun c j hj => hspec c j hj) 64 0 0 (by omega)
    (by intro j hj; cases a[j]? <;> simp)
  rw [List.drop_zero] at ht
  rw [ht]
  simp only [beq_iff_eq]
  apply BitVec.eq_of_getLsbD_eq
  intro j hj
  rw [hbits j hj, lsbOnes_bit _ _ (by omega) hj, hl]
  by_cases hjl : j < a.length
  · have := hall _ (List.getElem_mem hjl)
    simp [hjl, this]
  · rw [List.getElem?_eq_none (by omega)]
    simp [hjl]

/-- **C17.** equivalence test: a valid array built from `a` is equivalent to exactly `a` -/
theorem isEquiv_iff (q : PA) (a x : List UInt8) (hspec : Hyyro.PaSpec a q.get) (hl : q.len.toNat = a.length)
    (ha : a.length ≤ 64) (hx : x.length ≤ 64) :
    q.isEquivInternal x = true ↔ x = a := by
  unfold PA.isEquivInternal
  simp only [Bool.and_eq_true, beq_iff_eq, List.all_eq_true, bne_iff_ne, ne_eq]
  constructor
  · rintro ⟨h1, h2⟩
    apply List.ext_getElem (by omega)
    intro i hi1 hi2
    have hm : (x[i], i) ∈ x.zipIdx := by
      simp [List.mem_zipIdx_iff_getElem?, hi1]
    have := h2 (x[i], i) hm
    simp only at this
    have hb : (q.get x[i] &&& ((1 : BitVec 64) <<< i)).getLsbD i = true := by
      apply Classical.byContradiction
      intro hn
      apply this
      apply BitVec.eq_of_getLsbD_eq
      intro j hj
      rw [BitVec.getLsbD_and, one_shl_getLsbD i j (by omega)]
      by_cases e : j = i
      · subst e
        rw [BitVec.getLsbD_and, one_shl_getLsbD j j (by omega)] at hn
        simp at hn ⊢; exact hn
      · simp [e]
    rw [BitVec.getLsbD_and, hspec _ i (by omega)] at hb
    simp only [Bool.and_eq_true, decide_eq_true_eq] at hb
    have := hb.1
    rw [List.getElem?_eq_getElem hi2] at this
    exact (Option.some.inj this).symm
  · intro e
    subst e
    refine ⟨hl, ?_⟩
    rintro ⟨c, i⟩ hm
    have hmi := List.mem_zipIdx_iff_getElem?.mp hm
    simp only at hmi ⊢
    intro hz
    have hi : i < x.length := by
      apply Classical.byContradiction; intro hn
      rw [List.getElem?_eq_none (by omega)] at hmi; simp at hmi
    have := congrArg (fun v => v.getLsbD i) hz
    simp only [BitVec.getLsbD_and, hspec c i (by omega), one_shl_getLsbD i i (by omega),
      BitVec.getLsbD_zero] at this
    simp [hmi] at this

end Ffuzzy.PosInit

namespace Ffuzzy.PosInit
open Ffuzzy

theorem bv_ne_zero_iff (d : BitVec 64) : d ≠ 0 ↔ ∃ p, p < 64 ∧ d.getLsbD p = true :=
  CommonSub.bv_ne_zero_iff d

/-- the shift-and trick of `has_sequences_const::<4>`: a mask has four consecutive set bits -/
theorem hasSequences4_iff (x : BitVec 64) :
    hasSequences4 x = true ↔ ∃ i, x.getLsbD i = true ∧ x.getLsbD (i + 1) = true ∧
      x.getLsbD (i + 2) = true ∧ x.getLsbD (i + 3) = true := by
  unfold hasSequences4
  simp only [bne_iff_ne, ne_eq]
  rw [show (¬ ((x &&& x >>> 1) &&& (x &&& x >>> 1) >>> 2 = 0)) ↔ ((x &&& x >>> 1) &&& (x &&& x >>> 1) >>> 2 ≠ 0) from Iff.rfl,
    bv_ne_zero_iff]
  constructor
  · rintro ⟨p, _, hp⟩
    simp only [BitVec.getLsbD_and, BitVec.getLsbD_ushiftRight, Bool.and_eq_true] at hp
    refine ⟨p, hp.1.1, ?_, ?_, ?_⟩
    · have := hp.1.2; rwa [Nat.add_comm] at this
    · have := hp.2.1; rwa [Nat.add_comm] at this
    · have := hp.2.2
      have e : 1 + (2 + p) = p + 3 := by omega
      rwa [e] at this
  · rintro ⟨i, h0, h1, h2, h3⟩
    have hi : i < 64 := by
      apply Classical.byContradiction; intro hn
      rw [BitVec.getLsbD_of_ge _ _ (by omega)] at h0; simp at h0
    refine ⟨i, hi, ?_⟩
    simp only [BitVec.getLsbD_and, BitVec.getLsbD_ushiftRight, Bool.and_eq_true]
    refine ⟨⟨h0, by rwa [Nat.add_comm]⟩, ⟨by rwa [Nat.add_comm], ?_⟩⟩
    have e : 1 + (2 + i) = i + 3 := by omega
    rwa [e]

/-- **C17.** the validity-and-normalisation test of a position array built from `a` holds exactly
    when `a` contains no run of four identical symbols -/
theorem isValidAndNormalized_iff (p : PA) (a : List UInt8) (hlen : a.length ≤ 64) (hall : ∀ b ∈ a, b.toNat < 64) :
    ∃ q, p.initFrom a = some q ∧
      (q.isValidAndNormalized = true ↔
        ∀ i, i + 3 < a.length → ¬ (a[i]? = a[i + 1]? ∧ a[i + 1]? = a[i + 2]? ∧ a[i + 2]? = a[i + 3]?)) := by
  obtain ⟨q, hq, hrep, hl, hspec⟩ := initFrom_spec p a hlen hall
  obtain ⟨q', hq', hv, _⟩ := initFrom_valid p a hlen hall
  have : q' = q := by rw [hq] at hq'; exact (Option.some.inj hq').symm
  subst this
  refine ⟨q', hq, ?_⟩
  unfold PA.isValidAndNormalized
  simp only [hv, Bool.true_and, List.all_eq_true, Bool.not_eq_true', Bool.not_eq_eq_eq_not, Bool.not_true]
  constructor
  · intro h i hi ⟨e1, e2, e3⟩
    have hi0 : i < a.length := by omega
    have hc : a[i].toNat < 64 := hall _ (List.getElem_mem hi0)
    have hm : q'.rep.getD a[i].toNat 0 ∈ q'.rep := by
      rw [List.getD_eq_getElem?_getD, List.getElem?_eq_getElem (by omega)]
      exact List.getElem_mem _
    have := h _ hm
    have hs : hasSequences4 (q'.get a[i]) = true := by
      rw [hasSequences4_iff]
      refine ⟨i, ?_, ?_, ?_, ?_⟩
      · rw [hspec _ i (by omega)]; simp [hi0]
      · rw [hspec _ (i + 1) (by omega)]; simp [← e1, hi0]
      · rw [hspec _ (i + 2) (by omega)]; simp [← e2, ← e1, hi0]
      · rw [hspec _ (i + 3) (by omega)]; simp [← e3, ← e2, ← e1, hi0]
    simp only [PA.get] at hs
    rw [hs] at this; simp at this
  · intro h x hx
    apply Classical.byContradiction
    intro hne
    have hs : hasSequences4 x = true := by simpa using hne
    obtain ⟨k, hk, hxk⟩ := List.getElem_of_mem hx
    have hk64 : k < 64 := by omega
    have hkc : (k.toUInt8).toNat = k := by simp [Nat.toUInt8, UInt8.toNat_ofNat']; omega
    have hget : q'.get k.toUInt8 = x := by
      simp only [PA.get, hkc, List.getD_eq_getElem?_getD, List.getElem?_eq_getElem hk, hxk]; rfl
    rw [← hget, hasSequences4_iff] at hs
    obtain ⟨i, h0, h1, h2, h3⟩ := hs
    have hi3 : i + 3 < 64 := by
      apply Classical.byContradiction; intro hn
      rw [BitVec.getLsbD_of_ge _ _ (by omega)] at h3; simp at h3
    rw [hspec _ _ (by omega)] at h0 h1 h2 h3
    simp only [decide_eq_true_eq] at h0 h1 h2 h3
    have hlt : i + 3 < a.length := by
      apply Classical.byContradiction; intro hn
      rw [List.getElem?_eq_none (by omega)] at h3; simp at h3
    exact h i hlt ⟨by rw [h0, h1], by rw [h1, h2], by rw [h2, h3]⟩

end Ffuzzy.PosInit
