/-
  `block_hash_position_array_element::has_sequences` for a general length: the doubling masks
  c02, c04, … mark the starts of runs of 2, 4, … set bits; the bits of the remaining length select
  which of them are and-ed in at which shift; the result is non-zero iff a run of `len` set bits exists.
  (The crate itself only uses the instance `has_sequences_const::<4>`: `PosInit.hasSequences4_iff`.)
-/
import FfuzzyModel.PosArray
import FfuzzyProofs.PosArrayValid
namespace Ffuzzy.HasSeq
open Ffuzzy

/-- bit `i` of `y` says: `x` has `m` consecutive set bits starting at position `i` -/
def Runs (x : BitVec 64) (m : Nat) (y : BitVec 64) : Prop :=
  ∀ i, y.getLsbD i = true ↔ ∀ j, j < m → x.getLsbD (i + j) = true

theorem runs_one (x : BitVec 64) : Runs x 1 x := by
  intro i
  constructor
  · intro h j hj
    have : j = 0 := by omega
    subst this; simpa using h
  · intro h; simpa using h 0 (by omega)

theorem runs_add (x y z : BitVec 64) (a b : Nat) (ha : Runs x a y) (hb : Runs x b z) :
    Runs x (a + b) (y &&& (z >>> a)) := by
  intro i
  rw [BitVec.getLsbD_and, BitVec.getLsbD_ushiftRight, Bool.and_eq_true, ha i, hb (a + i)]
  constructor
  · rintro ⟨h1, h2⟩ j hj
    by_cases hja : j < a
    · exact h1 j hja
    · have := h2 (j - a) (by omega)
      have e : a + i + (j - a) = i + j := by omega
      rwa [e] at this
  · intro h
    refine ⟨fun j hj => h j (by omega), fun j hj => ?_⟩
    have := h (a + j) (by omega)
    have e : i + (a + j) = a + i + j := by omega
    rwa [e] at this


theorem ite_pair {α β : Type} (c : Prop) [Decidable c] (a a' : α) (b b' : β) :
    (if c then (a, b) else (a', b')) = (if c then a else a', if c then b else b') := by
  split <;> rfl

theorem ite_triple {α β γ : Type} (c : Prop) [Decidable c] (a a' : α) (b b' : β) (d d' : γ) :
    (if c then (a, b, d) else (a', b', d')) = (if c then a else a', if c then b else b', if c then d else d') := by
  split <;> rfl

theorem step (x m C : BitVec 64) (s bit : Nat) (c : Prop) [Decidable c] (hm : Runs x s m) (hC : Runs x bit C) :
    Runs x (if c then s + bit else s) (if c then m &&& (C >>> s) else m) := by
  split
  · exact runs_add x m C s bit hm hC
  · exact hm

/-- the doubling masks -/
theorem runs_c02 (x : BitVec 64) : Runs x 2 (x &&& x >>> 1) := runs_add x x x 1 1 (runs_one x) (runs_one x)
theorem runs_c04 (x : BitVec 64) : Runs x 4 (x &&& x >>> 1 &&& (x &&& x >>> 1) >>> 2) :=
  runs_add x _ _ 2 2 (runs_c02 x) (runs_c02 x)
theorem runs_c08 (x : BitVec 64) : Runs x 8 (x &&& x >>> 1 &&& (x &&& x >>> 1) >>> 2 &&& (x &&& x >>> 1 &&& (x &&& x >>> 1) >>> 2) >>> 4) :=
  runs_add x _ _ 4 4 (runs_c04 x) (runs_c04 x)

theorem runs_c16 (x : BitVec 64) : Runs x 16
    (x &&& x >>> 1 &&& (x &&& x >>> 1) >>> 2 &&& (x &&& x >>> 1 &&& (x &&& x >>> 1) >>> 2) >>> 4 &&&
      (x &&& x >>> 1 &&& (x &&& x >>> 1) >>> 2 &&& (x &&& x >>> 1 &&& (x &&& x >>> 1) >>> 2) >>> 4) >>> 8) :=
  runs_add x _ _ 8 8 (runs_c08 x) (runs_c08 x)
theorem runs_c32 (x : BitVec 64) : Runs x 32
    (x &&& x >>> 1 &&& (x &&& x >>> 1) >>> 2 &&& (x &&& x >>> 1 &&& (x &&& x >>> 1) >>> 2) >>> 4 &&&
        (x &&& x >>> 1 &&& (x &&& x >>> 1) >>> 2 &&& (x &&& x >>> 1 &&& (x &&& x >>> 1) >>> 2) >>> 4) >>> 8 &&&
      (x &&& x >>> 1 &&& (x &&& x >>> 1) >>> 2 &&& (x &&& x >>> 1 &&& (x &&& x >>> 1) >>> 2) >>> 4 &&&
        (x &&& x >>> 1 &&& (x &&& x >>> 1) >>> 2 &&& (x &&& x >>> 1 &&& (x &&& x >>> 1) >>> 2) >>> 4) >>> 8) >>> 16) :=
  runs_add x _ _ 16 16 (runs_c16 x) (runs_c16 x)

theorem Runs.congr {x : BitVec 64} {a b : Nat} {y : BitVec 64} (h : Runs x a y) (e : a = b) : Runs x b y := e ▸ h

/-- binary decomposition of a number below 32 -/
theorem bits32 : ∀ n, n < 32 →
    n = (if (n &&& 16 != 0) = true then 16 else 0) + (if (n &&& 8 != 0) = true then 8 else 0) +
        (if (n &&& 4 != 0) = true then 4 else 0) + (if (n &&& 2 != 0) = true then 2 else 0) +
        (if (n &&& 1 != 0) = true then 1 else 0) := by decide

/-- a mask whose set bits mark the starts of runs of `len` ones is non-zero iff such a run exists -/
theorem final (x m : BitVec 64) (len : Nat) (hlen : 1 ≤ len) (h : Runs x len m) :
    (m != 0) = true ↔ ∃ i, i + len ≤ 64 ∧ ∀ j, j < len → x.getLsbD (i + j) = true := by
  rw [bne_iff_ne, PosInit.bv_ne_zero_iff]
  constructor
  · rintro ⟨p, _, hp⟩
    have hr := (h p).mp hp
    refine ⟨p, ?_, hr⟩
    have hl := hr (len - 1) (by omega)
    apply Classical.byContradiction; intro hn
    rw [BitVec.getLsbD_of_ge _ _ (by omega)] at hl; simp at hl
  · rintro ⟨i, hi, hr⟩
    exact ⟨i, by omega, (h i).mpr hr⟩

/-- closes `SHIFT = len` goals: `SHIFT` is the five-step ite expression over the bits of `n = len - s` -/
macro "bits_arith" n:term : tactic => `(tactic| (
  have hb := bits32 $n (by omega)
  by_cases h16 : (($n &&& 16) != 0) = true <;> by_cases h8 : (($n &&& 8) != 0) = true <;>
  by_cases h4 : (($n &&& 4) != 0) = true <;> by_cases h2 : (($n &&& 2) != 0) = true <;>
  by_cases h1 : (($n &&& 1) != 0) = true <;>
  simp only [h16, h8, h4, h2, h1, if_true, if_false, Bool.false_eq_true, ↓reduceIte] at hb ⊢ <;> omega))

/-- **`has_sequences` (general length).**  `hasSequences x len` holds exactly when `len = 0` or `x` has
    `len` consecutive set bits somewhere among its 64 positions. -/
theorem hasSequences_iff (x : BitVec 64) (len : Nat) :
    hasSequences x len = true ↔ (len = 0 ∨ ∃ i, i + len ≤ 64 ∧ ∀ j, j < len → x.getLsbD (i + j) = true) := by
  unfold hasSequences
  by_cases h0 : len = 0
  · simp [h0]
  by_cases h1 : len = 1
  · subst h1
    simp only [h0, if_false, if_true, false_or]
    exact final x x 1 (by omega) (runs_one x)
  by_cases h64 : len < 64
  · simp only [h0, h1, h64, if_false, if_true, false_or]
    simp only [ite_pair]
    by_cases h4 : len < 4
    · simp only [h4, if_true]
      apply final x _ len (by omega)
      exact Runs.congr (step x _ _ _ 1 _ (step x _ _ _ 2 _ (step x _ _ _ 4 _ (step x _ _ _ 8 _ (step x _ _ _ 16 _
        (runs_c02 x) (runs_c16 x)) (runs_c08 x)) (runs_c04 x)) (runs_c02 x)) (runs_one x)) (by bits_arith (len - 2))
    by_cases h8 : len < 8
    · simp only [h4, h8, if_true, if_false]
      apply final x _ len (by omega)
      exact Runs.congr (step x _ _ _ 1 _ (step x _ _ _ 2 _ (step x _ _ _ 4 _ (step x _ _ _ 8 _ (step x _ _ _ 16 _
        (runs_c04 x) (runs_c16 x)) (runs_c08 x)) (runs_c04 x)) (runs_c02 x)) (runs_one x)) (by bits_arith (len - 4))
    by_cases h16 : len < 16
    · simp only [h4, h8, h16, if_true, if_false]
      apply final x _ len (by omega)
      exact Runs.congr (step x _ _ _ 1 _ (step x _ _ _ 2 _ (step x _ _ _ 4 _ (step x _ _ _ 8 _ (step x _ _ _ 16 _
        (runs_c08 x) (runs_c16 x)) (runs_c08 x)) (runs_c04 x)) (runs_c02 x)) (runs_one x)) (by bits_arith (len - 8))
    by_cases h32 : len < 32
    · simp only [h4, h8, h16, h32, if_true, if_false]
      apply final x _ len (by omega)
      exact Runs.congr (step x _ _ _ 1 _ (step x _ _ _ 2 _ (step x _ _ _ 4 _ (step x _ _ _ 8 _ (step x _ _ _ 16 _
        (runs_c16 x) (runs_c16 x)) (runs_c08 x)) (runs_c04 x)) (runs_c02 x)) (runs_one x)) (by bits_arith (len - 16))
    · simp only [h4, h8, h16, h32, if_false]
      apply final x _ len (by omega)
      exact Runs.congr (step x _ _ _ 1 _ (step x _ _ _ 2 _ (step x _ _ _ 4 _ (step x _ _ _ 8 _ (step x _ _ _ 16 _
        (runs_c32 x) (runs_c16 x)) (runs_c08 x)) (runs_c04 x)) (runs_c02 x)) (runs_one x)) (by bits_arith (len - 32))
  by_cases h64e : len = 64
  · subst h64e
    simp only [if_false, if_true, false_or, h0, h1, h64]
    constructor
    · intro h
      have hx : x = BitVec.allOnes 64 := by simpa using h
      refine ⟨0, by omega, fun j hj => ?_⟩
      rw [hx, BitVec.getLsbD_allOnes]; simpa using hj
    · rintro ⟨i, hi, hr⟩
      have hi0 : i = 0 := by omega
      subst hi0
      have : x = BitVec.allOnes 64 :=
        BitVec.eq_of_getLsbD_eq fun j hj => by
          have hj' := hr j hj
          rw [Nat.zero_add] at hj'
          rw [hj', BitVec.getLsbD_allOnes]; simpa using hj
      rw [this]; simp
  · simp only [h0, h1, h64, h64e, if_false, false_or]
    constructor
    · intro h; cases h
    · rintro ⟨i, hi, _⟩; omega

end Ffuzzy.HasSeq
