/-
  The in-place normalisation of a valid block hash array: result, length, validity (C06).
-/
import FfuzzyProofs.HashValid
namespace Ffuzzy
open Ffuzzy.Spec Ffuzzy.Collapse

theorem all_zero_eq_replicate (l : List UInt8) (h : ∀ x ∈ l, x = 0) : l = List.replicate l.length 0 := by
  induction l with
  | nil => rfl
  | cons x xs ih =>
    have hx : x = 0 := h x (by simp)
    have := ih (fun y hy => h y (by simp [hy]))
    simp [List.replicate_succ, hx]
    exact this

/-- what `normalize_block_hash_in_place_internal` (not originally normalised) does to a valid raw array -/
theorem normalizeBlockHash_spec (cap : Nat) (bh : List UInt8) (len : UInt8) (hcap : cap ≤ 64)
    (hv : FH.BhValid cap false bh len) :
    let x := bh.take len.toNat
    let r := normalizeBlockHashInPlace bh len false
    r.1 = collapse x ++ List.replicate (cap - (collapse x).length) 0 ∧
    r.2.toNat = (collapse x).length ∧
    FH.BhValid cap true r.1 r.2 ∧ r.1.take r.2.toNat = collapse x := by
  intro x r
  obtain ⟨harr, hlen, hsym, htail, _⟩ := hv
  have hspec := normLoop_spec bh len.toNat 0 0 b64Invalid 0 (by omega) (by omega) (by omega)
  simp only [List.drop_zero, Nat.sub_zero, List.take_zero, List.nil_append, Nat.zero_add] at hspec
  rw [normList_eq_collapse _ (FH.sym_ne_invalid hsym)] at hspec
  obtain ⟨h1, h2, h3, h4⟩ := hspec
  have hcl : (collapse x).length ≤ len.toNat := by
    have := collapse_length_le x
    have : x.length ≤ len.toNat := by simp [x]; omega
    omega
  have hr1 : r.1 = fillSlice (normLoop bh len.toNat 0 0 b64Invalid 0).1 (collapse x).length len.toNat 0 := by
    simp [r, normalizeBlockHashInPlace, h2, x]
  have hr2 : r.2 = (collapse x).length.toUInt8 := by
    simp [r, normalizeBlockHashInPlace, h2, x]
  have hr2n : r.2.toNat = (collapse x).length := by
    rw [hr2]
    have : (collapse x).length < 256 := by omega
    simp [Nat.toUInt8, UInt8.toNat_ofNat', Nat.mod_eq_of_lt this]
  have htl : bh.drop len.toNat = List.replicate (cap - len.toNat) 0 := by
    have := all_zero_eq_replicate _ htail
    simpa [harr] using this
  have hr1' : r.1 = collapse x ++ List.replicate (cap - (collapse x).length) 0 := by
    rw [hr1]
    unfold fillSlice
    have hs : (normLoop bh len.toNat 0 0 b64Invalid 0).2 ≤ len.toNat := by rw [h2]; exact hcl
    rw [← h2, h3, h4, htl, List.append_assoc, List.replicate_append_replicate]
    congr 2
    omega
  refine ⟨hr1', hr2n, ?_, ?_⟩
  · refine ⟨by rw [hr1']; simp; omega, by omega, ?_, ?_, ?_⟩
    · intro y hy
      rw [hr1', hr2n, List.take_left'] at hy
      · exact hsym y (collapse_mem _ _ hy)
      · rfl
    · intro y hy
      rw [hr1', hr2n, List.drop_left'] at hy
      · exact (List.mem_replicate.mp hy).2
      · rfl
    · intro _
      rw [hr1', hr2n, List.take_left' rfl]
      exact collapse_idem x
  · rw [hr1', hr2n, List.take_left' rfl]

end Ffuzzy
