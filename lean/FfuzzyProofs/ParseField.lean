/-
  Glue between the field parsers and the reference grammar: the loop output is the decoded
  (and, for normalising types, run-collapsed) base64 prefix; the capacity conditions coincide;
  the buffer written from a zero-initialised array is a valid block hash.
-/
import FfuzzyProofs.ParseBh
import FfuzzyProofs.ParseBs
import FfuzzyProofs.HashValid
namespace Ffuzzy.ParseField
open Ffuzzy Ffuzzy.Spec Ffuzzy.Collapse Ffuzzy.ParseBh

/-- `collapse` commutes with a map that is injective on the elements of the list -/
theorem collapseAux_map (f : UInt8 → UInt8) : ∀ (xs : List UInt8) (prev : Option UInt8) (run : Nat),
    (∀ a ∈ xs, ∀ b ∈ xs, f a = f b → a = b) → (∀ p, prev = some p → ∀ a ∈ xs, f a = f p → a = p) →
    collapseAux (xs.map f) (prev.map f) run = (collapseAux xs prev run).map f := by
  intro xs
  induction xs with
  | nil => intro _ _ _ _; simp [collapseAux]
  | cons x xs ih =>
    intro prev run hinj hprev
    simp only [List.map_cons, collapseAux]
    have hxs : ∀ a ∈ xs, ∀ b ∈ xs, f a = f b → a = b := fun a ha b hb => hinj a (by simp [ha]) b (by simp [hb])
    by_cases he : prev = some x
    · subst he
      simp only [Option.map_some, if_true]
      split
      · exact ih (some x) run hxs (fun p hp a ha hfa => by
          have := Option.some.inj hp; subst this
          exact hinj a (by simp [ha]) x (by simp) hfa)
      · simp only [List.map_cons]
        congr 1
        exact ih (some x) (run + 1) hxs (fun p hp a ha hfa => by
          have := Option.some.inj hp; subst this
          exact hinj a (by simp [ha]) x (by simp) hfa)
    · have he' : ¬ (prev.map f = some (f x)) := by
        intro h
        cases prev with
        | none => simp at h
        | some p =>
          simp only [Option.map_some, Option.some.injEq] at h
          have := hprev p rfl x (by simp) h.symm
          exact he (by rw [this])
      rw [if_neg he, if_neg he']
      simp only [List.map_cons]
      congr 1
      have := ih (some x) 1 hxs (fun p hp a ha hfa => by
          have := Option.some.inj hp; subst this
          exact hinj a (by simp [ha]) x (by simp) hfa)
      simpa using this

theorem collapse_map (f : UInt8 → UInt8) (xs : List UInt8) (hinj : ∀ a ∈ xs, ∀ b ∈ xs, f a = f b → a = b) :
    collapse (xs.map f) = (collapse xs).map f := by
  unfold collapse
  have := collapseAux_map f xs none 0 hinj (fun p hp => by simp at hp)
  simpa using this

/-- decoding is injective on base64 characters (the encoder inverts it) -/
theorem b64_roundtrip_fin : ∀ i : Fin 256, isB64 i.val.toUInt8 = true →
    b64Char (b64Index i.val.toUInt8) = i.val.toUInt8 ∧ b64Index i.val.toUInt8 < 64 := by decide +kernel

theorem b64_roundtrip (c : UInt8) (h : isB64 c = true) : b64Char (b64Index c) = c ∧ b64Index c < 64 := by
  have e : c.toNat.toUInt8 = c := by
    apply UInt8.toNat_inj.mp
    simp [Nat.toUInt8, UInt8.toNat_ofNat']
  have := b64_roundtrip_fin ⟨c.toNat, c.toNat_lt⟩
  simp only [e] at this
  exact this h

theorem b64Index_inj (a b : UInt8) (ha : isB64 a = true) (hb : isB64 b = true) (h : b64Index a = b64Index b) : a = b := by
  rw [← (b64_roundtrip a ha).1, ← (b64_roundtrip b hb).1, h]

theorem b64Index_ne_invalid (c : UInt8) (h : isB64 c = true) : b64Index c ≠ b64Invalid := by
  have := (b64_roundtrip c h).2
  intro e; rw [e] at this; exact absurd this (by decide)

/-- what the loop writes is the reference block hash -/
theorem outOf_eq_ref (nm : Bool) (bytes : List UInt8) :
    outOf nm bytes 0 b64Invalid = (if nm then collapse (pre bytes) else pre bytes).map b64Index := by
  unfold outOf
  cases nm with
  | false => simp
  | true =>
    simp only [if_true]
    rw [normList_eq_collapse _ (by
      intro x hx
      simp only [List.mem_map] at hx
      obtain ⟨c, hc, rfl⟩ := hx
      exact b64Index_ne_invalid c (pre_all bytes c hc))]
    exact collapse_map b64Index (pre bytes) (fun a ha b hb => b64Index_inj a b (pre_all bytes a ha) (pre_all bytes b hb))

/-- the capacity conditions coincide -/
theorem fits_iff (cfg : Cfg) (n : Nat) (nm lr dual : Bool) (bytes : List UInt8)
    (hd : (dual = true → nm = true ∧ lr = true) ∧ (dual = false → lr = false)) :
    fitsF cfg n nm lr bytes ↔ fits cfg nm dual n (pre bytes) = true := by
  unfold fitsF fits
  have hle := out_length_le nm bytes 0 b64Invalid
  have hout := outOf_eq_ref nm bytes
  cases hs : cfg.strictParser
  · simp only [Bool.false_eq_true, if_false, Bool.not_false, Bool.and_true]
    cases dual
    · have := hd.2 rfl
      subst this
      simp only [Bool.false_eq_true, false_imp_iff, and_true, Bool.not_false, Bool.and_true]
      rw [hout]
      cases nm <;> simp
    · obtain ⟨h1, h2⟩ := hd.1 rfl
      subst h1; subst h2
      simp only [Bool.not_true, Bool.and_false, Bool.false_eq_true, if_false, forall_const, decide_eq_true_eq]
      constructor
      · intro h; exact h.2
      · intro h; exact ⟨by omega, h⟩
  · simp

/-- a buffer written from a zero-initialised array -/
theorem wrote_zero {n : Nat} {bh' out : List UInt8} (h : Wrote (List.replicate n 0) bh' 0 out) :
    bh' = padTo out n 0 := by
  obtain ⟨h1, h2⟩ := h.take
  have hf := h.fits
  simp only [Nat.zero_add, List.take_zero, List.nil_append, List.length_replicate] at h1 h2 hf
  unfold padTo
  rw [← List.take_append_drop out.length bh', h1, h2]
  simp

theorem collapse_sym (xs : List UInt8) (h : ∀ x ∈ xs, x < 64) : ∀ x ∈ collapse xs, x < 64 :=
  fun x hx => h x (collapse_mem xs x hx)

/-- the parsed array is a valid block hash of its type -/
theorem bhValid_of_ref (n : Nat) (nm : Bool) (x : List UInt8) (hx : ∀ c ∈ x, isB64 c = true)
    (hfit : ((if nm then collapse x else x).map b64Index).length ≤ n) (hn : n ≤ 255) :
    FH.BhValid n nm (padTo ((if nm then collapse x else x).map b64Index) n 0)
      ((if nm then collapse x else x).map b64Index).length.toUInt8 := by
  generalize hy : (if nm then collapse x else x).map b64Index = y at hfit ⊢
  have hlen : y.length.toUInt8.toNat = y.length := by
    simp [Nat.toUInt8, UInt8.toNat_ofNat']
    omega
  have hsym : ∀ s ∈ y, s < 64 := by
    intro s hs
    rw [← hy] at hs
    simp only [List.mem_map] at hs
    obtain ⟨c, hc, rfl⟩ := hs
    have hcx : c ∈ x := by
      cases nm
      · simpa using hc
      · exact collapse_mem x c (by simpa using hc)
    exact (b64_roundtrip c (hx c hcx)).2
  refine ⟨by unfold padTo; simp; omega, by rw [hlen]; exact hfit, ?_, ?_, ?_⟩
  · rw [hlen]; unfold padTo; rw [List.take_left']
    · exact hsym
    · rfl
  · rw [hlen]; unfold padTo; rw [List.drop_left']
    · intro s hs; exact (List.mem_replicate.mp hs).2
    · rfl
  · intro hnm
    subst hnm
    rw [hlen]; unfold padTo; rw [List.take_left' rfl]
    simp only [if_true] at hy
    rw [← hy, ← collapse_map b64Index x (fun a ha b hb => b64Index_inj a b (hx a ha) (hx b hb))]
    exact collapse_idem _

end Ffuzzy.ParseField
