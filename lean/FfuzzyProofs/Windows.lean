/-
  Numeric / index windows (hash/block.rs): each numeric window is the base-64 number of the
  corresponding 7-symbol slice; the encoding is injective; index windows add the block size.
-/
import FfuzzyModel.Compare
namespace Ffuzzy.Windows
open Ffuzzy

/-- base-64 number of a symbol string, most significant first -/
def enc (w : List UInt8) : Nat := w.foldl (fun acc v => acc * 64 + v.toNat) 0

theorem enc_snoc (w : List UInt8) (v : UInt8) : enc (w ++ [v]) = enc w * 64 + v.toNat := by
  simp [enc, List.foldl_append]

theorem foldl_enc (w : List UInt8) (a : Nat) :
    w.foldl (fun acc v => acc * 64 + v.toNat) a = a * 64 ^ w.length + enc w := by
  induction w generalizing a with
  | nil => simp [enc]
  | cons x xs ih =>
    simp only [List.foldl_cons, List.length_cons, enc]
    rw [ih, ih (0 * 64 + x.toNat)]
    rw [Nat.pow_succ]
    simp only [Nat.zero_mul, Nat.zero_add]
    rw [Nat.add_mul, Nat.add_assoc]
    congr 1
    rw [Nat.mul_assoc, Nat.mul_comm 64]

theorem enc_cons (x : UInt8) (w : List UInt8) : enc (x :: w) = x.toNat * 64 ^ w.length + enc w := by
  simp only [enc, List.foldl_cons]
  rw [foldl_enc]
  simp [enc]

theorem enc_append (a b : List UInt8) : enc (a ++ b) = enc a * 64 ^ b.length + enc b := by
  simp only [enc, List.foldl_append]
  rw [foldl_enc]
  rfl

theorem enc_lt (w : List UInt8) (h : ∀ x ∈ w, x.toNat < 64) : enc w < 64 ^ w.length := by
  induction w with
  | nil => simp [enc]
  | cons x xs ih =>
    rw [enc_cons, List.length_cons, Nat.pow_succ]
    have h1 := h x (by simp)
    have h2 := ih (fun y hy => h y (by simp [hy]))
    have : x.toNat * 64 ^ xs.length ≤ 63 * 64 ^ xs.length := Nat.mul_le_mul_right _ (by omega)
    omega

/-- the encoding is injective on strings of one length over the 64-symbol alphabet -/
theorem enc_inj : ∀ (a b : List UInt8), a.length = b.length → (∀ x ∈ a, x.toNat < 64) → (∀ x ∈ b, x.toNat < 64) →
    enc a = enc b → a = b := by
  intro a
  induction a with
  | nil => intro b hl _ _ _; cases b with
    | nil => rfl
    | cons y ys => simp at hl
  | cons x xs ih =>
    intro b hl ha hb he
    cases b with
    | nil => simp at hl
    | cons y ys =>
      have hl' : xs.length = ys.length := by simpa using hl
      rw [enc_cons, enc_cons, hl'] at he
      have l1 := enc_lt xs (fun z hz => ha z (by simp [hz]))
      have l2 := enc_lt ys (fun z hz => hb z (by simp [hz]))
      rw [hl'] at l1
      have hp : 0 < 64 ^ ys.length := Nat.pow_pos (by omega)
      have hx : x.toNat = y.toNat := by
        have e1 : (x.toNat * 64 ^ ys.length + enc xs) / 64 ^ ys.length = x.toNat := by
          rw [Nat.mul_comm, Nat.mul_add_div hp, Nat.div_eq_of_lt l1]; rfl
        have e2 : (y.toNat * 64 ^ ys.length + enc ys) / 64 ^ ys.length = y.toNat := by
          rw [Nat.mul_comm, Nat.mul_add_div hp, Nat.div_eq_of_lt l2]; rfl
        rw [← e1, ← e2, he]
      have hr : enc xs = enc ys := by rw [hx] at he; omega
      have := ih ys hl' (fun z hz => ha z (by simp [hz])) (fun z hz => hb z (by simp [hz])) hr
      rw [this, UInt8.toNat_inj.mp hx]

/-- the value of the last 7 symbols of a string: the encoding of the whole string modulo `2^42` -/
theorem enc_mod (a b : List UInt8) (hb : b.length = 7) (hs : ∀ x ∈ b, x.toNat < 64) :
    enc (a ++ b) % 2 ^ 42 = enc b := by
  rw [enc_append, hb]
  have := enc_lt b hs
  rw [hb] at this
  have e : (64 : Nat) ^ 7 = 2 ^ 42 := by decide
  rw [e] at this ⊢
  rw [Nat.mul_add_mod_of_lt this]

/-- one step of the rolling update, on values -/
theorem step_toNat (h : BitVec 64) (v : UInt8) (hh : h.toNat < 2 ^ 42) (hv : v.toNat < 64) :
    ((((h <<< 6) ||| BitVec.ofNat 64 v.toNat) &&& ((1 : BitVec 64) <<< 42) - 1)).toNat =
      (h.toNat * 64 + v.toNat) % 2 ^ 42 := by
  have hm : (((1 : BitVec 64) <<< 42) - 1).toNat = 2 ^ 42 - 1 := by decide
  rw [BitVec.toNat_and, hm, Nat.and_two_pow_sub_one_eq_mod, BitVec.toNat_or, BitVec.toNat_shiftLeft,
    BitVec.toNat_ofNat]
  have h1 : h.toNat <<< 6 % 2 ^ 64 = h.toNat <<< 6 := by
    apply Nat.mod_eq_of_lt
    rw [Nat.shiftLeft_eq]
    have : h.toNat * 2 ^ 6 < 2 ^ 42 * 2 ^ 6 := Nat.mul_lt_mul_of_pos_right hh (by decide)
    have e : (2 : Nat) ^ 42 * 2 ^ 6 = 2 ^ 48 := by decide
    have e2 : (2 : Nat) ^ 48 < 2 ^ 64 := by decide
    omega
  have h2 : v.toNat % 2 ^ 64 = v.toNat := Nat.mod_eq_of_lt (by omega)
  rw [h1, h2, ← Nat.shiftLeft_add_eq_or_of_lt (by simpa using hv), Nat.shiftLeft_eq]

theorem mod_step (a v m : Nat) : (a % m * 64 + v) % m = (a * 64 + v) % m := by
  rw [Nat.add_mod, Nat.mul_mod, Nat.mod_mod, ← Nat.mul_mod, ← Nat.add_mod]

/-- the rolling loop: after the prefix `p`, each further symbol yields the value of the string so far -/
theorem loop_spec : ∀ (rest p : List UInt8) (hash : BitVec 64), hash.toNat = enc p % 2 ^ 42 →
    (∀ x ∈ rest, x.toNat < 64) →
    numericWindowsLoop rest hash =
      (List.range rest.length).map (fun t => BitVec.ofNat 64 (enc (p ++ rest.take (t + 1)) % 2 ^ 42)) := by
  intro rest
  induction rest with
  | nil => intro p hash _ _; simp [numericWindowsLoop]
  | cons v rest ih =>
    intro p hash hp hs
    have hv := hs v (by simp)
    have hlt : hash.toNat < 2 ^ 42 := by rw [hp]; exact Nat.mod_lt _ (by decide)
    have hn := step_toNat hash v hlt hv
    rw [hp, mod_step, ← enc_snoc] at hn
    rw [numericWindowsLoop]
    rw [ih (p ++ [v]) _ hn (fun x hx => hs x (by simp [hx]))]
    rw [List.length_cons, List.range_succ_eq_map, List.map_cons, List.map_map]
    congr 1
    · simp only [Nat.zero_add, List.take_succ_cons, List.take_zero]
      rw [← hn, BitVec.ofNat_toNat, BitVec.setWidth_eq]
    · apply List.map_congr_left
      intro t _
      simp [List.append_assoc]

/-- the initial value: the first six symbols -/
theorem init_spec (v0 v1 v2 v3 v4 v5 : UInt8) (h0 : v0.toNat < 64) (h1 : v1.toNat < 64) (h2 : v2.toNat < 64)
    (h3 : v3.toNat < 64) (h4 : v4.toNat < 64) (h5 : v5.toNat < 64) :
    (([v0, v1, v2, v3, v4, v5].zipIdx.foldl
      (fun acc (p : UInt8 × Nat) => acc ||| (BitVec.ofNat 64 p.1.toNat <<< (6 * (5 - p.2)))) (0 : BitVec 64))).toNat =
      enc [v0, v1, v2, v3, v4, v5] := by
  have field : ∀ (q v s : Nat), v < 64 → (q * 64) * 2 ^ s ||| v * 2 ^ s = (q * 64 + v) * 2 ^ s := by
    intro q v s hv
    rw [← Nat.shiftLeft_eq, ← Nat.shiftLeft_eq, ← Nat.shiftLeft_eq, ← Nat.shiftLeft_or_distrib]
    congr 1
    have : q * 64 = q <<< 6 := by rw [Nat.shiftLeft_eq]
    rw [this, ← Nat.shiftLeft_add_eq_or_of_lt (by simpa using hv)]
  have sh : ∀ (v : UInt8) (s : Nat), v.toNat < 64 → s ≤ 30 →
      (BitVec.ofNat 64 v.toNat <<< s).toNat = v.toNat * 2 ^ s := by
    intro v s hv hs
    rw [BitVec.toNat_shiftLeft, BitVec.toNat_ofNat, Nat.mod_eq_of_lt (by omega : v.toNat < 2 ^ 64), Nat.shiftLeft_eq]
    apply Nat.mod_eq_of_lt
    have : 2 ^ s ≤ 2 ^ 30 := Nat.pow_le_pow_right (by omega) hs
    have : v.toNat * 2 ^ s ≤ 63 * 2 ^ 30 := Nat.mul_le_mul (by omega) this
    have e : (63 : Nat) * 2 ^ 30 < 2 ^ 64 := by decide
    omega
  simp only [List.zipIdx_cons, List.zipIdx_nil, List.foldl_cons, List.foldl_nil, Nat.zero_add, Nat.reduceAdd,
    Nat.reduceSub, Nat.reduceMul]
  simp only [BitVec.toNat_or, BitVec.toNat_zero, Nat.zero_or]
  rw [sh v0 _ h0 (by omega), sh v1 _ h1 (by omega), sh v2 _ h2 (by omega), sh v3 _ h3 (by omega),
    sh v4 _ h4 (by omega), sh v5 _ h5 (by omega)]
  have e30 : (2 : Nat) ^ 30 = 64 * 2 ^ 24 := by decide
  have e24 : (2 : Nat) ^ 24 = 64 * 2 ^ 18 := by decide
  have e18 : (2 : Nat) ^ 18 = 64 * 2 ^ 12 := by decide
  have e12 : (2 : Nat) ^ 12 = 64 * 2 ^ 6 := by decide
  have e6 : (2 : Nat) ^ 6 = 64 * 2 ^ 0 := by decide
  have z : (0 : BitVec 64).toNat = 0 := rfl
  rw [z, Nat.zero_or]
  rw [e30, ← Nat.mul_assoc, field _ _ _ h1, e24, ← Nat.mul_assoc, field _ _ _ h2, e18, ← Nat.mul_assoc, field _ _ _ h3,
    e12, ← Nat.mul_assoc, field _ _ _ h4, e6, ← Nat.mul_assoc, field _ _ _ h5]
  simp [enc]

/-- **numeric windows.** the `t`-th value is the base-64 number of the slice `bh[t .. t+7]` -/
theorem numericWindows_spec (bh : List UInt8) (hs : ∀ x ∈ bh, x.toNat < 64) :
    numericWindows bh =
      (List.range (bh.length - 6)).map (fun t => BitVec.ofNat 64 (enc ((bh.drop t).take 7))) := by
  unfold numericWindows MIN_LCS_FOR_COMPARISON
  by_cases hl : bh.length < 7
  · rw [if_pos hl]
    have : bh.length - 6 = 0 := by omega
    rw [this]; rfl
  · rw [if_neg hl]
    match bh, hs, hl with
    | v0 :: v1 :: v2 :: v3 :: v4 :: v5 :: rest, hs, hl =>
      have h0 := hs v0 (by simp)
      have h1 := hs v1 (by simp)
      have h2 := hs v2 (by simp)
      have h3 := hs v3 (by simp)
      have h4 := hs v4 (by simp)
      have h5 := hs v5 (by simp)
      have hi := init_spec v0 v1 v2 v3 v4 v5 h0 h1 h2 h3 h4 h5
      have hp6 : ∀ x ∈ [v0, v1, v2, v3, v4, v5], x.toNat < 64 := fun x hx => hs x (by
        simp only [List.mem_cons, List.mem_nil_iff, or_false] at hx ⊢
        rcases hx with e | e | e | e | e | e <;> simp [e])
      have hlt6 := enc_lt [v0, v1, v2, v3, v4, v5] hp6
      have e6 : (64 : Nat) ^ [v0, v1, v2, v3, v4, v5].length < 2 ^ 42 := by
        show (64 : Nat) ^ 6 < 2 ^ 42
        decide
      have hmod : enc [v0, v1, v2, v3, v4, v5] % 2 ^ 42 = enc [v0, v1, v2, v3, v4, v5] :=
        Nat.mod_eq_of_lt (by omega)
      simp only [List.take_succ_cons, List.take_zero, List.drop_succ_cons, List.drop_zero]
      rw [loop_spec rest [v0, v1, v2, v3, v4, v5] _ (by rw [hi, hmod]) (fun x hx => hs x (by simp [hx]))]
      have hlen : (v0 :: v1 :: v2 :: v3 :: v4 :: v5 :: rest).length - 6 = rest.length := by simp
      rw [hlen]
      apply List.map_congr_left
      intro t ht
      simp only [List.mem_range] at ht
      congr 1
      -- the first `t + 7` symbols end with the slice
      have hsplit : [v0, v1, v2, v3, v4, v5] ++ rest.take (t + 1) =
          (v0 :: v1 :: v2 :: v3 :: v4 :: v5 :: rest).take t ++
            ((v0 :: v1 :: v2 :: v3 :: v4 :: v5 :: rest).drop t).take 7 := by
        have e1 : [v0, v1, v2, v3, v4, v5] ++ rest.take (t + 1) =
            (v0 :: v1 :: v2 :: v3 :: v4 :: v5 :: rest).take (t + 7) := by
          simp [List.take_succ_cons]
        rw [e1, ← List.take_add]
      rw [hsplit]
      apply enc_mod
      · simp only [List.length_take, List.length_drop, List.length_cons]; omega
      · intro x hx
        exact hs x ((List.drop_sublist _ _).subset ((List.take_sublist _ _).subset hx))
    | [], _, hl => simp at hl
    | [_], _, hl => simp at hl
    | [_, _], _, hl => simp at hl
    | [_, _, _], _, hl => simp at hl
    | [_, _, _, _], _, hl => simp at hl
    | [_, _, _, _, _], _, hl => simp at hl

/-- `slice::windows(7)` as slices at every offset -/
theorem windows7_spec (l : List UInt8) :
    windows7 l = (List.range (l.length - 6)).map (fun t => (l.drop t).take 7) := by
  induction l with
  | nil => rfl
  | cons x xs ih =>
    rw [windows7]
    by_cases h : (x :: xs).length < 7
    · rw [if_pos h]
      have : (x :: xs).length - 6 = 0 := by omega
      rw [this]; rfl
    · rw [if_neg h, ih]
      have hl : (x :: xs).length - 6 = (xs.length - 6) + 1 := by simp at h ⊢; omega
      rw [hl, List.range_succ_eq_map, List.map_cons, List.map_map]
      congr 1

/-- **numeric windows = encoded 7-symbol windows** -/
theorem numericWindows_eq_windows7 (bh : List UInt8) (hs : ∀ x ∈ bh, x.toNat < 64) :
    numericWindows bh = (windows7 bh).map (fun w => BitVec.ofNat 64 (enc w)) := by
  rw [numericWindows_spec bh hs, windows7_spec, List.map_map]
  rfl

theorem index_toNat (x : BitVec 64) (log : UInt8) (hx : x.toNat < 2 ^ 42) (hl : log.toNat < 32) :
    (x ||| (BitVec.ofNat 64 log.toNat <<< 42)).toNat = log.toNat * 2 ^ 42 + x.toNat := by
  rw [BitVec.toNat_or, BitVec.toNat_shiftLeft, BitVec.toNat_ofNat, Nat.mod_eq_of_lt (by omega : log.toNat < 2 ^ 64)]
  have h1 : log.toNat <<< 42 % 2 ^ 64 = log.toNat <<< 42 := by
    apply Nat.mod_eq_of_lt
    rw [Nat.shiftLeft_eq]
    have : log.toNat * 2 ^ 42 < 32 * 2 ^ 42 := Nat.mul_lt_mul_of_pos_right hl (by decide)
    have e : (32 : Nat) * 2 ^ 42 < 2 ^ 64 := by decide
    exact Nat.lt_trans this e
  rw [h1, Nat.or_comm, ← Nat.shiftLeft_add_eq_or_of_lt hx, Nat.shiftLeft_eq]

theorem slice_eq_iff (a b : List UInt8) (i j : Nat) (hi : i + 7 ≤ a.length) (hj : j + 7 ≤ b.length) :
    (a.drop i).take 7 = (b.drop j).take 7 ↔ ∀ t, t < 7 → a[i + t]? = b[j + t]? := by
  constructor
  · intro h t ht
    have := congrArg (fun l => l[t]?) h
    simp only [List.getElem?_take, ht, if_true, List.getElem?_drop] at this
    exact this
  · intro h
    apply List.ext_getElem?
    intro t
    by_cases ht : t < 7
    · simp only [List.getElem?_take, ht, if_true, List.getElem?_drop]; exact h t ht
    · simp [List.getElem?_take, ht]

/-- **index windows.** two index-window sets intersect exactly when the block sizes agree and the
    block hashes share a 7-symbol substring: the pre-filter neither loses nor invents a match -/
theorem index_inter_iff (a b : List UInt8) (ka kb : UInt8) (ha : ∀ x ∈ a, x.toNat < 64) (hb : ∀ x ∈ b, x.toNat < 64)
    (hka : ka.toNat < 32) (hkb : kb.toNat < 32) :
    (∃ x, x ∈ indexWindows a ka ∧ x ∈ indexWindows b kb) ↔
      (ka = kb ∧ ∃ i j, i + 7 ≤ a.length ∧ j + 7 ≤ b.length ∧ ∀ t, t < 7 → a[i + t]? = b[j + t]?) := by
  unfold indexWindows
  rw [numericWindows_spec a ha, numericWindows_spec b hb]
  simp only [List.map_map, List.mem_map, List.mem_range, Function.comp]
  have hslice : ∀ (l : List UInt8) (t : Nat), (∀ x ∈ l, x.toNat < 64) → t < l.length - 6 →
      ((l.drop t).take 7).length = 7 ∧ (∀ x ∈ (l.drop t).take 7, x.toNat < 64) ∧ enc ((l.drop t).take 7) < 2 ^ 42 := by
    intro l t hl ht
    have h7 : ((l.drop t).take 7).length = 7 := by simp only [List.length_take, List.length_drop]; omega
    have hsym : ∀ x ∈ (l.drop t).take 7, x.toNat < 64 := fun x hx =>
      hl x ((List.drop_sublist _ _).subset ((List.take_sublist _ _).subset hx))
    have := enc_lt _ hsym
    rw [h7] at this
    have e : (64 : Nat) ^ 7 = 2 ^ 42 := by decide
    exact ⟨h7, hsym, by omega⟩
  have hval : ∀ (l : List UInt8) (t : Nat) (k : UInt8), (∀ x ∈ l, x.toNat < 64) → t < l.length - 6 → k.toNat < 32 →
      (BitVec.ofNat 64 (enc ((l.drop t).take 7)) ||| (BitVec.ofNat 64 k.toNat <<< 42)).toNat =
        k.toNat * 2 ^ 42 + enc ((l.drop t).take 7) := by
    intro l t k hl ht hk
    have hlt := (hslice l t hl ht).2.2
    have e : (BitVec.ofNat 64 (enc ((l.drop t).take 7))).toNat = enc ((l.drop t).take 7) := by
      rw [BitVec.toNat_ofNat]; exact Nat.mod_eq_of_lt (by omega)
    rw [index_toNat _ _ (by rw [e]; exact hlt) hk, e]
  constructor
  · rintro ⟨x, ⟨i, hi, rfl⟩, ⟨j, hj, he⟩⟩
    have hn := congrArg BitVec.toNat he
    rw [hval a i ka ha hi hka, hval b j kb hb hj hkb] at hn
    have la := (hslice a i ha hi)
    have lb := (hslice b j hb hj)
    have hk : ka.toNat = kb.toNat := by omega
    have henc : enc ((a.drop i).take 7) = enc ((b.drop j).take 7) := by omega
    have hs := enc_inj _ _ (by rw [la.1, lb.1]) la.2.1 lb.2.1 henc
    refine ⟨UInt8.toNat_inj.mp hk, i, j, by omega, by omega, ?_⟩
    exact (slice_eq_iff a b i j (by omega) (by omega)).mp hs
  · rintro ⟨hk, i, j, hi, hj, h⟩
    have hs := (slice_eq_iff a b i j hi hj).mpr h
    refine ⟨_, ⟨i, by omega, rfl⟩, ⟨j, by omega, ?_⟩⟩
    rw [hs, hk]

end Ffuzzy.Windows
