/-
  Textbook LCS: characterisation by common subsequences, symmetry, Lipschitz facts, and
  equality of the quadratic DP used as run-time oracle with the recursive definition.
-/
import FfuzzyModel.Spec.Score
namespace Ffuzzy.Spec
variable {α : Type} [DecidableEq α]

theorem lcs_ub : ∀ (a b s : List α), s.Sublist a → s.Sublist b → s.length ≤ lcs a b := by
  intro a b
  induction a, b using lcs.induct with
  | case1 b => intro s ha _; simp [List.sublist_nil.mp ha]
  | case2 x xs => intro s _ hb; simp [List.sublist_nil.mp hb]
  | case3 xs x ys ih =>
    intro s ha hb
    rw [lcs, if_pos rfl]
    cases s with
    | nil => simp
    | cons z s' =>
      have h1 : s'.Sublist xs := by
        cases ha with
        | cons _ h => exact (List.sublist_cons_self z s').trans h
        | cons_cons _ h => exact h
      have h2 : s'.Sublist ys := by
        cases hb with
        | cons _ h => exact (List.sublist_cons_self z s').trans h
        | cons_cons _ h => exact h
      have := ih s' h1 h2
      simp; omega
  | case4 x xs y ys hxy ih1 ih2 =>
    intro s ha hb
    rw [lcs, if_neg hxy]
    cases ha with
    | cons _ h => have := ih1 s h hb; omega
    | cons_cons _ h =>
      cases hb with
      | cons _ h' => have := ih2 _ (List.Sublist.cons_cons _ h) h'; omega
      | cons_cons _ h' => exact absurd rfl hxy

theorem lcs_wit : ∀ (a b : List α), ∃ s : List α, s.Sublist a ∧ s.Sublist b ∧ s.length = lcs a b := by
  intro a b
  induction a, b using lcs.induct with
  | case1 b => exact ⟨[], by simp, by simp, by simp [lcs]⟩
  | case2 x xs => exact ⟨[], by simp, by simp, by simp [lcs]⟩
  | case3 xs x ys ih =>
    obtain ⟨s, h1, h2, h3⟩ := ih
    exact ⟨x :: s, h1.cons_cons _, h2.cons_cons _, by simp [lcs, h3]⟩
  | case4 x xs y ys hxy ih1 ih2 =>
    obtain ⟨s1, a1, b1, c1⟩ := ih1
    obtain ⟨s2, a2, b2, c2⟩ := ih2
    rw [lcs, if_neg hxy]
    by_cases h : lcs xs (y :: ys) ≤ lcs (x :: xs) ys
    · exact ⟨s2, a2, b2.cons _, by rw [c2]; omega⟩
    · exact ⟨s1, a1.cons _, b1, by rw [c1]; omega⟩

/-- `lcs a b` is the maximum length of a common subsequence -/
theorem lcs_is_max_common_sublist (a b : List α) :
    (∃ s : List α, s.Sublist a ∧ s.Sublist b ∧ s.length = lcs a b) ∧
    (∀ s : List α, s.Sublist a → s.Sublist b → s.length ≤ lcs a b) :=
  ⟨lcs_wit a b, lcs_ub a b⟩

theorem lcs_reverse (a b : List α) : lcs a.reverse b.reverse = lcs a b := by
  apply Nat.le_antisymm
  · obtain ⟨s, h1, h2, h3⟩ := lcs_wit a.reverse b.reverse
    have := lcs_ub a b s.reverse (by simpa using h1.reverse) (by simpa using h2.reverse)
    simp at this; omega
  · obtain ⟨s, h1, h2, h3⟩ := lcs_wit a b
    have := lcs_ub a.reverse b.reverse s.reverse h1.reverse h2.reverse
    simp at this; omega

theorem lcs_comm (a b : List α) : lcs a b = lcs b a := by
  apply Nat.le_antisymm
  · obtain ⟨s, h1, h2, h3⟩ := lcs_wit a b
    have := lcs_ub b a s h2 h1; omega
  · obtain ⟨s, h1, h2, h3⟩ := lcs_wit b a
    have := lcs_ub a b s h2 h1; omega

theorem lcs_cons_le (x : α) (a b : List α) : lcs a b ≤ lcs (x :: a) b := by
  obtain ⟨s, h1, h2, h3⟩ := lcs_wit a b
  have := lcs_ub (x :: a) b s (h1.cons _) h2; omega

theorem lcs_cons_le_succ (x : α) (a b : List α) : lcs (x :: a) b ≤ lcs a b + 1 := by
  obtain ⟨s, h1, h2, h3⟩ := lcs_wit (x :: a) b
  cases h1 with
  | cons _ h => have := lcs_ub a b s h h2; omega
  | cons_cons _ h =>
    rename_i s'
    have := lcs_ub a b s' h ((List.sublist_cons_self x s').trans h2)
    simp at h3; omega

theorem lcs_cons_le' (y : α) (a b : List α) : lcs a b ≤ lcs a (y :: b) := by
  rw [lcs_comm a b, lcs_comm a (y :: b)]; exact lcs_cons_le y b a
theorem lcs_cons_le_succ' (y : α) (a b : List α) : lcs a (y :: b) ≤ lcs a b + 1 := by
  rw [lcs_comm a b, lcs_comm a (y :: b)]; exact lcs_cons_le_succ y b a

theorem lcs_nil_right (a : List α) : lcs a ([] : List α) = 0 := by cases a <;> simp [lcs]

theorem lcs_le_left (a b : List α) : lcs a b ≤ a.length := by
  obtain ⟨s, h1, _, h3⟩ := lcs_wit a b
  have := h1.length_le; omega

theorem lcs_le_right (a b : List α) : lcs a b ≤ b.length := by
  obtain ⟨s, _, h2, h3⟩ := lcs_wit a b
  have := h2.length_le; omega

theorem lcs_self (a : List α) : lcs a a = a.length := by
  apply Nat.le_antisymm (lcs_le_left a a)
  exact lcs_ub a a a (List.Sublist.refl a) (List.Sublist.refl a)

/-! ### the DP oracle equals the recursion -/

/-- all suffixes, longest first -/
def tailsL : List α → List (List α)
  | [] => [[]]
  | x :: xs => (x :: xs) :: tailsL xs

theorem tailsL_length (l : List α) : (tailsL l).length = l.length + 1 := by
  induction l with
  | nil => rfl
  | cons x xs ih => simp [tailsL, ih]

theorem lcsRow_spec (x : α) (xs : List α) :
    ∀ ys : List α, lcsRow x ys ((tailsL ys).map (lcs xs)) = (tailsL ys).map (lcs (x :: xs)) := by
  intro ys
  induction ys with
  | nil => simp [lcsRow, tailsL, lcs_nil_right]
  | cons y ys ih =>
    simp only [tailsL, List.map_cons, lcsRow, List.tail_cons]
    rw [ih]
    congr 1
    cases ys with
    | nil => simp [lcs, tailsL]
    | cons z zs => simp [tailsL, lcs]

theorem lcsDP_eq_lcs (a b : List α) : lcsDP a b = lcs a b := by
  unfold lcsDP
  have h : ∀ a : List α, a.foldr (fun x prev => lcsRow x b prev) (List.replicate (b.length + 1) 0)
      = (tailsL b).map (lcs a) := by
    intro a
    induction a with
    | nil =>
      simp only [List.foldr_nil]
      apply List.ext_getElem
      · simp [tailsL_length]
      · intro i h1 h2; simp [lcs]
    | cons x xs ih => simp only [List.foldr_cons, ih, lcsRow_spec]
  rw [h a]
  cases b <;> simp [tailsL]

theorem editDistanceDP_eq (a b : List UInt8) : editDistanceDP a b = editDistance a b := by
  simp [editDistanceDP, editDistance, lcsDP_eq_lcs]

theorem scoreDP_eq : scoreDP = score := by
  unfold scoreDP score
  have : editDistanceDP = editDistance := by funext a b; exact editDistanceDP_eq a b
  rw [this]

end Ffuzzy.Spec
