/-
  The block-hash field parser (`parse_block_hash_from_bytes_internal`): what the scanning loop
  leaves in the buffer, when it reports overflow, where it stops.  (C04, used by C05 / C06 / C11)
-/
import FfuzzyModel.Spec.Grammar
import FfuzzyProofs.Collapse
namespace Ffuzzy.ParseBh
open Ffuzzy Ffuzzy.Spec Ffuzzy.Collapse

/-- decoded symbols of the base64 prefix of a byte string -/
def pre (cs : List UInt8) : List UInt8 := cs.takeWhile isB64
def post (cs : List UInt8) : List UInt8 := cs.drop (pre cs).length

/-- what the loop appends to the buffer when started in state `(seq, prev)` -/
def outOf (normalize : Bool) (cs : List UInt8) (seq : Nat) (prev : UInt8) : List UInt8 :=
  if normalize then normList ((pre cs).map b64Index) seq prev else (pre cs).map b64Index

/-- writing `out` into `bh` from position `len` (which must fit) -/
structure Wrote (bh bh' : List UInt8) (len : Nat) (out : List UInt8) : Prop where
  length : bh'.length = bh.length
  fits : len + out.length ≤ bh.length
  get : ∀ j, bh'[j]? = if len ≤ j ∧ j < len + out.length then out[j - len]? else bh[j]?

theorem Wrote.nil (bh : List UInt8) (len : Nat) (h : len ≤ bh.length) : Wrote bh bh len [] :=
  ⟨rfl, by simpa using h, fun j => by simp; intro h1 h2; omega⟩

theorem Wrote.one (bh : List UInt8) (len : Nat) (c : UInt8) (h : len < bh.length) : Wrote bh (bh.set len c) len [c] := by
  refine ⟨by simp, by simp; omega, ?_⟩
  intro j
  rw [List.getElem?_set]
  by_cases e : len = j
  · subst e
    simp [h]
  · have : ¬ (len ≤ j ∧ j < len + [c].length) := by simp; omega
    rw [if_neg e, if_neg this]

theorem Wrote.trans {bh b1 b2 : List UInt8} {len : Nat} {o1 o2 : List UInt8}
    (h1 : Wrote bh b1 len o1) (h2 : Wrote b1 b2 (len + o1.length) o2) : Wrote bh b2 len (o1 ++ o2) := by
  refine ⟨h2.length.trans h1.length, by have := h2.fits; rw [h1.length] at this; simpa [Nat.add_assoc] using this, ?_⟩
  intro j
  rw [h2.get j, h1.get j]
  simp only [List.length_append]
  by_cases c2 : len + o1.length ≤ j ∧ j < len + o1.length + o2.length
  · rw [if_pos c2, if_pos ⟨by omega, by omega⟩, List.getElem?_append_right (by omega)]
    congr 1; omega
  · rw [if_neg c2]
    by_cases c1 : len ≤ j ∧ j < len + o1.length
    · rw [if_pos c1, if_pos ⟨by omega, by omega⟩, List.getElem?_append_left (by omega)]
    · rw [if_neg c1, if_neg (by omega)]

theorem Wrote.take {bh bh' : List UInt8} {len : Nat} {out : List UInt8} (h : Wrote bh bh' len out) :
    bh'.take (len + out.length) = bh.take len ++ out ∧ bh'.drop (len + out.length) = bh.drop (len + out.length) := by
  have hf := h.fits
  refine ⟨?_, ?_⟩
  · apply List.ext_getElem?
    intro j
    rw [List.getElem?_take]
    by_cases hj : j < len + out.length
    · rw [if_pos hj, h.get j]
      by_cases hl : len ≤ j
      · rw [if_pos ⟨hl, hj⟩, List.getElem?_append_right (by simp; omega)]
        simp only [List.length_take]
        congr 1; omega
      · rw [if_neg (by omega), List.getElem?_append_left (by simp; omega), List.getElem?_take, if_pos (by omega)]
    · rw [if_neg hj]
      symm
      apply List.getElem?_eq_none
      simp; omega
  · apply List.ext_getElem?
    intro j
    rw [List.getElem?_drop, List.getElem?_drop, h.get]
    rw [if_neg (by omega)]

theorem pre_cons_valid (c : UInt8) (cs : List UInt8) (h : isB64 c = true) : pre (c :: cs) = c :: pre cs := by
  simp [pre, List.takeWhile, h]

theorem pre_cons_invalid (c : UInt8) (cs : List UInt8) (h : isB64 c = false) : pre (c :: cs) = [] := by
  simp [pre, List.takeWhile, h]

theorem post_cons_valid (c : UInt8) (cs : List UInt8) (h : isB64 c = true) : post (c :: cs) = post cs := by
  simp [post, pre_cons_valid c cs h]

theorem post_cons_invalid (c : UInt8) (cs : List UInt8) (h : isB64 c = false) : post (c :: cs) = c :: cs := by
  simp [post, pre_cons_invalid c cs h]


theorem isB64_iff (c : UInt8) : isB64 c = true ↔ (b64Index c == b64Invalid) = false := by
  unfold isB64; cases h : (b64Index c == b64Invalid) <;> simp [bne, h]

@[simp] theorem bhTrack_len (nm : Bool) (c : UInt8) (s : BhLoop) : (bhTrack nm c s).len = s.len := by
  unfold bhTrack; repeat' split
  all_goals rfl
@[simp] theorem bhTrack_index (nm : Bool) (c : UInt8) (s : BhLoop) : (bhTrack nm c s).index = s.index := by
  unfold bhTrack; repeat' split
  all_goals rfl
@[simp] theorem bhTrack_bh (nm : Bool) (c : UInt8) (s : BhLoop) : (bhTrack nm c s).bh = s.bh := by
  unfold bhTrack; repeat' split
  all_goals rfl

/-- the state after a kept character -/
def keepS (nm : Bool) (c : UInt8) (s : BhLoop) : BhLoop :=
  { bhTrack nm c s with
    bh := (bhTrack nm c s).bh.set (bhTrack nm c s).len c, len := (bhTrack nm c s).len + 1,
    index := (bhTrack nm c s).index + 1 }

@[simp] theorem keepS_len (nm : Bool) (c : UInt8) (s : BhLoop) : (keepS nm c s).len = s.len + 1 := by
  simp [keepS]
@[simp] theorem keepS_index (nm : Bool) (c : UInt8) (s : BhLoop) : (keepS nm c s).index = s.index + 1 := by
  simp [keepS]
@[simp] theorem keepS_bh (nm : Bool) (c : UInt8) (s : BhLoop) : (keepS nm c s).bh = s.bh.set s.len c := by
  simp [keepS]
@[simp] theorem keepS_seq (nm : Bool) (c : UInt8) (s : BhLoop) : (keepS nm c s).seq = (bhTrack nm c s).seq := rfl
@[simp] theorem keepS_prev (nm : Bool) (c : UInt8) (s : BhLoop) : (keepS nm c s).prev = (bhTrack nm c s).prev := rfl

/-- the three ways the loop treats a base64 character -/
inductive Act | skip | keep

def actOf (normalize : Bool) (curr : UInt8) (s : BhLoop) : Act :=
  if normalize && curr == s.prev && decide (s.seq + 1 ≥ MAX_SEQUENCE_SIZE) then .skip else .keep

theorem out_skip (cs : List UInt8) (ch : UInt8) (s : BhLoop) (hv : isB64 ch = true)
    (h : (true && b64Index ch == s.prev && decide (s.seq + 1 ≥ MAX_SEQUENCE_SIZE)) = true) :
    outOf true (ch :: cs) s.seq s.prev = outOf true cs MAX_SEQUENCE_SIZE s.prev := by
  simp only [Bool.true_and, Bool.and_eq_true, decide_eq_true_eq] at h
  unfold outOf
  rw [pre_cons_valid ch cs hv]
  simp only [if_true, List.map_cons]
  rw [normList]; simp [h.1, h.2]

theorem out_keep (nm : Bool) (cs : List UInt8) (ch : UInt8) (s : BhLoop) (hv : isB64 ch = true)
    (h : (nm && b64Index ch == s.prev && decide (s.seq + 1 ≥ MAX_SEQUENCE_SIZE)) = false) :
    outOf nm (ch :: cs) s.seq s.prev =
      b64Index ch :: outOf nm cs (bhTrack nm (b64Index ch) s).seq (bhTrack nm (b64Index ch) s).prev := by
  unfold outOf bhTrack
  rw [pre_cons_valid ch cs hv]
  cases nm with
  | false => simp
  | true =>
    simp only [if_true, List.map_cons]
    simp only [Bool.true_and, Bool.and_eq_false_iff, decide_eq_false_iff_not] at h
    rw [normList]
    by_cases e : (b64Index ch == s.prev) = true
    · have : ¬ s.seq + 1 ≥ MAX_SEQUENCE_SIZE := by
        rcases h with h | h
        · rw [e] at h; exact absurd h (by simp)
        · exact h
      simp [e, this]
    · simp [e]

/-- the scanning loop with the capacity test compiled in (default parser) -/
theorem bhLoop_default (n : Nat) (normalize limitRaw : Bool) : ∀ (cs : List UInt8) (s : BhLoop),
    s.bh.length = n → s.len ≤ n → (limitRaw = true → s.index ≤ n) →
    ((s.len + (outOf normalize cs s.seq s.prev).length ≤ n ∧ (limitRaw = true → s.index + (pre cs).length ≤ n)) →
      ∃ s', bhLoop n normalize limitRaw true cs s = .done s' (!(post cs).isEmpty) (post cs).head? ∧
        s'.len = s.len + (outOf normalize cs s.seq s.prev).length ∧ s'.index = s.index + (pre cs).length ∧
        Wrote s.bh s'.bh s.len (outOf normalize cs s.seq s.prev)) ∧
    (¬ (s.len + (outOf normalize cs s.seq s.prev).length ≤ n ∧ (limitRaw = true → s.index + (pre cs).length ≤ n)) →
      ∃ s', bhLoop n normalize limitRaw true cs s = .overflow s') := by
  intro cs
  induction cs with
  | nil =>
    intro s hb hl hi
    have e : outOf normalize [] s.seq s.prev = [] := by unfold outOf pre; cases normalize <;> simp [normList]
    rw [e]
    refine ⟨fun _ => ⟨s, by simp [bhLoop, post, pre], by simp, by simp [pre], Wrote.nil s.bh s.len (by omega)⟩, fun h => ?_⟩
    exfalso; apply h
    exact ⟨by simpa using hl, fun h2 => by simpa [pre] using hi h2⟩
  | cons ch rest ih =>
    intro s hb hl hi
    by_cases hv : isB64 ch = true
    · have hinv := (isB64_iff ch).mp hv
      rw [pre_cons_valid ch rest hv, post_cons_valid ch rest hv]
      by_cases hraw : (true && limitRaw && decide (s.index ≥ n)) = true
      · -- raw length limit hit
        simp only [Bool.true_and, Bool.and_eq_true, decide_eq_true_eq] at hraw
        refine ⟨fun h => ?_, fun _ => ⟨s, ?_⟩⟩
        · have := h.2 hraw.1; simp at this; omega
        · rw [bhLoop]; simp [hinv, hraw.1, hraw.2]
      · have hraw' : limitRaw = true → s.index < n := by
          intro hl2; simp [hl2] at hraw; omega
        by_cases hskip : (normalize && b64Index ch == s.prev && decide (s.seq + 1 ≥ MAX_SEQUENCE_SIZE)) = true
        · have hn : normalize = true := by
            cases normalize
            · simp at hskip
            · rfl
          subst hn
          have hstep : bhLoop n true limitRaw true (ch :: rest) s =
              bhLoop n true limitRaw true rest { s with seq := MAX_SEQUENCE_SIZE, index := s.index + 1 } := by
            rw [bhLoop]
            simp only [hinv, Bool.false_eq_true, if_false]
            rw [if_neg hraw, if_pos hskip]
          rw [hstep, out_skip rest ch s hv hskip]
          have ih' := ih { s with seq := MAX_SEQUENCE_SIZE, index := s.index + 1 } hb hl
            (fun h2 => by have := hraw' h2; show s.index + 1 ≤ n; omega)
          refine ⟨fun h => ?_, fun h => ?_⟩
          · obtain ⟨s', e1, e2, e3, e4⟩ := ih'.1 ⟨h.1, fun hl2 => by have := h.2 hl2; simp at this ⊢; omega⟩
            exact ⟨s', e1, e2, by rw [e3]; simp; omega, e4⟩
          · apply ih'.2
            intro hh; apply h
            exact ⟨hh.1, fun hl2 => by have := hh.2 hl2; simp at this ⊢; omega⟩
        · have hskip' : (normalize && b64Index ch == s.prev && decide (s.seq + 1 ≥ MAX_SEQUENCE_SIZE)) = false := by
            simpa using hskip
          rw [out_keep normalize rest ch s hv hskip']
          simp only [List.length_cons]
          by_cases hfull : s.len ≥ n
          · refine ⟨fun h => by omega, fun _ => ⟨bhTrack normalize (b64Index ch) s, ?_⟩⟩
            rw [bhLoop]
            simp only [hinv, Bool.false_eq_true, if_false]
            rw [if_neg hraw, if_neg hskip]
            simp [hfull]
          · have hstep : bhLoop n normalize limitRaw true (ch :: rest) s =
                bhLoop n normalize limitRaw true rest (keepS normalize (b64Index ch) s) := by
              rw [bhLoop]
              simp only [hinv, Bool.false_eq_true, if_false]
              rw [if_neg hraw, if_neg hskip]
              have hc : ¬ ((true && decide ((bhTrack normalize (b64Index ch) s).len ≥ n)) = true) := by simp [hfull]
              rw [if_neg hc]
              rfl
            rw [hstep]
            have ih' := ih (keepS normalize (b64Index ch) s) (by simp [hb]) (by simp; omega)
              (fun h2 => by have := hraw' h2; simp; omega)
            simp only [keepS_len, keepS_index, keepS_bh, keepS_seq, keepS_prev] at ih'
            refine ⟨fun h => ?_, fun h => ?_⟩
            · obtain ⟨s', e1, e2, e3, e4⟩ := ih'.1 ⟨by have := h.1; omega, fun hl2 => by have := h.2 hl2; omega⟩
              refine ⟨s', e1, by rw [e2]; omega, by rw [e3]; omega, ?_⟩
              exact Wrote.trans (Wrote.one s.bh s.len (b64Index ch) (by omega)) e4
            · apply ih'.2
              intro hh; apply h
              exact ⟨by have := hh.1; omega, fun hl2 => by have := hh.2 hl2; omega⟩
    · have hv' : isB64 ch = false := by simpa using hv
      have hinv : (b64Index ch == b64Invalid) = true := by
        cases h : (b64Index ch == b64Invalid)
        · exact absurd ((isB64_iff ch).mpr h) hv
        · rfl
      rw [pre_cons_invalid ch rest hv', post_cons_invalid ch rest hv']
      have hout : outOf normalize (ch :: rest) s.seq s.prev = [] := by
        unfold outOf; rw [pre_cons_invalid ch rest hv']; cases normalize <;> simp [normList]
      rw [hout]
      refine ⟨fun _ => ⟨s, by rw [bhLoop]; simp [hinv], by simp, by simp, Wrote.nil s.bh s.len (by omega)⟩, fun h => ?_⟩
      exfalso; apply h
      exact ⟨by simpa using hl, fun h2 => by simpa using hi h2⟩

theorem pre_length_le (cs : List UInt8) : (pre cs).length ≤ cs.length := by
  unfold pre; exact (List.takeWhile_sublist _).length_le

theorem out_length_le (nm : Bool) (cs : List UInt8) (seq : Nat) (prev : UInt8) :
    (outOf nm cs seq prev).length ≤ (pre cs).length := by
  unfold outOf
  cases nm
  · simp
  · simp only [if_true]
    have := normList_length_le ((pre cs).map b64Index) seq prev
    simpa using this

/-- the scanning loop without the capacity test, on an input of at most the remaining capacity
    (strict parser: the iterator is `take(N)`) -/
theorem bhLoop_strict (n : Nat) (normalize limitRaw : Bool) : ∀ (cs : List UInt8) (s : BhLoop),
    s.bh.length = n → s.len ≤ s.index → s.index + cs.length ≤ n →
    ∃ s', bhLoop n normalize limitRaw false cs s = .done s' (!(post cs).isEmpty) (post cs).head? ∧
      s'.len = s.len + (outOf normalize cs s.seq s.prev).length ∧ s'.index = s.index + (pre cs).length ∧
      Wrote s.bh s'.bh s.len (outOf normalize cs s.seq s.prev) := by
  intro cs
  induction cs with
  | nil =>
    intro s hb hl hi
    have e : outOf normalize [] s.seq s.prev = [] := by unfold outOf pre; cases normalize <;> simp [normList]
    rw [e]
    exact ⟨s, by simp [bhLoop, post, pre], by simp, by simp [pre], Wrote.nil s.bh s.len (by simp at hi; omega)⟩
  | cons ch rest ih =>
    intro s hb hl hi
    simp only [List.length_cons] at hi
    by_cases hv : isB64 ch = true
    · have hinv := (isB64_iff ch).mp hv
      rw [pre_cons_valid ch rest hv, post_cons_valid ch rest hv]
      have hraw : ¬ ((false && limitRaw && decide (s.index ≥ n)) = true) := by simp
      by_cases hskip : (normalize && b64Index ch == s.prev && decide (s.seq + 1 ≥ MAX_SEQUENCE_SIZE)) = true
      · have hn : normalize = true := by
          cases normalize
          · simp at hskip
          · rfl
        subst hn
        have hstep : bhLoop n true limitRaw false (ch :: rest) s =
            bhLoop n true limitRaw false rest { s with seq := MAX_SEQUENCE_SIZE, index := s.index + 1 } := by
          rw [bhLoop]
          simp only [hinv, Bool.false_eq_true, if_false]
          rw [if_neg hraw, if_pos hskip]
        rw [hstep, out_skip rest ch s hv hskip]
        obtain ⟨s', e1, e2, e3, e4⟩ := ih { s with seq := MAX_SEQUENCE_SIZE, index := s.index + 1 } hb
          (by show s.len ≤ s.index + 1; omega) (by show s.index + 1 + rest.length ≤ n; omega)
        exact ⟨s', e1, e2, by rw [e3]; simp; omega, e4⟩
      · have hskip' : (normalize && b64Index ch == s.prev && decide (s.seq + 1 ≥ MAX_SEQUENCE_SIZE)) = false := by
          simpa using hskip
        rw [out_keep normalize rest ch s hv hskip']
        simp only [List.length_cons]
        have hstep : bhLoop n normalize limitRaw false (ch :: rest) s =
            bhLoop n normalize limitRaw false rest (keepS normalize (b64Index ch) s) := by
          rw [bhLoop]
          simp only [hinv, Bool.false_eq_true, if_false]
          rw [if_neg hraw, if_neg hskip]
          have hc : ¬ ((false && decide ((bhTrack normalize (b64Index ch) s).len ≥ n)) = true) := by simp
          rw [if_neg hc]
          rfl
        rw [hstep]
        obtain ⟨s', e1, e2, e3, e4⟩ := ih (keepS normalize (b64Index ch) s) (by simp [hb]) (by simp; omega) (by simp; omega)
        simp only [keepS_len, keepS_index, keepS_bh, keepS_seq, keepS_prev] at e2 e3 e4
        refine ⟨s', e1, by rw [e2]; omega, by rw [e3]; omega, ?_⟩
        exact Wrote.trans (Wrote.one s.bh s.len (b64Index ch) (by omega)) e4
    · have hv' : isB64 ch = false := by simpa using hv
      have hinv : (b64Index ch == b64Invalid) = true := by
        cases h : (b64Index ch == b64Invalid)
        · exact absurd ((isB64_iff ch).mpr h) hv
        · rfl
      rw [pre_cons_invalid ch rest hv', post_cons_invalid ch rest hv']
      have hout : outOf normalize (ch :: rest) s.seq s.prev = [] := by
        unfold outOf; rw [pre_cons_invalid ch rest hv']; cases normalize <;> simp [normList]
      rw [hout]
      exact ⟨s, by rw [bhLoop]; simp [hinv], by simp, by simp, Wrote.nil s.bh s.len (by omega)⟩

theorem takeWhile_take_comm (p : UInt8 → Bool) : ∀ (l : List UInt8) (n : Nat),
    (l.take n).takeWhile p = (l.takeWhile p).take n := by
  intro l
  induction l with
  | nil => intro n; simp
  | cons x xs ih =>
    intro n
    cases n with
    | zero => simp
    | succ n =>
      simp only [List.take_succ_cons, List.takeWhile_cons]
      split
      · simp [ih]
      · simp

theorem pre_post (cs : List UInt8) : cs = pre cs ++ post cs := by
  induction cs with
  | nil => simp [pre, post]
  | cons x xs ih =>
    by_cases hv : isB64 x = true
    · rw [pre_cons_valid x xs hv, post_cons_valid x xs hv, List.cons_append, ← ih]
    · have hv' : isB64 x = false := by simpa using hv
      rw [pre_cons_invalid x xs hv', post_cons_invalid x xs hv']; rfl

theorem post_head_invalid (cs : List UInt8) (c : UInt8) (rest : List UInt8) (h : post cs = c :: rest) : isB64 c = false := by
  induction cs with
  | nil => simp [post, pre] at h
  | cons x xs ih =>
    by_cases hv : isB64 x = true
    · rw [post_cons_valid x xs hv] at h; exact ih h
    · have hv' : isB64 x = false := by simpa using hv
      rw [post_cons_invalid x xs hv'] at h
      have := (List.cons.inj h).1
      rw [← this]; exact hv'

theorem pre_all (cs : List UInt8) : ∀ c ∈ pre cs, isB64 c = true := by
  induction cs with
  | nil => intro c hc; simp [pre] at hc
  | cons x xs ih =>
    intro c hc
    by_cases hv : isB64 x = true
    · rw [pre_cons_valid x xs hv] at hc
      rcases List.mem_cons.mp hc with e | e
      · rw [e]; exact hv
      · exact ih c e
    · have hv' : isB64 x = false := by simpa using hv
      rw [pre_cons_invalid x xs hv'] at hc; simp at hc

/-- the `report_norm_seq` calls after the loop -/
def finalReports (nm : Bool) (s : BhLoop) : List (Nat × Nat) :=
  if nm && s.seq = MAX_SEQUENCE_SIZE then s.reports ++ [(s.seqStart, s.index - s.seqStartIn)] else s.reports

/-- the capacity condition of the field parser -/
def fitsF (cfg : Cfg) (n : Nat) (nm lr : Bool) (bytes : List UInt8) : Prop :=
  if cfg.strictParser then (pre bytes).length ≤ n
  else (outOf nm bytes 0 b64Invalid).length ≤ n ∧ (lr = true → (pre bytes).length ≤ n)

/-- **the block-hash field parser**, both parser flavours -/
theorem parseBlockHash_spec (cfg : Cfg) (n : Nat) (nm lr : Bool) (bh bytes : List UInt8) (hbh : bh.length = n) :
    (fitsF cfg n nm lr bytes →
      (parseBlockHash cfg n bh nm lr bytes).len = (outOf nm bytes 0 b64Invalid).length ∧
      Wrote bh (parseBlockHash cfg n bh nm lr bytes).bh 0 (outOf nm bytes 0 b64Invalid) ∧
      (post bytes = [] → (parseBlockHash cfg n bh nm lr bytes).state = .metEndOfString ∧
        (parseBlockHash cfg n bh nm lr bytes).consumed = (pre bytes).length) ∧
      (∀ rest, post bytes = 58 :: rest → (parseBlockHash cfg n bh nm lr bytes).state = .metColon ∧
        (parseBlockHash cfg n bh nm lr bytes).consumed = (pre bytes).length + 1) ∧
      (∀ rest, post bytes = 44 :: rest → (parseBlockHash cfg n bh nm lr bytes).state = .metComma ∧
        (parseBlockHash cfg n bh nm lr bytes).consumed = (pre bytes).length + 1) ∧
      (∀ c rest, post bytes = c :: rest → c ≠ 58 → c ≠ 44 →
        ((parseBlockHash cfg n bh nm lr bytes).state = .base64Error ∨
         (parseBlockHash cfg n bh nm lr bytes).state = .overflowError))) ∧
    (¬ fitsF cfg n nm lr bytes → (parseBlockHash cfg n bh nm lr bytes).state = .overflowError) := by
  -- what both flavours reduce to once the loop has ended normally with the right look-ahead
  have fin : ∀ (s' : BhLoop) (hasChar : Bool) (reports : List (Nat × Nat)) (r : BhParse),
      r = (match (post bytes).head? with
        | some ch =>
          if ch == 58 then ⟨.metColon, s'.index + 1, s'.bh, s'.len, reports⟩
          else if ch == 44 then ⟨.metComma, s'.index + 1, s'.bh, s'.len, reports⟩
          else if cfg.strictParser then
            ⟨if hasChar then .base64Error else .overflowError, s'.index, s'.bh, s'.len, reports⟩
          else ⟨.base64Error, s'.index, s'.bh, s'.len, reports⟩
        | none => ⟨.metEndOfString, s'.index, s'.bh, s'.len, reports⟩) →
      s'.len = (outOf nm bytes 0 b64Invalid).length → s'.index = (pre bytes).length →
      Wrote bh s'.bh 0 (outOf nm bytes 0 b64Invalid) →
      r.len = (outOf nm bytes 0 b64Invalid).length ∧ Wrote bh r.bh 0 (outOf nm bytes 0 b64Invalid) ∧
      (post bytes = [] → r.state = .metEndOfString ∧ r.consumed = (pre bytes).length) ∧
      (∀ rest, post bytes = 58 :: rest → r.state = .metColon ∧ r.consumed = (pre bytes).length + 1) ∧
      (∀ rest, post bytes = 44 :: rest → r.state = .metComma ∧ r.consumed = (pre bytes).length + 1) ∧
      (∀ c rest, post bytes = c :: rest → c ≠ 58 → c ≠ 44 → (r.state = .base64Error ∨ r.state = .overflowError)) := by
    intro s' hasChar reports r hr e2 e3 e4
    cases hp : post bytes with
    | nil =>
      rw [hp] at hr; simp only [List.head?_nil] at hr
      subst hr
      exact ⟨e2, e4, fun _ => ⟨rfl, e3⟩, fun _ h => by simp at h, fun _ h => by simp at h, fun _ _ h => by simp at h⟩
    | cons c rest =>
      rw [hp] at hr; simp only [List.head?_cons] at hr
      by_cases h58 : c = 58
      · subst h58
        simp only [beq_self_eq_true, if_true] at hr
        subst hr
        refine ⟨e2, e4, fun h => by simp at h, fun _ _ => ⟨rfl, by show s'.index + 1 = _; rw [e3]⟩,
          fun _ h => ?_, fun c' _ h hne _ => ?_⟩
        · have := (List.cons.inj h).1; exact absurd this (by decide)
        · have := (List.cons.inj h).1; exact absurd this.symm hne
      · by_cases h44 : c = 44
        · subst h44
          have : ((44 : UInt8) == 58) = false := by decide
          simp only [this, Bool.false_eq_true, if_false, beq_self_eq_true, if_true] at hr
          subst hr
          refine ⟨e2, e4, fun h => by simp at h, fun _ h => ?_, fun _ _ => ⟨rfl, by show s'.index + 1 = _; rw [e3]⟩,
            fun c' _ h _ hne => ?_⟩
          · have := (List.cons.inj h).1; exact absurd this (by decide)
          · have := (List.cons.inj h).1; exact absurd this.symm hne
        · have b1 : (c == 58) = false := by simpa using h58
          have b2 : (c == 44) = false := by simpa using h44
          simp only [b1, b2, Bool.false_eq_true, if_false] at hr
          refine ⟨by subst hr; split <;> exact e2, by subst hr; split <;> exact e4, fun h => by simp at h,
            fun _ h => absurd (List.cons.inj h).1 h58, fun _ h => absurd (List.cons.inj h).1 h44, fun _ _ _ _ _ => ?_⟩
          subst hr
          split
          · cases hasChar <;> simp
          · simp
  by_cases hstrict : cfg.strictParser = true
  · -- strict parser
    unfold fitsF
    simp only [hstrict, if_true]
    have hloop := bhLoop_strict n nm lr (bytes.take n) { bh := bh } hbh (Nat.le_refl _)
      (by show 0 + (bytes.take n).length ≤ n; rw [List.length_take]; omega)
    obtain ⟨s', e1, e2, e3, e4⟩ := hloop
    have hpre : pre (bytes.take n) = (pre bytes).take n := takeWhile_take_comm isB64 bytes n
    refine ⟨fun hfit => ?_, fun hnf => ?_⟩
    · have hpre' : pre (bytes.take n) = pre bytes := by rw [hpre, List.take_of_length_le hfit]
      have hout : outOf nm (bytes.take n) 0 b64Invalid = outOf nm bytes 0 b64Invalid := by
        unfold outOf; rw [hpre']
      change s'.len = 0 + (outOf nm (bytes.take n) 0 b64Invalid).length at e2
      change s'.index = 0 + (pre (bytes.take n)).length at e3
      rw [hout, Nat.zero_add] at e2
      rw [hpre', Nat.zero_add] at e3
      change Wrote bh s'.bh 0 (outOf nm (bytes.take n) 0 b64Invalid) at e4
      rw [hout] at e4
      -- the look-ahead character
      have hpost : post (bytes.take n) = (post bytes).take (n - (pre bytes).length) := by
        unfold post; rw [hpre', List.drop_take]
      have hraw : (if (true && !(!(post (bytes.take n)).isEmpty)) = true then (bytes.drop s'.index).head?
          else (post (bytes.take n)).head?) = (post bytes).head? := by
        have hd : bytes.drop s'.index = post bytes := by rw [e3]; rfl
        by_cases hem : (post (bytes.take n)).isEmpty = true
        · simp [hem, hd]
        · simp only [Bool.true_and, Bool.not_not, hem, Bool.false_eq_true, if_false]
          rw [hpost] at hem ⊢
          cases hpb : post bytes with
          | nil => simp
          | cons c rest =>
            rw [hpb] at hem
            cases hk : n - (pre bytes).length with
            | zero => rw [hk] at hem; simp at hem
            | succ k => simp
      apply fin s' (!(post (bytes.take n)).isEmpty) (finalReports nm s') _ _ e2 e3 e4
      unfold parseBlockHash finalReports
      simp only [hstrict, if_true, Bool.not_true]
      rw [e1]
      simp only
      rw [hraw]
      rfl
    · -- more than `n` base64 characters: the look-ahead is one of them
      have hlen : n < (pre bytes).length := by omega
      have hpl : (pre (bytes.take n)).length = n := by rw [hpre]; simp; omega
      have hpost : post (bytes.take n) = [] := by
        unfold post
        apply List.drop_eq_nil_of_le
        rw [hpl, List.length_take]; exact Nat.min_le_left _ _
      change s'.index = 0 + (pre (bytes.take n)).length at e3
      rw [hpl, Nat.zero_add] at e3
      have hnext : ∃ c, (bytes.drop n).head? = some c ∧ isB64 c = true := by
        have hb := pre_post bytes
        have : n < bytes.length := Nat.lt_of_lt_of_le hlen (pre_length_le bytes)
        refine ⟨bytes[n], by rw [List.head?_drop, List.getElem?_eq_getElem this], ?_⟩
        have hget : bytes[n] = (pre bytes)[n] := by
          have h2 : bytes[n]? = (pre bytes)[n]? := by
            conv => lhs; rw [hb]
            exact List.getElem?_append_left hlen
          rw [List.getElem?_eq_getElem this, List.getElem?_eq_getElem hlen] at h2
          exact Option.some.inj h2
        rw [hget]
        exact pre_all bytes _ (List.getElem_mem hlen)
      obtain ⟨c, hc1, hc2⟩ := hnext
      have c58 : (c == 58) = false := by
        cases h : c == 58
        · rfl
        · have : c = 58 := by simpa using h
          subst this; exact absurd hc2 (by decide)
      have c44 : (c == 44) = false := by
        cases h : c == 44
        · rfl
        · have : c = 44 := by simpa using h
          subst this; exact absurd hc2 (by decide)
      unfold parseBlockHash
      simp only [hstrict, if_true, Bool.not_true]
      rw [e1, hpost]
      simp only [List.isEmpty_nil, Bool.not_true, Bool.not_false, Bool.true_and, if_true, e3, hc1, c58, c44,
        Bool.false_eq_true, if_false]
  · -- default parser
    have hs : cfg.strictParser = false := by simpa using hstrict
    unfold fitsF
    simp only [hs, Bool.false_eq_true, if_false]
    have hloop := bhLoop_default n nm lr bytes { bh := bh } hbh (Nat.zero_le _) (fun _ => Nat.zero_le _)
    refine ⟨fun hfit => ?_, fun hnf => ?_⟩
    · obtain ⟨s', e1, e2, e3, e4⟩ := hloop.1 ⟨by simpa using hfit.1, fun h => by simpa using hfit.2 h⟩
      change s'.len = 0 + _ at e2
      change s'.index = 0 + _ at e3
      rw [Nat.zero_add] at e2 e3
      apply fin s' (!(post bytes).isEmpty) (finalReports nm s') _ _ e2 e3 e4
      unfold parseBlockHash finalReports
      simp only [hs, Bool.false_eq_true, if_false, Bool.not_false]
      rw [e1]
      simp only [Bool.false_and, Bool.false_eq_true, if_false]
      rfl
    · obtain ⟨s', e1⟩ := hloop.2 (fun hh => hnf ⟨by simpa using hh.1, fun h => by simpa using hh.2 h⟩)
      unfold parseBlockHash
      simp only [hs, Bool.false_eq_true, if_false, Bool.not_false]
      rw [e1]

end Ffuzzy.ParseBh
