/-
  C09: the backward shift-and scan with Boyer-Moore-like skipping of
  `has_common_substring_internal` is exact.
-/
import FfuzzyModel.PosArray
import FfuzzyProofs.Hyyro
namespace Ffuzzy.CommonSub
open Ffuzzy

/-- `b[s ..= s+n]` occurs in `a` ending at position `p` (inclusive) -/
def OccEnd (a b : List UInt8) (s n p : Nat) : Prop :=
  n ≤ p ∧ ∀ t, t ≤ n → a[p - n + t]? = some (PA.sym b (s + t))

/-- invariant of the inner loop: `d` is exactly the set of end positions of `b[l0 ..= l]` in `a` -/
def DInv (a b : List UInt8) (l0 l : Nat) (d : BitVec 64) : Prop :=
  ∀ p, p < 64 → (d.getLsbD p = true ↔ OccEnd a b l0 (l - l0) p)

theorem dinv_init (a b : List UInt8) (p : PA) (hpa : Hyyro.PaSpec a p.get) (l0 : Nat) :
    DInv a b l0 l0 (p.get (PA.sym b l0)) := by
  intro p hp
  rw [hpa _ p hp]
  simp [OccEnd]

theorem dinv_step (a b : List UInt8) (p : PA) (hpa : Hyyro.PaSpec a p.get) (l0 l : Nat)
    (hl : l0 ≤ l) (d : BitVec 64) (h : DInv a b l0 l d) :
    DInv a b l0 (l + 1) (PA.nextD p b l d) := by
  intro p hp
  unfold PA.nextD
  rw [BitVec.getLsbD_and, BitVec.getLsbD_shiftLeft, hpa _ p hp]
  simp only [hp, decide_true, Bool.true_and, Bool.and_eq_true, Bool.not_eq_true', decide_eq_false_iff_not,
    Nat.not_lt, decide_eq_true_eq]
  have hn : l + 1 - l0 = (l - l0) + 1 := by omega
  rw [hn]
  constructor
  · rintro ⟨⟨h1, h2⟩, h3⟩
    have := (h (p - 1) (by omega)).mp h2
    obtain ⟨q1, q2⟩ := this
    refine ⟨by omega, ?_⟩
    intro t ht
    by_cases htn : t ≤ l - l0
    · have := q2 t htn
      have e : p - 1 - (l - l0) + t = p - (l - l0 + 1) + t := by omega
      rw [← e]; exact this
    · have : t = l - l0 + 1 := by omega
      subst this
      have e1 : p - (l - l0 + 1) + (l - l0 + 1) = p := by omega
      have e2 : l0 + (l - l0 + 1) = l + 1 := by omega
      rw [e1, e2]; exact h3
  · rintro ⟨q1, q2⟩
    refine ⟨⟨by omega, ?_⟩, ?_⟩
    · apply (h (p - 1) (by omega)).mpr
      refine ⟨by omega, ?_⟩
      intro t ht
      have := q2 t (by omega)
      have e : p - 1 - (l - l0) + t = p - (l - l0 + 1) + t := by omega
      rw [e]; exact this
    · have := q2 (l - l0 + 1) (Nat.le_refl _)
      have e1 : p - (l - l0 + 1) + (l - l0 + 1) = p := by omega
      have e2 : l0 + (l - l0 + 1) = l + 1 := by omega
      rw [e1, e2] at this; exact this


theorem bv_ne_zero_iff (d : BitVec 64) : d ≠ 0 ↔ ∃ p, p < 64 ∧ d.getLsbD p = true := by
  constructor
  · intro h
    apply Classical.byContradiction
    intro hn
    apply h
    apply BitVec.eq_of_getLsbD_eq
    intro i hi
    have : ¬ (d.getLsbD i = true) := fun hh => hn ⟨i, hi, hh⟩
    simpa using this
  · rintro ⟨p, hp, h⟩ h0
    subst h0
    simp at h

def Occ (a b : List UInt8) (s n : Nat) : Prop := ∃ p, p < 64 ∧ OccEnd a b s n p

theorem dinv_ne_zero (a b : List UInt8) (l0 l : Nat) (d : BitVec 64) (h : DInv a b l0 l d) :
    d ≠ 0 ↔ Occ a b l0 (l - l0) := by
  rw [bv_ne_zero_iff]
  constructor
  · rintro ⟨p, hp, hd⟩; exact ⟨p, hp, (h p hp).mp hd⟩
  · rintro ⟨p, hp, ho⟩; exact ⟨p, hp, (h p hp).mpr ho⟩

/-- what the inner loop returns -/
theorem inner_spec (a b : List UInt8) (p : PA) (hpa : Hyyro.PaSpec a p.get) (l0 : Nat) :
    ∀ (l : Nat) (d : BitVec 64), l0 ≤ l → l ≤ l0 + 6 → DInv a b l0 l d → (l = l0 + 6 → d = 0) →
      ((PA.csInner p b (l0+6) l d).1 = true → Occ a b l0 6) ∧
      ((PA.csInner p b (l0+6) l d).1 = false →
          l ≤ (PA.csInner p b (l0+6) l d).2 ∧ (PA.csInner p b (l0+6) l d).2 ≤ l0 + 6 ∧
          ¬ Occ a b l0 ((PA.csInner p b (l0+6) l d).2 - l0)) := by
  intro l d
  fun_induction PA.csInner p b (l0+6) l d with
  | case1 l =>
    intro h1 h2 hinv _
    refine ⟨by simp, fun _ => ⟨by simp, by simpa using h2, ?_⟩⟩
    have := (dinv_ne_zero a b l0 l 0 hinv)
    simp at this; simpa using this
  | case2 l d hd hr =>
    intro h1 h2 hinv hz
    exact absurd (hz (by omega)) hd
  | case3 l d hd hr hc =>
    intro h1 h2 hinv _
    refine ⟨fun _ => ?_, by simp⟩
    have hs := dinv_step a b p hpa l0 l h1 d hinv
    have := (dinv_ne_zero a b l0 (l+1) _ hs).mp hc.2
    have e : l + 1 - l0 = 6 := by omega
    rw [e] at this; exact this
  | case4 l d hd hr hc ih =>
    intro h1 h2 hinv _
    have hs := dinv_step a b p hpa l0 l h1 d hinv
    have hz' : l + 1 = l0 + 6 → PA.nextD p b l d = 0 := by
      intro e
      apply Classical.byContradiction
      intro hne
      exact hc ⟨e, hne⟩
    have := ih (by omega) (by omega) hs hz'
    refine ⟨this.1, fun hf => ?_⟩
    have := this.2 hf
    exact ⟨by omega, this.2.1, this.2.2⟩

/-- a window containing a non-occurring piece does not occur -/
theorem occ_sub (a b : List UInt8) (l0 lf j : Nat) (h1 : j ≤ l0) (h2 : l0 ≤ lf) (h3 : lf ≤ j + 6)
    (h : Occ a b j 6) : Occ a b l0 (lf - l0) := by
  obtain ⟨p, hp, q1, q2⟩ := h
  refine ⟨p - (j + 6 - lf), by omega, by omega, ?_⟩
  intro t ht
  have := q2 (l0 - j + t) (by omega)
  have e1 : p - 6 + (l0 - j + t) = p - (j + 6 - lf) - (lf - l0) + t := by omega
  have e2 : j + (l0 - j + t) = l0 + t := by omega
  rw [e1, e2] at this; exact this

theorem outer_spec (a b : List UInt8) (p : PA) (hpa : Hyyro.PaSpec a p.get) :
    ∀ l0, l0 + 7 ≤ b.length → (∀ j, l0 < j → j + 7 ≤ b.length → ¬ Occ a b j 6) →
      (PA.csOuter p b l0 = true ↔ ∃ j, j + 7 ≤ b.length ∧ Occ a b j 6) := by
  intro l0
  fun_induction PA.csOuter p b l0 with
  | case1 l0 hfound =>
    intro hl _
    have := (inner_spec a b p hpa l0 l0 _ (Nat.le_refl _) (by omega) (dinv_init a b p hpa l0) (by omega)).1 hfound
    simp; exact ⟨l0, hl, this⟩
  | case2 l0 hnf hlt =>
    intro hl hlater
    have hnf' : (PA.csInner p b (l0+6) l0 (p.get (PA.sym b l0))).1 = false := by simpa using hnf
    have ⟨q1, q2, q3⟩ := (inner_spec a b p hpa l0 l0 _ (Nat.le_refl _) (by omega) (dinv_init a b p hpa l0) (by omega)).2 hnf'
    simp only [Bool.false_eq_true, false_iff, not_exists, not_and]
    intro j hj hocc
    by_cases hjl : l0 < j
    · exact hlater j hjl hj hocc
    · exact q3 (occ_sub a b l0 _ j (by omega) q1 (by omega) hocc)
  | case3 l0 hnf hge ih =>
    intro hl hlater
    have hnf' : (PA.csInner p b (l0+6) l0 (p.get (PA.sym b l0))).1 = false := by simpa using hnf
    have ⟨q1, q2, q3⟩ := (inner_spec a b p hpa l0 l0 _ (Nat.le_refl _) (by omega) (dinv_init a b p hpa l0) (by omega)).2 hnf'
    apply ih (by omega)
    intro j hj1 hj2 hocc
    by_cases hjl : l0 < j
    · exact hlater j hjl hj2 hocc
    · exact q3 (occ_sub a b l0 _ j (by omega) q1 (by omega) hocc)

/-- the declarative reading of `Occ … 6`: the 7-gram of b at j equals the 7-gram of a at some i -/
theorem occ_iff (a b : List UInt8) (j : Nat) (ha : a.length ≤ 64) (hj : j + 7 ≤ b.length) :
    Occ a b j 6 ↔ ∃ i, i + 7 ≤ a.length ∧ ∀ t, t < 7 → a[i + t]? = b[j + t]? := by
  constructor
  · rintro ⟨p, hp, q1, q2⟩
    refine ⟨p - 6, ?_, ?_⟩
    · have := q2 6 (Nat.le_refl _)
      have e : p - 6 + 6 = p := by omega
      rw [e] at this
      have : p < a.length := by
        apply Classical.byContradiction; intro hh
        rw [List.getElem?_eq_none (by omega)] at this; simp at this
      omega
    · intro t ht
      have := q2 t (by omega)
      rw [this]; simp [PA.sym, List.getD, List.getElem?_eq_getElem (show j + t < b.length by omega)]
  · rintro ⟨i, hi, h⟩
    refine ⟨i + 6, by omega, by omega, ?_⟩
    intro t ht
    have := h t (by omega)
    have e : i + 6 - 6 + t = i + t := by omega
    rw [e, this]; simp [PA.sym, List.getD, List.getElem?_eq_getElem (show j + t < b.length by omega)]

theorem hasCommonSubstring_iff (a b : List UInt8) (p : PA) (hpa : Hyyro.PaSpec a p.get)
    (ha : a.length ≤ 64) (hlen : p.len.toNat = a.length) :
    p.hasCommonSubstringInternal b = true ↔
      ∃ i j, i + 7 ≤ a.length ∧ j + 7 ≤ b.length ∧ ∀ t, t < 7 → a[i + t]? = b[j + t]? := by
  unfold PA.hasCommonSubstringInternal
  simp only [MIN_LCS_FOR_COMPARISON, hlen]
  by_cases hs : a.length < 7 ∨ b.length < 7
  · rw [if_pos hs]
    simp only [Bool.false_eq_true, false_iff, not_exists, not_and]
    intro i j h1 h2; omega
  · rw [if_neg hs]
    rw [outer_spec a b p hpa (b.length - 7) (by omega) (by intro j h1 h2; omega)]
    constructor
    · rintro ⟨j, hj, ho⟩
      obtain ⟨i, hi, h⟩ := (occ_iff a b j ha hj).mp ho
      exact ⟨i, j, hi, hj, h⟩
    · rintro ⟨i, j, hi, hj, h⟩
      exact ⟨j, hj, (occ_iff a b j ha hj).mpr ⟨i, hi, h⟩⟩


end Ffuzzy.CommonSub
