/-
  A run-collapsed string has no four equal consecutive symbols (bridge between `Spec.collapse`
  and the shift-and test of the position arrays; C11 / C17).
-/
import FfuzzyProofs.Collapse
namespace Ffuzzy.Collapse
open Ffuzzy.Spec

def NoRun4 (l : List UInt8) : Prop :=
  ∀ i, i + 3 < l.length → ¬ (l[i]? = l[i + 1]? ∧ l[i + 1]? = l[i + 2]? ∧ l[i + 2]? = l[i + 3]?)

/-- windows of `x :: xs`: the first one, or a window of `xs` -/
theorem noRun4_cons (x : UInt8) (xs : List UInt8) (h : NoRun4 xs)
    (h0 : ¬ ((x :: xs)[0]? = (x :: xs)[1]? ∧ (x :: xs)[1]? = (x :: xs)[2]? ∧ (x :: xs)[2]? = (x :: xs)[3]?)) :
    NoRun4 (x :: xs) := by
  intro i hi
  cases i with
  | zero => exact h0
  | succ i =>
    have := h i (by simp at hi; omega)
    simpa [List.getElem?_cons_succ] using this

/-- scanning `xs` after `run` copies of `p`: no four equal symbols in `replicate run p ++ xs` -/
theorem verify_noRun4 : ∀ (xs : List UInt8) (p : UInt8) (run : Nat), run ≤ 3 →
    verifyAux xs (some p) run = true → NoRun4 (List.replicate run p ++ xs) := by
  intro xs
  induction xs with
  | nil =>
    intro p run hr _ i hi
    simp at hi; omega
  | cons x xs ih =>
    intro p run hr hv
    rw [verifyAux] at hv
    by_cases hpx : some p = some x
    · have hpx' : p = x := Option.some.inj hpx
      rw [if_pos hpx] at hv
      split at hv
      · simp at hv
      · next h3 =>
        have := ih p (run + 1) (by omega) hv
        have e : List.replicate run p ++ x :: xs = List.replicate (run + 1) p ++ xs := by
          rw [← hpx', List.replicate_succ', List.append_assoc]; rfl
        rw [e]; exact this
    · have hne : p ≠ x := fun e => hpx (by rw [e])
      rw [if_neg hpx] at hv
      have hxs : NoRun4 (x :: xs) := by
        have := ih x 1 (by omega) hv
        simpa using this
      -- prepend up to three copies of a different symbol
      have prep : ∀ k, k ≤ 3 → NoRun4 (List.replicate k p ++ x :: xs) := by
        intro k
        induction k with
        | zero => intro _; simpa using hxs
        | succ k ihk =>
          intro hk
          rw [List.replicate_succ, List.cons_append]
          apply noRun4_cons _ _ (ihk (by omega))
          -- the first window contains the boundary `p`, `x`
          intro ⟨e1, e2, e3⟩
          match k, hk with
          | 0, _ => simp at e1; exact hne e1
          | 1, _ => simp at e1 e2; exact hne e2
          | 2, _ => simp at e1 e2 e3; exact hne e3
      exact prep run hr

theorem collapse_noRun4 (a : List UInt8) (h : collapse a = a) : NoRun4 a := by
  unfold collapse at h
  have hv := (collapseAux_fixed_iff a none 0).mp h
  cases a with
  | nil => intro i hi; simp at hi
  | cons x xs =>
    rw [verifyAux] at hv
    have : ¬ (none = some x) := by simp
    rw [if_neg this] at hv
    have := verify_noRun4 xs x 1 (by omega) hv
    simpa using this

end Ffuzzy.Collapse
