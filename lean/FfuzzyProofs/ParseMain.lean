/-
  The three-field driver against the reference grammar (C04).
-/
import FfuzzyProofs.ParseField
namespace Ffuzzy.ParseMain
open Ffuzzy Ffuzzy.Spec Ffuzzy.Collapse Ffuzzy.ParseBh Ffuzzy.ParseBs Ffuzzy.ParseField

theorem pow_inj (a b : Nat) (h : 3 * 2 ^ a = 3 * 2 ^ b) : a = b := by
  have h2 : 2 ^ a = 2 ^ b := by omega
  rcases Nat.lt_trichotomy a b with h | h | h
  · have := Nat.pow_lt_pow_right (by omega : 1 < 2) h; omega
  · exact h
  · have := Nat.pow_lt_pow_right (by omega : 1 < 2) h; omega

/-- the block size field: accepted exactly when the reference recognises one of the 31 sizes -/
theorem blockSize_field (t : List UInt8) :
    (∀ r1 log, afterDigits t = 58 :: r1 → blockSizeLog (digits t) = some log →
      ∃ b, parseBlockSize t = .ok (b, (digits t).length + 1) ∧
        (BlockSize.logFromValidInternal b).toNat = log ∧ log < 31) ∧
    ((afterDigits t = [] ∨ (∃ c r, afterDigits t = c :: r ∧ c ≠ 58) ∨ blockSizeLog (digits t) = none) →
      ∃ e, parseBlockSize t = .error e ∧ e.origin = .blockSize) := by
  have hspec := loop_spec t 0 0 (fun h => absurd h (by omega)) (fun _ => rfl)
  have hz : (0 : UInt32).toNat = 0 := rfl
  have hdec : ∀ ds, decFrom 0 ds = decimalValue ds := fun _ => rfl
  refine ⟨?_, ?_⟩
  · intro r1 log h0 hlog
    unfold blockSizeLog at hlog
    split at hlog
    · simp at hlog
    · next hne =>
      simp only [Bool.or_eq_true, List.isEmpty_iff, beq_iff_eq, not_or] at hne
      have hmem := List.mem_of_find?_eq_some hlog
      have hp := List.find?_some hlog
      simp only [List.mem_range] at hmem
      simp only [decide_eq_true_eq] at hp
      have hlt : decimalValue (digits t) < 4294967296 := by
        rw [hp]
        have : 2 ^ log ≤ 2 ^ 30 := Nat.pow_le_pow_right (by omega) (by omega)
        have e : (2 : Nat) ^ 30 = 1073741824 := by decide
        omega
      have hvalid : BlockSize.isValid (decimalValue (digits t)).toUInt32 = true := by
        rw [C20.isValid_iff]
        exact ⟨log, hmem, by rw [toU32_toNat _ hlt]; exact hp⟩
      have hacc : Accept t 0 (0 : UInt32).toNat (decimalValue (digits t)).toUInt32 ((digits t).length + 1) := by
        unfold Accept
        rw [hz, hdec, h0]
        refine ⟨rfl, ?_, fun _ => hne.2, hlt, hvalid, rfl, by omega⟩
        have : (digits t).length ≠ 0 := fun e => hne.1 (List.length_eq_zero_iff.mp e)
        omega
      refine ⟨_, (hspec _ _).mpr hacc, ?_, hmem⟩
      obtain ⟨n, hn1, hn2⟩ := C20.logFromValid_spec _ hvalid
      rw [toU32_toNat _ hlt, hp] at hn1
      have hnl : log = n.val := pow_inj _ _ hn1
      unfold BlockSize.logFromValid at hn2
      rw [hvalid] at hn2
      simp only [if_true, Option.some.injEq] at hn2
      rw [hn2, hnl]
      simp [Nat.toUInt8, UInt8.toNat_ofNat']
      have := n.isLt; omega
  · intro hbad
    cases hres : parseBlockSize t with
    | error e => exact ⟨e, rfl, loop_error_origin t 0 0 true e hres⟩
    | ok p =>
      exfalso
      obtain ⟨b, off⟩ := p
      have hacc := (hspec b off).mp hres
      unfold Accept at hacc
      rw [hz, hdec] at hacc
      obtain ⟨a1, a2, a3, a4, a5, _, _⟩ := hacc
      rcases hbad with h | ⟨c, r, h, hc⟩ | h
      · rw [h] at a1; simp at a1
      · rw [h] at a1; simp at a1; exact hc a1
      · obtain ⟨n, hn, hv⟩ := (C20.isValid_iff _).mp a5
        rw [toU32_toNat _ a4] at hv
        unfold blockSizeLog at h
        have hne : ¬ ((digits t).isEmpty || (digits t).head? == some 48) = true := by
          simp only [Bool.or_eq_true, List.isEmpty_iff, beq_iff_eq, not_or]
          refine ⟨fun e => ?_, a3 rfl⟩
          rw [e] at a2; simp at a2
        rw [if_neg hne] at h
        have := List.find?_eq_none.mp h n (by simp [hn])
        simp [hv] at this

/-- the reference block hash of a field -/
def refBh (nm : Bool) (bytes : List UInt8) : List UInt8 := (if nm then collapse (pre bytes) else pre bytes).map b64Index

/-- field-level summary of the block-hash parser in terms of the reference grammar -/
theorem field_cases (cfg : Cfg) (n : Nat) (nm lr dual : Bool) (bytes : List UInt8)
    (hd : (dual = true → nm = true ∧ lr = true) ∧ (dual = false → lr = false)) :
    (fits cfg nm dual n (pre bytes) = false →
      (parseBlockHash cfg n (List.replicate n 0) nm lr bytes).state = .overflowError) ∧
    (fits cfg nm dual n (pre bytes) = true →
      (parseBlockHash cfg n (List.replicate n 0) nm lr bytes).bh = padTo (refBh nm bytes) n 0 ∧
      (parseBlockHash cfg n (List.replicate n 0) nm lr bytes).len = (refBh nm bytes).length ∧
      (refBh nm bytes).length ≤ n ∧
      (post bytes = [] → (parseBlockHash cfg n (List.replicate n 0) nm lr bytes).state = .metEndOfString ∧
        (parseBlockHash cfg n (List.replicate n 0) nm lr bytes).consumed = (pre bytes).length) ∧
      (∀ rest, post bytes = 58 :: rest → (parseBlockHash cfg n (List.replicate n 0) nm lr bytes).state = .metColon ∧
        (parseBlockHash cfg n (List.replicate n 0) nm lr bytes).consumed = (pre bytes).length + 1) ∧
      (∀ rest, post bytes = 44 :: rest → (parseBlockHash cfg n (List.replicate n 0) nm lr bytes).state = .metComma ∧
        (parseBlockHash cfg n (List.replicate n 0) nm lr bytes).consumed = (pre bytes).length + 1) ∧
      (∀ c rest, post bytes = c :: rest → c ≠ 58 → c ≠ 44 →
        ((parseBlockHash cfg n (List.replicate n 0) nm lr bytes).state = .base64Error ∨
         (parseBlockHash cfg n (List.replicate n 0) nm lr bytes).state = .overflowError))) := by
  have hspec := parseBlockHash_spec cfg n nm lr (List.replicate n 0) bytes (by simp)
  have hiff := fits_iff cfg n nm lr dual bytes hd
  refine ⟨fun hf => hspec.2 (fun h => by rw [hiff.mp h] at hf; exact absurd hf (by simp)), fun hf => ?_⟩
  obtain ⟨a1, a2, a3, a4, a5, a6⟩ := hspec.1 (hiff.mpr hf)
  have hout : outOf nm bytes 0 b64Invalid = refBh nm bytes := outOf_eq_ref nm bytes
  rw [hout] at a1 a2
  exact ⟨wrote_zero a2, a1, by have := a2.fits; simpa using this, a3, a4, a5, a6⟩

/-- the reference parser written with the scanning helpers (definitionally the same) -/
theorem refParse_unfold (cfg : Cfg) (s2 : Nat) (norm dual : Bool) (t : List UInt8) :
    refParse cfg s2 norm dual t =
      match afterDigits t with
      | [] => .error .blockSize
      | c0 :: r1 =>
        if c0 != 58 then .error .blockSize else
        match blockSizeLog (digits t) with
        | none => .error .blockSize
        | some log =>
          if !fits cfg norm dual FULL_SIZE (pre r1) then .error .blockHash1 else
          match post r1 with
          | [] => .error .blockHash1
          | c1 :: r3 =>
            if c1 != 58 then .error .blockHash1 else
            if !fits cfg norm dual s2 (pre r3) then .error .blockHash2 else
            match post r3 with
            | [] => .ok ⟨log, refBh norm r1, refBh norm r3, (digits t).length + 1 + (pre r1).length + 1 + (pre r3).length⟩
            | c2 :: _ =>
              if c2 == 44 then .ok ⟨log, refBh norm r1, refBh norm r3, (digits t).length + 1 + (pre r1).length + 1 + (pre r3).length⟩
              else .error .blockHash2 := rfl

/-- what it means for a driver result to be the reference result -/
structure Agrees (s2 : Nat) (norm : Bool) (p : Parsed) (ro : RefOk) : Prop where
  log : p.log.toNat = ro.log
  logLt : ro.log < 31
  bh1 : p.bh1 = padTo ro.bh1 FULL_SIZE 0
  len1 : p.len1 = ro.bh1.length
  fit1 : ro.bh1.length ≤ FULL_SIZE
  bh2 : p.bh2 = padTo ro.bh2 s2 0
  len2 : p.len2 = ro.bh2.length
  fit2 : ro.bh2.length ≤ s2
  index : p.index = ro.index
  v1 : FH.BhValid FULL_SIZE norm p.bh1 p.len1.toUInt8
  v2 : FH.BhValid s2 norm p.bh2 p.len2.toUInt8

/-- **C04 (driver).** the three-field driver agrees with the reference grammar on every byte string:
    same acceptance, same decoded content and end index on success, same offending part on failure -/
theorem parseThreeFields_spec (cfg : Cfg) (s2 : Nat) (norm lr dual : Bool) (t : List UInt8)
    (hd : (dual = true → norm = true ∧ lr = true) ∧ (dual = false → lr = false)) (hs2 : s2 ≤ 255) :
    (∀ ro, refParse cfg s2 norm dual t = .ok ro → ∃ p, parseThreeFields cfg s2 norm lr t = .ok p ∧ Agrees s2 norm p ro) ∧
    (∀ o, refParse cfg s2 norm dual t = .error o → ∃ e, parseThreeFields cfg s2 norm lr t = .error e ∧ e.origin = o) := by
  have hbs := blockSize_field t
  rw [refParse_unfold]
  unfold parseThreeFields
  -- block size field
  cases h0 : afterDigits t with
  | nil =>
    obtain ⟨e, he, ho⟩ := hbs.2 (Or.inl h0)
    rw [he]
    exact ⟨fun ro h => by simp at h, fun o h => ⟨e, rfl, by simp at h; rw [← h]; exact ho⟩⟩
  | cons c0 r1 =>
    by_cases hc0 : c0 = 58
    · subst hc0
      simp only [bne_self_eq_false, Bool.false_eq_true, if_false]
      cases hlog : blockSizeLog (digits t) with
      | none =>
        obtain ⟨e, he, ho⟩ := hbs.2 (Or.inr (Or.inr hlog))
        rw [he]
        exact ⟨fun ro h => by simp at h, fun o h => ⟨e, rfl, by simp at h; rw [← h]; exact ho⟩⟩
      | some log =>
        obtain ⟨b, hb, hbl, hl31⟩ := hbs.1 r1 log h0 hlog
        rw [hb]
        simp only
        have hbuf : t.drop ((digits t).length + 1) = r1 := by
          have : t.drop ((digits t).length + 1) = (t.drop (digits t).length).drop 1 := by rw [List.drop_drop]
          rw [this]
          change (afterDigits t).drop 1 = r1
          rw [h0]; rfl
        rw [hbuf]
        have f1 := field_cases cfg FULL_SIZE norm lr dual r1 hd
        cases hf1 : fits cfg norm dual FULL_SIZE (pre r1) with
        | false =>
          have hst := f1.1 hf1
          simp only [Bool.not_false, if_true]
          rw [hst]
          exact ⟨fun ro h => by simp at h, fun o h => ⟨_, rfl, by simp at h; rw [← h]⟩⟩
        | true =>
          obtain ⟨g1, g2, g3, g4, g5, g6, g7⟩ := f1.2 hf1
          simp only [Bool.not_true, Bool.false_eq_true, if_false]
          cases hp1 : post r1 with
          | nil =>
            rw [(g4 hp1).1]
            exact ⟨fun ro h => by simp at h, fun o h => ⟨_, rfl, by simp at h; rw [← h]⟩⟩
          | cons c1 r3 =>
            by_cases hc1 : c1 = 58
            · subst hc1
              obtain ⟨st1, cn1⟩ := g5 r3 hp1
              simp only [bne_self_eq_false, Bool.false_eq_true, if_false]
              rw [st1]
              simp only
              have hbuf2 : r1.drop (parseBlockHash cfg FULL_SIZE (List.replicate FULL_SIZE 0) norm lr r1).consumed = r3 := by
                rw [cn1]
                have : r1.drop ((pre r1).length + 1) = (r1.drop (pre r1).length).drop 1 := by rw [List.drop_drop]
                rw [this]
                change (post r1).drop 1 = r3
                rw [hp1]; rfl
              rw [hbuf2]
              have f2 := field_cases cfg s2 norm lr dual r3 hd
              cases hf2 : fits cfg norm dual s2 (pre r3) with
              | false =>
                have hst := f2.1 hf2
                simp only [Bool.not_false, if_true]
                rw [hst]
                exact ⟨fun ro h => by simp at h, fun o h => ⟨_, rfl, by simp at h; rw [← h]⟩⟩
              | true =>
                obtain ⟨k1, k2, k3, k4, k5, k6, k7⟩ := f2.2 hf2
                simp only [Bool.not_true, Bool.false_eq_true, if_false]
                cases hp2 : post r3 with
                | nil =>
                  obtain ⟨st2, cn2⟩ := k4 hp2
                  rw [st2]
                  refine ⟨fun ro h => ?_, fun o h => by simp at h⟩
                  have hro := Except.ok.inj h
                  refine ⟨_, rfl, ?_⟩
                  rw [← hro]
                  exact ⟨hbl, hl31, g1, g2, g3, k1, k2, k3, by simp only; rw [cn1, cn2]; omega,
                    by simp only; rw [g1, g2]; exact bhValid_of_ref FULL_SIZE norm (pre r1) (pre_all r1) g3 (by decide),
                    by simp only; rw [k1, k2]; exact bhValid_of_ref s2 norm (pre r3) (pre_all r3) k3 hs2⟩
                | cons c2 r5 =>
                  by_cases hc2 : c2 = 44
                  · subst hc2
                    obtain ⟨st2, cn2⟩ := k6 r5 hp2
                    rw [st2]
                    simp only [beq_self_eq_true, if_true]
                    refine ⟨fun ro h => ?_, fun o h => by simp at h⟩
                    have hro := Except.ok.inj h
                    refine ⟨_, rfl, ?_⟩
                    rw [← hro]
                    exact ⟨hbl, hl31, g1, g2, g3, k1, k2, k3, by simp only; rw [cn1, cn2]; omega,
                    by simp only; rw [g1, g2]; exact bhValid_of_ref FULL_SIZE norm (pre r1) (pre_all r1) g3 (by decide),
                    by simp only; rw [k1, k2]; exact bhValid_of_ref s2 norm (pre r3) (pre_all r3) k3 hs2⟩
                  · have b44 : (c2 == 44) = false := by simpa using hc2
                    simp only [b44, Bool.false_eq_true, if_false]
                    by_cases hc2' : c2 = 58
                    · subst hc2'
                      rw [(k5 r5 hp2).1]
                      exact ⟨fun ro h => by simp at h, fun o h => ⟨_, rfl, by simp at h; rw [← h]⟩⟩
                    · rcases k7 c2 r5 hp2 hc2' hc2 with hst | hst <;> rw [hst] <;>
                        exact ⟨fun ro h => by simp at h, fun o h => ⟨_, rfl, by simp at h; rw [← h]⟩⟩
            · have b58 : (c1 != 58) = true := by simpa using hc1
              simp only [b58, if_true]
              by_cases hc1' : c1 = 44
              · subst hc1'
                rw [(g6 r3 hp1).1]
                exact ⟨fun ro h => by simp at h, fun o h => ⟨_, rfl, by simp at h; rw [← h]⟩⟩
              · rcases g7 c1 r3 hp1 hc1 hc1' with hst | hst <;> rw [hst] <;>
                  exact ⟨fun ro h => by simp at h, fun o h => ⟨_, rfl, by simp at h; rw [← h]⟩⟩
    · have b58 : (c0 != 58) = true := by simpa using hc0
      simp only [b58, if_true]
      obtain ⟨e, he, ho⟩ := hbs.2 (Or.inr (Or.inl ⟨c0, r1, h0, hc0⟩))
      rw [he]
      exact ⟨fun ro h => by simp at h, fun o h => ⟨e, rfl, by simp at h; rw [← h]; exact ho⟩⟩

end Ffuzzy.ParseMain
