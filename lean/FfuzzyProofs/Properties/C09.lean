/-
  C09 — The common-substring pre-filter is exact.
-/
import FfuzzyProofs.CommonSub
import FfuzzyProofs.PosArrayInit
namespace Ffuzzy.C09
open Ffuzzy

/-- the two strings share a contiguous substring of 7 symbols (declarative form) -/
def Common7 (a b : List UInt8) : Prop :=
  ∃ i j, i + 7 ≤ a.length ∧ j + 7 ≤ b.length ∧ ∀ t, t < 7 → a[i + t]? = b[j + t]?

/-- **C09 (full strength).** For every `a` of at most 64 symbols loaded by `init_from` (whatever the
    array held before) and every `b`, the backward scan with its skip heuristic answers `true`
    exactly when the strings share 7 contiguous symbols at some pair of offsets. -/
theorem hasCommonSubstring_iff (p0 : PA) (a b : List UInt8)
    (ha : a.length ≤ 64) (hsym : ∀ x ∈ a, x.toNat < 64) :
    ∃ q, p0.initFrom a = some q ∧ (q.hasCommonSubstringInternal b = true ↔ Common7 a b) := by
  obtain ⟨q, hq, _, hlen, hspec⟩ := PosInit.initFrom_spec p0 a ha hsym
  exact ⟨q, hq, CommonSub.hasCommonSubstring_iff a b q hspec ha hlen⟩

/-- the executable oracle `Spec.common7` decides the same predicate -/
theorem common7_iff (a b : List UInt8) : Spec.common7 a b = true ↔ Common7 a b := by
  unfold Spec.common7 Common7
  simp only [List.any_eq_true, List.mem_range, Bool.and_eq_true, decide_eq_true_eq, beq_iff_eq]
  constructor
  · rintro ⟨i, hi, j, hj, ⟨h1, h2⟩, h3⟩
    refine ⟨i, j, by omega, by omega, ?_⟩
    intro t ht
    have := congrArg (fun l => l[t]?) h3
    simp only [List.getElem?_take, ht, if_true, List.getElem?_drop] at this
    exact this
  · rintro ⟨i, j, hi, hj, h⟩
    refine ⟨i, by omega, j, by omega, ⟨by omega, by omega⟩, ?_⟩
    apply List.ext_getElem?
    intro t
    by_cases ht : t < 7
    · simp only [List.getElem?_take, ht, if_true, List.getElem?_drop]; exact h t ht
    · simp [List.getElem?_take, ht]

theorem hasCommonSubstring_eq_spec (p0 : PA) (a b : List UInt8)
    (ha : a.length ≤ 64) (hsym : ∀ x ∈ a, x.toNat < 64) :
    ∃ q, p0.initFrom a = some q ∧ q.hasCommonSubstringInternal b = Spec.common7 a b := by
  obtain ⟨q, hq, h⟩ := hasCommonSubstring_iff p0 a b ha hsym
  refine ⟨q, hq, ?_⟩
  have := common7_iff a b
  cases h1 : q.hasCommonSubstringInternal b <;> cases h2 : Spec.common7 a b <;> simp_all

/-- non-vacuity -/
example : ∃ q, PA.new.initFrom [9, 1, 2, 3, 4, 5, 6, 7] = some q ∧
    q.hasCommonSubstringInternal [1, 2, 3, 4, 5, 6, 7, 8] = true := by
  obtain ⟨q, hq, h⟩ := hasCommonSubstring_eq_spec PA.new [9, 1, 2, 3, 4, 5, 6, 7] [1, 2, 3, 4, 5, 6, 7, 8]
    (by decide) (by decide)
  exact ⟨q, hq, by rw [h]; decide⟩

end Ffuzzy.C09
