/-
  C16, dual hashes: the order on dual hashes is a total order (also among hashes sharing a
  normalised part), whose `Equal` is structural equality.
-/
import FfuzzyProofs.Properties.C16
namespace Ffuzzy.C16
open Ffuzzy

theorem cmpBytes_eq_lex : ∀ x y : List UInt8, FH.cmpBytes x y = lex x y := by
  intro x
  induction x with
  | nil => intro y; cases y <;> rfl
  | cons a as ih =>
    intro y
    cases y with
    | nil => rfl
    | cons b bs =>
      show (if a < b then Ordering.lt else if b < a then Ordering.gt else FH.cmpBytes as bs) =
        (if a < b then Ordering.lt else if b < a then Ordering.gt else lex as bs)
      rw [ih bs]

/-- the three comparisons of a triple behave like a total preorder compatible with `Equal` -/
structure TO (fab fbc fac : Ordering) : Prop where
  lt : fab = .lt → fbc = .lt → fac = .lt
  eqL : fab = .eq → fac = fbc
  eqR : fbc = .eq → fac = fab

theorem TO.then {f1 f2 f3 g1 g2 g3 : Ordering} (hf : TO f1 f2 f3) (hg : TO g1 g2 g3) :
    TO (f1.then g1) (f2.then g2) (f3.then g3) := by
  obtain ⟨a1, a2, a3⟩ := hf
  obtain ⟨b1, b2, b3⟩ := hg
  refine ⟨?_, ?_, ?_⟩ <;> cases f1 <;> cases f2 <;> cases f3 <;> simp_all [Ordering.then]

theorem lex_TO (x y z : List UInt8) : TO (lex x y) (lex y z) (lex x z) :=
  ⟨lex_trans_lt x y z, fun h => by rw [(lex_eq_iff x y).mp h], fun h => by rw [(lex_eq_iff y z).mp h]⟩

theorem fh_TO (s2 : Nat) (norm : Bool) (a b c : FH) (ha : FH.Valid s2 norm a) (hb : FH.Valid s2 norm b)
    (hc : FH.Valid s2 norm c) : TO (FH.cmp a b) (FH.cmp b c) (FH.cmp a c) := by
  obtain ⟨e1, _, t1⟩ := cmp_total_order s2 norm a b c ha hb hc
  obtain ⟨e2, _, _⟩ := cmp_total_order s2 norm b c a hb hc ha
  refine ⟨t1, fun h => ?_, fun h => ?_⟩
  · rw [((eq_iff s2 norm a b ha hb).2).mp (e1.mp h)]
  · rw [((eq_iff s2 norm b c hb hc).2).mp (e2.mp h)]

/-- **C16 (dual order).** on dual hashes whose normalised parts are valid, `cmp` is a total order:
    `Equal` exactly for identical objects, antisymmetric, transitive — in particular hashes sharing a
    normalised part are totally and deterministically ordered by their RLE blocks -/
theorem dual_cmp_total_order (s2 : Nat) (a b c : DH) (ha : FH.Valid s2 true a.norm) (hb : FH.Valid s2 true b.norm)
    (hc : FH.Valid s2 true c.norm) :
    (DH.cmp a b = .eq ↔ a = b) ∧ DH.cmp b a = (DH.cmp a b).swap ∧
    (DH.cmp a b = .lt → DH.cmp b c = .lt → DH.cmp a c = .lt) := by
  unfold DH.cmp
  simp only [cmpBytes_eq_lex]
  refine ⟨?_, ?_, ?_⟩
  · simp only [Ordering.then_eq_eq, lex_eq_iff]
    obtain ⟨e1, _, _⟩ := cmp_total_order s2 true a.norm b.norm b.norm ha hb hb
    constructor
    · rintro ⟨h1, h2, h3⟩
      have hn := ((eq_iff s2 true a.norm b.norm ha hb).2).mp (e1.mp h1)
      cases a with
      | mk ra1 ra2 na =>
        cases b with
        | mk rb1 rb2 nb =>
          simp only at h2 h3 hn
          rw [h2, h3, hn]
    · intro h; rw [h]
      obtain ⟨e2, _, _⟩ := cmp_total_order s2 true b.norm b.norm b.norm hb hb hb
      exact ⟨e2.mpr (((eq_iff s2 true b.norm b.norm hb hb).2).mpr rfl), rfl, rfl⟩
  · rw [Ordering.swap_then, Ordering.swap_then, ← (cmp_total_order s2 true a.norm b.norm b.norm ha hb hb).2.1,
      ← lex_swap, ← lex_swap]
  · exact ((fh_TO s2 true a.norm b.norm c.norm ha hb hc).then ((lex_TO _ _ _).then (lex_TO _ _ _))).lt

end Ffuzzy.C16
