/-
  C07 — dual hashes are a lossless, canonical encoding of raw plus normalized.
-/
import FfuzzyProofs.Dual.ParseRoute
import FfuzzyProofs.Properties.C05
import FfuzzyProofs.Properties.C06
import FfuzzyProofs.Properties.C16
namespace Ffuzzy.C07
open Ffuzzy Ffuzzy.Spec Ffuzzy.Collapse Ffuzzy.DualA Ffuzzy.DualB Ffuzzy.DualP

/-- the RLE block of a raw block hash -/
def rleOf (c : Nat) (x : List UInt8) : List UInt8 := padTo ((compressA x).2.map encodeEnt) c 0

/-- one block hash: compress gives `(collapse, RLE)`, expand gives the raw block hash back,
    whatever the destination arrays held before -/
theorem block_roundtrip (n c : Nat) (hn : n ≤ 64) (hc : n ≤ 4 * c) (bh : List UInt8) (len : UInt8)
    (hv : FH.BhValid n false bh len) (o1 r1 o2 : List UInt8) (ho1 : o1.length = n) (hr1 : r1.length = c)
    (ho2 : o2.length = n) :
    compressBlockHash o1 r1 (bh.take len.toNat) =
      some (padTo (collapse (bh.take len.toNat)) n 0, rleOf c (bh.take len.toNat),
            (collapse (bh.take len.toNat)).length.toUInt8) ∧
    expandBlockHash o2 (padTo (collapse (bh.take len.toNat)) n 0) (collapse (bh.take len.toNat)).length.toUInt8
        (rleOf c (bh.take len.toNat)) = (bh, len) := by
  have hx : ∀ s ∈ bh.take len.toNat, s ≠ b64Invalid := FH.sym_ne_invalid hv.sym
  have hxl : (bh.take len.toNat).length = len.toNat := by
    rw [List.length_take, hv.arr]; exact Nat.min_eq_left hv.len_le
  have hcs := compressBlockHash_spec n c hn hc o1 r1 (bh.take len.toNat) ho1 hr1 hx (by rw [hxl]; exact hv.len_le)
  have hco := compress_out (bh.take len.toNat) hx
  obtain ⟨hec, hpos⟩ := expand_compress (bh.take len.toNat) hx
  have hb := bnd_fold (bh.take len.toNat) {} [] bnd_init (fun _ => rfl) hx
  simp only [List.nil_append] at hb
  obtain ⟨ps1, ps2⟩ := pending_sorted _ _ hb
  rw [hco] at hcs hec hpos
  refine ⟨hcs, ?_⟩
  have hcl : (collapse (bh.take len.toNat)).length ≤ n := by
    have := collapse_length_le (bh.take len.toNat); rw [hxl] at this; have := hv.len_le; omega
  -- well-formedness of the entries
  have hwf : ∀ e ∈ (compressA (bh.take len.toNat)).2,
      1 ≤ e.1 ∧ e.1 < (collapse (bh.take len.toNat)).length ∧ e.1 < 64 ∧ 1 ≤ e.2 ∧ e.2 ≤ 4 := by
    intro e he
    have hp := hpos e he
    have hA : (compressA (bh.take len.toNat)).2 =
        ((bh.take len.toNat).foldl step {}).ents ++ pending ((bh.take len.toNat).foldl step {}) := rfl
    rw [hA] at he
    have hw : 2 ≤ e.1 ∧ 1 ≤ e.2 ∧ e.2 ≤ 4 := by
      rcases List.mem_append.mp he with h1 | h1
      · exact hb.wf e h1
      · unfold pending at h1
        split at h1
        · next h3 =>
          obtain ⟨c1, c2, c3⟩ := chunks_mem _ _ e h1
          have hne : bh.take len.toNat ≠ [] := by intro e0; have := (hb.empty e0).2.1; omega
          have := (hb.ents hne).2
          exact ⟨by rw [c1]; omega, c2, c3⟩
        · simp at h1
    exact ⟨by omega, hp, by omega, hw.2.1, hw.2.2⟩
  have hlenc : (compressA (bh.take len.toNat)).2.length ≤ c := by
    have hA : (compressA (bh.take len.toNat)).2 =
        ((bh.take len.toNat).foldl step {}).ents ++ pending ((bh.take len.toNat).foldl step {}) := rfl
    rw [hA, List.length_append]
    by_cases hne : bh.take len.toNat = []
    · obtain ⟨e1, e2, _⟩ := hb.empty hne
      unfold pending; rw [e1, e2]; simp
    · obtain ⟨b1, _⟩ := hb.ents hne
      rw [hxl] at b1
      have : (pending ((bh.take len.toNat).foldl step {})).length ≤ (((bh.take len.toNat).foldl step {}).seq + 1) / 4 := by
        unfold pending
        split
        · rw [chunks_length]; omega
        · simp
      have := hv.len_le
      omega
  have hes := expandBlockHash_spec n c o2 (collapse (bh.take len.toNat)) (compressA (bh.take len.toNat)).2 ho2 hcl
    (by omega) hlenc hwf ps1 (by rw [hec, hxl]; exact hv.len_le)
  unfold rleOf
  rw [hes, hec, hxl]
  congr 1
  · -- the array is its content followed by zeros
    unfold padTo
    rw [hxl]
    conv => rhs; rw [← List.take_append_drop len.toNat bh]
    congr 1
    apply List.ext_getElem
    · simp [hv.arr]
    · intro i h1 h2
      simp only [List.getElem_replicate]
      exact (hv.tail _ (List.getElem_mem h2)).symm
  · apply UInt8.toNat_inj.mp
    simp [Nat.toUInt8, UInt8.toNat_ofNat']

/-- the canonical dual hash of a raw hash -/
def dualOf (s2 : Nat) (h : FH) : DH :=
  { rle1 := rleOf DH.c1 h.blockHash1, rle2 := rleOf (DH.c2 s2) h.blockHash2, norm := FH.normalize false h }

theorem normalize_obj (s2 : Nat) (hs2 : s2 ≤ 64) (h : FH) (hv : FH.Valid s2 false h) :
    FH.normalize false h =
      { bh1 := padTo (collapse h.blockHash1) FULL_SIZE 0, bh2 := padTo (collapse h.blockHash2) s2 0,
        len1 := (collapse h.blockHash1).length.toUInt8, len2 := (collapse h.blockHash2).length.toUInt8, log := h.log } := by
  have a := normalizeBlockHash_spec FULL_SIZE h.bh1 h.len1 (by decide) hv.b1
  have b := normalizeBlockHash_spec s2 h.bh2 h.len2 hs2 hv.b2
  simp only at a b
  have e1 : (normalizeBlockHashInPlace h.bh1 h.len1 false).2 = (collapse h.blockHash1).length.toUInt8 := by
    apply UInt8.toNat_inj.mp
    rw [a.2.1]
    have := a.2.2.1.len_le
    rw [a.2.1] at this
    unfold FULL_SIZE at this
    simp [Nat.toUInt8, UInt8.toNat_ofNat', FH.blockHash1]
    omega
  have e2 : (normalizeBlockHashInPlace h.bh2 h.len2 false).2 = (collapse h.blockHash2).length.toUInt8 := by
    apply UInt8.toNat_inj.mp
    rw [b.2.1]
    have := b.2.2.1.len_le
    rw [b.2.1] at this
    simp [Nat.toUInt8, UInt8.toNat_ofNat', FH.blockHash2]
    omega
  unfold FH.normalize FH.normalizeInPlaceInternal
  simp only
  rw [show (normalizeBlockHashInPlace h.bh1 h.len1 false) =
      ((normalizeBlockHashInPlace h.bh1 h.len1 false).1, (normalizeBlockHashInPlace h.bh1 h.len1 false).2) from rfl,
    show (normalizeBlockHashInPlace h.bh2 h.len2 false) =
      ((normalizeBlockHashInPlace h.bh2 h.len2 false).1, (normalizeBlockHashInPlace h.bh2 h.len2 false).2) from rfl]
  simp only
  rw [a.1, b.1, e1, e2]
  rfl

/-- **C07 (object route, lossless).** building a dual hash from a valid raw hash — into a fresh or a
    previously used object — gives the canonical dual hash: its normalised part is the normalisation
    of the raw hash, and expanding it — into a fresh or a previously used object — gives exactly the
    raw hash back -/
theorem dual_roundtrip (s2 : Nat) (hs2 : s2 = 32 ∨ s2 = 64) (h : FH) (hv : FH.Valid s2 false h)
    (self : DH) (hs1 : self.norm.bh1.length = FULL_SIZE) (hs2' : self.norm.bh2.length = s2)
    (hs3 : self.rle1.length = DH.c1) (hs4 : self.rle2.length = DH.c2 s2)
    (dest : FH) (hd1 : dest.bh1.length = FULL_SIZE) (hd2 : dest.bh2.length = s2) :
    DH.initFromRawForm self h = some (dualOf s2 h) ∧
    (dualOf s2 h).norm = FH.normalize false h ∧
    DH.intoMutRawForm (dualOf s2 h) dest = h := by
  have hle : s2 ≤ 64 := by rcases hs2 with e | e <;> omega
  have hc2 : s2 ≤ 4 * DH.c2 s2 := by unfold DH.c2; rcases hs2 with e | e <;> subst e <;> decide
  obtain ⟨p1, q1⟩ := block_roundtrip FULL_SIZE DH.c1 (by decide) (by decide) h.bh1 h.len1 hv.b1
    self.norm.bh1 self.rle1 dest.bh1 hs1 hs3 hd1
  obtain ⟨p2, q2⟩ := block_roundtrip s2 (DH.c2 s2) hle hc2 h.bh2 h.len2 hv.b2
    self.norm.bh2 self.rle2 dest.bh2 hs2' hs4 hd2
  have hno := normalize_obj s2 hle h hv
  refine ⟨?_, rfl, ?_⟩
  · unfold DH.initFromRawForm
    change compressBlockHash self.norm.bh1 self.rle1 h.blockHash1 = _ at p1
    change compressBlockHash self.norm.bh2 self.rle2 h.blockHash2 = _ at p2
    rw [p1]
    simp only
    rw [p2]
    simp only
    unfold dualOf
    rw [hno]
    rfl
  · unfold DH.intoMutRawForm dualOf
    simp only
    rw [hno]
    simp only
    change expandBlockHash dest.bh1 (padTo (collapse h.blockHash1) FULL_SIZE 0) (collapse h.blockHash1).length.toUInt8
      (rleOf DH.c1 h.blockHash1) = _ at q1
    change expandBlockHash dest.bh2 (padTo (collapse h.blockHash2) s2 0) (collapse h.blockHash2).length.toUInt8
      (rleOf (DH.c2 s2) h.blockHash2) = _ at q2
    rw [q1, q2]

/-- the freshly constructed route is the same function -/
theorem fromRawForm_eq (s2 : Nat) (hs2 : s2 = 32 ∨ s2 = 64) (h : FH) (hv : FH.Valid s2 false h) :
    DH.fromRawForm s2 h = some (dualOf s2 h) ∧ DH.toRawForm s2 (dualOf s2 h) = h := by
  have := dual_roundtrip s2 hs2 h hv (DH.new s2) (by simp [DH.new, FH.new]) (by simp [DH.new, FH.new])
    (by simp [DH.new]) (by simp [DH.new]) (FH.new s2) (by simp [FH.new]) (by simp [FH.new])
  exact ⟨this.1, this.2.2⟩

/-- **C07 (canonical).** two dual hashes built from valid raw hashes are equal — as objects, hence
    for `==`, `Hash` and `Ord` — exactly when the raw hashes are equal -/
theorem dual_eq_iff (s2 : Nat) (hs2 : s2 = 32 ∨ s2 = 64) (a b : FH) (ha : FH.Valid s2 false a) (hb : FH.Valid s2 false b) :
    dualOf s2 a = dualOf s2 b ↔ a = b := by
  constructor
  · intro h
    have r1 := (fromRawForm_eq s2 hs2 a ha).2
    have r2 := (fromRawForm_eq s2 hs2 b hb).2
    rw [← r1, ← r2, h]
  · intro h; rw [h]

/-- total length of an expansion -/
theorem after_length (inp : List UInt8) : ∀ (es : List (Nat × Nat)) (src : Nat) (acc : List UInt8),
    src ≤ inp.length → (∀ e ∈ es, e.1 ≤ inp.length) → List.Pairwise (fun a b : Nat × Nat => a.1 ≤ b.1) es →
    (∀ e ∈ es, src ≤ e.1) →
    (after inp es (src, acc)).2.length + (inp.length - (after inp es (src, acc)).1) =
      acc.length + (inp.length - src) + (es.map (·.2)).sum := by
  intro es
  induction es with
  | nil => intro src acc _ _ _ _; simp [after]
  | cons e es ih =>
    intro src acc hs hle hsort hge
    obtain ⟨pos, l⟩ := e
    simp only [after]
    have hp := hle (pos, l) (by simp)
    have hsp := hge (pos, l) (by simp)
    have hsort' := List.pairwise_cons.mp hsort
    rw [ih pos _ hp (fun e he => hle e (by simp [he])) hsort'.2 (fun e he => hsort'.1 e he)]
    simp only [List.length_append, List.length_take, List.length_drop, List.length_replicate, List.map_cons, List.sum_cons]
    simp only at hp hsp
    omega

/-- a block hash without runs longer than three has an empty RLE block -/
theorem rleOf_normalized (c : Nat) (y : List UInt8) (hy : ∀ s ∈ y, s ≠ b64Invalid) (hn : collapse y = y) :
    rleOf c y = List.replicate c 0 := by
  obtain ⟨hec, hpos⟩ := expand_compress y hy
  have hco := compress_out y hy
  have hb := bnd_fold y {} [] bnd_init (fun _ => rfl) hy
  simp only [List.nil_append] at hb
  obtain ⟨ps1, ps2⟩ := pending_sorted _ _ hb
  have hA : (compressA y).2 = (y.foldl step {}).ents ++ pending (y.foldl step {}) := rfl
  rw [hco, hn] at hec hpos
  have hlen := after_length y (compressA y).2 0 [] (Nat.zero_le _) (fun e he => Nat.le_of_lt (hpos e he)) (by rw [hA]; exact ps1)
    (fun _ _ => Nat.zero_le _)
  have hex : expandA y (compressA y).2 = (after y (compressA y).2 (0, [])).2 ++ y.drop (after y (compressA y).2 (0, [])).1 := by
    unfold expandA; exact expandGo_after y _ 0 []
  have hl2 := congrArg List.length hec
  rw [hex] at hl2
  simp only [List.length_append, List.length_drop, List.length_nil, Nat.sub_zero, Nat.zero_add] at hl2 hlen
  have hsum : ((compressA y).2.map (·.2)).sum = 0 := by omega
  have hempty : (compressA y).2 = [] := by
    cases hce : (compressA y).2 with
    | nil => rfl
    | cons e es =>
      exfalso
      rw [hce] at hsum
      simp only [List.map_cons, List.sum_cons] at hsum
      have he : e ∈ (compressA y).2 := by rw [hce]; simp
      rw [hA] at he
      have : 1 ≤ e.2 := by
        rcases List.mem_append.mp he with h1 | h1
        · exact (hb.wf e h1).2.1
        · unfold pending at h1
          split at h1
          · exact (chunks_mem _ _ e h1).2.1
          · simp at h1
      omega
  unfold rleOf
  rw [hempty]
  simp [padTo]

/-- **C07 (clearing the reverse-normalisation data).** `normalize_in_place` on a dual hash yields the
    dual hash of the normalised hash, which is also what `from_normalized` builds -/
theorem dual_normalize (s2 : Nat) (hs2 : s2 = 32 ∨ s2 = 64) (h : FH) (hv : FH.Valid s2 false h) :
    DH.normalizeInPlace s2 (dualOf s2 h) = dualOf s2 (FH.normalize false h) ∧
    DH.fromNormalized s2 (FH.normalize false h) = dualOf s2 (FH.normalize false h) := by
  have hle : s2 ≤ 64 := by rcases hs2 with e | e <;> omega
  obtain ⟨hvn, hlog, e1, e2⟩ := C06.normalize_eq_collapse s2 hle h hv
  have hidem := C06.normalize_idem s2 hle h hv
  have hx1 : ∀ s ∈ collapse h.blockHash1, s ≠ b64Invalid :=
    fun s hs => FH.sym_ne_invalid hv.b1.sym s (collapse_mem _ s hs)
  have hx2 : ∀ s ∈ collapse h.blockHash2, s ≠ b64Invalid :=
    fun s hs => FH.sym_ne_invalid hv.b2.sym s (collapse_mem _ s hs)
  have r1 := rleOf_normalized DH.c1 _ hx1 (collapse_idem _)
  have r2 := rleOf_normalized (DH.c2 s2) _ hx2 (collapse_idem _)
  have hd : dualOf s2 (FH.normalize false h) =
      { rle1 := List.replicate DH.c1 0, rle2 := List.replicate (DH.c2 s2) 0, norm := FH.normalize false h } := by
    unfold dualOf
    rw [hidem, e1, e2, r1, r2]
  refine ⟨?_, ?_⟩
  · rw [hd]; rfl
  · rw [hd]; rfl

/-- the RLE block of a valid raw block hash is accepted by `is_valid_rle_block_for_block_hash` -/
theorem rle_block_valid (n c : Nat) (hn : n ≤ 64) (bh : List UInt8) (len : UInt8) (hv : FH.BhValid n false bh len) :
    isValidRleBlock (padTo (collapse (bh.take len.toNat)) n 0) (rleOf c (bh.take len.toNat))
      (collapse (bh.take len.toNat)).length.toUInt8 = true := by
  have hx : ∀ s ∈ bh.take len.toNat, s ≠ b64Invalid := FH.sym_ne_invalid hv.sym
  have hxl : (bh.take len.toNat).length = len.toNat := by
    rw [List.length_take, hv.arr]; exact Nat.min_eq_left hv.len_le
  have hco := compress_out (bh.take len.toNat) hx
  obtain ⟨hec, hpos⟩ := expand_compress (bh.take len.toNat) hx
  have hgood := compressA_good (bh.take len.toNat) hx
  have hb := bnd_fold (bh.take len.toNat) {} [] bnd_init (fun _ => rfl) hx
  simp only [List.nil_append] at hb
  obtain ⟨ps1, ps2⟩ := pending_sorted _ _ hb
  rw [hco] at hec hpos hgood
  have hcl : (collapse (bh.take len.toNat)).length ≤ n := by
    have := collapse_length_le (bh.take len.toNat); rw [hxl] at this; have := hv.len_le; omega
  have hLn : (collapse (bh.take len.toNat)).length.toUInt8.toNat = (collapse (bh.take len.toNat)).length := by
    simp [Nat.toUInt8, UInt8.toNat_ofNat']; omega
  obtain ⟨pt1, pt2⟩ := padTo_take (collapse (bh.take len.toNat)) n 0 hcl
  have hspec := rleValidLoop_spec (padTo (collapse (bh.take len.toNat)) n 0) (collapse (bh.take len.toNat)).length.toUInt8
    (by rw [hLn, pt2]; exact hcl) (compressA (bh.take len.toNat)).2
    (List.replicate (c - ((compressA (bh.take len.toNat)).2.map encodeEnt).length) 0)
    (collapse (bh.take len.toNat)).length.toUInt8.toNat 0 0
    (by rw [hLn, pt1]; exact hgood) (fun e he => by have := hpos e he; omega)
    (fun t ht => (List.mem_replicate.mp ht).2)
  -- total expanded length = raw length
  have hA : (compressA (bh.take len.toNat)).2 =
      ((bh.take len.toNat).foldl step {}).ents ++ pending ((bh.take len.toNat).foldl step {}) := rfl
  have hlen := after_length (collapse (bh.take len.toNat)) (compressA (bh.take len.toNat)).2 0 [] (Nat.zero_le _)
    (fun e he => Nat.le_of_lt (hpos e he)) (by rw [hA]; exact ps1) (fun _ _ => Nat.zero_le _)
  have hex : expandA (collapse (bh.take len.toNat)) (compressA (bh.take len.toNat)).2 =
      (after (collapse (bh.take len.toNat)) (compressA (bh.take len.toNat)).2 (0, [])).2 ++
        (collapse (bh.take len.toNat)).drop (after (collapse (bh.take len.toNat)) (compressA (bh.take len.toNat)).2 (0, [])).1 := by
    unfold expandA; exact expandGo_after _ _ 0 []
  have hl2 := congrArg List.length hec
  rw [hex] at hl2
  simp only [List.length_append, List.length_drop, List.length_nil, Nat.sub_zero, Nat.zero_add] at hl2 hlen
  unfold isValidRleBlock rleOf
  change (match rleValidLoop _ _ ((compressA (bh.take len.toNat)).2.map encodeEnt ++
    List.replicate (c - ((compressA (bh.take len.toNat)).2.map encodeEnt).length) 0) _ false 0 0 with
    | none => false | some expanded => !decide (expanded > (padTo (collapse (bh.take len.toNat)) n 0).length)) = true
  rw [hspec, hLn, pt2]
  simp only [Bool.not_eq_true', decide_eq_false_iff_not, Nat.not_lt]
  have := hv.len_le
  omega

/-- **C07 (validity).** the dual hash of every valid raw hash passes `is_valid` -/
theorem dual_valid (s2 : Nat) (hs2 : s2 = 32 ∨ s2 = 64) (h : FH) (hv : FH.Valid s2 false h) :
    DH.isValid s2 (dualOf s2 h) = true := by
  have hle : s2 ≤ 64 := by rcases hs2 with e | e <;> omega
  obtain ⟨hvn, _, _, _⟩ := C06.normalize_eq_collapse s2 hle h hv
  have hno := normalize_obj s2 hle h hv
  have v1 := rle_block_valid FULL_SIZE DH.c1 (by decide) h.bh1 h.len1 hv.b1
  have v2 := rle_block_valid s2 (DH.c2 s2) hle h.bh2 h.len2 hv.b2
  unfold DH.isValid dualOf
  simp only
  rw [(FH.isValid_iff s2 true _ hvn.b1.arr hvn.b2.arr).mpr hvn]
  rw [hno]
  simp only [Bool.true_and]
  change (isValidRleBlock (padTo (collapse (h.bh1.take h.len1.toNat)) FULL_SIZE 0) (rleOf DH.c1 (h.bh1.take h.len1.toNat))
      (collapse (h.bh1.take h.len1.toNat)).length.toUInt8 &&
    isValidRleBlock (padTo (collapse (h.bh2.take h.len2.toNat)) s2 0) (rleOf (DH.c2 s2) (h.bh2.take h.len2.toNat))
      (collapse (h.bh2.take h.len2.toNat)).length.toUInt8) = true
  rw [v1, v2]; rfl

/-! ### the text route -/

open Ffuzzy.ParseBh Ffuzzy.ParseBs Ffuzzy.ParseField Ffuzzy.ParseMain in
/-- what a successful three-field parse was made of -/
theorem parseThreeFields_ok_parts (cfg : Cfg) (s2 : Nat) (norm lr : Bool) (str : List UInt8) (b : UInt32) (off : Nat)
    (p : Parsed) (hbs : parseBlockSize str = .ok (b, off)) (hp : parseThreeFields cfg s2 norm lr str = .ok p) :
    (parseBlockHash cfg FULL_SIZE (List.replicate FULL_SIZE 0) norm lr (str.drop off)).state = .metColon ∧
    p.reports2 = (parseBlockHash cfg s2 (List.replicate s2 0) norm lr
      ((str.drop off).drop (parseBlockHash cfg FULL_SIZE (List.replicate FULL_SIZE 0) norm lr (str.drop off)).consumed)).reports := by
  unfold parseThreeFields at hp
  rw [hbs] at hp
  simp only at hp
  split at hp
  · simp at hp
  · simp at hp
  · simp at hp
  · simp at hp
  · next hst =>
    refine ⟨hst, ?_⟩
    split at hp
    · have := Except.ok.inj hp; rw [← this]
    · have := Except.ok.inj hp; rw [← this]
    · simp at hp
    · simp at hp
    · simp at hp

open Ffuzzy.ParseBh Ffuzzy.ParseBs Ffuzzy.ParseField Ffuzzy.ParseMain in
/-- the raw hash denoted by an accepted dual text -/
def rawOf (s2 log : Nat) (r1 r3 : List UInt8) : FH :=
  { bh1 := padTo ((pre r1).map b64Index) FULL_SIZE 0, bh2 := padTo ((pre r3).map b64Index) s2 0,
    len1 := (pre r1).length.toUInt8, len2 := (pre r3).length.toUInt8, log := log.toUInt8 }

open Ffuzzy.ParseBh Ffuzzy.ParseBs Ffuzzy.ParseField Ffuzzy.ParseMain in
/-- **C07 (text route).** the dual parser never panics; it fails exactly when the reference grammar
    for dual hashes rejects (naming the same part), and otherwise returns the canonical dual hash of
    the raw hash the text denotes, with the reference end index -/
theorem dual_parse_exact (cfg : Cfg) (s2 : Nat) (hs2 : s2 = 32 ∨ s2 = 64) (t : List UInt8) :
    (∀ o, refParse cfg s2 true true t = .error o → ∃ e, DH.parse cfg s2 t = some (.error e) ∧ e.origin = o) ∧
    (∀ ro, refParse cfg s2 true true t = .ok ro →
      ∃ r1 r3, afterDigits t = 58 :: r1 ∧ post r1 = 58 :: r3 ∧
        FH.Valid s2 false (rawOf s2 ro.log r1 r3) ∧
        DH.parse cfg s2 t = some (.ok (dualOf s2 (rawOf s2 ro.log r1 r3), ro.index))) := by
  have hle : s2 ≤ 64 := by rcases hs2 with e | e <;> omega
  have hc2 : s2 ≤ 4 * DH.c2 s2 := by unfold DH.c2; rcases hs2 with e | e <;> subst e <;> decide
  have hd : (true = true → true = true ∧ true = true) ∧ (true = false → true = false) :=
    ⟨fun _ => ⟨rfl, rfl⟩, fun h => by simp at h⟩
  have hspec := parseThreeFields_spec cfg s2 true true true t hd (by omega)
  have hbsf := blockSize_field t
  refine ⟨fun o ho => ?_, fun ro hro => ?_⟩
  · obtain ⟨e, he, hor⟩ := hspec.2 o ho
    unfold DH.parse
    cases hbs : parseBlockSize t with
    | error e' =>
      simp only
      have : parseThreeFields cfg s2 true true t = .error e' := by unfold parseThreeFields; rw [hbs]
      rw [this] at he
      have := Except.error.inj he
      exact ⟨e', rfl, by rw [this]; exact hor⟩
    | ok bo =>
      obtain ⟨b, off⟩ := bo
      simp only
      obtain ⟨rle1, hr1⟩ := (field_reports cfg FULL_SIZE DH.c1 (by decide) (by decide) (List.replicate FULL_SIZE 0) (t.drop off) (by simp)).1
      rw [hr1]
      simp only
      rw [he]
      simp only
      split
      · obtain ⟨rle2, hr2⟩ := (field_reports cfg s2 (DH.c2 s2) hle hc2 (List.replicate s2 0)
          ((t.drop off).drop (parseBlockHash cfg FULL_SIZE (List.replicate FULL_SIZE 0) true true (t.drop off)).consumed) (by simp)).1
        rw [hr2]
        exact ⟨e, rfl, hor⟩
      · exact ⟨e, rfl, hor⟩
  · obtain ⟨p, hp, ha⟩ := hspec.1 ro hro
    obtain ⟨r1, r3, log, h0, hlog, hp1, hroe⟩ := C05.refParse_ok_shape cfg s2 true true t ro hro
    obtain ⟨b, hb, hbl, hl31⟩ := hbsf.1 r1 log h0 hlog
    obtain ⟨hst1, hrep2⟩ := parseThreeFields_ok_parts cfg s2 true true t b _ p hb hp
    have hbuf : t.drop ((digits t).length + 1) = r1 := by
      have : t.drop ((digits t).length + 1) = (t.drop (digits t).length).drop 1 := by rw [List.drop_drop]
      rw [this]
      change (afterDigits t).drop 1 = r1
      rw [h0]; rfl
    rw [hbuf] at hst1 hrep2
    -- the two fields fit
    have hfits : fits cfg true true FULL_SIZE (pre r1) = true ∧ fits cfg true true s2 (pre r3) = true := by
      have hraw := hro
      rw [refParse_unfold, h0] at hraw
      simp only [bne_self_eq_false, Bool.false_eq_true, if_false, hlog] at hraw
      rw [hp1] at hraw
      simp only [bne_self_eq_false, Bool.false_eq_true, if_false] at hraw
      have f1 : fits cfg true true FULL_SIZE (pre r1) = true := by
        cases hf : fits cfg true true FULL_SIZE (pre r1)
        · simp [hf] at hraw
        · rfl
      rw [f1] at hraw
      simp only [Bool.not_true, Bool.false_eq_true, if_false] at hraw
      have f2 : fits cfg true true s2 (pre r3) = true := by
        cases hf : fits cfg true true s2 (pre r3)
        · simp [hf] at hraw
        · rfl
      exact ⟨f1, f2⟩
    have hF1 := (fits_iff cfg FULL_SIZE true true true r1 hd).mpr hfits.1
    have hF2 := (fits_iff cfg s2 true true true r3 hd).mpr hfits.2
    have fc1 := field_cases cfg FULL_SIZE true true true r1 hd
    obtain ⟨_, _, _, _, g5, _, _⟩ := fc1.2 hfits.1
    obtain ⟨_, cn1⟩ := g5 r3 hp1
    have hbuf2 : r1.drop (parseBlockHash cfg FULL_SIZE (List.replicate FULL_SIZE 0) true true r1).consumed = r3 := by
      rw [cn1]
      have : r1.drop ((pre r1).length + 1) = (r1.drop (pre r1).length).drop 1 := by rw [List.drop_drop]
      rw [this]
      change (post r1).drop 1 = r3
      rw [hp1]; rfl
    rw [hbuf2] at hrep2
    have hR1 := (field_reports cfg FULL_SIZE DH.c1 (by decide) (by decide) (List.replicate FULL_SIZE 0) r1 (by simp)).2 hF1
    have hR2 := (field_reports cfg s2 (DH.c2 s2) hle hc2 (List.replicate s2 0) r3 (by simp)).2 hF2
    -- lengths of the raw fields
    have hfit_len : ∀ (cap : Nat) (x : List UInt8), fits cfg true true cap x = true → x.length ≤ cap := by
      intro cap x hx
      unfold fits at hx
      simpa using hx
    have l1 := hfit_len _ _ hfits.1
    have l2 := hfit_len _ _ hfits.2
    unfold FULL_SIZE at l1
    -- the raw object
    have hsym : ∀ r, ∀ x ∈ (pre r).map b64Index, x < 64 := by
      intro r x hx
      simp only [List.mem_map] at hx
      obtain ⟨ch, hch, rfl⟩ := hx
      exact (b64_roundtrip ch (pre_all r ch hch)).2
    have hvalid : FH.Valid s2 false (rawOf s2 ro.log r1 r3) := by
      have hrl : ro.log = log := by rw [hroe]
      have t1 : (pre r1).length.toUInt8.toNat = (pre r1).length := by simp [Nat.toUInt8, UInt8.toNat_ofNat']; omega
      have t2 : (pre r3).length.toUInt8.toNat = (pre r3).length := by simp [Nat.toUInt8, UInt8.toNat_ofNat']; omega
      refine ⟨?_, ?_, ?_⟩
      · show ro.log.toUInt8 < 31
        apply UInt8.lt_iff_toNat_lt.mpr
        rw [hrl]; simp [Nat.toUInt8, UInt8.toNat_ofNat']; omega
      · refine ⟨by unfold rawOf padTo FULL_SIZE; simp; omega, by show (pre r1).length.toUInt8.toNat ≤ FULL_SIZE; rw [t1]; exact l1, ?_, ?_, by simp⟩
        · show ∀ x ∈ (padTo ((pre r1).map b64Index) FULL_SIZE 0).take (pre r1).length.toUInt8.toNat, x < 64
          rw [t1]; unfold padTo
          rw [List.take_left' (by simp)]
          exact hsym r1
        · show ∀ x ∈ (padTo ((pre r1).map b64Index) FULL_SIZE 0).drop (pre r1).length.toUInt8.toNat, x = 0
          rw [t1]; unfold padTo
          rw [List.drop_left' (by simp)]
          intro x hx; exact (List.mem_replicate.mp hx).2
      · refine ⟨by unfold rawOf padTo; simp; omega, by show (pre r3).length.toUInt8.toNat ≤ s2; rw [t2]; exact l2, ?_, ?_, by simp⟩
        · show ∀ x ∈ (padTo ((pre r3).map b64Index) s2 0).take (pre r3).length.toUInt8.toNat, x < 64
          rw [t2]; unfold padTo
          rw [List.take_left' (by simp)]
          exact hsym r3
        · show ∀ x ∈ (padTo ((pre r3).map b64Index) s2 0).drop (pre r3).length.toUInt8.toNat, x = 0
          rw [t2]; unfold padTo
          rw [List.drop_left' (by simp)]
          intro x hx; exact (List.mem_replicate.mp hx).2
    refine ⟨r1, r3, h0, hp1, hvalid, ?_⟩
    -- block hashes of the raw object
    have hbh1 : (rawOf s2 ro.log r1 r3).blockHash1 = (pre r1).map b64Index := by
      unfold FH.blockHash1 rawOf
      simp only
      have t1 : (pre r1).length.toUInt8.toNat = (pre r1).length := by simp [Nat.toUInt8, UInt8.toNat_ofNat']; omega
      rw [t1]; unfold padTo; exact List.take_left' (by simp)
    have hbh2 : (rawOf s2 ro.log r1 r3).blockHash2 = (pre r3).map b64Index := by
      unfold FH.blockHash2 rawOf
      simp only
      have t2 : (pre r3).length.toUInt8.toNat = (pre r3).length := by simp [Nat.toUInt8, UInt8.toNat_ofNat']; omega
      rw [t2]; unfold padTo; exact List.take_left' (by simp)
    have hno := normalize_obj s2 hle _ hvalid
    rw [hbh1, hbh2] at hno
    have cm : ∀ r, refBh true r = collapse ((pre r).map b64Index) := by
      intro r
      unfold refBh
      simp only [if_true]
      exact (collapse_map b64Index (pre r) (fun a ha b hb => b64Index_inj a b (pre_all r a ha) (pre_all r b hb))).symm
    unfold DH.parse
    rw [hb]
    simp only
    rw [hbuf, hR1]
    simp only
    rw [hp]
    simp only
    rw [hrep2, hR2]
    simp only
    congr 3
    · unfold dualOf
      congr 1
      · unfold rleOf; rw [hbh1]
      · unfold rleOf; rw [hbh2]
      · rw [hno]
        have e1 : ro.bh1 = collapse ((pre r1).map b64Index) := by rw [hroe]; exact cm r1
        have e2 : ro.bh2 = collapse ((pre r3).map b64Index) := by rw [hroe]; exact cm r3
        have hlog2 : p.log = (rawOf s2 ro.log r1 r3).log := by
          show p.log = ro.log.toUInt8
          apply UInt8.toNat_inj.mp
          rw [ha.log]; simp [Nat.toUInt8, UInt8.toNat_ofNat']
          have := ha.logLt; omega
        rw [ha.bh1, ha.bh2, ha.len1, ha.len2, e1, e2, hlog2]
    · exact ha.index

end Ffuzzy.C07
