/-
  C11 — no safe operation ever yields an invalid hash object.
  The operations are the typed `SOp` of `FfuzzyModel/Ops.lean` (the interpreter the `ops`
  correspondence family runs against the real crate); the invariant says that every object in the
  store is valid — dual objects even canonical — after every sequence of operations.
-/
import FfuzzyModel.Ops
import FfuzzyProofs.ValidBuild
import FfuzzyProofs.NoRun4
import FfuzzyProofs.PosArrayValid
import FfuzzyProofs.Properties.C07
import FfuzzyProofs.Properties.C02
import FfuzzyProofs.Properties.C15
import FfuzzyProofs.Properties.C17
namespace Ffuzzy.C11
open Ffuzzy Ffuzzy.Spec Ffuzzy.Collapse

/-- a valid object is its content, zero padded -/
theorem valid_eq_pad (s2 : Nat) (norm : Bool) (h : FH) (hs2 : s2 ≤ 64) (hv : FH.Valid s2 norm h) :
    h = { bh1 := padTo h.blockHash1 FULL_SIZE 0, bh2 := padTo h.blockHash2 s2 0,
          len1 := h.blockHash1.length.toUInt8, len2 := h.blockHash2.length.toUInt8, log := h.log } := by
  have pad : ∀ (cap : Nat) (bh : List UInt8) (len : UInt8), FH.BhValid cap norm bh len → cap ≤ 255 →
      bh = padTo (bh.take len.toNat) cap 0 ∧ len = (bh.take len.toNat).length.toUInt8 := by
    intro cap bh len hb hc
    have hl : (bh.take len.toNat).length = len.toNat := by
      rw [List.length_take, hb.arr]; exact Nat.min_eq_left hb.len_le
    refine ⟨?_, ?_⟩
    · unfold padTo
      rw [hl]
      conv => lhs; rw [← List.take_append_drop len.toNat bh]
      congr 1
      apply List.ext_getElem
      · simp [hb.arr]
      · intro i h1 h2
        simp only [List.getElem_replicate]
        exact hb.tail _ (List.getElem_mem h1)
    · apply UInt8.toNat_inj.mp
      rw [hl]; simp [Nat.toUInt8, UInt8.toNat_ofNat']
  obtain ⟨a1, a2⟩ := pad FULL_SIZE h.bh1 h.len1 hv.b1 (by decide)
  obtain ⟨b1, b2⟩ := pad s2 h.bh2 h.len2 hv.b2 (by omega)
  unfold FH.blockHash1 FH.blockHash2
  cases h with
  | mk bh1 bh2 len1 len2 log =>
    simp only at a1 a2 b1 b2 ⊢
    rw [← a1, ← a2, ← b1, ← b2]

theorem valid_norm_to_raw (s2 : Nat) (h : FH) (hv : FH.Valid s2 true h) : FH.Valid s2 false h :=
  (C15.toRawForm_spec s2 h hv).1

/-- normalising an already normalised valid object changes nothing -/
theorem normalize_valid_norm (s2 : Nat) (hs2 : s2 ≤ 64) (n : FH) (hv : FH.Valid s2 true n) : FH.normalize false n = n := by
  have hr := valid_norm_to_raw s2 n hv
  have hno := C07.normalize_obj s2 hs2 n hr
  have c1 : collapse n.blockHash1 = n.blockHash1 := hv.b1.norm rfl
  have c2 : collapse n.blockHash2 = n.blockHash2 := hv.b2.norm rfl
  rw [hno, c1, c2]
  exact (valid_eq_pad s2 true n hs2 hv).symm

theorem isLogValid_iff (log : UInt8) : BlockSize.isLogValid log = true ↔ log < 31 := by
  unfold BlockSize.isLogValid; simp

/-- the near-raw constructor: `None` (an `assert!` fails) or a valid object -/
theorem newNearRaw_valid (s2 : Nat) (norm : Bool) (hs2 : s2 ≤ 64) (log : UInt8) (b1 b2 : List UInt8) (h : FH)
    (hn : FH.newFromInternalsNearRaw s2 norm log b1 b2 = some h) : FH.Valid s2 norm h := by
  unfold FH.newFromInternalsNearRaw at hn
  split at hn
  · simp at hn
  · next hlog =>
    split at hn
    · simp at hn
    · next hl1 =>
      split at hn
      · simp at hn
      · next hl2 =>
        simp only at hn
        split at hn
        · simp at hn
        · next hv1 =>
          split at hn
          · simp at hn
          · next hv2 =>
            have hh := (Option.some.inj hn).symm
            simp only [Bool.not_eq_true', Bool.not_eq_false] at hlog hv1 hv2
            simp only [Bool.not_eq_true', decide_eq_false_iff_not, Nat.not_le, Nat.not_lt] at hl1 hl2
            have hl1' : b1.length ≤ FULL_SIZE := by simpa using hl1
            have hl2' : b2.length ≤ s2 := by simpa using hl2
            -- the arrays of the constructed object
            have e1 : (FH.newFromInternalsNearRawInternal s2 log b1 b2).bh1 = padTo b1 FULL_SIZE 0 := by
              unfold FH.newFromInternalsNearRawInternal FH.new padTo
              exact C15.setSlice_zero_replicate b1 FULL_SIZE hl1'
            have e2 : (FH.newFromInternalsNearRawInternal s2 log b1 b2).bh2 = padTo b2 s2 0 := by
              unfold FH.newFromInternalsNearRawInternal FH.new padTo
              exact C15.setSlice_zero_replicate b2 s2 hl2'
            have t1 := toU8_toNat b1.length (by unfold FULL_SIZE at hl1'; omega)
            have t2 := toU8_toNat b2.length (by omega)
            -- from the range-in / normalisation scan to `BhValid`
            have conv : ∀ (cap : Nat) (b : List UInt8), b.length ≤ cap → cap ≤ 255 →
                verifyBlockHashInput (padTo b cap 0) b.length.toUInt8 norm true false = true →
                FH.BhValid cap norm (padTo b cap 0) b.length.toUInt8 := by
              intro cap b hb hc hvf
              have t := toU8_toNat b.length (by omega)
              have harr : (padTo b cap 0).length = cap := by unfold padTo; simp; omega
              apply (FH.verifyBlockHashInput_iff cap norm _ _ harr (by rw [t]; exact hb)).mp
              unfold verifyBlockHashInput verifyBlockHash at hvf ⊢
              simp only [Bool.false_and, Bool.not_false, Bool.and_true] at hvf
              simp only [Bool.true_and, Bool.and_eq_true, Bool.not_eq_true']
              refine ⟨hvf, ?_⟩
              rw [t]; unfold padTo; rw [List.drop_left' rfl]
              simp
            rw [hh]
            refine ⟨(isLogValid_iff log).mp hlog, ?_, ?_⟩
            · have := conv FULL_SIZE b1 hl1' (by decide) (by
                have := hv1
                rw [e1] at this
                exact this)
              rw [e1]; exact this
            · have := conv s2 b2 hl2' (by omega) (by
                have := hv2
                rw [e2] at this
                exact this)
              rw [e2]; exact this

theorem newFromInternals_valid (s2 : Nat) (norm : Bool) (hs2 : s2 ≤ 64) (bsz : UInt32) (b1 b2 : List UInt8) (h : FH)
    (hn : FH.newFromInternals s2 norm bsz b1 b2 = some h) : FH.Valid s2 norm h := by
  unfold FH.newFromInternals at hn
  split at hn
  · simp at hn
  · exact newNearRaw_valid s2 norm hs2 _ b1 b2 h hn

/-- `init_from_internals_raw`: `None` or a valid object, whatever the destination held -/
theorem init_valid (s2 : Nat) (norm : Bool) (self : FH) (log : UInt8) (a1 a2 : List UInt8) (l1 l2 : UInt8) (h : FH)
    (ha1 : a1.length = FULL_SIZE) (ha2 : a2.length = s2)
    (hn : FH.initFromInternalsRaw s2 norm self log a1 a2 l1 l2 = some h) : FH.Valid s2 norm h := by
  unfold FH.initFromInternalsRaw at hn
  split at hn
  · simp at hn
  · next hlog =>
    split at hn
    · simp at hn
    · next hl1 =>
      split at hn
      · simp at hn
      · next hl2 =>
        split at hn
        · simp at hn
        · next hv1 =>
          split at hn
          · simp at hn
          · next hv2 =>
            have hh := (Option.some.inj hn).symm
            simp only [Bool.not_eq_true', Bool.not_eq_false] at hlog hv1 hv2
            simp only [Bool.not_eq_true', decide_eq_false_iff_not, Nat.not_le, Nat.not_lt] at hl1 hl2
            have hl1' : l1.toNat ≤ FULL_SIZE := by simpa using hl1
            have hl2' : l2.toNat ≤ s2 := by simpa using hl2
            rw [hh]
            exact ⟨(isLogValid_iff log).mp hlog, (FH.verifyBlockHashInput_iff FULL_SIZE norm a1 l1 ha1 hl1').mp hv1,
              (FH.verifyBlockHashInput_iff s2 norm a2 l2 ha2 hl2').mp hv2⟩

/-- a dual object is canonical: the dual hash of some valid raw hash -/
def Canon (s2 : Nat) (d : DH) : Prop := ∃ h, FH.Valid s2 false h ∧ d = C07.dualOf s2 h

/-- the object holding the given content -/
def objOf (s2 : Nat) (log : UInt8) (b1 b2 : List UInt8) : FH :=
  { bh1 := padTo b1 FULL_SIZE 0, bh2 := padTo b2 s2 0, len1 := b1.length.toUInt8, len2 := b2.length.toUInt8, log := log }

theorem content_obj (s2 : Nat) (log : UInt8) (b1 b2 : List UInt8) (hl : log < 31) (h1 : b1.length ≤ FULL_SIZE)
    (h2 : b2.length ≤ s2) (hs2 : s2 ≤ 64) (s1 : ∀ x ∈ b1, x < 64) (s2' : ∀ x ∈ b2, x < 64) :
    FH.Valid s2 false (objOf s2 log b1 b2) ∧ (objOf s2 log b1 b2).blockHash1 = b1 ∧ (objOf s2 log b1 b2).blockHash2 = b2 := by
  have t1 := toU8_toNat b1.length (by unfold FULL_SIZE at h1; omega)
  have t2 := toU8_toNat b2.length (by omega)
  refine ⟨⟨hl, bhValid_pad FULL_SIZE false b1 h1 (by decide) s1 (fun e => by simp at e),
    bhValid_pad s2 false b2 h2 (by omega) s2' (fun e => by simp at e)⟩, ?_, ?_⟩
  · unfold FH.blockHash1 objOf; simp only; rw [t1]; unfold padTo; exact List.take_left' rfl
  · unfold FH.blockHash2 objOf; simp only; rw [t2]; unfold padTo; exact List.take_left' rfl

/-- the dual near-raw constructor: `None` or the canonical dual hash of the given content -/
theorem newDualNearRaw_canon (s2 : Nat) (hs2 : s2 = 32 ∨ s2 = 64) (log : UInt8) (b1 b2 : List UInt8) (d : DH)
    (hn : DH.newFromInternalsNearRaw s2 log b1 b2 = some d) : Canon s2 d := by
  have hle : s2 ≤ 64 := by rcases hs2 with e | e <;> omega
  unfold DH.newFromInternalsNearRaw at hn
  split at hn
  · simp at hn
  · next hlog =>
    split at hn
    · simp at hn
    · next hl1 =>
      split at hn
      · simp at hn
      · next hl2 =>
        split at hn
        · simp at hn
        · next ha1 =>
          split at hn
          · simp at hn
          · next ha2 =>
            simp only [Bool.not_eq_true', Bool.not_eq_false] at hlog ha1 ha2
            simp only [Bool.not_eq_true', decide_eq_false_iff_not, Nat.not_le, Nat.not_lt] at hl1 hl2
            have hl1' : b1.length ≤ FULL_SIZE := by simpa using hl1
            have hl2' : b2.length ≤ s2 := by simpa using hl2
            have s1 : ∀ x ∈ b1, x < 64 := fun x hx => by simpa using List.all_eq_true.mp ha1 x hx
            have s2' : ∀ x ∈ b2, x < 64 := fun x hx => by simpa using List.all_eq_true.mp ha2 x hx
            obtain ⟨hv, e1, e2⟩ := content_obj s2 log b1 b2 ((isLogValid_iff log).mp hlog) hl1' hl2' hle s1 s2'
            refine ⟨_, hv, ?_⟩
            have hc2 : s2 ≤ 4 * DH.c2 s2 := by unfold DH.c2; rcases hs2 with e | e <;> subst e <;> decide
            have p1 := (C07.block_roundtrip FULL_SIZE DH.c1 (by decide) (by decide) _ _ hv.b1
              (DH.new s2).norm.bh1 (DH.new s2).rle1 (DH.new s2).norm.bh1 (by simp [DH.new, FH.new]) (by simp [DH.new])
              (by simp [DH.new, FH.new])).1
            have p2 := (C07.block_roundtrip s2 (DH.c2 s2) hle hc2 _ _ hv.b2
              (DH.new s2).norm.bh2 (DH.new s2).rle2 (DH.new s2).norm.bh2 (by simp [DH.new, FH.new]) (by simp [DH.new])
              (by simp [DH.new, FH.new])).1
            have e1' : List.take (objOf s2 log b1 b2).len1.toNat (objOf s2 log b1 b2).bh1 = b1 := e1
            have e2' : List.take (objOf s2 log b1 b2).len2.toNat (objOf s2 log b1 b2).bh2 = b2 := e2
            rw [e1'] at p1
            rw [e2'] at p2
            unfold DH.newFromInternalsNearRawInternal at hn
            simp only at hn
            rw [p1] at hn
            simp only at hn
            rw [p2] at hn
            simp only at hn
            rw [← Option.some.inj hn]
            unfold C07.dualOf
            rw [C07.normalize_obj s2 hle _ hv, e1, e2]
            rfl

theorem newDual_canon (s2 : Nat) (hs2 : s2 = 32 ∨ s2 = 64) (bsz : UInt32) (b1 b2 : List UInt8) (d : DH)
    (hn : DH.newFromInternals s2 bsz b1 b2 = some d) : Canon s2 d := by
  unfold DH.newFromInternals at hn
  split at hn
  · simp at hn
  · exact newDualNearRaw_canon s2 hs2 _ b1 b2 d hn

theorem new_canon (s2 : Nat) (hs2 : s2 = 32 ∨ s2 = 64) : Canon s2 (DH.new s2) := by
  have hle : s2 ≤ 64 := by rcases hs2 with e | e <;> omega
  obtain ⟨hv, e1, e2⟩ := content_obj s2 0 [] [] (by decide) (by simp) (by simp) hle (fun x hx => by simp at hx)
    (fun x hx => by simp at hx)
  have hobj : objOf s2 0 [] [] = FH.new s2 := by
    unfold objOf FH.new padTo; simp
  rw [hobj] at hv e1 e2
  refine ⟨FH.new s2, hv, ?_⟩
  have hn : FH.Valid s2 true (FH.new s2) := by
    refine ⟨hv.log, ⟨hv.b1.arr, hv.b1.len_le, hv.b1.sym, hv.b1.tail, fun _ => ?_⟩, ⟨hv.b2.arr, hv.b2.len_le, hv.b2.sym, hv.b2.tail, fun _ => ?_⟩⟩
    · change collapse (FH.new s2).blockHash1 = (FH.new s2).blockHash1; rw [e1]; rfl
    · change collapse (FH.new s2).blockHash2 = (FH.new s2).blockHash2; rw [e2]; rfl
  have := (C07.dual_normalize s2 hs2 (FH.new s2) hv).2
  rw [normalize_valid_norm s2 hle _ hn] at this
  rw [← this]
  rfl

/-- a comparison target initialised from a valid normalised hash is valid, whatever it held before -/
theorem target_valid (s2 : Nat) (hs2 : s2 ≤ 64) (t : Target) (n : FH) (hv : FH.Valid s2 true n) :
    (t.initFrom n).isValid = true ∧ (Target.fromHash n).isValid = true := by
  have hfrom : t.initFrom n = Target.fromHash n := C17.target_initFrom_history_indep t n
  have tarr := C17.target_arrays t n
  rw [hfrom] at tarr ⊢
  obtain ⟨l1, y1⟩ := C02.valid_bh1 hv
  obtain ⟨l2, y2⟩ := C02.valid_bh2 hs2 hv
  have pav : ∀ (a : List UInt8), a.length ≤ 64 → (∀ b ∈ a, b.toNat < 64) → collapse a = a →
      (PA.new.initFromPartial a).isValidAndNormalized = true := by
    intro a hl hs hc
    obtain ⟨q, hq, hiff⟩ := PosInit.isValidAndNormalized_iff PA.new a hl hs
    rw [C02.initFrom_new a hl hs] at hq
    rw [Option.some.inj hq]
    exact hiff.mpr (collapse_noRun4 a hc)
  have v1 := pav n.blockHash1 l1 y1 (hv.b1.norm rfl)
  have v2 := pav n.blockHash2 l2 y2 (hv.b2.norm rfl)
  have : (Target.fromHash n).isValid = true := by
    unfold Target.isValid
    rw [tarr.1, tarr.2, v1, v2]
    have : (Target.fromHash n).log = n.log := rfl
    rw [this, (isLogValid_iff n.log).mpr hv.log]
    rfl
  exact ⟨this, this⟩

theorem pa_valid (p q : PA) (bs : List UInt8) (h : p.initFrom bs = some q) : q.isValid = true := by
  have hcond : bs.length ≤ 64 ∧ ∀ b ∈ bs, b.toNat < 64 := by
    unfold PA.initFrom at h
    split at h
    · simp at h
    · next h1 =>
      split at h
      · simp at h
      · next h2 =>
        simp only [Bool.not_eq_true', decide_eq_false_iff_not, Nat.not_lt, Bool.not_eq_false] at h1 h2
        refine ⟨by simpa using h1, fun b hb => ?_⟩
        have := List.all_eq_true.mp h2 b hb
        exact UInt8.lt_iff_toNat_lt.mp (by simpa using this)
  obtain ⟨q', hq', hv, _⟩ := PosInit.initFrom_valid p bs hcond.1 hcond.2
  rw [h] at hq'
  rw [Option.some.inj hq']; exact hv

theorem pa_clear_valid (p : PA) : (p.clear).isValid = true := by
  unfold PA.clear; decide +kernel

theorem pa_new_valid : PA.new.isValid = true := by decide +kernel

theorem target_new_valid : Target.new.isValid = true := by decide +kernel

/-! ### the store invariant -/

structure SInv (st : Store) : Prop where
  r : FH.Valid 32 false st.r
  lr : FH.Valid 64 false st.lr
  n : FH.Valid 32 true st.n
  ln : FH.Valid 64 true st.ln
  d : Canon 32 st.d
  ld : Canon 64 st.ld
  t : st.t.isValid = true
  p : st.p.isValid = true

theorem new_valid (s2 : Nat) (norm : Bool) (hs2 : s2 = 32 ∨ s2 = 64) : FH.Valid s2 norm (FH.new s2) := by
  have hle : s2 ≤ 64 := by rcases hs2 with e | e <;> omega
  have := valid_of_content s2 norm 0 [] [] (by decide) (by simp) (by simp) hle (fun x hx => by simp at hx)
    (fun x hx => by simp at hx) (fun _ => rfl) (fun _ => rfl)
  have e : FH.new s2 = objOf s2 (0 : Nat).toUInt8 [] [] := by unfold objOf FH.new padTo; simp
  rw [e]; exact this

theorem sinv_init : SInv {} :=
  ⟨new_valid 32 false (Or.inl rfl), new_valid 64 false (Or.inr rfl), new_valid 32 true (Or.inl rfl),
   new_valid 64 true (Or.inr rfl), new_canon 32 (Or.inl rfl), new_canon 64 (Or.inr rfl), target_new_valid, pa_new_valid⟩

theorem slot_valid (st : Store) (hs : SInv st) (t : Slot) : FH.Valid t.s2 t.norm (st.get t) := by
  cases t
  · exact hs.r
  · exact hs.lr
  · exact hs.n
  · exact hs.ln

theorem slot_s2 (t : Slot) : t.s2 = 32 ∨ t.s2 = 64 := by cases t <;> simp [Slot.s2]

theorem set_inv (st : Store) (hs : SInv st) (t : Slot) (h : FH) (hv : FH.Valid t.s2 t.norm h) : SInv (st.set t h) := by
  cases t
  · exact { hs with r := hv }
  · exact { hs with lr := hv }
  · exact { hs with n := hv }
  · exact { hs with ln := hv }

theorem getD_canon (st : Store) (hs : SInv st) (long : Bool) : Canon (dualS2 long) (st.getD long) := by
  cases long
  · exact hs.d
  · exact hs.ld

theorem setD_inv (st : Store) (hs : SInv st) (long : Bool) (d : DH) (hc : Canon (dualS2 long) d) : SInv (st.setD long d) := by
  cases long
  · exact { hs with d := hc }
  · exact { hs with ld := hc }

theorem dualS2_cases (long : Bool) : dualS2 long = 32 ∨ dualS2 long = 64 := by cases long <;> simp [dualS2]

/-- array lengths of a canonical dual object -/
theorem canon_lengths (s2 : Nat) (hs2 : s2 = 32 ∨ s2 = 64) (d : DH) (hc : Canon s2 d) :
    d.norm.bh1.length = FULL_SIZE ∧ d.norm.bh2.length = s2 ∧ d.rle1.length = DH.c1 ∧ d.rle2.length = DH.c2 s2 ∧
    FH.Valid s2 true d.norm := by
  have hle : s2 ≤ 64 := by rcases hs2 with e | e <;> omega
  have hc2 : s2 ≤ 4 * DH.c2 s2 := by unfold DH.c2; rcases hs2 with e | e <;> subst e <;> decide
  obtain ⟨h, hv, rfl⟩ := hc
  obtain ⟨hvn, _, _, _⟩ := C06.normalize_eq_collapse s2 hle h hv
  have rl : ∀ (n c : Nat) (bh : List UInt8) (len : UInt8), FH.BhValid n false bh len → n ≤ 64 → n ≤ 4 * c →
      (C07.rleOf c (bh.take len.toNat)).length = c := by
    intro n c bh len hb hn hc
    have hx : ∀ s ∈ bh.take len.toNat, s ≠ b64Invalid := FH.sym_ne_invalid hb.sym
    have hbd := DualA.bnd_fold (bh.take len.toNat) {} [] DualA.bnd_init (fun _ => rfl) hx
    simp only [List.nil_append] at hbd
    have hxl : (bh.take len.toNat).length ≤ n := by
      rw [List.length_take, hb.arr]; have := hb.len_le; omega
    have := DualP.ents_count _ _ hbd n c hxl hc
    unfold C07.rleOf padTo
    have hA : (DualA.compressA (bh.take len.toNat)).2 =
        ((bh.take len.toNat).foldl DualA.step {}).ents ++ DualA.pending ((bh.take len.toNat).foldl DualA.step {}) := rfl
    rw [hA]
    simp only [List.length_append, List.length_map, List.length_replicate] at this ⊢
    omega
  exact ⟨hvn.b1.arr, hvn.b2.arr, rl FULL_SIZE DH.c1 h.bh1 h.len1 hv.b1 (by decide) (by decide),
    rl s2 (DH.c2 s2) h.bh2 h.len2 hv.b2 hle hc2, hvn⟩

theorem normalize_raw_valid (s2 : Nat) (hs2 : s2 ≤ 64) (h : FH) (hv : FH.Valid s2 false h) :
    FH.Valid s2 true (FH.normalize false h) ∧ FH.Valid s2 false (FH.normalize false h) := by
  have := (C06.normalize_eq_collapse s2 hs2 h hv).1
  exact ⟨this, valid_norm_to_raw s2 _ this⟩

theorem canon_of_raw (s2 : Nat) (h : FH) (hv : FH.Valid s2 false h) : Canon s2 (C07.dualOf s2 h) := ⟨h, hv, rfl⟩

/-- **every conversion edge preserves the invariant** -/
theorem cv_inv (st : Store) (hs : SInv st) (c : Cv) : SInv (applyCv st c).1 := by
  have l32 : (32 : Nat) ≤ 64 := by decide
  have l64 : (64 : Nat) ≤ 64 := by decide
  obtain ⟨d1, d2, d3, d4, dn⟩ := canon_lengths 32 (Or.inl rfl) st.d hs.d
  obtain ⟨e1, e2, e3, e4, en⟩ := canon_lengths 64 (Or.inr rfl) st.ld hs.ld
  cases c with
  | R_N => exact { hs with n := (normalize_raw_valid 32 l32 _ hs.r).1 }
  | LR_LN => exact { hs with ln := (normalize_raw_valid 64 l64 _ hs.lr).1 }
  | N_R => exact { hs with r := (C15.toRawForm_spec 32 _ hs.n).1 }
  | N_R_mut =>
    have : FH.intoMutRawForm st.n st.r = st.n := rfl
    exact { hs with r := by show FH.Valid 32 false (FH.intoMutRawForm st.n st.r); rw [this]; exact valid_norm_to_raw 32 _ hs.n }
  | LN_LR => exact { hs with lr := (C15.toRawForm_spec 64 _ hs.ln).1 }
  | LN_LR_mut =>
    have : FH.intoMutRawForm st.ln st.lr = st.ln := rfl
    exact { hs with lr := by show FH.Valid 64 false (FH.intoMutRawForm st.ln st.lr); rw [this]; exact valid_norm_to_raw 64 _ hs.ln }
  | R_LR => exact { hs with lr := (C15.toLongForm_spec false _ hs.r).1 }
  | R_LR_mut =>
    have := (C15.dest_independent st.r st.lr hs.lr.b2.arr hs.r.b2.arr).1
    exact { hs with lr := by show FH.Valid 64 false (FH.intoMutLongForm st.r st.lr); rw [this]; exact (C15.toLongForm_spec false _ hs.r).1 }
  | N_LN => exact { hs with ln := (C15.toLongForm_spec true _ hs.n).1 }
  | N_LN_mut =>
    have := (C15.dest_independent st.n st.ln hs.ln.b2.arr hs.n.b2.arr).1
    exact { hs with ln := by show FH.Valid 64 true (FH.intoMutLongForm st.n st.ln); rw [this]; exact (C15.toLongForm_spec true _ hs.n).1 }
  | N_LR =>
    have := (C15.dest_independent st.n st.lr hs.lr.b2.arr hs.n.b2.arr).2.2
    have hv : FH.Valid 64 false (FH.shortNormToLongRaw st.n) := by
      rw [this]; exact valid_norm_to_raw 64 _ (C15.toLongForm_spec true _ hs.n).1
    exact { hs with lr := hv }
  | LR_R =>
    unfold applyCv
    cases hc : FH.tryFromLong st.lr with
    | none => exact hs
    | some h =>
      have := ((C15.tryIntoMutShort_spec false st.lr (FH.new HALF_SIZE) hs.lr).2 h hc).1
      exact { hs with r := this }
  | LR_R_mut =>
    unfold applyCv
    cases hc : FH.tryIntoMutShort st.lr st.r with
    | none => exact hs
    | some h =>
      have := ((C15.tryIntoMutShort_spec false st.lr st.r hs.lr).2 h hc).1
      exact { hs with r := this }
  | LN_N =>
    unfold applyCv
    cases hc : FH.tryFromLong st.ln with
    | none => exact hs
    | some h =>
      have := ((C15.tryIntoMutShort_spec true st.ln (FH.new HALF_SIZE) hs.ln).2 h hc).1
      exact { hs with n := this }
  | LN_N_mut =>
    unfold applyCv
    cases hc : FH.tryIntoMutShort st.ln st.n with
    | none => exact hs
    | some h =>
      have := ((C15.tryIntoMutShort_spec true st.ln st.n hs.ln).2 h hc).1
      exact { hs with n := this }
  | R_D =>
    unfold applyCv
    rw [(C07.fromRawForm_eq 32 (Or.inl rfl) st.r hs.r).1]
    exact { hs with d := canon_of_raw 32 _ hs.r }
  | R_D_mut =>
    unfold applyCv
    rw [(C07.dual_roundtrip 32 (Or.inl rfl) st.r hs.r st.d d1 d2 d3 d4 st.r hs.r.b1.arr hs.r.b2.arr).1]
    exact { hs with d := canon_of_raw 32 _ hs.r }
  | LR_LD =>
    unfold applyCv
    rw [(C07.fromRawForm_eq 64 (Or.inr rfl) st.lr hs.lr).1]
    exact { hs with ld := canon_of_raw 64 _ hs.lr }
  | LR_LD_mut =>
    unfold applyCv
    rw [(C07.dual_roundtrip 64 (Or.inr rfl) st.lr hs.lr st.ld e1 e2 e3 e4 st.lr hs.lr.b1.arr hs.lr.b2.arr).1]
    exact { hs with ld := canon_of_raw 64 _ hs.lr }
  | N_D =>
    have hr := valid_norm_to_raw 32 _ hs.n
    have := (C07.dual_normalize 32 (Or.inl rfl) st.n hr).2
    rw [normalize_valid_norm 32 l32 _ hs.n] at this
    exact { hs with d := by show Canon 32 (DH.fromNormalized 32 st.n); rw [this]; exact canon_of_raw 32 _ hr }
  | LN_LD =>
    have hr := valid_norm_to_raw 64 _ hs.ln
    have := (C07.dual_normalize 64 (Or.inr rfl) st.ln hr).2
    rw [normalize_valid_norm 64 l64 _ hs.ln] at this
    exact { hs with ld := by show Canon 64 (DH.fromNormalized 64 st.ln); rw [this]; exact canon_of_raw 64 _ hr }
  | D_R =>
    obtain ⟨h, hv, hd⟩ := hs.d
    exact { hs with r := by show FH.Valid 32 false (DH.toRawForm 32 st.d); rw [hd, (C07.fromRawForm_eq 32 (Or.inl rfl) h hv).2]; exact hv }
  | D_R_mut =>
    obtain ⟨h, hv, hd⟩ := hs.d
    have := (C07.dual_roundtrip 32 (Or.inl rfl) h hv (DH.new 32) (by simp [DH.new, FH.new]) (by simp [DH.new, FH.new])
      (by simp [DH.new]) (by simp [DH.new]) st.r hs.r.b1.arr hs.r.b2.arr).2.2
    exact { hs with r := by show FH.Valid 32 false (DH.intoMutRawForm st.d st.r); rw [hd, this]; exact hv }
  | LD_LR =>
    obtain ⟨h, hv, hd⟩ := hs.ld
    exact { hs with lr := by show FH.Valid 64 false (DH.toRawForm 64 st.ld); rw [hd, (C07.fromRawForm_eq 64 (Or.inr rfl) h hv).2]; exact hv }
  | LD_LR_mut =>
    obtain ⟨h, hv, hd⟩ := hs.ld
    have := (C07.dual_roundtrip 64 (Or.inr rfl) h hv (DH.new 64) (by simp [DH.new, FH.new]) (by simp [DH.new, FH.new])
      (by simp [DH.new]) (by simp [DH.new]) st.lr hs.lr.b1.arr hs.lr.b2.arr).2.2
    exact { hs with lr := by show FH.Valid 64 false (DH.intoMutRawForm st.ld st.lr); rw [hd, this]; exact hv }
  | D_N => exact { hs with n := dn }
  | LD_LN => exact { hs with ln := en }

theorem tsrc_valid (st : Store) (hs : SInv st) (src : TSrc) : ∃ s2, s2 ≤ 64 ∧ FH.Valid s2 true (st.tsrc src) := by
  cases src
  · exact ⟨32, by decide, hs.n⟩
  · exact ⟨64, by decide, hs.ln⟩
  · exact ⟨32, by decide, (canon_lengths 32 (Or.inl rfl) st.d hs.d).2.2.2.2⟩
  · exact ⟨64, by decide, (canon_lengths 64 (Or.inr rfl) st.ld hs.ld).2.2.2.2⟩

/-- **C11 (one operation).** every safe operation keeps every object of the store valid (dual
    objects canonical); a refused or panicking call leaves the store as it was -/
theorem op_inv (cfg : Cfg) (st : Store) (hs : SInv st) (op : SOp) : SInv (applyOp cfg st op).1 := by
  cases op with
  | gen long bs =>
    unfold applyOp
    simp only []
    cases long with
    | true =>
      simp only [if_true]
      cases hf : (Gen.new.update bs).finalizeWithoutTruncation with
      | error e => exact hs
      | ok d => exact { hs with lr := gen_valid bs false 64 (Or.inr rfl) d hf }
    | false =>
      simp only [Bool.false_eq_true, if_false]
      cases hf : (Gen.new.update bs).finalize with
      | error e => exact hs
      | ok d => exact { hs with r := gen_valid bs true 32 (Or.inl rfl) d hf }
  | parseFH t bs =>
    unfold applyOp
    simp only []
    have hle : t.s2 ≤ 64 := by cases t <;> simp [Slot.s2]
    cases hp : FH.parse cfg t.s2 t.norm bs with
    | error e => exact hs
    | ok r =>
      obtain ⟨h, i⟩ := r
      rcases C04.parse_total cfg t.s2 t.norm bs hle with ⟨e, he⟩ | ⟨h', i', hh, hv⟩
      · rw [he] at hp; simp at hp
      · rw [hh] at hp
        have := (Prod.mk.inj (Except.ok.inj hp)).1
        exact set_inv st hs t h (this ▸ hv)
  | parseDH long bs =>
    unfold applyOp
    simp only []
    have hs2 := dualS2_cases long
    have hex := C07.dual_parse_exact cfg (dualS2 long) hs2 bs
    cases hr : refParse cfg (dualS2 long) true true bs with
    | error o =>
      obtain ⟨e, he, _⟩ := hex.1 o hr
      rw [he]; exact hs
    | ok ro =>
      obtain ⟨r1, r3, _, _, hv, hp⟩ := hex.2 ro hr
      rw [hp]
      exact setD_inv st hs long _ (canon_of_raw _ _ hv)
  | newFH t k b1 b2 =>
    unfold applyOp
    simp only []
    have hle : t.s2 ≤ 64 := by cases t <;> simp [Slot.s2]
    cases hn : FH.newFromInternalsNearRaw t.s2 t.norm k.toUInt8 b1 b2 with
    | none => exact hs
    | some h => exact set_inv st hs t h (newNearRaw_valid t.s2 t.norm hle _ b1 b2 h hn)
  | newDH long k b1 b2 =>
    unfold applyOp
    simp only []
    cases hn : DH.newFromInternalsNearRaw (dualS2 long) k.toUInt8 b1 b2 with
    | none => exact hs
    | some d => exact setD_inv st hs long d (newDualNearRaw_canon _ (dualS2_cases long) _ b1 b2 d hn)
  | newbsFH t bsz b1 b2 =>
    unfold applyOp
    simp only []
    have hle : t.s2 ≤ 64 := by cases t <;> simp [Slot.s2]
    cases hn : FH.newFromInternals t.s2 t.norm bsz.toUInt32 b1 b2 with
    | none => exact hs
    | some h => exact set_inv st hs t h (newFromInternals_valid t.s2 t.norm hle _ b1 b2 h hn)
  | newbsDH long bsz b1 b2 =>
    unfold applyOp
    simp only []
    cases hn : DH.newFromInternals (dualS2 long) bsz.toUInt32 b1 b2 with
    | none => exact hs
    | some d => exact setD_inv st hs long d (newDual_canon _ (dualS2_cases long) _ b1 b2 d hn)
  | init t k a1 a2 l1 l2 =>
    unfold applyOp
    simp only []
    by_cases hbad : (a1.length != 64 || a2.length != t.s2) = true
    · rw [if_pos hbad]; exact hs
    · rw [if_neg hbad]
      simp only [Bool.or_eq_true, bne_iff_ne, ne_eq, not_or, Decidable.not_not] at hbad
      cases hn : FH.initFromInternalsRaw t.s2 t.norm (st.get t) k.toUInt8 a1 a2 l1.toUInt8 l2.toUInt8 with
      | none => exact hs
      | some h => exact set_inv st hs t h (init_valid t.s2 t.norm _ _ a1 a2 _ _ h hbad.1 hbad.2 hn)
  | normFH t =>
    unfold applyOp
    simp only []
    apply set_inv st hs t
    have hv := slot_valid st hs t
    have hle : t.s2 ≤ 64 := by cases t <;> simp [Slot.s2]
    cases t with
    | R => exact (normalize_raw_valid 32 hle _ hv).2
    | LR => exact (normalize_raw_valid 64 hle _ hv).2
    | N => show FH.Valid 32 true (FH.normalizeInPlace true st.n); rw [C06.normalize_norm_id]; exact hv
    | LN => show FH.Valid 64 true (FH.normalizeInPlace true st.ln); rw [C06.normalize_norm_id]; exact hv
  | normDH long =>
    unfold applyOp
    simp only []
    apply setD_inv st hs long
    obtain ⟨h, hv, hd⟩ := getD_canon st hs long
    have hs2 := dualS2_cases long
    have hle : dualS2 long ≤ 64 := by rcases hs2 with e | e <;> omega
    rw [hd, (C07.dual_normalize _ hs2 h hv).1]
    exact canon_of_raw _ _ (normalize_raw_valid _ hle h hv).2
  | cv c => exact cv_inv st hs c
  | tgt src =>
    obtain ⟨s2, hle, hv⟩ := tsrc_valid st hs src
    exact { hs with t := (target_valid s2 hle st.t _ hv).1 }
  | tgtnew src =>
    obtain ⟨s2, hle, hv⟩ := tsrc_valid st hs src
    exact { hs with t := (target_valid s2 hle st.t _ hv).2 }
  | pa bs =>
    unfold applyOp
    simp only []
    cases hp : st.p.initFrom bs with
    | none => exact hs
    | some q => exact { hs with p := pa_valid st.p q bs hp }
  | pac => exact { hs with p := pa_clear_valid st.p }

/-- **C11.** after any finite sequence of safe operations, starting from freshly created objects,
    every object of the store passes its validity check -/
theorem ops_inv (cfg : Cfg) (ops : List SOp) : SInv (ops.foldl (fun st op => (applyOp cfg st op).1) {}) := by
  have : ∀ (ops : List SOp) (st : Store), SInv st → SInv (ops.foldl (fun st op => (applyOp cfg st op).1) st) := by
    intro ops
    induction ops with
    | nil => intro st h; exact h
    | cons op ops ih => intro st h; exact ih _ (op_inv cfg st h op)
  exact this ops {} sinv_init

/-- the invariant in terms of the implementation's own validity checks -/
theorem sinv_checks (st : Store) (hs : SInv st) :
    FH.isValid 32 false st.r = true ∧ FH.isValid 64 false st.lr = true ∧ FH.isValid 32 true st.n = true ∧
    FH.isValid 64 true st.ln = true ∧ DH.isValid 32 st.d = true ∧ DH.isValid 64 st.ld = true ∧
    st.t.isValid = true ∧ st.p.isValid = true := by
  obtain ⟨h1, hv1, hd1⟩ := hs.d
  obtain ⟨h2, hv2, hd2⟩ := hs.ld
  exact ⟨(FH.isValid_iff 32 false _ hs.r.b1.arr hs.r.b2.arr).mpr hs.r,
    (FH.isValid_iff 64 false _ hs.lr.b1.arr hs.lr.b2.arr).mpr hs.lr,
    (FH.isValid_iff 32 true _ hs.n.b1.arr hs.n.b2.arr).mpr hs.n,
    (FH.isValid_iff 64 true _ hs.ln.b1.arr hs.ln.b2.arr).mpr hs.ln,
    by rw [hd1]; exact C07.dual_valid 32 (Or.inl rfl) h1 hv1,
    by rw [hd2]; exact C07.dual_valid 64 (Or.inr rfl) h2 hv2, hs.t, hs.p⟩

end Ffuzzy.C11
