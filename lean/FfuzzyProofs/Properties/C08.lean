/-
  C08 — Block-hash edit distance is the exact insert/delete (LCS) distance.
  Property theorems only; lemmas live in `FfuzzyProofs/{Lcs,Hyyro,PosArrayInit}.lean`.
-/
import FfuzzyProofs.Hyyro
import FfuzzyProofs.PosArrayInit
namespace Ffuzzy.C08
open Ffuzzy

/-- model's `edit_distance_internal` is the abstract recurrence of `Hyyro` on `p.get` -/
theorem editDistanceInternal_eq (p : PA) (b : List UInt8) :
    p.editDistanceInternal b = Hyyro.editDistance p.get p.len.toNat b := rfl

/-- **C08 (full strength).** For every string `a` of at most 64 symbols (< 64) loaded into a position
    array by `init_from` — whatever the array held before — and every string `b`, the bit-parallel
    edit distance equals `|a| + |b| − 2·LCS(a, b)` with `LCS` the textbook recursion
    (characterised as the maximum common-subsequence length by `Spec.lcs_is_max_common_sublist`). -/
theorem editDistance_eq_lcs (p0 : PA) (a b : List UInt8)
    (ha : a.length ≤ 64) (hsym : ∀ x ∈ a, x.toNat < 64) :
    ∃ q, p0.initFrom a = some q ∧
      q.editDistanceInternal b = a.length + b.length - 2 * Spec.lcs a b := by
  obtain ⟨q, hq, _, hlen, hspec⟩ := PosInit.initFrom_spec p0 a ha hsym
  refine ⟨q, hq, ?_⟩
  rw [editDistanceInternal_eq, hlen]
  exact Hyyro.editDistance_eq_lcs a b q.get hspec ha

/-- the value is the specification's `editDistance` (and the DP oracle used at run time) -/
theorem editDistance_eq_spec (p0 : PA) (a b : List UInt8)
    (ha : a.length ≤ 64) (hsym : ∀ x ∈ a, x.toNat < 64) :
    ∃ q, p0.initFrom a = some q ∧ q.editDistanceInternal b = Spec.editDistance a b ∧
      q.editDistanceInternal b = Spec.editDistanceDP a b := by
  obtain ⟨q, hq, h⟩ := editDistance_eq_lcs p0 a b ha hsym
  exact ⟨q, hq, by simpa [Spec.editDistance] using h, by rw [Spec.editDistanceDP_eq]; simpa [Spec.editDistance] using h⟩

/-- **C08 (symmetry).** The distance is the same in both argument orders. -/
theorem editDistance_symm (p0 p1 : PA) (a b : List UInt8)
    (ha : a.length ≤ 64) (hb : b.length ≤ 64)
    (hsa : ∀ x ∈ a, x.toNat < 64) (hsb : ∀ x ∈ b, x.toNat < 64) :
    ∃ qa qb, p0.initFrom a = some qa ∧ p1.initFrom b = some qb ∧
      qa.editDistanceInternal b = qb.editDistanceInternal a := by
  obtain ⟨qa, h1, e1⟩ := editDistance_eq_lcs p0 a b ha hsa
  obtain ⟨qb, h2, e2⟩ := editDistance_eq_lcs p1 b a hb hsb
  refine ⟨qa, qb, h1, h2, ?_⟩
  rw [e1, e2, Spec.lcs_comm a b]; omega

/-- the distance never exceeds `|a| + |b|` and has the parity of `|a| + |b|` -/
theorem editDistance_bounds (a b : List UInt8) :
    Spec.editDistance a b ≤ a.length + b.length ∧
    Spec.editDistance a b + 2 * Spec.lcs a b = a.length + b.length := by
  have h1 := Spec.lcs_le_left a b
  have h2 := Spec.lcs_le_right a b
  unfold Spec.editDistance
  omega

/-- non-vacuity: a concrete pair meeting all hypotheses, with a non-trivial distance -/
example : ∃ q, PA.new.initFrom [1, 2, 3, 4, 5] = some q ∧ q.editDistanceInternal [1, 2, 4, 3, 5] = 2 := by
  obtain ⟨q, hq, h⟩ := editDistance_eq_lcs PA.new [1, 2, 3, 4, 5] [1, 2, 4, 3, 5] (by decide) (by decide)
  exact ⟨q, hq, by rw [h, ← Spec.lcsDP_eq_lcs]; decide⟩

end Ffuzzy.C08
