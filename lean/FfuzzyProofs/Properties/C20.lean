/-
  C20 — Block-size and score arithmetic is right on its entire domain.
-/
import FfuzzyModel.BlockSize
import FfuzzyModel.PosArray
import FfuzzyProofs.Tables
namespace Ffuzzy.C20
open Ffuzzy

/-! ### powers of two -/

theorem pow2_and_pred (k : Nat) : 2 ^ k &&& (2 ^ k - 1) = 0 := by
  rw [Nat.and_two_pow_sub_one_eq_mod]; simp

theorem and_pred_eq_zero : ∀ y : Nat, 0 < y → y &&& (y - 1) = 0 → ∃ k, y = 2 ^ k := by
  intro y
  induction y using Nat.strongRecOn with
  | _ y ih =>
    intro hy h
    have hdiv : (y &&& (y - 1)) / 2 = 0 := by rw [h]
    rw [Nat.and_div_two] at hdiv
    by_cases hodd : y % 2 = 1
    · have e : (y - 1) / 2 = y / 2 := by omega
      rw [e, Nat.and_self] at hdiv
      exact ⟨0, by omega⟩
    · have hz : 0 < y / 2 := by omega
      have e : (y - 1) / 2 = y / 2 - 1 := by omega
      rw [e] at hdiv
      obtain ⟨k, hk⟩ := ih (y / 2) (by omega) hz hdiv
      exact ⟨k + 1, by rw [Nat.pow_succ]; omega⟩

theorem isPow2_iff (x : UInt32) : BlockSize.isPow2 x = true ↔ ∃ k, k < 32 ∧ x.toNat = 2 ^ k := by
  unfold BlockSize.isPow2
  simp only [Bool.and_eq_true, bne_iff_ne, ne_eq, beq_iff_eq]
  have hx := x.toNat_lt
  constructor
  · rintro ⟨h0, h1⟩
    have h0' : x.toNat ≠ 0 := fun e => h0 (UInt32.toNat_inj.mp (by simpa using e))
    have hsub : (x - 1).toNat = x.toNat - 1 := by
      rw [UInt32.toNat_sub_of_le]
      · rfl
      · exact UInt32.le_iff_toNat_le.mpr (by show (1 : UInt32).toNat ≤ x.toNat; simp; omega)
    have h1' : x.toNat &&& (x.toNat - 1) = 0 := by
      have := congrArg UInt32.toNat h1
      rw [UInt32.toNat_and, hsub] at this
      simpa using this
    obtain ⟨k, hk⟩ := and_pred_eq_zero x.toNat (by omega) h1'
    refine ⟨k, ?_, hk⟩
    apply Classical.byContradiction
    intro hk32
    have : 2 ^ 32 ≤ 2 ^ k := Nat.pow_le_pow_right (by omega) (by omega)
    omega
  · rintro ⟨k, hk, e⟩
    have hpos : 0 < 2 ^ k := Nat.two_pow_pos k
    have h0 : ¬ x = 0 := by
      intro h; rw [h] at e; simp at e; omega
    refine ⟨h0, ?_⟩
    have hsub : (x - 1).toNat = x.toNat - 1 := by
      rw [UInt32.toNat_sub_of_le]
      · rfl
      · exact UInt32.le_iff_toNat_le.mpr (by show (1 : UInt32).toNat ≤ x.toNat; simp; omega)
    apply UInt32.toNat_inj.mp
    rw [UInt32.toNat_and, hsub, e, pow2_and_pred]
    rfl

/-- **C20.** Exactly the 31 values `3·2^n` (`n < 31`) are valid block sizes — for every `u32`. -/
theorem isValid_iff (x : UInt32) :
    BlockSize.isValid x = true ↔ ∃ n, n < 31 ∧ x.toNat = 3 * 2 ^ n := by
  unfold BlockSize.isValid BlockSize.MIN
  simp only [Bool.and_eq_true, beq_iff_eq, isPow2_iff]
  have hx := x.toNat_lt
  have hmod : (x % 3 = 0) ↔ x.toNat % 3 = 0 := by
    constructor
    · intro h; have := congrArg UInt32.toNat h; simpa [UInt32.toNat_mod] using this
    · intro h; apply UInt32.toNat_inj.mp; simpa [UInt32.toNat_mod] using h
  have hdiv : (x / 3).toNat = x.toNat / 3 := by simp [UInt32.toNat_div]
  rw [hmod, hdiv]
  constructor
  · rintro ⟨h3, k, _, hk⟩
    refine ⟨k, ?_, by omega⟩
    apply Classical.byContradiction
    intro hk31
    have : 2 ^ 31 ≤ 2 ^ k := Nat.pow_le_pow_right (by omega) (by omega)
    omega
  · rintro ⟨n, hn, e⟩
    refine ⟨by omega, n, by omega, by omega⟩

/-- the logarithmic form round-trips on all 31 sizes (via the tables observed from the crate) -/
theorem log_roundtrip : ∀ n : Fin 31,
    BlockSize.fromLog n.val.toUInt8 = some (3 * 2 ^ n.val).toUInt32 ∧
    BlockSize.logFromValid (3 * 2 ^ n.val).toUInt32 = some n.val.toUInt8 := by decide +kernel

/-- the de Bruijn lookup inverts `3·2^n` for every valid size, and every valid `u32` has that form -/
theorem logFromValid_spec (x : UInt32) (h : BlockSize.isValid x = true) :
    ∃ n : Fin 31, x.toNat = 3 * 2 ^ n.val ∧ BlockSize.logFromValid x = some n.val.toUInt8 := by
  obtain ⟨n, hn, e⟩ := (isValid_iff x).mp h
  refine ⟨⟨n, hn⟩, e, ?_⟩
  have hx : x = (3 * 2 ^ n).toUInt32 := by
    apply UInt32.toNat_inj.mp
    have : 3 * 2 ^ n < 2 ^ 32 := by have := x.toNat_lt; omega
    simp [Nat.toUInt32, UInt32.toNat_ofNat', Nat.mod_eq_of_lt this, e]
  rw [hx]
  exact (log_roundtrip ⟨n, hn⟩).2

/-- canonical decimal strings: the strings observed from the crate parse back to `3·2^n` -/
theorem str_roundtrip : ∀ n : Fin 31,
    (BlockSize.str n.val.toUInt8).foldl (fun acc d => acc * 10 + (d - 48).toNat) 0 = 3 * 2 ^ n.val ∧
    (BlockSize.str n.val.toUInt8).length ≤ 10 ∧ (BlockSize.str n.val.toUInt8).head? ≠ some 48 ∧
    (BlockSize.str n.val.toUInt8).all (fun c => 48 ≤ c && c ≤ 57) = true := by decide +kernel

/-- near / near-lt / near-gt / far agree with the definition on all 31×31 pairs
    (incl. the `wrapping_sub` trick of `is_near`) -/
theorem relations_def : ∀ l r : Fin 31,
    let a := l.val.toUInt8; let b := r.val.toUInt8
    BlockSize.isNear a b = decide (l.val = r.val ∨ l.val + 1 = r.val ∨ l.val = r.val + 1) ∧
    BlockSize.isNearEq a b = decide (l.val = r.val) ∧
    BlockSize.isNearLt a b = decide (l.val + 1 = r.val) ∧
    BlockSize.isNearGt a b = decide (l.val = r.val + 1) ∧
    BlockSize.compareSizes a b =
      (if l.val = r.val then Rel.nearEq else if l.val + 1 = r.val then Rel.nearLt
       else if l.val = r.val + 1 then Rel.nearGt else Rel.far) ∧
    BlockSize.cmp a b = compare l.val r.val := by decide +kernel

/-- **C20.** the raw score equals the ssdeep formula and lies in `1..=100` on its whole domain;
    the checked entry point panics (`none`) exactly outside the domain -/
theorem rawScore_range_formula (l1 l2 d : Nat) :
    (7 ≤ l1 ∧ l1 ≤ 64 ∧ 7 ≤ l2 ∧ l2 ≤ 64 ∧ d ≤ l1 + l2 - 14 →
      ∃ s, PA.rawScoreByEditDistance l1 l2 d = some s ∧
        s = 100 - (100 * ((64 * d) / (l1 + l2))) / 64 ∧ 1 ≤ s ∧ s ≤ 100) ∧
    (¬ (7 ≤ l1 ∧ l1 ≤ 64 ∧ 7 ≤ l2 ∧ l2 ≤ 64 ∧ d ≤ l1 + l2 - 14) →
      PA.rawScoreByEditDistance l1 l2 d = none) := by
  constructor
  · rintro ⟨h1, h2, h3, h4, h5⟩
    have hc1 : (decide (l1 < 7) || decide (l2 < 7) || decide (l1 > 64) || decide (l2 > 64)) = false := by
      simp; omega
    have hc2 : ¬ (d > l1 + l2 - 14) := by omega
    refine ⟨PA.rawScoreByEditDistanceInternal l1 l2 d, by simp [PA.rawScoreByEditDistance, hc1, hc2], ?_, ?_, ?_⟩
    · simp [PA.rawScoreByEditDistanceInternal, FULL_SIZE, Nat.mul_comm]
    · have hlt : d * FULL_SIZE / (l1 + l2) < 64 := by
        apply (Nat.div_lt_iff_lt_mul (by omega)).mpr
        simp only [FULL_SIZE]
        have : d < l1 + l2 := by omega
        calc d * 64 < (l1 + l2) * 64 := Nat.mul_lt_mul_of_pos_right this (by omega)
          _ = 64 * (l1 + l2) := Nat.mul_comm _ _
      simp only [PA.rawScoreByEditDistanceInternal, FULL_SIZE] at *
      omega
    · simp only [PA.rawScoreByEditDistanceInternal]; exact Nat.sub_le _ _
  · intro h
    unfold PA.rawScoreByEditDistance
    by_cases hc1 : (decide (l1 < 7) || decide (l2 < 7) || decide (l1 > 64) || decide (l2 > 64)) = true
    · simp [hc1]
    · have hc1' : (decide (l1 < 7) || decide (l2 < 7) || decide (l1 > 64) || decide (l2 > 64)) = false := by
        simpa using hc1
      have : d > l1 + l2 - 14 := by
        simp at hc1'; omega
      simp [hc1', this]

/-- **C20.** the score cap is `2^n·min(l1,l2)` below the border (4) and 100 from the border upward,
    where the uncapped product is itself at least 100 for comparable block hashes -/
theorem cap_formula (n l1 l2 : Nat) :
    (n < 4 → PA.scoreCap n l1 l2 = 2 ^ n * min l1 l2) ∧
    (4 ≤ n → PA.scoreCap n l1 l2 = 100) ∧
    (4 ≤ n → 7 ≤ l1 → 7 ≤ l2 → 100 ≤ 2 ^ n * min l1 l2) := by
  refine ⟨?_, ?_, ?_⟩
  · intro h
    have : ¬ (n ≥ PA.CAPPING_BORDER) := by simp [PA.CAPPING_BORDER]; omega
    simp [PA.scoreCap, this, PA.scoreCapInternal, Nat.shiftLeft_eq]
  · intro h
    have : n ≥ PA.CAPPING_BORDER := by simp [PA.CAPPING_BORDER]; omega
    simp [PA.scoreCap, this]
  · intro h h1 h2
    have : 2 ^ 4 ≤ 2 ^ n := Nat.pow_le_pow_right (by omega) h
    have hm : 7 ≤ min l1 l2 := by omega
    calc 100 ≤ 16 * 7 := by omega
      _ ≤ 2 ^ n * min l1 l2 := Nat.mul_le_mul (by simpa using this) hm

/-- non-vacuity: the domain of `rawScore_range_formula` is inhabited with a non-trivial value -/
example : PA.rawScoreByEditDistance 20 30 10 = some 82 := by decide

end Ffuzzy.C20
