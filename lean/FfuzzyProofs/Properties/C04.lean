/-
  C04 — parsing is total and accepts exactly the fuzzy-hash grammar.
  Reference: `Spec.refParse` (FfuzzyModel/Spec/Grammar.lean), a direct transcription of the statement:
  digits / ':' / base64 characters / ':' / base64 characters / optional ',' …, the block size one of the
  31 valid sizes in canonical decimal, each block hash within the capacity (after run-collapsing for
  normalising types under the default parser, on the raw text for raw and dual types and under the
  strict parser).
-/
import FfuzzyProofs.ParseMain
namespace Ffuzzy.C04
open Ffuzzy Ffuzzy.Spec Ffuzzy.ParseMain

/-- **C04 (plain types, both parser flavours).** `from_bytes_with_last_index` on every byte string:
    it succeeds exactly when the reference grammar accepts, the object then holds exactly the decoded
    block size and (for normalising types, run-collapsed) characters, passes the validity check, and the
    reported index is the comma or the end of the text; otherwise it fails naming the offending part
    (the caller's index is only written on success: the model returns no index on failure) -/
theorem parse_exact (cfg : Cfg) (s2 : Nat) (norm : Bool) (t : List UInt8) (hs2 : s2 ≤ 64) :
    (∀ ro, refParse cfg s2 norm false t = .ok ro →
      ∃ h, FH.parse cfg s2 norm t = .ok (h, ro.index) ∧ h.log.toNat = ro.log ∧
        h.blockHash1 = ro.bh1 ∧ h.blockHash2 = ro.bh2 ∧ FH.Valid s2 norm h) ∧
    (∀ o, refParse cfg s2 norm false t = .error o → ∃ e, FH.parse cfg s2 norm t = .error e ∧ e.origin = o) := by
  have hspec := parseThreeFields_spec cfg s2 norm false false t ⟨fun h => by simp at h, fun _ => rfl⟩ (by omega)
  refine ⟨fun ro hro => ?_, fun o ho => ?_⟩
  · obtain ⟨p, hp, ha⟩ := hspec.1 ro hro
    unfold FH.parse
    rw [hp]
    simp only
    rw [ha.index]
    refine ⟨_, rfl, ha.log, ?_, ?_, ?_⟩
    · unfold FH.blockHash1
      simp only
      have : p.len1.toUInt8.toNat = ro.bh1.length := by
        rw [ha.len1]; simp [Nat.toUInt8, UInt8.toNat_ofNat']
        have := ha.fit1; unfold FULL_SIZE at this; omega
      rw [this, ha.bh1]; unfold padTo; exact List.take_left' rfl
    · unfold FH.blockHash2
      simp only
      have : p.len2.toUInt8.toNat = ro.bh2.length := by
        rw [ha.len2]; simp [Nat.toUInt8, UInt8.toNat_ofNat']
        have := ha.fit2; omega
      rw [this, ha.bh2]; unfold padTo; exact List.take_left' rfl
    · refine ⟨?_, ha.v1, ha.v2⟩
      show p.log < 31
      have h1 := ha.log
      have h2 := ha.logLt
      exact UInt8.lt_iff_toNat_lt.mpr (by rw [h1]; exact h2)
  · obtain ⟨e, he, hor⟩ := hspec.2 o ho
    unfold FH.parse
    rw [he]
    exact ⟨e, rfl, hor⟩

/-- parsing never panics and every result is an error or a valid object -/
theorem parse_total (cfg : Cfg) (s2 : Nat) (norm : Bool) (t : List UInt8) (hs2 : s2 ≤ 64) :
    (∃ e, FH.parse cfg s2 norm t = .error e) ∨ (∃ h i, FH.parse cfg s2 norm t = .ok (h, i) ∧ FH.Valid s2 norm h) := by
  have := parse_exact cfg s2 norm t hs2
  cases hr : refParse cfg s2 norm false t with
  | error o => obtain ⟨e, he, _⟩ := this.2 o hr; exact Or.inl ⟨e, he⟩
  | ok ro => obtain ⟨h, hh, _, _, _, hv⟩ := this.1 ro hr; exact Or.inr ⟨h, _, hh, hv⟩

/-- the strict parser differs from the default one only by rejecting texts whose raw block hash
    exceeds the capacity (C14): on raw types both flavours accept the same texts, and whenever the
    strict parser accepts, both return the same object -/
theorem fits_strict_imp (cfgS cfgD : Cfg) (hS : cfgS.strictParser = true) (hD : cfgD.strictParser = false)
    (norm dual : Bool) (cap : Nat) (x : List UInt8) (h : fits cfgS norm dual cap x = true) :
    fits cfgD norm dual cap x = true := by
  unfold fits at *
  simp only [hS, hD, Bool.not_true, Bool.and_false, Bool.false_eq_true, if_false, Bool.not_false, Bool.and_true,
    decide_eq_true_eq] at *
  split
  · have := Collapse.collapse_length_le x
    simp only [decide_eq_true_eq]; omega
  · simpa using h

/-- the driver for the dual type (`$norm = true`, `$limit_raw = true`) agrees with the reference
    grammar for dual hashes (capacity counted on the raw text) -/
theorem parse_dual_exact (cfg : Cfg) (s2 : Nat) (t : List UInt8) (hs2 : s2 ≤ 64) :
    (∀ ro, refParse cfg s2 true true t = .ok ro →
      ∃ p, parseThreeFields cfg s2 true true t = .ok p ∧ Agrees s2 true p ro) ∧
    (∀ o, refParse cfg s2 true true t = .error o →
      ∃ e, parseThreeFields cfg s2 true true t = .error e ∧ e.origin = o) :=
  parseThreeFields_spec cfg s2 true true true t ⟨fun _ => ⟨rfl, rfl⟩, fun h => by simp at h⟩ (by omega)

/-- non-vacuity: a text the grammar accepts (run of five collapsed to three, trailing comma part) -/
example : (refParse { debugAssertions := true, strictParser := false } 32 true false
    [51, 58, 65, 65, 65, 65, 65, 66, 58, 67, 44, 120]).toOption.map (fun r => (r.log, r.bh1, r.bh2, r.index)) =
    some (0, [0, 0, 0, 1], [2], 10) := by decide

end Ffuzzy.C04
