/-
  C01 — the generator's output is the digest the ssdeep CTPH algorithm defines.

  Reference: `Spec.Naive` (FfuzzyModel/Spec/Naive.lean) — the spamsum / libfuzzy engine without
  ffuzzy's optimisations: 32 independent block-size levels, every level consumes every byte, a piece
  ends at level `k` where the rolling value plus one is a non-zero multiple of `3·2^k`, a piece
  contributes the low six bits of its FNV-1 hash, at most 64 (32 for truncated block hash 2) are kept,
  the block size index is chosen from the input size and halved while fewer than 32 pieces exist.
  ffuzzy's engine (fork on first use, elimination of block sizes that can no longer be selected,
  fork limit from a declared size, dedicated last-piece hash standing in for level 31) is proved to
  return exactly that digest for every input, in all of its output forms.
-/
import FfuzzyProofs.GenSim.History
namespace Ffuzzy.C01
open Ffuzzy Ffuzzy.Spec Ffuzzy.GenSim

/-- **C01 (master form).** every way of finalising the generator after feeding `bs` returns the
    reference digest: `(truncate, S2)` ∈ {(true,32) `finalize`, (false,64) `finalize_without_truncation`,
    (false,32) short non-truncated, (true,64)} -/
theorem generator_eq_reference (bs : List UInt8) (trunc : Bool) (s2 : Nat) (hs2 : s2 = 32 ∨ s2 = 64) :
    (Gen.new.update bs).finalizeRaw trunc s2 = naiveDigest bs trunc s2 := by
  have hJ := J_update Gen.new _ bs J_new
  have := J_final _ _ hJ trunc s2 hs2
  rw [this]
  unfold Abs.digest
  simp

theorem finalize_eq_reference (bs : List UInt8) : (Gen.new.update bs).finalize = naiveDigest bs true 32 :=
  generator_eq_reference bs true 32 (Or.inl rfl)

theorem finalizeWithoutTruncation_eq_reference (bs : List UInt8) :
    (Gen.new.update bs).finalizeWithoutTruncation = naiveDigest bs false 64 :=
  generator_eq_reference bs false 64 (Or.inr rfl)

/-- block hash 2 of the short non-truncated form: the long form's when it fits in 32 characters,
    the output-overflow error otherwise -/
theorem digest2_short (c : Ctx) (wf : WF c) (nz : Bool) :
    c.digest2 nz false 32 =
      match c.digest2 nz false 64 with
      | .error e => .error e
      | .ok d => if d.length ≤ 32 then .ok d else .error .outputOverflow := by
  have hs := wf.size
  have hi := wf.idx
  unfold Ctx.digest2
  simp only [Bool.false_eq_true, if_false]
  have hlen : ∀ m, m ≤ 64 → (c.bh.toList.take m).length = m := by
    intro m hm; simp [hs]; omega
  by_cases h63 : (c.bh.getD 63 NIL != NIL) = true
  · have e63 := wf.cell63 (by simpa using h63)
    simp only [h63, if_true, e63]
    cases nz <;> simp [hs]
  · simp only [h63, if_false]
    cases nz
    · by_cases hgt : c.idx > 32
      · simp [hs, hgt]; omega
      · simp [hs, hgt]; omega
    · by_cases hgt : c.idx > 32
      · have : c.idx ≠ 64 := by omega
        simp [hs, hgt, this]; omega
      · by_cases hge : c.idx ≥ 32
        · have : c.idx ≠ 64 := by omega
          simp [hs, hgt, hge, this]; omega
        · have : c.idx ≠ 64 := by omega
          simp [hs, hgt, hge, this]; omega

/-- **C01 (short non-truncated variant).** the same hash when block hash 2 fits, output overflow otherwise -/
theorem short_variant (bs : List UInt8) :
    (Gen.new.update bs).finalizeRaw false 32 =
      match (Gen.new.update bs).finalizeWithoutTruncation with
      | .error e => .error e
      | .ok d => if d.bh2.length ≤ 32 then .ok d else .error .outputOverflow := by
  rw [generator_eq_reference bs false 32 (Or.inl rfl), finalizeWithoutTruncation_eq_reference]
  unfold naiveDigest Naive.digest
  split
  · rfl
  · have hN := ninv_feed bs
    have hk := naiveGuess_le (Naive.feed bs) (min 30 (Gen.logBlockSizeFromInputSize (Naive.feed bs).size 0))
    simp only
    rw [digest2_short _ (hN.wf _ (by omega))]
    cases ((Naive.feed bs).at (naiveGuess (Naive.feed bs) (min 30 (Gen.logBlockSizeFromInputSize (Naive.feed bs).size 0)) + 1)).digest2
        ((Naive.feed bs).roll.value != 0) false 64 with
    | error e => rfl
    | ok d =>
      simp only
      by_cases hd : d.length ≤ 32
      · simp [hd]
      · simp [hd]

/-- **C01 (one-shot function).** `hash_buf` (which declares the size first) returns the reference digest -/
theorem hashBuf_eq_reference (bs : List UInt8) (hlen : bs.length ≤ Gen.MAX_INPUT_SIZE) :
    Gen.hashBuf bs = naiveDigest bs true 32 := by
  have h1 := J_hint Gen.new _ bs.length J_new
  have h2 := J_update _ _ bs h1
  have hf := J_final _ _ h2 true 32 (Or.inl rfl)
  unfold Gen.hashBuf
  have hset : Gen.new.setFixedInputSize bs.length = .ok (GOp.apply Gen.new (.hint bs.length)) := by
    unfold GOp.apply Gen.setFixedInputSize
    have : ¬ bs.length > Gen.MAX_INPUT_SIZE := by omega
    simp [this, Gen.new]
  rw [hset]
  simp only
  unfold Gen.finalize
  rw [hf]
  unfold Abs.digest Abs.apply
  have : ¬ bs.length > Gen.MAX_INPUT_SIZE := by omega
  have hu : bs.length ≤ U64_MAX := by unfold Gen.MAX_INPUT_SIZE at hlen; unfold U64_MAX; omega
  simp [this, Nat.min_eq_left hu]

/-- non-vacuity: a concrete input and its digest -/
example : Gen.hashBuf [104, 101, 108, 108, 111] = naiveDigest [104, 101, 108, 108, 111] true 32 :=
  hashBuf_eq_reference _ (by decide)

end Ffuzzy.C01
