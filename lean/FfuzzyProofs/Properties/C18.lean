/-
  C18 — Stream and file hashing fail closed under I/O faults (over read scripts).
-/
import FfuzzyModel.Stream
import FfuzzyProofs.GenBasic
namespace Ffuzzy.C18
open Ffuzzy

/-- the chunks a fault-free scripted reader delivers before its first empty read -/
def chunks (data : List UInt8) (sizes : List Nat) : Nat → List (List UInt8)
  | 0 => []
  | fuel + 1 =>
    let chunk := data.take (wantOf sizes)
    if chunk.isEmpty then [] else chunk :: chunks (data.drop chunk.length) (sizes.drop 1) fuel

/-- **C18 (read loop).** the loop either returns the scripted I/O error — exactly when the failing
    `read` call is reached, i.e. its index is at most the number of chunks delivered before the first
    empty read — or the generator updated with exactly the delivered chunks, in order -/
theorem hashStreamLoop_spec (fuel : Nat) : ∀ (g : Gen) (data : List UInt8) (sizes : List Nat)
    (failAt : Option (Nat × Nat)) (callNo : Nat),
    hashStreamLoop g data sizes failAt callNo fuel =
      match failAt with
      | some (i, k) =>
        if callNo ≤ i ∧ i - callNo < fuel ∧ i - callNo ≤ (chunks data sizes fuel).length then .error (.io k)
        else .ok ((chunks data sizes fuel).foldl Gen.update g)
      | none => .ok ((chunks data sizes fuel).foldl Gen.update g) := by
  induction fuel with
  | zero =>
    intro g data sizes failAt callNo
    cases failAt with
    | none => simp [hashStreamLoop, chunks]
    | some p => obtain ⟨i, k⟩ := p; simp [hashStreamLoop, chunks]
  | succ fuel ih =>
    intro g data sizes failAt callNo
    cases failAt with
    | none =>
      simp only [hashStreamLoop, chunks, Option.isSome_none, Bool.false_and, Bool.false_eq_true, if_false]
      by_cases he : (data.take (wantOf sizes)).isEmpty = true
      · simp [he]
      · simp only [he, Bool.false_eq_true, if_false]
        rw [ih]; simp [List.foldl_cons]
    | some p =>
      obtain ⟨i, k⟩ := p
      simp only [hashStreamLoop, chunks, Option.isSome_some, Bool.true_and, Option.map_some, beq_iff_eq,
        Option.some.injEq, Option.getD_some]
      by_cases hc : i = callNo
      · subst hc
        simp
      · simp only [hc, if_false]
        by_cases he : (data.take (wantOf sizes)).isEmpty = true
        · simp only [he, if_true, List.length_nil, List.foldl_nil]
          have : ¬ (callNo ≤ i ∧ i - callNo < fuel + 1 ∧ i - callNo ≤ 0) := by omega
          rw [if_neg this]
        · simp only [he, Bool.false_eq_true, if_false]
          rw [ih]
          simp only [List.length_cons, List.foldl_cons]
          have : (callNo + 1 ≤ i ∧ i - (callNo + 1) < fuel ∧
                    i - (callNo + 1) ≤ (chunks (data.drop (data.take (wantOf sizes)).length) (sizes.drop 1) fuel).length) ↔
                 (callNo ≤ i ∧ i - callNo < fuel + 1 ∧
                    i - callNo ≤ (chunks (data.drop (data.take (wantOf sizes)).length) (sizes.drop 1) fuel).length + 1) := by
            omega
          simp only [this]

theorem chunks_length_le (fuel : Nat) : ∀ (d : List UInt8) (s : List Nat), (chunks d s fuel).length ≤ d.length := by
  induction fuel with
  | zero => intro d s; simp [chunks]
  | succ f ihf =>
    intro d s
    simp only [chunks]
    by_cases he : (d.take (wantOf s)).isEmpty = true
    · simp [he]
    · simp only [he, Bool.false_eq_true, if_false, List.length_cons]
      have := ihf (d.drop (d.take (wantOf s)).length) (s.drop 1)
      have hpos : 0 < (d.take (wantOf s)).length := by
        cases hd : d.take (wantOf s) with
        | nil => simp [hd] at he
        | cons _ _ => simp
      have hle : (d.take (wantOf s)).length ≤ d.length := by simp; omega
      simp only [List.length_drop] at this
      omega

/-- **C18.** `hash_stream` under any script: an error at a reached read index is returned as that
    I/O error and **no hash is produced**; otherwise the result is the finalisation of the generator
    fed with the delivered chunks (any pattern of short reads) -/
theorem hashStream_script (data : List UInt8) (sizes : List Nat) (failAt : Option (Nat × Nat)) :
    let cs := chunks data sizes (data.length + sizes.length + 2)
    hashStream data sizes failAt =
      match failAt with
      | some (i, k) =>
        if i ≤ cs.length then .error (.io k)
        else (match (cs.foldl Gen.update Gen.new).finalize with | .error e => .error (.gen e) | .ok d => .ok d)
      | none => (match (cs.foldl Gen.update Gen.new).finalize with | .error e => .error (.gen e) | .ok d => .ok d) := by
  intro cs
  unfold hashStream hashStreamCommon
  rw [hashStreamLoop_spec]
  have hlen : cs.length ≤ data.length := chunks_length_le _ data sizes
  cases failAt with
  | none => rfl
  | some p =>
    obtain ⟨i, k⟩ := p
    simp only [Nat.zero_le, Nat.sub_zero, true_and]
    by_cases hi : i ≤ cs.length
    · have : i < data.length + sizes.length + 2 ∧ i ≤ cs.length := ⟨by omega, hi⟩
      rw [if_pos this, if_pos hi]
    · have : ¬ (i < data.length + sizes.length + 2 ∧ i ≤ cs.length) := fun h => hi h.2
      rw [if_neg this, if_neg hi]
      rfl

/-- size accounting of chunked updates -/
theorem foldl_update_size (l : List (List UInt8)) : ∀ g : Gen, g.inputSize ≤ U64_MAX →
    (l.foldl Gen.update g).inputSize = Gen.satAdd g.inputSize l.flatten.length ∧
    (l.foldl Gen.update g).fixedSize = g.fixedSize := by
  induction l with
  | nil => intro g hg; simp [Gen.satAdd]; omega
  | cons c cs ih =>
    intro g hg
    have u := Gen.update_inputSize g c
    have := ih (g.update c) (by rw [u.1]; exact Gen.satAdd_le _ _)
    simp only [List.foldl_cons, List.flatten_cons, List.length_append]
    rw [this.1, this.2, u.1, u.2.1, Gen.satAdd_assoc]
    exact ⟨rfl, rfl⟩

/-- an `Ok` result of the common loop always went through `finalize` of the chunk-fed generator -/
theorem hashStreamCommon_ok (g : Gen) (data : List UInt8) (sizes : List Nat) (failAt : Option (Nat × Nat))
    (d : Digest) (h : hashStreamCommon g data sizes failAt = .ok d) :
    ((chunks data sizes (data.length + sizes.length + 2)).foldl Gen.update g).finalize = .ok d := by
  unfold hashStreamCommon at h
  rw [hashStreamLoop_spec] at h
  cases failAt with
  | none =>
    simp only at h
    split at h
    · simp at h
    · rename_i d' hf; simp at h; rw [← h]; exact hf
  | some p =>
    obtain ⟨i, k⟩ := p
    simp only at h
    split at h
    · simp at h
    · rename_i g' hg
      split at hg
      · simp at hg
      · have hg' := Except.ok.inj hg
        subst hg'
        split at h
        · simp at h
        · rename_i d' hf; simp at h; rw [← h]; exact hf

/-- the generator `hash_file` starts from: a new generator with the metadata size declared -/
def hinted (metaLen : Nat) : Gen :=
  { Gen.new with fixedSize := some metaLen, bhEndLimit := min 30 (Gen.logBlockSizeFromInputSize metaLen 0 + 1) }

/-- **C18 (files).** with the size reported by the metadata declared up front: a metadata size above
    the limit is refused at once, and a hash is only ever produced when the delivered byte count equals
    the declared size — otherwise the result is an error, never a hash -/
theorem hashFile_script (metaLen : Nat) (data : List UInt8) (sizes : List Nat) (failAt : Option (Nat × Nat)) :
    (metaLen > Gen.MAX_INPUT_SIZE → hashFile metaLen data sizes failAt = .error (.gen .fixedSizeTooLarge)) ∧
    (∀ d, hashFile metaLen data sizes failAt = .ok d →
       (chunks data sizes (data.length + sizes.length + 2)).flatten.length = metaLen) := by
  refine ⟨?_, ?_⟩
  · intro h
    simp [hashFile, Gen.setFixedInputSize, h]
  · intro d hd
    unfold hashFile at hd
    by_cases hm : metaLen > Gen.MAX_INPUT_SIZE
    · simp [Gen.setFixedInputSize, hm] at hd
    · have hset : Gen.new.setFixedInputSize metaLen = .ok (hinted metaLen) := by
        simp [Gen.setFixedInputSize, hm, Gen.new, hinted]
      rw [hset] at hd
      simp only at hd
      have hfinal := hashStreamCommon_ok _ data sizes failAt d hd
      generalize chunks data sizes (data.length + sizes.length + 2) = cs at hfinal ⊢
      have hsz := foldl_update_size cs (hinted metaLen) (by simp [hinted, Gen.new, U64_MAX])
      have hin : (cs.foldl Gen.update (hinted metaLen)).inputSize = metaLen := by
        apply Classical.byContradiction
        intro hne
        unfold Gen.finalize Gen.finalizeRaw at hfinal
        have : ((cs.foldl Gen.update (hinted metaLen)).fixedSize.isSome &&
          (cs.foldl Gen.update (hinted metaLen)).fixedSize !=
            some (cs.foldl Gen.update (hinted metaLen)).inputSize) = true := by
          rw [hsz.2]
          simp [hinted]
          intro e; exact hne e.symm
        rw [if_pos this] at hfinal
        simp at hfinal
      rw [hsz.1] at hin
      have h0 : (hinted metaLen).inputSize = 0 := rfl
      rw [h0] at hin
      unfold Gen.satAdd at hin
      have hle : metaLen ≤ Gen.MAX_INPUT_SIZE := by omega
      unfold Gen.MAX_INPUT_SIZE at hle
      unfold U64_MAX at hin
      omega

/-- non-vacuity: a reader failing on its second call after delivering data yields the error, not a hash -/
example : hashStream [1, 2, 3, 4, 5] [2, 2] (some (1, 5)) = .error (.io 5) := by
  have h3 : (chunks [1, 2, 3, 4, 5] [2, 2] ([1, 2, 3, 4, 5].length + [2, 2].length + 2)).length = 3 := by decide
  rw [hashStream_script]
  show (if 1 ≤ (chunks [1, 2, 3, 4, 5] [2, 2] ([1, 2, 3, 4, 5].length + [2, 2].length + 2)).length then _ else _) = _
  rw [if_pos (by decide)]

end Ffuzzy.C18
