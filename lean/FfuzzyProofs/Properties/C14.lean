/-
  C14 — optional build features do not change results.
  Equality of *builds* is not a statement about one model: it is decided by running every feature
  set against the same model transcript (correspondence).  What is a statement about the model is
  proved here: the strict-parser clause, the reduced FNV table, debug assertions, and the agreement of
  unchecked with checked entry points under their contracts.
-/
import FfuzzyProofs.Properties.C04
import FfuzzyProofs.Prim
import FfuzzyProofs.Properties.C16
namespace Ffuzzy.C14
open Ffuzzy Ffuzzy.Spec Ffuzzy.Collapse Ffuzzy.ParseBh Ffuzzy.ParseBs Ffuzzy.ParseMain

/-- under the strict parser the capacity test is the same for every type -/
theorem fits_strict (cfg : Cfg) (hS : cfg.strictParser = true) (norm dual norm' dual' : Bool) (cap : Nat) (x : List UInt8) :
    fits cfg norm dual cap x = fits cfg norm' dual' cap x := by
  unfold fits; simp [hS]

/-- **C14 (strict parser, same texts for all types).** under the strict parser the raw, normalising and
    dual types of one capacity accept exactly the same texts, with the same end index -/
theorem strict_same_texts (cfg : Cfg) (hS : cfg.strictParser = true) (s2 : Nat) (norm dual norm' dual' : Bool)
    (t : List UInt8) :
    (refParse cfg s2 norm dual t).toOption.map (·.index) = (refParse cfg s2 norm' dual' t).toOption.map (·.index) := by
  rw [refParse_unfold, refParse_unfold]
  cases afterDigits t with
  | nil => rfl
  | cons c0 r1 =>
    simp only
    split
    · rfl
    · cases blockSizeLog (digits t) with
      | none => rfl
      | some log =>
        simp only
        rw [fits_strict cfg hS norm dual norm' dual']
        split
        · rfl
        · cases post r1 with
          | nil => rfl
          | cons c1 r3 =>
            simp only
            split
            · rfl
            · rw [fits_strict cfg hS norm dual norm' dual']
              split
              · rfl
              · cases post r3 with
                | nil => rfl
                | cons c2 r5 =>
                  simp only
                  split <;> rfl

/-- **C14 (strict vs default).** the strict parser differs from the default one only by rejecting:
    whatever it accepts, the default parser accepts with the very same result -/
theorem strict_imp_default (cfgS cfgD : Cfg) (hS : cfgS.strictParser = true) (hD : cfgD.strictParser = false)
    (s2 : Nat) (norm dual : Bool) (t : List UInt8) (ro : RefOk) (h : refParse cfgS s2 norm dual t = .ok ro) :
    refParse cfgD s2 norm dual t = .ok ro := by
  rw [refParse_unfold] at h ⊢
  cases h0 : afterDigits t with
  | nil => rw [h0] at h; simp at h
  | cons c0 r1 =>
    rw [h0] at h
    simp only at h ⊢
    split at h
    · simp at h
    · next hc0 =>
      rw [if_neg hc0]
      cases hlog : blockSizeLog (digits t) with
      | none => rw [hlog] at h; simp at h
      | some log =>
        rw [hlog] at h
        simp only at h ⊢
        split at h
        · simp at h
        · next hf1 =>
          have f1 := C04.fits_strict_imp cfgS cfgD hS hD norm dual FULL_SIZE (pre r1) (by simpa using hf1)
          rw [f1]
          simp only [Bool.not_true, Bool.false_eq_true, if_false]
          cases hp1 : post r1 with
          | nil => rw [hp1] at h; simp at h
          | cons c1 r3 =>
            rw [hp1] at h
            simp only at h ⊢
            split at h
            · simp at h
            · next hc1 =>
              rw [if_neg hc1]
              split at h
              · simp at h
              · next hf2 =>
                have f2 := C04.fits_strict_imp cfgS cfgD hS hD norm dual s2 (pre r3) (by simpa using hf2)
                rw [f2]
                simp only [Bool.not_true, Bool.false_eq_true, if_false]
                exact h

/-- …and transferred to the parser itself (plain types) -/
theorem parse_strict_imp_default (cfgS cfgD : Cfg) (hS : cfgS.strictParser = true) (hD : cfgD.strictParser = false)
    (s2 : Nat) (hs2 : s2 ≤ 64) (norm : Bool) (t : List UInt8) (h : FH) (i : Nat)
    (hp : FH.parse cfgS s2 norm t = .ok (h, i)) : FH.parse cfgD s2 norm t = .ok (h, i) := by
  have exS := C04.parse_exact cfgS s2 norm t hs2
  have exD := C04.parse_exact cfgD s2 norm t hs2
  cases hr : refParse cfgS s2 norm false t with
  | error o => obtain ⟨e, he, _⟩ := exS.2 o hr; rw [he] at hp; simp at hp
  | ok ro =>
    obtain ⟨h1, hp1, l1, a1, a2, v1⟩ := exS.1 ro hr
    obtain ⟨h2, hp2, l2, b1, b2, v2⟩ := exD.1 ro (strict_imp_default cfgS cfgD hS hD s2 norm false t ro hr)
    rw [hp1] at hp
    have hh := Prod.mk.inj (Except.ok.inj hp)
    rw [hp2, ← hh.1, ← hh.2]
    have habs : FH.abs h2 = FH.abs h1 := by unfold FH.abs; rw [l1, l2, a1, a2, b1, b2]
    have := ((C16.eq_iff s2 norm h2 h1 v2 v1).2).mp (((C16.eq_iff s2 norm h2 h1 v2 v1).1).mpr habs)
    rw [this]

/-- **C14 (reduced FNV table).** the `opt-reduce-fnv-table` state machine (full `u8` state, masked on
    read) yields the same 6-bit values as the table-driven one -/
theorem reduced_fnv (bs : List UInt8) (s : UInt8) :
    fnvUpdate (s &&& 63) bs = fnvValueReduced (bs.foldl fnvStepReduced s) := Prim.fnvReduced_fold bs s

/-- **C14 (debug assertions).** no model function depends on `debug_assertions` (after the F2 repair):
    parsing is the same function in both profiles -/
theorem debug_irrelevant (cfg : Cfg) (b : Bool) (s2 : Nat) (norm : Bool) (t : List UInt8) :
    FH.parse { cfg with debugAssertions := b } s2 norm t = FH.parse cfg s2 norm t := rfl

/-- **C14 (unchecked entry points).** the checked position-array entry points are the unchecked
    (`_internal`) ones guarded by their documented contracts -/
theorem unchecked_agree (p : PA) (other : List UInt8) (log : Nat) :
    (∀ r, p.editDistance other = some r → r = p.editDistanceInternal other) ∧
    (∀ r, p.hasCommonSubstring other = some r → r = p.hasCommonSubstringInternal other) ∧
    (∀ r, p.scoreStrings other log = some r → r = p.scoreStringsInternal other log) ∧
    (∀ r, p.isEquiv other = some r → r = p.isEquivInternal other) := by
  refine ⟨fun r h => ?_, fun r h => ?_, fun r h => ?_, fun r h => ?_⟩
  · unfold PA.editDistance at h; split at h
    · simp at h
    · exact (Option.some.inj h).symm
  · unfold PA.hasCommonSubstring at h; split at h
    · simp at h
    · exact (Option.some.inj h).symm
  · unfold PA.scoreStrings at h; split at h
    · simp at h
    · exact (Option.some.inj h).symm
  · unfold PA.isEquiv at h; split at h
    · simp at h
    · exact (Option.some.inj h).symm

end Ffuzzy.C14
