/-
  C19 — The exposed hash primitives equal their mathematical definitions.
-/
import FfuzzyProofs.RollingProof
import FfuzzyProofs.Tables
namespace Ffuzzy.C19
open Ffuzzy

/-- **C19 (rolling hash).** value after any byte sequence = closed form of the last seven bytes -/
theorem roll_closed_form (bs : List UInt8) : (Roll.new.update bs).value = rollSpec bs :=
  Prim.roll_closed_form bs

/-- **C19.** the value depends only on the last seven bytes -/
theorem roll_window_only (xs ys : List UInt8) (h : lastWindow xs = lastWindow ys) :
    (Roll.new.update xs).value = (Roll.new.update ys).value :=
  Prim.roll_window_only xs ys h

/-- in particular: any prefix followed by the same 7 bytes gives the same value -/
theorem roll_forgets_prefix (pre w : List UInt8) (hw : w.length = 7) :
    (Roll.new.update (pre ++ w)).value = (Roll.new.update w).value := by
  apply roll_window_only
  simp [lastWindow, hw]

/-- **C19 (partial FNV).** the 6-bit table hash = low six bits of 32-bit FNV-1 with initial value
    0x28021967 over the whole sequence -/
theorem fnv_eq_fnv1_low6 (bs : List UInt8) : fnvUpdate fnvInit bs = fnvSpec bs := by
  rw [Prim.fnvInit_low6, Prim.fnvUpdate_low6]
  rfl

/-- **C19 / C14.** the reduced-table variant (`u8` state, masked on read) computes the same hash -/
theorem fnvReduced_eq_fnvTable (bs : List UInt8) :
    fnvValueReduced (bs.foldl fnvStepReduced fnvInit) = fnvUpdate fnvInit bs := by
  have := Prim.fnvReduced_fold bs fnvInit
  have e : fnvInit &&& 63 = fnvInit := by decide
  rw [e] at this
  exact this.symm

/-- **C19.** slice / iterator / single-byte / `+=` forms agree: all are the same left fold, so any
    split of the input into successive calls gives the same state -/
theorem update_forms_agree (xs ys : List UInt8) :
    (Roll.new.update xs).update ys = Roll.new.update (xs ++ ys) ∧
    ys.foldl Roll.updateByByte (Roll.new.update xs) = Roll.new.update (xs ++ ys) ∧
    fnvUpdate (fnvUpdate fnvInit xs) ys = fnvUpdate fnvInit (xs ++ ys) := by
  simp [Roll.update, fnvUpdate, List.foldl_append]

/-- **C19 (histories).** one hasher fed any sequence of chunks (each through any update form — all
    forms are the same fold) has, after every chunk, the closed-form value of all bytes so far -/
theorem roll_history (cs : List (List UInt8)) :
    (cs.foldl Roll.update Roll.new).value = rollSpec cs.flatten ∧
    cs.foldl fnvUpdate fnvInit = fnvSpec cs.flatten := by
  have h1 : ∀ (cs : List (List UInt8)) (r : Roll), cs.foldl Roll.update r = r.update cs.flatten := by
    intro cs
    induction cs with
    | nil => intro r; rfl
    | cons c cs ih => intro r; rw [List.foldl_cons, ih, List.flatten_cons]; simp [Roll.update, List.foldl_append]
  have h2 : ∀ (cs : List (List UInt8)) (s : UInt8), cs.foldl fnvUpdate s = fnvUpdate s cs.flatten := by
    intro cs
    induction cs with
    | nil => intro s; rfl
    | cons c cs ih => intro s; rw [List.foldl_cons, ih, List.flatten_cons]; simp [fnvUpdate, List.foldl_append]
  rw [h1, h2]
  exact ⟨roll_closed_form _, fnv_eq_fnv1_low6 _⟩

/-- states of the partial FNV hash stay below 64 (`invariant!` of `PartialFNVHash::value`) -/
theorem fnv_state_lt (bs : List UInt8) : (fnvUpdate fnvInit bs).toNat < 64 := by
  rw [fnv_eq_fnv1_low6]
  simp only [fnvSpec, UInt8.toNat_and]
  have h := Nat.and_two_pow_sub_one_eq_mod ((fnv1Full bs).toUInt8.toNat) 6
  have e : (63 : UInt8).toNat = 2 ^ 6 - 1 := rfl
  rw [e, h]
  exact Nat.mod_lt _ (by decide)

/-- non-vacuity / sanity: the rolling value of the all-levels trigger word -/
example : (Roll.new.update [0x60, 0x5d, 0x5d, 0x5d, 0x5f, 0x43, 0x54]).value + 1 = 3 * 2 ^ 30 := by decide

end Ffuzzy.C19
