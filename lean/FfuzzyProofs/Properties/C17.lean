/-
  C17 — Reused comparison targets carry nothing over from earlier hashes.
-/
import FfuzzyProofs.PosArrayValid
import FfuzzyProofs.HashValid
import FfuzzyModel.Compare
namespace Ffuzzy.C17
open Ffuzzy

/-- **C17 (position array).** `init_from` does not depend on what the array held before:
    after any history, re-initialising from `a` gives exactly the fresh array of `a` -/
theorem pa_initFrom_history_indep (p : PA) (a : List UInt8) : p.initFrom a = PA.new.initFrom a :=
  PosInit.initFrom_indep p PA.new a

/-- the same lifted over arbitrary histories of `init_from` / `clear` -/
inductive PaOp where | init (a : List UInt8) | clear

def paRun (p : PA) : List PaOp → PA
  | [] => p
  | .init a :: ops => paRun ((p.initFrom a).getD p) ops
  | .clear :: ops => paRun p.clear ops

theorem pa_history (ops : List PaOp) (a : List UInt8) :
    (paRun PA.new ops).initFrom a = PA.new.initFrom a := pa_initFrom_history_indep _ a

/-- **C17.** a position array represents exactly the string it was built from:
    it is valid, its length is the string's, and it is equivalent to that string only -/
theorem posArray_represents (p : PA) (a : List UInt8) (hlen : a.length ≤ 64) (hall : ∀ b ∈ a, b.toNat < 64) :
    ∃ q, p.initFrom a = some q ∧ q.isValid = true ∧ q.len.toNat = a.length ∧
      ∀ x : List UInt8, x.length ≤ 64 → (q.isEquivInternal x = true ↔ x = a) := by
  obtain ⟨q, hq, _, hl, hspec⟩ := PosInit.initFrom_spec p a hlen hall
  obtain ⟨q', hq', hv, _⟩ := PosInit.initFrom_valid p a hlen hall
  have : q' = q := by rw [hq] at hq'; exact (Option.some.inj hq').symm
  subst this
  exact ⟨q', hq, hv, hl, fun x hx => PosInit.isEquiv_iff q' a x hspec hl hlen hx⟩

/-- **C17 (target).** re-initialising a comparison target from `h` gives the fresh target of `h`,
    whatever the target held before: structurally equal, hence the same answers to every query -/
theorem target_initFrom_history_indep (t : Target) (h : FH) : t.initFrom h = Target.fromHash h := by
  simp [Target.initFrom, Target.fromHash, Target.initFromPartial, Target.new]

inductive TgtOp where | init (h : FH) | from (h : FH)

def tgtRun (t : Target) : List TgtOp → Target
  | [] => t
  | .init h :: ops => tgtRun (t.initFrom h) ops
  | .from h :: ops => tgtRun (Target.fromHash h) ops

theorem target_history (ops : List TgtOp) (h x : FH) :
    let t := (tgtRun Target.new ops).initFrom h
    t = Target.fromHash h ∧ t.fullEq (Target.fromHash h) = true ∧
      t.compare x = (Target.fromHash h).compare x ∧
      t.isComparisonCandidate x = (Target.fromHash h).isComparisonCandidate x := by
  intro t
  have e : t = Target.fromHash h := target_initFrom_history_indep _ h
  refine ⟨e, ?_, by rw [e], by rw [e]⟩
  rw [e]; simp [Target.fullEq]

/-- the two position arrays of a (re-)initialised target are the arrays of the block hashes -/
theorem target_arrays (t : Target) (h : FH) :
    (t.initFrom h).pa1 = PA.new.initFromPartial h.blockHash1 ∧
    (t.initFrom h).pa2 = PA.new.initFromPartial h.blockHash2 := by
  simp [Target.initFrom, Target.initFromPartial, Target.pa1, Target.pa2, PA.initFromPartial, PA.new]

/-- a target built from a valid normalised hash reports equivalence to that hash only
    (among valid hashes of the same type) -/
theorem target_isEquiv_iff (s2 : Nat) (t : Target) (h x : FH) (hs2 : s2 ≤ 64)
    (hv : FH.Valid s2 true h) (hx : FH.Valid s2 true x) :
    (t.initFrom h).isEquiv x = true ↔ FH.abs x = FH.abs h := by
  have hb1 : h.blockHash1.length ≤ 64 := by
    have := hv.b1.len_le; simp [FH.blockHash1, FULL_SIZE] at *; omega
  have hb2 : h.blockHash2.length ≤ 64 := by
    have := hv.b2.len_le; simp [FH.blockHash2] at *; omega
  have s1 : ∀ b ∈ h.blockHash1, b.toNat < 64 := fun b hb => by
    have := hv.b1.sym b hb; exact UInt8.lt_iff_toNat_lt.mp this
  have s2' : ∀ b ∈ h.blockHash2, b.toNat < 64 := fun b hb => by
    have := hv.b2.sym b hb; exact UInt8.lt_iff_toNat_lt.mp this
  obtain ⟨q1, e1, _, l1, sp1⟩ := PosInit.initFrom_spec PA.new h.blockHash1 hb1 s1
  obtain ⟨q2, e2, _, l2, sp2⟩ := PosInit.initFrom_spec PA.new h.blockHash2 hb2 s2'
  have a1 : (t.initFrom h).pa1 = q1 := by
    rw [(target_arrays t h).1]
    have : PA.new.initFrom h.blockHash1 = some (PA.new.clearRepresentationOnly.initFromPartial h.blockHash1) := by
      simp [PA.initFrom, hb1]
      intro b hb; exact hv.b1.sym b hb
    rw [this] at e1
    have := Option.some.inj e1
    rw [← this]; rfl
  have a2 : (t.initFrom h).pa2 = q2 := by
    rw [(target_arrays t h).2]
    have : PA.new.initFrom h.blockHash2 = some (PA.new.clearRepresentationOnly.initFromPartial h.blockHash2) := by
      simp [PA.initFrom, hb2]
      intro b hb; exact hv.b2.sym b hb
    rw [this] at e2
    have := Option.some.inj e2
    rw [← this]; rfl
  have xb1 : x.blockHash1.length ≤ 64 := by
    have := hx.b1.len_le; simp [FH.blockHash1, FULL_SIZE] at *; omega
  have xb2 : x.blockHash2.length ≤ 64 := by
    have := hx.b2.len_le; simp [FH.blockHash2] at *; omega
  have q1e := PosInit.isEquiv_iff q1 h.blockHash1 x.blockHash1 sp1 l1 hb1 xb1
  have q2e := PosInit.isEquiv_iff q2 h.blockHash2 x.blockHash2 sp2 l2 hb2 xb2
  unfold Target.isEquiv Target.isEquivExceptBlockSize
  rw [a1, a2]
  have hlog : (t.initFrom h).log = h.log := by simp [Target.initFrom, Target.initFromPartial]
  rw [hlog]
  by_cases hl : h.log = x.log
  · simp only [hl, bne_self_eq_false, Bool.false_eq_true, if_false, Bool.and_eq_true, q1e, q2e, FH.abs,
      Prod.mk.injEq, true_and]
  · have : (h.log != x.log) = true := by simpa using hl
    simp only [this, if_true, Bool.false_eq_true, false_iff, FH.abs, Prod.mk.injEq, not_and]
    intro e; exact absurd (UInt8.toNat_inj.mp e).symm hl

/-- non-vacuity: a reused array really forgets its previous (longer) contents -/
example : ((PA.new.initFrom [1, 1, 2, 3, 4, 5, 6, 7, 8]).bind fun p => p.initFrom [9, 8]) = PA.new.initFrom [9, 8] := by
  decide

end Ffuzzy.C17
