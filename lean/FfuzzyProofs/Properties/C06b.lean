/-
  C06, parse route: parsing a text directly into a normalising type gives the normalisation of what
  the raw type parses; C16: equal texts imply equal objects.
-/
import FfuzzyProofs.Properties.C05
import FfuzzyProofs.Properties.C06
namespace Ffuzzy.C06
open Ffuzzy Ffuzzy.Spec Ffuzzy.Collapse Ffuzzy.ParseBh Ffuzzy.ParseBs Ffuzzy.ParseField Ffuzzy.ParseMain

/-- **C06 (parse route).** whenever a text parses as the raw type it also parses as the normalising
    type of the same capacity, with the same end index, and the object is exactly the normalisation
    of the raw object -/
theorem parse_route (cfg : Cfg) (s2 : Nat) (t : List UInt8) (hs2 : s2 ≤ 64) (hr : FH) (i : Nat)
    (hp : FH.parse cfg s2 false t = .ok (hr, i)) :
    FH.parse cfg s2 true t = .ok (FH.normalize false hr, i) := by
  have exr := C04.parse_exact cfg s2 false t hs2
  have exn := C04.parse_exact cfg s2 true t hs2
  cases hrr : refParse cfg s2 false false t with
  | error o => obtain ⟨e, he, _⟩ := exr.2 o hrr; rw [he] at hp; simp at hp
  | ok ro =>
    obtain ⟨h', hp', hl, hb1, hb2, hv⟩ := exr.1 ro hrr
    rw [hp'] at hp
    have hh := Prod.mk.inj (Except.ok.inj hp)
    have e1 : h' = hr := hh.1
    have e2 : ro.index = i := hh.2
    subst e1
    obtain ⟨r1, r3, log, h0, hlog, hp1, hro⟩ := C05.refParse_ok_shape cfg s2 false false t ro hrr
    -- the normalising type accepts the same text
    have hfit : ∀ cap (x : List UInt8), fits cfg false false cap x = true → fits cfg true false cap x = true := by
      intro cap x hx
      unfold fits at *
      cases hsp : cfg.strictParser
      · simp only [hsp, Bool.false_and, Bool.false_eq_true, if_false, Bool.not_false, Bool.and_true,
          Bool.true_and, if_true, decide_eq_true_eq] at *
        have := collapse_length_le x; omega
      · simpa [hsp] using hx
    have hrn : refParse cfg s2 true false t =
        .ok ⟨log, refBh true r1, refBh true r3, (digits t).length + 1 + (pre r1).length + 1 + (pre r3).length⟩ := by
      have hraw := hrr
      rw [refParse_unfold] at hraw ⊢
      rw [h0] at hraw ⊢
      simp only [bne_self_eq_false, Bool.false_eq_true, if_false, hlog] at hraw ⊢
      rw [hp1] at hraw ⊢
      simp only [bne_self_eq_false, Bool.false_eq_true, if_false] at hraw ⊢
      have f1 : fits cfg false false FULL_SIZE (pre r1) = true := by
        cases hf : fits cfg false false FULL_SIZE (pre r1)
        · simp [hf] at hraw
        · rfl
      rw [f1] at hraw
      simp only [Bool.not_true, Bool.false_eq_true, if_false] at hraw
      have f2 : fits cfg false false s2 (pre r3) = true := by
        cases hf : fits cfg false false s2 (pre r3)
        · simp [hf] at hraw
        · rfl
      rw [f2] at hraw
      simp only [Bool.not_true, Bool.false_eq_true, if_false] at hraw
      rw [hfit _ _ f1, hfit _ _ f2]
      simp only [Bool.not_true, Bool.false_eq_true, if_false]
      cases hp3 : post r3 with
      | nil => rfl
      | cons c2 r5 =>
        rw [hp3] at hraw
        simp only at hraw ⊢
        split at hraw
        · next h44 => rw [if_pos h44]
        · simp at hraw
    obtain ⟨hn, hpn, hln, hbn1, hbn2, hvn⟩ := exn.1 _ hrn
    simp only at hpn hln hbn1 hbn2
    have hidx : (digits t).length + 1 + (pre r1).length + 1 + (pre r3).length = i := by rw [← e2, hro]
    rw [hidx] at hpn
    rw [hpn]
    -- both objects are valid normalised hashes with the same content
    obtain ⟨hvN, hlogN, hN1, hN2⟩ := normalize_eq_collapse s2 hs2 h' hv
    have cm : ∀ r, refBh true r = collapse (refBh false r) := by
      intro r
      unfold refBh
      simp only [if_true, Bool.false_eq_true, if_false]
      exact (collapse_map b64Index (pre r) (fun a ha b hb => b64Index_inj a b (pre_all r a ha) (pre_all r b hb))).symm
    have habs : FH.abs hn = FH.abs (FH.normalize false h') := by
      unfold FH.abs
      rw [hln, hbn1, hbn2, hN1, hN2, hb1, hb2, hro, cm r1, cm r3]
      simp only
      rw [hlogN, hl, hro]
    have := ((C16.eq_iff s2 true hn _ hvn hvN).2).mp (((C16.eq_iff s2 true hn _ hvn hvN).1).mpr habs)
    rw [this]

end Ffuzzy.C06

namespace Ffuzzy.C16
open Ffuzzy

/-- **C16 (texts).** valid objects of one type with equal texts are the same object (the converse
    is `eq_iff`: equal objects are structurally equal, hence have equal texts) -/
theorem text_injective (s2 : Nat) (norm : Bool) (hs2 : s2 ≤ 64) (a b : FH) (ha : FH.Valid s2 norm a) (hb : FH.Valid s2 norm b)
    (h : a.text = b.text) : a = b := by
  have cfg : Cfg := { debugAssertions := true, strictParser := false }
  have r1 := C05.text_roundtrip cfg s2 norm a hs2 ha
  have r2 := C05.text_roundtrip cfg s2 norm b hs2 hb
  rw [h, r2] at r1
  exact ((Prod.mk.inj (Except.ok.inj r1)).1).symm

theorem eq_iff_text (s2 : Nat) (norm : Bool) (hs2 : s2 ≤ 64) (a b : FH) (ha : FH.Valid s2 norm a) (hb : FH.Valid s2 norm b) :
    FH.eq a b = true ↔ a.text = b.text := by
  constructor
  · intro h; rw [((eq_iff s2 norm a b ha hb).2).mp h]
  · intro h; rw [text_injective s2 norm hs2 a b ha hb h]; exact ((eq_iff s2 norm b b hb hb).2).mpr rfl

end Ffuzzy.C16
