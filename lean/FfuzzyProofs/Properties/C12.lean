/-
  C12 — fixed-size hint, reset and the generator's error contract, for every history of calls.
-/
import FfuzzyProofs.Properties.C03
namespace Ffuzzy.C12
open Ffuzzy Ffuzzy.Spec Ffuzzy.GenSim

/-- **C12 (master form).** after any history of `update*` / `set_fixed_input_size` / `reset` calls
    every finalisation returns what the caller-visible abstract state prescribes: the size-mismatch
    error when an accepted declaration differs from the number of bytes fed since the last reset, and
    otherwise the reference digest of those bytes — the same with and without a declaration -/
theorem history_digest (ops : List GOp) (trunc : Bool) (s2 : Nat) (hs2 : s2 = 32 ∨ s2 = 64) :
    (ops.foldl GOp.apply Gen.new).finalizeRaw trunc s2 =
      (ops.foldl Abs.apply { bytes := [], hint := none }).digest trunc s2 :=
  J_final _ _ (J_history ops Gen.new _ J_new) trunc s2 hs2

/-- the engine never panics, whatever the history (also when a declaration can no longer be met) -/
theorem history_no_panic (ops : List GOp) : (ops.foldl GOp.apply Gen.new).panicked = false :=
  (J_history ops Gen.new _ J_new).sim.np

/-- the visible size and declaration after any history -/
theorem history_state (ops : List GOp) :
    (ops.foldl GOp.apply Gen.new).inputSize = min (ops.foldl Abs.apply { bytes := [], hint := none }).bytes.length U64_MAX ∧
    (ops.foldl GOp.apply Gen.new).fixedSize = (ops.foldl Abs.apply { bytes := [], hint := none }).hint :=
  ⟨(J_history ops Gen.new _ J_new).size, (J_history ops Gen.new _ J_new).hint⟩

/-- a declaration equal to the number of bytes fed does not change the hash -/
theorem matching_hint_same_hash (a : Abs) (hm : a.hint = some a.bytes.length) (hle : a.bytes.length ≤ U64_MAX)
    (trunc : Bool) (s2 : Nat) :
    a.digest trunc s2 = ({ a with hint := none } : Abs).digest trunc s2 := by
  unfold Abs.digest
  simp [hm, Nat.min_eq_left hle]

/-- a declaration different from the number of bytes fed makes every finalisation fail -/
theorem mismatching_hint_fails (a : Abs) (s : Nat) (hm : a.hint = some s) (hne : s ≠ min a.bytes.length U64_MAX)
    (trunc : Bool) (s2 : Nat) :
    a.digest trunc s2 = .error .fixedSizeMismatch := by
  unfold Abs.digest
  simp [hm, hne]

/-- a declared size above 192 GiB is refused -/
theorem hint_too_large (g : Gen) (s : Nat) (h : s > Gen.MAX_INPUT_SIZE) :
    g.setFixedInputSize s = .error .fixedSizeTooLarge := by
  unfold Gen.setFixedInputSize; simp [h]

/-- a second, different declaration is refused -/
theorem hint_second_different (g : Gen) (x s : Nat) (hx : g.fixedSize = some x) (hne : x ≠ s)
    (h : s ≤ Gen.MAX_INPUT_SIZE) : g.setFixedInputSize s = .error .fixedSizeMismatch := by
  unfold Gen.setFixedInputSize
  have : ¬ s > Gen.MAX_INPUT_SIZE := by omega
  simp [this, hx, hne]

/-- a refused declaration leaves the generator unchanged -/
theorem refused_hint_unchanged (g : Gen) (s : Nat) (e : GenErr) (h : g.setFixedInputSize s = .error e) :
    GOp.apply g (.hint s) = g := by
  show (match g.setFixedInputSize s with | .ok g' => g' | .error _ => g) = g
  rw [h]

/-- **C12 (reset).** after a reset the generator behaves like a new one for every subsequent history:
    same finalisation results, same reported size, same declaration state (hence the same answers
    from `set_fixed_input_size`), regardless of what it processed or had declared before -/
theorem reset_like_new (before after : List GOp) (trunc : Bool) (s2 : Nat) (hs2 : s2 = 32 ∨ s2 = 64) :
    (after.foldl GOp.apply (before.foldl GOp.apply Gen.new).reset).finalizeRaw trunc s2 =
      (after.foldl GOp.apply Gen.new).finalizeRaw trunc s2 ∧
    (after.foldl GOp.apply (before.foldl GOp.apply Gen.new).reset).inputSize = (after.foldl GOp.apply Gen.new).inputSize ∧
    (after.foldl GOp.apply (before.foldl GOp.apply Gen.new).reset).fixedSize = (after.foldl GOp.apply Gen.new).fixedSize := by
  have h0 := J_reset _ _ (J_history before Gen.new _ J_new)
  have h1 := J_history after _ _ h0
  have h2 := J_history after Gen.new _ J_new
  exact ⟨by rw [J_final _ _ h1 trunc s2 hs2, J_final _ _ h2 trunc s2 hs2], by rw [h1.size, h2.size], by rw [h1.hint, h2.hint]⟩

/-- the answers of `set_fixed_input_size` only depend on the declaration state -/
theorem hint_answer_congr (g1 g2 : Gen) (s : Nat) (h : g1.fixedSize = g2.fixedSize) :
    (g1.setFixedInputSize s).toOption.isSome = (g2.setFixedInputSize s).toOption.isSome ∧
    (∀ e, g1.setFixedInputSize s = .error e ↔ g2.setFixedInputSize s = .error e) := by
  unfold Gen.setFixedInputSize
  rw [h]
  by_cases h1 : s > Gen.MAX_INPUT_SIZE
  · simp [h1]
  · by_cases h2 : (g2.fixedSize.isSome && g2.fixedSize != some s) = true
    · simp [h1, h2]
    · simp [h1, h2, Except.toOption]

/-- non-vacuity: a history with elimination-free data, a declaration, a mismatch, and a reset -/
example : ([GOp.hint 3, GOp.update [1, 2, 3, 4]].foldl GOp.apply Gen.new).finalizeRaw true 32 = .error .fixedSizeMismatch := by
  rw [history_digest _ true 32 (Or.inl rfl)]
  exact mismatching_hint_fails _ 3 rfl (by decide) true 32

end Ffuzzy.C12
