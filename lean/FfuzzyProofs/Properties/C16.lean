/-
  C16 — Equality, hashing and ordering are consistent and follow the documented order.
-/
import FfuzzyProofs.NormalizeProof
import FfuzzyModel.Driver2
import FfuzzyModel.Dual
namespace Ffuzzy.C16
open Ffuzzy Ffuzzy.Spec

/-- the documented order on block hashes: lexicographic on symbol values, a proper prefix first -/
abbrev lex := Driver.specLex

/-! ### lexicographic order on byte lists is a total order -/

theorem lex_eq_iff : ∀ x y : List UInt8, lex x y = .eq ↔ x = y := by
  intro x
  induction x with
  | nil => intro y; cases y <;> simp [Driver.specLex]
  | cons a as ih =>
    intro y
    cases y with
    | nil => simp [Driver.specLex]
    | cons b bs =>
      simp only [Driver.specLex]
      by_cases h1 : a < b
      · simp [h1]; intro e; subst e; exact absurd h1 (UInt8.lt_irrefl _)
      · by_cases h2 : b < a
        · simp [h1, h2]; intro e; subst e; exact absurd h2 (UInt8.lt_irrefl _)
        · have : a = b := UInt8.le_antisymm (UInt8.not_lt.mp h2) (UInt8.not_lt.mp h1)
          subst this
          simp [h1, ih]

theorem lex_swap : ∀ x y : List UInt8, lex y x = (lex x y).swap := by
  intro x
  induction x with
  | nil => intro y; cases y <;> simp [Driver.specLex]
  | cons a as ih =>
    intro y
    cases y with
    | nil => simp [Driver.specLex]
    | cons b bs =>
      simp only [Driver.specLex]
      by_cases h1 : a < b
      · have : ¬ b < a := UInt8.lt_asymm h1
        simp [h1, this]
      · by_cases h2 : b < a
        · simp [h1, h2]
        · simp [h1, h2, ih]

theorem lex_trans_lt : ∀ x y z : List UInt8, lex x y = .lt → lex y z = .lt → lex x z = .lt := by
  intro x
  induction x with
  | nil =>
    intro y z h1 h2
    cases y with
    | nil => simp [Driver.specLex] at h1
    | cons b bs => cases z <;> simp_all [Driver.specLex]
  | cons a as ih =>
    intro y z h1 h2
    cases y with
    | nil => simp [Driver.specLex] at h1
    | cons b bs =>
      cases z with
      | nil => simp [Driver.specLex] at h2
      | cons c cs =>
        simp only [Driver.specLex] at h1 h2 ⊢
        by_cases ab : a < b
        · by_cases bc : b < c
          · simp [UInt8.lt_trans ab bc]
          · by_cases cb : c < b
            · simp [bc, cb] at h2
            · have : b = c := UInt8.le_antisymm (UInt8.not_lt.mp cb) (UInt8.not_lt.mp bc)
              subst this; simp [ab]
        · by_cases ba : b < a
          · simp [ab, ba] at h1
          · have e : a = b := UInt8.le_antisymm (UInt8.not_lt.mp ba) (UInt8.not_lt.mp ab)
            subst e
            simp only [ab, if_false] at h1
            by_cases bc : a < c
            · simp [bc]
            · by_cases cb : c < a
              · simp [bc, cb] at h2
              · simp only [bc, cb, if_false] at h2 ⊢
                exact ih _ _ h1 h2

/-! ### the padded-array comparison of the implementation is that order -/

theorem cmpBytes_pad : ∀ (x y : List UInt8) (n : Nat), x.length ≤ n → y.length ≤ n →
    (FH.cmpBytes (padTo x n 0) (padTo y n 0)).then (compare x.length y.length) = lex x y := by
  intro x
  induction x with
  | nil =>
    intro y
    induction y with
    | nil =>
      intro n _ _
      have : ∀ k, FH.cmpBytes (List.replicate k (0 : UInt8)) (List.replicate k 0) = .eq := by
        intro k; induction k with
        | zero => rfl
        | succ k ih => simp [List.replicate_succ, FH.cmpBytes, ih]
      simp [padTo, this, Driver.specLex]
    | cons b bs ihb =>
      intro n _ hy
      obtain ⟨m, rfl⟩ : ∃ m, n = m + 1 := ⟨n - 1, by simp at hy; omega⟩
      simp only [List.length_cons] at hy
      have ih := ihb m (by simp) (by omega)
      simp only [padTo, List.length_nil, Nat.sub_zero, List.nil_append, List.replicate_succ,
        List.cons_append, FH.cmpBytes, List.length_cons] at ih ⊢
      by_cases h0 : (0 : UInt8) < b
      · simp [h0, Driver.specLex]
      · have hb : b = 0 := UInt8.le_antisymm (UInt8.not_lt.mp h0) (by exact UInt8.zero_le)
        subst hb
        simp only [UInt8.lt_irrefl, if_false]
        have e : m + 1 - (bs.length + 1) = m - bs.length := by omega
        rw [e]
        have hlt : compare 0 (bs.length + 1) = Ordering.lt := by
          simp [Nat.compare_eq_lt]
        rw [hlt]
        show _ = Ordering.lt
        -- padded equal or less: in both cases the result is `lt`
        cases hc : FH.cmpBytes (List.replicate m 0) (bs ++ List.replicate (m - bs.length) 0) with
        | lt => rfl
        | eq => rfl
        | gt =>
          -- impossible: zeros are minimal
          have : ∀ (k : Nat) (l : List UInt8), FH.cmpBytes (List.replicate k 0) l ≠ .gt ∨ l.length < k := by
            intro k
            induction k with
            | zero => intro l; cases l <;> simp [FH.cmpBytes]
            | succ k ihk =>
              intro l
              cases l with
              | nil => right; simp
              | cons c cs =>
                simp only [List.replicate_succ, FH.cmpBytes, List.length_cons]
                by_cases hc0 : (0 : UInt8) < c
                · simp [hc0]
                · have : c = 0 := UInt8.le_antisymm (UInt8.not_lt.mp hc0) UInt8.zero_le
                  subst this
                  simp only [UInt8.lt_irrefl, if_false]
                  rcases ihk cs with h | h
                  · left; exact h
                  · right; omega
          rcases this m (bs ++ List.replicate (m - bs.length) 0) with h | h
          · exact absurd hc h
          · simp at h; omega
  | cons a as ih =>
    intro y n hx hy
    obtain ⟨m, rfl⟩ : ∃ m, n = m + 1 := ⟨n - 1, by simp at hx; omega⟩
    cases y with
    | nil =>
      -- symmetric to the case above
      have := ih
      simp only [padTo, List.length_nil, Nat.sub_zero, List.nil_append, List.replicate_succ,
        List.cons_append, FH.cmpBytes, List.length_cons, Driver.specLex]
      simp only [List.length_cons] at hx
      by_cases h0 : a < 0
      · exact absurd h0 (by simp [UInt8.not_lt, UInt8.zero_le])
      · simp only [h0, if_false]
        by_cases ha : (0 : UInt8) < a
        · simp [ha]
        · have : a = 0 := UInt8.le_antisymm (UInt8.not_lt.mp ha) UInt8.zero_le
          subst this
          simp only [UInt8.lt_irrefl, if_false]
          have e : m + 1 - (as.length + 1) = m - as.length := by omega
          rw [e]
          have hgt : compare (as.length + 1) 0 = Ordering.gt := by simp [Nat.compare_eq_gt]
          rw [hgt]
          have := ih [] m (by omega) (by simp)
          simp only [padTo, List.length_nil, Nat.sub_zero, List.nil_append] at this
          cases as with
          | nil =>
            cases hc : FH.cmpBytes (List.replicate (m - 0) 0) (List.replicate m 0) <;> simp_all [Driver.specLex]
          | cons a' as' =>
            simp only [Driver.specLex] at this
            cases hc : FH.cmpBytes (a' :: as' ++ List.replicate (m - (a' :: as').length) 0) (List.replicate m 0) <;>
              simp_all
    | cons b bs =>
      simp only [List.length_cons] at hx hy
      have := ih bs m (by omega) (by omega)
      simp only [padTo, List.cons_append, FH.cmpBytes, List.length_cons, Driver.specLex] at this ⊢
      have e1 : m + 1 - (as.length + 1) = m - as.length := by omega
      have e2 : m + 1 - (bs.length + 1) = m - bs.length := by omega
      rw [e1, e2]
      by_cases h1 : a < b
      · simp [h1]
      · by_cases h2 : b < a
        · simp [h1, h2]
        · simp only [h1, h2, if_false]
          have hc : compare (as.length + 1) (bs.length + 1) = compare as.length bs.length := by
            simp only [Nat.compare_eq_ite_lt]
            by_cases q1 : as.length < bs.length
            · simp [q1]
            · by_cases q2 : bs.length < as.length
              · simp [q1, q2]
              · simp [q1, q2]
          rw [hc]; exact this


/-! ### property theorems -/

theorem u8_compare (x y : UInt8) : compare x y = compare x.toNat y.toNat := by
  show compareOfLessAndEq x y = _
  unfold compareOfLessAndEq
  rw [Nat.compare_eq_ite_lt]
  by_cases h1 : x < y
  · have : x.toNat < y.toNat := UInt8.lt_iff_toNat_lt.mp h1
    simp [h1, this]
  · have n1 : ¬ x.toNat < y.toNat := fun h => h1 (UInt8.lt_iff_toNat_lt.mpr h)
    by_cases h2 : x = y
    · subst h2; simp
    · have n2 : ¬ y.toNat < x.toNat → False := by
        intro h; apply h2; apply UInt8.toNat_inj.mp; omega
      have : y.toNat < x.toNat := by
        apply Classical.byContradiction; exact n2
      simp [h1, h2, n1, this]

theorem eq_unfold (a b : FH) : FH.eq a b = true ↔
    a.len1 = b.len1 ∧ a.len2 = b.len2 ∧ a.log = b.log ∧
      a.blockHash1 = b.blockHash1 ∧ a.blockHash2 = b.blockHash2 := by
  unfold FH.eq
  by_cases hc : (a.len1 == b.len1 && a.len2 == b.len2 && a.log == b.log) = true
  · simp only [hc, Bool.not_true, Bool.false_eq_true, if_false, Bool.and_eq_true, beq_iff_eq]
    simp only [Bool.and_eq_true, beq_iff_eq] at hc
    constructor
    · rintro ⟨h1, h2⟩; exact ⟨hc.1.1, hc.1.2, hc.2, h1, h2⟩
    · rintro ⟨_, _, _, h1, h2⟩; exact ⟨h1, h2⟩
  · have hf : (a.len1 == b.len1 && a.len2 == b.len2 && a.log == b.log) = false := by simpa using hc
    simp only [hf, Bool.not_false, if_true, Bool.false_eq_true, false_iff]
    rintro ⟨h1, h2, h3, _, _⟩
    apply hc; simp [h1, h2, h3]


/-- a valid array is its content padded with zeros -/
theorem valid_padded {cap : Nat} {norm : Bool} {bh : List UInt8} {len : UInt8}
    (hv : FH.BhValid cap norm bh len) : bh = padTo (bh.take len.toNat) cap 0 := by
  have t := all_zero_eq_replicate _ hv.tail
  have hl : (bh.take len.toNat).length = len.toNat := by
    simp [hv.arr]; exact Nat.min_eq_left hv.len_le
  conv => lhs; rw [← List.take_append_drop len.toNat bh, t]
  simp [padTo, hl, hv.arr]

/-- **C16 (order).** For valid hashes of one type the implementation's `Ord` (tuple comparison of
    log block size, zero-padded arrays and lengths) is the documented order: block size, then
    block hash 1 lexicographically by symbol value with a proper prefix first, then block hash 2. -/
theorem cmp_is_lex (s2 : Nat) (norm : Bool) (a b : FH) (ha : FH.Valid s2 norm a) (hb : FH.Valid s2 norm b) :
    FH.cmp a b = (compare a.log b.log).then ((lex a.blockHash1 b.blockHash1).then (lex a.blockHash2 b.blockHash2)) := by
  unfold FH.cmp
  have p1 := valid_padded ha.b1
  have p2 := valid_padded ha.b2
  have q1 := valid_padded hb.b1
  have q2 := valid_padded hb.b2
  have l1 : (a.bh1.take a.len1.toNat).length = a.len1.toNat := by simp [ha.b1.arr]; exact Nat.min_eq_left ha.b1.len_le
  have l2 : (a.bh2.take a.len2.toNat).length = a.len2.toNat := by simp [ha.b2.arr]; exact Nat.min_eq_left ha.b2.len_le
  have m1 : (b.bh1.take b.len1.toNat).length = b.len1.toNat := by simp [hb.b1.arr]; exact Nat.min_eq_left hb.b1.len_le
  have m2 : (b.bh2.take b.len2.toNat).length = b.len2.toNat := by simp [hb.b2.arr]; exact Nat.min_eq_left hb.b2.len_le
  have c1 := cmpBytes_pad (a.bh1.take a.len1.toNat) (b.bh1.take b.len1.toNat) FULL_SIZE
    (by rw [l1]; exact ha.b1.len_le) (by rw [m1]; exact hb.b1.len_le)
  have c2 := cmpBytes_pad (a.bh2.take a.len2.toNat) (b.bh2.take b.len2.toNat) s2
    (by rw [l2]; exact ha.b2.len_le) (by rw [m2]; exact hb.b2.len_le)
  rw [← p1, ← q1, l1, m1] at c1
  rw [← p2, ← q2, l2, m2] at c2
  rw [u8_compare a.len1, u8_compare a.len2]
  simp only [FH.blockHash1, FH.blockHash2, ← c1, ← c2, Ordering.then_assoc]

/-- **C16 (equality).** valid hashes are `==` exactly when block size and both block hashes agree,
    and then they are the same object (so every observable, in particular the text, agrees) -/
theorem eq_iff (s2 : Nat) (norm : Bool) (a b : FH) (ha : FH.Valid s2 norm a) (hb : FH.Valid s2 norm b) :
    (FH.eq a b = true ↔ FH.abs a = FH.abs b) ∧ (FH.eq a b = true ↔ a = b) := by
  have hlen1 : ∀ (x : FH), FH.Valid s2 norm x → x.blockHash1.length = x.len1.toNat := by
    intro x hx; simp [FH.blockHash1, hx.b1.arr]; exact Nat.min_eq_left hx.b1.len_le
  have hlen2 : ∀ (x : FH), FH.Valid s2 norm x → x.blockHash2.length = x.len2.toNat := by
    intro x hx; simp [FH.blockHash2, hx.b2.arr]; exact Nat.min_eq_left hx.b2.len_le
  have h1 : FH.eq a b = true ↔ FH.abs a = FH.abs b := by
    rw [eq_unfold]
    unfold FH.abs
    constructor
    · rintro ⟨_, _, e0, e1, e2⟩
      simp [e0, e1, e2]
    · intro h
      simp only [Prod.mk.injEq] at h
      obtain ⟨e0, e1, e2⟩ := h
      have f1 : a.len1 = b.len1 := by
        apply UInt8.toNat_inj.mp; rw [← hlen1 a ha, ← hlen1 b hb, e1]
      have f2 : a.len2 = b.len2 := by
        apply UInt8.toNat_inj.mp; rw [← hlen2 a ha, ← hlen2 b hb, e2]
      have f0 : a.log = b.log := UInt8.toNat_inj.mp e0
      exact ⟨f1, f2, f0, e1, e2⟩
  refine ⟨h1, h1.trans ?_⟩
  constructor
  · intro h
    simp only [FH.abs, Prod.mk.injEq] at h
    obtain ⟨e0, e1, e2⟩ := h
    have f1 : a.len1 = b.len1 := by
      apply UInt8.toNat_inj.mp; rw [← hlen1 a ha, ← hlen1 b hb, e1]
    have f2 : a.len2 = b.len2 := by
      apply UInt8.toNat_inj.mp; rw [← hlen2 a ha, ← hlen2 b hb, e2]
    have f0 : a.log = b.log := UInt8.toNat_inj.mp e0
    have g1 : a.bh1 = b.bh1 := by
      rw [valid_padded ha.b1, valid_padded hb.b1]; exact congrArg (fun l => padTo l FULL_SIZE 0) e1
    have g2 : a.bh2 = b.bh2 := by
      rw [valid_padded ha.b2, valid_padded hb.b2]; exact congrArg (fun l => padTo l s2 0) e2
    cases a; cases b; simp_all
  · intro h; rw [h]

/-- **C16 (hashing).** equal objects feed the hasher the same `write` calls (and conversely) -/
theorem eq_iff_hashwrites_eq (a b : FH) : FH.eq a b = true ↔ FH.hashWrites a = FH.hashWrites b := by
  rw [eq_unfold]
  unfold FH.hashWrites
  simp only [List.cons.injEq, and_true]
  constructor
  · rintro ⟨h1, h2, h3, h4, h5⟩; exact ⟨h3, h1, h2, h4, h5⟩
  · rintro ⟨h3, h1, h2, h4, h5⟩; exact ⟨h1, h2, h3, h4, h5⟩

/-- **C16 (total order).** `cmp` is a total order on valid hashes whose `Equal` coincides with `==` -/
theorem cmp_total_order (s2 : Nat) (norm : Bool) (a b c : FH)
    (ha : FH.Valid s2 norm a) (hb : FH.Valid s2 norm b) (hc : FH.Valid s2 norm c) :
    (FH.cmp a b = .eq ↔ FH.eq a b = true) ∧
    FH.cmp b a = (FH.cmp a b).swap ∧
    (FH.cmp a b = .lt → FH.cmp b c = .lt → FH.cmp a c = .lt) := by
  rw [cmp_is_lex s2 norm a b ha hb, cmp_is_lex s2 norm b a hb ha, cmp_is_lex s2 norm b c hb hc,
    cmp_is_lex s2 norm a c ha hc]
  have cl : ∀ x y : UInt8, compare x y = compare x.toNat y.toNat := u8_compare
  refine ⟨?_, ?_, ?_⟩
  · rw [(eq_iff s2 norm a b ha hb).1]
    simp only [Ordering.then_eq_eq, lex_eq_iff, FH.abs, Prod.mk.injEq, cl, Nat.compare_eq_eq]
  · rw [cl, cl, ← Nat.compare_swap a.log.toNat b.log.toNat, lex_swap a.blockHash1, lex_swap a.blockHash2]
    cases compare a.log.toNat b.log.toNat <;> cases lex a.blockHash1 b.blockHash1 <;>
      cases lex a.blockHash2 b.blockHash2 <;> rfl
  · rw [cl, cl, cl]
    intro h1 h2
    -- lexicographic composition of three transitive orders
    rcases Nat.lt_trichotomy a.log.toNat b.log.toNat with q | q | q
    · rcases Nat.lt_trichotomy b.log.toNat c.log.toNat with r | r | r
      · have : a.log.toNat < c.log.toNat := by omega
        simp [Nat.compare_eq_lt.mpr this]
      · have : a.log.toNat < c.log.toNat := by omega
        simp [Nat.compare_eq_lt.mpr this]
      · simp [Nat.compare_eq_gt.mpr r] at h2
    · rw [q] at h1 ⊢
      simp only [Nat.compare_eq_eq.mpr rfl, Ordering.eq_then] at h1
      rcases Nat.lt_trichotomy b.log.toNat c.log.toNat with r | r | r
      · simp [Nat.compare_eq_lt.mpr r]
      · rw [r] at h2 ⊢
        simp only [Nat.compare_eq_eq.mpr rfl, Ordering.eq_then] at h2 ⊢
        -- now on (bh1, bh2)
        cases e1 : lex a.blockHash1 b.blockHash1 with
        | gt => simp [e1] at h1
        | lt =>
          cases e2 : lex b.blockHash1 c.blockHash1 with
          | gt => simp [e2] at h2
          | lt => simp [lex_trans_lt _ _ _ e1 e2]
          | eq => rw [(lex_eq_iff _ _).mp e2] at e1; simp [e1]
        | eq =>
          rw [(lex_eq_iff _ _).mp e1]
          simp only [e1, Ordering.eq_then] at h1
          cases e2 : lex b.blockHash1 c.blockHash1 with
          | gt => simp [e2] at h2
          | lt => simp
          | eq =>
            simp only [e2, Ordering.eq_then] at h2 ⊢
            exact lex_trans_lt _ _ _ h1 h2
      · simp [Nat.compare_eq_gt.mpr r] at h2
    · simp [Nat.compare_eq_gt.mpr q] at h1

/-- **C16 (dual).** dual hashes with different normalised parts order exactly as those parts do;
    `Equal` of the dual order is structural equality of all three components -/
theorem dual_cmp_norm (a b : DH) :
    (FH.cmp a.norm b.norm ≠ .eq → DH.cmp a b = FH.cmp a.norm b.norm) ∧
    (DH.cmp b a = .eq ↔ DH.cmp a b = .eq) := by
  unfold DH.cmp
  refine ⟨?_, ?_⟩
  · intro h; cases e : FH.cmp a.norm b.norm <;> simp_all
  · simp only [Ordering.then_eq_eq]
    have sw : ∀ x y : List UInt8, FH.cmpBytes x y = .eq ↔ x = y := by
      intro x
      induction x with
      | nil => intro y; cases y <;> simp [FH.cmpBytes]
      | cons p ps ih =>
        intro y
        cases y with
        | nil => simp [FH.cmpBytes]
        | cons q qs =>
          simp only [FH.cmpBytes]
          by_cases h1 : p < q
          · simp [h1]; intro e; subst e; exact absurd h1 (UInt8.lt_irrefl _)
          · by_cases h2 : q < p
            · simp [h1, h2]; intro e; subst e; exact absurd h2 (UInt8.lt_irrefl _)
            · have : p = q := UInt8.le_antisymm (UInt8.not_lt.mp h2) (UInt8.not_lt.mp h1)
              subst this; simp [h1, ih]
    have fe : ∀ x y : FH, FH.cmp x y = .eq ↔ x = y := by
      intro x y
      unfold FH.cmp
      simp only [Ordering.then_eq_eq, sw]
      constructor
      · rintro ⟨h0, h1, h2, h3, h4⟩
        have ue : ∀ p q : UInt8, compare p q = .eq → p = q := by
          intro p q h; rw [u8_compare] at h; exact UInt8.toNat_inj.mp (Nat.compare_eq_eq.mp h)
        have e0 := ue _ _ h0
        have e2 := ue _ _ h2
        have e4 := ue _ _ h4
        cases x; cases y; simp_all
      · intro h; subst h; simp
    rw [fe, fe, sw, sw, sw, sw]
    constructor <;> (rintro ⟨h1, h2, h3⟩; exact ⟨h1.symm, h2.symm, h3.symm⟩)

/-- non-vacuity: the trailing-'A' corner — padded arrays equal, the length decides -/
example : lex [1] [1, 0] = .lt ∧ lex [1, 0, 5] [1] = .gt := by decide

end Ffuzzy.C16
