/-
  C02 — the similarity score equals the ssdeep score on every pair of well-formed hashes.
  Composition of C08 (bit-parallel edit distance = LCS distance), C09 (substring filter exact),
  the score arithmetic of C20 and the dispatch on the block-size relation.
-/
import FfuzzyProofs.Properties.C08
import FfuzzyProofs.Properties.C09
import FfuzzyProofs.Properties.C16
import FfuzzyProofs.Properties.C17
import FfuzzyProofs.Properties.C04
namespace Ffuzzy.C02
open Ffuzzy

theorem initFrom_new (a : List UInt8) (hlen : a.length ≤ 64) (hall : ∀ b ∈ a, b.toNat < 64) :
    PA.new.initFrom a = some (PA.new.initFromPartial a) := by
  have hall' : a.all (· < 64) = true := by
    simp only [List.all_eq_true, decide_eq_true_eq]
    intro b hb
    exact UInt8.lt_iff_toNat_lt.mpr (by simpa using hall b hb)
  simp [PA.initFrom, hlen, hall', PA.clearRepresentationOnly, PA.new]

/-- one block-hash pair: the position-array score is the specified pair score -/
theorem scoreStrings_eq_spec (a b : List UInt8) (k : Nat) (hlen : a.length ≤ 64) (hall : ∀ x ∈ a, x.toNat < 64) :
    (PA.new.initFromPartial a).scoreStringsInternal b k = Spec.scorePair a b k := by
  obtain ⟨q, hq, he⟩ := C08.editDistance_eq_lcs PA.new a b hlen hall
  obtain ⟨q', hq', hc⟩ := C09.hasCommonSubstring_eq_spec PA.new a b hlen hall
  obtain ⟨q'', hq'', _, hl, _⟩ := PosInit.initFrom_spec PA.new a hlen hall
  rw [initFrom_new a hlen hall] at hq hq' hq''
  have e1 := Option.some.inj hq
  have e2 := Option.some.inj hq'
  have e3 := Option.some.inj hq''
  subst e1
  rw [← e2] at hc
  rw [← e3] at hl
  unfold PA.scoreStringsInternal PA.scoreStringsRawInternal Spec.scorePair Spec.scorePairWith
  simp only
  rw [hc, he, hl]
  unfold PA.rawScoreByEditDistanceInternal PA.scoreCapInternal PA.CAPPING_BORDER FULL_SIZE Spec.editDistance
  cases hcm : Spec.common7 a b
  · simp only [Bool.not_false, if_true]
    split
    · rfl
    · exact Nat.zero_min _
  · simp only [Bool.not_true, Bool.false_eq_true, if_false]
    by_cases hk : k ≥ 4
    · have : ¬ k < 4 := by omega
      simp only [hk, if_true, this, if_false]
      rw [Nat.mul_comm _ 64]
    · have : k < 4 := by omega
      simp only [hk, if_false, this, if_true, Nat.shiftLeft_eq, Nat.one_mul]
      rw [Nat.mul_comm _ 64]

theorem valid_bh1 {s2 : Nat} {norm : Bool} {h : FH} (hv : FH.Valid s2 norm h) :
    h.blockHash1.length ≤ 64 ∧ ∀ x ∈ h.blockHash1, x.toNat < 64 := by
  refine ⟨?_, ?_⟩
  · have := hv.b1.len_le; simp [FH.blockHash1, FULL_SIZE] at *; omega
  · intro x hx
    have := hv.b1.sym x hx
    exact UInt8.lt_iff_toNat_lt.mp this

theorem valid_bh2 {s2 : Nat} {norm : Bool} {h : FH} (hs2 : s2 ≤ 64) (hv : FH.Valid s2 norm h) :
    h.blockHash2.length ≤ 64 ∧ ∀ x ∈ h.blockHash2, x.toNat < 64 := by
  refine ⟨?_, ?_⟩
  · have := hv.b2.len_le; simp [FH.blockHash2] at *; omega
  · intro x hx
    have := hv.b2.sym x hx
    exact UInt8.lt_iff_toNat_lt.mp this

theorem compareSizes_cases (l r : UInt8) :
    (BlockSize.compareSizes l r = .nearEq ↔ l.toNat = r.toNat) ∧
    (BlockSize.compareSizes l r = .nearLt ↔ l.toNat + 1 = r.toNat) ∧
    (BlockSize.compareSizes l r = .nearGt ↔ l.toNat = r.toNat + 1) ∧
    (BlockSize.compareSizes l r = .far ↔ (l.toNat ≠ r.toNat ∧ l.toNat + 1 ≠ r.toNat ∧ l.toNat ≠ r.toNat + 1)) := by
  unfold BlockSize.compareSizes
  simp only [beq_iff_eq]
  by_cases h1 : (l.toNat : Int) - (r.toNat : Int) = -1
  · rw [if_pos h1]
    refine ⟨?_, ?_, ?_, ?_⟩ <;> constructor <;> intro h <;> first | omega | rfl | (cases h)
  · rw [if_neg h1]
    by_cases h2 : (l.toNat : Int) - (r.toNat : Int) = 0
    · rw [if_pos h2]
      refine ⟨?_, ?_, ?_, ?_⟩ <;> constructor <;> intro h <;> first | omega | rfl | (cases h)
    · rw [if_neg h2]
      by_cases h3 : (l.toNat : Int) - (r.toNat : Int) = 1
      · rw [if_pos h3]
        refine ⟨?_, ?_, ?_, ?_⟩ <;> constructor <;> intro h <;> first | omega | rfl | (cases h)
      · rw [if_neg h3]
        refine ⟨?_, ?_, ?_, ?_⟩ <;> constructor <;> intro h <;> first | omega | rfl | (cases h)

/-- the specified score of two hash objects -/
def specScore (a b : FH) : Nat :=
  Spec.score a.log.toNat a.blockHash1 a.blockHash2 b.log.toNat b.blockHash1 b.blockHash2

/-- **C02 (hash-to-hash).** `FuzzyHashData::compare` returns the ssdeep score on every pair of valid
    (normalised) hashes of one type -/
theorem compare_eq_spec (s2 : Nat) (hs2 : s2 ≤ 64) (a b : FH) (ha : FH.Valid s2 true a) (hb : FH.Valid s2 true b) :
    FH.compare a b = specScore a b := by
  obtain ⟨ha1, ha1s⟩ := valid_bh1 ha
  obtain ⟨ha2, ha2s⟩ := valid_bh2 hs2 ha
  have heq := (C16.eq_iff s2 true a b ha hb).1
  have hcs := compareSizes_cases a.log b.log
  have tarr := C17.target_arrays Target.new a
  have tfrom : Target.new.initFrom a = Target.fromHash a := C17.target_initFrom_history_indep _ a
  rw [tfrom] at tarr
  have hlog : (Target.fromHash a).log = a.log := rfl
  unfold FH.compare FH.compareOptimized specScore Spec.score Spec.scoreWith
  cases hr : BlockSize.compareSizes a.log b.log with
  | nearEq =>
    have hk := hcs.1.mp hr
    simp only
    by_cases he : FH.eq a b = true
    · have := heq.mp he
      unfold FH.abs at this
      simp only [Prod.mk.injEq] at this
      rw [if_pos this]
      simp [he]
    · have hne : ¬ (a.log.toNat = b.log.toNat ∧ a.blockHash1 = b.blockHash1 ∧ a.blockHash2 = b.blockHash2) := by
        intro hh
        apply he
        apply heq.mpr
        unfold FH.abs
        simp [hh.1, hh.2.1, hh.2.2]
      rw [if_neg hne, if_pos hk]
      simp only [he, Bool.and_false, Bool.false_eq_true, if_false]
      unfold Target.compareUnequalNearEq
      rw [tarr.1, tarr.2, scoreStrings_eq_spec _ _ _ ha1 ha1s, scoreStrings_eq_spec _ _ _ ha2 ha2s, hlog]
      rfl
  | nearLt =>
    have hk := hcs.2.1.mp hr
    have h1 : ¬ (a.log.toNat = b.log.toNat ∧ a.blockHash1 = b.blockHash1 ∧ a.blockHash2 = b.blockHash2) := by omega
    have h2 : ¬ a.log.toNat = b.log.toNat := by omega
    rw [if_neg h1, if_neg h2, if_pos hk]
    exact scoreStrings_eq_spec _ _ _ ha2 ha2s
  | nearGt =>
    have hk := hcs.2.2.1.mp hr
    have h1 : ¬ (a.log.toNat = b.log.toNat ∧ a.blockHash1 = b.blockHash1 ∧ a.blockHash2 = b.blockHash2) := by omega
    have h2 : ¬ a.log.toNat = b.log.toNat := by omega
    have h3 : ¬ a.log.toNat + 1 = b.log.toNat := by omega
    rw [if_neg h1, if_neg h2, if_neg h3, if_pos hk]
    exact scoreStrings_eq_spec _ _ _ ha1 ha1s
  | far =>
    have hk := hcs.2.2.2.mp hr
    have h1 : ¬ (a.log.toNat = b.log.toNat ∧ a.blockHash1 = b.blockHash1 ∧ a.blockHash2 = b.blockHash2) := by omega
    rw [if_neg h1, if_neg hk.1, if_neg hk.2.1, if_neg hk.2.2]

/-- **C02 (reusable target).** `FuzzyHashCompareTarget::compare` returns the same score -/
theorem target_compare_eq_spec (s2 : Nat) (hs2 : s2 ≤ 64) (a b : FH) (ha : FH.Valid s2 true a) (hb : FH.Valid s2 true b) :
    (Target.fromHash a).compare b = specScore a b := by
  rw [← compare_eq_spec s2 hs2 a b ha hb]
  have hcs := compareSizes_cases a.log b.log
  have hlog : (Target.fromHash a).log = a.log := rfl
  have tfrom : Target.new.initFrom a = Target.fromHash a := C17.target_initFrom_history_indep _ a
  have hequiv := C17.target_isEquiv_iff s2 Target.new a b hs2 ha hb
  rw [tfrom] at hequiv
  have heq := (C16.eq_iff s2 true a b ha hb).1
  unfold Target.compare FH.compare FH.compareOptimized
  rw [hlog]
  cases hr : BlockSize.compareSizes a.log b.log with
  | nearEq =>
    have hk := hcs.1.mp hr
    have hk' : a.log = b.log := UInt8.toNat_inj.mp hk
    simp only
    unfold Target.compareNearEq
    have e1 : (Target.fromHash a).isEquivExceptBlockSize b = (Target.fromHash a).isEquiv b := by
      unfold Target.isEquiv
      rw [hlog, hk']; simp
    have e2 : (Target.fromHash a).isEquiv b = FH.eq a b := by
      cases h1 : (Target.fromHash a).isEquiv b <;> cases h2 : FH.eq a b
      · rfl
      · have := hequiv.mpr (heq.mp h2).symm; rw [h1] at this; exact absurd this (by simp)
      · have := heq.mpr (hequiv.mp h1).symm; rw [h2] at this; exact absurd this (by simp)
      · rfl
    rw [e1, e2]
    simp
  | nearLt =>
    simp only
    unfold Target.compareUnequalNearLt
    have tarr := C17.target_arrays Target.new a
    rw [tfrom] at tarr
    rw [tarr.2]
  | nearGt =>
    simp only
    unfold Target.compareUnequalNearGt
    have tarr := C17.target_arrays Target.new a
    rw [tfrom] at tarr
    rw [tarr.1, hlog]
  | far => rfl

/-- …after any history of re-initialisations of the target (C17) -/
theorem target_history_compare_eq_spec (s2 : Nat) (hs2 : s2 ≤ 64) (ops : List C17.TgtOp) (a b : FH)
    (ha : FH.Valid s2 true a) (hb : FH.Valid s2 true b) :
    ((C17.tgtRun Target.new ops).initFrom a).compare b = specScore a b := by
  rw [C17.target_initFrom_history_indep]
  exact target_compare_eq_spec s2 hs2 a b ha hb

/-- **C02 (string front end).** `compare(&str, &str)` parses both operands as long hashes and returns
    the hash-to-hash score of the parsed objects (errors carry the failing side) -/
theorem compareEasy_eq (cfg : Cfg) (l r : List UInt8) (a b : FH) (n1 n2 : Nat)
    (hl : FH.parse cfg FULL_SIZE true l = .ok (a, n1)) (hr : FH.parse cfg FULL_SIZE true r = .ok (b, n2)) :
    compareEasy cfg l r = .ok (FH.compare a b) := by
  unfold compareEasy; rw [hl, hr]

/-- **C02 (string front end, full).** on every pair of texts: an error naming the failing side when
    one does not parse, otherwise the specified score of the two parsed (valid, normalised) long hashes -/
theorem compareEasy_eq_spec (cfg : Cfg) (l r : List UInt8) :
    (∃ e, compareEasy cfg l r = .error e) ∨
    (∃ a b n1 n2, FH.parse cfg FULL_SIZE true l = .ok (a, n1) ∧ FH.parse cfg FULL_SIZE true r = .ok (b, n2) ∧
      FH.Valid FULL_SIZE true a ∧ FH.Valid FULL_SIZE true b ∧ compareEasy cfg l r = .ok (specScore a b)) := by
  rcases C04.parse_total cfg FULL_SIZE true l (by decide) with ⟨e, he⟩ | ⟨a, n1, ha, hva⟩
  · left; exact ⟨(false, e), by unfold compareEasy; rw [he]⟩
  · rcases C04.parse_total cfg FULL_SIZE true r (by decide) with ⟨e, he⟩ | ⟨b, n2, hb, hvb⟩
    · left; exact ⟨(true, e), by unfold compareEasy; rw [ha, he]⟩
    · right
      refine ⟨a, b, n1, n2, ha, hb, hva, hvb, ?_⟩
      rw [compareEasy_eq cfg l r a b n1 n2 ha hb, compare_eq_spec FULL_SIZE (by decide) a b hva hvb]

/-- non-vacuity: two concrete valid hashes with a non-trivial score -/
example : ∃ a b : FH, FH.Valid 32 true a ∧ FH.Valid 32 true b ∧ FH.compare a b = specScore a b :=
  let a : FH := { bh1 := padTo [1, 2, 3, 4, 5, 6, 7, 8] 64 0, bh2 := padTo [] 32 0, len1 := 8, len2 := 0, log := 3 }
  let b : FH := { bh1 := padTo [9, 1, 2, 3, 4, 5, 6, 7] 64 0, bh2 := padTo [] 32 0, len1 := 8, len2 := 0, log := 3 }
  have ha : FH.Valid 32 true a := (FH.isValid_iff 32 true a (by decide) (by decide)).mp (by decide)
  have hb : FH.Valid 32 true b := (FH.isValid_iff 32 true b (by decide) (by decide)).mp (by decide)
  ⟨a, b, ha, hb, compare_eq_spec 32 (by omega) a b ha hb⟩

end Ffuzzy.C02
