/-
  C01, full strength: the generator returns the declarative ssdeep CTPH digest of `Spec/Ctph.lean`
  (cut positions from the closed-form rolling value, 32-bit FNV-1 piece hashes, piece limits,
  block size from the input size and the piece counts) for every input.
-/
import FfuzzyProofs.Properties.C01
import FfuzzyProofs.Decl.Main
namespace Ffuzzy.C01
open Ffuzzy Ffuzzy.Spec

/-- **C01.** every finalisation form returns the declarative CTPH digest -/
theorem generator_eq_ctph (bs : List UInt8) (trunc : Bool) (s2 : Nat) (hs2 : s2 = 32 ∨ s2 = 64) :
    (Gen.new.update bs).finalizeRaw trunc s2 = Spec.digest bs trunc s2 := by
  rw [generator_eq_reference bs trunc s2 hs2, Decl.naive_eq_declarative bs trunc s2 hs2]

theorem finalize_eq_ctph (bs : List UInt8) : (Gen.new.update bs).finalize = Spec.digest bs true 32 :=
  generator_eq_ctph bs true 32 (Or.inl rfl)

theorem finalizeWithoutTruncation_eq_ctph (bs : List UInt8) :
    (Gen.new.update bs).finalizeWithoutTruncation = Spec.digest bs false 64 :=
  generator_eq_ctph bs false 64 (Or.inr rfl)

theorem hashBuf_eq_ctph (bs : List UInt8) (hlen : bs.length ≤ Gen.MAX_INPUT_SIZE) :
    Gen.hashBuf bs = Spec.digest bs true 32 := by
  rw [hashBuf_eq_reference bs hlen, Decl.naive_eq_declarative bs true 32 (Or.inl rfl)]

end Ffuzzy.C01
