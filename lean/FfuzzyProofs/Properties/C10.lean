/-
  C10 — score laws and the candidate pre-filter.
  Laws are proved for the specified score `Spec.score` and transferred to the model's
  `FuzzyHashData::compare` / `FuzzyHashCompareTarget` by C02.
-/
import FfuzzyProofs.Properties.C02
import FfuzzyProofs.Windows
namespace Ffuzzy.C10
open Ffuzzy Ffuzzy.Spec

theorem Common7_symm (a b : List UInt8) : C09.Common7 a b ↔ C09.Common7 b a := by
  constructor <;> rintro ⟨i, j, hi, hj, h⟩ <;> exact ⟨j, i, hj, hi, fun t ht => (h t ht).symm⟩

theorem common7_symm (a b : List UInt8) : common7 a b = common7 b a := by
  have h1 := C09.common7_iff a b
  have h2 := C09.common7_iff b a
  have h3 := Common7_symm a b
  cases e1 : common7 a b <;> cases e2 : common7 b a <;> simp_all

/-- a common 7-symbol substring is a common subsequence -/
theorem common7_lcs (a b : List UInt8) (h : C09.Common7 a b) : 7 ≤ lcs a b := by
  obtain ⟨i, j, hi, hj, he⟩ := h
  have hw : (a.drop i).take 7 = (b.drop j).take 7 := by
    apply List.ext_getElem?
    intro t
    by_cases ht : t < 7
    · simp only [List.getElem?_take, ht, if_true, List.getElem?_drop]; exact he t ht
    · simp [List.getElem?_take, ht]
  have s1 : ((a.drop i).take 7).Sublist a := (List.take_sublist _ _).trans (List.drop_sublist _ _)
  have s2 : ((a.drop i).take 7).Sublist b := by rw [hw]; exact (List.take_sublist _ _).trans (List.drop_sublist _ _)
  have := lcs_ub a b _ s1 s2
  simp only [List.length_take, List.length_drop] at this
  omega

theorem common7_len (a b : List UInt8) (h : C09.Common7 a b) : 7 ≤ a.length ∧ 7 ≤ b.length := by
  obtain ⟨i, j, hi, hj, _⟩ := h; omega

theorem scorePair_symm (x y : List UInt8) (k : Nat) : scorePair x y k = scorePair y x k := by
  unfold scorePair scorePairWith editDistance
  rw [common7_symm x y, lcs_comm x y, Nat.add_comm x.length y.length, Nat.min_comm x.length y.length]

theorem scorePair_le (x y : List UInt8) (k : Nat) : scorePair x y k ≤ 100 := by
  unfold scorePair scorePairWith
  simp only
  split
  · omega
  · split
    · exact Nat.le_trans (Nat.min_le_left _ _) (Nat.sub_le _ _)
    · exact Nat.sub_le _ _

theorem scorePair_zero (x y : List UInt8) (k : Nat) (h : common7 x y = false) : scorePair x y k = 0 := by
  unfold scorePair scorePairWith; simp [h]

theorem scorePair_pos (x y : List UInt8) (k : Nat) (h : common7 x y = true) : 1 ≤ scorePair x y k := by
  have hc := (C09.common7_iff x y).mp h
  have hl := common7_lcs x y hc
  have ⟨h1, h2⟩ := common7_len x y hc
  have l1 := lcs_le_left x y
  have l2 := lcs_le_right x y
  unfold scorePair scorePairWith editDistance
  simp only [h, Bool.not_true, Bool.false_eq_true, if_false]
  have hq : 64 * (x.length + y.length - 2 * lcs x y) / (x.length + y.length) ≤ 63 := by
    have hpos : 0 < x.length + y.length := by omega
    have : 64 * (x.length + y.length - 2 * lcs x y) < 64 * (x.length + y.length) := by omega
    have := (Nat.div_lt_iff_lt_mul hpos).mpr this
    omega
  have hraw : 1 ≤ 100 - 100 * (64 * (x.length + y.length - 2 * lcs x y) / (x.length + y.length)) / 64 := by
    have : 100 * (64 * (x.length + y.length - 2 * lcs x y) / (x.length + y.length)) / 64 ≤ 100 * 63 / 64 :=
      Nat.div_le_div_right (Nat.mul_le_mul_left _ hq)
    omega
  split
  · have hp := Nat.two_pow_pos k
    have hm : 7 ≤ min x.length y.length := by omega
    have : 1 ≤ 2 ^ k * min x.length y.length := by
      calc 1 ≤ 1 * 7 := by omega
        _ ≤ 2 ^ k * min x.length y.length := Nat.mul_le_mul hp hm
    omega
  · exact hraw

/-- the candidate relation the pre-filter implements, on the specification level -/
def candSpec (ka : Nat) (a1 a2 : List UInt8) (kb : Nat) (b1 b2 : List UInt8) : Bool :=
  if ka = kb then common7 a1 b1 || common7 a2 b2
  else if ka + 1 = kb then common7 a2 b1
  else if ka = kb + 1 then common7 a1 b2
  else false

/-- **C10 (range).** -/
theorem score_le_100 (ka : Nat) (a1 a2 : List UInt8) (kb : Nat) (b1 b2 : List UInt8) :
    score ka a1 a2 kb b1 b2 ≤ 100 := by
  unfold score scoreWith
  have := scorePair_le
  unfold scorePair at this
  repeat' split
  all_goals first | omega | exact this _ _ _ | exact Nat.max_le.mpr ⟨this _ _ _, this _ _ _⟩

/-- **C10 (symmetry).** -/
theorem score_symm (ka : Nat) (a1 a2 : List UInt8) (kb : Nat) (b1 b2 : List UInt8) :
    score ka a1 a2 kb b1 b2 = score kb b1 b2 ka a1 a2 := by
  have hs := scorePair_symm
  unfold scorePair at hs
  unfold score scoreWith
  by_cases e : ka = kb ∧ a1 = b1 ∧ a2 = b2
  · have e' : kb = ka ∧ b1 = a1 ∧ b2 = a2 := ⟨e.1.symm, e.2.1.symm, e.2.2.symm⟩
    rw [if_pos e, if_pos e']
  · have e' : ¬ (kb = ka ∧ b1 = a1 ∧ b2 = a2) := fun h => e ⟨h.1.symm, h.2.1.symm, h.2.2.symm⟩
    rw [if_neg e, if_neg e']
    by_cases h1 : ka = kb
    · rw [if_pos h1, if_pos h1.symm, hs a1 b1, hs a2 b2, h1]
    · have h1' : ¬ kb = ka := fun h => h1 h.symm
      rw [if_neg h1, if_neg h1']
      by_cases h2 : ka + 1 = kb
      · have h3 : ¬ kb + 1 = ka := by omega
        have h4 : kb = ka + 1 := by omega
        rw [if_pos h2, if_neg h3, if_pos h4, hs a2 b1]
      · rw [if_neg h2]
        by_cases h3 : ka = kb + 1
        · have h4 : kb + 1 = ka := by omega
          rw [if_pos h3, if_pos h4, hs a1 b2]
        · have h4 : ¬ kb + 1 = ka := by omega
          have h5 : ¬ kb = ka + 1 := by omega
          rw [if_neg h3, if_neg h4, if_neg h5]

/-- **C10 (identity).** -/
theorem score_self (k : Nat) (a1 a2 : List UInt8) : score k a1 a2 k a1 a2 = 100 := by
  unfold score scoreWith; simp

/-- **C10 (far block sizes).** -/
theorem score_far (ka : Nat) (a1 a2 : List UInt8) (kb : Nat) (b1 b2 : List UInt8)
    (h : ka + 1 < kb ∨ kb + 1 < ka) : score ka a1 a2 kb b1 b2 = 0 := by
  unfold score scoreWith
  have h1 : ¬ (ka = kb ∧ a1 = b1 ∧ a2 = b2) := by omega
  have h2 : ¬ ka = kb := by omega
  have h3 : ¬ ka + 1 = kb := by omega
  have h4 : ¬ ka = kb + 1 := by omega
  rw [if_neg h1, if_neg h2, if_neg h3, if_neg h4]

/-- **C10 (candidates).** the score is non-zero exactly when the hashes are equal or the candidate
    test holds -/
theorem score_ne_zero_iff (ka : Nat) (a1 a2 : List UInt8) (kb : Nat) (b1 b2 : List UInt8) :
    score ka a1 a2 kb b1 b2 ≠ 0 ↔ ((ka = kb ∧ a1 = b1 ∧ a2 = b2) ∨ candSpec ka a1 a2 kb b1 b2 = true) := by
  have hp := scorePair_pos
  have hz := scorePair_zero
  unfold scorePair at hp hz
  unfold score scoreWith candSpec
  by_cases e : ka = kb ∧ a1 = b1 ∧ a2 = b2
  · rw [if_pos e]; simp [e]
  · rw [if_neg e]
    simp only [e, false_or]
    by_cases h1 : ka = kb
    · rw [if_pos h1, if_pos h1]
      cases c1 : common7 a1 b1 <;> cases c2 : common7 a2 b2
      · rw [hz _ _ _ c1, hz _ _ _ c2]; simp
      · have := hp _ _ (ka + 1) c2; simp; omega
      · have := hp _ _ ka c1; simp; omega
      · have := hp _ _ ka c1; simp; omega
    · rw [if_neg h1, if_neg h1]
      by_cases h2 : ka + 1 = kb
      · rw [if_pos h2, if_pos h2]
        cases c : common7 a2 b1
        · rw [hz _ _ _ c]; simp
        · have := hp _ _ kb c; simp; omega
      · rw [if_neg h2, if_neg h2]
        by_cases h3 : ka = kb + 1
        · rw [if_pos h3, if_pos h3]
          cases c : common7 a1 b2
          · rw [hz _ _ _ c]; simp
          · have := hp _ _ ka c; simp; omega
        · rw [if_neg h3, if_neg h3]; simp

/-! ### transfer to the model -/

/-- the model's candidate test is the specified candidate relation -/
theorem candidate_eq_spec (s2 : Nat) (hs2 : s2 ≤ 64) (a b : FH) (ha : FH.Valid s2 true a) :
    (Target.fromHash a).isComparisonCandidate b =
      candSpec a.log.toNat a.blockHash1 a.blockHash2 b.log.toNat b.blockHash1 b.blockHash2 := by
  obtain ⟨ha1, ha1s⟩ := C02.valid_bh1 ha
  obtain ⟨ha2, ha2s⟩ := C02.valid_bh2 hs2 ha
  have hcs := C02.compareSizes_cases a.log b.log
  have tarr := C17.target_arrays Target.new a
  have tfrom : Target.new.initFrom a = Target.fromHash a := C17.target_initFrom_history_indep _ a
  rw [tfrom] at tarr
  have hlog : (Target.fromHash a).log = a.log := rfl
  have cs : ∀ (x y : List UInt8), x.length ≤ 64 → (∀ c ∈ x, c.toNat < 64) →
      (PA.new.initFromPartial x).hasCommonSubstringInternal y = common7 x y := by
    intro x y hx hxs
    obtain ⟨q, hq, hc⟩ := C09.hasCommonSubstring_eq_spec PA.new x y hx hxs
    rw [C02.initFrom_new x hx hxs] at hq
    rw [Option.some.inj hq]; exact hc
  unfold Target.isComparisonCandidate candSpec
  rw [hlog, tarr.1, tarr.2]
  cases hr : BlockSize.compareSizes a.log b.log with
  | nearEq =>
    have hk := hcs.1.mp hr
    simp only
    rw [if_pos hk, cs _ _ ha1 ha1s, cs _ _ ha2 ha2s]
  | nearLt =>
    have hk := hcs.2.1.mp hr
    simp only
    rw [if_neg (by omega), if_pos hk, cs _ _ ha2 ha2s]
  | nearGt =>
    have hk := hcs.2.2.1.mp hr
    simp only
    rw [if_neg (by omega), if_neg (by omega), if_pos hk, cs _ _ ha1 ha1s]
  | far =>
    have hk := hcs.2.2.2.mp hr
    simp only
    rw [if_neg hk.1, if_neg hk.2.1, if_neg hk.2.2]

/-- **C10 (model).** all score laws for `compare` on valid normalised hashes -/
theorem compare_laws (s2 : Nat) (hs2 : s2 ≤ 64) (a b : FH) (ha : FH.Valid s2 true a) (hb : FH.Valid s2 true b) :
    FH.compare a b ≤ 100 ∧ FH.compare a b = FH.compare b a ∧ FH.compare a a = 100 ∧
    ((a.log.toNat + 1 < b.log.toNat ∨ b.log.toNat + 1 < a.log.toNat) → FH.compare a b = 0) ∧
    (FH.compare a b ≠ 0 ↔ (FH.eq a b = true ∨ (Target.fromHash a).isComparisonCandidate b = true)) := by
  rw [C02.compare_eq_spec s2 hs2 a b ha hb, C02.compare_eq_spec s2 hs2 b a hb ha, C02.compare_eq_spec s2 hs2 a a ha ha,
    candidate_eq_spec s2 hs2 a b ha]
  unfold C02.specScore
  refine ⟨score_le_100 _ _ _ _ _ _, score_symm _ _ _ _ _ _, score_self _ _ _, score_far _ _ _ _ _ _, ?_⟩
  rw [score_ne_zero_iff]
  have heq := (C16.eq_iff s2 true a b ha hb).1
  have : (a.log.toNat = b.log.toNat ∧ a.blockHash1 = b.blockHash1 ∧ a.blockHash2 = b.blockHash2) ↔ FH.eq a b = true := by
    rw [heq]; unfold FH.abs; simp
  rw [this]

/-! ### windows -/

theorem inter_iff_common7 (a b : List UInt8) (ka kb : UInt8) (ha : ∀ x ∈ a, x.toNat < 64) (hb : ∀ x ∈ b, x.toNat < 64)
    (hka : ka.toNat < 32) (hkb : kb.toNat < 32) :
    (∃ x, x ∈ indexWindows a ka ∧ x ∈ indexWindows b kb) ↔ (ka.toNat = kb.toNat ∧ common7 a b = true) := by
  rw [Windows.index_inter_iff a b ka kb ha hb hka hkb, C09.common7_iff]
  unfold C09.Common7
  constructor
  · rintro ⟨h1, h2⟩; exact ⟨by rw [h1], h2⟩
  · rintro ⟨h1, h2⟩; exact ⟨UInt8.toNat_inj.mp h1, h2⟩

/-- **C10 (windows).** the candidate relation holds exactly when the index-window sets of the two
    hashes (block hash 1 at the block size index, block hash 2 at the index plus one — 31 for the
    largest block size) intersect -/
theorem candidate_iff_windows (ka kb : UInt8) (a1 a2 b1 b2 : List UInt8)
    (h1 : ∀ x ∈ a1, x.toNat < 64) (h2 : ∀ x ∈ a2, x.toNat < 64)
    (h3 : ∀ x ∈ b1, x.toNat < 64) (h4 : ∀ x ∈ b2, x.toNat < 64)
    (hka : ka.toNat < 31) (hkb : kb.toNat < 31) :
    candSpec ka.toNat a1 a2 kb.toNat b1 b2 = true ↔
      ∃ x, x ∈ indexWindows a1 ka ++ indexWindows a2 (ka + 1) ∧ x ∈ indexWindows b1 kb ++ indexWindows b2 (kb + 1) := by
  have ea : (ka + 1).toNat = ka.toNat + 1 := by
    rw [UInt8.toNat_add]; show (ka.toNat + 1) % 256 = _; omega
  have eb : (kb + 1).toNat = kb.toNat + 1 := by
    rw [UInt8.toNat_add]; show (kb.toNat + 1) % 256 = _; omega
  have i11 := inter_iff_common7 a1 b1 ka kb h1 h3 (by omega) (by omega)
  have i12 := inter_iff_common7 a1 b2 ka (kb + 1) h1 h4 (by omega) (by omega)
  have i21 := inter_iff_common7 a2 b1 (ka + 1) kb h2 h3 (by omega) (by omega)
  have i22 := inter_iff_common7 a2 b2 (ka + 1) (kb + 1) h2 h4 (by omega) (by omega)
  rw [ea] at i21 i22
  rw [eb] at i12 i22
  have split : (∃ x, x ∈ indexWindows a1 ka ++ indexWindows a2 (ka + 1) ∧ x ∈ indexWindows b1 kb ++ indexWindows b2 (kb + 1)) ↔
      ((∃ x, x ∈ indexWindows a1 ka ∧ x ∈ indexWindows b1 kb) ∨ (∃ x, x ∈ indexWindows a1 ka ∧ x ∈ indexWindows b2 (kb + 1)) ∨
       (∃ x, x ∈ indexWindows a2 (ka + 1) ∧ x ∈ indexWindows b1 kb) ∨ (∃ x, x ∈ indexWindows a2 (ka + 1) ∧ x ∈ indexWindows b2 (kb + 1))) := by
    simp only [List.mem_append]
    constructor
    · rintro ⟨x, hx1 | hx1, hx2 | hx2⟩
      · exact Or.inl ⟨x, hx1, hx2⟩
      · exact Or.inr (Or.inl ⟨x, hx1, hx2⟩)
      · exact Or.inr (Or.inr (Or.inl ⟨x, hx1, hx2⟩))
      · exact Or.inr (Or.inr (Or.inr ⟨x, hx1, hx2⟩))
    · rintro (⟨x, a, b⟩ | ⟨x, a, b⟩ | ⟨x, a, b⟩ | ⟨x, a, b⟩)
      · exact ⟨x, Or.inl a, Or.inl b⟩
      · exact ⟨x, Or.inl a, Or.inr b⟩
      · exact ⟨x, Or.inr a, Or.inl b⟩
      · exact ⟨x, Or.inr a, Or.inr b⟩
  rw [split, i11, i12, i21, i22]
  unfold candSpec
  by_cases e1 : ka.toNat = kb.toNat
  · rw [if_pos e1]
    simp only [Bool.or_eq_true]
    constructor
    · rintro (h | h)
      · exact Or.inl ⟨e1, h⟩
      · exact Or.inr (Or.inr (Or.inr ⟨by omega, h⟩))
    · rintro (⟨_, h⟩ | ⟨h, _⟩ | ⟨h, _⟩ | ⟨_, h⟩)
      · exact Or.inl h
      · omega
      · omega
      · exact Or.inr h
  · rw [if_neg e1]
    by_cases e2 : ka.toNat + 1 = kb.toNat
    · rw [if_pos e2]
      constructor
      · intro h; exact Or.inr (Or.inr (Or.inl ⟨e2, h⟩))
      · rintro (⟨h, _⟩ | ⟨h, _⟩ | ⟨_, h⟩ | ⟨h, _⟩)
        · omega
        · omega
        · exact h
        · omega
    · rw [if_neg e2]
      by_cases e3 : ka.toNat = kb.toNat + 1
      · rw [if_pos e3]
        constructor
        · intro h; exact Or.inr (Or.inl ⟨e3, h⟩)
        · rintro (⟨h, _⟩ | ⟨_, h⟩ | ⟨h, _⟩ | ⟨h, _⟩)
          · omega
          · exact h
          · omega
          · omega
      · rw [if_neg e3]
        constructor
        · intro h; exact absurd h (by simp)
        · rintro (⟨h, _⟩ | ⟨h, _⟩ | ⟨h, _⟩ | ⟨h, _⟩) <;> omega

end Ffuzzy.C10
