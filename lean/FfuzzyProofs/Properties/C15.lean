/-
  C15 — Conversions between hash variants commute and lose nothing (plain variants;
  the dual edges are in `Properties/C07.lean`).
-/
import FfuzzyProofs.Properties.C06
import FfuzzyProofs.Properties.C16
namespace Ffuzzy.C15
open Ffuzzy Ffuzzy.Spec

theorem setSlice_zero_replicate (x : List UInt8) (n : Nat) (h : x.length ≤ n) :
    setSlice (List.replicate n (0 : UInt8)) 0 x = x ++ List.replicate (n - x.length) 0 := by
  simp [setSlice, List.drop_replicate]

/-- widening keeps the content and yields a valid long hash -/
theorem toLongForm_spec (norm : Bool) (h : FH) (hv : FH.Valid 32 norm h) :
    FH.Valid 64 norm (FH.toLongForm h) ∧ FH.abs (FH.toLongForm h) = FH.abs h := by
  have hl : h.bh2.length = 32 := hv.b2.arr
  have e : (FH.toLongForm h).bh2 = h.bh2 ++ List.replicate 32 0 := by
    show setSlice (List.replicate FULL_SIZE 0) 0 h.bh2 = _
    rw [setSlice_zero_replicate h.bh2 FULL_SIZE (by simp [hl, FULL_SIZE]), hl]
    rfl
  have hle := hv.b2.len_le
  refine ⟨⟨hv.log, hv.b1, ?_⟩, ?_⟩
  · refine ⟨by rw [e]; simp [hl], by simp [FH.toLongForm]; omega, ?_, ?_, ?_⟩
    · intro x hx
      simp only [FH.toLongForm] at hx ⊢
      rw [show (setSlice (List.replicate FULL_SIZE 0) 0 h.bh2) = h.bh2 ++ List.replicate 32 0 from e] at hx
      rw [List.take_append_of_le_length (by omega)] at hx
      exact hv.b2.sym x hx
    · intro x hx
      simp only [FH.toLongForm] at hx
      rw [show (setSlice (List.replicate FULL_SIZE 0) 0 h.bh2) = h.bh2 ++ List.replicate 32 0 from e] at hx
      rw [List.drop_append_of_le_length (by omega)] at hx
      rcases List.mem_append.mp hx with h1 | h1
      · exact hv.b2.tail x h1
      · exact (List.mem_replicate.mp h1).2
    · intro hn
      simp only [FH.toLongForm]
      rw [show (setSlice (List.replicate FULL_SIZE 0) 0 h.bh2) = h.bh2 ++ List.replicate 32 0 from e]
      rw [List.take_append_of_le_length (by omega)]
      exact hv.b2.norm hn
  · simp only [FH.abs, FH.blockHash1, FH.blockHash2, FH.toLongForm, Prod.mk.injEq, true_and]
    rw [show (setSlice (List.replicate FULL_SIZE 0) 0 h.bh2) = h.bh2 ++ List.replicate 32 0 from e]
    rw [List.take_append_of_le_length (by omega)]

/-- **C15.** narrowing fails exactly when block hash 2 is longer than 32 symbols (the destination is
    then left untouched: the model returns no new object); otherwise it keeps the content -/
theorem tryIntoMutShort_spec (norm : Bool) (h dest : FH) (hv : FH.Valid 64 norm h) :
    (FH.tryIntoMutShort h dest = none ↔ h.len2.toNat > 32) ∧
    (∀ r, FH.tryIntoMutShort h dest = some r → FH.Valid 32 norm r ∧ FH.abs r = FH.abs h) := by
  unfold FH.tryIntoMutShort
  by_cases hc : h.len2.toNat > HALF_SIZE
  · simp only [hc, if_true, true_iff]
    exact ⟨by simpa [HALF_SIZE] using hc, by intro r hr; simp at hr⟩
  · simp only [hc, if_false]
    have hle : h.len2.toNat ≤ 32 := by simp [HALF_SIZE] at hc; omega
    refine ⟨by simp [HALF_SIZE]; omega, ?_⟩
    intro r hr
    have := Option.some.inj hr
    subst this
    have hl : h.bh2.length = 64 := hv.b2.arr
    have hsplit : h.bh2.drop h.len2.toNat = (h.bh2.take HALF_SIZE).drop h.len2.toNat ++ h.bh2.drop HALF_SIZE := by
      rw [List.drop_take]
      conv => lhs; rw [← List.take_append_drop (HALF_SIZE - h.len2.toNat) (h.bh2.drop h.len2.toNat)]
      rw [List.drop_drop]
      congr 2
      simp [HALF_SIZE]; omega
    refine ⟨⟨hv.log, hv.b1, ?_⟩, ?_⟩
    · refine ⟨by simp [hl, HALF_SIZE], hle, ?_, ?_, ?_⟩
      · intro x hx
        simp only at hx
        rw [List.take_take, Nat.min_eq_left (by simp [HALF_SIZE]; omega)] at hx
        exact hv.b2.sym x hx
      · intro x hx
        simp only at hx
        apply hv.b2.tail x
        rw [hsplit]
        exact List.mem_append_left _ hx
      · intro hn
        simp only
        rw [List.take_take, Nat.min_eq_left (by simp [HALF_SIZE]; omega)]
        exact hv.b2.norm hn
    · simp only [FH.abs, FH.blockHash1, FH.blockHash2, Prod.mk.injEq, true_and]
      rw [List.take_take, Nat.min_eq_left (by simp [HALF_SIZE]; omega)]

/-- **C15.** widening to the long form and narrowing back is the identity -/
theorem widen_narrow_id (norm : Bool) (h : FH) (hv : FH.Valid 32 norm h) :
    FH.tryFromLong (FH.toLongForm h) = some h := by
  have hl : h.bh2.length = 32 := hv.b2.arr
  have hle := hv.b2.len_le
  unfold FH.tryFromLong FH.tryIntoMutShort
  have hc : ¬ ((FH.toLongForm h).len2.toNat > HALF_SIZE) := by simp [FH.toLongForm, HALF_SIZE]; omega
  simp only [hc, if_false]
  have e : (FH.toLongForm h).bh2.take HALF_SIZE = h.bh2 := by
    simp only [FH.toLongForm]
    rw [setSlice_zero_replicate h.bh2 FULL_SIZE (by simp [hl, FULL_SIZE])]
    rw [List.take_append_of_le_length (by simp [hl, HALF_SIZE])]
    exact List.take_of_length_le (by simp [hl, HALF_SIZE])
  rw [e]
  cases h; simp [FH.toLongForm]

/-- **C15 (dirty destinations).** the `into_mut_*` forms do not depend on what the destination held -/
theorem dest_independent (h dest : FH) (hd : dest.bh2.length = FULL_SIZE) (hl : h.bh2.length = HALF_SIZE) :
    FH.intoMutLongForm h dest = FH.toLongForm h ∧ FH.intoMutRawForm h dest = FH.toRawForm h ∧
    FH.shortNormToLongRaw h = FH.toLongForm h := by
  refine ⟨?_, by cases h; rfl, ?_⟩
  · simp only [FH.intoMutLongForm, FH.toLongForm, FH.mk.injEq, true_and, and_true]
    simp only [setSlice, fillSlice, List.take_zero, List.nil_append, Nat.zero_add, hl]
    simp [HALF_SIZE, FULL_SIZE, List.drop_replicate, hd, hl]
  · simp [FH.shortNormToLongRaw, FH.toLongForm, FH.new]

/-- **C15.** reinterpreting a normalised hash as raw keeps every symbol and stays valid -/
theorem toRawForm_spec (s2 : Nat) (h : FH) (hv : FH.Valid s2 true h) :
    FH.Valid s2 false (FH.toRawForm h) ∧ FH.abs (FH.toRawForm h) = FH.abs h :=
  ⟨⟨hv.log, ⟨hv.b1.arr, hv.b1.len_le, hv.b1.sym, hv.b1.tail, by simp⟩,
    ⟨hv.b2.arr, hv.b2.len_le, hv.b2.sym, hv.b2.tail, by simp⟩⟩, rfl⟩

/-- the conversion graph on plain variants: every edge either keeps the abstract content or
    applies `collapse` to both block hashes -/
inductive Edge where
  | normalize      -- raw → normalised (same capacity)
  | toRaw          -- normalised → raw
  | toLong         -- short → long
  | toShort        -- long → short (may fail)

/-- effect of an edge on the abstract content `(k, bh1, bh2)`; `none` = the conversion fails -/
def edgeAbs : Edge → (Nat × List UInt8 × List UInt8) → Option (Nat × List UInt8 × List UInt8)
  | .normalize, (k, a, b) => some (k, collapse a, collapse b)
  | .toRaw, x => some x
  | .toLong, x => some x
  | .toShort, (k, a, b) => if b.length > 32 then none else some (k, a, b)

def chainAbs : List Edge → (Nat × List UInt8 × List UInt8) → Option (Nat × List UInt8 × List UInt8)
  | [], x => some x
  | e :: es, x => (edgeAbs e x).bind (chainAbs es)

/-- **C15 (chains).** a successful chain of conversions yields the source content, run-collapsed iff a
    normalising edge lies on the path — i.e. exactly what the direct conversion yields -/
theorem conv_chain_eq_direct (es : List Edge) : ∀ (x y : Nat × List UInt8 × List UInt8),
    chainAbs es x = some y →
      y = (if es.any (fun e => match e with | .normalize => true | _ => false)
           then (x.1, collapse x.2.1, collapse x.2.2) else x) := by
  induction es with
  | nil => intro x y h; simp [chainAbs] at h; simp [h]
  | cons e es ih =>
    intro x y h
    obtain ⟨k, a, b⟩ := x
    cases e with
    | normalize =>
      simp only [chainAbs, edgeAbs, Option.bind_some] at h
      have := ih _ _ h
      simp only [List.any_cons, Bool.true_or, if_true]
      rw [this]
      split <;> simp [Collapse.collapse_idem]
    | toRaw => simp only [chainAbs, edgeAbs, Option.bind_some] at h; simpa using ih _ _ h
    | toLong => simp only [chainAbs, edgeAbs, Option.bind_some] at h; simpa using ih _ _ h
    | toShort =>
      simp only [chainAbs, edgeAbs] at h
      split at h
      · simp at h
      · simp only [Option.bind_some] at h; simpa using ih _ _ h

/-- non-vacuity -/
example : FH.tryFromLong (FH.toLongForm (FH.new 32)) = some (FH.new 32) := by decide

end Ffuzzy.C15
