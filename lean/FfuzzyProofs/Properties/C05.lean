/-
  C05 — text round trip and formatter contract.
-/
import FfuzzyProofs.Properties.C04
import FfuzzyProofs.Properties.C16
namespace Ffuzzy.C05
open Ffuzzy Ffuzzy.Spec Ffuzzy.Collapse Ffuzzy.ParseBh Ffuzzy.ParseBs Ffuzzy.ParseField Ffuzzy.ParseMain

theorem b64Char_fin : ∀ i : Fin 64, isB64 (b64Char i.val.toUInt8) = true ∧ b64Index (b64Char i.val.toUInt8) = i.val.toUInt8 := by
  decide +kernel

theorem b64Char_valid (s : UInt8) (hs : s < 64) : isB64 (b64Char s) = true ∧ b64Index (b64Char s) = s := by
  have hlt : s.toNat < 64 := UInt8.lt_iff_toNat_lt.mp hs
  have e : s.toNat.toUInt8 = s := by
    apply UInt8.toNat_inj.mp
    simp [Nat.toUInt8, UInt8.toNat_ofNat']
  have := b64Char_fin ⟨s.toNat, hlt⟩
  simp only [e] at this
  exact this

theorem str_fin : ∀ n : Fin 31, blockSizeLog (BlockSize.str n.val.toUInt8) = some n.val ∧
    (BlockSize.str n.val.toUInt8).all isDigit = true := by decide +kernel

theorem str_facts (log : UInt8) (h : log < 31) :
    blockSizeLog (BlockSize.str log) = some log.toNat ∧ ∀ c ∈ BlockSize.str log, isDigit c = true := by
  have hlt : log.toNat < 31 := UInt8.lt_iff_toNat_lt.mp h
  have e : log.toNat.toUInt8 = log := by
    apply UInt8.toNat_inj.mp
    simp [Nat.toUInt8, UInt8.toNat_ofNat']
  have := str_fin ⟨log.toNat, hlt⟩
  simp only [e] at this
  exact ⟨this.1, fun c hc => List.all_eq_true.mp this.2 c hc⟩

theorem pre_append (xs : List UInt8) (c : UInt8) (rest : List UInt8) (hx : ∀ x ∈ xs, isB64 x = true)
    (hc : isB64 c = false) : pre (xs ++ c :: rest) = xs ∧ post (xs ++ c :: rest) = c :: rest := by
  induction xs with
  | nil => exact ⟨pre_cons_invalid c rest hc, post_cons_invalid c rest hc⟩
  | cons x xs ih =>
    have hxv := hx x (by simp)
    have := ih (fun y hy => hx y (by simp [hy]))
    rw [List.cons_append, pre_cons_valid x _ hxv, post_cons_valid x _ hxv, this.1, this.2]
    exact ⟨rfl, rfl⟩

theorem pre_all_valid (xs : List UInt8) (hx : ∀ x ∈ xs, isB64 x = true) : pre xs = xs ∧ post xs = [] := by
  induction xs with
  | nil => exact ⟨rfl, rfl⟩
  | cons x xs ih =>
    have hxv := hx x (by simp)
    have := ih (fun y hy => hx y (by simp [hy]))
    rw [pre_cons_valid x _ hxv, post_cons_valid x _ hxv, this.1, this.2]
    exact ⟨rfl, rfl⟩

theorem digits_append (ds : List UInt8) (c : UInt8) (rest : List UInt8) (hd : ∀ x ∈ ds, isDigit x = true)
    (hc : isDigit c = false) : digits (ds ++ c :: rest) = ds ∧ afterDigits (ds ++ c :: rest) = c :: rest := by
  induction ds with
  | nil => exact ⟨digits_cons_other c rest hc, after_cons_other c rest hc⟩
  | cons x xs ih =>
    have hxv := hd x (by simp)
    have := ih (fun y hy => hd y (by simp [hy]))
    rw [List.cons_append, digits_cons_digit x _ hxv, after_cons_digit x _ hxv, this.1, this.2]
    exact ⟨rfl, rfl⟩

/-- characters of a valid block hash -/
theorem chars_facts (n : Nat) (norm : Bool) (bh : List UInt8) (len : UInt8) (hv : FH.BhValid n norm bh len) :
    (∀ c ∈ (bh.take len.toNat).map b64Char, isB64 c = true) ∧
    ((bh.take len.toNat).map b64Char).length = len.toNat ∧
    (if norm then collapse ((bh.take len.toNat).map b64Char) else (bh.take len.toNat).map b64Char).map b64Index =
      bh.take len.toNat := by
  have hsym := hv.sym
  have hlen : (bh.take len.toNat).length = len.toNat := by
    rw [List.length_take, hv.arr]; exact Nat.min_eq_left hv.len_le
  refine ⟨?_, by rw [List.length_map, hlen], ?_⟩
  · intro c hc
    simp only [List.mem_map] at hc
    obtain ⟨s, hs, rfl⟩ := hc
    exact (b64Char_valid s (hsym s hs)).1
  · have hback : ((bh.take len.toNat).map b64Char).map b64Index = bh.take len.toNat := by
      rw [List.map_map]
      conv => rhs; rw [← List.map_id (bh.take len.toNat)]
      apply List.map_congr_left
      intro s hs
      exact (b64Char_valid s (hsym s hs)).2
    cases norm with
    | false => exact hback
    | true =>
      simp only [if_true]
      rw [collapse_map b64Char (bh.take len.toNat) (fun a ha b hb hab => by
        have h1 := (b64Char_valid a (hsym a ha)).2
        have h2 := (b64Char_valid b (hsym b hb)).2
        rw [← h1, ← h2, hab]), hv.norm rfl]
      exact hback

/-- the reference grammar reads the text of a valid hash back as that hash -/
theorem refParse_text (cfg : Cfg) (s2 : Nat) (norm : Bool) (h : FH) (hv : FH.Valid s2 norm h) :
    refParse cfg s2 norm false h.text =
      .ok ⟨h.log.toNat, h.blockHash1, h.blockHash2, h.text.length⟩ := by
  obtain ⟨hlog, hdig⟩ := str_facts h.log hv.log
  obtain ⟨c1v, c1l, c1r⟩ := chars_facts FULL_SIZE norm h.bh1 h.len1 hv.b1
  obtain ⟨c2v, c2l, c2r⟩ := chars_facts s2 norm h.bh2 h.len2 hv.b2
  have htext : h.text = BlockSize.str h.log ++ 58 :: ((h.bh1.take h.len1.toNat).map b64Char ++
      58 :: (h.bh2.take h.len2.toNat).map b64Char) := by
    unfold FH.text insertBlockHash; simp [List.append_assoc]
  have hd := digits_append (BlockSize.str h.log) 58 ((h.bh1.take h.len1.toNat).map b64Char ++
      58 :: (h.bh2.take h.len2.toNat).map b64Char) hdig (by decide)
  have hp1 := pre_append ((h.bh1.take h.len1.toNat).map b64Char) 58 ((h.bh2.take h.len2.toNat).map b64Char) c1v (by decide)
  have hp2 := pre_all_valid ((h.bh2.take h.len2.toNat).map b64Char) c2v
  have hfit : ∀ (cap : Nat) (x : List UInt8), x.length ≤ cap → fits cfg norm false cap x = true := by
    intro cap x hx
    unfold fits
    split
    · have := collapse_length_le x; simp; omega
    · simpa using hx
  rw [refParse_unfold, htext, hd.1, hd.2]
  simp only [bne_self_eq_false, Bool.false_eq_true, if_false, hlog]
  rw [hp1.1, hp1.2, hfit FULL_SIZE _ (by rw [c1l]; exact hv.b1.len_le)]
  simp only [Bool.not_true, Bool.false_eq_true, if_false, bne_self_eq_false]
  rw [hp2.1, hp2.2, hfit s2 _ (by rw [c2l]; exact hv.b2.len_le)]
  simp only [Bool.not_true, Bool.false_eq_true, if_false]
  unfold refBh
  rw [hp1.1, hp2.1, c1r, c2r]
  congr 2
  simp only [List.length_append, List.length_cons, c1l, c2l, List.length_map, List.length_take]
  omega

/-- **C05 (length).** the text has exactly the advertised length, within the advertised maximum -/
theorem text_length (s2 : Nat) (norm : Bool) (h : FH) (hv : FH.Valid s2 norm h) :
    h.text.length = h.lenInStr ∧ h.lenInStr ≤ FH.maxLenInStr s2 := by
  have l1 : (h.bh1.take h.len1.toNat).length = h.len1.toNat := by
    rw [List.length_take, hv.b1.arr]; exact Nat.min_eq_left hv.b1.len_le
  have l2 : (h.bh2.take h.len2.toNat).length = h.len2.toNat := by
    rw [List.length_take, hv.b2.arr]; exact Nat.min_eq_left hv.b2.len_le
  have hlt : h.log.toNat < 31 := UInt8.lt_iff_toNat_lt.mp hv.log
  have e : h.log.toNat.toUInt8 = h.log := by
    apply UInt8.toNat_inj.mp
    simp [Nat.toUInt8, UInt8.toNat_ofNat']
  have hstr := (C20.str_roundtrip ⟨h.log.toNat, hlt⟩).2.1
  simp only [e] at hstr
  refine ⟨?_, ?_⟩
  · unfold FH.text FH.lenInStr insertBlockHash
    simp only [List.length_append, List.length_map, l1, l2, List.length_cons, List.length_nil]
    omega
  · unfold FH.lenInStr FH.maxLenInStr BlockSize.MAX_BLOCK_SIZE_LEN_IN_CHARS
    have := hv.b1.len_le; have := hv.b2.len_le
    omega

/-- **C05 (round trip).** the text of every valid hash parses back, in both parser flavours, to the
    same object, consuming the whole text -/
theorem text_roundtrip (cfg : Cfg) (s2 : Nat) (norm : Bool) (h : FH) (hs2 : s2 ≤ 64) (hv : FH.Valid s2 norm h) :
    FH.parse cfg s2 norm h.text = .ok (h, h.text.length) := by
  obtain ⟨h', hp, hl, hb1, hb2, hv'⟩ := (C04.parse_exact cfg s2 norm h.text hs2).1 _ (refParse_text cfg s2 norm h hv)
  have habs : FH.abs h' = FH.abs h := by
    unfold FH.abs
    simp only at hl hb1 hb2
    rw [hl, hb1, hb2]
  have := ((C16.eq_iff s2 norm h' h hv' hv).2).mp (((C16.eq_iff s2 norm h' h hv' hv).1).mpr habs)
  rw [this] at hp
  exact hp

/-- **C05 (caller buffer).** `store_into_bytes` refuses a buffer that is too small without touching it,
    and otherwise writes exactly the text of `to_string` / `Display` at the start of the buffer -/
theorem storeIntoBytes_contract (h : FH) (buf : List UInt8) :
    (buf.length < h.lenInStr → h.storeIntoBytes buf = none) ∧
    (h.lenInStr ≤ buf.length → h.storeIntoBytes buf = some (setSlice buf 0 h.toStringBytes, h.lenInStr)) := by
  unfold FH.storeIntoBytes FH.toStringBytes
  exact ⟨fun hlt => by rw [if_pos hlt], fun hle => by rw [if_neg (by omega)]⟩

/-! ### parse, then format -/

/-- shape of an accepted text -/
theorem refParse_ok_shape (cfg : Cfg) (s2 : Nat) (norm dual : Bool) (t : List UInt8) (ro : RefOk)
    (h : refParse cfg s2 norm dual t = .ok ro) :
    ∃ r1 r3 log, afterDigits t = 58 :: r1 ∧ blockSizeLog (digits t) = some log ∧ post r1 = 58 :: r3 ∧
      ro = ⟨log, refBh norm r1, refBh norm r3, (digits t).length + 1 + (pre r1).length + 1 + (pre r3).length⟩ := by
  rw [refParse_unfold] at h
  split at h
  · simp at h
  · next c0 r1 h0 =>
    split at h
    · simp at h
    · next hc0 =>
      have hc0' : c0 = 58 := by simpa using hc0
      subst hc0'
      split at h
      · simp at h
      · next log hlog =>
        split at h
        · simp at h
        · split at h
          · simp at h
          · next c1 r3 hp1 =>
            split at h
            · simp at h
            · next hc1 =>
              have hc1' : c1 = 58 := by simpa using hc1
              subst hc1'
              split at h
              · simp at h
              · split at h
                · exact ⟨r1, r3, log, h0, hlog, hp1, (Except.ok.inj h).symm⟩
                · split at h
                  · exact ⟨r1, r3, log, h0, hlog, hp1, (Except.ok.inj h).symm⟩
                  · simp at h

theorem dec_from (ds : List UInt8) (v : Nat) : decFrom v ds = v * 10 ^ ds.length + decFrom 0 ds := by
  induction ds generalizing v with
  | nil => simp [decFrom]
  | cons x xs ih =>
    simp only [decFrom, List.foldl_cons, List.length_cons] at ih ⊢
    rw [ih, ih (0 * 10 + (x - 48).toNat), Nat.pow_succ]
    simp only [Nat.zero_mul, Nat.zero_add]
    rw [Nat.add_mul, Nat.add_assoc]
    congr 1
    rw [Nat.mul_assoc, Nat.mul_comm 10]

theorem dec_cons (x : UInt8) (xs : List UInt8) :
    decimalValue (x :: xs) = (x - 48).toNat * 10 ^ xs.length + decimalValue xs := by
  show decFrom 0 (x :: xs) = _
  simp only [decFrom, List.foldl_cons, Nat.zero_mul, Nat.zero_add]
  exact dec_from xs _

theorem dec_lt (ds : List UInt8) (h : ∀ c ∈ ds, isDigit c = true) : decimalValue ds < 10 ^ ds.length := by
  induction ds with
  | nil => simp [decimalValue]
  | cons x xs ih =>
    rw [dec_cons, List.length_cons, Nat.pow_succ]
    have h1 := (digit_val x (h x (by simp))).1
    have h2 := ih (fun y hy => h y (by simp [hy]))
    have : (x - 48).toNat * 10 ^ xs.length ≤ 9 * 10 ^ xs.length := Nat.mul_le_mul_right _ h1
    omega

theorem dec_ge (x : UInt8) (xs : List UInt8) (hx : isDigit x = true) (h0 : x ≠ 48) :
    10 ^ xs.length ≤ decimalValue (x :: xs) := by
  rw [dec_cons]
  have := (digit_val x hx).2
  have h1 : 1 ≤ (x - 48).toNat := by
    have : (x - 48).toNat ≠ 0 := fun e => h0 (this.mp e)
    omega
  have : 1 * 10 ^ xs.length ≤ (x - 48).toNat * 10 ^ xs.length := Nat.mul_le_mul_right _ h1
  omega

theorem dec_inj_len : ∀ (a b : List UInt8), a.length = b.length → (∀ c ∈ a, isDigit c = true) →
    (∀ c ∈ b, isDigit c = true) → decimalValue a = decimalValue b → a = b := by
  intro a
  induction a with
  | nil => intro b hl _ _ _; cases b with
    | nil => rfl
    | cons y ys => simp at hl
  | cons x xs ih =>
    intro b hl ha hb he
    cases b with
    | nil => simp at hl
    | cons y ys =>
      have hl' : xs.length = ys.length := by simpa using hl
      rw [dec_cons, dec_cons, hl'] at he
      have l1 := dec_lt xs (fun z hz => ha z (by simp [hz]))
      have l2 := dec_lt ys (fun z hz => hb z (by simp [hz]))
      rw [hl'] at l1
      have hp : 0 < 10 ^ ys.length := Nat.pow_pos (by omega)
      have hx : (x - 48).toNat = (y - 48).toNat := by
        have e1 : ((x - 48).toNat * 10 ^ ys.length + decimalValue xs) / 10 ^ ys.length = (x - 48).toNat := by
          rw [Nat.mul_comm, Nat.mul_add_div hp, Nat.div_eq_of_lt l1]; rfl
        have e2 : ((y - 48).toNat * 10 ^ ys.length + decimalValue ys) / 10 ^ ys.length = (y - 48).toNat := by
          rw [Nat.mul_comm, Nat.mul_add_div hp, Nat.div_eq_of_lt l2]; rfl
        rw [← e1, ← e2, he]
      have hr : decimalValue xs = decimalValue ys := by rw [hx] at he; omega
      have := ih ys hl' (fun z hz => ha z (by simp [hz])) (fun z hz => hb z (by simp [hz])) hr
      rw [this]
      congr 1
      have hdd := ha x (by simp)
      have hee := hb y (by simp)
      unfold isDigit at hdd hee
      simp only [Bool.and_eq_true, decide_eq_true_eq] at hdd hee
      have e1 : (x - 48).toNat = x.toNat - 48 := by rw [UInt8.toNat_sub_of_le _ _ hdd.1]; rfl
      have e2 : (y - 48).toNat = y.toNat - 48 := by rw [UInt8.toNat_sub_of_le _ _ hee.1]; rfl
      have l1' : (48 : UInt8).toNat ≤ x.toNat := UInt8.le_iff_toNat_le.mp hdd.1
      have l2' : (48 : UInt8).toNat ≤ y.toNat := UInt8.le_iff_toNat_le.mp hee.1
      have e48 : (48 : UInt8).toNat = 48 := rfl
      apply UInt8.toNat_inj.mp; omega

/-- canonical decimal: non-empty digit strings without leading zero are determined by their value -/
theorem decimal_unique (a b : List UInt8) (ha : ∀ c ∈ a, isDigit c = true) (hb : ∀ c ∈ b, isDigit c = true)
    (hna : a ≠ []) (hnb : b ≠ []) (hha : a.head? ≠ some 48) (hhb : b.head? ≠ some 48)
    (hv : decimalValue a = decimalValue b) : a = b := by
  apply dec_inj_len a b _ ha hb hv
  cases a with
  | nil => exact absurd rfl hna
  | cons x xs =>
    cases b with
    | nil => exact absurd rfl hnb
    | cons y ys =>
      have g1 := dec_ge x xs (ha x (by simp)) (fun e => hha (by rw [e]; rfl))
      have g2 := dec_ge y ys (hb y (by simp)) (fun e => hhb (by rw [e]; rfl))
      have u1 := dec_lt (x :: xs) ha
      have u2 := dec_lt (y :: ys) hb
      simp only [List.length_cons] at u1 u2 ⊢
      rw [hv] at g1 u1
      rcases Nat.lt_trichotomy xs.length ys.length with h | h | h
      · have : 10 ^ (xs.length + 1) ≤ 10 ^ ys.length := Nat.pow_le_pow_right (by omega) h
        omega
      · omega
      · have : 10 ^ (ys.length + 1) ≤ 10 ^ xs.length := Nat.pow_le_pow_right (by omega) h
        omega

theorem digits_split (t : List UInt8) : t = digits t ++ afterDigits t := by
  induction t with
  | nil => simp [digits, afterDigits]
  | cons x xs ih =>
    by_cases hv : isDigit x = true
    · rw [digits_cons_digit x xs hv, after_cons_digit x xs hv, List.cons_append, ← ih]
    · have hv' : isDigit x = false := by simpa using hv
      rw [digits_cons_other x xs hv', after_cons_other x xs hv']; rfl

theorem digits_all (t : List UInt8) : ∀ c ∈ digits t, isDigit c = true := by
  induction t with
  | nil => intro c hc; simp [digits] at hc
  | cons x xs ih =>
    intro c hc
    by_cases hv : isDigit x = true
    · rw [digits_cons_digit x xs hv] at hc
      rcases List.mem_cons.mp hc with e | e
      · rw [e]; exact hv
      · exact ih c e
    · have hv' : isDigit x = false := by simpa using hv
      rw [digits_cons_other x xs hv'] at hc; simp at hc

/-- **C05 (parse then format).** formatting a successfully parsed hash gives the canonical text of
    the decoded content; for the raw types this is the input text up to its optional comma, so
    hashes written by ssdeep survive a round trip unchanged; for normalising types it is the
    run-collapsed text -/
theorem parse_then_format (cfg : Cfg) (s2 : Nat) (norm : Bool) (t : List UInt8) (hs2 : s2 ≤ 64) (h : FH) (i : Nat)
    (hp : FH.parse cfg s2 norm t = .ok (h, i)) :
    ∃ r1 r3, t = digits t ++ 58 :: (pre r1 ++ 58 :: (pre r3 ++ post r3)) ∧
      i = (digits t).length + 1 + (pre r1).length + 1 + (pre r3).length ∧
      h.text = digits t ++ 58 :: ((if norm then collapse (pre r1) else pre r1) ++
                 58 :: (if norm then collapse (pre r3) else pre r3)) ∧
      (norm = false → h.text = t.take i) := by
  have hex := C04.parse_exact cfg s2 norm t hs2
  cases hr : refParse cfg s2 norm false t with
  | error o => obtain ⟨e, he, _⟩ := hex.2 o hr; rw [he] at hp; simp at hp
  | ok ro =>
    obtain ⟨h', hp', hl, hb1, hb2, hv⟩ := hex.1 ro hr
    rw [hp'] at hp
    have hh := (Prod.mk.inj (Except.ok.inj hp))
    have hh1 : h' = h := hh.1
    have hi : ro.index = i := hh.2
    subst hh1
    obtain ⟨r1, r3, log, h0, hlog, hp1, hro⟩ := refParse_ok_shape cfg s2 norm false t ro hr
    have ht : t = digits t ++ 58 :: (pre r1 ++ 58 :: (pre r3 ++ post r3)) := by
      have e1 := digits_split t
      rw [h0] at e1
      have e2 := pre_post r1
      rw [hp1] at e2
      have e3 := pre_post r3
      rw [← e3, ← e2]
      exact e1
    have hidx : i = (digits t).length + 1 + (pre r1).length + 1 + (pre r3).length := by
      rw [← hi, hro]
    -- the block size string is the digit string of the text
    have hstr : BlockSize.str h'.log = digits t := by
      have hlt : h'.log.toNat < 31 := UInt8.lt_iff_toNat_lt.mp hv.log
      have e : h'.log.toNat.toUInt8 = h'.log := by
        apply UInt8.toNat_inj.mp
        simp [Nat.toUInt8, UInt8.toNat_ofNat']
      have hsr := C20.str_roundtrip ⟨h'.log.toNat, hlt⟩
      simp only [e] at hsr
      obtain ⟨sv, _, sh, sd⟩ := hsr
      unfold blockSizeLog at hlog
      split at hlog
      · simp at hlog
      · next hne =>
        simp only [Bool.or_eq_true, List.isEmpty_iff, beq_iff_eq, not_or] at hne
        have hpp := List.find?_some hlog
        simp only [decide_eq_true_eq] at hpp
        have hlog' : log = h'.log.toNat := by rw [hl, hro]
        apply decimal_unique _ _ (fun c hc => List.all_eq_true.mp sd c hc) (digits_all t) _ hne.1 sh hne.2
        · show decimalValue (BlockSize.str h'.log) = decimalValue (digits t)
          rw [hpp, hlog']; exact sv
        · intro e0
          rw [e0] at sv
          simp [List.foldl] at sv
          have := Nat.two_pow_pos h'.log.toNat
          omega
    have htxt : h'.text = digits t ++ 58 :: ((if norm then collapse (pre r1) else pre r1) ++
                 58 :: (if norm then collapse (pre r3) else pre r3)) := by
      have back : ∀ (x : List UInt8), (∀ c ∈ x, isB64 c = true) → (x.map b64Index).map b64Char = x := by
        intro x hx
        rw [List.map_map]
        conv => rhs; rw [← List.map_id x]
        apply List.map_congr_left
        intro c hc
        exact (b64_roundtrip c (hx c hc)).1
      have hb1' : h'.blockHash1 = refBh norm r1 := by rw [hb1, hro]
      have hb2' : h'.blockHash2 = refBh norm r3 := by rw [hb2, hro]
      have m1 : ∀ c ∈ (if norm then collapse (pre r1) else pre r1), isB64 c = true := by
        intro c hc
        cases norm
        · exact pre_all r1 c (by simpa using hc)
        · exact pre_all r1 c (collapse_mem _ c (by simpa using hc))
      have m2 : ∀ c ∈ (if norm then collapse (pre r3) else pre r3), isB64 c = true := by
        intro c hc
        cases norm
        · exact pre_all r3 c (by simpa using hc)
        · exact pre_all r3 c (collapse_mem _ c (by simpa using hc))
      unfold FH.text insertBlockHash
      change BlockSize.str h'.log ++ [58] ++ h'.blockHash1.map b64Char ++ [58] ++ h'.blockHash2.map b64Char = _
      rw [hstr, hb1', hb2']
      unfold refBh
      rw [back _ m1, back _ m2]
      simp [List.append_assoc]
    refine ⟨r1, r3, ht, hidx, htxt, fun hn => ?_⟩
    subst hn
    rw [htxt, hidx]
    simp only [Bool.false_eq_true, if_false]
    have e5 : t = (digits t ++ 58 :: (pre r1 ++ 58 :: pre r3)) ++ post r3 := by
      have := ht
      simp only [List.append_assoc, List.cons_append] at this ⊢
      exact this
    have hk := List.take_left' (l₁ := digits t ++ 58 :: (pre r1 ++ 58 :: pre r3)) (l₂ := post r3) rfl
    rw [← e5] at hk
    have : (digits t).length + 1 + (pre r1).length + 1 + (pre r3).length =
        (digits t ++ 58 :: (pre r1 ++ 58 :: pre r3)).length := by
      simp [List.length_append]; omega
    rw [this, hk]

end Ffuzzy.C05
