/-
  C03 — the hash depends only on the byte stream, not on how it is fed.
  `finalize*`, `clone`, `input_size` take `&self` / produce a value: in the model they are pure
  functions of the state, so "finalising never disturbs subsequent updates" is the statement that the
  state after a history does not depend on finalisations — they are simply not state-changing calls
  (the harness checks at run time that the Rust object is bit-identical before and after).
-/
import FfuzzyProofs.Properties.C01
import FfuzzyProofs.Properties.C18
namespace Ffuzzy.C03
open Ffuzzy Ffuzzy.Spec Ffuzzy.GenSim

/-- the bytes a data call delivers -/
def payload : GOp → List UInt8
  | .update bs => bs
  | .iter bs => bs
  | .byte c => [c]
  | .hint _ => []
  | .reset => []

def isData : GOp → Bool
  | .update _ => true
  | .iter _ => true
  | .byte _ => true
  | _ => false

theorem abs_data (ops : List GOp) (hd : ∀ op ∈ ops, isData op = true) : ∀ a : Abs,
    ops.foldl Abs.apply a = { a with bytes := a.bytes ++ ops.flatMap payload } := by
  induction ops with
  | nil => intro a; simp
  | cons op ops ih =>
    intro a
    have h1 := hd op (by simp)
    have h2 : ∀ o ∈ ops, isData o = true := fun o ho => hd o (by simp [ho])
    simp only [List.foldl_cons, List.flatMap_cons]
    rw [ih h2]
    cases op <;> simp_all [Abs.apply, payload, isData]

/-- **C03.** any split of a byte string into chunks, delivered by any mix of the slice, iterator and
    single-byte forms (`+=` is the slice form), gives the state whose every finalisation and reported
    input size equal those of feeding the whole string in one call -/
theorem feeding_independent (ops : List GOp) (hd : ∀ op ∈ ops, isData op = true)
    (trunc : Bool) (s2 : Nat) (hs2 : s2 = 32 ∨ s2 = 64) :
    (ops.foldl GOp.apply Gen.new).finalizeRaw trunc s2 = (Gen.new.update (ops.flatMap payload)).finalizeRaw trunc s2 ∧
    (ops.foldl GOp.apply Gen.new).inputSize = (Gen.new.update (ops.flatMap payload)).inputSize := by
  have hJ := J_history ops Gen.new _ J_new
  rw [abs_data ops hd] at hJ
  have hJ1 := J_update Gen.new _ (ops.flatMap payload) J_new
  refine ⟨?_, ?_⟩
  · rw [J_final _ _ hJ trunc s2 hs2, J_final _ _ hJ1 trunc s2 hs2]
  · rw [hJ.size, hJ1.size]

/-- …and that common result is the reference digest of the concatenated payload -/
theorem feeding_eq_reference (ops : List GOp) (hd : ∀ op ∈ ops, isData op = true)
    (trunc : Bool) (s2 : Nat) (hs2 : s2 = 32 ∨ s2 = 64) :
    (ops.foldl GOp.apply Gen.new).finalizeRaw trunc s2 = naiveDigest (ops.flatMap payload) trunc s2 := by
  rw [(feeding_independent ops hd trunc s2 hs2).1, C01.generator_eq_reference _ trunc s2 hs2]

/-- the one-shot buffer function agrees with feeding the buffer to a generator in one call -/
theorem hashBuf_eq_generator (bs : List UInt8) (hlen : bs.length ≤ Gen.MAX_INPUT_SIZE) :
    Gen.hashBuf bs = (Gen.new.update bs).finalize := by
  rw [C01.hashBuf_eq_reference bs hlen, C01.finalize_eq_reference]

theorem foldl_update_ops (cs : List (List UInt8)) (g : Gen) :
    cs.foldl Gen.update g = (cs.map GOp.update).foldl GOp.apply g := by
  induction cs generalizing g with
  | nil => rfl
  | cons c cs ih => simp only [List.foldl_cons, List.map_cons]; rw [ih]; rfl

theorem flatMap_payload_update (cs : List (List UInt8)) : (cs.map GOp.update).flatMap payload = cs.flatten := by
  induction cs with
  | nil => rfl
  | cons c cs ih => simp [payload, ih]

/-- the reader-based function under arbitrarily short reads: when no read fails, the result is the
    one-call hash of the bytes the reader delivered -/
theorem hashStream_eq_generator (data : List UInt8) (sizes : List Nat) :
    hashStream data sizes none =
      match (Gen.new.update (C18.chunks data sizes (data.length + sizes.length + 2)).flatten).finalize with
      | .error e => .error (.gen e)
      | .ok d => .ok d := by
  have h := C18.hashStream_script data sizes none
  simp only at h
  rw [h]
  have hd : ∀ op ∈ (C18.chunks data sizes (data.length + sizes.length + 2)).map GOp.update, isData op = true := by
    intro op hop
    simp only [List.mem_map] at hop
    obtain ⟨c, _, rfl⟩ := hop
    rfl
  have := (feeding_independent _ hd true 32 (Or.inl rfl)).1
  rw [flatMap_payload_update, ← foldl_update_ops] at this
  unfold Gen.finalize
  rw [this]
  cases (Gen.new.update (C18.chunks data sizes (data.length + sizes.length + 2)).flatten).finalizeRaw true 32 <;> rfl

/-- non-vacuity: a three-call history with a split inside a 7-byte window -/
example : ([GOp.update [1, 2, 3], GOp.byte 4, GOp.iter [5, 6, 7, 8]].foldl GOp.apply Gen.new).finalizeRaw true 32 =
    (Gen.new.update [1, 2, 3, 4, 5, 6, 7, 8]).finalizeRaw true 32 :=
  (feeding_independent _ (by decide) true 32 (Or.inl rfl)).1

end Ffuzzy.C03
