/-
  C13 — size limits and block-size choice over the whole 0..192 GiB range.
-/
import FfuzzyProofs.Properties.C12
namespace Ffuzzy.C13
open Ffuzzy Ffuzzy.Spec Ffuzzy.GenSim

/-- the initial block size index: the smallest `n` with `64·3·2^n ≥ size` -/
theorem initial_index_spec (size : Nat) :
    size ≤ 192 * 2 ^ (Gen.logBlockSizeFromInputSize size 0) ∧
    ∀ m, m < Gen.logBlockSizeFromInputSize size 0 → 192 * 2 ^ m < size := by
  unfold Gen.logBlockSizeFromInputSize Gen.SIZE_UNIT u64Ilog2
  by_cases h : size ≤ 192
  · rw [if_pos h]; simp; omega
  · rw [if_neg h]
    simp only [Nat.zero_max]
    have hq : (size - 1) / 192 ≠ 0 := by
      intro e
      have := Nat.div_eq_zero_iff.mp e
      omega
    have hlo := (Nat.le_log2 hq).mp (Nat.le_refl _)
    have hhi := (Nat.log2_lt hq).mp (Nat.lt_succ_self _)
    refine ⟨?_, ?_⟩
    · have : (size - 1) / 192 < 2 ^ (((size - 1) / 192).log2 + 1) := hhi
      have h2 := (Nat.div_lt_iff_lt_mul (by omega : 0 < 192)).mp this
      omega
    · intro m hm
      have hp : 2 ^ m ≤ 2 ^ ((size - 1) / 192).log2 := Nat.pow_le_pow_right (by omega) (by omega)
      have h3 := (Nat.le_div_iff_mul_le (by omega : 0 < 192)).mp (Nat.le_trans hp hlo)
      omega

/-- the final index: halved from the initial one while the level has fewer than 32 pieces -/
theorem naiveGuess_spec (n : Naive) : ∀ K,
    naiveGuess n K ≤ K ∧ (naiveGuess n K ≠ 0 → 32 ≤ (n.at (naiveGuess n K)).idx) ∧
    ∀ j, naiveGuess n K < j → j ≤ K → (n.at j).idx < 32 := by
  intro K
  refine ⟨naiveGuess_le n K, naiveGuess_pos n K, ?_⟩
  induction K with
  | zero => intro j h1 h2; simp [naiveGuess] at h1; omega
  | succ K ih =>
    intro j h1 h2
    rw [naiveGuess] at h1
    split at h1
    · next hlt =>
      by_cases e : j = K + 1
      · rw [e]; exact hlt
      · exact ih j h1 (by omega)
    · omega

/-- **C13 (block size).** the block size index of every successful finalisation is ssdeep's choice:
    start at the smallest `n ≤ 30` with `192·2^n ≥ size`, halve while the reference level holds fewer
    than 32 pieces -/
theorem blocksize_choice (bs : List UInt8) (trunc : Bool) (s2 : Nat) (hs2 : s2 = 32 ∨ s2 = 64) (d : Digest)
    (h : (Gen.new.update bs).finalizeRaw trunc s2 = .ok d) :
    d.log = naiveGuess (Naive.feed bs) (min 30 (Gen.logBlockSizeFromInputSize bs.length 0)) := by
  rw [C01.generator_eq_reference bs trunc s2 hs2] at h
  unfold naiveDigest Naive.digest at h
  rw [(ninv_feed bs).size] at h
  split at h
  · simp at h
  · simp only at h
    split at h
    · simp at h
    · simp at h; rw [← h]

theorem digest2_trunc_ok (c : Ctx) (nz : Bool) (s2 : Nat) : ∃ d, c.digest2 nz true s2 = .ok d := by
  unfold Ctx.digest2
  simp only [if_true]
  split <;> exact ⟨_, rfl⟩

theorem digest2_long_ok (c : Ctx) (nz : Bool) : ∃ d, c.digest2 nz false 64 = .ok d := by
  unfold Ctx.digest2
  simp only [Bool.false_eq_true, if_false, beq_self_eq_true, Bool.not_true, Bool.false_and]
  cases nz
  · exact ⟨_, rfl⟩
  · simp only [if_true]
    split <;> split <;> exact ⟨_, rfl⟩

/-- **C13 (limit).** the default and the long finalisation succeed exactly up to 192 GiB and fail
    with the input-too-large error above -/
theorem size_limit (bs : List UInt8) :
    (Gen.MAX_INPUT_SIZE < bs.length → (Gen.new.update bs).finalize = .error .inputSizeTooLarge ∧
      (Gen.new.update bs).finalizeWithoutTruncation = .error .inputSizeTooLarge) ∧
    (bs.length ≤ Gen.MAX_INPUT_SIZE → (∃ d, (Gen.new.update bs).finalize = .ok d) ∧
      (∃ d, (Gen.new.update bs).finalizeWithoutTruncation = .ok d)) := by
  rw [C01.finalize_eq_reference, C01.finalizeWithoutTruncation_eq_reference]
  unfold naiveDigest Naive.digest
  rw [(ninv_feed bs).size]
  refine ⟨fun h => ?_, fun h => ?_⟩
  · rw [if_pos h, if_pos h]; exact ⟨rfl, rfl⟩
  · have : ¬ Gen.MAX_INPUT_SIZE < bs.length := by omega
    rw [if_neg this, if_neg this]
    simp only
    refine ⟨?_, ?_⟩
    · obtain ⟨d, hd⟩ := digest2_trunc_ok ((Naive.feed bs).at (naiveGuess (Naive.feed bs) (min 30 (Gen.logBlockSizeFromInputSize bs.length 0)) + 1))
        ((Naive.feed bs).roll.value != 0) 32
      rw [hd]; exact ⟨_, rfl⟩
    · obtain ⟨d, hd⟩ := digest2_long_ok ((Naive.feed bs).at (naiveGuess (Naive.feed bs) (min 30 (Gen.logBlockSizeFromInputSize bs.length 0)) + 1))
        ((Naive.feed bs).roll.value != 0)
      rw [hd]; exact ⟨_, rfl⟩

/-- **C13 (small input query).** true exactly below 4097 bytes -/
theorem mayWarn_iff (bs : List UInt8) : (Gen.new.update bs).mayWarn = decide (bs.length < 4097) := by
  have hJ := J_update Gen.new _ bs J_new
  unfold Gen.mayWarn Gen.MIN_RECOMMENDED_INPUT_SIZE
  rw [hJ.hint, hJ.size]
  simp only [List.nil_append, Option.getD_none]
  unfold U64_MAX
  apply decide_eq_decide.mpr
  omega

end Ffuzzy.C13
