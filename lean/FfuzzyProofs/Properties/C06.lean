/-
  C06 — Normalization collapses runs to three, idempotently, on every route.
-/
import FfuzzyProofs.NormalizeProof
namespace Ffuzzy.C06
open Ffuzzy Ffuzzy.Spec

/-- **C06 (main).** Normalising a valid raw hash yields a valid normalised hash whose block size is
    unchanged and whose block hashes are the run-collapsed block hashes (`Spec.collapse`: an element
    is dropped iff it is preceded by three equal elements — every run longer than three becomes
    exactly three, everything else is kept in order). -/
theorem normalize_eq_collapse (s2 : Nat) (hs2 : s2 ≤ 64) (h : FH) (hv : FH.Valid s2 false h) :
    let n := FH.normalize false h
    FH.Valid s2 true n ∧ n.log = h.log ∧
    n.blockHash1 = collapse h.blockHash1 ∧ n.blockHash2 = collapse h.blockHash2 := by
  intro n
  have a := normalizeBlockHash_spec FULL_SIZE h.bh1 h.len1 (by decide) hv.b1
  have b := normalizeBlockHash_spec s2 h.bh2 h.len2 hs2 hv.b2
  simp only at a b
  refine ⟨⟨hv.log, a.2.2.1, b.2.2.1⟩, rfl, a.2.2.2, b.2.2.2⟩

/-- the whole object after normalisation is determined: collapsed contents, zero filled -/
theorem normalize_arrays (s2 : Nat) (hs2 : s2 ≤ 64) (h : FH) (hv : FH.Valid s2 false h) :
    (FH.normalize false h).bh1 =
      collapse h.blockHash1 ++ List.replicate (FULL_SIZE - (collapse h.blockHash1).length) 0 ∧
    (FH.normalize false h).bh2 =
      collapse h.blockHash2 ++ List.replicate (s2 - (collapse h.blockHash2).length) 0 := by
  have a := normalizeBlockHash_spec FULL_SIZE h.bh1 h.len1 (by decide) hv.b1
  have b := normalizeBlockHash_spec s2 h.bh2 h.len2 hs2 hv.b2
  exact ⟨a.1, b.1⟩

/-- **C06.** normalising twice equals normalising once (on the abstract content and on the object) -/
theorem collapse_idem (xs : List UInt8) : collapse (collapse xs) = collapse xs := Collapse.collapse_idem xs

/-- a valid normalised-type object is left untouched by `normalize_in_place` (type `NORM = true`) -/
theorem normalize_norm_id (h : FH) : FH.normalizeInPlace true h = h := by
  simp [FH.normalizeInPlace, FH.normalizeInPlaceInternal, normalizeBlockHashInPlace]

/-- re-normalising the result of a normalisation (viewed as raw again) changes nothing -/
theorem normalize_idem (s2 : Nat) (hs2 : s2 ≤ 64) (h : FH) (hv : FH.Valid s2 false h) :
    FH.normalize false (FH.normalize false h) = FH.normalize false h := by
  have hn := normalize_eq_collapse s2 hs2 h hv
  simp only at hn
  obtain ⟨hvn, hlog, e1, e2⟩ := hn
  -- the normalised object is also valid as a raw object
  have hvr : FH.Valid s2 false (FH.normalize false h) :=
    ⟨hvn.log, ⟨hvn.b1.arr, hvn.b1.len_le, hvn.b1.sym, hvn.b1.tail, by simp⟩,
     ⟨hvn.b2.arr, hvn.b2.len_le, hvn.b2.sym, hvn.b2.tail, by simp⟩⟩
  have a := normalizeBlockHash_spec FULL_SIZE _ _ (by decide) hvr.b1
  have b := normalizeBlockHash_spec s2 _ _ hs2 hvr.b2
  have a0 := normalizeBlockHash_spec FULL_SIZE h.bh1 h.len1 (by decide) hv.b1
  have b0 := normalizeBlockHash_spec s2 h.bh2 h.len2 hs2 hv.b2
  simp only at a b a0 b0
  have c1 : collapse ((FH.normalize false h).bh1.take (FH.normalize false h).len1.toNat) = collapse h.blockHash1 := by
    have : (FH.normalize false h).bh1.take (FH.normalize false h).len1.toNat = collapse h.blockHash1 := e1
    rw [this, Collapse.collapse_idem]
  have c2 : collapse ((FH.normalize false h).bh2.take (FH.normalize false h).len2.toNat) = collapse h.blockHash2 := by
    have : (FH.normalize false h).bh2.take (FH.normalize false h).len2.toNat = collapse h.blockHash2 := e2
    rw [this, Collapse.collapse_idem]
  have f1 : (normalizeBlockHashInPlace (FH.normalize false h).bh1 (FH.normalize false h).len1 false)
      = ((FH.normalize false h).bh1, (FH.normalize false h).len1) := by
    apply Prod.ext
    · rw [a.1, c1]; exact a0.1.symm
    · apply UInt8.toNat_inj.mp; rw [a.2.1, c1]; exact a0.2.1.symm
  have f2 : (normalizeBlockHashInPlace (FH.normalize false h).bh2 (FH.normalize false h).len2 false)
      = ((FH.normalize false h).bh2, (FH.normalize false h).len2) := by
    apply Prod.ext
    · rw [b.1, c2]; exact b0.1.symm
    · apply UInt8.toNat_inj.mp; rw [b.2.1, c2]; exact b0.2.1.symm
  show FH.normalizeInPlaceInternal false (FH.normalize false h) = FH.normalize false h
  unfold FH.normalizeInPlaceInternal
  rw [f1, f2]

/-- **C06.** the is-normalised query is true exactly for hashes that normalisation leaves unchanged -/
theorem isNormalized_iff (s2 : Nat) (hs2 : s2 ≤ 64) (h : FH) (hv : FH.Valid s2 false h) :
    FH.isNormalized false h = true ↔ FH.normalize false h = h := by
  have hn := normalize_eq_collapse s2 hs2 h hv
  simp only at hn
  obtain ⟨_, _, e1, e2⟩ := hn
  have q1 : verifyBlockHashCurrent h.bh1 h.len1 false false false
      = decide (collapse h.blockHash1 = h.blockHash1) := by
    simp only [verifyBlockHashCurrent, verifyBlockHash, Bool.not_false, if_true, Bool.false_and,
      Bool.not_false, Bool.and_true]
    rw [verifyNormLoop_sentinel false _ (FH.sym_ne_invalid hv.b1.sym)]
    simp only [Bool.not_false, Bool.true_or, Bool.true_and, FH.blockHash1]
    exact decide_eq_decide.mpr Iff.rfl
  have q2 : verifyBlockHashCurrent h.bh2 h.len2 false false false
      = decide (collapse h.blockHash2 = h.blockHash2) := by
    simp only [verifyBlockHashCurrent, verifyBlockHash, Bool.not_false, if_true, Bool.false_and,
      Bool.not_false, Bool.and_true]
    rw [verifyNormLoop_sentinel false _ (FH.sym_ne_invalid hv.b2.sym)]
    simp only [Bool.not_false, Bool.true_or, Bool.true_and, FH.blockHash2]
    exact decide_eq_decide.mpr Iff.rfl
  unfold FH.isNormalized
  rw [q1, q2]
  simp only [Bool.and_eq_true, decide_eq_true_eq]
  constructor
  · rintro ⟨c1, c2⟩
    -- contents unchanged, so arrays and lengths are unchanged
    have a0 := normalizeBlockHash_spec FULL_SIZE h.bh1 h.len1 (by decide) hv.b1
    have b0 := normalizeBlockHash_spec s2 h.bh2 h.len2 hs2 hv.b2
    simp only at a0 b0
    have t1 := all_zero_eq_replicate _ hv.b1.tail
    have t2 := all_zero_eq_replicate _ hv.b2.tail
    have l1 : (collapse h.blockHash1).length = h.len1.toNat := by
      rw [c1]; simp [FH.blockHash1, hv.b1.arr]; exact Nat.min_eq_left hv.b1.len_le
    have l2 : (collapse h.blockHash2).length = h.len2.toNat := by
      rw [c2]; simp [FH.blockHash2, hv.b2.arr]; exact Nat.min_eq_left hv.b2.len_le
    have g1 : (normalizeBlockHashInPlace h.bh1 h.len1 false) = (h.bh1, h.len1) := by
      apply Prod.ext
      · have a01 : (normalizeBlockHashInPlace h.bh1 h.len1 false).1 =
            collapse h.blockHash1 ++ List.replicate (FULL_SIZE - (collapse h.blockHash1).length) 0 := a0.1
        rw [a01, l1, c1]
        conv => rhs; rw [← List.take_append_drop h.len1.toNat h.bh1, t1]
        simp [FH.blockHash1, hv.b1.arr]
      · apply UInt8.toNat_inj.mp; rw [a0.2.1]; exact l1
    have g2 : (normalizeBlockHashInPlace h.bh2 h.len2 false) = (h.bh2, h.len2) := by
      apply Prod.ext
      · have b01 : (normalizeBlockHashInPlace h.bh2 h.len2 false).1 =
            collapse h.blockHash2 ++ List.replicate (s2 - (collapse h.blockHash2).length) 0 := b0.1
        rw [b01, l2, c2]
        conv => rhs; rw [← List.take_append_drop h.len2.toNat h.bh2, t2]
        simp [FH.blockHash2, hv.b2.arr]
      · apply UInt8.toNat_inj.mp; rw [b0.2.1]; exact l2
    unfold FH.normalize FH.normalizeInPlaceInternal
    simp only [g1, g2]
  · intro e
    rw [e] at e1 e2
    exact ⟨e1.symm, e2.symm⟩

/-- **C06 (routes).** `normalize`, `normalize_in_place`, `clone_normalized`, `From<raw>` and
    `from_raw_form` are one and the same function of the object in the model (each is modelled from
    its own Rust body, all of which call `normalize_in_place_internal::<NORM>`) -/
theorem routes_agree (norm : Bool) (h : FH) :
    FH.normalize norm h = FH.normalizeInPlace norm h ∧ FH.cloneNormalized norm h = FH.normalizeInPlace norm h :=
  ⟨rfl, rfl⟩

/-- non-vacuity: a valid raw object with runs exists, and normalisation really changes it -/
example : ∃ h : FH, FH.Valid 32 false h ∧ collapse h.blockHash1 = [1, 1, 1, 2] ∧ h.blockHash1 ≠ [1, 1, 1, 2] :=
  ⟨{ bh1 := [1, 1, 1, 1, 1, 2] ++ List.replicate 58 0, bh2 := List.replicate 32 0, len1 := 6, len2 := 0, log := 3 },
   (FH.isValid_iff 32 false _ (by decide) (by decide)).mp (by decide), by decide, by decide⟩

end Ffuzzy.C06
