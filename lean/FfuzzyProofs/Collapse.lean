/-
  Run collapsing: the specification function, its basic laws, and the equivalence of the in-place
  loop of `normalize_block_hash_in_place_internal` with it (C06).
-/
import FfuzzyModel.Hash
import FfuzzyModel.Spec.Score
namespace Ffuzzy.Collapse
open Ffuzzy Ffuzzy.Spec

/-! ### list version of the in-place loop (same state `(seq, prev)`, no array) -/

def normList : List UInt8 → Nat → UInt8 → List UInt8
  | [], _, _ => []
  | curr :: rest, seq, prev =>
    if curr == prev then
      if seq + 1 ≥ MAX_SEQUENCE_SIZE then normList rest MAX_SEQUENCE_SIZE prev
      else curr :: normList rest (seq + 1) prev
    else curr :: normList rest 0 curr

theorem normList_length_le (xs : List UInt8) : ∀ seq prev, (normList xs seq prev).length ≤ xs.length := by
  induction xs with
  | nil => intro _ _; simp [normList]
  | cons c cs ih =>
    intro seq prev
    simp only [normList]
    split
    · split
      · have := ih MAX_SEQUENCE_SIZE prev; simp; omega
      · have := ih (seq + 1) prev; simp; omega
    · have := ih 0 c; simp; omega

/-- the array loop realises `normList` in place -/
theorem normLoop_spec (bh : List UInt8) (oldLen i seq : Nat) (prev : UInt8) (l : Nat) :
    l ≤ i → i ≤ oldLen → oldLen ≤ bh.length →
    let r := normLoop bh oldLen i seq prev l
    let out := normList ((bh.drop i).take (oldLen - i)) seq prev
    r.1.length = bh.length ∧ r.2 = l + out.length ∧ r.1.take r.2 = bh.take l ++ out ∧
      r.1.drop oldLen = bh.drop oldLen := by
  fun_induction normLoop bh oldLen i seq prev l with
  | case1 bh i seq prev l hi curr heq hseq ih =>
    -- curr == prev, run already long enough: skip
    intro hl hio hlen
    have hlt : i < bh.length := by omega
    have hd : (bh.drop i).take (oldLen - i) = curr :: (bh.drop (i + 1)).take (oldLen - (i + 1)) := by
      rw [List.drop_eq_getElem_cons hlt]
      have : oldLen - i = (oldLen - (i + 1)) + 1 := by omega
      rw [this, List.take_succ_cons]
      simp [curr, List.getD_eq_getElem?_getD, hlt]
    have := ih (by omega) (by omega) hlen
    simp only [hd, normList, heq, hseq, if_true]
    exact this
  | case2 bh i seq prev l hi curr heq hseq ih =>
    intro hl hio hlen
    have hlt : i < bh.length := by omega
    have hll : l < bh.length := by omega
    have hd : (bh.drop i).take (oldLen - i) = curr :: (bh.drop (i + 1)).take (oldLen - (i + 1)) := by
      rw [List.drop_eq_getElem_cons hlt]
      have : oldLen - i = (oldLen - (i + 1)) + 1 := by omega
      rw [this, List.take_succ_cons]
      simp [curr, List.getD_eq_getElem?_getD, hlt]
    have hset : ((bh.set l curr).drop (i + 1)) = bh.drop (i + 1) := List.drop_set_of_lt (by omega)
    have := ih (by omega) (by omega) (by simpa using hlen)
    simp only [hd, normList, heq, hseq, if_true, if_false, List.length_cons]
    rw [hset] at this
    obtain ⟨h1, h2, h3, h4⟩ := this
    refine ⟨by simpa using h1, by omega, ?_, ?_⟩
    · rw [h3]
      have : (bh.set l curr).take (l + 1) = bh.take l ++ [curr] := by
        rw [List.take_succ_eq_append_getElem (by simpa using hll)]
        simp [List.take_set_of_le]
      rw [this]; simp
    · rw [h4]; exact List.drop_set_of_lt (by omega)
  | case3 bh i seq prev l hi curr heq ih =>
    intro hl hio hlen
    have hlt : i < bh.length := by omega
    have hll : l < bh.length := by omega
    have hd : (bh.drop i).take (oldLen - i) = curr :: (bh.drop (i + 1)).take (oldLen - (i + 1)) := by
      rw [List.drop_eq_getElem_cons hlt]
      have : oldLen - i = (oldLen - (i + 1)) + 1 := by omega
      rw [this, List.take_succ_cons]
      simp [curr, List.getD_eq_getElem?_getD, hlt]
    have hset : ((bh.set l curr).drop (i + 1)) = bh.drop (i + 1) := List.drop_set_of_lt (by omega)
    have := ih (by omega) (by omega) (by simpa using hlen)
    have heq' : (curr == prev) = false := by simpa using heq
    simp only [hd, normList, heq', Bool.false_eq_true, if_false, List.length_cons]
    rw [hset] at this
    obtain ⟨h1, h2, h3, h4⟩ := this
    refine ⟨by simpa using h1, by omega, ?_, ?_⟩
    · rw [h3]
      have : (bh.set l curr).take (l + 1) = bh.take l ++ [curr] := by
        rw [List.take_succ_eq_append_getElem (by simpa using hll)]
        simp [List.take_set_of_le]
      rw [this]; simp
    · rw [h4]; exact List.drop_set_of_lt (by omega)
  | case4 bh i seq prev l hi =>
    intro hl hio hlen
    have : oldLen - i = 0 := by omega
    simp [this, normList]

end Ffuzzy.Collapse

namespace Ffuzzy.Collapse
open Ffuzzy Ffuzzy.Spec

/-- relation between the loop's `seq` counter and the specification's run length -/
def R (seq run : Nat) : Prop := (run = seq + 1 ∧ seq ≤ 2) ∨ (seq = 3 ∧ run = 3)

theorem normList_eq_collapseAux (xs : List UInt8) : ∀ (seq run : Nat) (prev : UInt8), R seq run →
    normList xs seq prev = collapseAux xs (some prev) run := by
  induction xs with
  | nil => intro _ _ _ _; simp [normList, collapseAux]
  | cons c cs ih =>
    intro seq run prev hR
    simp only [normList, collapseAux, MAX_SEQUENCE_SIZE]
    by_cases hc : c = prev
    · subst hc
      simp only [beq_self_eq_true, if_true]
      rcases hR with ⟨h1, h2⟩ | ⟨h1, h2⟩
      · by_cases hs : seq + 1 ≥ 3
        · have : run ≥ 3 := by omega
          simp only [hs, this, if_true]
          exact ih 3 run c (Or.inr ⟨rfl, by omega⟩)
        · have : ¬ run ≥ 3 := by omega
          simp only [hs, this, if_false]
          congr 1
          exact ih (seq + 1) (run + 1) c (Or.inl ⟨by omega, by omega⟩)
      · have hs : seq + 1 ≥ 3 := by omega
        have : run ≥ 3 := by omega
        simp only [hs, this, if_true]
        exact ih 3 run c (Or.inr ⟨rfl, h2⟩)
    · have h1 : (c == prev) = false := by simpa using hc
      have h2 : ¬ (some prev = some c) := by intro e; exact hc (Option.some.inj e).symm
      simp only [h1, Bool.false_eq_true, if_false, h2]
      congr 1
      exact ih 0 1 c (Or.inl ⟨rfl, by omega⟩)

/-- the loop started with the sentinel `BASE64_INVALID` computes `collapse` on symbol strings -/
theorem normList_eq_collapse (xs : List UInt8) (h : ∀ x ∈ xs, x ≠ b64Invalid) :
    normList xs 0 b64Invalid = collapse xs := by
  cases xs with
  | nil => rfl
  | cons c cs =>
    have hc : c ≠ b64Invalid := h c (by simp)
    have h1 : (c == b64Invalid) = false := by simpa using hc
    simp only [normList, collapse, collapseAux, h1, Bool.false_eq_true, if_false]
    have : ¬ (none = some c) := by simp
    simp only [this, if_false]
    congr 1
    exact normList_eq_collapseAux cs 0 1 c (Or.inl ⟨rfl, by omega⟩)

/-! ### laws of `collapse` -/

/-- `NoRun4 prev run xs`: reading `xs` after `run` copies of `prev` never meets a 4th equal element -/
def verifyAux : List UInt8 → Option UInt8 → Nat → Bool
  | [], _, _ => true
  | x :: xs, prev, run =>
    if prev = some x then (if run ≥ 3 then false else verifyAux xs prev (run + 1))
    else verifyAux xs (some x) 1

theorem collapseAux_fixed_iff (xs : List UInt8) : ∀ prev run,
    collapseAux xs prev run = xs ↔ verifyAux xs prev run = true := by
  induction xs with
  | nil => intro _ _; simp [collapseAux, verifyAux]
  | cons c cs ih =>
    intro prev run
    simp only [collapseAux, verifyAux]
    by_cases hp : prev = some c
    · simp only [hp, if_true]
      by_cases hr : run ≥ 3
      · simp only [hr, if_true, Bool.false_eq_true, iff_false]
        intro e
        have := congrArg List.length e
        have hl : ∀ (ys : List UInt8) p r, (collapseAux ys p r).length ≤ ys.length := by
          intro ys
          induction ys with
          | nil => intro _ _; simp [collapseAux]
          | cons y ys ihy =>
            intro p r; simp only [collapseAux]
            split
            · split
              · have := ihy p r; simp; omega
              · have := ihy p (r + 1); simp; omega
            · have := ihy (some y) 1; simp; omega
        have := hl cs (some c) run
        simp at *; omega
      · simp only [hr, if_false, List.cons.injEq, true_and]
        exact ih (some c) (run + 1)
    · simp only [hp, if_false, List.cons.injEq, true_and]
      exact ih (some c) 1

/-- output of `collapseAux` verifies from the same state -/
theorem verify_collapseAux (xs : List UInt8) : ∀ prev run, run ≤ 3 →
    verifyAux (collapseAux xs prev run) prev run = true := by
  induction xs with
  | nil => intro _ _ _; simp [collapseAux, verifyAux]
  | cons c cs ih =>
    intro prev run hr
    simp only [collapseAux]
    by_cases hp : prev = some c
    · simp only [hp, if_true]
      by_cases h3 : run ≥ 3
      · simp only [h3, if_true]; exact ih (some c) run hr
      · simp only [h3, if_false, verifyAux, if_true]
        exact ih (some c) (run + 1) (by omega)
    · simp only [hp, if_false, verifyAux]
      exact ih (some c) 1 (by omega)

/-- **C06.** normalising twice equals normalising once -/
theorem collapse_idem (xs : List UInt8) : collapse (collapse xs) = collapse xs := by
  unfold collapse
  exact (collapseAux_fixed_iff _ none 0).mpr (verify_collapseAux xs none 0 (by omega))

theorem collapse_length_le (xs : List UInt8) : (collapse xs).length ≤ xs.length := by
  have hl : ∀ (ys : List UInt8) p r, (collapseAux ys p r).length ≤ ys.length := by
    intro ys
    induction ys with
    | nil => intro _ _; simp [collapseAux]
    | cons y ys ihy =>
      intro p r; simp only [collapseAux]
      split
      · split
        · have := ihy p r; simp; omega
        · have := ihy p (r + 1); simp; omega
      · have := ihy (some y) 1; simp; omega
  exact hl xs none 0

theorem collapseAux_mem (xs : List UInt8) : ∀ p r x, x ∈ collapseAux xs p r → x ∈ xs := by
  induction xs with
  | nil => intro _ _ _ h; simp [collapseAux] at h
  | cons c cs ih =>
    intro p r x h
    simp only [collapseAux] at h
    split at h
    · split at h
      · exact List.mem_cons_of_mem _ (ih _ _ _ h)
      · rcases List.mem_cons.mp h with e | e
        · simp [e]
        · exact List.mem_cons_of_mem _ (ih _ _ _ e)
    · rcases List.mem_cons.mp h with e | e
      · simp [e]
      · exact List.mem_cons_of_mem _ (ih _ _ _ e)

theorem collapse_mem (xs : List UInt8) (x : UInt8) (h : x ∈ collapse xs) : x ∈ xs :=
  collapseAux_mem xs none 0 x h

end Ffuzzy.Collapse
