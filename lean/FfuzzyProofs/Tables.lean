/-
  Proof obligations over the tables REGENERATED from the compiled crate on every run
  (`FfuzzyModel/Generated/Tables.lean`): each table equals the model's defining function on its
  whole (finite) domain.  All by kernel evaluation over the complete table.
-/
import FfuzzyModel.Generated.Tables
import FfuzzyModel.Base64
import FfuzzyModel.BlockSize
import FfuzzyModel.Fnv
import FfuzzyModel.Hash
import FfuzzyModel.Generator
import FfuzzyModel.PosArray
namespace Ffuzzy.Tables
open Ffuzzy

set_option maxRecDepth 100000

theorem b64Alphabet_eq : Generated.b64Alphabet = b64Alphabet := by decide +kernel

theorem b64Rev_eq :
    Generated.b64Rev = (List.range 256).map (fun c => b64Index c.toUInt8) := by decide +kernel

theorem blockSizeStr_eq :
    Generated.blockSizeStr = (List.range 31).map (fun n => BlockSize.str n.toUInt8) := by decide +kernel

theorem fromLog_eq :
    Generated.fromLog = (List.range 31).map (fun n => (BlockSize.fromLogInternal n.toUInt8).toNat) := by
  decide +kernel

theorem fromLog_closed : Generated.fromLog = (List.range 31).map (fun n => 3 * 2 ^ n) := by decide +kernel

theorem logFromValid_eq :
    Generated.logFromValid =
      (List.range 31).map (fun n => (BlockSize.logFromValidInternal (3 * 2 ^ n).toUInt32).toNat) := by
  decide +kernel

theorem logFromValid_closed : Generated.logFromValid = List.range 31 := by decide +kernel

theorem fnvInit_eq : Generated.fnvInit = fnvInit.toNat := by decide +kernel

theorem fnvRows_eq :
    Generated.fnvRows =
      (List.range 64).map (fun s => (List.range 256).map (fun c => fnvStep s.toUInt8 c.toUInt8)) := by
  decide +kernel

theorem consts_eq :
    Generated.MIN = BlockSize.MIN.toNat ∧ Generated.NUM_VALID = BlockSize.NUM_VALID ∧
    Generated.FULL_SIZE = FULL_SIZE ∧ Generated.HALF_SIZE = HALF_SIZE ∧
    Generated.MAX_SEQUENCE_SIZE = MAX_SEQUENCE_SIZE ∧
    Generated.MIN_LCS_FOR_COMPARISON = MIN_LCS_FOR_COMPARISON ∧
    Generated.WINDOW_SIZE = 7 ∧
    Generated.MAX_INPUT_SIZE = Gen.MAX_INPUT_SIZE ∧ Generated.MAX_INPUT_SIZE = 64 * (3 * 2 ^ 30) ∧
    Generated.MIN_RECOMMENDED_INPUT_SIZE = Gen.MIN_RECOMMENDED_INPUT_SIZE ∧
    Generated.CAPPING_BORDER = PA.CAPPING_BORDER ∧
    Generated.MAX_LEN_IN_STR = FH.maxLenInStr 64 ∧
    Generated.MAX_LEN_IN_STR_SHORT = FH.maxLenInStr 32 ∧
    Generated.MAX_LEN_IN_STR_LONG = FH.maxLenInStr 64 ∧
    Generated.NUMERIC_WINDOW_BITS = 42 ∧ Generated.NUMERIC_WINDOW_MASK = 2 ^ 42 - 1 ∧
    Generated.INDEX_WINDOW_BITS = 47 ∧ Generated.INDEX_WINDOW_MASK = 2 ^ 47 - 1 := by
  decide +kernel

/-- the capping border is the least `n` with `2^n · 7 ≥ 100` -/
theorem cappingBorder_least :
    2 ^ PA.CAPPING_BORDER * MIN_LCS_FOR_COMPARISON ≥ 100 ∧
    2 ^ (PA.CAPPING_BORDER - 1) * MIN_LCS_FOR_COMPARISON < 100 := by decide

end Ffuzzy.Tables
