/-
  Lemmas about the hash primitives (C19, C14): partial FNV = low 6 bits of FNV-1,
  rolling hash = closed form over the trailing window.
-/
import FfuzzyModel.Fnv
import FfuzzyModel.Rolling
import Mathlib.Data.UInt
import Mathlib.Tactic.Ring
namespace Ffuzzy.Prim
open Ffuzzy

/-! ### FNV -/

theorem nat_core (H C P : Nat) :
    (((H % 2 ^ 8 &&& 63) * P % 2 ^ 32 % 2 ^ 8) ^^^ (C % 64)) % 64 =
      ((H * P % 2 ^ 32) ^^^ C) % 2 ^ 8 &&& 63 := by
  have e63 : ∀ x, x &&& 63 = x % 2 ^ 6 := fun x => Nat.and_two_pow_sub_one_eq_mod x 6
  rw [e63, e63]
  have e64 : (64 : Nat) = 2 ^ 6 := rfl
  rw [e64, Nat.xor_mod_two_pow]
  have d1 : ∀ x, x % 2 ^ 8 % 2 ^ 6 = x % 2 ^ 6 := fun x => Nat.mod_mod_of_dvd x (by decide)
  have d2 : ∀ x, x % 2 ^ 32 % 2 ^ 6 = x % 2 ^ 6 := fun x => Nat.mod_mod_of_dvd x (by decide)
  simp only [Nat.xor_mod_two_pow, d1, d2, Nat.mod_mod]
  congr 1
  rw [Nat.mul_mod, Nat.mod_mod, ← Nat.mul_mod]

/-- one table step on the low 6 bits = low 6 bits of one full FNV-1 step
    (low bits of a product depend only on low bits) -/
theorem fnvStep_low6 (h : UInt32) (c : UInt8) :
    fnvStep (h.toUInt8 &&& 63) c = ((h * 0x01000193) ^^^ c.toUInt32).toUInt8 &&& 63 := by
  apply UInt8.toNat_inj.mp
  simp only [fnvStep, UInt8.toNat_mod, UInt8.toNat_xor, UInt32.toNat_toUInt8, UInt32.toNat_mul,
    UInt8.toNat_toUInt32, UInt8.toNat_and, UInt32.toNat_xor]
  exact nat_core h.toNat c.toNat _

theorem fnvUpdate_low6 (bs : List UInt8) : ∀ h : UInt32,
    fnvUpdate (h.toUInt8 &&& 63) bs =
      (bs.foldl (fun h c => (h * 0x01000193) ^^^ c.toUInt32) h).toUInt8 &&& 63 := by
  induction bs with
  | nil => intro h; rfl
  | cons c cs ih =>
    intro h
    simp only [fnvUpdate, List.foldl_cons] at *
    rw [fnvStep_low6, ih]

theorem fnvInit_low6 : fnvInit = (0x28021967 : UInt32).toUInt8 &&& 63 := by decide

theorem fnvStep_lt (s c : UInt8) : (fnvStep s c).toNat < 64 := by
  simp only [fnvStep, UInt8.toNat_mod]
  exact Nat.mod_lt _ (by decide)

/-- the `opt-reduce-fnv-table` variant (full `u8` state, mask on read) agrees with the table variant -/
theorem fnvStepReduced_low6 (s c : UInt8) :
    fnvStep (s &&& 63) c = fnvValueReduced (fnvStepReduced s c) := by
  have := fnvStep_low6 s.toUInt32 c
  have e : s.toUInt32.toUInt8 = s := by
    apply UInt8.toNat_inj.mp
    simp
  rw [e] at this
  simpa [fnvValueReduced, fnvStepReduced] using this

theorem fnvReduced_fold (bs : List UInt8) : ∀ s : UInt8,
    fnvUpdate (s &&& 63) bs = fnvValueReduced (bs.foldl fnvStepReduced s) := by
  induction bs with
  | nil => intro s; rfl
  | cons c cs ih =>
    intro s
    simp only [fnvUpdate, List.foldl_cons] at *
    rw [fnvStepReduced_low6]
    exact ih _

/-! ### rolling hash -/

open scoped UInt32.CommRing

/-- sum of a window -/
def wsum (w : List UInt8) : UInt32 := w.foldl (fun acc c => acc + c.toUInt32) 0

/-- shift-xor fold -/
def h3fold (acc : UInt32) (w : List UInt8) : UInt32 := w.foldl (fun acc c => (acc <<< 5) ^^^ c.toUInt32) acc

theorem wsum_cons (c : UInt8) (w : List UInt8) : wsum (c :: w) = c.toUInt32 + wsum w := by
  unfold wsum
  have : ∀ (l : List UInt8) (a : UInt32),
      l.foldl (fun acc c => acc + c.toUInt32) a = a + l.foldl (fun acc c => acc + c.toUInt32) 0 := by
    intro l
    induction l with
    | nil => intro a; simp
    | cons x xs ih => intro a; simp only [List.foldl_cons]; rw [ih, ih (0 + x.toUInt32)]; ring
  simp only [List.foldl_cons]
  rw [this]; ring

theorem wsum_append_single (w : List UInt8) (c : UInt8) : wsum (w ++ [c]) = wsum w + c.toUInt32 := by
  simp [wsum, List.foldl_append]

theorem weightedSum_shift (w : List UInt8) : ∀ k : UInt32,
    weightedSum w (k + 1) = weightedSum w k + wsum w := by
  induction w with
  | nil => intro k; simp [weightedSum, wsum]
  | cons c cs ih => intro k; simp only [weightedSum]; rw [ih, wsum_cons]; ring

theorem weightedSum_append_single (w : List UInt8) (c : UInt8) : ∀ k : UInt32,
    weightedSum (w ++ [c]) k = weightedSum w k + (k + (w.length : Nat).toUInt32) * c.toUInt32 := by
  induction w with
  | nil => intro k; simp [weightedSum]
  | cons x xs ih =>
    intro k
    simp only [List.cons_append, weightedSum, List.length_cons]
    rw [ih]
    have : ((xs.length + 1 : Nat).toUInt32) = (xs.length : Nat).toUInt32 + 1 := by
      apply UInt32.toNat_inj.mp
      simp [Nat.toUInt32, UInt32.toNat_add, UInt32.toNat_ofNat']
    rw [this]; ring

end Ffuzzy.Prim
