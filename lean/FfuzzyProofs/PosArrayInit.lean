/-
  The concrete position-array construction (`init_from_partial` after clearing) satisfies the
  abstract specification `PaSpec` (C17 `posArray_represents`, used by C08 / C09 / C02).
-/
import FfuzzyModel.PosArray
import FfuzzyProofs.Hyyro
namespace Ffuzzy.PosInit
open Ffuzzy

theorem getD_set_self {α} (l : List α) (i : Nat) (v d : α) (h : i < l.length) :
    (l.set i v).getD i d = v := by
  simp [List.getD_eq_getElem?_getD, h]

theorem getD_set_ne {α} (l : List α) (i j : Nat) (v d : α) (h : i ≠ j) :
    (l.set i v).getD j d = l.getD j d := by
  simp [List.getD_eq_getElem?_getD, List.getElem?_set_ne h]

theorem getD_replicate_zero (n k : Nat) : (List.replicate n (0 : BitVec 64)).getD k 0 = 0 := by
  simp [List.getD_eq_getElem?_getD, List.getElem?_replicate]
  split <;> rfl

theorem one_shl_getLsbD (i j : Nat) (hi : i < 64) :
    (((1 : BitVec 64) <<< i).getLsbD j) = decide (j = i) := by
  rw [BitVec.getLsbD_shiftLeft]
  by_cases hj : j < 64
  · by_cases hji : j < i
    · simp [hj, hji]; omega
    · simp only [hj, decide_true, hji, decide_false, Bool.not_false, Bool.true_and]
      by_cases e : j = i
      · subst e; simp
      · obtain ⟨k, hk⟩ : ∃ k, j - i = k + 1 := ⟨j - i - 1, by omega⟩
        rw [hk]
        simp [e, BitVec.getLsbD_one]
  · simp [hj]; omega

/-- invariant of the `for (i, &ch)` loop of `init_from_partial` -/
theorem initLoop_spec : ∀ (bs : List UInt8) (i : Nat) (rep : List (BitVec 64)),
    rep.length = 64 → (∀ b ∈ bs, b.toNat < 64) → i + bs.length ≤ 64 →
    (PA.initLoop bs i rep).length = 64 ∧
    ∀ (c : UInt8) (j : Nat), j < 64 →
      ((PA.initLoop bs i rep).getD c.toNat 0).getLsbD j =
        ((rep.getD c.toNat 0).getLsbD j || decide (i ≤ j ∧ bs[j - i]? = some c)) := by
  intro bs
  induction bs with
  | nil => intro i rep h _ _; simp [PA.initLoop, h]
  | cons ch rest ih =>
    intro i rep hlen hall hi
    simp only [List.length_cons] at hi
    have hch : ch.toNat < 64 := hall ch (by simp)
    have hrest : ∀ b ∈ rest, b.toNat < 64 := fun b hb => hall b (by simp [hb])
    have hlen' : (rep.set ch.toNat (rep.getD ch.toNat 0 ||| ((1 : BitVec 64) <<< i))).length = 64 := by
      simp [hlen]
    have := ih (i + 1) _ hlen' hrest (by omega)
    refine ⟨by simpa [PA.initLoop] using this.1, ?_⟩
    intro c j hj
    simp only [PA.initLoop]
    rw [this.2 c j hj]
    by_cases hc : c = ch
    · subst hc
      rw [getD_set_self _ _ _ _ (by omega), BitVec.getLsbD_or, one_shl_getLsbD i j (by omega)]
      by_cases hji : j = i
      · subst hji; simp
      · by_cases hlt : i + 1 ≤ j
        · have e : j - i = (j - (i + 1)) + 1 := by omega
          have h1 : i ≤ j := by omega
          simp [hji, hlt, h1, e]
        · have : ¬ i ≤ j := by omega
          simp [hji, hlt, this]
    · have hne : ch.toNat ≠ c.toNat := by
        intro e; apply hc; exact (UInt8.toNat_inj.mp e).symm
      rw [getD_set_ne _ _ _ _ _ hne]
      by_cases hji : j = i
      · subst hji
        have : ¬ (j + 1 ≤ j) := by omega
        simp [this]
        intro e; exact absurd e.symm hc
      · by_cases hlt : i + 1 ≤ j
        · have e : j - i = (j - (i + 1)) + 1 := by omega
          have h1 : i ≤ j := by omega
          simp [hlt, h1, e]
        · have : ¬ i ≤ j := by omega
          simp [hlt, this]

/-- C17 (`posArray_represents`, construction part): whatever the array held before,
    `init_from` yields exactly the representation of the string -/
theorem initFrom_spec (p : PA) (a : List UInt8) (hlen : a.length ≤ 64) (hall : ∀ b ∈ a, b.toNat < 64) :
    ∃ q, p.initFrom a = some q ∧ q.rep.length = 64 ∧ q.len.toNat = a.length ∧
      Hyyro.PaSpec a q.get := by
  have hall' : a.all (· < 64) = true := by
    simp only [List.all_eq_true, decide_eq_true_eq]
    intro b hb
    have := hall b hb
    exact UInt8.lt_iff_toNat_lt.mpr (by simpa using this)
  refine ⟨p.clearRepresentationOnly.initFromPartial a, by simp [PA.initFrom, hlen, hall'], ?_, ?_, ?_⟩
  · exact (initLoop_spec a 0 (List.replicate 64 0) (by simp) hall (by omega)).1
  · simp only [PA.initFromPartial]
    have : a.length < 256 := by omega
    simp [Nat.toUInt8, UInt8.toNat_ofNat', Nat.mod_eq_of_lt this]
  · intro c j hj
    have := (initLoop_spec a 0 (List.replicate 64 0) (by simp) hall (by omega)).2 c j hj
    simp only [PA.get, PA.initFromPartial, PA.clearRepresentationOnly]
    rw [this, getD_replicate_zero]
    simp

/-- the result does not depend on the previous contents (C17 `initFrom_history_indep`, array part) -/
theorem initFrom_indep (p q : PA) (a : List UInt8) : p.initFrom a = q.initFrom a := by
  simp [PA.initFrom, PA.clearRepresentationOnly, PA.initFromPartial]

end Ffuzzy.PosInit
