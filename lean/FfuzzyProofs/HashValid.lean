/-
  Validity of `FuzzyHashData` objects as a proposition, equivalence with the model's `is_valid`,
  and the effect of normalisation (C06, used by C11 / C15 / C16).
-/
import FfuzzyProofs.Collapse
namespace Ffuzzy
open Ffuzzy.Spec Ffuzzy.Collapse

theorem verifyNormLoop_eq (rangeIn : Bool) (xs : List UInt8) : ∀ (seq : Nat) (prev : UInt8), seq ≤ 2 →
    verifyNormLoop rangeIn xs seq prev =
      ((!rangeIn || xs.all (· < 64)) && verifyAux xs (some prev) (seq + 1)) := by
  induction xs with
  | nil => intro _ _ _; simp [verifyNormLoop, verifyAux]
  | cons c cs ih =>
    intro seq prev hs
    simp only [verifyNormLoop, verifyAux, List.all_cons, MAX_SEQUENCE_SIZE]
    by_cases hr : (rangeIn && decide (c ≥ 64)) = true
    · simp only [hr, if_true]
      simp only [Bool.and_eq_true, decide_eq_true_eq] at hr
      have : decide (c < 64) = false := by
        simp only [decide_eq_false_iff_not]
        exact UInt8.not_lt.mpr hr.2
      simp [hr.1, this]
    · have hr' : (rangeIn && decide (c ≥ 64)) = false := by simpa using hr
      simp only [hr', Bool.false_eq_true, if_false]
      have hc : (!rangeIn || decide (c < 64)) = true := by
        cases rangeIn
        · simp
        · simp only [Bool.true_and, decide_eq_false_iff_not, UInt8.not_le] at hr'
          simp [hr']
      by_cases hp : c = prev
      · subst hp
        simp only [beq_self_eq_true, if_true]
        by_cases h3 : seq + 1 ≥ 3
        · simp [h3]
        · simp only [h3, if_false]
          rw [ih (seq + 1) c (by omega)]
          cases rangeIn <;> simp_all
      · have h1 : (c == prev) = false := by simpa using hp
        have h2 : ¬ (some prev = some c) := by intro e; exact hp (Option.some.inj e).symm
        simp only [h1, Bool.false_eq_true, if_false, h2]
        rw [ih 0 c (by omega)]
        cases rangeIn <;> simp_all

theorem verifyAux_none (xs : List UInt8) (prev : UInt8) (h : ∀ x ∈ xs, x ≠ prev) (run : Nat) :
    verifyAux xs (some prev) run = verifyAux xs none 0 := by
  cases xs with
  | nil => rfl
  | cons c cs =>
    have hc : c ≠ prev := h c (by simp)
    have h2 : ¬ (some prev = some c) := by intro e; exact hc (Option.some.inj e).symm
    simp [verifyAux, h2]

/-- is-normalised scan started with the sentinel, on symbol strings -/
theorem verifyNormLoop_sentinel (rangeIn : Bool) (xs : List UInt8) (h : ∀ x ∈ xs, x ≠ b64Invalid) :
    verifyNormLoop rangeIn xs 0 b64Invalid =
      ((!rangeIn || xs.all (· < 64)) && decide (collapse xs = xs)) := by
  rw [verifyNormLoop_eq rangeIn xs 0 b64Invalid (by omega), verifyAux_none xs b64Invalid h]
  congr 1
  have := collapseAux_fixed_iff xs none 0
  unfold collapse
  cases hv : verifyAux xs none 0 <;> simp_all

namespace FH

/-- abstract content of a hash object -/
def abs (h : FH) : Nat × List UInt8 × List UInt8 := (h.log.toNat, h.blockHash1, h.blockHash2)

/-- validity of one block hash array: length within the array, symbols < 64, zero tail,
    collapsed when the type is a normalising one -/
structure BhValid (cap : Nat) (norm : Bool) (bh : List UInt8) (len : UInt8) : Prop where
  arr : bh.length = cap
  len_le : len.toNat ≤ cap
  sym : ∀ x ∈ bh.take len.toNat, x < 64
  tail : ∀ x ∈ bh.drop len.toNat, x = 0
  norm : norm = true → collapse (bh.take len.toNat) = bh.take len.toNat

structure Valid (s2 : Nat) (norm : Bool) (h : FH) : Prop where
  log : h.log < 31
  b1 : BhValid FULL_SIZE norm h.bh1 h.len1
  b2 : BhValid s2 norm h.bh2 h.len2

theorem sym_ne_invalid {xs : List UInt8} (h : ∀ x ∈ xs, x < 64) : ∀ x ∈ xs, x ≠ b64Invalid := by
  intro x hx e
  have := h x hx
  rw [e] at this
  exact absurd this (by decide)

theorem verifyBlockHashInput_iff (cap : Nat) (norm : Bool) (bh : List UInt8) (len : UInt8)
    (harr : bh.length = cap) (hlen : len.toNat ≤ cap) :
    verifyBlockHashInput bh len norm true true = true ↔ BhValid cap norm bh len := by
  unfold verifyBlockHashInput verifyBlockHash
  simp only [Bool.true_and, Bool.and_eq_true, Bool.not_eq_true']
  constructor
  · rintro ⟨h1, h2⟩
    have htail : ∀ x ∈ bh.drop len.toNat, x = 0 := by
      intro x hx
      have := List.any_eq_false.mp h2 x hx
      simpa using this
    cases norm with
    | false =>
      simp only [Bool.false_eq_true, if_false, Bool.not_eq_true'] at h1
      have hsym : ∀ x ∈ bh.take len.toNat, x < 64 := by
        intro x hx
        have := List.any_eq_false.mp h1 x hx
        simpa using this
      exact ⟨harr, hlen, hsym, htail, by simp⟩
    | true =>
      simp only [if_true] at h1
      -- the scan implies the range check, hence the sentinel never occurs
      have hsym : ∀ x ∈ bh.take len.toNat, x < 64 := by
        have := verifyNormLoop_eq true (bh.take len.toNat) 0 b64Invalid (by omega)
        rw [h1] at this
        simp only [Bool.not_true, Bool.false_or] at this
        have h := (Bool.and_eq_true _ _).mp this.symm
        intro x hx
        have := List.all_eq_true.mp h.1 x hx
        simpa using this
      have := verifyNormLoop_sentinel true (bh.take len.toNat) (sym_ne_invalid hsym)
      rw [h1] at this
      have h := (Bool.and_eq_true _ _).mp this.symm
      exact ⟨harr, hlen, hsym, htail, fun _ => by simpa using h.2⟩
  · rintro ⟨_, _, hsym, htail, hnorm⟩
    refine ⟨?_, ?_⟩
    · cases norm with
      | false =>
        simp only [Bool.false_eq_true, if_false, Bool.not_eq_true']
        apply List.any_eq_false.mpr
        intro x hx
        have := hsym x hx
        simpa using this
      | true =>
        simp only [if_true]
        rw [verifyNormLoop_sentinel true _ (sym_ne_invalid hsym)]
        simp only [Bool.not_true, Bool.false_or, Bool.and_eq_true, decide_eq_true_eq]
        exact ⟨List.all_eq_true.mpr (fun x hx => by simpa using hsym x hx), hnorm rfl⟩
    · apply List.any_eq_false.mpr
      intro x hx
      simp [htail x hx]

/-- the model's `is_valid` decides `Valid` (array lengths are fixed by the Rust type) -/
theorem isValid_iff (s2 : Nat) (norm : Bool) (h : FH) (h1 : h.bh1.length = FULL_SIZE) (h2 : h.bh2.length = s2) :
    FH.isValid s2 norm h = true ↔ Valid s2 norm h := by
  unfold FH.isValid BlockSize.isLogValid
  simp only [Bool.and_eq_true, decide_eq_true_eq]
  constructor
  · rintro ⟨⟨⟨⟨hl, hn1⟩, hn2⟩, hv1⟩, hv2⟩
    exact ⟨hl, (verifyBlockHashInput_iff _ _ _ _ h1 hn1).mp hv1, (verifyBlockHashInput_iff _ _ _ _ h2 hn2).mp hv2⟩
  · rintro ⟨hl, hb1, hb2⟩
    exact ⟨⟨⟨⟨hl, hb1.len_le⟩, hb2.len_le⟩, (verifyBlockHashInput_iff _ _ _ _ h1 hb1.len_le).mpr hb1⟩,
      (verifyBlockHashInput_iff _ _ _ _ h2 hb2.len_le).mpr hb2⟩

end FH
end Ffuzzy
