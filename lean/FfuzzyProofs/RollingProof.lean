/-
  C19: the rolling hash value after any byte string is the closed form over the last 7 bytes.
-/
import FfuzzyProofs.Prim
namespace Ffuzzy.Prim
open Ffuzzy
open scoped UInt32.CommRing

/-! #### the shift-xor component forgets everything older than 7 bytes -/

def h3bv (acc : BitVec 32) (w : List UInt8) : BitVec 32 :=
  w.foldl (fun acc c => (acc <<< 5) ^^^ c.toBitVec.setWidth 32) acc

theorem h3fold_toBitVec (w : List UInt8) : ∀ a : UInt32, (h3fold a w).toBitVec = h3bv a.toBitVec w := by
  induction w with
  | nil => intro a; rfl
  | cons c cs ih =>
    intro a
    simp only [h3fold, h3bv, List.foldl_cons] at *
    rw [ih]
    congr 1

theorem h3bv_split (w : List UInt8) : ∀ a : BitVec 32,
    h3bv a w = (a <<< (5 * w.length)) ^^^ h3bv 0 w := by
  induction w with
  | nil => intro a; simp [h3bv]
  | cons c cs ih =>
    intro a
    simp only [h3bv, List.foldl_cons, List.length_cons] at *
    rw [ih, ih ((0 : BitVec 32) <<< 5 ^^^ BitVec.setWidth 32 c.toBitVec)]
    rw [BitVec.shiftLeft_xor_distrib, BitVec.shiftLeft_xor_distrib]
    have e : 5 * (cs.length + 1) = 5 + 5 * cs.length := by omega
    rw [e, BitVec.shiftLeft_add]
    simp [BitVec.xor_assoc]

theorem h3bv_append (pre w : List UInt8) (a : BitVec 32) : h3bv a (pre ++ w) = h3bv (h3bv a pre) w := by
  simp [h3bv, List.foldl_append]

/-- only the last 7 bytes matter for `h3` (7·5 = 35 ≥ 32) -/
theorem h3fold_last7 (pre w : List UInt8) (hw : w.length = 7) : h3fold 0 (pre ++ w) = h3fold 0 w := by
  apply UInt32.toBitVec_inj.mp
  rw [h3fold_toBitVec, h3fold_toBitVec, h3bv_append, h3bv_split w, hw]
  rw [BitVec.shiftLeft_eq_zero (by omega)]
  simp

theorem h3fold_zeros (n : Nat) : h3fold 0 (List.replicate n 0) = 0 := by
  induction n with
  | zero => rfl
  | succ n ih =>
    rw [List.replicate_succ]
    simp only [h3fold, List.foldl_cons] at *
    have : ((0 : UInt32) <<< 5) ^^^ (0 : UInt8).toUInt32 = 0 := by decide
    rw [this]; exact ih

/-! #### the state invariant -/

/-- the logical window: last 7 bytes of `zeros ++ bs`, oldest first -/
def wof (bs : List UInt8) : List UInt8 := (List.replicate 7 0 ++ bs).drop bs.length

theorem wof_length (bs : List UInt8) : (wof bs).length = 7 := by simp [wof]; omega

theorem wof_snoc (bs : List UInt8) (c : UInt8) : wof (bs ++ [c]) = (wof bs).drop 1 ++ [c] := by
  simp only [wof, List.length_append, List.length_cons, List.length_nil, List.drop_drop]
  rw [← List.append_assoc, List.drop_append_of_le_length (by simp)]

theorem wof_eq_lastWindow (bs : List UInt8) : wof bs = lastWindow bs := by
  unfold wof lastWindow
  by_cases h : bs.length ≤ 7
  · have e : bs.length - 7 = 0 := by omega
    simp only [e, List.drop_zero]
    rw [List.drop_append_of_le_length (by simp; omega), List.drop_replicate]
  · have e : 7 ≤ bs.length := by omega
    rw [List.drop_append, List.drop_of_length_le (by simp; omega)]
    have hl : (List.drop (bs.length - 7) bs).length = 7 := by simp; omega
    simp [hl]

structure RInv (r : Roll) (bs : List UInt8) : Prop where
  idx : r.index < 7
  wlen : r.window.length = 7
  rot : r.window.drop r.index ++ r.window.take r.index = wof bs
  h1 : r.h1 = wsum (wof bs)
  h2 : r.h2 = weightedSum (wof bs) 1
  h3 : r.h3 = h3fold 0 bs

theorem rinv_new : RInv Roll.new [] := by
  refine ⟨by decide, by decide, by decide, by decide, by decide, rfl⟩

theorem len7 {l : List UInt8} (h : l.length = 7) : ∃ a b c d e f g, l = [a, b, c, d, e, f, g] := by
  match l, h with
  | [a, b, c, d, e, f, g], _ => exact ⟨a, b, c, d, e, f, g, rfl⟩

theorem rinv_step (r : Roll) (bs : List UInt8) (c : UInt8) (h : RInv r bs) :
    RInv (r.updateByByte c) (bs ++ [c]) := by
  obtain ⟨hidx, hwlen, hrot, hh1, hh2, hh3⟩ := h
  obtain ⟨w0, w1, w2, w3, w4, w5, w6, hw⟩ := len7 hwlen
  have hW := wof_snoc bs c
  rw [← hrot] at hW hh1 hh2
  have hidx' : r.index = 0 ∨ r.index = 1 ∨ r.index = 2 ∨ r.index = 3 ∨ r.index = 4 ∨ r.index = 5 ∨ r.index = 6 := by omega
  have h3' : (r.updateByByte c).h3 = h3fold 0 (bs ++ [c]) := by
    simp [Roll.updateByByte, h3fold, List.foldl_append, hh3]
  rcases hidx' with e | e | e | e | e | e | e <;>
  · refine ⟨?_, ?_, ?_, ?_, ?_, h3'⟩
    · simp [Roll.updateByByte, e]
    · simp [Roll.updateByByte, hwlen]
    · rw [hW]; simp [Roll.updateByByte, e, hw]
    · rw [hW]
      simp only [Roll.updateByByte, hh1, e, hw]
      simp [wsum]
      ring
    · rw [hW]
      simp only [Roll.updateByByte, hh1, hh2, e, hw]
      simp [wsum, weightedSum]
      ring

theorem rinv_update (bs : List UInt8) : ∀ (r : Roll) (pre : List UInt8), RInv r pre →
    RInv (r.update bs) (pre ++ bs) := by
  induction bs with
  | nil => intro r pre h; simpa [Roll.update] using h
  | cons c cs ih =>
    intro r pre h
    have := ih (r.updateByByte c) (pre ++ [c]) (rinv_step r pre c h)
    simpa [Roll.update] using this

/-- **C19 (rolling hash).** After any byte sequence the value equals, in 32-bit wrapping arithmetic,
    the closed form over the last seven bytes (zero padded): sum + position-weighted sum + shift-xor fold. -/
theorem roll_closed_form (bs : List UInt8) : (Roll.new.update bs).value = rollSpec bs := by
  have h := rinv_update bs Roll.new [] rinv_new
  simp only [List.nil_append] at h
  unfold Roll.value rollSpec rollSpecWindow
  rw [h.h1, h.h2, h.h3, ← wof_eq_lastWindow]
  congr 1
  -- h3 over everything = h3 over the logical window
  have hz : h3fold 0 bs = h3fold 0 (List.replicate 7 0 ++ bs) := by
    have : h3fold 0 (List.replicate 7 0 ++ bs) = h3fold (h3fold 0 (List.replicate 7 0)) bs := by
      simp [h3fold, List.foldl_append]
    rw [this, h3fold_zeros]
  have hsplit : List.replicate 7 (0 : UInt8) ++ bs = (List.replicate 7 0 ++ bs).take bs.length ++ wof bs := by
    simp [wof]
  show h3fold 0 bs = h3fold 0 (wof bs)
  rw [hz, hsplit, h3fold_last7 _ _ (wof_length bs)]

/-- the value depends on the last seven bytes only -/
theorem roll_window_only (xs ys : List UInt8) (h : lastWindow xs = lastWindow ys) :
    (Roll.new.update xs).value = (Roll.new.update ys).value := by
  rw [roll_closed_form, roll_closed_form, rollSpec, rollSpec, h]

end Ffuzzy.Prim
