/-
  The block-size field parser (`parse_block_size_from_bytes`): it accepts exactly a non-empty
  digit string without leading zero, followed by ':', whose value is one of the 31 block sizes.
-/
import FfuzzyModel.Spec.Grammar
import FfuzzyProofs.Properties.C20
namespace Ffuzzy.ParseBs
open Ffuzzy Ffuzzy.Spec

def decFrom (v : Nat) (ds : List UInt8) : Nat := ds.foldl (fun acc d => acc * 10 + (d - 48).toNat) v

theorem decFrom_ge (ds : List UInt8) : ∀ v, v ≤ decFrom v ds := by
  induction ds with
  | nil => intro v; exact Nat.le_refl _
  | cons d ds ih =>
    intro v
    simp only [decFrom, List.foldl_cons]
    have := ih (v * 10 + (d - 48).toNat)
    unfold decFrom at this
    omega

def digits (cs : List UInt8) : List UInt8 := cs.takeWhile isDigit
def afterDigits (cs : List UInt8) : List UInt8 := cs.drop (digits cs).length

theorem digits_cons_digit (c : UInt8) (cs : List UInt8) (h : isDigit c = true) : digits (c :: cs) = c :: digits cs := by
  simp [digits, List.takeWhile, h]
theorem digits_cons_other (c : UInt8) (cs : List UInt8) (h : isDigit c = false) : digits (c :: cs) = [] := by
  simp [digits, List.takeWhile, h]
theorem after_cons_digit (c : UInt8) (cs : List UInt8) (h : isDigit c = true) : afterDigits (c :: cs) = afterDigits cs := by
  simp [afterDigits, digits_cons_digit c cs h]
theorem after_cons_other (c : UInt8) (cs : List UInt8) (h : isDigit c = false) : afterDigits (c :: cs) = c :: cs := by
  simp [afterDigits, digits_cons_other c cs h]

/-- the acceptance condition of the block-size field, from a scan state with value `v` after `index` digits -/
def Accept (cs : List UInt8) (index v : Nat) (bs : UInt32) (off : Nat) : Prop :=
  (afterDigits cs).head? = some 58 ∧ 0 < index + (digits cs).length ∧
  (index = 0 → (digits cs).head? ≠ some 48) ∧ decFrom v (digits cs) < 4294967296 ∧
  BlockSize.isValid (decFrom v (digits cs)).toUInt32 = true ∧ bs = (decFrom v (digits cs)).toUInt32 ∧
  off = index + (digits cs).length + 1

theorem digit_val (ch : UInt8) (h : isDigit ch = true) : (ch - 48).toNat ≤ 9 ∧ ((ch - 48).toNat = 0 ↔ ch = 48) := by
  unfold isDigit at h
  simp only [Bool.and_eq_true, decide_eq_true_eq] at h
  have h1 : (48 : UInt8).toNat ≤ ch.toNat := UInt8.le_iff_toNat_le.mp h.1
  have h2 : ch.toNat ≤ (57 : UInt8).toNat := UInt8.le_iff_toNat_le.mp h.2
  have e : (ch - 48).toNat = ch.toNat - 48 := by
    rw [UInt8.toNat_sub_of_le _ _ h.1]; rfl
  have e48 : (48 : UInt8).toNat = 48 := rfl
  have e57 : (57 : UInt8).toNat = 57 := rfl
  refine ⟨by omega, ?_⟩
  constructor
  · intro hz; apply UInt8.toNat_inj.mp; omega
  · intro hz; rw [hz]; rfl

theorem toU32_toNat (n : Nat) (h : n < 4294967296) : n.toUInt32.toNat = n := by
  unfold Nat.toUInt32; rw [UInt32.toNat_ofNat']; exact Nat.mod_eq_of_lt h

/-- out of range: the loop can only fail -/
theorem loop_outOfRange : ∀ (cs : List UInt8) (index : Nat) (bs : UInt32),
    ∀ r, parseBlockSizeLoop cs index bs false ≠ .ok r := by
  intro cs
  induction cs with
  | nil => intro _ _ r h; simp [parseBlockSizeLoop] at h
  | cons ch rest ih =>
    intro index bs r h
    rw [parseBlockSizeLoop] at h
    split at h
    · simp only [Bool.false_eq_true, if_false] at h
      exact ih _ _ r h
    · split at h
      · split at h
        · simp at h
        · simp at h
      · simp at h

/-- the scanning loop accepts exactly `Accept` -/
theorem loop_spec : ∀ (cs : List UInt8) (index : Nat) (bs : UInt32),
    (0 < index → 0 < bs.toNat) → (index = 0 → bs.toNat = 0) →
    ∀ b off, parseBlockSizeLoop cs index bs true = .ok (b, off) ↔ Accept cs index bs.toNat b off := by
  intro cs
  induction cs with
  | nil =>
    intro index bs _ _ b off
    simp [parseBlockSizeLoop, Accept, afterDigits, digits]
  | cons ch rest ih =>
    intro index bs hpos hzero b off
    have hbs := bs.toNat_lt
    by_cases hd : isDigit ch = true
    · have hd' : (decide (48 ≤ ch) && decide (ch ≤ 57)) = true := hd
      obtain ⟨hv9, hv0⟩ := digit_val ch hd
      unfold Accept
      rw [digits_cons_digit ch rest hd, after_cons_digit ch rest hd]
      have hfold : decFrom bs.toNat (ch :: digits rest) = decFrom (bs.toNat * 10 + (ch - 48).toNat) (digits rest) := rfl
      rw [hfold]
      rw [parseBlockSizeLoop]
      simp only [hd', if_true]
      by_cases hlt : bs.toNat * 10 + (ch - 48).toNat < 4294967296
      · rw [if_pos hlt]
        by_cases hz : bs.toNat * 10 + (ch - 48).toNat = 0
        · rw [if_pos hz]
          constructor
          · intro h; simp at h
          · rintro ⟨_, _, h3, _⟩
            have hi : index = 0 := by
              by_cases e : index = 0
              · exact e
              · have := hpos (by omega); omega
            exact absurd (by simp [hv0.mp (by omega)]) (h3 hi)
        · rw [if_neg hz]
          have hto : (bs.toNat * 10 + (ch - 48).toNat).toUInt32.toNat = bs.toNat * 10 + (ch - 48).toNat :=
            toU32_toNat _ hlt
          have := ih (index + 1) (bs.toNat * 10 + (ch - 48).toNat).toUInt32
            (fun _ => by rw [hto]; omega) (fun h => by omega) b off
          rw [this]
          unfold Accept
          rw [hto]
          simp only [List.length_cons, List.head?_cons]
          constructor
          · rintro ⟨a1, a2, a3, a4, a5, a6, a7⟩
            refine ⟨a1, by omega, ?_, a4, a5, a6, by omega⟩
            intro hi he
            have : ch = 48 := by simpa using he
            have hb0 := hzero hi
            have := hv0.mpr this
            omega
          · rintro ⟨a1, a2, a3, a4, a5, a6, a7⟩
            exact ⟨a1, by omega, fun h => by omega, a4, a5, a6, by omega⟩
      · rw [if_neg hlt]
        constructor
        · intro h; exact absurd h (loop_outOfRange rest _ _ _)
        · rintro ⟨_, _, _, h4, _⟩
          have := decFrom_ge (digits rest) (bs.toNat * 10 + (ch - 48).toNat)
          omega
    · have hd' : isDigit ch = false := by simpa using hd
      have hd'' : (decide (48 ≤ ch) && decide (ch ≤ 57)) = false := hd'
      unfold Accept
      rw [digits_cons_other ch rest hd', after_cons_other ch rest hd']
      rw [parseBlockSizeLoop]
      simp only [hd'', Bool.false_eq_true, if_false, List.length_nil, List.head?_cons, List.head?_nil]
      have hdf : decFrom bs.toNat [] = bs.toNat := rfl
      rw [hdf]
      have hbb : bs.toNat.toUInt32 = bs := by
        apply UInt32.toNat_inj.mp
        exact toU32_toNat _ hbs
      rw [hbb]
      by_cases h58 : ch = 58
      · subst h58
        simp only [beq_self_eq_true, if_true]
        by_cases hi : index = 0
        · rw [if_pos hi]
          constructor
          · intro h; simp at h
          · rintro ⟨_, h2, _⟩; omega
        · rw [if_neg hi]
          simp only [Bool.not_true, Bool.false_eq_true, if_false]
          by_cases hv : BlockSize.isValid bs = true
          · simp only [hv, Bool.not_true, Bool.false_eq_true, if_false]
            constructor
            · intro h
              have := Except.ok.inj h
              simp only [Prod.mk.injEq] at this
              exact ⟨by first | rfl | trivial, by omega, fun h => absurd h hi, hbs, by first | rfl | trivial, this.1.symm, by omega⟩
            · rintro ⟨_, _, _, _, _, a6, a7⟩
              rw [a6, a7]
          · have hv' : BlockSize.isValid bs = false := by simpa using hv
            simp only [hv', Bool.not_false, if_true]
            constructor
            · intro h; simp at h
            · rintro ⟨_, _, _, _, a5, _⟩; exact absurd a5 (by simp)
      · have b58 : (ch == 58) = false := by simpa using h58
        simp only [b58, Bool.false_eq_true, if_false]
        constructor
        · intro h; simp at h
        · rintro ⟨a1, _⟩
          have := Option.some.inj a1
          exact absurd this h58

/-- every error of the block-size field parser names the block size -/
theorem loop_error_origin : ∀ (cs : List UInt8) (index : Nat) (bs : UInt32) (ir : Bool) (e : ParseError),
    parseBlockSizeLoop cs index bs ir = .error e → e.origin = .blockSize := by
  intro cs
  induction cs with
  | nil => intro _ _ _ e h; simp [parseBlockSizeLoop] at h; rw [← h]
  | cons ch rest ih =>
    intro index bs ir e h
    rw [parseBlockSizeLoop] at h
    split at h
    · split at h
      · simp only at h
        split at h
        · split at h
          · have := Except.error.inj h; rw [← this]
          · exact ih _ _ _ _ h
        · exact ih _ _ _ _ h
      · exact ih _ _ _ _ h
    · split at h
      · split at h
        · have := Except.error.inj h; rw [← this]
        · split at h
          · have := Except.error.inj h; rw [← this]
          · split at h
            · have := Except.error.inj h; rw [← this]
            · simp at h
      · have := Except.error.inj h; rw [← this]

end Ffuzzy.ParseBs
