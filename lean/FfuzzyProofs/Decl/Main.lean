/-
  Reference engine = declarative specification, part 4: block size choice and the whole digest.
-/
import FfuzzyProofs.Decl.Digest
import FfuzzyProofs.Properties.C13
namespace Ffuzzy.Decl
open Ffuzzy Ffuzzy.Spec Ffuzzy.GenSim

/-- `find?` over an initial segment of the naturals -/
theorem find_range (P : Nat → Bool) : ∀ n : Nat,
    match (List.range n).find? P with
    | some a => a < n ∧ P a = true ∧ ∀ m, m < a → P m = false
    | none => ∀ m, m < n → P m = false := by
  intro n
  induction n with
  | zero => simp
  | succ n ih =>
    rw [List.range_succ, List.find?_append]
    cases hf : (List.range n).find? P with
    | some a =>
      rw [hf] at ih
      simp only [Option.some_or]
      exact ⟨by omega, ih.2.1, ih.2.2⟩
    | none =>
      rw [hf] at ih
      simp only [Option.none_or, List.find?_cons, List.find?_nil]
      cases hp : P n with
      | true => exact ⟨by omega, hp, ih⟩
      | false =>
        intro m hm
        by_cases e : m = n
        · rw [e]; exact hp
        · exact ih m (by omega)

/-- the declarative initial index and the engine's agree up to the cap at 30 -/
theorem initial_eq (n : Nat) : min 30 (initialLog n) = min 30 (Gen.logBlockSizeFromInputSize n 0) := by
  obtain ⟨hup, hlow⟩ := C13.initial_index_spec n
  unfold initialLog
  have hfr := find_range (fun k => decide (192 * 2 ^ k ≥ n)) 64
  cases hf : (List.range 64).find? (fun k => decide (192 * 2 ^ k ≥ n)) with
  | some a =>
    rw [hf] at hfr
    simp only [decide_eq_true_eq, decide_eq_false_iff_not, Option.getD_some] at hfr ⊢
    obtain ⟨ha, hPa, hmin⟩ := hfr
    -- `a` and the engine's index are both the least index whose size bound covers `n`
    have : a = Gen.logBlockSizeFromInputSize n 0 := by
      rcases Nat.lt_trichotomy a (Gen.logBlockSizeFromInputSize n 0) with h | h | h
      · have := hlow a h; omega
      · exact h
      · have := hmin _ h; omega
    rw [this]
  | none =>
    rw [hf] at hfr
    simp only [decide_eq_false_iff_not, Option.getD_none] at hfr ⊢
    have : 64 ≤ Gen.logBlockSizeFromInputSize n 0 := by
      by_cases h : Gen.logBlockSizeFromInputSize n 0 < 64
      · exact absurd hup (hfr _ h)
      · omega
    omega

/-- halving while fewer than 32 pieces: the same walk on both sides -/
theorem guess_eq (bs : List UInt8) : ∀ K, K ≤ 30 → naiveGuess (Naive.feed bs) K = chooseLog.go (rollVals bs) K := by
  intro K
  induction K with
  | zero => intro _; rfl
  | succ K ih =>
    intro hK
    rw [naiveGuess, chooseLog.go, (linv_feed bs (K + 1) hK).idx]
    split
    · exact ih (by omega)
    · rfl

theorem rollSpec_nil : rollSpec [] = 0 := by decide

theorem nz_eq (bs : List UInt8) :
    ((Naive.feed bs).roll.value != 0) = ((rollVals bs).getLast?.getD 0 != 0) := by
  rw [(ninv_feed bs).roll, Prim.roll_closed_form]
  cases bs using snoc_induction with
  | hnil => rw [rollSpec_nil]; rfl
  | hsnoc p c _ => rw [rollVals_snoc]; simp

theorem H_all (bs : List UInt8) : H bs 0 bs.length = fnvUpdate fnvInit bs := by
  unfold H; simp

/-- **the reference engine computes the declarative CTPH digest** -/
theorem naive_eq_declarative (bs : List UInt8) (trunc : Bool) (s2 : Nat) (hs2 : s2 = 32 ∨ s2 = 64) :
    naiveDigest bs trunc s2 = Spec.digest bs trunc s2 := by
  have hN := ninv_feed bs
  unfold naiveDigest Naive.digest Spec.digest digestOf analyze
  simp only [List.size_toArray]
  rw [hN.size]
  by_cases hbig : Gen.MAX_INPUT_SIZE < bs.length
  · rw [if_pos hbig, if_pos hbig]
  · rw [if_neg hbig, if_neg hbig]
    have hk : naiveGuess (Naive.feed bs) (min 30 (Gen.logBlockSizeFromInputSize bs.length 0)) =
        chooseLog (rollVals bs) bs.length := by
      unfold chooseLog
      rw [initial_eq]
      exact guess_eq bs _ (Nat.min_le_left _ _)
    have hkle : chooseLog (rollVals bs) bs.length ≤ 30 := by
      rw [← hk]
      exact Nat.le_trans (naiveGuess_le _ _) (Nat.min_le_left _ _)
    rw [hk, nz_eq]
    generalize chooseLog (rollVals bs) bs.length = k at hkle
    have h1 := digest1_eq _ bs _ (linv_feed bs k hkle) ((rollVals bs).getLast?.getD 0 != 0)
    rw [h1]
    by_cases hk1 : k + 1 ≤ 30
    · rw [if_pos hk1]
      have h2 := digest2_eq _ bs _ (linv_feed bs (k + 1) hk1) ((rollVals bs).getLast?.getD 0 != 0) trunc s2 hs2
      rw [h2]
      generalize withTail (levelDigest bs.toArray (cuts (rollVals bs) (k + 1)) (if trunc = true then 32 else 64)).1
        (levelDigest bs.toArray (cuts (rollVals bs) (k + 1)) (if trunc = true then 32 else 64)).2
        (if trunc = true then 32 else 64) ((rollVals bs).getLast?.getD 0 != 0) = B
      cases hc : (!trunc && decide (s2 = 32) && decide (B.length > 32)) <;> simp
    · rw [if_neg hk1]
      have hk30 : k + 1 = 31 := by omega
      rw [hk30]
      obtain ⟨v1, v2, v3, v4⟩ := hN.virgin 31 (by omega) hN.top
      rw [digest2_virgin _ hN.top v4 v3 (by rw [v1, v2]) _ trunc s2 hs2, v1, pieceHash_eq, H_all]
      simp only [withTail_unfold]
      cases hnz : ((rollVals bs).getLast?.getD 0 != 0) with
      | false => simp
      | true =>
        have hc : ¬ (([] : List UInt8).length = if trunc = true then 32 else 64) := by cases trunc <;> simp
        simp only [if_true, hc, if_false, List.nil_append, List.length_singleton]
        have : ¬ (1 > 32) := by omega
        simp [this]

end Ffuzzy.Decl
