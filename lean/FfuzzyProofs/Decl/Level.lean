/-
  Reference engine = declarative specification, part 2: what one level of the reference engine
  holds after a prefix, in terms of the declarative cut positions.
-/
import FfuzzyProofs.Decl.Cuts
import FfuzzyProofs.GenSim.NaiveFacts
namespace Ffuzzy.Decl
open Ffuzzy Ffuzzy.Spec Ffuzzy.GenSim

/-- 6-bit FNV of `p[lo..hi)` -/
def H (p : List UInt8) (lo hi : Nat) : UInt8 := fnvUpdate fnvInit ((p.drop lo).take (hi - lo))

theorem H_snoc_old (p : List UInt8) (c : UInt8) (lo hi : Nat) (hhi : hi ≤ p.length) : H (p ++ [c]) lo hi = H p lo hi := by
  unfold H
  congr 1
  by_cases hlo : lo ≤ hi
  · rw [List.drop_append_of_le_length (by omega), List.take_append_of_le_length (by simp; omega)]
  · have : hi - lo = 0 := by omega
    rw [this]; simp

theorem H_snoc_end (p : List UInt8) (c : UInt8) (lo : Nat) (hlo : lo ≤ p.length) :
    H (p ++ [c]) lo (p.length + 1) = fnvStep (H p lo p.length) c := by
  unfold H
  rw [List.drop_append_of_le_length hlo]
  have e1 : ((p.drop lo ++ [c]).take (p.length + 1 - lo)) = p.drop lo ++ [c] := by
    apply List.take_of_length_le; simp; omega
  have e2 : (p.drop lo).take (p.length - lo) = p.drop lo := by
    apply List.take_of_length_le; simp
  rw [e1, e2]
  simp [fnvUpdate, List.foldl_append]

theorem H_empty (p : List UInt8) (n : Nat) : H p n n = fnvInit := by
  unfold H; simp [fnvUpdate]

/-- start of the piece the running hash with piece limit `m` is accumulating -/
def startAt (cs : List Nat) (m : Nat) : Nat := if cs.length = 0 then 0 else cs.getD (min cs.length m - 1) 0

/-- start of piece `j` -/
def prevCut (cs : List Nat) (j : Nat) : Nat := if j = 0 then 0 else cs.getD (j - 1) 0

theorem getD_snoc (cs : List Nat) (x : Nat) (j : Nat) :
    (cs ++ [x]).getD j 0 = if j < cs.length then cs.getD j 0 else if j = cs.length then x else 0 := by
  rw [List.getD_eq_getElem?_getD, List.getD_eq_getElem?_getD]
  by_cases h : j < cs.length
  · rw [if_pos h, List.getElem?_append_left h]
  · rw [if_neg h, List.getElem?_append_right (by omega)]
    by_cases e : j = cs.length
    · rw [if_pos e, e]; simp
    · rw [if_neg e]
      have : j - cs.length ≠ 0 := by omega
      cases hj : j - cs.length with
      | zero => exact absurd hj this
      | succ m => simp

/-- one level of the reference engine after the prefix `p`, described by the cut positions `cs` -/
structure LInv (c : Ctx) (p : List UInt8) (cs : List Nat) : Prop where
  idx : c.idx = min cs.length 63
  cell : ∀ j, j < c.idx → c.bh.getD j NIL = H p (prevCut cs j) (cs.getD j 0)
  c63 : c.bh.getD 63 NIL = if 64 ≤ cs.length then H p (cs.getD 62 0) (cs.getLast?.getD 0) else NIL
  hF : c.hFull = H p (startAt cs 63) p.length
  hH : c.hHalf = H p (startAt cs 31) p.length
  ch : c.chHalf = if 32 ≤ cs.length then H p (cs.getD 30 0) (cs.getLast?.getD 0) else NIL
  bnd : ∀ x ∈ cs, x ≤ p.length
  size : c.bh.size = 64

theorem linv_new : LInv Ctx.new [] [] := by
  refine ⟨rfl, fun j hj => absurd hj (Nat.not_lt_zero _), ?_, rfl, rfl, rfl, fun x hx => by simp at hx, WF_new.size⟩
  simp only [List.length_nil, Nat.not_succ_le_zero, if_false]
  exact getD_replicate_self 64 63 NIL

theorem startAt_le (cs : List Nat) (m n : Nat) (h : ∀ x ∈ cs, x ≤ n) : startAt cs m ≤ n := by
  unfold startAt
  split
  · omega
  · next hne =>
    rw [List.getD_eq_getElem?_getD]
    have hlt : min cs.length m - 1 < cs.length := by omega
    rw [List.getElem?_eq_getElem hlt]
    exact h _ (List.getElem_mem hlt)

theorem getD_le (cs : List Nat) (j n : Nat) (h : ∀ x ∈ cs, x ≤ n) : cs.getD j 0 ≤ n := by
  rw [List.getD_eq_getElem?_getD]
  by_cases hj : j < cs.length
  · rw [List.getElem?_eq_getElem hj]; exact h _ (List.getElem_mem hj)
  · rw [List.getElem?_eq_none (by omega)]; simp

theorem getLast_le (cs : List Nat) (n : Nat) (h : ∀ x ∈ cs, x ≤ n) : cs.getLast?.getD 0 ≤ n := by
  cases hl : cs.getLast? with
  | none => simp
  | some x => exact h x (List.mem_of_getLast? hl)

/-- a byte that does not end a piece at this level -/
theorem linv_upd (c : Ctx) (p : List UInt8) (cs : List Nat) (ch : UInt8) (h : LInv c p cs) :
    LInv (upd ch c) (p ++ [ch]) cs := by
  have hb := h.bnd
  refine ⟨by rw [upd_idx]; exact h.idx, ?_, ?_, ?_, ?_, ?_, fun x hx => by have := hb x hx; simp; omega, by rw [upd_bh]; exact h.size⟩
  · intro j hj
    rw [upd_idx] at hj
    rw [upd_bh, h.cell j hj, H_snoc_old _ _ _ _ (getD_le cs j _ hb)]
  · rw [upd_bh, h.c63]
    split
    · rw [H_snoc_old _ _ _ _ (getLast_le cs _ hb)]
    · rfl
  · rw [upd_hFull, h.hF, List.length_append, List.length_singleton, H_snoc_end _ _ _ (startAt_le cs 63 _ hb)]
  · rw [upd_hHalf, h.hH, List.length_append, List.length_singleton, H_snoc_end _ _ _ (startAt_le cs 31 _ hb)]
  · rw [upd_chHalf, h.ch]
    split
    · rw [H_snoc_old _ _ _ _ (getLast_le cs _ hb)]
    · rfl

theorem getLast_snoc (cs : List Nat) (x : Nat) : (cs ++ [x]).getLast?.getD 0 = x := by simp

/-- the byte ends a piece at this level (state already updated with the byte) -/
theorem linv_store (c : Ctx) (p : List UInt8) (cs : List Nat) (h : LInv c p cs) :
    LInv c.storePiece p (cs ++ [p.length]) := by
  have hb := h.bnd
  have hidx := h.idx
  have hsz := h.size
  have hbnd : ∀ x ∈ cs ++ [p.length], x ≤ p.length := by
    intro x hx
    rcases List.mem_append.mp hx with h1 | h1
    · exact hb x h1
    · simp at h1; omega
  have hold : ∀ j, j < cs.length → (cs ++ [p.length]).getD j 0 = cs.getD j 0 := by
    intro j hj; rw [getD_snoc, if_pos hj]
  have hprev : ∀ j, j ≤ cs.length → prevCut (cs ++ [p.length]) j = prevCut cs j := by
    intro j hj
    unfold prevCut
    split
    · rfl
    · rw [hold _ (by omega)]
  unfold Ctx.storePiece
  simp only
  by_cases h63 : c.idx < 63
  · have hlen : c.idx = cs.length := by omega
    simp only [h63, if_true]
    have hcell : ∀ j, j < c.idx + 1 → (c.bh.setIfInBounds c.idx c.hFull).getD j NIL =
        H p (prevCut (cs ++ [p.length]) j) ((cs ++ [p.length]).getD j 0) := by
      intro j hj
      by_cases e : j = c.idx
      · rw [e, getD_setIfInBounds_same _ _ _ _ (by omega), h.hF, hlen, getD_snoc, if_neg (by omega), if_pos rfl]
        congr 1
        unfold startAt prevCut
        by_cases e0 : cs.length = 0
        · rw [if_pos e0, if_pos e0]
        · rw [if_neg e0, if_neg e0, hold _ (by omega)]
          congr 1; omega
      · rw [getD_setIfInBounds_ne _ _ _ _ _ (Ne.symm e), h.cell j (by omega), hprev j (by omega), hold j (by omega)]
    have hc63 : (c.bh.setIfInBounds c.idx c.hFull).getD 63 NIL =
        if 64 ≤ (cs ++ [p.length]).length then H p ((cs ++ [p.length]).getD 62 0) ((cs ++ [p.length]).getLast?.getD 0) else NIL := by
      rw [getD_setIfInBounds_ne _ _ _ _ _ (by omega), h.c63]
      simp only [List.length_append, List.length_singleton]
      rw [if_neg (by omega), if_neg (by omega)]
    have hF' : fnvInit = H p (startAt (cs ++ [p.length]) 63) p.length := by
      unfold startAt
      simp only [List.length_append, List.length_singleton]
      rw [if_neg (by omega)]
      have : min (cs.length + 1) 63 - 1 = cs.length := by omega
      rw [this, getD_snoc, if_neg (by omega), if_pos rfl, H_empty]
    by_cases h32 : c.idx + 1 < 32
    · simp only [h32, if_true]
      refine ⟨by simp; omega, hcell, hc63, hF', ?_, ?_, hbnd, by simp [hsz]⟩
      · show fnvInit = _
        unfold startAt
        simp only [List.length_append, List.length_singleton]
        rw [if_neg (by omega)]
        have : min (cs.length + 1) 31 - 1 = cs.length := by omega
        rw [this, getD_snoc, if_neg (by omega), if_pos rfl, H_empty]
      · show NIL = _
        simp only [List.length_append, List.length_singleton]
        rw [if_neg (by omega)]
    · simp only [h32, if_false]
      have hs31 : startAt (cs ++ [p.length]) 31 = cs.getD 30 0 ∧ startAt cs 31 = cs.getD 30 0 := by
        unfold startAt
        simp only [List.length_append, List.length_singleton]
        rw [if_neg (by omega), if_neg (by omega)]
        have e1 : min (cs.length + 1) 31 - 1 = 30 := by omega
        have e2 : min cs.length 31 - 1 = 30 := by omega
        rw [e1, e2, hold 30 (by omega)]
        exact ⟨rfl, rfl⟩
      refine ⟨by simp; omega, hcell, hc63, hF', ?_, ?_, hbnd, by simp [hsz]⟩
      · show c.hHalf = _
        rw [h.hH, hs31.1, hs31.2]
      · show c.hHalf = _
        simp only [List.length_append, List.length_singleton]
        rw [if_pos (by omega), hold 30 (by omega), getLast_snoc, h.hH, hs31.2]
  · simp only [h63, if_false]
    have hlen : 63 ≤ cs.length := by omega
    have hi63 : c.idx = 63 := by omega
    have hs63 : startAt (cs ++ [p.length]) 63 = cs.getD 62 0 ∧ startAt cs 63 = cs.getD 62 0 := by
      unfold startAt
      simp only [List.length_append, List.length_singleton]
      rw [if_neg (by omega), if_neg (by omega)]
      have e1 : min (cs.length + 1) 63 - 1 = 62 := by omega
      have e2 : min cs.length 63 - 1 = 62 := by omega
      rw [e1, e2, hold 62 (by omega)]
      exact ⟨rfl, rfl⟩
    have hs31 : startAt (cs ++ [p.length]) 31 = cs.getD 30 0 ∧ startAt cs 31 = cs.getD 30 0 := by
      unfold startAt
      simp only [List.length_append, List.length_singleton]
      rw [if_neg (by omega), if_neg (by omega)]
      have e1 : min (cs.length + 1) 31 - 1 = 30 := by omega
      have e2 : min cs.length 31 - 1 = 30 := by omega
      rw [e1, e2, hold 30 (by omega)]
      exact ⟨rfl, rfl⟩
    refine ⟨by simp; omega, ?_, ?_, ?_, ?_, ?_, hbnd, by simp [hsz]⟩
    · intro j hj
      simp only at hj
      rw [getD_setIfInBounds_ne _ _ _ _ _ (by omega), h.cell j hj, hprev j (by omega), hold j (by omega)]
    · show (c.bh.setIfInBounds c.idx c.hFull).getD 63 NIL = _
      rw [hi63, getD_setIfInBounds_same _ _ _ _ (by omega)]
      simp only [List.length_append, List.length_singleton]
      rw [if_pos (by omega), hold 62 (by omega), getLast_snoc, h.hF, hs63.2]
    · show c.hFull = _
      rw [h.hF, hs63.1, hs63.2]
    · show c.hHalf = _
      rw [h.hH, hs31.1, hs31.2]
    · show c.hHalf = _
      simp only [List.length_append, List.length_singleton]
      rw [if_pos (by omega), hold 30 (by omega), getLast_snoc, h.hH, hs31.2]

theorem feed_snoc (p : List UInt8) (c : UInt8) : Naive.feed (p ++ [c]) = (Naive.feed p).step c := by
  unfold Naive.feed; rw [List.foldl_append]; rfl

/-- **every level of the reference engine is described by the declarative cut positions** -/
theorem linv_feed (p : List UInt8) : ∀ k, k ≤ 30 → LInv ((Naive.feed p).at k) p (cuts (rollVals p) k) := by
  induction p using snoc_induction with
  | hnil => intro k _; rw [show Naive.feed [] = Naive.new from rfl, at_new, cuts_nil]; exact linv_new
  | hsnoc p c ih =>
    intro k hk
    have hN := ninv_feed p
    have hv : ((Naive.feed p).roll.updateByByte c).value = rollSpec (p ++ [c]) := by
      rw [hN.roll, ← Prim.roll_closed_form]
      simp [Roll.update, List.foldl_append]
    rw [feed_snoc, at_step _ c k (by rw [hN.lvSize]; omega), levelStep_eq, hv, cuts_snoc p c k hk]
    have hu := linv_upd _ p _ c (ih k hk)
    split
    · next ht =>
      have := linv_store _ _ _ hu
      simpa using this
    · next ht =>
      rw [List.append_nil]
      exact hu

/-- level 31 never ends a piece -/
theorem level31_virgin (p : List UInt8) : ((Naive.feed p).at 31).idx = 0 := (ninv_feed p).top

end Ffuzzy.Decl
