/-
  Reference engine = declarative specification, part 1: rolling values and cut positions of the
  declarative digest (`Spec/Ctph.lean`) satisfy the step recurrences of the reference engine.
-/
import FfuzzyModel.Spec.Ctph
import FfuzzyModel.Spec.Naive
import FfuzzyProofs.RollingProof
namespace Ffuzzy.Decl
open Ffuzzy Ffuzzy.Spec Ffuzzy.Prim

/-- induction from the right -/
theorem snoc_induction {α : Type} {P : List α → Prop} (hnil : P [])
    (hsnoc : ∀ (xs : List α) (x : α), P xs → P (xs ++ [x])) : ∀ l, P l := by
  intro l
  have : ∀ r : List α, P r.reverse := by
    intro r
    induction r with
    | nil => exact hnil
    | cons x xs ih => rw [List.reverse_cons]; exact hsnoc _ _ ih
  have h := this l.reverse
  rwa [List.reverse_reverse] at h

theorem rollValsAux_snoc : ∀ (cs : List UInt8) (w : List UInt8) (c : UInt8),
    rollValsAux w (cs ++ [c]) =
      rollValsAux w cs ++ [rollSpecWindow ((cs.foldl (fun w x => w.drop 1 ++ [x]) w).drop 1 ++ [c])] := by
  intro cs
  induction cs with
  | nil => intro w c; simp [rollValsAux]
  | cons x xs ih => intro w c; simp only [List.cons_append, rollValsAux, List.foldl_cons]; rw [ih]

theorem window_fold (p : List UInt8) : p.foldl (fun w x => w.drop 1 ++ [x]) (List.replicate 7 0) = wof p := by
  induction p using snoc_induction with
  | hnil => rfl
  | hsnoc xs x ih => rw [List.foldl_append]; simp only [List.foldl_cons, List.foldl_nil]; rw [ih, wof_snoc]

/-- the list of rolling values grows by the closed-form value of the extended prefix -/
theorem rollVals_snoc (p : List UInt8) (c : UInt8) : rollVals (p ++ [c]) = rollVals p ++ [rollSpec (p ++ [c])] := by
  unfold rollVals
  rw [rollValsAux_snoc, window_fold]
  congr 2
  unfold rollSpec
  rw [← wof_eq_lastWindow, wof_snoc]

theorem rollVals_length (p : List UInt8) : (rollVals p).length = p.length := by
  induction p using snoc_induction with
  | hnil => rfl
  | hsnoc xs x ih => rw [rollVals_snoc]; simp [ih]

/-- the declarative cut condition is the reference trigger -/
theorem trig_iff_mod (k : Nat) (hk : k ≤ 30) (v : UInt32) :
    trig k v = decide (v.toNat % (3 * 2 ^ k) = 3 * 2 ^ k - 1) := by
  unfold trig
  have hv := v.toNat_lt
  have hp : 2 ^ k ≤ 2 ^ 30 := Nat.pow_le_pow_right (by omega) hk
  have hp0 := Nat.two_pow_pos k
  have e30 : (2 : Nat) ^ 30 = 1073741824 := by decide
  have e32 : (2 : Nat) ^ 32 = 4294967296 := by decide
  by_cases hmax : v.toNat = 4294967295
  · -- `v + 1` wraps to zero; `2^32 - 1` is not `-1` modulo `3·2^k`
    have hz : v + 1 = 0 := by
      apply UInt32.toNat_inj.mp
      rw [UInt32.toNat_add, hmax]; rfl
    rw [hz]
    simp only [bne_self_eq_false, Bool.false_and]
    symm
    simp only [decide_eq_false_iff_not]
    intro h
    -- then `3·2^k` divides `2^32`
    have hd : (3 * 2 ^ k) ∣ 4294967296 := by
      have : (4294967295 + 1) % (3 * 2 ^ k) = 0 := by
        rw [Nat.add_mod, ← hmax, h]
        have : (3 * 2 ^ k - 1 + 1 % (3 * 2 ^ k)) = 3 * 2 ^ k := by
          have : 1 % (3 * 2 ^ k) = 1 := Nat.mod_eq_of_lt (by omega)
          omega
        rw [this, Nat.mod_self]
      exact Nat.dvd_of_mod_eq_zero this
    have h3 : 3 ∣ 4294967296 := Nat.dvd_trans ⟨2 ^ k, rfl⟩ hd
    omega
  · have hne : v + 1 ≠ 0 := by
      intro e
      have := congrArg UInt32.toNat e
      rw [UInt32.toNat_add] at this
      have h0 : (0 : UInt32).toNat = 0 := rfl
      have h1 : (1 : UInt32).toNat = 1 := rfl
      rw [h0, h1] at this
      omega
    have hadd : (v + 1).toNat = v.toNat + 1 := by
      rw [UInt32.toNat_add]
      have h1 : (1 : UInt32).toNat = 1 := rfl
      rw [h1]; omega
    have hb : (v + 1 != 0) = true := by simpa using hne
    rw [hb, Bool.true_and, hadd]
    have hm : 0 < 3 * 2 ^ k := by omega
    have key : (v.toNat + 1) % (3 * 2 ^ k) = 0 ↔ v.toNat % (3 * 2 ^ k) = 3 * 2 ^ k - 1 := by
      constructor
      · intro h
        have hlt := Nat.mod_lt v.toNat hm
        by_cases hc : v.toNat % (3 * 2 ^ k) + 1 = 3 * 2 ^ k
        · omega
        · have : (v.toNat + 1) % (3 * 2 ^ k) = v.toNat % (3 * 2 ^ k) + 1 := by
            rw [Nat.add_mod]
            have : 1 % (3 * 2 ^ k) = 1 := Nat.mod_eq_of_lt (by omega)
            rw [this]
            exact Nat.mod_eq_of_lt (by omega)
          omega
      · intro h
        rw [Nat.add_mod, h]
        have : 1 % (3 * 2 ^ k) = 1 := Nat.mod_eq_of_lt (by omega)
        rw [this]
        have : 3 * 2 ^ k - 1 + 1 = 3 * 2 ^ k := by omega
        rw [this, Nat.mod_self]
    by_cases hP : v.toNat % (3 * 2 ^ k) = 3 * 2 ^ k - 1
    · have := key.mpr hP
      simp [this, hP]
    · have : ¬ (v.toNat + 1) % (3 * 2 ^ k) = 0 := fun h => hP (key.mp h)
      simp [this, hP]

/-- cut positions grow by the new position exactly when the reference engine triggers -/
theorem cuts_snoc (p : List UInt8) (c : UInt8) (k : Nat) (hk : k ≤ 30) :
    cuts (rollVals (p ++ [c])) k =
      cuts (rollVals p) k ++ (if trig k (rollSpec (p ++ [c])) = true then [p.length + 1] else []) := by
  unfold cuts
  rw [rollVals_snoc, List.zipIdx_append, List.filter_append, List.map_append]
  congr 1
  simp only [List.zipIdx_cons, List.zipIdx_nil, rollVals_length, Nat.zero_add]
  rw [trig_iff_mod k hk]
  by_cases h : (rollSpec (p ++ [c])).toNat % (3 * 2 ^ k) = 3 * 2 ^ k - 1
  · simp [h]
  · simp [h]

theorem cuts_nil (k : Nat) : cuts (rollVals []) k = [] := rfl

end Ffuzzy.Decl
