/-
  Reference engine = declarative specification, part 3: the digest characters.
-/
import FfuzzyProofs.Decl.Level
import FfuzzyProofs.Properties.C19
namespace Ffuzzy.Decl
open Ffuzzy Ffuzzy.Spec Ffuzzy.GenSim

theorem pieceHash_eq (p : List UInt8) (lo hi : Nat) : pieceHash p.toArray lo hi = H p lo hi := by
  unfold pieceHash H
  rw [← C19.fnv_eq_fnv1_low6]
  congr 1
  simp [List.extract_eq_drop_take]

theorem H_lt (p : List UInt8) (lo hi : Nat) : H p lo hi ≠ NIL := by
  intro e
  have := C19.fnv_state_lt ((p.drop lo).take (hi - lo))
  unfold H at e
  rw [e] at this
  exact absurd this (by decide)

/-- the pieces the declarative digest lists for the first `m` cuts -/
theorem pieces_getElem (p : List UInt8) (cs : List Nat) (m j : Nat) (hj : j < min cs.length m) :
    (((0 :: cs.take m).zip (cs.take m)).map fun (x : Nat × Nat) => pieceHash p.toArray x.1 x.2)[j]? =
      some (H p (prevCut cs j) (cs.getD j 0)) := by
  have hc : j < cs.length := by omega
  have h2 : (cs.take m)[j]? = some (cs.getD j 0) := by
    rw [List.getElem?_take, if_pos (by omega), List.getD_eq_getElem?_getD, List.getElem?_eq_getElem hc]; rfl
  have h1 : (0 :: cs.take m)[j]? = some (prevCut cs j) := by
    unfold prevCut
    cases j with
    | zero => simp
    | succ i =>
      simp only [List.getElem?_cons_succ, Nat.add_one_ne_zero, if_false, Nat.add_sub_cancel]
      rw [List.getElem?_take, if_pos (by omega), List.getD_eq_getElem?_getD, List.getElem?_eq_getElem (by omega)]; rfl
  have hz : ((0 :: cs.take m).zip (cs.take m))[j]? = some (prevCut cs j, cs.getD j 0) :=
    List.getElem?_zip_eq_some.mpr ⟨h1, h2⟩
  rw [List.getElem?_map, hz]
  simp only [Option.map_some, pieceHash_eq]

theorem pieces_length (p : List UInt8) (cs : List Nat) (m : Nat) :
    (((0 :: cs.take m).zip (cs.take m)).map fun (x : Nat × Nat) => pieceHash p.toArray x.1 x.2).length = min cs.length m := by
  simp; omega

theorem take_getLast (cs : List Nat) (m : Nat) (hm : 1 ≤ m) : (cs.take m).getLast?.getD 0 = startAt cs m := by
  unfold startAt
  by_cases h0 : cs.length = 0
  · rw [if_pos h0]
    have : cs = [] := List.length_eq_zero_iff.mp h0
    rw [this]; simp
  · rw [if_neg h0, List.getLast?_eq_getElem?, List.length_take, List.getElem?_take, if_pos (by omega),
      List.getD_eq_getElem?_getD]
    congr 2
    omega

theorem toList_take_getElem (a : Array UInt8) (sz j : Nat) (hsz : sz ≤ a.size) (hj : j < sz) :
    (a.toList.take sz)[j]? = some (a.getD j NIL) := by
  rw [List.getElem?_take, if_pos hj, Array.getElem?_toList, Array.getD_eq_getD_getElem?,
    Array.getElem?_eq_getElem (by omega)]
  rfl

/-- the stored characters of a level with piece limit 64 and the running hash -/
theorem stored64 (c : Ctx) (p : List UInt8) (cs : List Nat) (h : LInv c p cs) :
    c.bh.toList.take (if c.bh.getD 63 NIL != NIL then c.idx + 1 else c.idx) = (levelDigest p.toArray cs 64).1 ∧
    c.hFull = (levelDigest p.toArray cs 64).2 ∧
    ((c.bh.getD 63 NIL != NIL) = true ↔ 64 ≤ cs.length) := by
  have hidx := h.idx
  have hsz := h.size
  have hnil : (c.bh.getD 63 NIL != NIL) = true ↔ 64 ≤ cs.length := by
    rw [h.c63]
    by_cases h64 : 64 ≤ cs.length
    · rw [if_pos h64]; simp [H_lt, h64]
    · rw [if_neg h64]; simp [h64]
  refine ⟨?_, ?_, hnil⟩
  · unfold levelDigest
    simp only [Nat.reduceSub, ge_iff_le]
    apply List.ext_getElem?
    intro j
    by_cases h64 : 64 ≤ cs.length
    · have hb : (c.bh.getD 63 NIL != NIL) = true := hnil.mpr h64
      rw [if_pos hb, if_pos h64]
      have hi : c.idx = 63 := by omega
      by_cases hj : j < c.idx + 1
      · rw [toList_take_getElem _ _ _ (by omega) hj]
        by_cases hj2 : j < 63
        · rw [List.getElem?_append_left (by rw [pieces_length]; omega), pieces_getElem p cs 63 j (by omega),
            h.cell j (by omega)]
        · have e : j = 63 := by omega
          rw [List.getElem?_append_right (by rw [pieces_length]; omega), pieces_length]
          have : j - min cs.length 63 = 0 := by omega
          rw [this, e, h.c63, if_pos h64]
          simp only [List.getElem?_cons_zero, pieceHash_eq]
          congr 2
          rw [take_getLast cs 63 (by omega)]
          unfold startAt
          rw [if_neg (by omega)]
          congr 1; omega
      · rw [List.getElem?_eq_none (by simp; omega), List.getElem?_eq_none (by
          rw [List.length_append, pieces_length]; simp; omega)]
    · have hb : ¬ (c.bh.getD 63 NIL != NIL) = true := fun e => h64 (hnil.mp e)
      rw [if_neg hb, if_neg h64]
      by_cases hj : j < c.idx
      · rw [toList_take_getElem _ _ _ (by omega) hj, pieces_getElem p cs 63 j (by omega), h.cell j hj]
      · rw [List.getElem?_eq_none (by simp; omega), List.getElem?_eq_none (by rw [pieces_length]; omega)]
  · unfold levelDigest
    simp only [Nat.reduceSub, pieceHash_eq]
    rw [h.hF, take_getLast cs 63 (by omega)]
    simp

theorem withTail_unfold (stored : List UInt8) (tail : UInt8) (cap : Nat) (nz : Bool) :
    withTail stored tail cap nz =
      if nz then (if stored.length = cap then stored.set (cap - 1) tail else stored ++ [tail]) else stored := rfl

/-- **block hash 1 of the reference engine is the declarative one** -/
theorem digest1_eq (c : Ctx) (p : List UInt8) (cs : List Nat) (h : LInv c p cs) (nz : Bool) :
    c.digest1 nz = withTail (levelDigest p.toArray cs 64).1 (levelDigest p.toArray cs 64).2 64 nz := by
  obtain ⟨e1, e2, _⟩ := stored64 c p cs h
  have hlen : (c.bh.toList.take (if c.bh.getD 63 NIL != NIL then c.idx + 1 else c.idx)).length =
      (if c.bh.getD 63 NIL != NIL then c.idx + 1 else c.idx) := by
    have := h.idx; have := h.size
    simp only [List.length_take, Array.length_toList]
    split <;> omega
  unfold Ctx.digest1
  simp only
  rw [withTail_unfold, ← e1, ← e2, hlen]

/-- the stored characters of a level with piece limit 32 (truncated block hash 2) -/
theorem stored32 (c : Ctx) (p : List UInt8) (cs : List Nat) (h : LInv c p cs) :
    ((c.chHalf != NIL) = true ↔ 32 ≤ cs.length) ∧
    c.hHalf = (levelDigest p.toArray cs 32).2 ∧
    (32 ≤ cs.length → c.bh.toList.take 31 ++ [c.chHalf] = (levelDigest p.toArray cs 32).1) ∧
    (cs.length < 32 → c.bh.toList.take c.idx = (levelDigest p.toArray cs 32).1) := by
  have hidx := h.idx
  have hsz := h.size
  have hnil : (c.chHalf != NIL) = true ↔ 32 ≤ cs.length := by
    rw [h.ch]
    by_cases h32 : 32 ≤ cs.length
    · rw [if_pos h32]; simp [H_lt, h32]
    · rw [if_neg h32]; simp [h32]
  refine ⟨hnil, ?_, ?_, ?_⟩
  · unfold levelDigest
    simp only [Nat.reduceSub, pieceHash_eq]
    rw [h.hH, take_getLast cs 31 (by omega)]
    simp
  · intro h32
    unfold levelDigest
    simp only [Nat.reduceSub, ge_iff_le]
    rw [if_pos h32]
    congr 1
    · apply List.ext_getElem?
      intro j
      by_cases hj : j < 31
      · rw [toList_take_getElem _ _ _ (by omega) hj, pieces_getElem p cs 31 j (by omega), h.cell j (by omega)]
      · rw [List.getElem?_eq_none (by simp; omega), List.getElem?_eq_none (by rw [pieces_length]; omega)]
    · rw [h.ch, if_pos h32, pieceHash_eq, take_getLast cs 31 (by omega)]
      congr 2
      unfold startAt
      rw [if_neg (by omega)]
      congr 1; omega
  · intro h32
    unfold levelDigest
    simp only [Nat.reduceSub, ge_iff_le]
    rw [if_neg (by omega)]
    apply List.ext_getElem?
    intro j
    by_cases hj : j < c.idx
    · rw [toList_take_getElem _ _ _ (by omega) hj, pieces_getElem p cs 31 j (by omega), h.cell j hj]
    · rw [List.getElem?_eq_none (by simp; omega), List.getElem?_eq_none (by rw [pieces_length]; omega)]

/-- **block hash 2 of the reference engine is the declarative one**, in all four output forms -/
theorem digest2_eq (c : Ctx) (p : List UInt8) (cs : List Nat) (h : LInv c p cs) (nz trunc : Bool) (s2 : Nat)
    (hs2 : s2 = 32 ∨ s2 = 64) :
    c.digest2 nz trunc s2 =
      (if !trunc && s2 = 32 &&
          (withTail (levelDigest p.toArray cs (if trunc then 32 else 64)).1
            (levelDigest p.toArray cs (if trunc then 32 else 64)).2 (if trunc then 32 else 64) nz).length > 32
       then .error .outputOverflow
       else .ok (withTail (levelDigest p.toArray cs (if trunc then 32 else 64)).1
            (levelDigest p.toArray cs (if trunc then 32 else 64)).2 (if trunc then 32 else 64) nz)) := by
  have hidx := h.idx
  have hsz := h.size
  cases trunc with
  | true =>
    obtain ⟨hnil, eH, e32, elt⟩ := stored32 c p cs h
    simp only [Bool.not_true, Bool.false_and, Bool.false_eq_true, if_false, if_true]
    unfold Ctx.digest2
    simp only [if_true]
    rw [withTail_unfold, ← eH]
    by_cases h32 : 32 ≤ cs.length
    · rw [if_pos (hnil.mpr h32), ← e32 h32]
      have hl31 : (c.bh.toList.take 31).length = 31 := by simp [hsz]
      have hlen : (c.bh.toList.take 31 ++ [c.chHalf]).length = 32 := by simp [hl31]
      rw [hlen]
      cases nz with
      | true =>
        simp only [if_true]
        congr 1
        rw [show (32 - 1 : Nat) = (c.bh.toList.take 31).length from by rw [hl31], List.set_append_right _ _ (Nat.le_refl _)]
        simp
      | false => simp
    · rw [if_neg (fun e => h32 (hnil.mp e)), ← elt (by omega)]
      have hlen : (c.bh.toList.take c.idx).length = c.idx := by simp [hsz]; omega
      rw [hlen]
      cases nz with
      | true => simp only [if_true]; rw [if_neg (by omega)]
      | false => simp
  | false =>
    obtain ⟨e1, e2, hnil⟩ := stored64 c p cs h
    simp only [Bool.not_false, Bool.true_and, Bool.false_eq_true, if_false]
    have hlen : (c.bh.toList.take (if c.bh.getD 63 NIL != NIL then c.idx + 1 else c.idx)).length =
        (if c.bh.getD 63 NIL != NIL then c.idx + 1 else c.idx) := by
      simp only [List.length_take, Array.length_toList]
      split <;> omega
    have hszle : (if c.bh.getD 63 NIL != NIL then c.idx + 1 else c.idx) ≤ 64 := by split <;> omega
    unfold Ctx.digest2
    simp only [Bool.false_eq_true, if_false]
    rw [withTail_unfold, ← e1, ← e2, hlen]
    generalize (if c.bh.getD 63 NIL != NIL then c.idx + 1 else c.idx) = sz at hlen hszle
    rcases hs2 with e | e
    · subst e
      have hb : ((32 : Nat) == 64) = false := by decide
      simp only [hb, Bool.not_false, Bool.true_and, decide_eq_true_eq, decide_true]
      cases nz with
      | false =>
        simp only [Bool.false_eq_true, if_false, hlen]
      | true =>
        simp only [if_true]
        by_cases hgt : sz > 32
        · rw [if_pos hgt]
          by_cases h64 : sz = 64
          · rw [if_pos h64, if_pos (by simp [List.length_set, hlen]; omega)]
          · rw [if_neg h64, if_pos (by simp [hlen]; omega)]
        · rw [if_neg hgt, if_neg (by omega : ¬ sz = 64)]
          by_cases hge : sz ≥ 32
          · rw [if_pos hge, if_pos (by simp [hlen]; omega)]
          · rw [if_neg hge, if_neg (by simp [hlen]; omega)]
    · subst e
      have hb : ((64 : Nat) == 64) = true := by decide
      have hne : ¬ ((64 : Nat) = 32) := by decide
      simp only [hb, Bool.not_true, Bool.false_and, Bool.false_eq_true, if_false, hne, decide_false]
      cases nz with
      | false => simp
      | true =>
        simp only [if_true]
        split <;> rfl

end Ffuzzy.Decl
