/-
  C07, layer A: the run-length codec of dual hashes on lists.
  `compressA` mirrors `compress_block_hash_with_rle` with growing lists instead of arrays;
  `expandA` mirrors `expand_block_hash_using_rle`.  Main result: `expandA ∘ compressA = id`.
-/
import FfuzzyProofs.Collapse
namespace Ffuzzy.DualA
open Ffuzzy Ffuzzy.Spec Ffuzzy.Collapse

/-- expansion: entries `(pos, len)` in order; copy up to `pos`, then `len` extra copies of `inp[pos]` -/
def expandGo (inp : List UInt8) : List (Nat × Nat) → Nat → List UInt8 → List UInt8
  | [], src, acc => acc ++ inp.drop src
  | (pos, l) :: es, src, acc =>
    expandGo inp es pos (acc ++ (inp.drop src).take (pos - src) ++ List.replicate l (inp.getD pos 0))

def expandA (inp : List UInt8) (es : List (Nat × Nat)) : List UInt8 := expandGo inp es 0 []

/-- the entries that encode `ext ≥ 1` extra characters after position `pos` -/
def chunks (pos ext : Nat) : List (Nat × Nat) :=
  List.replicate ((ext - 1) / 4) (pos, 4) ++ [(pos, (ext - 1) % 4 + 1)]

structure St where
  out : List UInt8 := []
  ents : List (Nat × Nat) := []
  seq : Nat := 0
  prev : UInt8 := b64Invalid

/-- entries of the run in progress, as the flush would write them -/
def pending (s : St) : List (Nat × Nat) :=
  if s.seq ≥ 3 then chunks (s.out.length - 1) (s.seq + 1 - 3) else []

def step (s : St) (curr : UInt8) : St :=
  if curr == s.prev then
    if s.seq + 1 ≥ 3 then { s with seq := s.seq + 1 }
    else { s with seq := s.seq + 1, out := s.out ++ [curr] }
  else { out := s.out ++ [curr], ents := s.ents ++ pending s, seq := 0, prev := curr }

def compressA (x : List UInt8) : List UInt8 × List (Nat × Nat) :=
  let s := x.foldl step {}
  (s.out, s.ents ++ pending s)

/-- state of the expansion after a list of entries -/
def after (inp : List UInt8) : List (Nat × Nat) → Nat × List UInt8 → Nat × List UInt8
  | [], st => st
  | (pos, l) :: es, (src, acc) =>
    after inp es (pos, acc ++ (inp.drop src).take (pos - src) ++ List.replicate l (inp.getD pos 0))

theorem expandGo_after (inp : List UInt8) : ∀ (es : List (Nat × Nat)) (src : Nat) (acc : List UInt8),
    expandGo inp es src acc = (after inp es (src, acc)).2 ++ inp.drop (after inp es (src, acc)).1 := by
  intro es
  induction es with
  | nil => intro _ _; rfl
  | cons e es ih => intro src acc; obtain ⟨pos, l⟩ := e; simp only [expandGo, after]; exact ih _ _

theorem after_append (inp : List UInt8) : ∀ (e1 e2 : List (Nat × Nat)) (st : Nat × List UInt8),
    after inp (e1 ++ e2) st = after inp e2 (after inp e1 st) := by
  intro e1
  induction e1 with
  | nil => intro _ _; rfl
  | cons e es ih => intro e2 st; obtain ⟨pos, l⟩ := e; obtain ⟨src, acc⟩ := st; simp only [List.cons_append, after]; exact ih _ _

/-- the chunks of one run, applied at a state whose source offset is already `≤ pos` -/
theorem after_chunks (inp : List UInt8) (pos ext : Nat) (hext : 1 ≤ ext) (src : Nat) (acc : List UInt8) :
    after inp (chunks pos ext) (src, acc) =
      (pos, acc ++ (inp.drop src).take (pos - src) ++ List.replicate ext (inp.getD pos 0)) := by
  unfold chunks
  have hrep : ∀ (k : Nat) (src : Nat) (acc : List UInt8),
      after inp (List.replicate (k + 1) (pos, 4)) (src, acc) =
        (pos, acc ++ (inp.drop src).take (pos - src) ++ List.replicate (4 * (k + 1)) (inp.getD pos 0)) := by
    intro k
    induction k with
    | zero => intro src acc; simp [after, List.replicate]
    | succ k ih =>
      intro src acc
      rw [List.replicate_succ, after, ih]
      simp only [Nat.sub_self, List.take_zero, List.append_nil, List.append_assoc, List.replicate_append_replicate]
      have : 4 + 4 * (k + 1) = 4 * (k + 1 + 1) := by omega
      rw [this]
  rw [after_append]
  cases hk : (ext - 1) / 4 with
  | zero =>
    simp only [List.replicate_zero, after]
    have : (ext - 1) % 4 + 1 = ext := by omega
    rw [this]
  | succ k =>
    rw [hrep k, after]
    simp only [Nat.sub_self, List.take_zero, List.append_nil, List.append_assoc, List.replicate_append_replicate]
    have : 4 * (k + 1) + ((ext - 1) % 4 + 1) = ext := by omega
    rw [this]
    rfl

/-- entries whose positions lie inside `inp` do not see what is appended to `inp` -/
theorem after_snoc (inp suf : List UInt8) : ∀ (es : List (Nat × Nat)) (st : Nat × List UInt8),
    (∀ e ∈ es, e.1 < inp.length) → after (inp ++ suf) es st = after inp es st := by
  intro es
  induction es with
  | nil => intro _ _; rfl
  | cons e es ih =>
    intro st hpos
    obtain ⟨pos, l⟩ := e
    obtain ⟨src, acc⟩ := st
    have hp : pos < inp.length := hpos (pos, l) (by simp)
    simp only [after]
    rw [ih _ (fun e he => hpos e (by simp [he]))]
    congr 3
    · -- the copied slice
      by_cases hs : src ≤ pos
      · rw [List.drop_append_of_le_length (by omega), List.take_append_of_le_length (by simp; omega)]
      · have : pos - src = 0 := by omega
        rw [this]; simp
    · rw [List.getD_eq_getElem?_getD, List.getD_eq_getElem?_getD, List.getElem?_append_left hp]

/-- the source offset after the entries is a position of an entry (or the start) -/
theorem after_src (inp : List UInt8) : ∀ (es : List (Nat × Nat)) (st : Nat × List UInt8) (n : Nat),
    st.1 ≤ n → (∀ e ∈ es, e.1 ≤ n) → (after inp es st).1 ≤ n := by
  intro es
  induction es with
  | nil => intro _ _ h _; exact h
  | cons e es ih =>
    intro st n _ hpos
    obtain ⟨pos, l⟩ := e
    obtain ⟨src, acc⟩ := st
    simp only [after]
    exact ih _ n (hpos (pos, l) (by simp)) (fun e he => hpos e (by simp [he]))

theorem expandA_snoc (inp : List UInt8) (c : UInt8) (es : List (Nat × Nat)) (hpos : ∀ e ∈ es, e.1 < inp.length) :
    expandA (inp ++ [c]) es = expandA inp es ++ [c] := by
  unfold expandA
  rw [expandGo_after, expandGo_after, after_snoc inp [c] es _ hpos]
  have hsrc := after_src inp es (0, []) inp.length (Nat.zero_le _) (fun e he => Nat.le_of_lt (hpos e he))
  rw [List.drop_append_of_le_length hsrc, List.append_assoc]

/-- extension characters of the run in progress -/
def ext (s : St) : Nat := if s.seq ≥ 3 then s.seq + 1 - 3 else 0

structure Inv (s : St) (p : List UInt8) : Prop where
  pos : ∀ e ∈ s.ents, e.1 < s.out.length
  last : p ≠ [] → s.out.getLast? = some s.prev
  exp : expandA s.out s.ents ++ List.replicate (ext s) s.prev = p
  empty : p = [] → s.out = [] ∧ s.seq = 0 ∧ s.ents = []

/-- expansion with the pending entries of the run in progress -/
theorem expand_pending (s : St) (p : List UInt8) (h : Inv s p) :
    expandA s.out (s.ents ++ pending s) = p ∧ ∀ e ∈ s.ents ++ pending s, e.1 < s.out.length := by
  unfold pending
  by_cases h3 : s.seq ≥ 3
  · rw [if_pos h3]
    have hext : ext s = s.seq + 1 - 3 := by unfold ext; rw [if_pos h3]
    have hne : p ≠ [] := by
      intro e; have := (h.empty e).2.1; omega
    have hlast := h.last hne
    have hout : s.out ≠ [] := by intro e; rw [e] at hlast; simp at hlast
    have hlen : 0 < s.out.length := List.length_pos_iff.mpr hout
    refine ⟨?_, ?_⟩
    · have hexp := h.exp
      rw [hext] at hexp
      unfold expandA at hexp ⊢
      rw [expandGo_after] at hexp ⊢
      rw [after_append]
      generalize hst : after s.out s.ents (0, []) = st at hexp ⊢
      obtain ⟨src, acc⟩ := st
      have hsrc : src ≤ s.out.length - 1 := by
        have := after_src s.out s.ents (0, []) (s.out.length - 1) (Nat.zero_le _)
          (fun e he => by have := h.pos e he; omega)
        rw [hst] at this; exact this
      rw [after_chunks s.out _ _ (by omega)]
      simp only at hexp ⊢
      rw [← hexp]
      -- the last character of `out` is `prev`
      have hget : s.out.getD (s.out.length - 1) 0 = s.prev := by
        rw [List.getD_eq_getElem?_getD, ← List.getLast?_eq_getElem?, hlast]; rfl
      have hdrop : s.out.drop (s.out.length - 1) = [s.prev] := by
        have hl := List.getLast?_eq_getLast hout
        rw [hlast] at hl
        have hd := List.dropLast_concat_getLast hout
        rw [← Option.some.inj hl] at hd
        have : s.out.drop (s.out.length - 1) = (s.out.dropLast ++ [s.prev]).drop (s.out.dropLast.length) := by
          rw [hd, List.length_dropLast]
        rw [this, List.drop_left' rfl]
      have hsplit : s.out.drop src = (s.out.drop src).take (s.out.length - 1 - src) ++ [s.prev] := by
        have := (List.take_append_drop (s.out.length - 1 - src) (s.out.drop src)).symm
        rw [List.drop_drop] at this
        have e : src + (s.out.length - 1 - src) = s.out.length - 1 := by omega
        rw [e, hdrop] at this
        exact this
      rw [hget, hdrop]
      conv => rhs; rw [hsplit]
      simp only [List.append_assoc]
      congr 2
      -- `replicate t c ++ [c] = [c] ++ replicate t c`
      rw [show [s.prev] = List.replicate 1 s.prev from rfl, List.replicate_append_replicate,
        List.replicate_append_replicate, Nat.add_comm]
    · intro e he
      rcases List.mem_append.mp he with h1 | h1
      · exact h.pos e h1
      · unfold chunks at h1
        rcases List.mem_append.mp h1 with h2 | h2
        · have := (List.mem_replicate.mp h2).2; rw [this]; simp; omega
        · simp at h2; rw [h2]; simp; omega
  · rw [if_neg h3]
    have hext : ext s = 0 := by unfold ext; rw [if_neg h3]
    have := h.exp
    rw [hext] at this
    simp only [List.replicate_zero, List.append_nil] at this ⊢
    exact ⟨this, h.pos⟩

theorem inv_init : Inv {} [] :=
  ⟨fun e he => by simp at he, fun h => absurd rfl h, by simp [expandA, expandGo, ext], fun _ => ⟨rfl, rfl, rfl⟩⟩

theorem inv_step (s : St) (p : List UInt8) (curr : UInt8) (h : Inv s p) (hc : curr ≠ b64Invalid)
    (hprev : p = [] → s.prev = b64Invalid) :
    Inv (step s curr) (p ++ [curr]) := by
  unfold step
  by_cases hsame : (curr == s.prev) = true
  · have hcp : curr = s.prev := by simpa using hsame
    have hne : p ≠ [] := by
      intro e; apply hc; rw [hcp]; exact hprev e
    rw [if_pos hsame]
    by_cases hseq : s.seq + 1 ≥ 3
    · rw [if_pos hseq]
      refine ⟨h.pos, fun _ => h.last hne, ?_, fun e => by simp at e⟩
      have hexp := h.exp
      show expandA s.out s.ents ++ List.replicate (ext { s with seq := s.seq + 1 }) s.prev = p ++ [curr]
      have e1 : ext { s with seq := s.seq + 1 } = ext s + 1 := by
        unfold ext
        simp only
        by_cases h3 : s.seq ≥ 3
        · rw [if_pos h3, if_pos (by omega)]; omega
        · rw [if_neg h3, if_pos (by omega)]; omega
      rw [e1, ← hexp, hcp, List.append_assoc]
      congr 1
      rw [show [s.prev] = List.replicate 1 s.prev from rfl, List.replicate_append_replicate]
    · rw [if_neg hseq]
      have hext0 : ext s = 0 := by unfold ext; rw [if_neg (by omega)]
      have hext1 : ext { s with seq := s.seq + 1, out := s.out ++ [curr] } = 0 := by
        unfold ext; simp only; rw [if_neg (by omega)]
      refine ⟨fun e he => by have := h.pos e he; simp; omega, fun _ => by simp [hcp], ?_, fun e => by simp at e⟩
      show expandA (s.out ++ [curr]) s.ents ++ List.replicate (ext { s with seq := s.seq + 1, out := s.out ++ [curr] }) s.prev = _
      rw [hext1, expandA_snoc s.out curr s.ents h.pos]
      have := h.exp
      rw [hext0] at this
      simp only [List.replicate_zero, List.append_nil] at this ⊢
      rw [this]
  · rw [if_neg hsame]
    obtain ⟨hx, hposx⟩ := expand_pending s p h
    refine ⟨fun e he => by have := hposx e he; simp; omega, fun _ => by simp, ?_, fun e => by simp at e⟩
    show expandA (s.out ++ [curr]) (s.ents ++ pending s) ++ List.replicate (ext { out := s.out ++ [curr], ents := s.ents ++ pending s, seq := 0, prev := curr }) curr = _
    have : ext { out := s.out ++ [curr], ents := s.ents ++ pending s, seq := 0, prev := curr } = 0 := by
      unfold ext; simp
    rw [this, expandA_snoc s.out curr _ hposx, hx]
    simp

theorem step_prev (s : St) (p : List UInt8) (curr : UInt8) (hprev : p ≠ [] → p.getLast? = some s.prev) :
    (p ++ [curr]).getLast? = some (step s curr).prev := by
  unfold step
  by_cases hsame : (curr == s.prev) = true
  · have hcp : curr = s.prev := by simpa using hsame
    rw [if_pos hsame]
    split <;> simp [hcp]
  · rw [if_neg hsame]; simp

/-- **layer A.** expanding the compressed form gives back the input -/
theorem expand_compress (x : List UInt8) (hx : ∀ c ∈ x, c ≠ b64Invalid) :
    expandA (compressA x).1 (compressA x).2 = x ∧
    ∀ e ∈ (compressA x).2, e.1 < (compressA x).1.length := by
  have key : ∀ (y : List UInt8) (s : St) (p : List UInt8), Inv s p → (p = [] → s.prev = b64Invalid) →
      (∀ c ∈ y, c ≠ b64Invalid) → Inv (y.foldl step s) (p ++ y) := by
    intro y
    induction y with
    | nil => intro s p h _ _; simpa using h
    | cons c cs ih =>
      intro s p h hp hy
      simp only [List.foldl_cons]
      have := ih (step s c) (p ++ [c]) (inv_step s p c h (hy c (by simp)) hp) (fun e => by simp at e)
        (fun d hd => hy d (by simp [hd]))
      simpa using this
  have hinv := key x {} [] inv_init (fun _ => rfl) hx
  simp only [List.nil_append] at hinv
  exact expand_pending _ x hinv

theorem fold_out (x : List UInt8) : ∀ s : St, (x.foldl step s).out = s.out ++ normList x (min s.seq 3) s.prev := by
  induction x with
  | nil => intro s; simp [normList]
  | cons c cs ih =>
    intro s
    simp only [List.foldl_cons]
    rw [ih (step s c), normList]
    unfold step
    by_cases hsame : (c == s.prev) = true
    · rw [if_pos hsame, if_pos hsame]
      by_cases hseq : s.seq + 1 ≥ 3
      · have h2 : min s.seq 3 + 1 ≥ MAX_SEQUENCE_SIZE := by unfold MAX_SEQUENCE_SIZE; omega
        rw [if_pos hseq, if_pos h2]
        simp only
        have : min (s.seq + 1) 3 = MAX_SEQUENCE_SIZE := by unfold MAX_SEQUENCE_SIZE; omega
        rw [this]
      · have h2 : ¬ (min s.seq 3 + 1 ≥ MAX_SEQUENCE_SIZE) := by unfold MAX_SEQUENCE_SIZE; omega
        rw [if_neg hseq, if_neg h2]
        simp only [List.append_assoc, List.cons_append, List.nil_append]
        have : min (s.seq + 1) 3 = min s.seq 3 + 1 := by omega
        rw [this]
    · rw [if_neg hsame, if_neg hsame]
      simp [List.append_assoc]

/-- the normalised part of the compressed form is the run-collapsed input -/
theorem compress_out (x : List UInt8) (hx : ∀ c ∈ x, c ≠ b64Invalid) : (compressA x).1 = collapse x := by
  unfold compressA
  simp only
  rw [fold_out x {}]
  simp only [List.nil_append]
  exact normList_eq_collapse x hx

/-! ### size bounds (no RLE overflow, encodable positions) -/

structure Bnd (s : St) (p : List UInt8) : Prop where
  empty : p = [] → s.ents = [] ∧ s.seq = 0 ∧ s.out = []
  ents : p ≠ [] → 4 * s.ents.length + (s.seq + 1) ≤ p.length ∧ min (s.seq + 1) 3 ≤ s.out.length
  outLe : s.out.length ≤ p.length
  wf : ∀ e ∈ s.ents, 2 ≤ e.1 ∧ 1 ≤ e.2 ∧ e.2 ≤ 4
  lt : ∀ e ∈ s.ents, e.1 < s.out.length
  srt : List.Pairwise (fun a b : Nat × Nat => a.1 ≤ b.1) s.ents

theorem chunks_length (pos ext : Nat) : (chunks pos ext).length = (ext - 1) / 4 + 1 := by
  unfold chunks; simp

theorem chunks_mem (pos ext : Nat) (e : Nat × Nat) (h : e ∈ chunks pos ext) : e.1 = pos ∧ 1 ≤ e.2 ∧ e.2 ≤ 4 := by
  unfold chunks at h
  rcases List.mem_append.mp h with h1 | h1
  · have := (List.mem_replicate.mp h1).2; rw [this]; simp
  · simp at h1; rw [h1]; simp; omega

theorem bnd_init : Bnd {} [] :=
  ⟨fun _ => ⟨rfl, rfl, rfl⟩, fun h => absurd rfl h, by simp, fun e he => by simp at he, fun e he => by simp at he,
   List.Pairwise.nil⟩

theorem pending_sorted (s : St) (p : List UInt8) (h : Bnd s p) :
    List.Pairwise (fun a b : Nat × Nat => a.1 ≤ b.1) (s.ents ++ pending s) ∧
    ∀ e ∈ s.ents ++ pending s, e.1 < s.out.length := by
  unfold pending
  split
  · next h3 =>
    have hp : p ≠ [] := by intro e0; have := (h.empty e0).2.1; omega
    have hol := (h.ents hp).2
    refine ⟨?_, ?_⟩
    · rw [List.pairwise_append]
      refine ⟨h.srt, ?_, ?_⟩
      · unfold chunks
        rw [List.pairwise_append]
        refine ⟨List.pairwise_replicate.mpr (Or.inr (Nat.le_refl _)), List.pairwise_singleton _ _, ?_⟩
        intro a ha b hb
        have := (List.mem_replicate.mp ha).2
        simp at hb
        rw [this, hb]; exact Nat.le_refl _
      · intro a ha b hb
        have := h.lt a ha
        have := (chunks_mem _ _ b hb).1
        omega
    · intro e he
      rcases List.mem_append.mp he with h1 | h1
      · exact h.lt e h1
      · have := (chunks_mem _ _ e h1).1; omega
  · simp only [List.append_nil]
    exact ⟨h.srt, h.lt⟩


theorem bnd_step (s : St) (p : List UInt8) (curr : UInt8) (h : Bnd s p) (hc : curr ≠ b64Invalid)
    (hprev : p = [] → s.prev = b64Invalid) : Bnd (step s curr) (p ++ [curr]) := by
  unfold step
  by_cases hsame : (curr == s.prev) = true
  · have hcp : curr = s.prev := by simpa using hsame
    have hne : p ≠ [] := by intro e; apply hc; rw [hcp]; exact hprev e
    obtain ⟨b1, b2⟩ := h.ents hne
    rw [if_pos hsame]
    by_cases hseq : s.seq + 1 ≥ 3
    · rw [if_pos hseq]
      refine ⟨fun e => by simp at e, fun _ => ⟨by simp; omega, by simp; omega⟩, by have := h.outLe; simp; omega, h.wf,
        h.lt, h.srt⟩
    · rw [if_neg hseq]
      refine ⟨fun e => by simp at e, fun _ => ⟨by simp; omega, by simp; omega⟩, by have := h.outLe; simp; omega, h.wf,
        fun e he => by have := h.lt e he; simp; omega, h.srt⟩
  · rw [if_neg hsame]
    have hpl : (pending s).length = if s.seq ≥ 3 then (s.seq - 3) / 4 + 1 else 0 := by
      unfold pending
      split
      · rw [chunks_length]; congr 2
      · rfl
    obtain ⟨ps1, ps2⟩ := pending_sorted s p h
    refine ⟨fun e => by simp at e, fun _ => ⟨?_, by simp⟩, by have := h.outLe; simp; omega, ?_,
      fun e he => by have := ps2 e he; simp; omega, ps1⟩
    · simp only [List.length_append, hpl, List.length_cons, List.length_nil]
      by_cases hp : p = []
      · obtain ⟨e1, e2, _⟩ := h.empty hp
        rw [e1, e2, hp]; simp
      · obtain ⟨b1, _⟩ := h.ents hp
        split <;> omega
    · intro e he
      rcases List.mem_append.mp he with h1 | h1
      · exact h.wf e h1
      · unfold pending at h1
        split at h1
        · next h3 =>
          obtain ⟨c1, c2, c3⟩ := chunks_mem _ _ e h1
          have hp : p ≠ [] := by intro e0; have := (h.empty e0).2.1; omega
          have := (h.ents hp).2
          exact ⟨by rw [c1]; omega, c2, c3⟩
        · simp at h1

theorem bnd_fold (y : List UInt8) : ∀ (s : St) (p : List UInt8), Bnd s p → (p = [] → s.prev = b64Invalid) →
    (∀ c ∈ y, c ≠ b64Invalid) → Bnd (y.foldl step s) (p ++ y) := by
  induction y with
  | nil => intro s p h _ _; simpa using h
  | cons c cs ih =>
    intro s p h hp hy
    simp only [List.foldl_cons]
    have := ih (step s c) (p ++ [c]) (bnd_step s p c h (hy c (by simp)) hp) (fun e => by simp at e)
      (fun d hd => hy d (by simp [hd]))
    simpa using this

end Ffuzzy.DualA
