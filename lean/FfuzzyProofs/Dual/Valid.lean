/-
  C07 / C11, layer B3: the RLE block written by the compressor is accepted by
  `is_valid_rle_block_for_block_hash`.
-/
import FfuzzyProofs.Dual.Expand
namespace Ffuzzy.DualB
open Ffuzzy Ffuzzy.Spec Ffuzzy.Collapse Ffuzzy.DualA

/-- what the validity scan checks, on decoded entries; `(pp, pl)` = previous position and length -/
def good (content : List UInt8) : List (Nat × Nat) → Nat → Nat → Prop
  | [], _, _ => True
  | (pos, l) :: es, pp, pl =>
    2 ≤ pos ∧ pos < content.length ∧ pp ≤ pos ∧ 1 ≤ l ∧ l ≤ 4 ∧ (pp = pos → pl = 4) ∧
    (pp ≠ pos → content.getD (pos - 1) 0 = content.getD (pos - 2) 0 ∧ content.getD pos 0 = content.getD (pos - 2) 0) ∧
    good content es pos l

def lastSt : List (Nat × Nat) → Nat × Nat → Nat × Nat
  | [], st => st
  | e :: es, _ => lastSt es e

theorem good_append (content : List UInt8) : ∀ (e1 e2 : List (Nat × Nat)) (pp pl : Nat),
    good content (e1 ++ e2) pp pl ↔
      good content e1 pp pl ∧ good content e2 (lastSt e1 (pp, pl)).1 (lastSt e1 (pp, pl)).2 := by
  intro e1
  induction e1 with
  | nil => intro e2 pp pl; simp [good, lastSt]
  | cons e es ih =>
    intro e2 pp pl
    obtain ⟨pos, l⟩ := e
    simp only [List.cons_append, good, lastSt, ih]
    constructor
    · rintro ⟨a, b, c, d, e, f, g, h1, h2⟩; exact ⟨⟨a, b, c, d, e, f, g, h1⟩, h2⟩
    · rintro ⟨⟨a, b, c, d, e, f, g, h1⟩, h2⟩; exact ⟨a, b, c, d, e, f, g, h1, h2⟩

theorem good_snoc (content suf : List UInt8) : ∀ (es : List (Nat × Nat)) (pp pl : Nat),
    good content es pp pl → good (content ++ suf) es pp pl := by
  intro es
  induction es with
  | nil => intro _ _ _; trivial
  | cons e es ih =>
    intro pp pl h
    obtain ⟨pos, l⟩ := e
    obtain ⟨a, b, c, d, e, f, g, h1⟩ := h
    have get : ∀ j, j ≤ pos → (content ++ suf).getD j 0 = content.getD j 0 := by
      intro j hj
      rw [List.getD_eq_getElem?_getD, List.getD_eq_getElem?_getD, List.getElem?_append_left (by omega)]
    refine ⟨a, by simp; omega, c, d, e, f, ?_, ih _ _ h1⟩
    intro hne
    rw [get _ (by omega), get _ (by omega), get _ (Nat.le_refl _)]
    exact g hne

theorem lastSt_pos (es : List (Nat × Nat)) (st : Nat × Nat) (n : Nat) (h0 : st.1 ≤ n) (h : ∀ e ∈ es, e.1 ≤ n) :
    (lastSt es st).1 ≤ n := by
  induction es generalizing st with
  | nil => exact h0
  | cons e es ih => exact ih e (h e (by simp)) (fun x hx => h x (by simp [hx]))

/-- the chunks of one run pass the scan -/
theorem good_chunks (content : List UInt8) (pos ext pp pl : Nat) (h2 : 2 ≤ pos) (hl : pos < content.length)
    (hpp : pp < pos) (hch : content.getD (pos - 1) 0 = content.getD (pos - 2) 0 ∧ content.getD pos 0 = content.getD (pos - 2) 0) :
    good content (chunks pos ext) pp pl := by
  unfold chunks
  have hrep : ∀ k, good content (List.replicate k (pos, 4) ++ [(pos, (ext - 1) % 4 + 1)]) pos 4 := by
    intro k
    induction k with
    | zero =>
      simp only [List.replicate_zero, List.nil_append, good]
      exact ⟨h2, hl, Nat.le_refl _, by omega, by omega, by simp, by simp, by trivial⟩
    | succ k ih =>
      rw [List.replicate_succ, List.cons_append]
      exact ⟨h2, hl, Nat.le_refl _, by omega, by omega, fun _ => rfl, fun h => absurd rfl h, ih⟩
  cases hk : (ext - 1) / 4 with
  | zero =>
    simp only [List.replicate_zero, List.nil_append, good]
    exact ⟨h2, hl, by omega, by omega, by omega, fun e => by omega, fun _ => hch, trivial⟩
  | succ k =>
    rw [List.replicate_succ, List.cons_append]
    exact ⟨h2, hl, by omega, by omega, by omega, fun e => by omega, fun _ => hch, hrep k⟩

/-- invariants of the list compressor needed for validity -/
structure VInv (s : St) (p : List UInt8) : Prop where
  tail : p ≠ [] → ∃ o0, s.out = o0 ++ List.replicate (min (s.seq + 1) 3) s.prev
  strict : ∀ e ∈ s.ents, e.1 + 1 < s.out.length
  gd : good s.out s.ents 0 0

theorem vinv_init : VInv {} [] := ⟨fun h => absurd rfl h, fun e he => by simp at he, trivial⟩

theorem pending_good (s : St) (p : List UInt8) (h : VInv s p) (hb : Bnd s p) :
    good s.out (s.ents ++ pending s) 0 0 ∧ ∀ e ∈ s.ents ++ pending s, e.1 < s.out.length := by
  refine ⟨?_, (pending_sorted s p hb).2⟩
  unfold pending
  split
  · next h3 =>
    have hp : p ≠ [] := by intro e0; have := (hb.empty e0).2.1; omega
    obtain ⟨o0, ho⟩ := h.tail hp
    have hm : min (s.seq + 1) 3 = 3 := by omega
    rw [hm] at ho
    have hlen : s.out.length = o0.length + 3 := by rw [ho]; simp
    rw [good_append]
    refine ⟨h.gd, ?_⟩
    apply good_chunks
    · omega
    · omega
    · have := lastSt_pos s.ents (0, 0) (s.out.length - 2) (Nat.zero_le _) (fun e he => by have := h.strict e he; omega)
      omega
    · have g : ∀ j, j < 3 → s.out.getD (o0.length + j) 0 = s.prev := by
        intro j hj
        rw [ho, List.getD_eq_getElem?_getD, List.getElem?_append_right (by omega)]
        have : o0.length + j - o0.length = j := by omega
        rw [this, List.getElem?_replicate, if_pos hj]; rfl
      have e1 : s.out.length - 1 - 1 = o0.length + 1 := by omega
      have e2 : s.out.length - 1 - 2 = o0.length + 0 := by omega
      have e3 : s.out.length - 1 = o0.length + 2 := by omega
      rw [e1, e2, e3, g 1 (by omega), g 0 (by omega), g 2 (by omega)]
      exact ⟨rfl, rfl⟩
  · simp only [List.append_nil]; exact h.gd

theorem vinv_step (s : St) (p : List UInt8) (curr : UInt8) (h : VInv s p) (hb : Bnd s p) (hc : curr ≠ b64Invalid)
    (hprev : p = [] → s.prev = b64Invalid) : VInv (step s curr) (p ++ [curr]) := by
  unfold step
  by_cases hsame : (curr == s.prev) = true
  · have hcp : curr = s.prev := by simpa using hsame
    have hne : p ≠ [] := by intro e; apply hc; rw [hcp]; exact hprev e
    obtain ⟨o0, ho⟩ := h.tail hne
    rw [if_pos hsame]
    by_cases hseq : s.seq + 1 ≥ 3
    · rw [if_pos hseq]
      refine ⟨fun _ => ⟨o0, ?_⟩, h.strict, h.gd⟩
      show s.out = o0 ++ List.replicate (min (s.seq + 1 + 1) 3) s.prev
      have : min (s.seq + 1 + 1) 3 = min (s.seq + 1) 3 := by omega
      rw [this]; exact ho
    · rw [if_neg hseq]
      refine ⟨fun _ => ⟨o0, ?_⟩, fun e he => by have := h.strict e he; simp; omega, good_snoc _ _ _ _ _ h.gd⟩
      show s.out ++ [curr] = o0 ++ List.replicate (min (s.seq + 1 + 1) 3) s.prev
      have e1 : min (s.seq + 1 + 1) 3 = min (s.seq + 1) 3 + 1 := by omega
      rw [e1, ho, hcp, List.append_assoc]
      congr 1
      rw [show [s.prev] = List.replicate 1 s.prev from rfl, List.replicate_append_replicate]
  · rw [if_neg hsame]
    obtain ⟨g1, g2⟩ := pending_good s p h hb
    refine ⟨fun _ => ⟨s.out, by simp⟩, fun e he => by have := g2 e he; simp; omega, good_snoc _ _ _ _ _ g1⟩

theorem vinv_fold (y : List UInt8) : ∀ (s : St) (p : List UInt8), VInv s p → Bnd s p → (p = [] → s.prev = b64Invalid) →
    (∀ c ∈ y, c ≠ b64Invalid) → VInv (y.foldl step s) (p ++ y) := by
  induction y with
  | nil => intro s p h _ _ _; simpa using h
  | cons c cs ih =>
    intro s p h hb hp hy
    simp only [List.foldl_cons]
    have := ih (step s c) (p ++ [c]) (vinv_step s p c h hb (hy c (by simp)) hp)
      (bnd_step s p c hb (hy c (by simp)) hp) (fun e => by simp at e) (fun d hd => hy d (by simp [hd]))
    simpa using this

/-- the entries of the list compressor pass the scan -/
theorem compressA_good (x : List UInt8) (hx : ∀ c ∈ x, c ≠ b64Invalid) :
    good (compressA x).1 (compressA x).2 0 0 := by
  have hv := vinv_fold x {} [] vinv_init bnd_init (fun _ => rfl) hx
  have hb := bnd_fold x {} [] bnd_init (fun _ => rfl) hx
  simp only [List.nil_append] at hv hb
  exact (pending_good _ x hv hb).1

theorem rleValidLoop_zeros (bh : List UInt8) (L : UInt8) : ∀ (tail : List UInt8) (expanded : Nat) (b : Bool) (pp pl : UInt8),
    (∀ t ∈ tail, t = 0) → rleValidLoop bh L tail expanded b pp pl = some expanded := by
  intro tail
  induction tail with
  | nil => intro _ _ _ _ _; rfl
  | cons t ts ih =>
    intro expanded b pp pl ht
    have : t = 0 := ht t (by simp)
    subst this
    rw [rleValidLoop]
    have h1 : ((0 : UInt8) != Rle.TERMINATOR && b) = false := by simp [Rle.TERMINATOR]
    have h2 : ((0 : UInt8) == Rle.TERMINATOR) = true := by simp [Rle.TERMINATOR]
    simp only [h1, h2, Bool.false_eq_true, if_false, if_true]
    exact ih _ _ _ _ (fun x hx => ht x (by simp [hx]))

/-- **the validity scan** accepts encoded entries that satisfy `good`, followed by terminators -/
theorem rleValidLoop_spec (bh : List UInt8) (L : UInt8) (hL : L.toNat ≤ bh.length) :
    ∀ (es : List (Nat × Nat)) (tail : List UInt8) (expanded : Nat) (pp pl : UInt8),
    good (bh.take L.toNat) es pp.toNat pl.toNat → (∀ e ∈ es, e.1 < 64) → (∀ t ∈ tail, t = 0) →
    rleValidLoop bh L (es.map encodeEnt ++ tail) expanded false pp pl = some (expanded + (es.map (·.2)).sum) := by
  intro es
  induction es with
  | nil =>
    intro tail expanded pp pl _ _ ht
    simp only [List.map_nil, List.nil_append, List.sum_nil, Nat.add_zero]
    exact rleValidLoop_zeros bh L tail expanded false pp pl ht
  | cons e es ih =>
    intro tail expanded pp pl hg h64 ht
    obtain ⟨pos, l⟩ := e
    obtain ⟨g1, g2, g3, g4, g5, g6, g7, g8⟩ := hg
    have hp64 : pos < 64 := h64 (pos, l) (by simp)
    obtain ⟨d1, d2⟩ := enc_dec pos l hp64 g4 g5
    have hnz := d2 (by omega)
    unfold decodeEnt at d1
    have hp : (Rle.decode (encodeEnt (pos, l))).1.toNat = pos := (Prod.mk.inj d1).1
    have hl : (Rle.decode (encodeEnt (pos, l))).2.toNat = l := (Prod.mk.inj d1).2
    have hlen : (bh.take L.toNat).length = L.toNat := by rw [List.length_take]; omega
    rw [hlen] at g2
    simp only [List.map_cons, List.cons_append, List.sum_cons]
    rw [rleValidLoop]
    have t1 : (encodeEnt (pos, l) != Rle.TERMINATOR && false) = false := by simp
    have t2 : (encodeEnt (pos, l) == Rle.TERMINATOR) = false := by
      simpa [Rle.TERMINATOR] using hnz
    simp only [t1, t2, Bool.false_eq_true, if_false]
    have c1 : ((Rle.decode (encodeEnt (pos, l))).1 < 2 || (Rle.decode (encodeEnt (pos, l))).1 ≥ L ||
        (Rle.decode (encodeEnt (pos, l))).1 < pp) = false := by
      simp only [Bool.or_eq_false_iff, decide_eq_false_iff_not, UInt8.not_lt, UInt8.not_le, ge_iff_le]
      refine ⟨⟨?_, ?_⟩, ?_⟩
      · apply UInt8.le_iff_toNat_le.mpr; rw [hp]; exact g1
      · apply UInt8.lt_iff_toNat_lt.mpr; rw [hp]; exact g2
      · apply UInt8.le_iff_toNat_le.mpr; rw [hp]; exact g3
    rw [show (Rle.decode (encodeEnt (pos, l))) = ((Rle.decode (encodeEnt (pos, l))).1, (Rle.decode (encodeEnt (pos, l))).2) from rfl]
    simp only [c1, Bool.false_eq_true, if_false]
    have hrec := ih tail (expanded + l) (Rle.decode (encodeEnt (pos, l))).1 (Rle.decode (encodeEnt (pos, l))).2
      (by rw [hp, hl]; exact g8) (fun e he => h64 e (by simp [he])) ht
    by_cases hsame : pp.toNat = pos
    · have hpe : (pp == (Rle.decode (encodeEnt (pos, l))).1) = true := by
        simp only [beq_iff_eq]; apply UInt8.toNat_inj.mp; rw [hp]; exact hsame
      have hpl4 : (pl != 4) = false := by
        have := g6 hsame
        simp only [bne_eq_false_iff_eq]
        apply UInt8.toNat_inj.mp; rw [this]; rfl
      simp only [hpe, if_true, hpl4, Bool.false_eq_true, if_false, hl]
      rw [hrec]; congr 1; omega
    · have hpe : (pp == (Rle.decode (encodeEnt (pos, l))).1) = false := by
        simp only [beq_eq_false_iff_ne, ne_eq]
        intro e; apply hsame; rw [e, hp]
      obtain ⟨k1, k2⟩ := g7 hsame
      have get : ∀ j, j ≤ pos → (bh.take L.toNat).getD j 0 = bh.getD j 0 := by
        intro j hj
        rw [List.getD_eq_getElem?_getD, List.getD_eq_getElem?_getD, List.getElem?_take, if_pos (by omega)]
      rw [get _ (by omega), get _ (by omega)] at k1
      rw [get _ (Nat.le_refl _), get _ (by omega)] at k2
      have hslice : ((bh.drop (pos - 2 + 1)).take (pos - (pos - 2))).any (· != bh.getD (pos - 2) 0) = false := by
        have e1 : pos - (pos - 2) = 2 := by omega
        have e2 : pos - 2 + 1 = pos - 1 := by omega
        rw [e1, e2]
        have hl1 : pos - 1 < bh.length := by omega
        have hl2 : pos < bh.length := by omega
        have : (bh.drop (pos - 1)).take 2 = [bh.getD (pos - 1) 0, bh.getD pos 0] := by
          apply List.ext_getElem?
          intro j
          rw [List.getElem?_take, List.getElem?_drop]
          match j with
          | 0 => simp [List.getD_eq_getElem?_getD, List.getElem?_eq_getElem hl1]
          | 1 =>
            have : pos - 1 + 1 = pos := by omega
            simp [this, List.getD_eq_getElem?_getD, List.getElem?_eq_getElem hl2]
          | j + 2 =>
            have : ¬ (j + 2 < 2) := by omega
            simp [this]
        rw [this]
        simp only [List.any_cons, List.any_nil, Bool.or_false, Bool.or_eq_false_iff, bne_eq_false_iff_eq]
        exact ⟨k1, k2⟩
      simp only [hpe, Bool.false_eq_true, if_false, hp, hslice, hl]
      rw [hrec]; congr 1; omega

end Ffuzzy.DualB
