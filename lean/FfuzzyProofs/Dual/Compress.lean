/-
  C07, layer B1: `compress_block_hash_with_rle` on arrays refines the list codec of layer A.
-/
import FfuzzyModel.Dual
import FfuzzyProofs.Dual.Abstract
namespace Ffuzzy.DualB
open Ffuzzy Ffuzzy.Spec Ffuzzy.Collapse Ffuzzy.DualA

/-- an RLE byte as an entry `(pos, len)` -/
def decodeEnt (b : UInt8) : Nat × Nat := ((Rle.decode b).1.toNat, (Rle.decode b).2.toNat)
def encodeEnt (e : Nat × Nat) : UInt8 := Rle.encode e.1.toUInt8 e.2.toUInt8

theorem enc_dec_fin : ∀ (pos : Fin 64) (l : Fin 4),
    decodeEnt (Rle.encode pos.val.toUInt8 (l.val + 1).toUInt8) = (pos.val, l.val + 1) ∧
    (1 ≤ pos.val → Rle.encode pos.val.toUInt8 (l.val + 1).toUInt8 ≠ 0) := by decide +kernel

theorem enc_dec (pos l : Nat) (hp : pos < 64) (hl1 : 1 ≤ l) (hl4 : l ≤ 4) :
    decodeEnt (encodeEnt (pos, l)) = (pos, l) ∧ (1 ≤ pos → encodeEnt (pos, l) ≠ 0) := by
  have := enc_dec_fin ⟨pos, hp⟩ ⟨l - 1, by omega⟩
  simp only at this
  have e : l - 1 + 1 = l := by omega
  rw [e] at this
  exact this

/-- decoded entries of the first `off` bytes -/
def entsOf (rle : List UInt8) (off : Nat) : List (Nat × Nat) := (rle.take off).map decodeEnt

theorem take_fillSlice_set (rle : List UInt8) (start fill : Nat) (v w : UInt8) (h : start + fill < rle.length) :
    ((fillSlice rle start (start + fill) v).set (start + fill) w).take (start + fill + 1) =
      rle.take start ++ List.replicate fill v ++ [w] ∧
    ((fillSlice rle start (start + fill) v).set (start + fill) w).length = rle.length := by
  have hl : (fillSlice rle start (start + fill) v).length = rle.length := by
    unfold fillSlice; simp; omega
  refine ⟨?_, by simp [hl]⟩
  apply List.ext_getElem?
  intro j
  rw [List.getElem?_take]
  by_cases hj : j < start + fill + 1
  · rw [if_pos hj, List.getElem?_set]
    by_cases e : start + fill = j
    · subst e
      simp only [if_true, hl, h]
      rw [List.getElem?_append_right (by simp; omega)]
      simp
      have : start + fill - (min start rle.length + fill) = 0 := by omega
      rw [this]; rfl
    · rw [if_neg e]
      unfold fillSlice
      have e2 : start + fill - start = fill := by omega
      rw [e2]
      by_cases h1 : j < start
      · rw [List.append_assoc, List.getElem?_append_left (by simp; omega), List.getElem?_append_left (by simp; omega)]
        rw [List.getElem?_append_left (by simp; omega)]
      · rw [List.append_assoc, List.getElem?_append_right (by simp; omega)]
        rw [List.getElem?_append_left (by simp; omega)]
        rw [List.getElem?_append_left (by simp; omega)]
        rw [List.getElem?_append_right (by simp; omega)]
  · rw [if_neg hj]
    symm
    apply List.getElem?_eq_none
    simp; omega

/-- **`update_rle_block`**: appends the chunks of one run to the decoded entries -/
theorem updateRleBlock_spec (rle : List UInt8) (off pos runLen : Nat) (hrun : 4 ≤ runLen) (hpos : pos < 64)
    (hfit : off + (runLen - 4) / 4 < rle.length) :
    ∃ rle', updateRleBlock rle off pos runLen = some (rle', off + (runLen - 4) / 4 + 1) ∧
      rle'.length = rle.length ∧
      rle'.take (off + (runLen - 4) / 4 + 1) = rle.take off ++ (chunks pos (runLen - 3)).map encodeEnt := by
  unfold updateRleBlock
  have e1 : runLen - MAX_SEQUENCE_SIZE - 1 = runLen - 4 := by unfold MAX_SEQUENCE_SIZE; omega
  simp only [e1, Rle.MAX_RUN_LENGTH]
  rw [if_pos hfit]
  obtain ⟨t1, t2⟩ := take_fillSlice_set rle off ((runLen - 4) / 4) (Rle.encode pos.toUInt8 (4 : Nat).toUInt8)
    (Rle.encode pos.toUInt8 (((runLen - 4) % 4).toUInt8 + 1)) hfit
  refine ⟨_, rfl, t2, ?_⟩
  rw [t1]
  unfold chunks
  have e2 : runLen - 3 - 1 = runLen - 4 := by omega
  rw [e2, List.map_append, List.map_replicate, List.append_assoc]
  congr 2
  simp only [List.map_cons, List.map_nil, encodeEnt]
  congr 2
  have hm : (runLen - 4) % 4 < 4 := Nat.mod_lt _ (by omega)
  apply UInt8.toNat_inj.mp
  rw [UInt8.toNat_add]
  simp [Nat.toUInt8, UInt8.toNat_ofNat']

structure Rel (n c : Nat) (m : CompressSt) (a : St) : Prop where
  outLen : m.out.length = n
  rleLen : m.rle.length = c
  len : m.len = a.out.length
  out : m.out.take m.len = a.out
  seq : m.seq = a.seq
  prev : m.prev = a.prev
  off : m.rleOffset = a.ents.length
  rle : m.rle.take m.rleOffset = a.ents.map encodeEnt

theorem take_set_succ (l : List UInt8) (i : Nat) (v : UInt8) (h : i < l.length) :
    (l.set i v).take (i + 1) = l.take i ++ [v] := by
  apply List.ext_getElem?
  intro j
  rw [List.getElem?_take]
  by_cases hj : j < i + 1
  · rw [if_pos hj, List.getElem?_set]
    by_cases e : i = j
    · subst e
      rw [if_pos rfl, if_pos h, List.getElem?_append_right (by simp; omega)]
      simp
      have : min i l.length = i := by omega
      rw [this]; simp
    · rw [if_neg e, List.getElem?_append_left (by simp; omega), List.getElem?_take, if_pos (by omega)]
  · rw [if_neg hj]
    symm; apply List.getElem?_eq_none; simp; omega

/-- the flush of the run in progress (used when a run ends and at the end of the input) -/
theorem flush_spec (n c : Nat) (hn : n ≤ 64) (hc : n ≤ 4 * c) (m : CompressSt) (a : St) (p : List UInt8)
    (hr : Rel n c m a) (hb : Bnd a p) (hp : p.length ≤ n) :
    ∃ rle' off', (if m.seq ≥ MAX_SEQUENCE_SIZE then updateRleBlock m.rle m.rleOffset (m.len - 1) (m.seq + 1)
        else some (m.rle, m.rleOffset)) = some (rle', off') ∧
      rle'.length = c ∧ off' = (a.ents ++ pending a).length ∧ rle'.take off' = (a.ents ++ pending a).map encodeEnt := by
  unfold MAX_SEQUENCE_SIZE
  by_cases h3 : m.seq ≥ 3
  · rw [if_pos h3]
    have hne : p ≠ [] := by intro e; have := (hb.empty e).2.1; rw [← hr.seq] at this; omega
    obtain ⟨b1, b2⟩ := hb.ents hne
    have hol := hb.outLe
    rw [← hr.seq, ← hr.len] at b2
    rw [← hr.seq, ← hr.off] at b1
    rw [← hr.len] at hol
    obtain ⟨rle', e1, e2, e3⟩ := updateRleBlock_spec m.rle m.rleOffset (m.len - 1) (m.seq + 1) (by omega) (by omega)
      (by rw [hr.rleLen]; omega)
    have hpend : pending a = chunks (m.len - 1) (m.seq + 1 - 3) := by
      unfold pending; rw [← hr.seq, if_pos h3, ← hr.len]
    refine ⟨rle', _, e1, by rw [e2, hr.rleLen], ?_, ?_⟩
    · rw [List.length_append, hpend, chunks_length, ← hr.off]; omega
    · rw [e3, hr.rle, hpend, List.map_append]
  · rw [if_neg h3]
    have hpend : pending a = [] := by unfold pending; rw [← hr.seq, if_neg h3]
    refine ⟨m.rle, m.rleOffset, rfl, hr.rleLen, by rw [hpend, List.append_nil, hr.off], by rw [hpend, List.append_nil, hr.rle]⟩

/-- **the compression loop refines the list codec** -/
theorem compressLoop_refines (n c : Nat) (hn : n ≤ 64) (hc : n ≤ 4 * c) : ∀ (input : List UInt8) (m : CompressSt)
    (a : St) (p : List UInt8), Rel n c m a → Bnd a p → Inv a p → (p = [] → a.prev = b64Invalid) →
    (∀ x ∈ input, x ≠ b64Invalid) → p.length + input.length ≤ n →
    ∃ m', compressLoop input m = some m' ∧ Rel n c m' (input.foldl step a) := by
  intro input
  induction input with
  | nil => intro m a p hr _ _ _ _ _; exact ⟨m, rfl, hr⟩
  | cons curr rest ih =>
    intro m a p hr hb hi hprev hx hlen
    simp only [List.length_cons] at hlen
    have hcurr := hx curr (by simp)
    have hb' := bnd_step a p curr hb hcurr hprev
    have hi' := inv_step a p curr hi hcurr hprev
    have hol := hb.outLe
    have hlt : m.len < m.out.length := by rw [hr.outLen, hr.len]; omega
    simp only [List.foldl_cons]
    rw [compressLoop]
    by_cases hsame : (curr == m.prev) = true
    · rw [if_pos hsame]
      have hsame' : (curr == a.prev) = true := by rw [← hr.prev]; exact hsame
      by_cases hseq : m.seq + 1 ≥ MAX_SEQUENCE_SIZE
      · rw [if_pos hseq]
        have hst : step a curr = { a with seq := a.seq + 1 } := by
          unfold step; rw [if_pos hsame', if_pos (by rw [← hr.seq]; exact hseq)]
        apply ih _ _ (p ++ [curr]) _ hb' hi' (fun e => by simp at e) (fun x hx' => hx x (by simp [hx'])) (by simp; omega)
        rw [hst]
        exact ⟨hr.outLen, hr.rleLen, hr.len, hr.out, by show m.seq + 1 = a.seq + 1; rw [hr.seq], hr.prev, hr.off, hr.rle⟩
      · rw [if_neg hseq]
        have hst : step a curr = { a with seq := a.seq + 1, out := a.out ++ [curr] } := by
          unfold step; rw [if_pos hsame', if_neg (by rw [← hr.seq]; exact hseq)]
        apply ih _ _ (p ++ [curr]) _ hb' hi' (fun e => by simp at e) (fun x hx' => hx x (by simp [hx'])) (by simp; omega)
        rw [hst]
        refine ⟨by simp [hr.outLen], hr.rleLen, by show m.len + 1 = (a.out ++ [curr]).length; simp [hr.len], ?_,
          by show m.seq + 1 = a.seq + 1; rw [hr.seq], hr.prev, hr.off, hr.rle⟩
        show (m.out.set m.len curr).take (m.len + 1) = a.out ++ [curr]
        rw [take_set_succ _ _ _ hlt, hr.out]
    · rw [if_neg hsame]
      have hsame' : ¬ (curr == a.prev) = true := by rw [← hr.prev]; exact hsame
      obtain ⟨rle', off', e1, e2, e3, e4⟩ := flush_spec n c hn hc m a p hr hb (by omega)
      rw [e1]
      simp only
      have hst : step a curr = { out := a.out ++ [curr], ents := a.ents ++ pending a, seq := 0, prev := curr } := by
        unfold step; rw [if_neg hsame']
      apply ih _ _ (p ++ [curr]) _ hb' hi' (fun e => by simp at e) (fun x hx' => hx x (by simp [hx'])) (by simp; omega)
      rw [hst]
      refine ⟨by simp [hr.outLen], e2, by show m.len + 1 = (a.out ++ [curr]).length; simp [hr.len], ?_, rfl, rfl, e3, e4⟩
      show (m.out.set m.len curr).take (m.len + 1) = a.out ++ [curr]
      rw [take_set_succ _ _ _ hlt, hr.out]

theorem fillSlice_tail (l : List UInt8) (i : Nat) (v : UInt8) (h : i ≤ l.length) :
    fillSlice l i l.length v = padTo (l.take i) l.length v := by
  unfold fillSlice padTo
  simp only [List.drop_length, List.append_nil, List.length_take]
  have : min i l.length = i := by omega
  rw [this]

/-- **`compress_block_hash_with_rle`**: whatever the destination arrays held, the result is the list
    codec's output, zero padded -/
theorem compressBlockHash_spec (n c : Nat) (hn : n ≤ 64) (hc : n ≤ 4 * c) (out rle input : List UInt8)
    (hout : out.length = n) (hrle : rle.length = c) (hx : ∀ x ∈ input, x ≠ b64Invalid) (hlen : input.length ≤ n) :
    compressBlockHash out rle input =
      some (padTo (compressA input).1 n 0, padTo ((compressA input).2.map encodeEnt) c 0,
            (compressA input).1.length.toUInt8) := by
  have hr0 : Rel n c { out := out, rle := rle } {} :=
    ⟨hout, hrle, rfl, by simp, rfl, rfl, rfl, by simp⟩
  obtain ⟨m', e1, hr⟩ := compressLoop_refines n c hn hc input { out := out, rle := rle } {} [] hr0 bnd_init inv_init
    (fun _ => rfl) hx (by simpa using hlen)
  have hb := bnd_fold input {} [] bnd_init (fun _ => rfl) hx
  simp only [List.nil_append] at hb
  obtain ⟨rle', off', f1, f2, f3, f4⟩ := flush_spec n c hn hc m' _ input hr hb hlen
  unfold compressBlockHash
  rw [e1]
  simp only
  rw [f1]
  simp only
  have hol := hb.outLe
  have hA : compressA input = ((input.foldl step {}).out, (input.foldl step {}).ents ++ pending (input.foldl step {})) := rfl
  rw [hA]
  simp only
  congr 2
  · rw [fillSlice_tail _ _ _ (by rw [hr.outLen, hr.len]; omega), hr.out, hr.outLen]
  · congr 1
    · have hoff : off' ≤ rle'.length := by
        have : (rle'.take off').length = off' := by rw [f4, List.length_map, ← f3]
        rw [List.length_take] at this; omega
      rw [fillSlice_tail _ _ _ hoff, f4, f2]
      rfl
    · rw [hr.len]

end Ffuzzy.DualB
