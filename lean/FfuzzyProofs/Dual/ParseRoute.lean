/-
  C07, text route: the runs the block-hash parser reports (`report_norm_seq`) are exactly the runs
  the compressor encodes, so the RLE block built while parsing is the compressor's.
-/
import FfuzzyProofs.Dual.Valid
import FfuzzyProofs.ParseBh
namespace Ffuzzy.DualP
open Ffuzzy Ffuzzy.Spec Ffuzzy.Collapse Ffuzzy.DualA Ffuzzy.DualB Ffuzzy.ParseBh

/-- entries encoded by a list of reports `(start, raw run length)` -/
def flat (reports : List (Nat × Nat)) : List (Nat × Nat) :=
  reports.flatMap (fun r => chunks (r.1 + 2) (r.2 - 3))

theorem flat_append (a b : List (Nat × Nat)) : flat (a ++ b) = flat a ++ flat b := by
  unfold flat; simp

/-- parser loop state vs list compressor state after the same decoded prefix `p` -/
structure PRel (s : BhLoop) (a : St) (p : List UInt8) : Prop where
  len : s.len = a.out.length
  prev : s.prev = a.prev
  seq : s.seq = min a.seq 3
  idx : s.index = p.length
  run : p ≠ [] → s.seqStart + min (a.seq + 1) 3 = s.len ∧ a.seq + 1 + s.seqStartIn = s.index
  ents : a.ents = flat s.reports
  rep4 : ∀ r ∈ s.reports, 4 ≤ r.2

theorem prel_init (bh : List UInt8) : PRel { bh := bh } {} [] :=
  ⟨rfl, rfl, rfl, rfl, fun h => absurd rfl h, rfl, fun r hr => by simp at hr⟩

/-- the skip branch of the parser = the `seq + 1` branch of the compressor -/
theorem prel_skip (s : BhLoop) (a : St) (p : List UInt8) (curr : UInt8) (h : PRel s a p) (hb : Bnd a p)
    (hc : curr ≠ b64Invalid) (hprev : p = [] → a.prev = b64Invalid)
    (hk : (true && curr == s.prev && decide (s.seq + 1 ≥ MAX_SEQUENCE_SIZE)) = true) :
    PRel { s with seq := MAX_SEQUENCE_SIZE, index := s.index + 1 } (step a curr) (p ++ [curr]) := by
  simp only [Bool.true_and, Bool.and_eq_true, decide_eq_true_eq, beq_iff_eq] at hk
  unfold MAX_SEQUENCE_SIZE at hk ⊢
  have hcp : curr = a.prev := by rw [← h.prev]; exact hk.1
  have hne : p ≠ [] := by intro e; apply hc; rw [hcp]; exact hprev e
  have hseq : a.seq + 1 ≥ 3 := by have := h.seq; omega
  have hst : step a curr = { a with seq := a.seq + 1 } := by
    unfold step; rw [if_pos (by simpa using hcp), if_pos hseq]
  rw [hst]
  obtain ⟨r1, r2⟩ := h.run hne
  refine ⟨h.len, h.prev, by show 3 = min (a.seq + 1) 3; omega, by simp [h.idx], fun _ => ⟨?_, ?_⟩, h.ents, h.rep4⟩
  · show s.seqStart + min (a.seq + 1 + 1) 3 = s.len; omega
  · show a.seq + 1 + 1 + s.seqStartIn = s.index + 1; omega

/-- a kept character -/
theorem prel_keep (s : BhLoop) (a : St) (p : List UInt8) (curr : UInt8) (h : PRel s a p) (hb : Bnd a p)
    (hc : curr ≠ b64Invalid) (hprev : p = [] → a.prev = b64Invalid)
    (hk : (true && curr == s.prev && decide (s.seq + 1 ≥ MAX_SEQUENCE_SIZE)) = false) :
    PRel (keepS true curr s) (step a curr) (p ++ [curr]) ∧
    a.ents ++ (if curr == a.prev then [] else pending a) = flat (bhTrack true curr s).reports := by
  simp only [Bool.true_and, Bool.and_eq_false_iff, decide_eq_false_iff_not] at hk
  unfold MAX_SEQUENCE_SIZE at hk
  by_cases hsame : (curr == s.prev) = true
  · have hcp : curr = a.prev := by rw [← h.prev]; simpa using hsame
    have hne : p ≠ [] := by intro e; apply hc; rw [hcp]; exact hprev e
    have hseq : ¬ (a.seq + 1 ≥ 3) := by
      have := h.seq
      rcases hk with hk | hk
      · rw [hsame] at hk; exact absurd hk (by simp)
      · omega
    have hst : step a curr = { a with seq := a.seq + 1, out := a.out ++ [curr] } := by
      unfold step; rw [if_pos (by simpa using hcp), if_neg hseq]
    have htr : bhTrack true curr s = { s with seq := s.seq + 1 } := by
      unfold bhTrack; simp only [if_true]; rw [if_pos hsame]
    obtain ⟨r1, r2⟩ := h.run hne
    have hse := h.seq
    refine ⟨?_, ?_⟩
    · rw [hst]
      refine ⟨by simp [h.len], by rw [keepS_prev, htr]; exact h.prev, by rw [keepS_seq, htr]; show s.seq + 1 = min (a.seq + 1) 3; omega,
        by simp [h.idx], fun _ => ⟨?_, ?_⟩, ?_, ?_⟩
      rotate_left 3
      · have : (keepS true curr s).reports = s.reports := by unfold keepS; rw [htr]
        rw [this]; exact h.rep4
      · show (keepS true curr s).seqStart + min (a.seq + 1 + 1) 3 = (keepS true curr s).len
        have : (keepS true curr s).seqStart = s.seqStart := by unfold keepS; rw [htr]
        rw [this, keepS_len]; omega
      · show a.seq + 1 + 1 + (keepS true curr s).seqStartIn = (keepS true curr s).index
        have : (keepS true curr s).seqStartIn = s.seqStartIn := by unfold keepS; rw [htr]
        rw [this, keepS_index]; omega
      · show a.ents = flat (keepS true curr s).reports
        have : (keepS true curr s).reports = s.reports := by unfold keepS; rw [htr]
        rw [this]; exact h.ents
    · rw [htr]
      have : (curr == a.prev) = true := by simpa using hcp
      rw [if_pos this, List.append_nil]; exact h.ents
  · have hsame' : ¬ (curr == a.prev) = true := by rw [← h.prev]; exact hsame
    have hst : step a curr = { out := a.out ++ [curr], ents := a.ents ++ pending a, seq := 0, prev := curr } := by
      unfold step; rw [if_neg hsame']
    have htr : bhTrack true curr s =
        { s with reports := (if s.seq = MAX_SEQUENCE_SIZE then s.reports ++ [(s.seqStart, s.index - s.seqStartIn)] else s.reports),
                 seq := 0, seqStart := s.len, seqStartIn := s.index, prev := curr } := by
      unfold bhTrack; simp only [if_true]; rw [if_neg hsame]
    -- the flush of the finished run
    have hflush : a.ents ++ pending a =
        flat (if s.seq = MAX_SEQUENCE_SIZE then s.reports ++ [(s.seqStart, s.index - s.seqStartIn)] else s.reports) := by
      unfold MAX_SEQUENCE_SIZE pending
      have hse := h.seq
      by_cases h3 : a.seq ≥ 3
      · have hne : p ≠ [] := by intro e; have := (hb.empty e).2.1; omega
        obtain ⟨r1, r2⟩ := h.run hne
        rw [if_pos h3, if_pos (by omega), flat_append, ← h.ents]
        congr 1
        unfold flat
        simp only [List.flatMap_cons, List.flatMap_nil, List.append_nil]
        have e1 : a.out.length - 1 = s.seqStart + 2 := by rw [← h.len]; omega
        have e2 : a.seq + 1 - 3 = s.index - s.seqStartIn - 3 := by omega
        rw [e1, e2]
      · rw [if_neg h3, if_neg (by omega), List.append_nil]; exact h.ents
    refine ⟨?_, ?_⟩
    · rw [hst]
      refine ⟨by simp [h.len], by rw [keepS_prev, htr], by rw [keepS_seq, htr]; rfl, by simp [h.idx], fun _ => ⟨?_, ?_⟩, ?_, ?_⟩
      rotate_left 3
      · have hr : (keepS true curr s).reports =
            (if s.seq = MAX_SEQUENCE_SIZE then s.reports ++ [(s.seqStart, s.index - s.seqStartIn)] else s.reports) := by
          unfold keepS; rw [htr]
        rw [hr]
        intro r hrm
        unfold MAX_SEQUENCE_SIZE at hrm
        split at hrm
        · next h3 =>
          rcases List.mem_append.mp hrm with h1 | h1
          · exact h.rep4 r h1
          · simp at h1
            have hse := h.seq
            have hne : p ≠ [] := by intro e; have := (hb.empty e).2.1; omega
            obtain ⟨r1, r2⟩ := h.run hne
            rw [h1]; simp only; omega
        · exact h.rep4 r hrm
      · show (keepS true curr s).seqStart + min (0 + 1) 3 = (keepS true curr s).len
        have : (keepS true curr s).seqStart = s.len := by unfold keepS; rw [htr]
        rw [this, keepS_len]; omega
      · show 0 + 1 + (keepS true curr s).seqStartIn = (keepS true curr s).index
        have : (keepS true curr s).seqStartIn = s.index := by unfold keepS; rw [htr]
        rw [this, keepS_index]; omega
      · show a.ents ++ pending a = flat (keepS true curr s).reports
        have : (keepS true curr s).reports =
            (if s.seq = MAX_SEQUENCE_SIZE then s.reports ++ [(s.seqStart, s.index - s.seqStartIn)] else s.reports) := by
          unfold keepS; rw [htr]
        rw [this]; exact hflush
    · rw [htr]
      have : (curr == a.prev) = false := by simpa using hsame'
      rw [this]
      simp only [Bool.false_eq_true, if_false]
      exact hflush

theorem isB64_ne_invalid (c : UInt8) (h : isB64 c = true) : b64Index c ≠ b64Invalid := by
  have := (isB64_iff c).mp h
  simpa using this

/-- what the exit state of the scanning loop knows about the reports -/
def ExitOK (n : Nat) (lr ck : Bool) (a : St) (p : List UInt8) (cs : List UInt8) : BhLoopExit → Prop
  | .done s' _ _ =>
    PRel s' (((pre cs).map b64Index).foldl step a) (p ++ (pre cs).map b64Index) ∧
    (ck = true → lr = true → p.length ≤ n → (p ++ (pre cs).map b64Index).length ≤ n)
  | .overflow s' =>
    ∃ k, ((((pre cs).map b64Index).take k).foldl step a).ents = flat s'.reports ∧
      (ck = true → lr = true → p.length ≤ n → (p ++ ((pre cs).map b64Index).take k).length ≤ n) ∧
      (∀ r ∈ s'.reports, 4 ≤ r.2)

theorem bhLoop_prel (n : Nat) (lr ck : Bool) : ∀ (cs : List UInt8) (s : BhLoop) (a : St) (p : List UInt8),
    PRel s a p → Bnd a p → (p = [] → a.prev = b64Invalid) →
    ExitOK n lr ck a p cs (bhLoop n true lr ck cs s) := by
  intro cs
  induction cs with
  | nil =>
    intro s a p h _ _
    rw [bhLoop]
    unfold ExitOK
    simp only [pre, List.takeWhile_nil, List.map_nil, List.foldl_nil, List.append_nil]
    exact ⟨h, fun _ _ hl => hl⟩
  | cons ch rest ih =>
    intro s a p h hb hprev
    by_cases hv : isB64 ch = true
    · have hinv := (isB64_iff ch).mp hv
      have hne := isB64_ne_invalid ch hv
      have hpre : (pre (ch :: rest)).map b64Index = b64Index ch :: (pre rest).map b64Index := by
        rw [pre_cons_valid ch rest hv]; rfl
      have hb' := bnd_step a p (b64Index ch) hb hne hprev
      rw [bhLoop]
      simp only [hinv, Bool.false_eq_true, if_false]
      by_cases hraw : (ck && lr && decide (s.index ≥ n)) = true
      · rw [if_pos hraw]
        unfold ExitOK
        refine ⟨0, by simp only [List.take_zero, List.foldl_nil]; exact h.ents, fun _ _ hl => by simpa using hl, h.rep4⟩
      · rw [if_neg hraw]
        have hlt : ck = true → lr = true → s.index < n := by
          intro h1 h2; rw [h1, h2] at hraw; simp at hraw; omega
        by_cases hskip : (true && b64Index ch == s.prev && decide (s.seq + 1 ≥ MAX_SEQUENCE_SIZE)) = true
        · rw [if_pos hskip]
          have hrel := prel_skip s a p (b64Index ch) h hb hne hprev hskip
          have := ih _ _ _ hrel hb' (fun e => by simp at e)
          revert this
          cases bhLoop n true lr ck rest { s with seq := MAX_SEQUENCE_SIZE, index := s.index + 1 } with
          | done s' b c =>
            intro this
            unfold ExitOK at this ⊢
            rw [hpre]
            simp only [List.foldl_cons]
            have e : p ++ b64Index ch :: (pre rest).map b64Index = p ++ [b64Index ch] ++ (pre rest).map b64Index := by simp
            rw [e]
            refine ⟨this.1, fun h1 h2 hl => this.2 h1 h2 ?_⟩
            have := hlt h1 h2; rw [h.idx] at this; simp; omega
          | overflow s' =>
            intro this
            unfold ExitOK at this ⊢
            obtain ⟨k, e1, e2, e3⟩ := this
            refine ⟨k + 1, ?_, fun h1 h2 hl => ?_, e3⟩
            · rw [hpre]; simp only [List.take_succ_cons, List.foldl_cons]; exact e1
            · rw [hpre]; simp only [List.take_succ_cons]
              have := e2 h1 h2 (by have := hlt h1 h2; rw [h.idx] at this; simp; omega)
              simpa using this
        · have hskip' : (true && b64Index ch == s.prev && decide (s.seq + 1 ≥ MAX_SEQUENCE_SIZE)) = false := by
            simpa using hskip
          rw [if_neg hskip]
          obtain ⟨hrel, hrep⟩ := prel_keep s a p (b64Index ch) h hb hne hprev hskip'
          by_cases hfull : (ck && decide ((bhTrack true (b64Index ch) s).len ≥ n)) = true
          · rw [if_pos hfull]
            unfold ExitOK
            refine ⟨1, ?_, fun h1 h2 hl => ?_, ?_⟩
            rotate_left 2
            · have : (keepS true (b64Index ch) s).reports = (bhTrack true (b64Index ch) s).reports := rfl
              rw [← this]; exact hrel.rep4
            · rw [hpre]
              simp only [List.take_succ_cons, List.take_zero, List.foldl_cons, List.foldl_nil]
              rw [← hrep]
              unfold step
              split
              · split <;> simp
              · simp
            · rw [hpre]; simp only [List.take_succ_cons, List.take_zero]
              have := hlt h1 h2; rw [h.idx] at this; simp; omega
          · rw [if_neg hfull]
            have := ih (keepS true (b64Index ch) s) _ _ hrel hb' (fun e => by simp at e)
            change ExitOK n lr ck a p (ch :: rest) (bhLoop n true lr ck rest (keepS true (b64Index ch) s))
            revert this
            cases bhLoop n true lr ck rest (keepS true (b64Index ch) s) with
            | done s' b c =>
              intro this
              unfold ExitOK at this ⊢
              rw [hpre]
              simp only [List.foldl_cons]
              have e : p ++ b64Index ch :: (pre rest).map b64Index = p ++ [b64Index ch] ++ (pre rest).map b64Index := by simp
              rw [e]
              refine ⟨this.1, fun h1 h2 hl => this.2 h1 h2 ?_⟩
              have := hlt h1 h2; rw [h.idx] at this; simp; omega
            | overflow s' =>
              intro this
              unfold ExitOK at this ⊢
              obtain ⟨k, e1, e2, e3⟩ := this
              refine ⟨k + 1, ?_, fun h1 h2 hl => ?_, e3⟩
              · rw [hpre]; simp only [List.take_succ_cons, List.foldl_cons]; exact e1
              · rw [hpre]; simp only [List.take_succ_cons]
                have := e2 h1 h2 (by have := hlt h1 h2; rw [h.idx] at this; simp; omega)
                simpa using this
    · have hv' : isB64 ch = false := by simpa using hv
      have hinv : (b64Index ch == b64Invalid) = true := by
        cases hh : (b64Index ch == b64Invalid)
        · exact absurd ((isB64_iff ch).mpr hh) hv
        · rfl
      rw [bhLoop]
      simp only [hinv, if_true]
      unfold ExitOK
      rw [pre_cons_invalid ch rest hv']
      simp only [List.map_nil, List.foldl_nil, List.append_nil]
      exact ⟨h, fun _ _ hl => hl⟩

theorem drop_fillSlice_set (rle : List UInt8) (start fill : Nat) (v w : UInt8) (h : start + fill < rle.length) :
    ((fillSlice rle start (start + fill) v).set (start + fill) w).drop (start + fill + 1) = rle.drop (start + fill + 1) := by
  apply List.ext_getElem?
  intro j
  rw [List.getElem?_drop, List.getElem?_drop, List.getElem?_set, if_neg (by omega)]
  unfold fillSlice
  have e : start + fill - start = fill := by omega
  rw [e, List.append_assoc, List.getElem?_append_right (by simp; omega), List.getElem?_append_right (by simp; omega),
    List.getElem?_drop]
  congr 1
  simp only [List.length_take, List.length_replicate]
  omega

theorem updateRleBlock_drop (rle rle' : List UInt8) (off pos runLen off' : Nat) (hrun : 4 ≤ runLen)
    (hfit : off + (runLen - 4) / 4 < rle.length)
    (h : updateRleBlock rle off pos runLen = some (rle', off')) : rle'.drop off' = rle.drop off' := by
  unfold updateRleBlock at h
  have e1 : runLen - MAX_SEQUENCE_SIZE - 1 = runLen - 4 := by unfold MAX_SEQUENCE_SIZE; omega
  simp only [e1, Rle.MAX_RUN_LENGTH] at h
  rw [if_pos hfit] at h
  have := Option.some.inj h
  have h1 := (Prod.mk.inj this).1
  have h2 := (Prod.mk.inj this).2
  rw [← h1, ← h2]
  exact drop_fillSlice_set rle off ((runLen - 4) / 4) _ _ hfit

/-- folding the reported runs into an empty RLE block gives the encoded entries, zero padded -/
theorem applyReports_spec (c : Nat) : ∀ (reports : List (Nat × Nat)) (rle : List UInt8) (off : Nat) (done : List (Nat × Nat)),
    rle.length = c → off = done.length → rle.take off = done.map encodeEnt → rle.drop off = List.replicate (c - off) 0 →
    (∀ r ∈ reports, 4 ≤ r.2 ∧ r.1 + 2 < 64) → (done ++ flat reports).length ≤ c →
    DH.applyReports rle reports off = some (padTo ((done ++ flat reports).map encodeEnt) c 0) := by
  intro reports
  induction reports with
  | nil =>
    intro rle off done hl ho ht hd _ hc
    simp only [flat, List.flatMap_nil, List.append_nil, DH.applyReports]
    congr 1
    unfold padTo
    rw [← List.take_append_drop off rle, ht, hd, List.length_map, ← ho]
  | cons r rs ih =>
    intro rle off done hl ho ht hd hwf hc
    obtain ⟨pos, len⟩ := r
    obtain ⟨w1, w2⟩ := hwf (pos, len) (by simp)
    simp only at w1 w2
    have hfl : flat ((pos, len) :: rs) = chunks (pos + 2) (len - 3) ++ flat rs := by
      unfold flat; simp
    rw [hfl] at hc ⊢
    have hcl := chunks_length (pos + 2) (len - 3)
    have e3 : len - 3 - 1 = len - 4 := by omega
    rw [e3] at hcl
    simp only [List.length_append] at hc
    have hfit : off + (len - 4) / 4 < rle.length := by rw [hl, ho]; omega
    obtain ⟨rle', u1, u2, u3⟩ := updateRleBlock_spec rle off (pos + 2) len w1 w2 hfit
    have hpos : pos + MAX_SEQUENCE_SIZE - 1 = pos + 2 := by unfold MAX_SEQUENCE_SIZE; omega
    rw [DH.applyReports, hpos, u1]
    simp only
    have hdrop := updateRleBlock_drop rle rle' off (pos + 2) len _ w1 hfit u1
    have := ih rle' (off + (len - 4) / 4 + 1) (done ++ chunks (pos + 2) (len - 3)) (by rw [u2, hl])
      (by rw [List.length_append, hcl, ho]; omega)
      (by rw [u3, ht, List.map_append])
      (by
        rw [hdrop]
        have : rle.drop (off + (len - 4) / 4 + 1) = (rle.drop off).drop ((len - 4) / 4 + 1) := by
          rw [List.drop_drop, Nat.add_assoc]
        rw [this, hd, List.drop_replicate]
        congr 1; omega)
      (fun r hr => hwf r (by simp [hr]))
      (by simp only [List.length_append]; omega)
    rw [this, List.append_assoc]

/-- the final `report_norm_seq` call corresponds to the compressor's final flush -/
theorem flush_flat (s : BhLoop) (a : St) (p : List UInt8) (h : PRel s a p) (hb : Bnd a p) :
    a.ents ++ pending a = flat (finalReports true s) ∧ ∀ r ∈ finalReports true s, 4 ≤ r.2 := by
  unfold finalReports MAX_SEQUENCE_SIZE pending
  simp only [Bool.true_and, decide_eq_true_eq]
  have hse := h.seq
  by_cases h3 : a.seq ≥ 3
  · have hne : p ≠ [] := by intro e; have := (hb.empty e).2.1; omega
    obtain ⟨r1, r2⟩ := h.run hne
    rw [if_pos h3, if_pos (by omega)]
    refine ⟨?_, ?_⟩
    · rw [flat_append, ← h.ents]
      congr 1
      unfold flat
      simp only [List.flatMap_cons, List.flatMap_nil, List.append_nil]
      have e1 : a.out.length - 1 = s.seqStart + 2 := by rw [← h.len]; omega
      have e2 : a.seq + 1 - 3 = s.index - s.seqStartIn - 3 := by omega
      rw [e1, e2]
    · intro r hr
      rcases List.mem_append.mp hr with h1 | h1
      · exact h.rep4 r h1
      · simp at h1; rw [h1]; simp only; omega
  · rw [if_neg h3, if_neg (by omega), List.append_nil]
    exact ⟨h.ents, h.rep4⟩

theorem ents_count (a : St) (p : List UInt8) (hb : Bnd a p) (n c : Nat) (hp : p.length ≤ n) (hc : n ≤ 4 * c) :
    (a.ents ++ pending a).length ≤ c := by
  rw [List.length_append]
  by_cases hne : p = []
  · obtain ⟨e1, e2, _⟩ := hb.empty hne
    unfold pending; rw [e1, e2]; simp
  · obtain ⟨b1, _⟩ := hb.ents hne
    have : (pending a).length ≤ (a.seq + 1) / 4 := by
      unfold pending
      split
      · rw [chunks_length]; omega
      · simp
    omega

theorem report_pos (a : St) (p : List UInt8) (hb : Bnd a p) (n : Nat) (hp : p.length ≤ n) (hn : n ≤ 64)
    (reports : List (Nat × Nat)) (E : List (Nat × Nat)) (hE : E = flat reports) (hlt : ∀ e ∈ E, e.1 < a.out.length) :
    ∀ r ∈ reports, r.1 + 2 < 64 := by
  intro r hr
  have hmem : (r.1 + 2, (r.2 - 3 - 1) % 4 + 1) ∈ flat reports := by
    unfold flat
    rw [List.mem_flatMap]
    exact ⟨r, hr, by unfold chunks; simp⟩
  rw [← hE] at hmem
  have := hlt _ hmem
  have := hb.outLe
  simp only at *
  omega

/-- **the block-hash field of the dual parser**: folding the reported runs never overflows the RLE
    block, and when the field ends normally the block is the compressor's -/
theorem field_reports (cfg : Cfg) (n c : Nat) (hn : n ≤ 64) (hc : n ≤ 4 * c) (bh bytes : List UInt8) (hbh : bh.length = n) :
    (∃ rle, DH.applyReports (List.replicate c 0) (parseBlockHash cfg n bh true true bytes).reports 0 = some rle) ∧
    (fitsF cfg n true true bytes →
      DH.applyReports (List.replicate c 0) (parseBlockHash cfg n bh true true bytes).reports 0 =
        some (padTo ((compressA ((pre bytes).map b64Index)).2.map encodeEnt) c 0)) := by
  have hap : ∀ (reports : List (Nat × Nat)) (E : List (Nat × Nat)), E = flat reports → (∀ r ∈ reports, 4 ≤ r.2 ∧ r.1 + 2 < 64) →
      E.length ≤ c → DH.applyReports (List.replicate c 0) reports 0 = some (padTo (E.map encodeEnt) c 0) := by
    intro reports E hE hwf hlen
    have := applyReports_spec c reports (List.replicate c 0) 0 [] (by simp) rfl (by simp) (by simp) hwf
      (by rw [List.nil_append, ← hE]; exact hlen)
    rw [this, List.nil_append, hE]
  -- the loop, started from the initial state
  have hloop : ∀ (ck : Bool) (input : List UInt8), ExitOK n true ck {} [] input (bhLoop n true true ck input { bh := bh }) :=
    fun ck input => bhLoop_prel n true ck input { bh := bh } {} [] (prel_init bh) bnd_init (fun _ => rfl)
  by_cases hstrict : cfg.strictParser = true
  · -- strict parser: the loop always ends normally on at most `n` characters
    have hl := hloop false (bytes.take n)
    obtain ⟨s', e1, e2, e3, e4⟩ := bhLoop_strict n true true (bytes.take n) { bh := bh } hbh (Nat.le_refl _)
      (by show 0 + (bytes.take n).length ≤ n; rw [List.length_take]; omega)
    rw [e1] at hl
    unfold ExitOK at hl
    obtain ⟨hrel, _⟩ := hl
    simp only [List.nil_append] at hrel
    have hx : ∀ c ∈ (pre (bytes.take n)).map b64Index, c ≠ b64Invalid := by
      intro c hc
      simp only [List.mem_map] at hc
      obtain ⟨ch, hch, rfl⟩ := hc
      exact isB64_ne_invalid ch (pre_all _ ch hch)
    have hb := bnd_fold _ {} [] bnd_init (fun _ => rfl) hx
    simp only [List.nil_append] at hb
    obtain ⟨f1, f2⟩ := flush_flat s' _ _ hrel hb
    have hplen : ((pre (bytes.take n)).map b64Index).length ≤ n := by
      rw [List.length_map]
      have := pre_length_le (bytes.take n)
      rw [List.length_take] at this; omega
    have hcount := ents_count _ _ hb n c hplen hc
    have hreports : (parseBlockHash cfg n bh true true bytes).reports = finalReports true s' := by
      unfold parseBlockHash finalReports
      simp only [hstrict, if_true, Bool.not_true]
      rw [e1]
      simp only
      split <;> (try split) <;> (try split) <;> rfl
    rw [hreports]
    have hpos := report_pos _ _ hb n hplen hn (finalReports true s') _ f1 (pending_sorted _ _ hb).2
    have happ := hap (finalReports true s') _ f1 (fun r hr => ⟨f2 r hr, hpos r hr⟩) hcount
    refine ⟨⟨_, happ⟩, fun hfit => ?_⟩
    unfold fitsF at hfit
    simp only [hstrict, if_true] at hfit
    have hpre : pre (bytes.take n) = pre bytes := by
      rw [show pre (bytes.take n) = (pre bytes).take n from takeWhile_take_comm isB64 bytes n, List.take_of_length_le hfit]
    rw [happ]
    rw [hpre]
    rfl
  · have hs : cfg.strictParser = false := by simpa using hstrict
    have hl := hloop true bytes
    have hx : ∀ k, ∀ c ∈ ((pre bytes).map b64Index).take k, c ≠ b64Invalid := by
      intro k c hc
      have hc' := List.mem_of_mem_take hc
      simp only [List.mem_map] at hc'
      obtain ⟨ch, hch, rfl⟩ := hc'
      exact isB64_ne_invalid ch (pre_all _ ch hch)
    cases hex : bhLoop n true true true bytes { bh := bh } with
    | overflow s' =>
      rw [hex] at hl
      unfold ExitOK at hl
      obtain ⟨k, g1, g2, g3⟩ := hl
      have hb := bnd_fold _ {} [] bnd_init (fun _ => rfl) (hx k)
      simp only [List.nil_append] at hb g2
      have hplen := g2 (by trivial) (by trivial) (Nat.zero_le _)
      have hreports : (parseBlockHash cfg n bh true true bytes).reports = s'.reports := by
        unfold parseBlockHash
        simp only [hs, Bool.false_eq_true, if_false, Bool.not_false]
        rw [hex]
      rw [hreports]
      have hcount : (((((pre bytes).map b64Index).take k).foldl step {}).ents).length ≤ c := by
        have := ents_count _ _ hb n c hplen hc
        rw [List.length_append] at this; omega
      have hpos := report_pos _ _ hb n hplen hn s'.reports _ g1 hb.lt
      have happ := hap s'.reports _ g1 (fun r hr => ⟨g3 r hr, hpos r hr⟩) hcount
      refine ⟨⟨_, happ⟩, fun hfit => ?_⟩
      -- a fitting field does not overflow
      exfalso
      unfold fitsF at hfit
      simp only [hs, Bool.false_eq_true, if_false] at hfit
      obtain ⟨s'', e1, _⟩ := (bhLoop_default n true true bytes { bh := bh } hbh (Nat.zero_le _) (fun _ => Nat.zero_le _)).1
        ⟨by simpa using hfit.1, fun h => by simpa using hfit.2 (by trivial)⟩
      rw [hex] at e1; simp at e1
    | done s' b c' =>
      rw [hex] at hl
      unfold ExitOK at hl
      obtain ⟨hrel, g2⟩ := hl
      simp only [List.nil_append] at hrel g2
      have hxa : ∀ c ∈ (pre bytes).map b64Index, c ≠ b64Invalid := by
        intro c hc
        simp only [List.mem_map] at hc
        obtain ⟨ch, hch, rfl⟩ := hc
        exact isB64_ne_invalid ch (pre_all _ ch hch)
      have hb := bnd_fold _ {} [] bnd_init (fun _ => rfl) hxa
      simp only [List.nil_append] at hb
      have hplen := g2 (by trivial) (by trivial) (Nat.zero_le _)
      obtain ⟨f1, f2⟩ := flush_flat s' _ _ hrel hb
      have hcount := ents_count _ _ hb n c hplen hc
      have hreports : (parseBlockHash cfg n bh true true bytes).reports = finalReports true s' := by
        unfold parseBlockHash finalReports
        simp only [hs, Bool.false_eq_true, if_false, Bool.not_false]
        rw [hex]
        simp only [Bool.false_and, Bool.false_eq_true, if_false]
        split <;> (try split) <;> (try split) <;> rfl
      rw [hreports]
      have hpos := report_pos _ _ hb n hplen hn (finalReports true s') _ f1 (pending_sorted _ _ hb).2
      have happ := hap (finalReports true s') _ f1 (fun r hr => ⟨f2 r hr, hpos r hr⟩) hcount
      exact ⟨⟨_, happ⟩, fun _ => by rw [happ]; rfl⟩

end Ffuzzy.DualP
