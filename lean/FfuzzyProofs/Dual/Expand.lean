/-
  C07, layer B2: `expand_block_hash_using_rle` on arrays computes the list expansion of layer A.
-/
import FfuzzyProofs.Dual.Compress
namespace Ffuzzy.DualB
open Ffuzzy Ffuzzy.Spec Ffuzzy.Collapse Ffuzzy.DualA

theorem after_len_mono (inp : List UInt8) : ∀ (es : List (Nat × Nat)) (st : Nat × List UInt8),
    st.2.length ≤ (after inp es st).2.length := by
  intro es
  induction es with
  | nil => intro _; exact Nat.le_refl _
  | cons e es ih =>
    intro st
    obtain ⟨pos, l⟩ := e
    obtain ⟨src, acc⟩ := st
    simp only [after]
    have := ih (pos, acc ++ (inp.drop src).take (pos - src) ++ List.replicate l (inp.getD pos 0))
    simp only [List.length_append] at this ⊢
    omega

theorem setSlice_take (a s : List UInt8) (i : Nat) (h : i + s.length ≤ a.length) :
    (setSlice a i s).length = a.length ∧ (setSlice a i s).take (i + s.length) = a.take i ++ s := by
  unfold setSlice
  refine ⟨by simp; omega, ?_⟩
  rw [List.take_append_of_le_length (by simp; omega)]
  rw [List.take_of_length_le (by simp; omega)]

theorem fillSlice_take (a : List UInt8) (i k : Nat) (v : UInt8) (h : i + k ≤ a.length) :
    (fillSlice a i (i + k) v).length = a.length ∧ (fillSlice a i (i + k) v).take (i + k) = a.take i ++ List.replicate k v := by
  unfold fillSlice
  have e : i + k - i = k := by omega
  rw [e]
  refine ⟨by simp; omega, ?_⟩
  rw [List.take_append_of_le_length (by simp; omega)]
  rw [List.take_of_length_le (by simp; omega)]

/-- model state vs abstract state of the expansion -/
structure XRel (n L : Nat) (s : ExpandSt) (st : Nat × List UInt8) : Prop where
  outLen : s.out.length = n
  dst : s.offsetDst = st.2.length
  acc : s.out.take s.offsetDst = st.2
  src : s.offsetSrc = st.1
  bal : s.lenOut + s.offsetSrc = L + s.offsetDst

theorem decode_zero : (Rle.decode 0).1 = 0 := by decide

/-- **the expansion loop** over encoded entries followed by terminators -/
theorem expandLoop_spec (n L : Nat) (inp content : List UInt8) (hcont : content = inp.take L) (hL : L ≤ inp.length) :
    ∀ (es : List (Nat × Nat)) (tail : List UInt8) (s : ExpandSt) (st : Nat × List UInt8),
    XRel n L s st → (∀ e ∈ es, 1 ≤ e.1 ∧ e.1 < L ∧ e.1 < 64 ∧ 1 ≤ e.2 ∧ e.2 ≤ 4) →
    List.Pairwise (fun a b : Nat × Nat => a.1 ≤ b.1) es → (∀ e ∈ es, st.1 ≤ e.1) →
    (∀ t ∈ tail, t = 0) → st.1 ≤ L →
    (after content es st).2.length ≤ n →
    XRel n L (expandLoop inp (es.map encodeEnt ++ tail) s) (after content es st) := by
  intro es
  induction es with
  | nil =>
    intro tail s st hr _ _ _ ht _ _
    simp only [List.map_nil, List.nil_append, after]
    cases tail with
    | nil => exact hr
    | cons t ts =>
      have : t = 0 := ht t (by simp)
      subst this
      rw [expandLoop]
      simp only [decode_zero, beq_self_eq_true, if_true]
      exact hr
  | cons e es ih =>
    intro tail s st hr hwf hsort hge ht hsrc hfit
    obtain ⟨pos, l⟩ := e
    obtain ⟨src, acc⟩ := st
    obtain ⟨w1, w2, w3, w4, w5⟩ := hwf (pos, l) (by simp)
    obtain ⟨d1, d2⟩ := enc_dec pos l w3 w4 w5
    simp only [List.map_cons, List.cons_append, after] at hfit ⊢
    rw [expandLoop]
    have hdec : Rle.decode (encodeEnt (pos, l)) = ((Rle.decode (encodeEnt (pos, l))).1, (Rle.decode (encodeEnt (pos, l))).2) := rfl
    unfold decodeEnt at d1
    have hp : (Rle.decode (encodeEnt (pos, l))).1.toNat = pos := (Prod.mk.inj d1).1
    have hl : (Rle.decode (encodeEnt (pos, l))).2.toNat = l := (Prod.mk.inj d1).2
    have hnz : ((Rle.decode (encodeEnt (pos, l))).1 == 0) = false := by
      cases hb : (Rle.decode (encodeEnt (pos, l))).1 == 0
      · rfl
      · have : (Rle.decode (encodeEnt (pos, l))).1 = 0 := by simpa using hb
        rw [this] at hp; simp at hp; omega
    simp only [hnz, Bool.false_eq_true, if_false, hp, hl]
    -- lengths
    have hmono := after_len_mono content es (pos, acc ++ (content.drop src).take (pos - src) ++ List.replicate l (content.getD pos 0))
    simp only [List.length_append, List.length_replicate] at hmono
    have hsl : (inp.drop s.offsetSrc).take (pos - s.offsetSrc) = (content.drop src).take (pos - src) := by
      rw [hr.src, hcont]
      simp only
      rw [List.drop_take, List.take_take]
      congr 1
      omega
    have hslen : ((content.drop src).take (pos - src)).length = pos - src := by
      rw [hcont]; simp only [List.length_take, List.length_drop]; omega
    have hget : inp.getD pos 0 = content.getD pos 0 := by
      rw [hcont, List.getD_eq_getElem?_getD, List.getD_eq_getElem?_getD, List.getElem?_take, if_pos w2]
    have hdst := hr.dst
    simp only at hdst
    have hsp : src ≤ pos := hge (pos, l) (by simp)
    have hsort' := List.pairwise_cons.mp hsort
    apply ih tail _ _ _ (fun e he => hwf e (by simp [he])) hsort'.2 (fun e he => hsort'.1 e he) ht (by show pos ≤ L; omega) hfit
    have hfit1 : s.offsetDst + (pos - src) + l ≤ n := by rw [hdst]; omega
    obtain ⟨q1, q2⟩ := setSlice_take s.out ((content.drop src).take (pos - src)) s.offsetDst
      (by rw [hslen, hr.outLen]; omega)
    rw [hslen] at q2
    obtain ⟨q3, q4⟩ := fillSlice_take (setSlice s.out s.offsetDst ((content.drop src).take (pos - src)))
      (s.offsetDst + (pos - src)) l (content.getD pos 0) (by rw [q1, hr.outLen]; omega)
    refine ⟨?_, ?_, ?_, ?_, ?_⟩
    rotate_left 3
    · show s.offsetSrc + (pos - s.offsetSrc) = pos
      have hs := hr.src
      simp only at hs
      omega
    rotate_right 3
    · show (fillSlice (setSlice s.out s.offsetDst ((inp.drop s.offsetSrc).take (pos - s.offsetSrc)))
        (s.offsetDst + (pos - s.offsetSrc)) (s.offsetDst + (pos - s.offsetSrc) + l) (inp.getD pos 0)).length = n
      rw [hsl, hr.src, hget]
      simp only
      rw [q3, q1, hr.outLen]
    · show s.offsetDst + (pos - s.offsetSrc) + l = _
      rw [hr.src]
      simp only [List.length_append, List.length_replicate, hslen, hdst]
    · show (fillSlice (setSlice s.out s.offsetDst ((inp.drop s.offsetSrc).take (pos - s.offsetSrc)))
        (s.offsetDst + (pos - s.offsetSrc)) (s.offsetDst + (pos - s.offsetSrc) + l) (inp.getD pos 0)).take
          (s.offsetDst + (pos - s.offsetSrc) + l) = _
      rw [hsl, hr.src, hget]
      simp only
      rw [q4, q2, hr.acc]
    · show s.lenOut + l + (s.offsetSrc + (pos - s.offsetSrc)) = L + (s.offsetDst + (pos - s.offsetSrc) + l)
      have := hr.bal
      have hs := hr.src
      simp only at hs
      omega

theorem padTo_take (l : List UInt8) (n : Nat) (v : UInt8) (h : l.length ≤ n) :
    (padTo l n v).take l.length = l ∧ (padTo l n v).length = n := by
  unfold padTo
  exact ⟨List.take_left' rfl, by simp; omega⟩

/-- **`expand_block_hash_using_rle`**: whatever the destination held, the result is the list
    expansion, zero padded -/
theorem expandBlockHash_spec (n c : Nat) (out content : List UInt8) (ents : List (Nat × Nat))
    (hout : out.length = n) (hL : content.length ≤ n) (h255 : n ≤ 255) (hc : ents.length ≤ c)
    (hwf : ∀ e ∈ ents, 1 ≤ e.1 ∧ e.1 < content.length ∧ e.1 < 64 ∧ 1 ≤ e.2 ∧ e.2 ≤ 4)
    (hsort : List.Pairwise (fun a b : Nat × Nat => a.1 ≤ b.1) ents)
    (hfit : (expandA content ents).length ≤ n) :
    expandBlockHash out (padTo content n 0) content.length.toUInt8 (padTo (ents.map encodeEnt) c 0) =
      (padTo (expandA content ents) n 0, (expandA content ents).length.toUInt8) := by
  obtain ⟨pt1, pt2⟩ := padTo_take content n 0 hL
  have hLn : content.length.toUInt8.toNat = content.length := by
    simp [Nat.toUInt8, UInt8.toNat_ofNat']; omega
  have hexp : expandA content ents = (after content ents (0, [])).2 ++ content.drop (after content ents (0, [])).1 := by
    unfold expandA; exact expandGo_after content ents 0 []
  have hfit' : (after content ents (0, [])).2.length ≤ n := by
    rw [hexp] at hfit; simp only [List.length_append] at hfit; omega
  have hx := expandLoop_spec n content.length (padTo content n 0) content pt1.symm (by rw [pt2]; exact hL)
    ents (List.replicate (c - (ents.map encodeEnt).length) 0) { out := out, lenOut := content.length } (0, [])
    ⟨hout, rfl, by simp, rfl, by simp⟩ hwf hsort (fun _ _ => Nat.zero_le _)
    (fun t ht => (List.mem_replicate.mp ht).2) (Nat.zero_le _) hfit'
  have hsrc : (after content ents (0, [])).1 ≤ content.length :=
    after_src content ents (0, []) content.length (Nat.zero_le _) (fun e he => Nat.le_of_lt (hwf e he).2.1)
  unfold expandBlockHash
  rw [hLn]
  have hpad : padTo (ents.map encodeEnt) c 0 = ents.map encodeEnt ++ List.replicate (c - (ents.map encodeEnt).length) 0 := rfl
  rw [hpad]
  generalize expandLoop (padTo content n 0) (ents.map encodeEnt ++ List.replicate (c - (ents.map encodeEnt).length) 0)
    { out := out, lenOut := content.length } = s' at hx
  generalize after content ents (0, []) = st at hx hexp hfit' hsrc
  obtain ⟨src, acc⟩ := st
  simp only at hexp hfit' hsrc
  have hb := hx.bal
  have hs := hx.src
  have hd := hx.dst
  simp only at hs hd
  have hcopy : s'.lenOut - s'.offsetDst = content.length - src := by omega
  have hslice : ((padTo content n 0).drop s'.offsetSrc).take (s'.lenOut - s'.offsetDst) = content.drop src := by
    rw [hcopy, hs]
    conv => rhs; rw [← pt1]
    rw [List.drop_take]
  have hsl : (content.drop src).length = content.length - src := by simp
  simp only
  rw [hslice]
  obtain ⟨q1, q2⟩ := setSlice_take s'.out (content.drop src) s'.offsetDst (by
    rw [hsl, hx.outLen, hd]
    rw [hexp] at hfit; simp only [List.length_append, List.length_drop] at hfit; omega)
  have hlen2 : s'.offsetDst + (s'.lenOut - s'.offsetDst) = (expandA content ents).length := by
    rw [hexp, hcopy, hd]; simp
  congr 1
  · rw [hlen2]
    have : (setSlice s'.out s'.offsetDst (content.drop src)).length = n := by rw [q1, hx.outLen]
    rw [← this, fillSlice_tail _ _ _ (by rw [this]; exact hfit)]
    rw [this]
    congr 1
    have e : (expandA content ents).length = s'.offsetDst + (content.drop src).length := by
      rw [hexp, hd]; simp
    rw [e, q2, hx.acc, hexp]
  · have : s'.lenOut = (expandA content ents).length := by omega
    rw [this]

end Ffuzzy.DualB
