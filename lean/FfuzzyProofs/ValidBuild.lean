/-
  Objects built from content lists by zero padding are valid; generator results are valid raw hashes.
-/
import FfuzzyProofs.GenSim.DigestValid
import FfuzzyProofs.Properties.C01
namespace Ffuzzy
open Ffuzzy.Spec

theorem toU8_toNat (n : Nat) (h : n ≤ 255) : n.toUInt8.toNat = n := by
  simp [Nat.toUInt8, UInt8.toNat_ofNat']; omega

theorem bhValid_pad (cap : Nat) (norm : Bool) (b : List UInt8) (hlen : b.length ≤ cap) (hcap : cap ≤ 255)
    (hsym : ∀ x ∈ b, x < 64) (hnorm : norm = true → collapse b = b) :
    FH.BhValid cap norm (padTo b cap 0) b.length.toUInt8 := by
  have t := toU8_toNat b.length (by omega)
  refine ⟨by unfold padTo; simp; omega, by rw [t]; exact hlen, ?_, ?_, ?_⟩
  · rw [t]; unfold padTo; rw [List.take_left' rfl]; exact hsym
  · rw [t]; unfold padTo; rw [List.drop_left' rfl]
    intro x hx; exact (List.mem_replicate.mp hx).2
  · intro hn; rw [t]; unfold padTo; rw [List.take_left' rfl]; exact hnorm hn

/-- an object assembled from a block size index and two symbol strings -/
theorem valid_of_content (s2 : Nat) (norm : Bool) (log : Nat) (b1 b2 : List UInt8) (hl : log < 31)
    (h1 : b1.length ≤ FULL_SIZE) (h2 : b2.length ≤ s2) (hs2 : s2 ≤ 64)
    (s1 : ∀ x ∈ b1, x < 64) (s2' : ∀ x ∈ b2, x < 64)
    (n1 : norm = true → collapse b1 = b1) (n2 : norm = true → collapse b2 = b2) :
    FH.Valid s2 norm { bh1 := padTo b1 FULL_SIZE 0, bh2 := padTo b2 s2 0, len1 := b1.length.toUInt8,
                       len2 := b2.length.toUInt8, log := log.toUInt8 } := by
  refine ⟨?_, bhValid_pad FULL_SIZE norm b1 h1 (by decide) s1 n1, bhValid_pad s2 norm b2 h2 (by omega) s2' n2⟩
  show log.toUInt8 < 31
  apply UInt8.lt_iff_toNat_lt.mpr
  rw [toU8_toNat log (by omega)]; exact hl

/-- **generator results are valid raw hashes**, in every output form -/
theorem gen_valid (bs : List UInt8) (trunc : Bool) (s2 : Nat) (hs2 : s2 = 32 ∨ s2 = 64) (d : Digest)
    (h : (Gen.new.update bs).finalizeRaw trunc s2 = .ok d) : FH.Valid s2 false (d.toFH s2) := by
  rw [C01.generator_eq_reference bs trunc s2 hs2] at h
  unfold naiveDigest Naive.digest at h
  have hN := GenSim.ninv_feed bs
  have hS := GenSim.symok_feed bs
  split at h
  · simp at h
  · simp only at h
    have hk := GenSim.naiveGuess_le (Naive.feed bs) (min 30 (Gen.logBlockSizeFromInputSize (Naive.feed bs).size 0))
    split at h
    · simp at h
    · next b2 hb2 =>
      have hd := (Except.ok.inj h).symm
      have hk1 : naiveGuess (Naive.feed bs) (min 30 (Gen.logBlockSizeFromInputSize (Naive.feed bs).size 0)) < 32 := by omega
      have hk2 : naiveGuess (Naive.feed bs) (min 30 (Gen.logBlockSizeFromInputSize (Naive.feed bs).size 0)) + 1 < 32 := by omega
      obtain ⟨l1, y1⟩ := GenSim.digest1_ok _ (hN.wf _ hk1) (hS _ hk1) ((Naive.feed bs).roll.value != 0)
      obtain ⟨l2, y2⟩ := GenSim.digest2_ok _ (hN.wf _ hk2) (hS _ hk2) _ trunc s2 hs2 b2 hb2
      rw [hd]
      unfold Digest.toFH
      exact valid_of_content s2 false _ _ _ (by show naiveGuess _ _ < 31; omega) l1 l2 (by rcases hs2 with e | e <;> omega) y1 y2
        (fun e => by simp at e) (fun e => by simp at e)

end Ffuzzy
