/-
  gen_sim, part 1: per-context facts — well-formedness, the "live part" relation that finalisation
  can observe, and its preservation by hash updates and piece stores.
-/
import FfuzzyModel.Generator
import FfuzzyModel.Spec.Naive
set_option maxRecDepth 8000
namespace Ffuzzy.GenSim
open Ffuzzy

/-- invariants of a block hash context -/
structure WF (c : Ctx) : Prop where
  size : c.bh.size = 64
  idx : c.idx ≤ 63
  cell63 : c.bh.getD 63 NIL ≠ NIL → c.idx = 63
  half : c.chHalf ≠ NIL → 32 ≤ c.idx

/-- two contexts agree on everything finalisation (and the engine loop) can observe:
    cells below the piece index, the 64th cell, the half character and both running hashes -/
structure Live (a b : Ctx) : Prop where
  idx : a.idx = b.idx
  chHalf : a.chHalf = b.chHalf
  hFull : a.hFull = b.hFull
  hHalf : a.hHalf = b.hHalf
  sa : a.bh.size = 64
  sb : b.bh.size = 64
  c63 : a.bh.getD 63 NIL = b.bh.getD 63 NIL
  cells : ∀ j, j < a.idx → a.bh.getD j NIL = b.bh.getD j NIL

theorem Live.refl (a : Ctx) (h : a.bh.size = 64) : Live a a := ⟨rfl, rfl, rfl, rfl, h, h, rfl, fun _ _ => rfl⟩

theorem Live.symm {a b : Ctx} (h : Live a b) : Live b a :=
  ⟨h.idx.symm, h.chHalf.symm, h.hFull.symm, h.hHalf.symm, h.sb, h.sa, h.c63.symm,
   fun j hj => (h.cells j (by rw [h.idx]; exact hj)).symm⟩

theorem Live.trans {a b c : Ctx} (h1 : Live a b) (h2 : Live b c) : Live a c :=
  ⟨h1.idx.trans h2.idx, h1.chHalf.trans h2.chHalf, h1.hFull.trans h2.hFull, h1.hHalf.trans h2.hHalf,
   h1.sa, h2.sb, h1.c63.trans h2.c63,
   fun j hj => (h1.cells j hj).trans (h2.cells j (by rw [← h1.idx]; exact hj))⟩

theorem getD_replicate_self {α} (n i : Nat) (v : α) : (Array.replicate n v).getD i v = v := by
  rw [Array.getD_eq_getD_getElem?, Array.getElem?_replicate]
  split <;> rfl

theorem WF_new : WF Ctx.new := by
  refine ⟨?_, ?_, ?_, ?_⟩
  · show (Array.replicate 64 NIL).size = 64
    exact Array.size_replicate
  · show (0 : Nat) ≤ 63
    omega
  · intro h; exact absurd (getD_replicate_self 64 63 NIL) h
  · intro h; exact absurd rfl h

/-- the hash update of a context on a byte -/
def upd (ch : UInt8) (c : Ctx) : Ctx := { c with hFull := fnvStep c.hFull ch, hHalf := fnvStep c.hHalf ch }

/-! Projection lemmas are proved by `unfold; rfl`: asking the kernel to see through `upd` by `rfl`
    makes it compare `fnvStep …` with a field by unfolding `UInt` arithmetic (deep recursion). -/
@[simp] theorem upd_idx (ch : UInt8) (c : Ctx) : (upd ch c).idx = c.idx := by unfold upd; rfl
@[simp] theorem upd_bh (ch : UInt8) (c : Ctx) : (upd ch c).bh = c.bh := by unfold upd; rfl
@[simp] theorem upd_chHalf (ch : UInt8) (c : Ctx) : (upd ch c).chHalf = c.chHalf := by unfold upd; rfl
@[simp] theorem upd_hFull (ch : UInt8) (c : Ctx) : (upd ch c).hFull = fnvStep c.hFull ch := by unfold upd; rfl
@[simp] theorem upd_hHalf (ch : UInt8) (c : Ctx) : (upd ch c).hHalf = fnvStep c.hHalf ch := by unfold upd; rfl

theorem WF_upd {c : Ctx} (ch : UInt8) (h : WF c) : WF (upd ch c) :=
  ⟨by rw [upd_bh]; exact h.size, by rw [upd_idx]; exact h.idx,
   by rw [upd_bh, upd_idx]; exact h.cell63, by rw [upd_chHalf, upd_idx]; exact h.half⟩

theorem Live_upd {a b : Ctx} (ch : UInt8) (h : Live a b) : Live (upd ch a) (upd ch b) :=
  ⟨by simp [h.idx], by simp [h.chHalf], by simp [h.hFull], by simp [h.hHalf],
   by simp [h.sa], by simp [h.sb], by rw [upd_bh, upd_bh]; exact h.c63,
   by intro j hj; rw [upd_idx] at hj; rw [upd_bh, upd_bh]; exact h.cells j hj⟩

theorem getD_setIfInBounds_same {α} (a : Array α) (i : Nat) (v d : α) (h : i < a.size) :
    (a.setIfInBounds i v).getD i d = v := by
  rw [Array.getD_eq_getD_getElem?, Array.getElem?_setIfInBounds_self_of_lt h]; rfl

theorem getD_setIfInBounds_ne {α} (a : Array α) (i j : Nat) (v d : α) (h : i ≠ j) :
    (a.setIfInBounds i v).getD j d = a.getD j d := by
  rw [Array.getD_eq_getD_getElem?, Array.getD_eq_getD_getElem?, Array.getElem?_setIfInBounds_ne h]

theorem storePiece_idx (c : Ctx) : c.storePiece.idx = if c.idx < 63 then c.idx + 1 else c.idx := by
  unfold Ctx.storePiece
  simp only
  split
  · split <;> rfl
  · rfl

theorem WF_store {c : Ctx} (h : WF c) : WF c.storePiece := by
  have hi := h.idx
  unfold Ctx.storePiece
  simp only
  by_cases h63 : c.idx < 63
  · simp only [h63, if_true]
    by_cases h32 : c.idx + 1 < 32
    · simp only [h32, if_true]
      refine ⟨by simp [h.size], by simp; omega, ?_, ?_⟩
      · intro hne
        simp only at hne
        rw [getD_setIfInBounds_ne _ _ _ _ _ (by omega)] at hne
        have := h.cell63 hne; omega
      · intro hne; exact absurd rfl hne
    · simp only [h32, if_false]
      refine ⟨by simp [h.size], by simp; omega, ?_, ?_⟩
      · intro hne
        simp only at hne
        rw [getD_setIfInBounds_ne _ _ _ _ _ (by omega)] at hne
        have := h.cell63 hne; omega
      · intro _; simp; omega
  · simp only [h63, if_false]
    have e : c.idx = 63 := by omega
    refine ⟨by simp [h.size], by simp; omega, fun _ => by simp [e], fun _ => by simp; omega⟩

theorem Live_store {a b : Ctx} (h : Live a b) (ha : a.idx ≤ 63) : Live a.storePiece b.storePiece := by
  have hb : b.idx ≤ 63 := by rw [← h.idx]; exact ha
  unfold Ctx.storePiece
  simp only
  rw [← h.idx, ← h.hFull, ← h.hHalf]
  by_cases h63 : a.idx < 63
  · simp only [h63, if_true]
    have cells : ∀ j, j < a.idx + 1 →
        (a.bh.setIfInBounds a.idx a.hFull).getD j NIL = (b.bh.setIfInBounds a.idx a.hFull).getD j NIL := by
      intro j hj
      by_cases e : j = a.idx
      · subst e
        rw [getD_setIfInBounds_same _ _ _ _ (by rw [h.sa]; omega),
          getD_setIfInBounds_same _ _ _ _ (by rw [h.sb]; omega)]
      · rw [getD_setIfInBounds_ne _ _ _ _ _ (Ne.symm e), getD_setIfInBounds_ne _ _ _ _ _ (Ne.symm e)]
        exact h.cells j (by omega)
    have c63 : (a.bh.setIfInBounds a.idx a.hFull).getD 63 NIL = (b.bh.setIfInBounds a.idx a.hFull).getD 63 NIL := by
      rw [getD_setIfInBounds_ne _ _ _ _ _ (by omega), getD_setIfInBounds_ne _ _ _ _ _ (by omega)]
      exact h.c63
    by_cases h32 : a.idx + 1 < 32
    · simp only [h32, if_true]
      exact ⟨rfl, rfl, rfl, rfl, by simp [h.sa], by simp [h.sb], c63, cells⟩
    · simp only [h32, if_false]
      exact ⟨rfl, rfl, rfl, rfl, by simp [h.sa], by simp [h.sb], c63, cells⟩
  · simp only [h63, if_false]
    have e : a.idx = 63 := by omega
    refine ⟨rfl, rfl, rfl, rfl, by simp [h.sa], by simp [h.sb], ?_, ?_⟩
    · rw [e, getD_setIfInBounds_same _ _ _ _ (by rw [h.sa]; omega),
        getD_setIfInBounds_same _ _ _ _ (by rw [h.sb]; omega)]
    · intro j hj
      simp only at hj
      rw [getD_setIfInBounds_ne _ _ _ _ _ (by omega), getD_setIfInBounds_ne _ _ _ _ _ (by omega)]
      exact h.cells j hj

end Ffuzzy.GenSim
