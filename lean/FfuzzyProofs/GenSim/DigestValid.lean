/-
  The digest returned by the generator is a valid raw hash: symbols below 64, lengths within the
  capacity (C11, `gen` operation).
-/
import FfuzzyProofs.GenSim.History
import FfuzzyProofs.HashValid
namespace Ffuzzy.GenSim
open Ffuzzy Ffuzzy.Spec

theorem fnvStep_lt (s ch : UInt8) : fnvStep s ch < 64 := by
  unfold fnvStep
  apply UInt8.lt_iff_toNat_lt.mpr
  rw [UInt8.toNat_mod]
  exact Nat.mod_lt _ (by decide)

theorem nil_not_lt : ¬ (NIL < 64) := by decide

structure SymOK (c : Ctx) : Prop where
  cells : ∀ j, j < c.idx → c.bh.getD j NIL < 64
  c63 : c.bh.getD 63 NIL ≠ NIL → c.bh.getD 63 NIL < 64
  hF : c.hFull < 64
  hH : c.hHalf < 64
  ch : c.chHalf = NIL ∨ c.chHalf < 64
  half : 32 ≤ c.idx → c.chHalf ≠ NIL

theorem symok_new : SymOK Ctx.new := by
  refine ⟨fun j hj => absurd hj (Nat.not_lt_zero _), fun h => absurd (getD_replicate_self 64 63 NIL) h,
    by decide, by decide, Or.inl rfl, fun h => ?_⟩
  have : Ctx.new.idx = 0 := rfl
  omega

theorem symok_upd (ch : UInt8) (c : Ctx) (h : SymOK c) : SymOK (upd ch c) :=
  ⟨by rw [upd_idx, upd_bh]; exact h.cells, by rw [upd_bh]; exact h.c63, by rw [upd_hFull]; exact fnvStep_lt _ _,
   by rw [upd_hHalf]; exact fnvStep_lt _ _, by rw [upd_chHalf]; exact h.ch, by rw [upd_idx, upd_chHalf]; exact h.half⟩

theorem symok_store (c : Ctx) (h : SymOK c) (hw : WF c) : SymOK c.storePiece := by
  have hne : c.hHalf ≠ NIL := fun e => nil_not_lt (e ▸ h.hH)
  have hsz := hw.size
  have hfi : fnvInit < 64 := by decide
  unfold Ctx.storePiece
  simp only
  by_cases h63 : c.idx < 63
  · simp only [h63, if_true]
    have cells : ∀ j, j < c.idx + 1 → (c.bh.setIfInBounds c.idx c.hFull).getD j NIL < 64 := by
      intro j hj
      by_cases e : j = c.idx
      · rw [e, getD_setIfInBounds_same _ _ _ _ (by omega)]; exact h.hF
      · rw [getD_setIfInBounds_ne _ _ _ _ _ (Ne.symm e)]; exact h.cells j (by omega)
    have c63 : (c.bh.setIfInBounds c.idx c.hFull).getD 63 NIL ≠ NIL → (c.bh.setIfInBounds c.idx c.hFull).getD 63 NIL < 64 := by
      rw [getD_setIfInBounds_ne _ _ _ _ _ (by omega)]; exact h.c63
    by_cases h32 : c.idx + 1 < 32
    · simp only [h32, if_true]
      exact ⟨cells, c63, hfi, hfi, Or.inl rfl, fun hh => by simp only at hh; omega⟩
    · simp only [h32, if_false]
      exact ⟨cells, c63, hfi, h.hH, Or.inr h.hH, fun _ => hne⟩
  · simp only [h63, if_false]
    have e : c.idx = 63 := by have := hw.idx; omega
    refine ⟨?_, ?_, h.hF, h.hH, Or.inr h.hH, fun _ => hne⟩
    · intro j hj
      simp only at hj
      rw [getD_setIfInBounds_ne _ _ _ _ _ (by omega)]; exact h.cells j hj
    · intro _
      simp only
      rw [e, getD_setIfInBounds_same _ _ _ _ (by omega)]; exact h.hF

theorem symok_feed (bs : List UInt8) : ∀ k, k < 32 → SymOK ((Naive.feed bs).at k) := by
  suffices h : ∀ (bs pre : List UInt8) (n : Naive), NInv n pre → (∀ k, k < 32 → SymOK (n.at k)) →
      ∀ k, k < 32 → SymOK ((bs.foldl Naive.step n).at k) by
    exact h bs [] Naive.new ninv_new (fun k _ => by rw [at_new]; exact symok_new)
  intro bs
  induction bs with
  | nil => intro pre n _ h; exact h
  | cons c cs ih =>
    intro pre n hN hS
    simp only [List.foldl_cons]
    apply ih (pre ++ [c]) (n.step c) (ninv_step n pre c hN)
    intro k hk
    rw [at_step n c k (by rw [hN.lvSize]; exact hk), levelStep_eq]
    split
    · exact symok_store _ (symok_upd c _ (hS k hk)) (WF_upd c (hN.wf k hk))
    · exact symok_upd c _ (hS k hk)

theorem mem_take_toList (a : Array UInt8) (sz : Nat) (x : UInt8) (ha : sz ≤ a.size) (hx : x ∈ a.toList.take sz) :
    ∃ j, j < sz ∧ x = a.getD j NIL := by
  rw [List.mem_iff_getElem] at hx
  obtain ⟨j, hj, rfl⟩ := hx
  simp only [List.length_take, Array.length_toList] at hj
  refine ⟨j, by omega, ?_⟩
  rw [List.getElem_take, Array.getElem_toList, Array.getD_eq_getD_getElem?, Array.getElem?_eq_getElem (by omega)]
  rfl

/-- the stored part of a context: `sz` pieces (the 64th cell counts when it is filled) -/
theorem stored_ok (c : Ctx) (hw : WF c) (hs : SymOK c) :
    (if c.bh.getD 63 NIL != NIL then c.idx + 1 else c.idx) ≤ 64 ∧
    c.idx ≤ (if c.bh.getD 63 NIL != NIL then c.idx + 1 else c.idx) ∧
    (∀ m, m ≤ (if c.bh.getD 63 NIL != NIL then c.idx + 1 else c.idx) → ∀ x ∈ c.bh.toList.take m, x < 64) ∧
    (∀ m, m ≤ 64 → (c.bh.toList.take m).length = m) := by
  have hsz := hw.size
  have hidx := hw.idx
  refine ⟨by split <;> omega, by split <;> omega, ?_, ?_⟩
  · intro m hm x hx
    obtain ⟨j, hj, rfl⟩ := mem_take_toList c.bh _ x (by rw [hsz]; split at hm <;> omega) hx
    by_cases hc : (c.bh.getD 63 NIL != NIL) = true
    · have h63 := hw.cell63 (by simpa using hc)
      rw [if_pos hc] at hm
      by_cases e : j = 63
      · rw [e]; exact hs.c63 (by simpa using hc)
      · exact hs.cells j (by omega)
    · rw [if_neg hc] at hm
      exact hs.cells j (by omega)
  · intro m hm; simp only [List.length_take, Array.length_toList, hsz]; omega

/-- symbols of block hash 1 -/
theorem digest1_ok (c : Ctx) (hw : WF c) (hs : SymOK c) (nz : Bool) :
    (c.digest1 nz).length ≤ 64 ∧ ∀ x ∈ c.digest1 nz, x < 64 := by
  obtain ⟨hsz_le, _, hstored, hlen⟩ := stored_ok c hw hs
  unfold Ctx.digest1
  simp only
  generalize (if c.bh.getD 63 NIL != NIL then c.idx + 1 else c.idx) = sz at hsz_le hstored
  cases nz with
  | false =>
    simp only [Bool.false_eq_true, if_false]
    exact ⟨by rw [hlen sz hsz_le]; exact hsz_le, hstored sz (Nat.le_refl _)⟩
  | true =>
    simp only [if_true]
    split
    · refine ⟨by rw [List.length_set, hlen sz hsz_le]; exact hsz_le, ?_⟩
      intro x hx
      rcases List.mem_or_eq_of_mem_set hx with h1 | h1
      · exact hstored sz (Nat.le_refl _) x h1
      · rw [h1]; exact hs.hF
    · refine ⟨by rw [List.length_append, hlen sz hsz_le]; simp; omega, ?_⟩
      intro x hx
      rcases List.mem_append.mp hx with h1 | h1
      · exact hstored sz (Nat.le_refl _) x h1
      · simp at h1; rw [h1]; exact hs.hF

/-- symbols and length of block hash 2, in all four output forms -/
theorem digest2_ok (c : Ctx) (hw : WF c) (hs : SymOK c) (nz trunc : Bool) (s2 : Nat) (hs2 : s2 = 32 ∨ s2 = 64)
    (d : List UInt8) (hd : c.digest2 nz trunc s2 = .ok d) : d.length ≤ s2 ∧ ∀ x ∈ d, x < 64 := by
  obtain ⟨hsz_le, hidx_le, hstored, hlen⟩ := stored_ok c hw hs
  have hidx := hw.idx
  unfold Ctx.digest2 at hd
  simp only at hd
  generalize (if c.bh.getD 63 NIL != NIL then c.idx + 1 else c.idx) = sz at hsz_le hstored hidx_le hd
  cases trunc with
  | true =>
    simp only [if_true] at hd
    split at hd
    · next hch =>
      have hchn : c.chHalf ≠ NIL := by simpa using hch
      have h32 := hw.half hchn
      have hd' := (Except.ok.inj hd).symm
      have hlast : (if nz = true then c.hHalf else c.chHalf) < 64 := by
        split
        · exact hs.hH
        · rcases hs.ch with e | e
          · exact absurd e hchn
          · exact e
      rw [hd']
      refine ⟨by rw [List.length_append, hlen 31 (by omega)]; simp; rcases hs2 with e | e <;> omega, ?_⟩
      intro x hx
      rcases List.mem_append.mp hx with h1 | h1
      · exact hstored 31 (by omega) x h1
      · simp at h1; rw [h1]; exact hlast
    · next hch =>
      have hchn : c.chHalf = NIL := by simpa using hch
      have h32 : c.idx < 32 := by
        by_cases e : 32 ≤ c.idx
        · exact absurd hchn (hs.half e)
        · omega
      have hd' := (Except.ok.inj hd).symm
      rw [hd']
      split
      · refine ⟨by rw [List.length_append, hlen c.idx (by omega)]; simp; rcases hs2 with e | e <;> omega, ?_⟩
        intro x hx
        rcases List.mem_append.mp hx with h1 | h1
        · exact hstored c.idx hidx_le x h1
        · simp at h1; rw [h1]; exact hs.hH
      · exact ⟨by rw [hlen c.idx (by omega)]; rcases hs2 with e | e <;> omega, hstored c.idx hidx_le⟩
  | false =>
    simp only [Bool.false_eq_true, if_false] at hd
    by_cases hs64 : s2 = 64
    · subst hs64
      simp only [beq_self_eq_true, Bool.not_true, Bool.false_and, Bool.false_eq_true, if_false] at hd
      cases nz with
      | false =>
        simp only [Bool.false_eq_true, if_false] at hd
        have hd' := (Except.ok.inj hd).symm
        rw [hd']
        exact ⟨by rw [hlen sz hsz_le]; exact hsz_le, hstored sz (Nat.le_refl _)⟩
      | true =>
        simp only [if_true] at hd
        split at hd
        · have hd' := (Except.ok.inj hd).symm
          rw [hd']
          refine ⟨by rw [List.length_set, hlen sz hsz_le]; exact hsz_le, ?_⟩
          intro x hx
          rcases List.mem_or_eq_of_mem_set hx with h1 | h1
          · exact hstored sz (Nat.le_refl _) x h1
          · rw [h1]; exact hs.hF
        · next h64 =>
          have hd' := (Except.ok.inj hd).symm
          rw [hd']
          refine ⟨by rw [List.length_append, hlen sz hsz_le]; simp; omega, ?_⟩
          intro x hx
          rcases List.mem_append.mp hx with h1 | h1
          · exact hstored sz (Nat.le_refl _) x h1
          · simp at h1; rw [h1]; exact hs.hF
    · have hs32 : s2 = 32 := by
        rcases hs2 with e | e
        · exact e
        · exact absurd e hs64
      subst hs32
      have hb : ((32 : Nat) == 64) = false := by decide
      simp only [hb, Bool.not_false, Bool.true_and, decide_eq_true_eq] at hd
      split at hd
      · simp at hd
      · next hgt =>
        cases nz with
        | false =>
          simp only [Bool.false_eq_true, if_false] at hd
          have hd' := (Except.ok.inj hd).symm
          rw [hd']
          exact ⟨by rw [hlen sz hsz_le]; omega, hstored sz (Nat.le_refl _)⟩
        | true =>
          simp only [if_true] at hd
          split at hd
          · simp at hd
          · next hge =>
            have hd' := (Except.ok.inj hd).symm
            rw [hd']
            refine ⟨by rw [List.length_append, hlen sz hsz_le]; simp; omega, ?_⟩
            intro x hx
            rcases List.mem_append.mp hx with h1 | h1
            · exact hstored sz (Nat.le_refl _) x h1
            · simp at h1; rw [h1]; exact hs.hF

end Ffuzzy.GenSim
