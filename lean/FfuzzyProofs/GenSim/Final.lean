/-
  gen_sim, part 8: finalisation.  Under the simulation relation the engine's
  `finalize_raw_internal` returns the digest of the reference engine.
-/
import FfuzzyProofs.GenSim.Step
namespace Ffuzzy.GenSim
open Ffuzzy Ffuzzy.Spec

theorem WF_of_Live {a b : Ctx} (h : Live a b) (wb : WF b) : WF a :=
  ⟨h.sa, by rw [h.idx]; exact wb.idx, fun hne => by rw [h.idx]; exact wb.cell63 (by rw [← h.c63]; exact hne),
   fun hne => by rw [h.idx]; exact wb.half (by rw [← h.chHalf]; exact hne)⟩

/-- levels above the engine's active range are empty in the reference engine: the guess skips them -/
theorem naiveGuess_skip (n : Naive) (en : Nat) (hv : ∀ k, en ≤ k → k ≤ 30 → (n.at k).idx = 0) :
    ∀ K, K ≤ 30 → en ≥ 1 → naiveGuess n K = naiveGuess n (min K (en - 1)) := by
  intro K
  induction K with
  | zero => intro _ _; simp
  | succ K ih =>
    intro hK hen
    by_cases hle : K + 1 ≤ en - 1
    · rw [Nat.min_eq_left hle]
    · have e : min (K + 1) (en - 1) = min K (en - 1) := by omega
      rw [e, ← ih (by omega) hen]
      rw [naiveGuess]
      have := hv (K + 1) (by omega) hK
      rw [if_pos (by omega)]

theorem naiveGuess_le (n : Naive) : ∀ K, naiveGuess n K ≤ K := by
  intro K
  induction K with
  | zero => simp [naiveGuess]
  | succ K ih => rw [naiveGuess]; split <;> omega

theorem naiveGuess_pos (n : Naive) : ∀ K, naiveGuess n K ≠ 0 → 32 ≤ (n.at (naiveGuess n K)).idx := by
  intro K
  induction K with
  | zero => simp [naiveGuess]
  | succ K ih =>
    rw [naiveGuess]
    split
    · exact ih
    · intro _; omega

/-- inside the active range both guesses walk the same piece counts -/
theorem guessLoop_eq (g : Gen) (n : Naive) (h : Sim g n) :
    ∀ k, g.bhStart ≤ k → k < g.bhEnd → Gen.guessLoop g k = naiveGuess n k ∧ g.bhStart ≤ Gen.guessLoop g k := by
  intro k
  induction k with
  | zero => intro h1 _; simp [Gen.guessLoop, naiveGuess]; omega
  | succ k ih =>
    intro h1 h2
    rw [Gen.guessLoop, naiveGuess]
    by_cases hs : k + 1 > g.bhStart
    · have hl := h.live (k + 1) h1 h2
      rw [hl.idx]
      by_cases hlt : (n.at (k + 1)).idx < 32
      · simp only [hs, hlt, decide_true, Bool.and_self, if_true]
        exact ih (by omega) (by omega)
      · simp only [hs, hlt, decide_true, decide_false, Bool.and_false, Bool.false_eq_true, if_false]
        exact ⟨by first | rfl | trivial, h1⟩
    · have e : g.bhStart = k + 1 := by omega
      have := (h.elim k (by omega)).2
      simp only [hs, decide_false, Bool.false_and, Bool.false_eq_true, if_false]
      rw [if_neg (by omega)]
      exact ⟨by first | rfl | trivial, h1⟩

theorem log2_ge (x k : Nat) (h : 2 ^ k ≤ x) : k ≤ Nat.log2 x := by
  have hx : x ≠ 0 := by have := Nat.two_pow_pos k; omega
  exact (Nat.le_log2 hx).mpr h

/-- the eliminated levels are below the block size the input size asks for -/
theorem start_le_log (st size : Nat) (h : ∀ k, k < st → 192 * 2 ^ k < size) :
    Gen.logBlockSizeFromInputSize size st = Gen.logBlockSizeFromInputSize size 0 ∧
    st ≤ Gen.logBlockSizeFromInputSize size 0 := by
  unfold Gen.logBlockSizeFromInputSize Gen.SIZE_UNIT u64Ilog2
  cases st with
  | zero => simp
  | succ s =>
    have hs := h s (by omega)
    have hpos := Nat.two_pow_pos s
    have : ¬ size ≤ 192 := by omega
    rw [if_neg this, if_neg this]
    have h2 : 2 ^ s ≤ (size - 1) / 192 := by
      rw [Nat.le_div_iff_mul_le (by omega)]; omega
    have := log2_ge _ _ h2
    omega

/-- levels above the engine's active range are empty in the reference engine: the guess skips them
    (version with a fork limit) -/
theorem naiveGuess_skip' (n : Naive) (en lim : Nat) (hv : ∀ k, en ≤ k → k ≤ lim → (n.at k).idx = 0) :
    ∀ K, K ≤ lim → en ≥ 1 → naiveGuess n K = naiveGuess n (min K (en - 1)) := by
  intro K
  induction K with
  | zero => intro _ _; simp
  | succ K ih =>
    intro hK hen
    by_cases hle : K + 1 ≤ en - 1
    · rw [Nat.min_eq_left hle]
    · have e : min (K + 1) (en - 1) = min K (en - 1) := by omega
      rw [e, ← ih (by omega) hen]
      rw [naiveGuess]
      have := hv (K + 1) (by omega) hK
      rw [if_pos (by omega)]

/-- finalisation of an engine state that simulates the reference engine: no declared size, or a
    declared size equal to the processed size; the fork limit is 30 or above the block size index
    the size asks for (what `set_fixed_input_size` computes) -/
theorem final_sim (g : Gen) (n : Naive) (bs : List UInt8) (h : Sim g n) (hN : NInv n bs)
    (hf : g.fixedSize = none ∨ g.fixedSize = some g.inputSize)
    (hl : g.bhEndLimit = 30 ∨ Gen.logBlockSizeFromInputSize n.size 0 < g.bhEndLimit)
    (hsz : g.inputSize = min n.size U64_MAX)
    (trunc : Bool) (s2 : Nat) (hs2 : s2 = 32 ∨ s2 = 64) :
    g.finalizeRaw trunc s2 = n.digest trunc s2 := by
  have hst := h.st_lt
  have hen := h.en_le
  have hlim := h.lim
  unfold Gen.finalizeRaw Naive.digest
  have hc1 : (g.fixedSize.isSome && g.fixedSize != some g.inputSize) = false := by
    rcases hf with e | e <;> rw [e] <;> simp
  rw [hc1]
  simp only [Bool.false_eq_true, if_false]
  by_cases hbig : Gen.MAX_INPUT_SIZE < n.size
  · rw [if_pos hbig, if_pos (by rw [hsz]; unfold Gen.MAX_INPUT_SIZE U64_MAX at *; omega)]
  · have hsz' : g.inputSize = n.size := by
      rw [hsz]; unfold Gen.MAX_INPUT_SIZE U64_MAX at *; omega
    rw [if_neg hbig, if_neg (by rw [hsz']; exact hbig)]
    have hE : effM g = n.size := by
      unfold effM eff
      rcases hf with e | e <;> rw [e] <;> simp [hsz']
    have hstart := start_le_log g.bhStart n.size
      (fun k hk => by have := (h.elim k hk).1; rw [hE] at this; exact this)
    have hge := guessLoop_eq g n h (min (Gen.logBlockSizeFromInputSize n.size 0) (g.bhEnd - 1))
      (by have := hstart.2; omega) (by omega)
    have hK0 : min 30 (Gen.logBlockSizeFromInputSize n.size 0) ≤ g.bhEndLimit := by omega
    have hk : g.guessOutputLogBlockSize = naiveGuess n (min 30 (Gen.logBlockSizeFromInputSize n.size 0)) := by
      unfold Gen.guessOutputLogBlockSize
      simp only
      rw [hsz', hstart.1]
      rw [naiveGuess_skip' n g.bhEnd g.bhEndLimit h.virgin _ hK0 (by omega)]
      have e : min (min 30 (Gen.logBlockSizeFromInputSize n.size 0)) (g.bhEnd - 1) =
          min (Gen.logBlockSizeFromInputSize n.size 0) (g.bhEnd - 1) := by omega
      rw [e]
      exact hge.1
    have hk_ge : g.bhStart ≤ g.guessOutputLogBlockSize := by
      unfold Gen.guessOutputLogBlockSize
      simp only
      rw [hsz', hstart.1]
      exact hge.2
    have hk_le : g.guessOutputLogBlockSize ≤ g.bhEnd - 1 ∧
        g.guessOutputLogBlockSize ≤ min 30 (Gen.logBlockSizeFromInputSize n.size 0) := by
      rw [hk]
      refine ⟨?_, naiveGuess_le n _⟩
      rw [naiveGuess_skip' n g.bhEnd g.bhEndLimit h.virgin _ hK0 (by omega)]
      have := naiveGuess_le n (min (min 30 (Gen.logBlockSizeFromInputSize n.size 0)) (g.bhEnd - 1))
      omega
    have hpos := naiveGuess_pos n (min 30 (Gen.logBlockSizeFromInputSize n.size 0))
    rw [← hk] at hpos
    rw [← hk]
    generalize g.guessOutputLogBlockSize = k at hk_ge hk_le hpos
    obtain ⟨hk_le, hk_K0⟩ := hk_le
    have hlv := h.live k hk_ge (by omega)
    have hwf := WF_of_Live hlv (hN.wf k (by omega))
    rw [h.roll, digest1_congr hlv hwf]
    by_cases hlt : k < g.bhEnd - 1
    · rw [if_pos hlt]
      have hlv1 := h.live (k + 1) (by omega) (by omega)
      rw [digest2_congr hlv1 (WF_of_Live hlv1 (hN.wf (k + 1) (by omega)))]
      cases (n.at (k + 1)).digest2 (n.roll.value != 0) trunc s2 <;> rfl
    · rw [if_neg hlt]
      have hke : k + 1 = g.bhEnd := by omega
      -- either the top context is below the fork limit, or everything is at the very top (30 / 31)
      have hcase : g.bhEnd ≤ g.bhEndLimit ∨ (g.bhEndLimit = 30 ∧ g.bhEnd = 31) := by omega
      have hidx0 : (n.at (k + 1)).idx = 0 := by
        rcases hcase with e | ⟨_, e31⟩
        · exact h.virgin (k + 1) (by omega) (by omega)
        · rw [hke, e31]; exact hN.top
      obtain ⟨v1, v2, v3, v4⟩ := hN.virgin (k + 1) (by omega) hidx0
      rw [digest2_virgin (n.at (k + 1)) hidx0 v4 v3 (by rw [v1, v2]) _ trunc s2 hs2, v1]
      cases hnz : (n.roll.value != 0)
      · simp
      · simp only [if_true]
        by_cases hk0 : k = 0
        · rw [if_pos hk0]
          have htop := h.top (by omega)
          have e0 : g.bhEnd - 1 = k := by omega
          rw [e0] at htop
          rw [hlv.hFull, (hN.virgin k (by omega) htop).1]
        · rw [if_neg hk0]
          have hp := hpos hk0
          rcases hcase with e | ⟨e30l, e31⟩
          · have htop := h.top e
            have e0 : g.bhEnd - 1 = k := by omega
            rw [e0] at htop; omega
          · have e30 : k = 30 := by omega
            have hL := h.last e30l
            rw [e30] at hp
            rw [hL.2 (hL.1.mpr (by omega)), fnvAll_31 n bs hN]

end Ffuzzy.GenSim
