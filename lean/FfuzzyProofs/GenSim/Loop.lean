/-
  gen_sim, part 6: one byte of the engine against one byte of the reference engine.
  Loop invariant of `bh_loop_2!` (`LI`), state after one iteration (`AI`).
-/
import FfuzzyProofs.GenSim.Sim
namespace Ffuzzy.GenSim
open Ffuzzy Ffuzzy.Spec

section
variable (n : Naive) (bs : List UInt8) (ch : UInt8)

/-- rolling value after the byte -/
def vOf : UInt32 := (n.roll.updateByByte ch).value
/-- level `k` of the reference engine after the hash update, before a possible store -/
def mid (k : Nat) : Ctx := upd ch (n.at k)
/-- FNV of everything including the new byte -/
def fnvAll' : UInt8 := fnvUpdate fnvInit (bs ++ [ch])

theorem at_step' (hN : NInv n bs) (k : Nat) (hk : k < 32) :
    (n.step ch).at k = if trig k (vOf n ch) = true then (mid n ch k).storePiece else mid n ch k := by
  rw [at_step n ch k (by rw [hN.lvSize]; exact hk), levelStep_eq]; rfl

theorem idx_time_mono (hN : NInv n bs) (k : Nat) (hk : k < 32) : (n.at k).idx ≤ ((n.step ch).at k).idx := by
  rw [at_step' n bs ch hN k hk]
  split
  · rw [storePiece_idx]; unfold mid; rw [upd_idx]; split <;> omega
  · unfold mid; rw [upd_idx]; exact Nat.le_refl _

theorem stored_pos (hN : NInv n bs) (k : Nat) (hk : k < 32) (ht : trig k (vOf n ch) = true) :
    1 ≤ ((n.step ch).at k).idx := by
  rw [at_step' n bs ch hN k hk, if_pos ht, storePiece_idx]
  unfold mid; rw [upd_idx]; split <;> omega

theorem not_trig_above (i k : Nat) (h : trig (i + 1) (vOf n ch) = false) (hk : i + 1 ≤ k) :
    trig k (vOf n ch) = false := by
  induction k with
  | zero => omega
  | succ k ih =>
    by_cases e : i + 1 = k + 1
    · rw [← e]; exact h
    · have := ih (by omega)
      cases ht : trig (k + 1) (vOf n ch)
      · rfl
      · rw [trig_mono k _ ht] at this; exact absurd this (by simp)

theorem mid_idx (k : Nat) : (mid n ch k).idx = (n.at k).idx := by unfold mid; rw [upd_idx]

/-- loop invariant at the top of iteration `i` of `bh_loop_2!` -/
structure LI (g : Gen) (i E : Nat) : Prop where
  np : g.panicked = false
  csize : g.ctx.size = 31
  bsize : ∀ k, (g.ctxAt k).bh.size = 64
  lim : g.bhEndLimit ≤ 30
  effE : eff g = E
  roll : g.roll = (n.step ch).roll
  st_le : g.bhStart ≤ i
  i_lt : i < g.bhEnd
  en_le : g.bhEnd ≤ 31
  trigi : trig i (vOf n ch) = true
  done : ∀ k, g.bhStart ≤ k → k < i → Live (g.ctxAt k) ((n.step ch).at k)
  pend : ∀ k, i ≤ k → k < g.bhEnd → Live (g.ctxAt k) (mid n ch k)
  virgin : ∀ k, g.bhEnd ≤ k → k ≤ g.bhEndLimit → (n.at k).idx = 0
  elim : ∀ k, k < g.bhStart → 192 * 2 ^ k < E ∧ 32 ≤ ((n.step ch).at (k + 1)).idx
  mask : g.rollMask = 2 ^ g.bhStart - 1
  border : g.elimBorder = 192 * 2 ^ g.bhStart
  last : g.bhEndLimit = 30 →
    ((g.isLast = true ↔ 1 ≤ (n.at 30).idx) ∧ (g.isLast = true → g.hLast = fnvAll' bs ch))
  top : g.bhEnd ≤ g.bhEndLimit → (n.at (g.bhEnd - 1)).idx = 0
  trg : ∀ k, i ≤ k → k + 1 < g.bhEnd → 1 ≤ (n.at k).idx
  casc : g.bhEndLimit = 30 → (n.at 30).idx = 63 → (g.bhStart = i ∨ E ≤ g.elimBorder)

/-- state after iteration `i` -/
structure AI (g : Gen) (i E : Nat) : Prop where
  np : g.panicked = false
  csize : g.ctx.size = 31
  bsize : ∀ k, (g.ctxAt k).bh.size = 64
  lim : g.bhEndLimit ≤ 30
  effE : eff g = E
  roll : g.roll = (n.step ch).roll
  st_le : g.bhStart ≤ i + 1
  st_lt : g.bhStart < g.bhEnd
  i_lt : i < g.bhEnd
  en_le : g.bhEnd ≤ 31
  trigi : trig i (vOf n ch) = true
  done : ∀ k, g.bhStart ≤ k → k ≤ i → Live (g.ctxAt k) ((n.step ch).at k)
  pend : ∀ k, i < k → k < g.bhEnd → Live (g.ctxAt k) (mid n ch k)
  virgin : ∀ k, g.bhEnd ≤ k → k ≤ g.bhEndLimit → (n.at k).idx = 0
  elim : ∀ k, k < g.bhStart → 192 * 2 ^ k < E ∧ 32 ≤ ((n.step ch).at (k + 1)).idx
  mask : g.rollMask = 2 ^ g.bhStart - 1
  border : g.elimBorder = 192 * 2 ^ g.bhStart
  last : g.bhEndLimit = 30 →
    ((g.isLast = true ↔ (1 ≤ (n.at 30).idx ∨ i = 30)) ∧ (g.isLast = true → g.hLast = fnvAll' bs ch))
  top : g.bhEnd ≤ g.bhEndLimit → (n.at (g.bhEnd - 1)).idx = 0
  notop : g.bhEnd ≤ g.bhEndLimit → i + 1 < g.bhEnd
  trg : ∀ k, i < k → k + 1 < g.bhEnd → 1 ≤ (n.at k).idx
  casc : g.bhEndLimit = 30 → (n.at 30).idx = 63 → i + 1 < g.bhEnd → (g.bhStart = i + 1 ∨ E ≤ g.elimBorder)

end
end Ffuzzy.GenSim
