/-
  gen_sim, part 6: one byte of the engine against one byte of the reference engine.
  Loop invariant of `bh_loop_2!` (`LI`), state after one iteration (`AI`).
-/
import FfuzzyProofs.GenSim.Sim
namespace Ffuzzy.GenSim
open Ffuzzy Ffuzzy.Spec

section
variable (n : Naive) (bs : List UInt8) (ch : UInt8)

/-- rolling value after the byte -/
def vOf : UInt32 := (n.roll.updateByByte ch).value
/-- level `k` of the reference engine after the hash update, before a possible store -/
def mid (k : Nat) : Ctx := upd ch (n.at k)
/-- FNV of everything including the new byte -/
def fnvAll' : UInt8 := fnvUpdate fnvInit (bs ++ [ch])

theorem at_step' (hN : NInv n bs) (k : Nat) (hk : k < 32) :
    (n.step ch).at k = if trig k (vOf n ch) = true then (mid n ch k).storePiece else mid n ch k := by
  rw [at_step n ch k (by rw [hN.lvSize]; exact hk), levelStep_eq]; rfl

theorem idx_time_mono (hN : NInv n bs) (k : Nat) (hk : k < 32) : (n.at k).idx ≤ ((n.step ch).at k).idx := by
  rw [at_step' n bs ch hN k hk]
  split
  · rw [storePiece_idx]; unfold mid; rw [upd_idx]; split <;> omega
  · unfold mid; rw [upd_idx]; exact Nat.le_refl _

theorem stored_pos (hN : NInv n bs) (k : Nat) (hk : k < 32) (ht : trig k (vOf n ch) = true) :
    1 ≤ ((n.step ch).at k).idx := by
  rw [at_step' n bs ch hN k hk, if_pos ht, storePiece_idx]
  unfold mid; rw [upd_idx]; split <;> omega

theorem not_trig_above (i k : Nat) (h : trig (i + 1) (vOf n ch) = false) (hk : i + 1 ≤ k) :
    trig k (vOf n ch) = false := by
  induction k with
  | zero => omega
  | succ k ih =>
    by_cases e : i + 1 = k + 1
    · rw [← e]; exact h
    · have := ih (by omega)
      cases ht : trig (k + 1) (vOf n ch)
      · rfl
      · rw [trig_mono k _ ht] at this; exact absurd this (by simp)

theorem mid_idx (k : Nat) : (mid n ch k).idx = (n.at k).idx := by unfold mid; rw [upd_idx]

/-- loop invariant at the top of iteration `i` of `bh_loop_2!` -/
structure LI (g : Gen) (i E M : Nat) : Prop where
  np : g.panicked = false
  csize : g.ctx.size = 31
  bsize : ∀ k, (g.ctxAt k).bh.size = 64
  lim : g.bhEndLimit ≤ 30
  effE : eff g = E
  effMM : effM g = M
  EM : E ≤ M
  roll : g.roll = (n.step ch).roll
  st_le : g.bhStart ≤ i
  i_lt : i < g.bhEnd
  en_le : g.bhEnd ≤ 31
  trigi : trig i (vOf n ch) = true
  done : ∀ k, g.bhStart ≤ k → k < i → Live (g.ctxAt k) ((n.step ch).at k)
  pend : ∀ k, i ≤ k → k < g.bhEnd → Live (g.ctxAt k) (mid n ch k)
  virgin : ∀ k, g.bhEnd ≤ k → k ≤ g.bhEndLimit → (n.at k).idx = 0
  elim : ∀ k, k < g.bhStart → 192 * 2 ^ k < M ∧ 32 ≤ ((n.step ch).at (k + 1)).idx
  mask : g.rollMask = 2 ^ g.bhStart - 1
  border : g.elimBorder = 192 * 2 ^ g.bhStart
  last : g.bhEndLimit = 30 →
    ((g.isLast = true ↔ 1 ≤ (n.at 30).idx) ∧ (g.isLast = true → g.hLast = fnvAll' bs ch))
  top : g.bhEnd ≤ g.bhEndLimit → (n.at (g.bhEnd - 1)).idx = 0
  trg : ∀ k, i ≤ k → k + 1 < g.bhEnd → 1 ≤ (n.at k).idx
  casc : (n.at i).idx = 63 → (g.bhStart = i ∨ E ≤ g.elimBorder)

/-- state after the fork / last-hash activation half of iteration `i` -/
structure LF (g : Gen) (i E M : Nat) : Prop where
  np : g.panicked = false
  csize : g.ctx.size = 31
  bsize : ∀ k, (g.ctxAt k).bh.size = 64
  lim : g.bhEndLimit ≤ 30
  effE : eff g = E
  effMM : effM g = M
  EM : E ≤ M
  roll : g.roll = (n.step ch).roll
  st_le : g.bhStart ≤ i
  i_lt : i < g.bhEnd
  en_le : g.bhEnd ≤ 31
  trigi : trig i (vOf n ch) = true
  done : ∀ k, g.bhStart ≤ k → k < i → Live (g.ctxAt k) ((n.step ch).at k)
  pend : ∀ k, i ≤ k → k < g.bhEnd → Live (g.ctxAt k) (mid n ch k)
  virgin : ∀ k, g.bhEnd ≤ k → k ≤ g.bhEndLimit → (n.at k).idx = 0
  elim : ∀ k, k < g.bhStart → 192 * 2 ^ k < M ∧ 32 ≤ ((n.step ch).at (k + 1)).idx
  mask : g.rollMask = 2 ^ g.bhStart - 1
  border : g.elimBorder = 192 * 2 ^ g.bhStart
  last : g.bhEndLimit = 30 →
    ((g.isLast = true ↔ (1 ≤ (n.at 30).idx ∨ i = 30)) ∧ (g.isLast = true → g.hLast = fnvAll' bs ch))
  top : g.bhEnd ≤ g.bhEndLimit → (n.at (g.bhEnd - 1)).idx = 0
  notop : g.bhEnd ≤ g.bhEndLimit → i + 1 < g.bhEnd
  trg : ∀ k, i < k → k + 1 < g.bhEnd → 1 ≤ (n.at k).idx
  casc : (n.at i).idx = 63 → (g.bhStart = i ∨ E ≤ g.elimBorder)

/-- state after iteration `i` -/
structure AI (g : Gen) (i E M : Nat) : Prop where
  np : g.panicked = false
  csize : g.ctx.size = 31
  bsize : ∀ k, (g.ctxAt k).bh.size = 64
  lim : g.bhEndLimit ≤ 30
  effE : eff g = E
  effMM : effM g = M
  EM : E ≤ M
  roll : g.roll = (n.step ch).roll
  st_le : g.bhStart ≤ i + 1
  st_lt : g.bhStart < g.bhEnd
  i_lt : i < g.bhEnd
  en_le : g.bhEnd ≤ 31
  trigi : trig i (vOf n ch) = true
  done : ∀ k, g.bhStart ≤ k → k ≤ i → Live (g.ctxAt k) ((n.step ch).at k)
  pend : ∀ k, i < k → k < g.bhEnd → Live (g.ctxAt k) (mid n ch k)
  virgin : ∀ k, g.bhEnd ≤ k → k ≤ g.bhEndLimit → (n.at k).idx = 0
  elim : ∀ k, k < g.bhStart → 192 * 2 ^ k < M ∧ 32 ≤ ((n.step ch).at (k + 1)).idx
  mask : g.rollMask = 2 ^ g.bhStart - 1
  border : g.elimBorder = 192 * 2 ^ g.bhStart
  last : g.bhEndLimit = 30 →
    ((g.isLast = true ↔ (1 ≤ (n.at 30).idx ∨ i = 30)) ∧ (g.isLast = true → g.hLast = fnvAll' bs ch))
  top : g.bhEnd ≤ g.bhEndLimit → (n.at (g.bhEnd - 1)).idx = 0
  notop : g.bhEnd ≤ g.bhEndLimit → i + 1 < g.bhEnd
  trg : ∀ k, i < k → k + 1 < g.bhEnd → 1 ≤ (n.at k).idx
  casc : (n.at (i + 1)).idx = 63 → i + 1 < g.bhEnd → (g.bhStart = i + 1 ∨ E ≤ g.elimBorder)


theorem fnvAll'_eq : fnvAll' bs ch = fnvStep (fnvUpdate fnvInit bs) ch := by
  simp [fnvAll', fnvUpdate, List.foldl_append]

/-- the fork / last-hash half of the loop body -/
theorem fork_spec (hN : NInv n bs) (g : Gen) (i E M : Nat) (h : LI n bs ch g i E M) :
    LF n bs ch (g.forkStep i) i E M := by
  have hcur := h.pend i (Nat.le_refl _) h.i_lt
  have hidx : (g.ctxAt i).idx = (n.at i).idx := by rw [hcur.idx, mid_idx]
  have hi31 : i < 31 := Nat.lt_of_lt_of_le h.i_lt h.en_le
  by_cases h0 : (g.ctxAt i).idx = 0
  · -- the context is empty: it is the top one
    have hn0 : (n.at i).idx = 0 := by rw [← hidx]; exact h0
    have htop : i + 1 = g.bhEnd := by
      by_cases e : i + 1 < g.bhEnd
      · have := h.trg i (Nat.le_refl _) e; omega
      · have := h.i_lt; omega
    have hv := hN.virgin i (by omega) hn0
    have hfull : (g.ctxAt i).hFull = fnvAll' bs ch := by
      rw [hcur.hFull, fnvAll'_eq]; unfold mid; rw [upd_hFull, hv.1]
    have hhalf : (g.ctxAt i).hHalf = fnvAll' bs ch := by
      rw [hcur.hHalf, fnvAll'_eq]; unfold mid; rw [upd_hHalf, hv.2.1]
    by_cases hl : g.bhEnd > g.bhEndLimit
    · by_cases hset : (g.bhEndLimit = 30 && !g.isLast) = true
      · have e : g.forkStep i = { g with hLast := (g.ctxAt i).hFull, isLast := true } := by
          unfold Gen.forkStep; simp only [h0, if_true, hl, hset]
        rw [e]
        simp only [Bool.and_eq_true, decide_eq_true_eq, Bool.not_eq_true'] at hset
        have hi30 : i = 30 := by have := h.en_le; omega
        exact { np := h.np, csize := h.csize, bsize := h.bsize, lim := h.lim, effE := h.effE, effMM := h.effMM, EM := h.EM, roll := h.roll,
                st_le := h.st_le, i_lt := h.i_lt, en_le := h.en_le, trigi := h.trigi, done := h.done,
                pend := h.pend, virgin := h.virgin, elim := h.elim, mask := h.mask, border := h.border,
                last := fun _ => ⟨⟨fun _ => Or.inr hi30, fun _ => rfl⟩, fun _ => hfull⟩,
                top := h.top, notop := fun hh => absurd hh (Nat.not_le_of_gt hl),
                trg := fun k hk => h.trg k (by omega), casc := h.casc }
      · have e : g.forkStep i = g := by
          unfold Gen.forkStep; simp only [h0, if_true, hl, hset]; rfl
        rw [e]
        refine { np := h.np, csize := h.csize, bsize := h.bsize, lim := h.lim, effE := h.effE, effMM := h.effMM, EM := h.EM, roll := h.roll,
                 st_le := h.st_le, i_lt := h.i_lt, en_le := h.en_le, trigi := h.trigi, done := h.done,
                 pend := h.pend, virgin := h.virgin, elim := h.elim, mask := h.mask, border := h.border,
                 last := ?_,
                 top := h.top, notop := fun hh => absurd hh (Nat.not_le_of_gt hl),
                 trg := fun k hk => h.trg k (by omega), casc := h.casc }
        intro h30
        have hL := h.last h30
        have hi30 : i = 30 := by have := h.en_le; omega
        have hisl : g.isLast = true := by
          cases hb : g.isLast
          · exfalso; apply hset; simp [h30, hb]
          · rfl
        exact ⟨⟨fun _ => Or.inr hi30, fun _ => hisl⟩, hL.2⟩
    · -- fork
      have hle : g.bhEnd ≤ g.bhEndLimit := by omega
      have hi1 : i + 1 < 31 := by have := h.lim; omega
      have e : g.forkStep i = { g with
          ctx := g.ctx.setIfInBounds (i + 1)
            { (g.ctxAt (i + 1)).reset with hFull := (g.ctxAt i).hFull, hHalf := (g.ctxAt i).hHalf },
          bhEnd := g.bhEnd + 1 } := by
        unfold Gen.forkStep; simp only [h0, if_true, hl, hi1, if_false]
      rw [e]
      have hvn := h.virgin (i + 1) (by omega) (by omega)
      have hv1 := hN.virgin (i + 1) (by omega) hvn
      have cat : ∀ k, Gen.ctxAt { g with
          ctx := g.ctx.setIfInBounds (i + 1)
            { (g.ctxAt (i + 1)).reset with hFull := (g.ctxAt i).hFull, hHalf := (g.ctxAt i).hHalf },
          bhEnd := g.bhEnd + 1 } k =
          if k = i + 1 then { (g.ctxAt (i + 1)).reset with hFull := (g.ctxAt i).hFull, hHalf := (g.ctxAt i).hHalf }
          else g.ctxAt k := by
        intro k
        unfold Gen.ctxAt
        simp only
        by_cases ek : k = i + 1
        · rw [if_pos ek, ek, ctxD_set_same _ _ _ (by rw [h.csize]; exact hi1)]
        · rw [if_neg ek, ctxD_set_ne _ _ _ _ (Ne.symm ek)]
      have hnew : Live { (g.ctxAt (i + 1)).reset with hFull := (g.ctxAt i).hFull, hHalf := (g.ctxAt i).hHalf }
          (mid n ch (i + 1)) := by
        have hs := h.bsize (i + 1)
        refine ⟨?_, ?_, ?_, ?_, ?_, ?_, ?_, ?_⟩
        · rw [mid_idx, hvn]; rfl
        · unfold mid; rw [upd_chHalf, hv1.2.2.1]; rfl
        · show (g.ctxAt i).hFull = _
          rw [hfull, fnvAll'_eq]; unfold mid; rw [upd_hFull, hv1.1]
        · show (g.ctxAt i).hHalf = _
          rw [hhalf, fnvAll'_eq]; unfold mid; rw [upd_hHalf, hv1.2.1]
        · show ((g.ctxAt (i + 1)).bh.setIfInBounds 63 NIL).size = 64
          simp [hs]
        · unfold mid; rw [upd_bh]; exact (hN.wf (i + 1) (by omega)).size
        · show ((g.ctxAt (i + 1)).bh.setIfInBounds 63 NIL).getD 63 NIL = _
          rw [getD_setIfInBounds_same _ _ _ _ (by rw [hs]; omega)]
          unfold mid; rw [upd_bh, hv1.2.2.2]
        · intro j hj; exact absurd hj (Nat.not_lt_zero _)
      refine { np := h.np, csize := by simp [h.csize], bsize := ?_, lim := h.lim, effE := h.effE, effMM := h.effMM, EM := h.EM, roll := h.roll,
                 st_le := h.st_le, i_lt := by show i < g.bhEnd + 1; omega, en_le := by show g.bhEnd + 1 ≤ 31; omega,
                 trigi := h.trigi, done := ?_,
                 pend := ?_, virgin := ?_, elim := h.elim, mask := h.mask, border := h.border,
                 last := ?_,
                 top := ?_, notop := fun _ => by show i + 1 < g.bhEnd + 1; omega,
                 trg := ?_, casc := h.casc }
      · intro k; rw [cat k]; split
        · exact hnew.sa
        · exact h.bsize k
      · intro k hk1 hk2; rw [cat k, if_neg (by omega)]; exact h.done k hk1 hk2
      · intro k hk1 hk2
        rw [cat k]
        split
        · next ek => rw [ek]; exact hnew
        · next ek => exact h.pend k hk1 (by change k < g.bhEnd + 1 at hk2; omega)
      · intro k hk1 hk2; exact h.virgin k (by change g.bhEnd + 1 ≤ k at hk1; omega) hk2
      · intro h30
        have hL := h.last h30
        refine ⟨⟨fun hh => Or.inl (hL.1.mp hh), fun hh => ?_⟩, hL.2⟩
        rcases hh with hh | hh
        · exact hL.1.mpr hh
        · change g.bhEndLimit = 30 at h30; omega
      · intro _
        show (n.at (g.bhEnd + 1 - 1)).idx = 0
        have : g.bhEnd + 1 - 1 = i + 1 := by omega
        rw [this]; exact hvn
      · intro k hk1 hk2
        change k + 1 < g.bhEnd + 1 at hk2
        omega
  · have e : g.forkStep i = g := by
      unfold Gen.forkStep; simp only [h0, if_false]
    rw [e]
    have hpos : 1 ≤ (n.at i).idx := by rw [← hidx]; omega
    refine { np := h.np, csize := h.csize, bsize := h.bsize, lim := h.lim, effE := h.effE, effMM := h.effMM, EM := h.EM, roll := h.roll,
                 st_le := h.st_le, i_lt := h.i_lt, en_le := h.en_le, trigi := h.trigi, done := h.done,
                 pend := h.pend, virgin := h.virgin, elim := h.elim, mask := h.mask, border := h.border,
                 last := ?_,
                 top := h.top, notop := ?_,
                 trg := fun k hk => h.trg k (by omega), casc := h.casc }
    · intro h30
      have hL := h.last h30
      refine ⟨⟨fun hh => Or.inl (hL.1.mp hh), fun hh => ?_⟩, hL.2⟩
      rcases hh with hh | hh
      · exact hL.1.mpr hh
      · rw [hh] at hpos; exact hL.1.mpr hpos
    · intro hle
      have ht := h.top hle
      have := h.i_lt
      by_cases e2 : i + 1 = g.bhEnd
      · have e3 : g.bhEnd - 1 = i := by omega
        rw [e3] at ht; omega
      · omega

/-- the piece store of the loop body -/
def storeG (g : Gen) (i : Nat) : Gen := { g with ctx := g.ctx.setIfInBounds i (g.ctxAt i).storePiece }

theorem storeG_ctxAt (g : Gen) (i k : Nat) (hi : i < g.ctx.size) :
    (storeG g i).ctxAt k = if k = i then (g.ctxAt i).storePiece else g.ctxAt k := by
  unfold storeG Gen.ctxAt
  simp only
  by_cases ek : k = i
  · rw [if_pos ek, ek, ctxD_set_same _ _ _ hi]
  · rw [if_neg ek, ctxD_set_ne _ _ _ _ (Ne.symm ek)]

theorem pow_le_30 (i : Nat) (h : i ≤ 30) : 2 ^ i ≤ 1073741824 := by
  have : 2 ^ i ≤ 2 ^ 30 := Nat.pow_le_pow_right (by omega) h
  simpa using this

/-- the state change of a block hash elimination -/
def elimG (g : Gen) : Gen :=
  { g with bhStart := g.bhStart + 1, rollMask := (g.rollMask * 2 + 1) % 4294967296,
           elimBorder := (g.elimBorder * 2) % 18446744073709551616 }

/-- the store and elimination half of the loop body -/
theorem store_elim_spec (hN : NInv n bs) (g : Gen) (i E M : Nat) (h : LF n bs ch g i E M) :
    (g.ctxAt i).idx < 64 ∧
    ((storeG g i).elimStep i (decide ((g.ctxAt i).idx ≥ 63))).panicked = false ∧
    AI n bs ch ((storeG g i).elimStep i (decide ((g.ctxAt i).idx ≥ 63))) i E M := by
  have hcur := h.pend i (Nat.le_refl _) h.i_lt
  have hidx : (g.ctxAt i).idx = (n.at i).idx := by rw [hcur.idx, mid_idx]
  have hi31 : i < 31 := Nat.lt_of_lt_of_le h.i_lt h.en_le
  have hwf := hN.wf i (by omega)
  have hle63 : (g.ctxAt i).idx ≤ 63 := by rw [hidx]; exact hwf.idx
  have hisz : i < g.ctx.size := by rw [h.csize]; exact hi31
  have hstored : Live (g.ctxAt i).storePiece ((n.step ch).at i) := by
    rw [at_step' n bs ch hN i (by omega), if_pos h.trigi]
    exact Live_store hcur hle63
  have cat := fun k => storeG_ctxAt g i k hisz
  -- the state after the store, before elimination
  have base : AI n bs ch (storeG g i) i E M ∨ True := Or.inr trivial
  have hAI2 : (E ≤ g.elimBorder ∨ ¬ ((n.at i).idx = 63 ∧ g.bhStart = i ∧ i + 1 < g.bhEnd) ∨ (n.at (i + 1)).idx < 32) →
      AI n bs ch (storeG g i) i E M := by
    intro hno
    refine { np := h.np, csize := by simp [storeG, h.csize], bsize := ?_, lim := h.lim, effE := h.effE, effMM := h.effMM, EM := h.EM, roll := h.roll,
             st_le := Nat.le_succ_of_le h.st_le, st_lt := Nat.lt_of_le_of_lt h.st_le h.i_lt, i_lt := h.i_lt,
             en_le := h.en_le, trigi := h.trigi, done := ?_, pend := ?_, virgin := h.virgin, elim := h.elim,
             mask := h.mask, border := h.border, last := h.last, top := h.top, notop := h.notop, trg := h.trg,
             casc := ?_ }
    · intro k; rw [cat k]; split
      · exact hstored.sa
      · exact h.bsize k
    · intro k hk1 hk2; rw [cat k]; split
      · next ek => rw [ek]; exact hstored
      · next ek => exact h.done k hk1 (by omega)
    · intro k hk1 hk2; rw [cat k, if_neg (by omega)]; exact h.pend k (by omega) hk2
    · intro h63 hlt
      have hm := hN.mono i hi31
      have hi63 : (n.at i).idx = 63 := by have := hwf.idx; omega
      rcases h.casc hi63 with hc | hc
      · rcases hno with hno | hno | hno
        · exact Or.inr hno
        · exact absurd ⟨hi63, hc, hlt⟩ hno
        · omega
      · exact Or.inr hc
  by_cases hcond : (decide ((g.ctxAt i).idx ≥ 63) && decide ((storeG g i).bhEnd - (storeG g i).bhStart ≥ 2) &&
      decide ((storeG g i).elimBorder < (storeG g i).fixedSize.getD (storeG g i).inputSize)) = true
  · simp only [Bool.and_eq_true, decide_eq_true_eq] at hcond
    obtain ⟨⟨hw, hge2⟩, hb⟩ := hcond
    change g.bhEnd - g.bhStart ≥ 2 at hge2
    change g.elimBorder < eff g at hb
    rw [h.effE] at hb
    have hi63 : (n.at i).idx = 63 := by omega
    have hst : g.bhStart = i := by
      rcases h.casc hi63 with hc | hc
      · exact hc
      · omega
    have hlt : i + 1 < g.bhEnd := by omega
    have hi1 : i + 1 < 31 := by have := h.en_le; omega
    have hnext : ((storeG g i).ctxAt (i + 1)).idx = (n.at (i + 1)).idx := by
      rw [cat (i + 1), if_neg (by omega), (h.pend (i + 1) (by omega) hlt).idx, mid_idx]
    by_cases h32 : ((storeG g i).ctxAt (i + 1)).idx ≥ 32
    · -- elimination
      have e : (storeG g i).elimStep i (decide ((g.ctxAt i).idx ≥ 63)) =
          elimG (storeG g i) := by
        unfold Gen.elimStep
        have c1 : (decide ((g.ctxAt i).idx ≥ 63) && decide ((storeG g i).bhEnd - (storeG g i).bhStart ≥ 2) &&
            decide ((storeG g i).elimBorder < (storeG g i).fixedSize.getD (storeG g i).inputSize)) = true := by
          simp only [Bool.and_eq_true, decide_eq_true_eq]
          exact ⟨⟨hw, hge2⟩, by rw [← h.effE] at hb; exact hb⟩
        rw [if_pos c1, if_pos hi1, if_pos h32]; rfl
      rw [e]
      have hp := pow_le_30 i (by omega)
      have hpos := Nat.two_pow_pos i
      have hps : 2 ^ (i + 1) = 2 * 2 ^ i := by rw [Nat.pow_succ]; omega
      refine ⟨by omega, h.np, ?_⟩
      refine { np := h.np, csize := by simp [storeG, elimG, h.csize], bsize := ?_, lim := h.lim, effE := h.effE, effMM := h.effMM, EM := h.EM, roll := h.roll,
               st_le := by show g.bhStart + 1 ≤ i + 1; omega, st_lt := by show g.bhStart + 1 < g.bhEnd; omega,
               i_lt := h.i_lt,
               en_le := h.en_le, trigi := h.trigi, done := ?_, pend := ?_, virgin := h.virgin, elim := ?_,
               mask := ?_, border := ?_, last := h.last, top := h.top, notop := h.notop, trg := h.trg,
               casc := ?_ }
      · intro k
        have : Gen.ctxAt (elimG (storeG g i)) k = (storeG g i).ctxAt k := rfl
        rw [this, cat k]; split
        · exact hstored.sa
        · exact h.bsize k
      · intro k hk1 hk2
        change g.bhStart + 1 ≤ k at hk1
        omega
      · intro k hk1 hk2
        have : Gen.ctxAt (elimG (storeG g i)) k = (storeG g i).ctxAt k := rfl
        rw [this, cat k, if_neg (by omega)]; exact h.pend k (by omega) hk2
      · intro k hk
        change k < g.bhStart + 1 at hk
        by_cases ek : k = i
        · rw [ek]
          refine ⟨?_, ?_⟩
          · have hb2 := h.border; have := h.EM; rw [hst] at hb2; omega
          · have := idx_time_mono n bs ch hN (i + 1) (by omega)
            rw [hnext] at h32; omega
        · exact h.elim k (by omega)
      · show (g.rollMask * 2 + 1) % 4294967296 = 2 ^ (g.bhStart + 1) - 1
        rw [h.mask, hst, hps]; omega
      · show (g.elimBorder * 2) % 18446744073709551616 = 192 * 2 ^ (g.bhStart + 1)
        rw [h.border, hst, hps]; omega
      · intro _ _; left; show g.bhStart + 1 = i + 1; omega
    · have e : (storeG g i).elimStep i (decide ((g.ctxAt i).idx ≥ 63)) = storeG g i := by
        unfold Gen.elimStep
        have c1 : (decide ((g.ctxAt i).idx ≥ 63) && decide ((storeG g i).bhEnd - (storeG g i).bhStart ≥ 2) &&
            decide ((storeG g i).elimBorder < (storeG g i).fixedSize.getD (storeG g i).inputSize)) = true := by
          simp only [Bool.and_eq_true, decide_eq_true_eq]
          exact ⟨⟨hw, hge2⟩, by rw [← h.effE] at hb; exact hb⟩
        rw [if_pos c1, if_pos hi1, if_neg h32]
      rw [e]
      exact ⟨by omega, h.np, hAI2 (Or.inr (Or.inr (by rw [hnext] at h32; omega)))⟩
  · have e : (storeG g i).elimStep i (decide ((g.ctxAt i).idx ≥ 63)) = storeG g i := by
      unfold Gen.elimStep
      rw [if_neg hcond]
    rw [e]
    refine ⟨by omega, h.np, hAI2 ?_⟩
    simp only [Bool.and_eq_true, decide_eq_true_eq, not_and, Nat.not_lt] at hcond
    by_cases hx : (n.at i).idx = 63 ∧ g.bhStart = i ∧ i + 1 < g.bhEnd
    · left
      have := hcond ⟨by omega, by show g.bhEnd - g.bhStart ≥ 2; omega⟩
      change eff g ≤ g.elimBorder at this
      rw [h.effE] at this; exact this
    · exact Or.inr (Or.inl hx)

theorem trig_below (i k : Nat) (v : UInt32) (h : trig i v = true) (hk : k ≤ i) : trig k v = true := by
  induction i with
  | zero => have : k = 0 := by omega
            rw [this]; exact h
  | succ i ih =>
    by_cases e : k = i + 1
    · rw [e]; exact h
    · exact ih (trig_mono i v h) (by omega)

/-- the loop goes on: the invariant holds at the next index -/
theorem ai_cont (g : Gen) (i E M : Nat) (h : AI n bs ch g i E M) (ht : trig (i + 1) (vOf n ch) = true)
    (hlt : i + 1 < g.bhEnd) : LI n bs ch g (i + 1) E M := by
  have hen := h.en_le
  exact { np := h.np, csize := h.csize, bsize := h.bsize, lim := h.lim, effE := h.effE, effMM := h.effMM, EM := h.EM, roll := h.roll,
          st_le := h.st_le, i_lt := hlt, en_le := h.en_le, trigi := ht,
          done := fun k h1 h2 => h.done k h1 (by omega),
          pend := fun k h1 h2 => h.pend k (by omega) h2,
          virgin := h.virgin, elim := h.elim, mask := h.mask, border := h.border,
          last := fun h30 => ⟨⟨fun hh => by
                      rcases (h.last h30).1.mp hh with x | x
                      · exact x
                      · omega,
                    fun hh => (h.last h30).1.mpr (Or.inl hh)⟩, (h.last h30).2⟩,
          top := h.top, trg := fun k h1 h2 => h.trg k (by omega) h2,
          casc := fun h63 => h.casc h63 hlt }

/-- the loop ends: the simulation relation holds for the states after the byte -/
theorem ai_exit (hN : NInv n bs) (g : Gen) (i E M : Nat) (h : AI n bs ch g i E M)
    (hx : trig (i + 1) (vOf n ch) = false ∨ g.bhEnd ≤ i + 1) : Sim g (n.step ch) ∧ eff g = E := by
  have hN' := ninv_step n bs ch hN
  have hen := h.en_le
  have hlim := h.lim
  have notrig : ∀ k, i < k → k < g.bhEnd ∨ g.bhEnd ≤ g.bhEndLimit → k < 32 → (n.step ch).at k = mid n ch k := by
    intro k hk1 hk2 hk3
    rw [at_step' n bs ch hN k hk3]
    have : trig k (vOf n ch) = false := by
      rcases hx with hx | hx
      · exact not_trig_above n ch i k hx (by omega)
      · rcases hk2 with hk2 | hk2
        · omega
        · have := h.notop hk2; omega
    rw [this]; simp
  refine ⟨{ roll := h.roll, np := h.np, csize := h.csize, bsize := h.bsize, lim := h.lim, st_lt := h.st_lt,
            en_le := h.en_le, live := ?_, virgin := ?_, elim := ?_, mask := h.mask, border := h.border,
            last := ?_, top := ?_, trg := ?_ }, h.effE⟩
  · intro k h1 h2
    by_cases hk : k ≤ i
    · exact h.done k h1 hk
    · rw [notrig k (by omega) (Or.inl h2) (by omega)]
      exact h.pend k (by omega) h2
  · intro k h1 h2
    rw [notrig k (by have := h.notop (by omega); omega) (Or.inr (by omega)) (by omega), mid_idx]
    exact h.virgin k h1 h2
  · intro k hk; rw [h.effMM]; exact h.elim k hk
  · intro h30
    have hL := h.last h30
    have hv31 := hN'.virgin 31 (by omega) hN'.top
    have key : (1 ≤ ((n.step ch).at 30).idx) ↔ (1 ≤ (n.at 30).idx ∨ i = 30) := by
      constructor
      · intro hp
        by_cases e : i = 30
        · exact Or.inr e
        · left
          have : (n.step ch).at 30 = mid n ch 30 := by
            have := h.i_lt
            apply notrig 30 (by omega) _ (by omega)
            by_cases e2 : 30 < g.bhEnd
            · exact Or.inl e2
            · exact Or.inr (by omega)
          rw [this, mid_idx] at hp; exact hp
      · rintro (hp | hp)
        · have := idx_time_mono n bs ch hN 30 (by omega); omega
        · rw [← hp]; exact stored_pos n bs ch hN i (by omega) h.trigi
    refine ⟨hL.1.trans key.symm, fun hh => ?_⟩
    rw [hL.2 hh, hv31.1]; rfl
  · intro hle
    have hn := h.notop hle
    rw [notrig (g.bhEnd - 1) (by omega) (Or.inl (by omega)) (by omega), mid_idx]
    exact h.top hle
  · intro k h1 h2
    by_cases hk : k ≤ i
    · exact stored_pos n bs ch hN k (by omega) (trig_below i k _ h.trigi hk)
    · have := h.trg k (by omega) h2
      have := idx_time_mono n bs ch hN k (by omega)
      omega

/-- one iteration of the loop body, as the model computes it -/
theorem bhLoop2_unfold (g : Gen) (i hh : Nat) (hi : i < 31)
    (hp1 : (g.forkStep i).panicked = false) (h64 : ((g.forkStep i).ctxAt i).idx < 64)
    (hp3 : ((storeG (g.forkStep i) i).elimStep i (decide (((g.forkStep i).ctxAt i).idx ≥ 63))).panicked = false) :
    Gen.bhLoop2 g i hh =
      if hh % 2 = 1 then (storeG (g.forkStep i) i).elimStep i (decide (((g.forkStep i).ctxAt i).idx ≥ 63))
      else if i + 1 ≥ ((storeG (g.forkStep i) i).elimStep i (decide (((g.forkStep i).ctxAt i).idx ≥ 63))).bhEnd then
        (storeG (g.forkStep i) i).elimStep i (decide (((g.forkStep i).ctxAt i).idx ≥ 63))
      else Gen.bhLoop2 ((storeG (g.forkStep i) i).elimStep i (decide (((g.forkStep i).ctxAt i).idx ≥ 63))) (i + 1) (hh / 2) := by
  rw [Gen.bhLoop2]
  simp only [hi, dite_true]
  rw [if_neg (by rw [hp1]; exact Bool.false_ne_true), if_neg (by omega)]
  change (if ((storeG (g.forkStep i) i).elimStep i (decide (((g.forkStep i).ctxAt i).idx ≥ 63))).panicked = true then _ else _) = _
  rw [if_neg (by rw [hp3]; exact Bool.false_ne_true)]
  rfl

/-- the whole loop: from the invariant at index `i` to the simulation relation after the byte -/
theorem loop_spec (hN : NInv n bs) : ∀ (m : Nat) (g : Gen) (i E M : Nat), 31 - i = m → LI n bs ch g i E M →
    Sim (Gen.bhLoop2 g i ((((vOf n ch) + 1).toNat / 3) >>> i)) (n.step ch) ∧
    eff (Gen.bhLoop2 g i ((((vOf n ch) + 1).toNat / 3) >>> i)) = E := by
  intro m
  induction m with
  | zero => intro g i E M hm h; have := h.i_lt; have := h.en_le; omega
  | succ m ih =>
    intro g i E M hm h
    have hi31 : i < 31 := Nat.lt_of_lt_of_le h.i_lt h.en_le
    have hF := fork_spec n bs ch hN g i E M h
    obtain ⟨h64, hp3, hA⟩ := store_elim_spec n bs ch hN (g.forkStep i) i E M hF
    rw [bhLoop2_unfold g i _ hi31 hF.np h64 hp3]
    have hts := trig_succ_iff (vOf n ch) i h.trigi
    by_cases hodd : ((((vOf n ch) + 1).toNat / 3) >>> i) % 2 = 1
    · rw [if_pos hodd]
      apply ai_exit n bs ch hN _ i E M hA
      left
      cases ht : trig (i + 1) (vOf n ch)
      · rfl
      · have := hts.mp ht; omega
    · rw [if_neg hodd]
      split
      · next hge => exact ai_exit n bs ch hN _ i E M hA (Or.inr hge)
      · next hge =>
        rw [← shiftRight_succ]
        apply ih _ (i + 1) E M (by omega)
        exact ai_cont n bs ch _ i E M hA (hts.mpr (by omega)) (by omega)

end
end Ffuzzy.GenSim
