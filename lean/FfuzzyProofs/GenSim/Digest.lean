/-
  gen_sim, part 2: the digest extraction functions only look at the live part of a context.
-/
import FfuzzyProofs.GenSim.Basic
namespace Ffuzzy.GenSim
open Ffuzzy

theorem toList_take_eq {a b : Array UInt8} (n : Nat) (ha : a.size = 64) (hb : b.size = 64) (hn : n ≤ 64)
    (h : ∀ j, j < n → a.getD j NIL = b.getD j NIL) : a.toList.take n = b.toList.take n := by
  apply List.ext_getElem
  · simp [ha, hb]
  · intro i h1 h2
    simp only [List.length_take, Array.length_toList] at h1
    have hi : i < n := by omega
    have := h i hi
    rw [Array.getD_eq_getD_getElem?, Array.getD_eq_getD_getElem?,
      Array.getElem?_eq_getElem (by omega), Array.getElem?_eq_getElem (by omega)] at this
    simp only [List.getElem_take, Array.getElem_toList]
    exact this

theorem digest1_congr {a b : Ctx} (h : Live a b) (wa : WF a) (nz : Bool) : a.digest1 nz = b.digest1 nz := by
  unfold Ctx.digest1
  simp only
  rw [← h.c63, ← h.idx, ← h.hFull]
  by_cases hc : a.bh.getD 63 NIL != NIL
  · have h63 : a.idx = 63 := wa.cell63 (by simpa using hc)
    simp only [hc, if_true]
    have : a.bh.toList.take (a.idx + 1) = b.bh.toList.take (a.idx + 1) := by
      apply toList_take_eq _ h.sa h.sb (by omega)
      intro j hj
      by_cases e : j = 63
      · subst e; exact h.c63
      · exact h.cells j (by omega)
    rw [this]
  · simp only [hc, Bool.false_eq_true, if_false]
    have : a.bh.toList.take a.idx = b.bh.toList.take a.idx :=
      toList_take_eq _ h.sa h.sb (by have := wa.idx; omega) h.cells
    rw [this]

theorem digest2_congr {a b : Ctx} (h : Live a b) (wa : WF a) (nz tr : Bool) (s2 : Nat) :
    a.digest2 nz tr s2 = b.digest2 nz tr s2 := by
  unfold Ctx.digest2
  simp only
  rw [← h.c63, ← h.idx, ← h.hFull, ← h.hHalf, ← h.chHalf]
  have t31 : a.chHalf ≠ NIL → a.bh.toList.take 31 = b.bh.toList.take 31 := by
    intro hne
    have := wa.half hne
    exact toList_take_eq _ h.sa h.sb (by omega) (fun j hj => h.cells j (by omega))
  have tidx : a.bh.toList.take a.idx = b.bh.toList.take a.idx :=
    toList_take_eq _ h.sa h.sb (by have := wa.idx; omega) h.cells
  have t64 : a.bh.getD 63 NIL ≠ NIL → a.bh.toList.take (a.idx + 1) = b.bh.toList.take (a.idx + 1) := by
    intro hc
    have h63 : a.idx = 63 := wa.cell63 hc
    apply toList_take_eq _ h.sa h.sb (by omega)
    intro j hj
    by_cases e : j = 63
    · subst e; exact h.c63
    · exact h.cells j (by omega)
  by_cases htr : tr = true
  · simp only [htr, if_true]
    by_cases hc : a.chHalf != NIL
    · simp only [hc, if_true]
      rw [t31 (by simpa using hc)]
    · simp only [hc, Bool.false_eq_true, if_false, tidx]
  · simp only [htr, Bool.false_eq_true, if_false]
    by_cases hc : a.bh.getD 63 NIL != NIL
    · simp only [hc, if_true]
      rw [t64 (by simpa using hc)]
    · simp only [hc, Bool.false_eq_true, if_false, tidx]

/-- a context that never stored a piece: block hash 2 taken from it is the single tail character -/
theorem digest2_virgin (c : Ctx) (hidx : c.idx = 0) (h63 : c.bh.getD 63 NIL = NIL) (hch : c.chHalf = NIL)
    (heq : c.hHalf = c.hFull) (nz tr : Bool) (s2 : Nat) (hs2 : s2 = 32 ∨ s2 = 64) :
    c.digest2 nz tr s2 = .ok (if nz then [c.hFull] else []) := by
  unfold Ctx.digest2
  simp only [hidx, h63, hch, heq]
  rcases hs2 with e | e <;> subst e <;> cases tr <;> cases nz <;> simp

end Ffuzzy.GenSim
