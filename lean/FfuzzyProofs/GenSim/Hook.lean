/-
  The verification hook `Generator::verif_with_prefix_zeroes(N)` (model: `Gen.withPrefixZeroes`)
  returns exactly the state a new generator has after consuming `N` zero bytes.
-/
import FfuzzyProofs.GenSim.DigestValid
namespace Ffuzzy.GenSim
open Ffuzzy Ffuzzy.Spec

/-- rolling state over an all-zero window -/
def zroll (i : Nat) : Roll := { index := i, h1 := 0, h2 := 0, h3 := 0, window := List.replicate 7 0 }

theorem zroll_step : ∀ i : Fin 7, (zroll i.val).updateByByte 0 = zroll ((i.val + 1) % 7) := by decide

theorem zroll_fold (N : Nat) : (List.replicate N (0 : UInt8)).foldl Roll.updateByByte Roll.new = zroll (N % 7) := by
  induction N with
  | zero => rfl
  | succ N ih =>
    rw [List.replicate_succ', List.foldl_append, ih]
    simp only [List.foldl_cons, List.foldl_nil]
    have := zroll_step ⟨N % 7, Nat.mod_lt _ (by omega)⟩
    simp only at this
    rw [this]
    congr 1
    omega

theorem zroll_value (i : Nat) : (zroll i).value = 0 := rfl

/-- FNV state after `k` zero bytes -/
def fnvp (k : Nat) : UInt8 := (List.replicate k (0 : UInt8)).foldl fnvStep fnvInit

theorem fnvp_succ (k : Nat) : fnvp (k + 1) = fnvStep (fnvp k) 0 := by
  unfold fnvp; rw [List.replicate_succ', List.foldl_append]; rfl

theorem fnv_period_fin : ∀ i : Fin 64, (List.replicate 16 (0 : UInt8)).foldl fnvStep i.val.toUInt8 = i.val.toUInt8 := by
  decide +kernel

theorem fnvp_lt (k : Nat) : fnvp k < 64 := by
  cases k with
  | zero => decide
  | succ k => rw [fnvp_succ]; exact fnvStep_lt _ _

theorem fnvp_period (k : Nat) : fnvp (k + 16) = fnvp k := by
  have h1 : fnvp (k + 16) = (List.replicate 16 (0 : UInt8)).foldl fnvStep (fnvp k) := by
    unfold fnvp; rw [← List.replicate_append_replicate, List.foldl_append]
  have hlt := UInt8.lt_iff_toNat_lt.mp (fnvp_lt k)
  have e : (fnvp k).toNat.toUInt8 = fnvp k := by
    apply UInt8.toNat_inj.mp; simp [Nat.toUInt8, UInt8.toNat_ofNat']
  have := fnv_period_fin ⟨(fnvp k).toNat, hlt⟩
  simp only [e] at this
  rw [h1, this]

theorem fnvp_mod (N : Nat) : fnvp N = fnvp (N % 16) := by
  induction N using Nat.strongRecOn with
  | _ N ih =>
    by_cases h : N < 16
    · rw [Nat.mod_eq_of_lt h]
    · have e : N = (N - 16) + 16 := by omega
      rw [e, fnvp_period, ih (N - 16) (by omega)]
      congr 1
      omega

/-- engine state after `k` zero bytes of an input accounted as `sz` bytes -/
def gz (sz k : Nat) : Gen :=
  { Gen.new with inputSize := sz, roll := zroll (k % 7),
                 ctx := Gen.new.ctx.modify 0 fun c => { c with hFull := fnvp k, hHalf := fnvp k } }

theorem modify0_twice (a : Array Ctx) (f g : Ctx → Ctx) : (a.modify 0 f).modify 0 g = a.modify 0 (g ∘ f) := by
  apply Array.ext
  · simp
  · intro i h1 h2
    simp only [Array.getElem_modify]
    split <;> simp

theorem gz_zero (sz : Nat) : gz sz 0 = { Gen.new with inputSize := sz } := by
  unfold gz
  have : Gen.new.ctx.modify 0 (fun c => { c with hFull := fnvp 0, hHalf := fnvp 0 }) = Gen.new.ctx := by
    apply Array.ext
    · simp
    · intro i h1 h2
      simp only [Array.getElem_modify]
      split
      · have : Gen.new.ctx[i] = Ctx.new := by simp [Gen.new]
        rw [this]; rfl
      · rfl
  rw [this]; rfl

/-- a zero byte never ends a piece: the step only advances the rolling index and the first context's hashes -/
theorem gz_step (sz k : Nat) : (gz sz k).stepByte 0 = gz sz (k + 1) := by
  have hroll : (zroll (k % 7)).updateByByte 0 = zroll ((k + 1) % 7) := by
    have := zroll_step ⟨k % 7, Nat.mod_lt _ (by omega)⟩
    simp only at this
    rw [this]; congr 1; omega
  unfold Gen.stepByte
  have hp : (gz sz k).panicked = false := rfl
  rw [if_neg (by rw [hp]; exact Bool.false_ne_true)]
  simp only
  have hb : ((gz sz k).bhStart > (gz sz k).bhEnd || (gz sz k).bhEnd > 31) = false := by
    show (decide ((0 : Nat) > 1) || decide ((1 : Nat) > 31)) = false
    decide
  rw [if_neg (by rw [hb]; exact Bool.false_ne_true)]
  have hr : (gz sz k).roll.updateByByte 0 = zroll ((k + 1) % 7) := hroll
  rw [hr, zroll_value]
  have h1 : ((0 : UInt32) + 1 = 0) = False := by decide
  simp only [h1, if_false]
  have h2 : (((0 : UInt32) + 1).toNat / 3 &&& (gz sz k).rollMask != 0) = false := by
    show (((0 : UInt32) + 1).toNat / 3 &&& 0 != 0) = false
    decide
  simp only [h2, Bool.false_eq_true, if_false]
  have h3 : (((0 : UInt32) + 1).toNat % 3 != 0) = true := by decide
  simp only [h3, if_true]
  -- the hash update of the single active context
  unfold gz
  simp only
  have hupd : Gen.updCtxs 0 0 (1 - 0) (Gen.new.ctx.modify 0 fun c => { c with hFull := fnvp k, hHalf := fnvp k }) =
      Gen.new.ctx.modify 0 fun c => { c with hFull := fnvp (k + 1), hHalf := fnvp (k + 1) } := by
    show Gen.updCtxs 0 0 1 _ = _
    unfold Gen.updCtxs Gen.updCtxs
    rw [modify0_twice, fnvp_succ]
    rfl
  show ({ Gen.new with inputSize := sz, roll := zroll ((k + 1) % 7), hLast := _, ctx := Gen.updCtxs 0 0 (1 - 0) _ } : Gen) = _
  rw [hupd]
  rfl

theorem gz_fold (sz : Nat) : ∀ (m k : Nat), (List.replicate m (0 : UInt8)).foldl Gen.stepByte (gz sz k) = gz sz (k + m) := by
  intro m
  induction m with
  | zero => intro k; rfl
  | succ m ih =>
    intro k
    rw [List.replicate_succ, List.foldl_cons, gz_step, ih]
    congr 1; omega

/-- **the hook.** for every `N` a `u64` can hold, the hook state is the state after really feeding
    `N` zero bytes to a new generator -/
theorem hook_eq_feed (N : Nat) (hN : N ≤ U64_MAX) : Gen.withPrefixZeroes N = Gen.new.update (List.replicate N 0) := by
  have hsz : Gen.satAdd Gen.new.inputSize (List.replicate N (0 : UInt8)).length = N := by
    unfold Gen.satAdd; simp [Gen.new]; exact Nat.min_eq_left hN
  unfold Gen.update
  rw [hsz, ← gz_zero N, gz_fold N N 0, Nat.zero_add]
  unfold Gen.withPrefixZeroes gz
  simp only
  have hr : (List.replicate (N % 7) (0 : UInt8)).foldl Roll.updateByByte Gen.new.roll = zroll (N % 7) := by
    have := zroll_fold (N % 7)
    rw [Nat.mod_mod] at this
    exact this
  rw [hr]
  have : (List.replicate (N % 16) (0 : UInt8)).foldl fnvStep fnvInit = fnvp N := by
    rw [fnvp_mod N]; rfl
  rw [this]

end Ffuzzy.GenSim
