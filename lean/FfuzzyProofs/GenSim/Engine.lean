/-
  gen_sim, part 4: elementary facts about the engine's state updates.
-/
import FfuzzyProofs.GenSim.NaiveFacts
import FfuzzyProofs.GenBasic
namespace Ffuzzy.GenSim
open Ffuzzy Ffuzzy.Spec

theorem ctxD_set_same (a : Array Ctx) (i : Nat) (c : Ctx) (h : i < a.size) :
    (a.setIfInBounds i c).getD i Ctx.new = c := getD_setIfInBounds_same a i c Ctx.new h

theorem ctxD_set_ne (a : Array Ctx) (i j : Nat) (c : Ctx) (h : i ≠ j) :
    (a.setIfInBounds i c).getD j Ctx.new = a.getD j Ctx.new := getD_setIfInBounds_ne a i j c Ctx.new h

theorem getD_modify_same (a : Array Ctx) (i : Nat) (f : Ctx → Ctx) (h : i < a.size) :
    (a.modify i f).getD i Ctx.new = f (a.getD i Ctx.new) := by
  rw [Array.getD_eq_getD_getElem?, Array.getD_eq_getD_getElem?, Array.getElem?_modify]
  simp [h]

theorem getD_modify_ne (a : Array Ctx) (i j : Nat) (f : Ctx → Ctx) (h : i ≠ j) :
    (a.modify i f).getD j Ctx.new = a.getD j Ctx.new := by
  rw [Array.getD_eq_getD_getElem?, Array.getD_eq_getD_getElem?, Array.getElem?_modify]
  simp [h]

/-- the hash update of the active range `[k, k+n)` -/
theorem updCtxs_spec (ch : UInt8) : ∀ (n k : Nat) (ctx : Array Ctx), k + n ≤ ctx.size →
    (Gen.updCtxs ch k n ctx).size = ctx.size ∧
    ∀ j, (Gen.updCtxs ch k n ctx).getD j Ctx.new =
      if k ≤ j ∧ j < k + n then upd ch (ctx.getD j Ctx.new) else ctx.getD j Ctx.new := by
  intro n
  induction n with
  | zero => intro k ctx _; simp [Gen.updCtxs]; intro j h1 h2; omega
  | succ n ih =>
    intro k ctx hk
    unfold Gen.updCtxs
    have hm : (ctx.modify k fun c => { c with hFull := fnvStep c.hFull ch, hHalf := fnvStep c.hHalf ch }).size = ctx.size := by
      simp
    have := ih (k + 1) (ctx.modify k fun c => { c with hFull := fnvStep c.hFull ch, hHalf := fnvStep c.hHalf ch })
      (by rw [hm]; omega)
    refine ⟨by rw [this.1, hm], ?_⟩
    intro j
    rw [this.2 j]
    by_cases e : j = k
    · subst e
      have h1 : ¬ (j + 1 ≤ j ∧ j < j + 1 + n) := by omega
      have h2 : (j ≤ j ∧ j < j + (n + 1)) := by omega
      rw [if_neg h1, if_pos h2, getD_modify_same _ _ _ (by omega)]
      rfl
    · rw [getD_modify_ne _ _ _ _ (Ne.symm e)]
      by_cases h1 : k + 1 ≤ j ∧ j < k + 1 + n
      · have h2 : k ≤ j ∧ j < k + (n + 1) := by omega
        rw [if_pos h1, if_pos h2]
      · have h2 : ¬ (k ≤ j ∧ j < k + (n + 1)) := by omega
        rw [if_neg h1, if_neg h2]

/-- `h & roll_mask == 0` for `roll_mask = 2^st − 1` means `2^st ∣ h` -/
theorem mask_zero_iff (h st : Nat) : (h &&& (2 ^ st - 1) != 0) = false ↔ 2 ^ st ∣ h := by
  rw [Nat.and_two_pow_sub_one_eq_mod]
  simp only [bne_eq_false_iff_eq]
  exact ⟨Nat.dvd_of_mod_eq_zero, Nat.mod_eq_zero_of_dvd⟩

/-- the engine's three tests (`h_org != 0`, mask, `h_org % 3 == 0`) together are the trigger test of level `st` -/
theorem trig_iff_tests (v : UInt32) (st : Nat) :
    trig st v = true ↔ (v + 1 ≠ 0 ∧ 2 ^ st ∣ (v + 1).toNat / 3 ∧ (v + 1).toNat % 3 = 0) := by
  unfold trig
  simp only [Bool.and_eq_true, bne_iff_ne, ne_eq, beq_iff_eq]
  constructor
  · rintro ⟨h0, h⟩
    have hd : 3 * 2 ^ st ∣ (v + 1).toNat := Nat.dvd_of_mod_eq_zero h
    have h3 : 3 ∣ (v + 1).toNat := Nat.dvd_trans ⟨2 ^ st, rfl⟩ hd
    refine ⟨h0, ?_, Nat.mod_eq_zero_of_dvd h3⟩
    obtain ⟨q, hq⟩ := hd
    rw [hq, Nat.mul_assoc, Nat.mul_div_cancel_left _ (by omega : 0 < 3)]
    exact ⟨q, rfl⟩
  · rintro ⟨h0, ⟨q, hq⟩, h3⟩
    refine ⟨h0, ?_⟩
    have : (v + 1).toNat = 3 * ((v + 1).toNat / 3) := by omega
    rw [this, hq, ← Nat.mul_assoc]
    exact Nat.mul_mod_right _ _

/-- walking the bits of `h >> st`: the next level triggers iff the current low bit is clear -/
theorem trig_succ_iff (v : UInt32) (i : Nat) (h : trig i v = true) :
    trig (i + 1) v = true ↔ (((v + 1).toNat / 3) >>> i) % 2 = 0 := by
  rw [trig_iff_tests] at h ⊢
  obtain ⟨h0, ⟨q, hq⟩, h3⟩ := h
  rw [Nat.shiftRight_eq_div_pow, hq, Nat.mul_div_cancel_left _ (Nat.two_pow_pos i)]
  constructor
  · rintro ⟨_, ⟨r, hr⟩, _⟩
    rw [Nat.pow_succ, Nat.mul_assoc] at hr
    have := Nat.eq_of_mul_eq_mul_left (Nat.two_pow_pos i) hr
    omega
  · intro hq2
    refine ⟨h0, ⟨q / 2, ?_⟩, h3⟩
    rw [Nat.pow_succ, Nat.mul_assoc]
    congr 1; omega

theorem shiftRight_succ (x i : Nat) : x >>> (i + 1) = (x >>> i) / 2 := by
  rw [Nat.shiftRight_succ]

end Ffuzzy.GenSim
