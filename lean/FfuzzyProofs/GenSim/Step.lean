/-
  gen_sim, part 7: one byte of the engine (`generator_update_template!` body) preserves the
  simulation relation with the reference engine.
-/
import FfuzzyProofs.GenSim.Loop
namespace Ffuzzy.GenSim
open Ffuzzy Ffuzzy.Spec

/-- the per-byte hash updates before the trigger tests -/
def hashG (g : Gen) (ch : UInt8) : Gen :=
  { g with roll := g.roll.updateByByte ch,
           hLast := if g.isLast then fnvStep g.hLast ch else g.hLast,
           ctx := Gen.updCtxs ch g.bhStart (g.bhEnd - g.bhStart) g.ctx }

theorem hashG_ctxAt (g : Gen) (ch : UInt8) (k : Nat) (h1 : g.bhStart ≤ g.bhEnd) (h2 : g.bhEnd ≤ g.ctx.size) :
    (hashG g ch).ctxAt k = if g.bhStart ≤ k ∧ k < g.bhEnd then upd ch (g.ctxAt k) else g.ctxAt k := by
  unfold hashG Gen.ctxAt
  simp only
  have := (updCtxs_spec ch (g.bhEnd - g.bhStart) g.bhStart g.ctx (by omega)).2 k
  rw [this]
  have e : g.bhStart + (g.bhEnd - g.bhStart) = g.bhEnd := by omega
  rw [e]

theorem hashG_csize (g : Gen) (ch : UInt8) (h1 : g.bhStart ≤ g.bhEnd) (h2 : g.bhEnd ≤ g.ctx.size) :
    (hashG g ch).ctx.size = g.ctx.size := by
  unfold hashG
  simp only
  exact (updCtxs_spec ch (g.bhEnd - g.bhStart) g.bhStart g.ctx (by omega)).1

/-- the byte step in terms of the reference trigger predicate -/
theorem stepByte_eq (g : Gen) (ch : UInt8) (hp : g.panicked = false) (h1 : g.bhStart ≤ g.bhEnd) (h2 : g.bhEnd ≤ 31)
    (hm : g.rollMask = 2 ^ g.bhStart - 1) :
    g.stepByte ch =
      if trig g.bhStart (g.roll.updateByByte ch).value = true then
        Gen.bhLoop2 (hashG g ch) g.bhStart ((((g.roll.updateByByte ch).value + 1).toNat / 3) >>> g.bhStart)
      else hashG g ch := by
  unfold Gen.stepByte
  rw [if_neg (by rw [hp]; exact Bool.false_ne_true)]
  simp only
  rw [if_neg (by simp only [Bool.or_eq_true, decide_eq_true_eq]; omega)]
  have ht := trig_iff_tests (g.roll.updateByByte ch).value g.bhStart
  have hmz := mask_zero_iff (((g.roll.updateByByte ch).value + 1).toNat / 3) g.bhStart
  rw [← hm] at hmz
  by_cases t : trig g.bhStart (g.roll.updateByByte ch).value = true
  · rw [if_pos t]
    obtain ⟨a, b, c⟩ := ht.mp t
    rw [if_neg a, if_neg (by rw [hmz.mpr b]; exact Bool.false_ne_true),
      if_neg (by simp only [bne_iff_ne, ne_eq, Decidable.not_not]; exact c)]
    rfl
  · rw [if_neg t]
    by_cases a : (g.roll.updateByByte ch).value + 1 = 0
    · rw [if_pos a]; rfl
    · rw [if_neg a]
      by_cases b : ((((g.roll.updateByByte ch).value + 1).toNat / 3) &&& g.rollMask != 0) = true
      · rw [if_pos b]; rfl
      · rw [if_neg b]
        have b' := hmz.mp (by simpa using b)
        by_cases c : (((g.roll.updateByByte ch).value + 1).toNat % 3 != 0) = true
        · rw [if_pos c]; rfl
        · exfalso
          apply t
          exact ht.mpr ⟨a, b', by simpa using c⟩

theorem fnvAll_31 (n : Naive) (bs : List UInt8) (hN : NInv n bs) : (n.at 31).hFull = fnvUpdate fnvInit bs :=
  (hN.virgin 31 (by omega) hN.top).1

/-- one byte: the simulation relation is preserved and the size seen by the elimination test is untouched -/
theorem step_sim (n : Naive) (bs : List UInt8) (ch : UInt8) (hN : NInv n bs) (g : Gen) (h : Sim g n) :
    Sim (g.stepByte ch) (n.step ch) ∧ eff (g.stepByte ch) = eff g := by
  have hN' := ninv_step n bs ch hN
  have hst := h.st_lt
  have hen := h.en_le
  have hlim := h.lim
  rw [stepByte_eq g ch h.np (by omega) h.en_le h.mask]
  have hv : (g.roll.updateByByte ch).value = vOf n ch := by unfold vOf; rw [h.roll]
  rw [hv]
  have cat := fun k => hashG_ctxAt g ch k (by omega) (by rw [h.csize]; exact hen)
  have hcs : (hashG g ch).ctx.size = 31 := by
    rw [hashG_csize g ch (by omega) (by rw [h.csize]; exact hen), h.csize]
  have hbs : ∀ k, ((hashG g ch).ctxAt k).bh.size = 64 := by
    intro k; rw [cat k]; split
    · rw [upd_bh]; exact h.bsize k
    · exact h.bsize k
  have hroll : (hashG g ch).roll = (n.step ch).roll := by
    show g.roll.updateByByte ch = n.roll.updateByByte ch
    rw [h.roll]
  have hlive : ∀ k, g.bhStart ≤ k → k < g.bhEnd → Live ((hashG g ch).ctxAt k) (mid n ch k) := by
    intro k h1 h2
    rw [cat k, if_pos ⟨h1, h2⟩]
    exact Live_upd ch (h.live k h1 h2)
  have helim : ∀ k, k < g.bhStart → 192 * 2 ^ k < effM g ∧ 32 ≤ ((n.step ch).at (k + 1)).idx := by
    intro k hk
    have := h.elim k hk
    have := idx_time_mono n bs ch hN (k + 1) (by omega)
    exact ⟨by omega, by omega⟩
  have hlast' : g.bhEndLimit = 30 → (hashG g ch).isLast = true → (hashG g ch).hLast = fnvAll' bs ch := by
    intro h30 hh
    change g.isLast = true at hh
    show (if g.isLast = true then fnvStep g.hLast ch else g.hLast) = _
    rw [if_pos hh, fnvAll'_eq, (h.last h30).2 hh, fnvAll_31 n bs hN]
  by_cases t : trig g.bhStart (vOf n ch) = true
  · rw [if_pos t]
    have hLI : LI n bs ch (hashG g ch) g.bhStart (eff g) (effM g) :=
      { np := h.np, csize := hcs, bsize := hbs, lim := h.lim, effE := rfl, effMM := rfl, EM := Nat.le_max_left _ _, roll := hroll,
        st_le := Nat.le_refl _, i_lt := h.st_lt, en_le := h.en_le, trigi := t,
        done := fun k h1 h2 => by change g.bhStart ≤ k at h1; omega,
        pend := hlive, virgin := h.virgin, elim := helim, mask := h.mask, border := h.border,
        last := fun h30 => ⟨(h.last h30).1, hlast' h30⟩,
        top := h.top, trg := h.trg, casc := fun _ => Or.inl rfl }
    exact loop_spec n bs ch hN (31 - g.bhStart) (hashG g ch) g.bhStart (eff g) (effM g) rfl hLI
  · rw [if_neg t]
    have tf : trig g.bhStart (vOf n ch) = false := by simpa using t
    have notrig : ∀ k, g.bhStart ≤ k → k < 32 → (n.step ch).at k = mid n ch k := by
      intro k hk1 hk3
      rw [at_step' n bs ch hN k hk3]
      have : trig k (vOf n ch) = false := by
        cases hk : trig k (vOf n ch)
        · rfl
        · rw [trig_below k g.bhStart _ hk hk1] at tf; exact absurd tf (by simp)
      rw [this]; simp
    refine ⟨{ roll := hroll, np := h.np, csize := hcs, bsize := hbs, lim := h.lim, st_lt := h.st_lt,
              en_le := h.en_le, live := ?_, virgin := ?_, elim := helim, mask := h.mask, border := h.border,
              last := ?_, top := ?_, trg := ?_ }, rfl⟩
    · intro k h1 h2
      change g.bhStart ≤ k at h1
      change k < g.bhEnd at h2
      rw [notrig k h1 (by omega)]; exact hlive k h1 h2
    · intro k h1 h2
      rw [notrig k (by change g.bhEnd ≤ k at h1; omega) (by change k ≤ g.bhEndLimit at h2; omega), mid_idx]
      exact h.virgin k h1 h2
    · intro h30
      refine ⟨?_, fun hh => ?_⟩
      · rw [notrig 30 (by omega) (by omega), mid_idx]; exact (h.last h30).1
      · rw [hlast' h30 hh, fnvAll_31 _ _ hN']; rfl
    · intro hle
      show ((n.step ch).at (g.bhEnd - 1)).idx = 0
      rw [notrig (g.bhEnd - 1) (by omega) (by omega), mid_idx]; exact h.top hle
    · intro k h1 h2
      change g.bhStart ≤ k at h1
      change k + 1 < g.bhEnd at h2
      have := h.trg k h1 h2
      have := idx_time_mono n bs ch hN k (by omega)
      omega

end Ffuzzy.GenSim
