/-
  gen_sim, part 5: the simulation invariant between the engine state and the reference engine.
-/
import FfuzzyProofs.GenSim.Engine
namespace Ffuzzy.GenSim
open Ffuzzy Ffuzzy.Spec

/-- the size the elimination test compares the border with -/
def eff (g : Gen) : Nat := g.fixedSize.getD g.inputSize

/-- the largest size the elimination test has ever compared the border with: the declared size once
    there is one, the processed size before (both only grow between resets) -/
def effM (g : Gen) : Nat := max (eff g) g.inputSize

/-- the engine state `g` simulates the reference engine `n` (both after the same bytes):
    active levels agree on their live parts, levels not yet forked are untouched in the reference
    engine, eliminated levels can never be selected by finalisation. -/
structure Sim (g : Gen) (n : Naive) : Prop where
  roll : g.roll = n.roll
  np : g.panicked = false
  csize : g.ctx.size = 31
  bsize : ∀ k, (g.ctxAt k).bh.size = 64
  lim : g.bhEndLimit ≤ 30
  st_lt : g.bhStart < g.bhEnd
  en_le : g.bhEnd ≤ 31
  live : ∀ k, g.bhStart ≤ k → k < g.bhEnd → Live (g.ctxAt k) (n.at k)
  virgin : ∀ k, g.bhEnd ≤ k → k ≤ g.bhEndLimit → (n.at k).idx = 0
  elim : ∀ k, k < g.bhStart → 192 * 2 ^ k < effM g ∧ 32 ≤ (n.at (k + 1)).idx
  mask : g.rollMask = 2 ^ g.bhStart - 1
  border : g.elimBorder = 192 * 2 ^ g.bhStart
  last : g.bhEndLimit = 30 →
    ((g.isLast = true ↔ 1 ≤ (n.at 30).idx) ∧ (g.isLast = true → g.hLast = (n.at 31).hFull))
  top : g.bhEnd ≤ g.bhEndLimit → (n.at (g.bhEnd - 1)).idx = 0
  trg : ∀ k, g.bhStart ≤ k → k + 1 < g.bhEnd → 1 ≤ (n.at k).idx

theorem ctxAt_new (k : Nat) : Gen.new.ctxAt k = Ctx.new := by
  unfold Gen.ctxAt Gen.new
  exact getD_replicate_self 31 k Ctx.new

theorem sim_new : Sim Gen.new Naive.new := by
  refine ⟨rfl, rfl, by simp [Gen.new], ?_, by simp [Gen.new], by simp [Gen.new], by simp [Gen.new],
    ?_, ?_, ?_, by simp [Gen.new], by simp [Gen.new, Gen.SIZE_UNIT], ?_, ?_, ?_⟩
  · intro k; rw [ctxAt_new]; exact WF_new.size
  · intro k _ _; rw [ctxAt_new, at_new]; exact Live.refl _ WF_new.size
  · intro k _ _; rw [at_new]; rfl
  · intro k hk; simp [Gen.new] at hk
  · intro _; rw [at_new]; simp [Gen.new]; rfl
  · intro _; rw [at_new]; rfl
  · intro k h1 h2; simp [Gen.new] at h2

end Ffuzzy.GenSim
