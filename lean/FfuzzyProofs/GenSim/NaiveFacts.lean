/-
  gen_sim, part 3: facts about the reference (naive 32-level) engine alone.
-/
import FfuzzyProofs.GenSim.Digest
namespace Ffuzzy.GenSim
open Ffuzzy Ffuzzy.Spec

theorem levelStep_eq (k : Nat) (v : UInt32) (ch : UInt8) (c : Ctx) :
    levelStep k v ch c = if trig k v then (upd ch c).storePiece else upd ch c := by
  unfold levelStep upd; rfl

theorem at_step (n : Naive) (ch : UInt8) (k : Nat) (hk : k < n.lv.size) :
    (n.step ch).at k = levelStep k (n.roll.updateByByte ch).value ch (n.at k) := by
  unfold Naive.step Naive.at
  simp only
  rw [Array.getD_eq_getD_getElem?, Array.getD_eq_getD_getElem?, Array.getElem?_mapIdx,
    Array.getElem?_eq_getElem hk]
  rfl

/-- a trigger at the doubled block size is a trigger at the block size -/
theorem trig_mono (k : Nat) (v : UInt32) (h : trig (k + 1) v = true) : trig k v = true := by
  unfold trig at *
  simp only [Bool.and_eq_true, bne_iff_ne, ne_eq, beq_iff_eq] at *
  refine ⟨h.1, ?_⟩
  have : 3 * 2 ^ k ∣ 3 * 2 ^ (k + 1) := ⟨2, by rw [Nat.pow_succ]; omega⟩
  exact Nat.mod_eq_zero_of_dvd (Nat.dvd_trans this (Nat.dvd_of_mod_eq_zero h.2))

/-- level 31 never ends a piece in 32-bit arithmetic -/
theorem trig_31 (v : UInt32) : trig 31 v = false := by
  unfold trig
  by_cases h : v + 1 = 0
  · simp [h]
  · have hlt := (v + 1).toNat_lt
    have hpos : 0 < (v + 1).toNat := by
      apply Nat.pos_of_ne_zero
      intro e; apply h; apply UInt32.toNat_inj.mp; simpa using e
    have : (v + 1).toNat % (3 * 2 ^ 31) = (v + 1).toNat := Nat.mod_eq_of_lt (by omega)
    simp only [this, Bool.and_eq_false_iff, bne_eq_false_iff_eq, beq_eq_false_iff_ne, ne_eq]
    right; omega

/-- invariants of the naive engine after feeding `bs` -/
structure NInv (n : Naive) (bs : List UInt8) : Prop where
  roll : n.roll = Roll.new.update bs
  lvSize : n.lv.size = 32
  size : n.size = bs.length
  wf : ∀ k, k < 32 → WF (n.at k)
  virgin : ∀ k, k < 32 → (n.at k).idx = 0 →
    (n.at k).hFull = fnvUpdate fnvInit bs ∧ (n.at k).hHalf = fnvUpdate fnvInit bs ∧
    (n.at k).chHalf = NIL ∧ (n.at k).bh.getD 63 NIL = NIL
  mono : ∀ k, k < 31 → (n.at (k + 1)).idx ≤ (n.at k).idx
  top : (n.at 31).idx = 0

theorem at_new (k : Nat) : Naive.new.at k = Ctx.new := by
  unfold Naive.at Naive.new
  simp only
  exact getD_replicate_self 32 k Ctx.new

theorem ninv_new : NInv Naive.new [] := by
  refine ⟨rfl, by simp [Naive.new], rfl, ?_, ?_, ?_, ?_⟩
  · intro k _; rw [at_new]; exact WF_new
  · intro k _ _; rw [at_new]
    exact ⟨rfl, rfl, rfl, getD_replicate_self 64 63 NIL⟩
  · intro k _; rw [at_new, at_new]; exact Nat.le_refl _
  · rw [at_new]; rfl

theorem ninv_step (n : Naive) (bs : List UInt8) (ch : UInt8) (h : NInv n bs) : NInv (n.step ch) (bs ++ [ch]) := by
  have hat : ∀ k, k < 32 → (n.step ch).at k = levelStep k (n.roll.updateByByte ch).value ch (n.at k) :=
    fun k hk => at_step n ch k (by rw [h.lvSize]; exact hk)
  have hfn : fnvUpdate fnvInit (bs ++ [ch]) = fnvStep (fnvUpdate fnvInit bs) ch := by
    simp [fnvUpdate, List.foldl_append]
  refine ⟨?_, ?_, ?_, ?_, ?_, ?_, ?_⟩
  · simp [Naive.step, h.roll, Roll.update, List.foldl_append]
  · simp [Naive.step, h.lvSize]
  · simp [Naive.step, h.size]
  · intro k hk
    rw [hat k hk, levelStep_eq]
    split
    · exact WF_store (WF_upd ch (h.wf k hk))
    · exact WF_upd ch (h.wf k hk)
  · intro k hk hidx
    rw [hat k hk, levelStep_eq] at hidx ⊢
    by_cases ht : trig k (n.roll.updateByByte ch).value = true
    · -- a store makes the index positive (or keeps 63): contradiction
      simp only [ht, if_true] at hidx
      rw [storePiece_idx, upd_idx] at hidx
      have := (h.wf k hk).idx
      split at hidx <;> omega
    · simp only [ht, Bool.false_eq_true, if_false] at hidx ⊢
      rw [upd_idx] at hidx
      have := h.virgin k hk hidx
      rw [upd_hFull, upd_hHalf, upd_chHalf, upd_bh, hfn, this.1, this.2.1]
      exact ⟨rfl, rfl, this.2.2.1, this.2.2.2⟩
  · intro k hk
    rw [hat k (by omega), hat (k + 1) (by omega), levelStep_eq, levelStep_eq]
    have hm := h.mono k hk
    have w1 := (h.wf k (by omega)).idx
    have w2 := (h.wf (k + 1) (by omega)).idx
    by_cases t1 : trig (k + 1) (n.roll.updateByByte ch).value = true
    · have t0 := trig_mono k _ t1
      simp only [t1, t0, if_true, storePiece_idx, upd_idx]
      split <;> split <;> omega
    · simp only [t1, Bool.false_eq_true, if_false, upd_idx]
      split
      · rw [storePiece_idx, upd_idx]; split <;> omega
      · rw [upd_idx]; exact hm
  · rw [hat 31 (by omega), levelStep_eq, trig_31]
    simp only [Bool.false_eq_true, if_false, upd_idx]
    exact h.top

theorem ninv_feed (bs : List UInt8) : NInv (Naive.feed bs) bs := by
  suffices h : ∀ (bs pre : List UInt8) (n : Naive), NInv n pre → NInv (bs.foldl Naive.step n) (pre ++ bs) by
    simpa [Naive.feed] using h bs [] Naive.new ninv_new
  intro bs
  induction bs with
  | nil => intro pre n h; simpa using h
  | cons c cs ih =>
    intro pre n h
    have := ih (pre ++ [c]) (n.step c) (ninv_step n pre c h)
    simpa using this

end Ffuzzy.GenSim
