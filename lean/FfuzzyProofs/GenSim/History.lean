/-
  gen_sim, part 9: every history of generator calls.  The engine state reached by any sequence of
  `update` / `update_by_iter` / `update_by_byte` / `set_fixed_input_size` / `reset` calls simulates the
  reference engine fed with the bytes delivered since the last reset, so every finalisation returns the
  reference digest of those bytes — or the size-mismatch error when a declared size differs.
-/
import FfuzzyProofs.GenSim.Final
namespace Ffuzzy.GenSim
open Ffuzzy Ffuzzy.Spec

/-- generator calls that change the state (`finalize*`, `clone`, `input_size` and the warning query take `&self`) -/
inductive GOp where
  | update (bs : List UInt8)
  | iter (bs : List UInt8)
  | byte (c : UInt8)
  | hint (size : Nat)
  | reset
  deriving Repr

def GOp.apply (g : Gen) : GOp → Gen
  | .update bs => g.update bs
  | .iter bs => g.updateByIter bs
  | .byte c => g.updateByByte c
  | .hint s => match g.setFixedInputSize s with
    | .ok g' => g'
    | .error _ => g
  | .reset => g.reset

/-- what the caller knows: the bytes delivered since the last reset and the accepted size declaration -/
structure Abs where
  bytes : List UInt8
  hint : Option Nat

def Abs.apply (a : Abs) : GOp → Abs
  | .update bs => { a with bytes := a.bytes ++ bs }
  | .iter bs => { a with bytes := a.bytes ++ bs }
  | .byte c => { a with bytes := a.bytes ++ [c] }
  | .hint s =>
    if s > Gen.MAX_INPUT_SIZE then a
    else if a.hint.isSome && a.hint != some s then a
    else { a with hint := some s }
  | .reset => { bytes := [], hint := none }

/-- the specified result of a finalisation -/
def Abs.digest (a : Abs) (trunc : Bool) (s2 : Nat) : Except GenErr Digest :=
  if a.hint.isSome && a.hint != some (min a.bytes.length U64_MAX) then .error .fixedSizeMismatch
  else naiveDigest a.bytes trunc s2

/-- the history invariant -/
structure J (g : Gen) (a : Abs) : Prop where
  sim : Sim g (Naive.feed a.bytes)
  size : g.inputSize = min a.bytes.length U64_MAX
  hint : g.fixedSize = a.hint
  limN : a.hint = none → g.bhEndLimit = 30
  limS : ∀ s, a.hint = some s → g.bhEndLimit = min 30 (Gen.logBlockSizeFromInputSize s 0 + 1)
  hintLe : ∀ s, a.hint = some s → s ≤ Gen.MAX_INPUT_SIZE

theorem feed_append (a b : List UInt8) : Naive.feed (a ++ b) = b.foldl Naive.step (Naive.feed a) := by
  unfold Naive.feed; rw [List.foldl_append]

/-- accounting more processed bytes keeps the relation (the elimination facts only get weaker) -/
theorem sim_resize (g : Gen) (n : Naive) (s : Nat) (h : Sim g n) (hs : g.inputSize ≤ s) :
    Sim { g with inputSize := s } n := by
  refine { roll := h.roll, np := h.np, csize := h.csize, bsize := h.bsize, lim := h.lim, st_lt := h.st_lt,
           en_le := h.en_le, live := h.live, virgin := h.virgin, elim := ?_, mask := h.mask, border := h.border,
           last := h.last, top := h.top, trg := h.trg }
  intro k hk
  have := h.elim k hk
  refine ⟨?_, this.2⟩
  have hm : effM g ≤ effM { g with inputSize := s } := by
    unfold effM eff
    simp only
    cases g.fixedSize with
    | none => simp only [Option.getD_none]; omega
    | some x => simp only [Option.getD_some]; omega
  change k < g.bhStart at hk
  omega

/-- a run of byte steps -/
theorem fold_sim (bs : List UInt8) : ∀ (g : Gen) (n : Naive) (pre : List UInt8), Sim g n → NInv n pre →
    Sim (bs.foldl Gen.stepByte g) (bs.foldl Naive.step n) := by
  induction bs with
  | nil => intro g n pre h _; exact h
  | cons c cs ih =>
    intro g n pre h hN
    simp only [List.foldl_cons]
    exact ih _ _ (pre ++ [c]) (step_sim n pre c hN g h).1 (ninv_step n pre c hN)

theorem min_satAdd (l k : Nat) : Gen.satAdd (min l U64_MAX) k = min (l + k) U64_MAX := by
  unfold Gen.satAdd; omega

theorem J_update (g : Gen) (a : Abs) (bs : List UInt8) (h : J g a) : J (g.update bs) { a with bytes := a.bytes ++ bs } := by
  have hfr := Gen.update_inputSize g bs
  refine { sim := ?_, size := ?_, hint := by rw [hfr.2.1]; exact h.hint,
           limN := fun e => by rw [hfr.2.2]; exact h.limN e,
           limS := fun s e => by rw [hfr.2.2]; exact h.limS s e, hintLe := h.hintLe }
  · show Sim (g.update bs) (Naive.feed (a.bytes ++ bs))
    rw [feed_append]
    unfold Gen.update
    apply fold_sim bs _ _ a.bytes _ (ninv_feed a.bytes)
    apply sim_resize g _ _ h.sim
    unfold Gen.satAdd
    have := h.size
    unfold U64_MAX at *
    omega
  · show (g.update bs).inputSize = min (a.bytes ++ bs).length U64_MAX
    rw [hfr.1, h.size, min_satAdd, List.length_append]

theorem J_byte (g : Gen) (a : Abs) (c : UInt8) (h : J g a) : J (g.updateByByte c) { a with bytes := a.bytes ++ [c] } := by
  have e : g.updateByByte c = g.update [c] := rfl
  rw [e]; exact J_update g a [c] h

theorem J_iter (bs : List UInt8) : ∀ (g : Gen) (a : Abs), J g a → J (g.updateByIter bs) { a with bytes := a.bytes ++ bs } := by
  induction bs with
  | nil => intro g a h; simpa [Gen.updateByIter] using h
  | cons c cs ih =>
    intro g a h
    have e : g.updateByIter (c :: cs) = (g.updateByByte c).updateByIter cs := rfl
    rw [e]
    have := ih _ _ (J_byte g a c h)
    simpa using this

theorem J_hint (g : Gen) (a : Abs) (s : Nat) (h : J g a) : J (GOp.apply g (.hint s)) (a.apply (.hint s)) := by
  unfold GOp.apply Abs.apply Gen.setFixedInputSize
  by_cases h1 : s > Gen.MAX_INPUT_SIZE
  · simp only [h1, if_true]; exact h
  · simp only [h1, if_false]
    rw [h.hint]
    by_cases h2 : (a.hint.isSome && a.hint != some s) = true
    · simp only [h2, if_true]; exact h
    · simp only [h2, Bool.false_eq_true, if_false]
      have hlim' : min 30 (Gen.logBlockSizeFromInputSize s 0 + 1) ≤ g.bhEndLimit := by
        cases ha : a.hint with
        | none => rw [h.limN ha]; omega
        | some x =>
          have : x = s := by
            rw [ha] at h2; simp at h2; exact h2
          rw [h.limS x ha, this]; omega
      have S := h.sim
      refine { sim := ?_, size := h.size, hint := rfl, limN := fun e => by simp at e,
               limS := fun x e => by simp at e; rw [← e], hintLe := fun x e => by simp at e; omega }
      refine { roll := S.roll, np := S.np, csize := S.csize, bsize := S.bsize, lim := by show min 30 _ ≤ 30; omega,
               st_lt := S.st_lt, en_le := S.en_le, live := S.live,
               virgin := fun k h1 h2 => S.virgin k h1 (Nat.le_trans h2 hlim'),
               elim := ?_, mask := S.mask, border := S.border,
               last := ?_, top := fun hh => S.top (Nat.le_trans hh hlim'), trg := S.trg }
      · intro k hk
        have := S.elim k hk
        refine ⟨?_, this.2⟩
        have hm : effM g ≤ effM { g with fixedSize := some s, bhEndLimit := min 30 (Gen.logBlockSizeFromInputSize s 0 + 1) } := by
          unfold effM eff
          simp only [Option.getD_some]
          cases ha : g.fixedSize with
          | none => simp only [Option.getD_none]; omega
          | some x =>
            have : x = s := by
              rw [← h.hint, ha] at h2; simp at h2; exact h2
            simp only [Option.getD_some]; omega
        omega
      · intro h30
        change min 30 (Gen.logBlockSizeFromInputSize s 0 + 1) = 30 at h30
        exact S.last (by have := S.lim; omega)

theorem J_reset (g : Gen) (a : Abs) (h : J g a) : J g.reset { bytes := [], hint := none } := by
  have S := h.sim
  have hc0 : g.reset.ctxAt 0 = (g.ctxAt 0).reset := by
    unfold Gen.reset Gen.ctxAt
    simp only
    rw [getD_modify_same _ _ _ (by rw [S.csize]; omega)]
  have hck : ∀ k, k ≠ 0 → g.reset.ctxAt k = g.ctxAt k := by
    intro k hk
    unfold Gen.reset Gen.ctxAt
    simp only
    rw [getD_modify_ne _ _ _ _ (Ne.symm hk)]
  have hs0 := S.bsize 0
  refine { sim := ?_, size := rfl, hint := rfl, limN := fun _ => rfl, limS := fun s e => by simp at e,
           hintLe := fun s e => by simp at e }
  show Sim g.reset Naive.new
  refine { roll := rfl, np := S.np, csize := by simp [Gen.reset, S.csize], bsize := ?_, lim := by simp [Gen.reset],
           st_lt := by simp [Gen.reset], en_le := by simp [Gen.reset], live := ?_, virgin := ?_, elim := ?_,
           mask := by simp [Gen.reset], border := by simp [Gen.reset, Gen.SIZE_UNIT],
           last := ?_, top := ?_, trg := ?_ }
  · intro k
    by_cases hk : k = 0
    · rw [hk, hc0]; simp [Ctx.reset, hs0]
    · rw [hck k hk]; exact S.bsize k
  · intro k h1 h2
    have hk : k = 0 := by change k < 1 at h2; omega
    rw [hk, hc0, at_new]
    refine ⟨rfl, rfl, rfl, rfl, by simp [Ctx.reset, hs0], WF_new.size, ?_, fun j hj => absurd hj (Nat.not_lt_zero _)⟩
    show ((g.ctxAt 0).bh.setIfInBounds 63 NIL).getD 63 NIL = Ctx.new.bh.getD 63 NIL
    rw [getD_setIfInBounds_same _ _ _ _ (by rw [hs0]; omega)]
    exact (getD_replicate_self 64 63 NIL).symm
  · intro k _ _; rw [at_new]; rfl
  · intro k hk; change k < 0 at hk; omega
  · intro _; rw [at_new]; simp [Gen.reset]; rfl
  · intro _; rw [at_new]; rfl
  · intro k h1 h2; change k + 1 < 1 at h2; omega

theorem J_new : J Gen.new { bytes := [], hint := none } :=
  { sim := sim_new, size := rfl, hint := rfl, limN := fun _ => rfl, limS := fun s e => by simp at e,
    hintLe := fun s e => by simp at e }

theorem J_apply (g : Gen) (a : Abs) (op : GOp) (h : J g a) : J (GOp.apply g op) (a.apply op) := by
  cases op with
  | update bs => exact J_update g a bs h
  | iter bs => exact J_iter bs g a h
  | byte c => exact J_byte g a c h
  | hint s => exact J_hint g a s h
  | reset => exact J_reset g a h

theorem J_history (ops : List GOp) : ∀ (g : Gen) (a : Abs), J g a → J (ops.foldl GOp.apply g) (ops.foldl Abs.apply a) := by
  induction ops with
  | nil => intro g a h; exact h
  | cons op ops ih => intro g a h; exact ih _ _ (J_apply g a op h)

/-- finalisation in any reachable state -/
theorem J_final (g : Gen) (a : Abs) (h : J g a) (trunc : Bool) (s2 : Nat) (hs2 : s2 = 32 ∨ s2 = 64) :
    g.finalizeRaw trunc s2 = a.digest trunc s2 := by
  unfold Abs.digest
  by_cases hm : (a.hint.isSome && a.hint != some (min a.bytes.length U64_MAX)) = true
  · rw [if_pos hm]
    unfold Gen.finalizeRaw
    rw [h.hint, h.size, if_pos hm]
  · rw [if_neg hm]
    have hN := ninv_feed a.bytes
    apply final_sim g (Naive.feed a.bytes) a.bytes h.sim hN
    · rw [h.hint, h.size]
      cases ha : a.hint with
      | none => exact Or.inl rfl
      | some x =>
        right
        rw [ha] at hm; simp at hm; rw [hm]
    · rw [hN.size]
      cases ha : a.hint with
      | none => exact Or.inl (h.limN ha)
      | some x =>
        rw [ha] at hm; simp at hm
        have hx := h.hintLe x ha
        have hl := h.limS x ha
        have : x = a.bytes.length := by
          unfold Gen.MAX_INPUT_SIZE U64_MAX at *; omega
        rw [← this, hl]; omega
    · rw [h.size, hN.size]
    · exact hs2

end Ffuzzy.GenSim
