/-
  Frame lemmas about the generator model: what a per-byte step can and cannot change,
  size accounting of the three update forms (C03, C12, C13).
-/
import FfuzzyModel.Generator
namespace Ffuzzy.Gen
open Ffuzzy

/-- the fields a byte step never touches -/
structure SameFrame (a b : Gen) : Prop where
  inputSize : b.inputSize = a.inputSize
  fixedSize : b.fixedSize = a.fixedSize
  bhEndLimit : b.bhEndLimit = a.bhEndLimit

theorem SameFrame.refl (a : Gen) : SameFrame a a := ⟨rfl, rfl, rfl⟩
theorem SameFrame.trans {a b c : Gen} (h1 : SameFrame a b) (h2 : SameFrame b c) : SameFrame a c :=
  ⟨h2.1.trans h1.1, h2.2.trans h1.2, h2.3.trans h1.3⟩

@[simp] theorem forkStep_inputSize (g : Gen) (i : Nat) : (g.forkStep i).inputSize = g.inputSize := by
  unfold forkStep; simp only; repeat' split
  all_goals rfl
@[simp] theorem forkStep_fixedSize (g : Gen) (i : Nat) : (g.forkStep i).fixedSize = g.fixedSize := by
  unfold forkStep; simp only; repeat' split
  all_goals rfl
@[simp] theorem forkStep_bhEndLimit (g : Gen) (i : Nat) : (g.forkStep i).bhEndLimit = g.bhEndLimit := by
  unfold forkStep; simp only; repeat' split
  all_goals rfl
@[simp] theorem elimStep_inputSize (g : Gen) (i : Nat) (w : Bool) : (g.elimStep i w).inputSize = g.inputSize := by
  unfold elimStep; repeat' split
  all_goals rfl
@[simp] theorem elimStep_fixedSize (g : Gen) (i : Nat) (w : Bool) : (g.elimStep i w).fixedSize = g.fixedSize := by
  unfold elimStep; repeat' split
  all_goals rfl
@[simp] theorem elimStep_bhEndLimit (g : Gen) (i : Nat) (w : Bool) : (g.elimStep i w).bhEndLimit = g.bhEndLimit := by
  unfold elimStep; repeat' split
  all_goals rfl

theorem bhLoop2_frame (g : Gen) (i h : Nat) : SameFrame g (bhLoop2 g i h) := by
  suffices hs : (bhLoop2 g i h).inputSize = g.inputSize ∧ (bhLoop2 g i h).fixedSize = g.fixedSize ∧
      (bhLoop2 g i h).bhEndLimit = g.bhEndLimit from ⟨hs.1, hs.2.1, hs.2.2⟩
  fun_induction bhLoop2 g i h
  all_goals simp_all +zetaDelta

theorem stepByte_frame (g : Gen) (ch : UInt8) : SameFrame g (g.stepByte ch) := by
  suffices hs : (g.stepByte ch).inputSize = g.inputSize ∧ (g.stepByte ch).fixedSize = g.fixedSize ∧
      (g.stepByte ch).bhEndLimit = g.bhEndLimit from ⟨hs.1, hs.2.1, hs.2.2⟩
  unfold stepByte
  simp only
  repeat' split
  all_goals first
    | exact ⟨rfl, rfl, rfl⟩
    | (refine ⟨(bhLoop2_frame _ _ _).1, (bhLoop2_frame _ _ _).2, (bhLoop2_frame _ _ _).3⟩)

theorem foldl_stepByte_frame (bs : List UInt8) : ∀ g : Gen, SameFrame g (bs.foldl stepByte g) := by
  induction bs with
  | nil => intro g; exact SameFrame.refl g
  | cons c cs ih => intro g; exact (stepByte_frame g c).trans (ih _)

/-- size accounting of `update` (up front, saturating) -/
theorem update_inputSize (g : Gen) (bs : List UInt8) :
    (g.update bs).inputSize = satAdd g.inputSize bs.length ∧ (g.update bs).fixedSize = g.fixedSize ∧
      (g.update bs).bhEndLimit = g.bhEndLimit := by
  unfold update
  have := foldl_stepByte_frame bs { g with inputSize := satAdd g.inputSize bs.length }
  exact ⟨this.1, this.2, this.3⟩

theorem satAdd_assoc (a b c : Nat) : satAdd (satAdd a b) c = satAdd a (b + c) := by
  unfold satAdd; omega

theorem satAdd_le (a b : Nat) : satAdd a b ≤ U64_MAX := by unfold satAdd; omega

/-- size accounting of `update_by_iter` / `update_by_byte` (per byte, saturating) gives the same total
    as the up-front accounting of `update` -/
theorem updateByIter_inputSize (bs : List UInt8) : ∀ g : Gen, g.inputSize ≤ U64_MAX →
    (g.updateByIter bs).inputSize = satAdd g.inputSize bs.length ∧ (g.updateByIter bs).fixedSize = g.fixedSize ∧
      (g.updateByIter bs).bhEndLimit = g.bhEndLimit := by
  induction bs with
  | nil => intro g hg; simp [updateByIter, satAdd]; omega
  | cons c cs ih =>
    intro g hg
    simp only [updateByIter, List.foldl_cons] at ih ⊢
    have f := stepByte_frame { g with inputSize := satAdd g.inputSize 1 } c
    have := ih (stepByte { g with inputSize := satAdd g.inputSize 1 } c) (by rw [f.1]; exact satAdd_le _ _)
    rw [f.1, f.2, f.3] at this
    refine ⟨?_, this.2.1, this.2.2⟩
    rw [this.1]
    simp only [List.length_cons, satAdd_assoc]
    congr 1; omega

/-- the same for a sequence of single-byte updates -/
theorem updateByByte_fold_inputSize (bs : List UInt8) (g : Gen) (hg : g.inputSize ≤ U64_MAX) :
    (bs.foldl updateByByte g).inputSize = satAdd g.inputSize bs.length := by
  have e : g.updateByIter bs = bs.foldl updateByByte g := rfl
  rw [← e]; exact (updateByIter_inputSize bs g hg).1

end Ffuzzy.Gen
