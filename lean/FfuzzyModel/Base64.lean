/-
  Model of ffuzzy/src/internals/base64.rs
-/
import FfuzzyModel.Basic
namespace Ffuzzy

/-- rs: base64.rs `BASE64_TABLE_U8` -/
def b64Alphabet : List UInt8 :=
  [65,66,67,68,69,70,71,72,73,74,75,76,77,78,79,80,81,82,83,84,85,86,87,88,89,90,
   97,98,99,100,101,102,103,104,105,106,107,108,109,110,111,112,113,114,115,116,117,118,119,120,121,122,
   48,49,50,51,52,53,54,55,56,57,43,47]

/-- rs: `BASE64_TABLE_U8[idx]` -/
def b64Char (i : UInt8) : UInt8 := b64Alphabet.getD i.toNat 0

/-- rs: base64.rs `BASE64_INVALID` -/
def b64Invalid : UInt8 := 0x40

/-- rs: base64.rs `base64_index` (table `BASE64_REV_TABLE_U8`; same content as `base64_index_simple`);
    the 256-entry table observed from the compiled crate is proved equal in `FfuzzyProofs/Tables.lean` -/
def b64Index (c : UInt8) : UInt8 :=
  if 65 ≤ c && c ≤ 90 then c - 65
  else if 97 ≤ c && c ≤ 122 then c - 71
  else if 48 ≤ c && c ≤ 57 then c + 4
  else if c == 43 then 62
  else if c == 47 then 63
  else b64Invalid

end Ffuzzy
