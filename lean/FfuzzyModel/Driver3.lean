/-
  Line-protocol driver, part 3: generator histories, stream / file hashing, and the object-store
  interpreter used for C11 / C15.
-/
import FfuzzyModel.Driver2
import FfuzzyModel.Spec.Naive
namespace Ffuzzy.Driver
open Ffuzzy

/-! ### gen (C01, C03, C12, C13) -/

/-- all four finalisation instances -/
def finAll (g : Gen) : String :=
  if g.panicked then "f=PANIC" else
  s!"f={digestStr g.finalize}|{digestStr g.finalizeWithoutTruncation}|{digestStr (g.finalizeRaw false 32)}|{digestStr (g.finalizeRaw true 64)} n={g.inputSize} w={b2s g.mayWarn}"

/-- specification-side state of a history: payload since the last reset and the declared size -/
structure SpecGen where
  payload : Array UInt8 := #[]
  fixed : Option Nat := none
  /-- `false` once the history used something the executable spec does not cover (huge zero prefix) -/
  ok : Bool := true

def specFin (s : SpecGen) : String :=
  let n := s.payload.size
  let all (f : Bool → Nat → String) : String :=
    s!"f={f true 32}|{f false 64}|{f false 32}|{f true 64} n={n} w={b2s (s.fixed.getD n < 4097)}"
  if s.fixed.isSome && s.fixed != some n then all fun _ _ => "ERR(FixedSizeMismatch)"
  else
    let a := Spec.analyze s.payload.toList
    -- two specifications: the declarative digest and the reference (naive 32-level) engine
    let nv := Spec.Naive.feed s.payload.toList
    all fun tr s2 =>
      let d1 := digestStr (Spec.digestOf a tr s2)
      let d2 := digestStr (nv.digest tr s2)
      if d1 == d2 then d1 else s!"SPECS-DISAGREE({d1},{d2})"

def specLimit : Nat := 70000

/-- payload token `<form>:<hex>` or `p<form>:<hexpattern>:<count>` -/
def payloadOf (tok : List String) : Option (List UInt8) :=
  match tok with
  | [_, h] => bytesOfHex h
  | [_, h, c] =>
    match bytesOfHex h, c.toNat? with
    | some pat, some n => some ((List.replicate n pat).flatten)
    | _, _ => none
  | _ => none

/-- apply a payload token `<form>:<hex>` / `p<form>:<pattern>:<count>` -/
def applyPayload (g : Gen) (sp : SpecGen) (out sout : List String) (parts : List String) :
    Gen × SpecGen × List String × List String :=
  let head := parts.headD ""
  let form := if parts.length == 3 then head.drop 1 else head
  if !(["u", "a", "i", "b", "A"].contains form.toString) then (g, sp, "bad-op" :: out, sout) else
  match payloadOf parts with
  | none => (g, sp, "bad-op" :: out, sout)
  | some bs =>
    let g' :=
      if form == "u" || form == "a" then g.update bs
      else if form == "i" then g.updateByIter bs
      else bs.foldl Gen.updateByByte g   -- "b" (update_by_byte) and "A" (+= u8)
    let sp' := if sp.payload.size + bs.length ≤ specLimit
               then { sp with payload := sp.payload.append bs.toArray } else { sp with ok := false }
    (g', sp', out, sout)

def runGen (toks : List String) : String × String :=
  let step (acc : Gen × SpecGen × List String × List String) (tok : String) :
      Gen × SpecGen × List String × List String :=
    let (g, sp, out, sout) := acc
    let parts := tok.splitOn ":"
    match parts with
    | ["r"] => (g.reset, { payload := #[], fixed := none, ok := true }, out, sout)
    | ["c"] => (g, sp, out, sout)
    | ["f"] => (g, sp, finAll g :: out, (if sp.ok then specFin sp else "* * *") :: sout)
    | ["z", n] =>
      match n.toNat? with
      | some n =>
        (Gen.withPrefixZeroes n,
         if n ≤ specLimit then { payload := Array.replicate n 0, fixed := none, ok := true }
         else { sp with ok := false }, out, sout)
      | none => (g, sp, "bad-op" :: out, sout)
    | [s, n] =>
      if s == "s" || s == "S" then
        match n.toNat? with
        | some n =>
          let so :=
            if n > Gen.MAX_INPUT_SIZE then "s=ERR(FixedSizeTooLarge)"
            else if sp.fixed.isSome && sp.fixed != some n then "s=ERR(FixedSizeMismatch)"
            else "s=OK"
          let sp' := if so == "s=OK" then { sp with fixed := some n } else sp
          match g.setFixedInputSize n with
          | .ok g' => (g', sp', "s=OK" :: out, so :: sout)
          | .error e => (g, sp', s!"s=ERR({genErrStr e})" :: out, so :: sout)
        | none => (g, sp, "bad-op" :: out, sout)
      else
        applyPayload g sp out sout parts
    | [_, _, _] => applyPayload g sp out sout parts
    | _ => (g, sp, "bad-op" :: out, sout)
  let (_, _, out, sout) := toks.foldl step (Gen.new, {}, [], [])
  (" ".intercalate out.reverse, " ".intercalate sout.reverse)

def runHb (args : List String) : String × String :=
  match args with
  | [h] =>
    match bytesOfHex h with
    | some bs => (digestStr (Gen.hashBuf bs), if bs.length ≤ specLimit then digestStr (Spec.digest bs true 32) else "*")
    | none => ("bad-op", "-")
  | _ => ("bad-op", "-")

/-! ### stream / file (C18) -/

def streamStr : Except StreamErr Digest → String
  | .ok d => "OK " ++ symText d.log d.bh1 d.bh2
  | .error (.io k) => s!"IOERR {k}"
  | .error (.gen e) => s!"GENERR {genErrStr e}"

def failOf (s : String) : Option (Nat × Nat) :=
  match s.splitOn ":" with
  | [i, k] => match i.toNat?, k.toNat? with | some i, some k => some (i, k) | _, _ => none
  | _ => none

/-- specification of the read loop: chunk lengths actually delivered, and the number of `read`
    calls made (including the final one that returns 0) -/
def specReads (n : Nat) (sizes : List Nat) (fuel : Nat) : List Nat :=
  match fuel with
  | 0 => []
  | fuel + 1 =>
    let want := match sizes with | [] => 32768 | s :: _ => min s 32768
    let len := min want n
    if len = 0 then [0] else len :: specReads (n - len) (sizes.drop 1) fuel

def specStream (fixed : Option Nat) (data : List UInt8) (sizes : List Nat) (fail : Option (Nat × Nat)) : String :=
  let reads := specReads data.length sizes (data.length + sizes.length + 2)
  match fail with
  | some (i, k) => if i < reads.length then s!"IOERR {k}" else specStream fixed data sizes none
  | none =>
    let delivered := data.take (reads.foldl (· + ·) 0)
    match fixed with
    | some m =>
      if m ≠ delivered.length then "GENERR FixedSizeMismatch"
      else "OK " ++ (digestStr (Spec.digest delivered true 32))
    | none => "OK " ++ (digestStr (Spec.digest delivered true 32))
termination_by (if fail.isSome then 1 else 0)
decreasing_by simp_all

def runStream (args : List String) : String × String :=
  match args with
  | [d, sz, fl] =>
    match bytesOfHex d with
    | some data =>
      let sizes := natsOf sz
      let fail := failOf fl
      (streamStr (hashStream data sizes fail),
       if data.length ≤ specLimit then specStream none data sizes fail else "*")
    | none => ("bad-op", "-")
  | _ => ("bad-op", "-")

def runFile (args : List String) : String × String :=
  match args with
  | ["missing"] => ("IOERR", "IOERR")
  | ["dir"] => ("IOERR", "IOERR")
  | [m, d] =>
    match m.toNat?, bytesOfHex d with
    | some m, some data =>
      (match hashFile m data [] none with
        | .ok dg => "OK " ++ symText dg.log dg.bh1 dg.bh2
        | .error (.io _) => "IOERR"
        | .error (.gen e) => s!"GENERR {genErrStr e}",
       if m > Gen.MAX_INPUT_SIZE then "GENERR FixedSizeTooLarge"
       else if data.length ≤ specLimit then specStream (some m) data [] none else "*")
    | _, _ => ("bad-op", "-")
  | _ => ("bad-op", "-")

/-! ### ops: object store interpreter (C11, C15) -/

structure Store where
  r : FH := FH.new 32
  lr : FH := FH.new 64
  n : FH := FH.new 32
  ln : FH := FH.new 64
  d : DH := DH.new 32
  ld : DH := DH.new 64
  t : Target := Target.new
  p : PA := PA.new

def fhSt (name : String) (s2 : Nat) (norm : Bool) (h : FH) : String :=
  s!"{name}={fhText h}|{b2s (FH.isValid s2 norm h)}"

def dhSt (name : String) (s2 : Nat) (d : DH) : String :=
  s!"{name}={fhText d.norm}|{fhText (DH.toRawForm s2 d)}|{b2s (DH.isValid s2 d)}|{hx d.rle1}|{hx d.rle2}"

def tSt (t : Target) : String := s!"T={t.log.toNat}|{t.len1.toNat}|{t.len2.toNat}|{b2s t.isValid}"
def pSt (p : PA) : String := s!"P={p.len.toNat}|{b2s p.isValid}|{b2s p.isValidAndNormalized}"

/-- one store operation; returns the new store and the printed token -/
def storeOp (cfg : Cfg) (st : Store) (tok : String) : Store × String :=
  let parts := tok.splitOn ":"
  let getFH (t : String) : Option (FH × Nat × Bool) :=
    match t with
    | "R" => some (st.r, 32, false) | "LR" => some (st.lr, 64, false)
    | "N" => some (st.n, 32, true) | "LN" => some (st.ln, 64, true) | _ => none
  let setFH (t : String) (h : FH) : Store :=
    match t with
    | "R" => { st with r := h } | "LR" => { st with lr := h }
    | "N" => { st with n := h } | "LN" => { st with ln := h } | _ => st
  let showFH (t : String) (h : FH) : String :=
    match t with
    | "R" => fhSt "R" 32 false h | "LR" => fhSt "LR" 64 false h
    | "N" => fhSt "N" 32 true h | "LN" => fhSt "LN" 64 true h | _ => "bad-op"
  match parts with
  | ["gen", t, h] =>
    match bytesOfHex h with
    | none => (st, "bad-op")
    | some bs =>
      let g := Gen.new.update bs
      if t == "R" then
        match g.finalize with
        | .ok d => let h := d.toFH 32; ({ st with r := h }, fhSt "R" 32 false h)
        | .error _ => (st, "ERR")
      else
        match g.finalizeWithoutTruncation with
        | .ok d => let h := d.toFH 64; ({ st with lr := h }, fhSt "LR" 64 false h)
        | .error _ => (st, "ERR")
  | ["parse", t, h] =>
    match bytesOfHex h, tyOf t with
    | some bs, some ty =>
      if ty.dual then
        match DH.parse cfg ty.s2 bs with
        | none => (st, "PANIC")
        | some (.error _) => (st, "ERR")
        | some (.ok (d, _)) =>
          if ty.s2 = 32 then ({ st with d := d }, dhSt "D" 32 d) else ({ st with ld := d }, dhSt "LD" 64 d)
      else
        match FH.parse cfg ty.s2 ty.norm bs with
        | .error _ => (st, "ERR")
        | .ok (h, _) => (setFH t h, showFH t h)
    | _, _ => (st, "bad-op")
  | ["new", t, k, b1, b2] =>
    match tyOf t, k.toNat?, bytesOfHex b1, bytesOfHex b2 with
    | some ty, some k, some b1, some b2 =>
      if ty.dual then
        match DH.newFromInternalsNearRaw ty.s2 k.toUInt8 b1 b2 with
        | none => (st, "PANIC")
        | some d => if ty.s2 = 32 then ({ st with d := d }, dhSt "D" 32 d) else ({ st with ld := d }, dhSt "LD" 64 d)
      else
        match FH.newFromInternalsNearRaw ty.s2 ty.norm k.toUInt8 b1 b2 with
        | none => (st, "PANIC")
        | some h => (setFH t h, showFH t h)
    | _, _, _, _ => (st, "bad-op")
  | ["newbs", t, bsz, b1, b2] =>
    match tyOf t, bsz.toNat?, bytesOfHex b1, bytesOfHex b2 with
    | some ty, some bsz, some b1, some b2 =>
      if ty.dual then
        match DH.newFromInternals ty.s2 bsz.toUInt32 b1 b2 with
        | none => (st, "PANIC")
        | some d => if ty.s2 = 32 then ({ st with d := d }, dhSt "D" 32 d) else ({ st with ld := d }, dhSt "LD" 64 d)
      else
        match FH.newFromInternals ty.s2 ty.norm bsz.toUInt32 b1 b2 with
        | none => (st, "PANIC")
        | some h => (setFH t h, showFH t h)
    | _, _, _, _ => (st, "bad-op")
  | ["init", t, k, a1, a2, l1, l2] =>
    match getFH t, k.toNat?, bytesOfHex a1, bytesOfHex a2, l1.toNat?, l2.toNat? with
    | some (self, s2, norm), some k, some a1, some a2, some l1, some l2 =>
      if a1.length != 64 || a2.length != s2 then (st, "bad-op") else
      match FH.initFromInternalsRaw s2 norm self k.toUInt8 a1 a2 l1.toUInt8 l2.toUInt8 with
      | none => (st, "PANIC")
      | some h => (setFH t h, showFH t h)
    | _, _, _, _, _, _ => (st, "bad-op")
  | ["norm", t] =>
    match getFH t with
    | some (h, _, norm) => let h' := FH.normalizeInPlace norm h; (setFH t h', showFH t h')
    | none =>
      if t == "D" then let d := DH.normalizeInPlace 32 st.d; ({ st with d := d }, dhSt "D" 32 d)
      else if t == "LD" then let d := DH.normalizeInPlace 64 st.ld; ({ st with ld := d }, dhSt "LD" 64 d)
      else (st, "bad-op")
  | ["cv", name] =>
    match name with
    | "R>N" => let h := FH.normalize false st.r; ({ st with n := h }, fhSt "N" 32 true h)
    | "LR>LN" => let h := FH.normalize false st.lr; ({ st with ln := h }, fhSt "LN" 64 true h)
    | "N>R" => let h := FH.toRawForm st.n; ({ st with r := h }, fhSt "R" 32 false h)
    | "N>R!" => let h := FH.intoMutRawForm st.n st.r; ({ st with r := h }, fhSt "R" 32 false h)
    | "LN>LR" => let h := FH.toRawForm st.ln; ({ st with lr := h }, fhSt "LR" 64 false h)
    | "LN>LR!" => let h := FH.intoMutRawForm st.ln st.lr; ({ st with lr := h }, fhSt "LR" 64 false h)
    | "R>LR" => let h := FH.toLongForm st.r; ({ st with lr := h }, fhSt "LR" 64 false h)
    | "R>LR!" => let h := FH.intoMutLongForm st.r st.lr; ({ st with lr := h }, fhSt "LR" 64 false h)
    | "N>LN" => let h := FH.toLongForm st.n; ({ st with ln := h }, fhSt "LN" 64 true h)
    | "N>LN!" => let h := FH.intoMutLongForm st.n st.ln; ({ st with ln := h }, fhSt "LN" 64 true h)
    | "N>LR" => let h := FH.shortNormToLongRaw st.n; ({ st with lr := h }, fhSt "LR" 64 false h)
    | "LR>R?" =>
      match FH.tryFromLong st.lr with
      | some h => ({ st with r := h }, fhSt "R" 32 false h) | none => (st, "ERR " ++ fhSt "R" 32 false st.r)
    | "LR>R?!" =>
      match FH.tryIntoMutShort st.lr st.r with
      | some h => ({ st with r := h }, fhSt "R" 32 false h) | none => (st, "ERR " ++ fhSt "R" 32 false st.r)
    | "LN>N?" =>
      match FH.tryFromLong st.ln with
      | some h => ({ st with n := h }, fhSt "N" 32 true h) | none => (st, "ERR " ++ fhSt "N" 32 true st.n)
    | "LN>N?!" =>
      match FH.tryIntoMutShort st.ln st.n with
      | some h => ({ st with n := h }, fhSt "N" 32 true h) | none => (st, "ERR " ++ fhSt "N" 32 true st.n)
    | "R>D" =>
      match DH.fromRawForm 32 st.r with
      | some d => ({ st with d := d }, dhSt "D" 32 d) | none => (st, "PANIC")
    | "R>D!" =>
      match DH.initFromRawForm st.d st.r with
      | some d => ({ st with d := d }, dhSt "D" 32 d) | none => (st, "PANIC")
    | "LR>LD" =>
      match DH.fromRawForm 64 st.lr with
      | some d => ({ st with ld := d }, dhSt "LD" 64 d) | none => (st, "PANIC")
    | "LR>LD!" =>
      match DH.initFromRawForm st.ld st.lr with
      | some d => ({ st with ld := d }, dhSt "LD" 64 d) | none => (st, "PANIC")
    | "N>D" => let d := DH.fromNormalized 32 st.n; ({ st with d := d }, dhSt "D" 32 d)
    | "LN>LD" => let d := DH.fromNormalized 64 st.ln; ({ st with ld := d }, dhSt "LD" 64 d)
    | "D>R" => let h := DH.toRawForm 32 st.d; ({ st with r := h }, fhSt "R" 32 false h)
    | "D>R!" => let h := DH.intoMutRawForm st.d st.r; ({ st with r := h }, fhSt "R" 32 false h)
    | "LD>LR" => let h := DH.toRawForm 64 st.ld; ({ st with lr := h }, fhSt "LR" 64 false h)
    | "LD>LR!" => let h := DH.intoMutRawForm st.ld st.lr; ({ st with lr := h }, fhSt "LR" 64 false h)
    | "D>N" => let h := st.d.norm; ({ st with n := h }, fhSt "N" 32 true h)
    | "LD>LN" => let h := st.ld.norm; ({ st with ln := h }, fhSt "LN" 64 true h)
    | _ => (st, "bad-op")
  | ["tgt", t] =>
    match t with
    | "N" => let x := st.t.initFrom st.n; ({ st with t := x }, tSt x)
    | "LN" => let x := st.t.initFrom st.ln; ({ st with t := x }, tSt x)
    | "D" => let x := st.t.initFrom st.d.norm; ({ st with t := x }, tSt x)
    | "LD" => let x := st.t.initFrom st.ld.norm; ({ st with t := x }, tSt x)
    | _ => (st, "bad-op")
  | ["tgtnew", t] =>
    match t with
    | "N" => let x := Target.fromHash st.n; ({ st with t := x }, tSt x)
    | "LN" => let x := Target.fromHash st.ln; ({ st with t := x }, tSt x)
    | "D" => let x := Target.fromHash st.d.norm; ({ st with t := x }, tSt x)
    | "LD" => let x := Target.fromHash st.ld.norm; ({ st with t := x }, tSt x)
    | _ => (st, "bad-op")
  | ["pa", h] =>
    match bytesOfHex h with
    | none => (st, "bad-op")
    | some bs =>
      match st.p.initFrom bs with
      | none => (st, "PANIC")
      | some p => ({ st with p := p }, pSt p)
  | ["pac"] => let p := st.p.clear; ({ st with p := p }, pSt p)
  | _ => (st, "bad-op")

def runOps (cfg : Cfg) (toks : List String) : String × String :=
  let (_, out) := toks.foldl (fun (acc : Store × List String) tok =>
    let (st, o) := storeOp cfg acc.1 tok
    (st, acc.2 ++ [o])) ({}, [])
  (" ".intercalate out, "-")

/-! ### dispatcher -/

def runLine (cfg : Cfg) (line : String) : String × String :=
  match (line.trimAscii.toString.splitOn " ").filter (· != "") with
  | "prim" :: args => runPrim args
  | "bs" :: args => runBs args
  | "parse" :: args => runParse cfg args
  | "fmt" :: args => runFmt cfg args
  | "fmt2" :: args => runFmt2 cfg args
  | "norm" :: args => runNorm cfg args
  | "normx" :: args => runNormX cfg args
  | "dual" :: args => runDual cfg args
  | "dual2" :: args => runDual2 args
  | "ord" :: args => runOrd args
  | "pa" :: args => runPa args
  | "pah" :: args => runPaHist args
  | "tgt" :: args => runTgt args
  | "cmp" :: args => runCmp args
  | "cmps" :: args => runCmpS cfg args
  | "win" :: args => runWin args
  | "gen" :: toks => runGen toks
  | "hb" :: args => runHb args
  | "stream" :: args => runStream args
  | "file" :: args => runFile args
  | "ops" :: toks => runOps cfg toks
  | _ => ("bad-op", "-")

end Ffuzzy.Driver
