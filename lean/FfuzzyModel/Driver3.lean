/-
  Line-protocol driver, part 3: generator histories, stream / file hashing, and the object-store
  interpreter used for C11 / C15.
-/
import FfuzzyModel.Driver2
import FfuzzyModel.Ops
import FfuzzyModel.Spec.Naive
namespace Ffuzzy.Driver
open Ffuzzy

/-! ### gen (C01, C03, C12, C13) -/

/-- all four finalisation instances -/
def finAll (g : Gen) : String :=
  if g.panicked then "f=PANIC" else
  s!"f={digestStr g.finalize}|{digestStr g.finalizeWithoutTruncation}|{digestStr (g.finalizeRaw false 32)}|{digestStr (g.finalizeRaw true 64)} n={g.inputSize} w={b2s g.mayWarn}"

/-- specification-side state of a history: payload since the last reset and the declared size -/
structure SpecGen where
  payload : Array UInt8 := #[]
  fixed : Option Nat := none
  /-- `false` once the history used something the executable spec does not cover (huge zero prefix) -/
  ok : Bool := true

def specFin (s : SpecGen) : String :=
  let n := s.payload.size
  let all (f : Bool → Nat → String) : String :=
    s!"f={f true 32}|{f false 64}|{f false 32}|{f true 64} n={n} w={b2s (s.fixed.getD n < 4097)}"
  if s.fixed.isSome && s.fixed != some n then all fun _ _ => "ERR(FixedSizeMismatch)"
  else
    let a := Spec.analyze s.payload.toList
    -- two specifications: the declarative digest and the reference (naive 32-level) engine
    let nv := Spec.Naive.feed s.payload.toList
    all fun tr s2 =>
      let d1 := digestStr (Spec.digestOf a tr s2)
      let d2 := digestStr (nv.digest tr s2)
      if d1 == d2 then d1 else s!"SPECS-DISAGREE({d1},{d2})"

def specLimit : Nat := 70000

/-- payload token `<form>:<hex>` or `p<form>:<hexpattern>:<count>` -/
def payloadOf (tok : List String) : Option (List UInt8) :=
  match tok with
  | [_, h] => bytesOfHex h
  | [_, h, c] =>
    match bytesOfHex h, c.toNat? with
    | some pat, some n => some ((List.replicate n pat).flatten)
    | _, _ => none
  | _ => none

/-- apply a payload token `<form>:<hex>` / `p<form>:<pattern>:<count>` -/
def applyPayload (g : Gen) (sp : SpecGen) (out sout : List String) (parts : List String) :
    Gen × SpecGen × List String × List String :=
  let head := parts.headD ""
  let form := if parts.length == 3 then head.drop 1 else head
  if !(["u", "a", "i", "b", "A", "j", "k", "K", "n"].contains form.toString) then (g, sp, "bad-op" :: out, sout) else
  match payloadOf parts with
  | none => (g, sp, "bad-op" :: out, sout)
  | some bs =>
    let g' :=
      if form == "u" || form == "a" || form == "n" then g.update bs
      else if form == "i" || form == "j" || form == "k" || form == "K" then g.updateByIter bs  -- any size hint
      else bs.foldl Gen.updateByByte g   -- "b" (update_by_byte) and "A" (+= u8)
    let sp' := if sp.payload.size + bs.length ≤ specLimit
               then { sp with payload := sp.payload.append bs.toArray } else { sp with ok := false }
    (g', sp', out, sout)

/-- one token of a generator history; `p` parks a copy of the generator (`clone`), `q` overwrites the
    generator with the parked copy (`clone_from` into a used object) -/
def runGenStep (acc : Gen × SpecGen × List String × List String × Gen × SpecGen) (tok : String) :
    Gen × SpecGen × List String × List String × Gen × SpecGen :=
  let (g, sp, out, sout, pg, psp) := acc
  let parts := tok.splitOn ":"
  let lift (r : Gen × SpecGen × List String × List String) :
      Gen × SpecGen × List String × List String × Gen × SpecGen :=
    (r.1, r.2.1, r.2.2.1, r.2.2.2, pg, psp)
  match parts with
  | ["r"] => (g.reset, { payload := #[], fixed := none, ok := true }, out, sout, pg, psp)
  | ["c"] => (g, sp, out, sout, pg, psp)
  | ["p"] => (g, sp, out, sout, g, sp)
  | ["q"] => (pg, psp, out, sout, pg, psp)
  | ["f"] => (g, sp, finAll g :: out, (if sp.ok then specFin sp else "* * *") :: sout, pg, psp)
  | ["z", n] =>
    match n.toNat? with
    | some n =>
      (Gen.withPrefixZeroes n,
       if n ≤ specLimit then { payload := Array.replicate n 0, fixed := none, ok := true }
       else { sp with ok := false }, out, sout, pg, psp)
    | none => (g, sp, "bad-op" :: out, sout, pg, psp)
  | [s, n] =>
    if s == "s" || s == "S" then
      match n.toNat? with
      | some n =>
        let so :=
          if n > Gen.MAX_INPUT_SIZE then "s=ERR(FixedSizeTooLarge)"
          else if sp.fixed.isSome && sp.fixed != some n then "s=ERR(FixedSizeMismatch)"
          else "s=OK"
        let sp' := if so == "s=OK" then { sp with fixed := some n } else sp
        match g.setFixedInputSize n with
        | .ok g' => (g', sp', "s=OK" :: out, so :: sout, pg, psp)
        | .error e => (g, sp', s!"s=ERR({genErrStr e})" :: out, so :: sout, pg, psp)
      | none => (g, sp, "bad-op" :: out, sout, pg, psp)
    else
      lift (applyPayload g sp out sout parts)
  | [_, _, _] => lift (applyPayload g sp out sout parts)
  | _ => (g, sp, "bad-op" :: out, sout, pg, psp)

def runGen (toks : List String) : String × String :=
  let (_, _, out, sout, _, _) := toks.foldl runGenStep (Gen.new, {}, [], [], Gen.new, {})
  (" ".intercalate out.reverse, " ".intercalate sout.reverse)

def runHb (args : List String) : String × String :=
  match args with
  | [h] =>
    match bytesOfHex h with
    | some bs => (digestStr (Gen.hashBuf bs), if bs.length ≤ specLimit then digestStr (Spec.digest bs true 32) else "*")
    | none => ("bad-op", "-")
  | _ => ("bad-op", "-")

/-! ### stream / file (C18) -/

def streamStr : Except StreamErr Digest → String
  | .ok d => "OK " ++ symText d.log d.bh1 d.bh2
  | .error (.io k) => s!"IOERR {k}"
  | .error (.gen e) => s!"GENERR {genErrStr e}"

def failOf (s : String) : Option (Nat × Nat) :=
  match s.splitOn ":" with
  | [i, k] => match i.toNat?, k.toNat? with | some i, some k => some (i, k) | _, _ => none
  | _ => none

/-- specification of the read loop: chunk lengths actually delivered, and the number of `read`
    calls made (including the final one that returns 0) -/
def specReads (n : Nat) (sizes : List Nat) (fuel : Nat) : List Nat :=
  match fuel with
  | 0 => []
  | fuel + 1 =>
    let want := match sizes with | [] => 32768 | s :: _ => min s 32768
    let len := min want n
    if len = 0 then [0] else len :: specReads (n - len) (sizes.drop 1) fuel

def specStream (fixed : Option Nat) (data : List UInt8) (sizes : List Nat) (fail : Option (Nat × Nat)) : String :=
  let reads := specReads data.length sizes (data.length + sizes.length + 2)
  match fail with
  | some (i, k) => if i < reads.length then s!"IOERR {k}" else specStream fixed data sizes none
  | none =>
    let delivered := data.take (reads.foldl (· + ·) 0)
    match fixed with
    | some m =>
      if m ≠ delivered.length then "GENERR FixedSizeMismatch"
      else "OK " ++ (digestStr (Spec.digest delivered true 32))
    | none => "OK " ++ (digestStr (Spec.digest delivered true 32))
termination_by (if fail.isSome then 1 else 0)
decreasing_by simp_all

/-- The harness' reader is described independently of the caller's buffer size: `chunks` = sizes of
    the successive pieces it is willing to deliver (0 = it reports end-of-stream there; afterwards as
    much as fits), `fail` = (byte offset, kind) = one read error when exactly that many bytes have
    been delivered.  This converts the description into the per-call script (sizes, failing call
    index) seen by the model's 32 KiB `read` loop. -/
def scriptGo (fail : Option (Nat × Nat)) :
    Nat → Nat → List Nat → Nat → Nat → Nat → List Nat → List Nat × Option (Nat × Nat)
  | 0, _, _, _, _, _, acc => (acc.reverse, none)
  | fuel + 1, remaining, chunks, rem, delivered, callNo, acc =>
    let failHere := match fail with | some (f, _) => delivered == f | none => false
    if failHere then (acc.reverse, fail.map fun fk => (callNo, fk.2))
    else
      let capF (n : Nat) : Nat :=
        match fail with
        | some (f, _) => if delivered < f then min n (f - delivered) else n
        | none => n
      match chunks with
      | [] =>
        let n := capF (min BUFFER_SIZE remaining)
        if n = 0 then (acc.reverse, none)
        else scriptGo fail fuel (remaining - n) [] 0 (delivered + n) (callNo + 1) (n :: acc)
      | c :: cs =>
        let r := if rem = 0 then c else rem
        if r = 0 then ((0 :: acc).reverse, none)
        else
          let n := capF (min (min r BUFFER_SIZE) remaining)
          if n = 0 then (acc.reverse, none)
          else
            let r' := r - n
            scriptGo fail fuel (remaining - n) (if r' = 0 then cs else c :: cs) r' (delivered + n) (callNo + 1) (n :: acc)

def scriptOf (n : Nat) (chunks : List Nat) (fail : Option (Nat × Nat)) : List Nat × Option (Nat × Nat) :=
  scriptGo fail (n + chunks.length + 4) n chunks 0 0 0 []

def runStream (args : List String) : String × String :=
  match args with
  | [d, sz, fl] =>
    match bytesOfHex d with
    | some data =>
      let (sizes, fail) := scriptOf data.length (natsOf sz) (failOf fl)
      (streamStr (hashStream data sizes fail),
       if data.length ≤ specLimit then specStream none data sizes fail else "*")
    | none => ("bad-op", "-")
  | _ => ("bad-op", "-")

def runFile (args : List String) : String × String :=
  match args with
  | ["missing"] => ("IOERR", "IOERR")
  | ["dir"] => ("IOERR", "IOERR")
  | [m, d] =>
    match m.toNat?, bytesOfHex d with
    | some m, some data =>
      (match hashFile m data [] none with
        | .ok dg => "OK " ++ symText dg.log dg.bh1 dg.bh2
        | .error (.io _) => "IOERR"
        | .error (.gen e) => s!"GENERR {genErrStr e}",
       if m > Gen.MAX_INPUT_SIZE then "GENERR FixedSizeTooLarge"
       else if data.length ≤ specLimit then specStream (some m) data [] none else "*")
    | _, _ => ("bad-op", "-")
  | _ => ("bad-op", "-")

/-! ### ops: object store interpreter (C11, C15) -/

def fhSt (name : String) (s2 : Nat) (norm : Bool) (h : FH) : String :=
  s!"{name}={fhText h}|{b2s (FH.isValid s2 norm h)}"

def dhSt (name : String) (s2 : Nat) (d : DH) : String :=
  s!"{name}={fhText d.norm}|{fhText (DH.toRawForm s2 d)}|{b2s (DH.isValid s2 d)}|{b2s (DH.freshEq s2 d)}"

def tSt (t : Target) : String := s!"T={t.log.toNat}|{t.len1.toNat}|{t.len2.toNat}|{b2s t.isValid}"
def pSt (p : PA) : String := s!"P={p.len.toNat}|{b2s p.isValid}|{b2s p.isValidAndNormalized}"

def slotOf (t : String) : Option Slot :=
  match t with
  | "R" => some .R | "LR" => some .LR | "N" => some .N | "LN" => some .LN | _ => none

def slotName : Slot → String | .R => "R" | .LR => "LR" | .N => "N" | .LN => "LN"

def dualOfName (t : String) : Option Bool :=
  match t with | "D" => some false | "LD" => some true | _ => none

def cvOf (name : String) : Option Cv :=
  match name with
  | "R>N" => some .R_N | "LR>LN" => some .LR_LN | "N>R" => some .N_R | "N>R!" => some .N_R_mut
  | "LN>LR" => some .LN_LR | "LN>LR!" => some .LN_LR_mut | "R>LR" => some .R_LR | "R>LR!" => some .R_LR_mut
  | "N>LN" => some .N_LN | "N>LN!" => some .N_LN_mut | "N>LR" => some .N_LR
  | "LR>R?" => some .LR_R | "LR>R?!" => some .LR_R_mut | "LN>N?" => some .LN_N | "LN>N?!" => some .LN_N_mut
  | "R>D" => some .R_D | "R>D!" => some .R_D_mut | "LR>LD" => some .LR_LD | "LR>LD!" => some .LR_LD_mut
  | "N>D" => some .N_D | "LN>LD" => some .LN_LD | "D>R" => some .D_R | "D>R!" => some .D_R_mut
  | "LD>LR" => some .LD_LR | "LD>LR!" => some .LD_LR_mut | "D>N" => some .D_N | "LD>LN" => some .LD_LN
  | _ => none

def tsrcOf (t : String) : Option TSrc :=
  match t with | "N" => some .N | "LN" => some .LN | "D" => some .D | "LD" => some .LD | _ => none

/-- decode one token of the `ops` line protocol into a typed operation -/
def decodeOp (tok : String) : Option SOp :=
  match tok.splitOn ":" with
  | ["gen", t, h] =>
    match bytesOfHex h with
    | none => none
    | some bs => some (.gen (t != "R") bs)
  | ["parse", t, h] =>
    match bytesOfHex h with
    | none => none
    | some bs =>
      match slotOf t, dualOfName t with
      | some sl, _ => some (.parseFH sl bs)
      | none, some long => some (.parseDH long bs)
      | none, none => none
  | ["new", t, k, b1, b2] =>
    match k.toNat?, bytesOfHex b1, bytesOfHex b2 with
    | some k, some b1, some b2 =>
      match slotOf t, dualOfName t with
      | some sl, _ => some (.newFH sl k b1 b2)
      | none, some long => some (.newDH long k b1 b2)
      | none, none => none
    | _, _, _ => none
  | ["newbs", t, bsz, b1, b2] =>
    match bsz.toNat?, bytesOfHex b1, bytesOfHex b2 with
    | some bsz, some b1, some b2 =>
      match slotOf t, dualOfName t with
      | some sl, _ => some (.newbsFH sl bsz b1 b2)
      | none, some long => some (.newbsDH long bsz b1 b2)
      | none, none => none
    | _, _, _ => none
  | ["init", t, k, a1, a2, l1, l2] =>
    match slotOf t, k.toNat?, bytesOfHex a1, bytesOfHex a2, l1.toNat?, l2.toNat? with
    | some sl, some k, some a1, some a2, some l1, some l2 => some (.init sl k a1 a2 l1 l2)
    | _, _, _, _, _, _ => none
  | ["norm", t] =>
    match slotOf t, dualOfName t with
    | some sl, _ => some (.normFH sl)
    | none, some long => some (.normDH long)
    | none, none => none
  | ["cv", name] => (cvOf name).map .cv
  | ["tgt", t] => (tsrcOf t).map .tgt
  | ["tgtnew", t] => (tsrcOf t).map .tgtnew
  | ["pa", h] => (bytesOfHex h).map .pa
  | ["pac"] => some .pac
  | _ => none

def showSlot (st : Store) (t : Slot) : String := fhSt (slotName t) t.s2 t.norm (st.get t)

def renderOutcome (st : Store) : Outcome → String
  | .fh t => showSlot st t
  | .dh long => if long then dhSt "LD" 64 st.ld else dhSt "D" 32 st.d
  | .tgt => tSt st.t
  | .pa => pSt st.p
  | .err => "ERR"
  | .errKeep t => "ERR " ++ showSlot st t
  | .panic => "PANIC"
  | .bad => "bad-op"

/-- one store operation; returns the new store and the printed token -/
def storeOp (cfg : Cfg) (st : Store) (tok : String) : Store × String :=
  match decodeOp tok with
  | none => (st, "bad-op")
  | some op =>
    let (st', o) := applyOp cfg st op
    (st', renderOutcome st' o)

def runOps (cfg : Cfg) (toks : List String) : String × String :=
  let (_, out) := toks.foldl (fun (acc : Store × List String) tok =>
    let (st, o) := storeOp cfg acc.1 tok
    (st, acc.2 ++ [o])) ({}, [])
  (" ".intercalate out, "-")

/-! ### dispatcher -/

def runLine (cfg : Cfg) (line : String) : String × String :=
  match (line.trimAscii.toString.splitOn " ").filter (· != "") with
  | "prim" :: args => runPrim args
  | "bs" :: args => runBs args
  | "parse" :: args => runParse cfg args
  | "fmt" :: args => runFmt cfg args
  | "fmt2" :: args => runFmt2 cfg args
  | "norm" :: args => runNorm cfg args
  | "normx" :: args => runNormX cfg args
  | "dual" :: args => runDual cfg args
  | "dual2" :: args => runDual2 args
  | "ord" :: args => runOrd args
  | "pa" :: args => runPa args
  | "pah" :: args => runPaHist args
  | "tgt" :: args => runTgt args
  | "cmp" :: args => runCmp args
  | "cmps" :: args => runCmpS cfg args
  | "win" :: args => runWin args
  | "gen" :: toks => runGen toks
  | "hb" :: args => runHb args
  | "stream" :: args => runStream args
  | "file" :: args => runFile args
  | "ops" :: toks => runOps cfg toks
  | _ => ("bad-op", "-")

end Ffuzzy.Driver
