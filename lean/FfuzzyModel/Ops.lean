/-
  Typed form of the safe public operations exercised by the `ops` correspondence family (C11, C15):
  an object store with one object of every hash type, a comparison target and a position array;
  every operation overwrites a (possibly dirty) destination in the store.
-/
import FfuzzyModel.Compare
import FfuzzyModel.Generator
namespace Ffuzzy

inductive Slot where | R | LR | N | LN
  deriving Repr, DecidableEq

def Slot.s2 : Slot → Nat | .R => 32 | .LR => 64 | .N => 32 | .LN => 64
def Slot.norm : Slot → Bool | .R => false | .LR => false | .N => true | .LN => true

structure Store where
  r : FH := FH.new 32
  lr : FH := FH.new 64
  n : FH := FH.new 32
  ln : FH := FH.new 64
  d : DH := DH.new 32
  ld : DH := DH.new 64
  t : Target := Target.new
  p : PA := PA.new

def Store.get (st : Store) : Slot → FH
  | .R => st.r | .LR => st.lr | .N => st.n | .LN => st.ln

def Store.set (st : Store) (t : Slot) (h : FH) : Store :=
  match t with
  | .R => { st with r := h } | .LR => { st with lr := h }
  | .N => { st with n := h } | .LN => { st with ln := h }

def Store.getD (st : Store) (long : Bool) : DH := if long then st.ld else st.d
def Store.setD (st : Store) (long : Bool) (d : DH) : Store := if long then { st with ld := d } else { st with d := d }
def dualS2 (long : Bool) : Nat := if long then 64 else 32

/-- the conversion edges of hash.rs / hash_dual.rs (`!` = into a previously used destination) -/
inductive Cv where
  | R_N | LR_LN | N_R | N_R_mut | LN_LR | LN_LR_mut | R_LR | R_LR_mut | N_LN | N_LN_mut | N_LR
  | LR_R | LR_R_mut | LN_N | LN_N_mut
  | R_D | R_D_mut | LR_LD | LR_LD_mut | N_D | LN_LD | D_R | D_R_mut | LD_LR | LD_LR_mut | D_N | LD_LN
  deriving Repr, DecidableEq

inductive TSrc where | N | LN | D | LD
  deriving Repr, DecidableEq

inductive SOp where
  | gen (long : Bool) (bs : List UInt8)
  | parseFH (t : Slot) (bs : List UInt8)
  | parseDH (long : Bool) (bs : List UInt8)
  | newFH (t : Slot) (k : Nat) (b1 b2 : List UInt8)
  | newDH (long : Bool) (k : Nat) (b1 b2 : List UInt8)
  | newbsFH (t : Slot) (bsz : Nat) (b1 b2 : List UInt8)
  | newbsDH (long : Bool) (bsz : Nat) (b1 b2 : List UInt8)
  | init (t : Slot) (k : Nat) (a1 a2 : List UInt8) (l1 l2 : Nat)
  | normFH (t : Slot)
  | normDH (long : Bool)
  | cv (c : Cv)
  | tgt (src : TSrc)
  | tgtnew (src : TSrc)
  | pa (bs : List UInt8)
  | pac

/-- what an operation reports: the object it (over)wrote, an error that left the store untouched,
    or a panic (an `assert!` of a checked constructor failed) -/
inductive Outcome where
  | fh (t : Slot) | dh (long : Bool) | tgt | pa
  | err | errKeep (t : Slot) | panic | bad
  deriving Repr, DecidableEq

def Store.tsrc (st : Store) : TSrc → FH
  | .N => st.n | .LN => st.ln | .D => st.d.norm | .LD => st.ld.norm

def applyCv (st : Store) : Cv → Store × Outcome
  | .R_N => ({ st with n := FH.normalize false st.r }, .fh .N)
  | .LR_LN => ({ st with ln := FH.normalize false st.lr }, .fh .LN)
  | .N_R => ({ st with r := FH.toRawForm st.n }, .fh .R)
  | .N_R_mut => ({ st with r := FH.intoMutRawForm st.n st.r }, .fh .R)
  | .LN_LR => ({ st with lr := FH.toRawForm st.ln }, .fh .LR)
  | .LN_LR_mut => ({ st with lr := FH.intoMutRawForm st.ln st.lr }, .fh .LR)
  | .R_LR => ({ st with lr := FH.toLongForm st.r }, .fh .LR)
  | .R_LR_mut => ({ st with lr := FH.intoMutLongForm st.r st.lr }, .fh .LR)
  | .N_LN => ({ st with ln := FH.toLongForm st.n }, .fh .LN)
  | .N_LN_mut => ({ st with ln := FH.intoMutLongForm st.n st.ln }, .fh .LN)
  | .N_LR => ({ st with lr := FH.shortNormToLongRaw st.n }, .fh .LR)
  | .LR_R =>
    match FH.tryFromLong st.lr with
    | some h => ({ st with r := h }, .fh .R) | none => (st, .errKeep .R)
  | .LR_R_mut =>
    match FH.tryIntoMutShort st.lr st.r with
    | some h => ({ st with r := h }, .fh .R) | none => (st, .errKeep .R)
  | .LN_N =>
    match FH.tryFromLong st.ln with
    | some h => ({ st with n := h }, .fh .N) | none => (st, .errKeep .N)
  | .LN_N_mut =>
    match FH.tryIntoMutShort st.ln st.n with
    | some h => ({ st with n := h }, .fh .N) | none => (st, .errKeep .N)
  | .R_D =>
    match DH.fromRawForm 32 st.r with
    | some d => ({ st with d := d }, .dh false) | none => (st, .panic)
  | .R_D_mut =>
    match DH.initFromRawForm st.d st.r with
    | some d => ({ st with d := d }, .dh false) | none => (st, .panic)
  | .LR_LD =>
    match DH.fromRawForm 64 st.lr with
    | some d => ({ st with ld := d }, .dh true) | none => (st, .panic)
  | .LR_LD_mut =>
    match DH.initFromRawForm st.ld st.lr with
    | some d => ({ st with ld := d }, .dh true) | none => (st, .panic)
  | .N_D => ({ st with d := DH.fromNormalized 32 st.n }, .dh false)
  | .LN_LD => ({ st with ld := DH.fromNormalized 64 st.ln }, .dh true)
  | .D_R => ({ st with r := DH.toRawForm 32 st.d }, .fh .R)
  | .D_R_mut => ({ st with r := DH.intoMutRawForm st.d st.r }, .fh .R)
  | .LD_LR => ({ st with lr := DH.toRawForm 64 st.ld }, .fh .LR)
  | .LD_LR_mut => ({ st with lr := DH.intoMutRawForm st.ld st.lr }, .fh .LR)
  | .D_N => ({ st with n := st.d.norm }, .fh .N)
  | .LD_LN => ({ st with ln := st.ld.norm }, .fh .LN)

/-- one safe operation on the store -/
def applyOp (cfg : Cfg) (st : Store) : SOp → Store × Outcome
  | .gen long bs =>
    let g := Gen.new.update bs
    if long then
      match g.finalizeWithoutTruncation with
      | .ok d => ({ st with lr := d.toFH 64 }, .fh .LR)
      | .error _ => (st, .err)
    else
      match g.finalize with
      | .ok d => ({ st with r := d.toFH 32 }, .fh .R)
      | .error _ => (st, .err)
  | .parseFH t bs =>
    match FH.parse cfg t.s2 t.norm bs with
    | .error _ => (st, .err)
    | .ok (h, _) => (st.set t h, .fh t)
  | .parseDH long bs =>
    match DH.parse cfg (dualS2 long) bs with
    | none => (st, .panic)
    | some (.error _) => (st, .err)
    | some (.ok (d, _)) => (st.setD long d, .dh long)
  | .newFH t k b1 b2 =>
    match FH.newFromInternalsNearRaw t.s2 t.norm k.toUInt8 b1 b2 with
    | none => (st, .panic)
    | some h => (st.set t h, .fh t)
  | .newDH long k b1 b2 =>
    match DH.newFromInternalsNearRaw (dualS2 long) k.toUInt8 b1 b2 with
    | none => (st, .panic)
    | some d => (st.setD long d, .dh long)
  | .newbsFH t bsz b1 b2 =>
    match FH.newFromInternals t.s2 t.norm bsz.toUInt32 b1 b2 with
    | none => (st, .panic)
    | some h => (st.set t h, .fh t)
  | .newbsDH long bsz b1 b2 =>
    match DH.newFromInternals (dualS2 long) bsz.toUInt32 b1 b2 with
    | none => (st, .panic)
    | some d => (st.setD long d, .dh long)
  | .init t k a1 a2 l1 l2 =>
    if a1.length != 64 || a2.length != t.s2 then (st, .bad) else
    match FH.initFromInternalsRaw t.s2 t.norm (st.get t) k.toUInt8 a1 a2 l1.toUInt8 l2.toUInt8 with
    | none => (st, .panic)
    | some h => (st.set t h, .fh t)
  | .normFH t => (st.set t (FH.normalizeInPlace t.norm (st.get t)), .fh t)
  | .normDH long => (st.setD long (DH.normalizeInPlace (dualS2 long) (st.getD long)), .dh long)
  | .cv c => applyCv st c
  | .tgt src => ({ st with t := st.t.initFrom (st.tsrc src) }, .tgt)
  | .tgtnew src => ({ st with t := Target.fromHash (st.tsrc src) }, .tgt)
  | .pa bs =>
    match st.p.initFrom bs with
    | none => (st, .panic)
    | some p => ({ st with p := p }, .pa)
  | .pac => ({ st with p := st.p.clear }, .pa)

end Ffuzzy
