/-
  Model of ffuzzy/src/internals/generate_easy_std.rs over a read script.
  A reader is a byte string, a list of requested-size limits per `read` call and an optional
  failure: `(index, kind)` = the `index`-th `read` call returns `Err(kind)`.
-/
import FfuzzyModel.Generator
namespace Ffuzzy

def BUFFER_SIZE : Nat := 32768

inductive StreamErr where
  | io (kind : Nat)
  | gen (e : GenErr)
  deriving Repr, DecidableEq

/-- how many bytes the next `read` call may deliver: the scripted size capped by the 32 KiB buffer;
    after the script is exhausted the reader fills the buffer -/
def wantOf (sizes : List Nat) : Nat :=
  match sizes with | [] => BUFFER_SIZE | s :: _ => min s BUFFER_SIZE

/-- rs: `hash_stream_common`: the `loop { let len = reader.read(&mut buffer)?; … }`.
    `sizes` lists how many bytes each successive `read` is willing to deliver (capped by the buffer
    and by the remaining data; a scripted 0 or exhausted data ends the stream); after the script is
    exhausted the reader delivers as much as fits. -/
def hashStreamLoop (g : Gen) (data : List UInt8) (sizes : List Nat) (failAt : Option (Nat × Nat))
    (callNo : Nat) (fuel : Nat) : Except StreamErr Gen :=
  match fuel with
  | 0 => .ok g
  | fuel + 1 =>
    if failAt.isSome && (failAt.map (·.1)) == some callNo then .error (.io ((failAt.map (·.2)).getD 0))
    else
      let chunk := data.take (wantOf sizes)
      if chunk.isEmpty then .ok g
      else hashStreamLoop (g.update chunk) (data.drop chunk.length) (sizes.drop 1) failAt (callNo + 1) fuel

def hashStreamCommon (g : Gen) (data : List UInt8) (sizes : List Nat) (failAt : Option (Nat × Nat)) :
    Except StreamErr Digest :=
  match hashStreamLoop g data sizes failAt 0 (data.length + sizes.length + 2) with
  | .error e => .error e
  | .ok g => match g.finalize with
    | .error e => .error (.gen e)
    | .ok d => .ok d

/-- rs: `hash_stream` -/
def hashStream (data : List UInt8) (sizes : List Nat) (failAt : Option (Nat × Nat)) : Except StreamErr Digest :=
  hashStreamCommon Gen.new data sizes failAt

/-- rs: `hash_file` after a successful `File::open` and `metadata()`: `metaLen` is the size the
    metadata reports, `data` what the reads deliver -/
def hashFile (metaLen : Nat) (data : List UInt8) (sizes : List Nat) (failAt : Option (Nat × Nat)) :
    Except StreamErr Digest :=
  match Gen.new.setFixedInputSize metaLen with
  | .error e => .error (.gen e)
  | .ok g => hashStreamCommon g data sizes failAt

end Ffuzzy
