/-
  Model of the parser: hash/algorithms.rs `parse_block_size_from_bytes`,
  `parse_block_hash_from_bytes(_internal)` (default and `strict-parser` flavours) and the
  three-field driver macro of hash.rs (`hash_from_bytes_with_last_index_internal_template`).
-/
import FfuzzyModel.Hash
namespace Ffuzzy

inductive ParseErrorKind where
  | blockSizeIsEmpty | blockSizeStartsWithZero | blockSizeIsInvalid | blockSizeIsTooLarge
  | blockHashIsTooLong | unexpectedCharacter | unexpectedEndOfString
  deriving Repr, DecidableEq

inductive ParseErrorOrigin where | blockSize | blockHash1 | blockHash2
  deriving Repr, DecidableEq

structure ParseError where
  kind : ParseErrorKind
  origin : ParseErrorOrigin
  offset : Nat
  deriving Repr, DecidableEq

inductive BhState where | metEndOfString | metComma | metColon | overflowError | base64Error
  deriving Repr, DecidableEq

/-- rs: algorithms.rs `parse_block_size_from_bytes`, the loop body, with the loop state
    `(block_size, is_block_size_in_range)`; returns `(block size, consumed)` -/
def parseBlockSizeLoop : List UInt8 → Nat → UInt32 → Bool → Except ParseError (UInt32 × Nat)
  | [], index, _, _ => .error ⟨.unexpectedEndOfString, .blockSize, index⟩
  | ch :: rest, index, bs, inRange =>
    if 48 ≤ ch && ch ≤ 57 then
      if inRange then
        -- checked_mul(10).and_then(checked_add(digit))
        let v := bs.toNat * 10 + (ch - 48).toNat
        if v < 4294967296 then
          if v = 0 then .error ⟨.blockSizeStartsWithZero, .blockSize, 0⟩
          else parseBlockSizeLoop rest (index + 1) v.toUInt32 true
        else parseBlockSizeLoop rest (index + 1) bs false
      else parseBlockSizeLoop rest (index + 1) bs false
    else if ch == 58 then
      if index = 0 then .error ⟨.blockSizeIsEmpty, .blockSize, 0⟩
      else if !inRange then .error ⟨.blockSizeIsTooLarge, .blockSize, 0⟩
      else if !(BlockSize.isValid bs) then .error ⟨.blockSizeIsInvalid, .blockSize, 0⟩
      else .ok (bs, index + 1)
    else .error ⟨.unexpectedCharacter, .blockSize, index⟩

def parseBlockSize (bytes : List UInt8) : Except ParseError (UInt32 × Nat) :=
  parseBlockSizeLoop bytes 0 0 true

/-- result of the block-hash field parser -/
structure BhParse where
  state : BhState
  consumed : Nat
  bh : List UInt8
  len : Nat
  /-- calls of `report_norm_seq(pos, len)` in order -/
  reports : List (Nat × Nat)
  deriving Repr, DecidableEq

/-- loop state of `parse_block_hash_from_bytes_internal` -/
structure BhLoop where
  seq : Nat := 0
  seqStart : Nat := 0
  seqStartIn : Nat := 0
  prev : UInt8 := b64Invalid
  len : Nat := 0
  index : Nat := 0
  bh : List UInt8
  reports : List (Nat × Nat) := []

/-- outcome of the scanning loop: early overflow return, or loop exit with `(has_char, raw_ch)` -/
inductive BhLoopExit where
  | overflow (s : BhLoop)
  | done (s : BhLoop) (hasChar : Bool) (rawCh : Option UInt8)

/-- rs: the run tracking of the `if normalize { … }` block for a character that is kept
    (the `continue` case is handled in `bhLoop`): same run goes on, or a new run starts and a
    finished maximal run is reported -/
def bhTrack (normalize : Bool) (curr : UInt8) (s : BhLoop) : BhLoop :=
  if normalize then
    if curr == s.prev then { s with seq := s.seq + 1 }
    else
      let reports := if s.seq = MAX_SEQUENCE_SIZE
        then s.reports ++ [(s.seqStart, s.index - s.seqStartIn)] else s.reports
      { s with reports := reports, seq := 0, seqStart := s.len, seqStartIn := s.index, prev := curr }
  else s

/-- rs: the `loop { raw_ch = iter.next(); … }` of `parse_block_hash_from_bytes_internal`.
    `n` = capacity, `checkLen` = the `#[cfg(not(feature = "strict-parser"))] if len >= N` test is
    compiled in, `limitRaw` = flag added by the F1 repair. -/
def bhLoop (n : Nat) (normalize limitRaw checkLen : Bool) : List UInt8 → BhLoop → BhLoopExit
  | [], s => .done s false none
  | ch :: rest, s =>
    let curr := b64Index ch
    if curr == b64Invalid then .done s true (some ch)
    else if checkLen && limitRaw && s.index ≥ n then .overflow s
    else if normalize && curr == s.prev && s.seq + 1 ≥ MAX_SEQUENCE_SIZE then
      -- `seq = MAX_SEQUENCE_SIZE; index += 1; continue;`
      bhLoop n normalize limitRaw checkLen rest { s with seq := MAX_SEQUENCE_SIZE, index := s.index + 1 }
    else
      let s := bhTrack normalize curr s
      if checkLen && s.len ≥ n then .overflow s
      else bhLoop n normalize limitRaw checkLen rest
            { s with bh := s.bh.set s.len curr, len := s.len + 1, index := s.index + 1 }

/-- rs: algorithms.rs `parse_block_hash_from_bytes_internal::<_, N>` -/
def parseBlockHash (cfg : Cfg) (n : Nat) (bh : List UInt8) (normalize limitRaw : Bool)
    (bytes : List UInt8) : BhParse :=
  let input := if cfg.strictParser then bytes.take n else bytes
  match bhLoop n normalize limitRaw (!cfg.strictParser) input { bh := bh } with
  | .overflow s => ⟨.overflowError, s.index, s.bh, s.len, s.reports⟩
  | .done s hasChar rawCh =>
    -- strict parser: the `take(N)` iterator may have ended before the end of the string
    let rawCh := if cfg.strictParser && !hasChar then (bytes.drop s.index).head? else rawCh
    let reports := if normalize && s.seq = MAX_SEQUENCE_SIZE
      then s.reports ++ [(s.seqStart, s.index - s.seqStartIn)] else s.reports
    match rawCh with
    | some ch =>
      if ch == 58 then ⟨.metColon, s.index + 1, s.bh, s.len, reports⟩
      else if ch == 44 then ⟨.metComma, s.index + 1, s.bh, s.len, reports⟩
      else if cfg.strictParser then
        ⟨if hasChar then .base64Error else .overflowError, s.index, s.bh, s.len, reports⟩
      else ⟨.base64Error, s.index, s.bh, s.len, reports⟩
    | none => ⟨.metEndOfString, s.index, s.bh, s.len, reports⟩

/-- what the three-field driver produces on success -/
structure Parsed where
  log : UInt8
  bh1 : List UInt8
  len1 : Nat
  reports1 : List (Nat × Nat)
  bh2 : List UInt8
  len2 : Nat
  reports2 : List (Nat × Nat)
  /-- value stored to `*index` -/
  index : Nat
  deriving Repr, DecidableEq

/-- rs: hash.rs macro `hash_from_bytes_with_last_index_internal_template`
    (`s2` = capacity of block hash 2, `norm`/`limitRaw` = the macro's `$norm` / `$limit_raw`) -/
def parseThreeFields (cfg : Cfg) (s2 : Nat) (norm limitRaw : Bool) (str : List UInt8) :
    Except ParseError Parsed :=
  match parseBlockSize str with
  | .error e => .error e
  | .ok (bs, offset) =>
    let log := BlockSize.logFromValidInternal bs
    let buf := str.drop offset
    let r1 := parseBlockHash cfg FULL_SIZE (List.replicate FULL_SIZE 0) norm limitRaw buf
    let offset := offset + r1.consumed
    match r1.state with
    | .metComma => .error ⟨.unexpectedCharacter, .blockHash1, offset - 1⟩
    | .base64Error => .error ⟨.unexpectedCharacter, .blockHash1, offset⟩
    | .metEndOfString => .error ⟨.unexpectedEndOfString, .blockHash1, offset⟩
    | .overflowError => .error ⟨.blockHashIsTooLong, .blockHash1, offset⟩
    | .metColon =>
      let buf := buf.drop r1.consumed
      let r2 := parseBlockHash cfg s2 (List.replicate s2 0) norm limitRaw buf
      let offset := offset + r2.consumed
      match r2.state with
      | .metComma => .ok ⟨log, r1.bh, r1.len, r1.reports, r2.bh, r2.len, r2.reports, offset - 1⟩
      | .metEndOfString => .ok ⟨log, r1.bh, r1.len, r1.reports, r2.bh, r2.len, r2.reports, offset⟩
      | .metColon => .error ⟨.unexpectedCharacter, .blockHash2, offset - 1⟩
      | .base64Error => .error ⟨.unexpectedCharacter, .blockHash2, offset⟩
      | .overflowError => .error ⟨.blockHashIsTooLong, .blockHash2, offset⟩

/-- rs: hash.rs `FuzzyHashData::from_bytes_with_last_index_internal` (plain types) -/
def FH.parse (cfg : Cfg) (s2 : Nat) (norm : Bool) (str : List UInt8) : Except ParseError (FH × Nat) :=
  match parseThreeFields cfg s2 norm false str with
  | .error e => .error e
  | .ok p => .ok ({ bh1 := p.bh1, bh2 := p.bh2, len1 := p.len1.toUInt8, len2 := p.len2.toUInt8,
                    log := p.log }, p.index)

end Ffuzzy
