/-
  Model of ffuzzy/src/internals/compare/position_array.rs.
  A position array is `[u64; 64]` (here: a list of 64 `BitVec 64`) plus a length byte.
-/
import FfuzzyModel.Hash
namespace Ffuzzy

/-- rs: `block_hash_position_array_element::has_sequences` (general `len`) -/
def hasSequences (x : BitVec 64) (len : Nat) : Bool :=
  if len = 0 then true
  else if len = 1 then x != 0
  else if len < 64 then
    let c01 := x
    let c02 := c01 &&& (c01 >>> 1)
    let c04 := c02 &&& (c02 >>> 2)
    let c08 := c04 &&& (c04 >>> 4)
    let c16 := c08 &&& (c08 >>> 8)
    let c32 := c16 &&& (c16 >>> 16)
    let (len, shift, mask) :=
      if len < 4 then (len - 2, 2, c02)
      else if len < 8 then (len - 4, 4, c04)
      else if len < 16 then (len - 8, 8, c08)
      else if len < 32 then (len - 16, 16, c16)
      else (len - 32, 32, c32)
    let (mask, shift) := if len &&& 16 != 0 then (mask &&& (c16 >>> shift), shift + 16) else (mask, shift)
    let (mask, shift) := if len &&& 8 != 0 then (mask &&& (c08 >>> shift), shift + 8) else (mask, shift)
    let (mask, shift) := if len &&& 4 != 0 then (mask &&& (c04 >>> shift), shift + 4) else (mask, shift)
    let (mask, shift) := if len &&& 2 != 0 then (mask &&& (c02 >>> shift), shift + 2) else (mask, shift)
    let mask := if len &&& 1 != 0 then mask &&& (c01 >>> shift) else mask
    mask != 0
  else if len = 64 then x == BitVec.allOnes 64
  else false

/-- the instance used by the crate: `has_sequences_const::<{MAX_SEQUENCE_SIZE + 1}>` -/
def hasSequences4 (x : BitVec 64) : Bool :=
  let c02 := x &&& (x >>> 1)
  let c04 := c02 &&& (c02 >>> 2)
  c04 != 0

/-- rs: `BlockHashPositionArray` / `BlockHashPositionArrayRef` -/
structure PA where
  rep : List (BitVec 64)
  len : UInt8
  deriving Repr, DecidableEq

namespace PA

/-- rs: `representation[ch as usize]` -/
def get (p : PA) (c : UInt8) : BitVec 64 := p.rep.getD c.toNat 0

/-- rs: `BlockHashPositionArray::new` -/
def new : PA := { rep := List.replicate 64 0, len := 0 }

/-- rs: `BlockHashPositionArrayData::is_valid`, the closure folded by `all` (short-circuits) -/
def isValidLoop : List (BitVec 64) → BitVec 64 → Option (BitVec 64)
  | [], total => some total
  | pos :: rest, total => if total &&& pos == 0 then isValidLoop rest (total ||| pos) else none

/-- rs: `BlockHashPositionArrayData::is_valid` -/
def isValid (p : PA) : Bool :=
  if p.len > 64 then false
  else match isValidLoop p.rep 0 with
    | none => false
    | some total => total == u64LsbOnes p.len.toNat

/-- rs: `is_valid_and_normalized` -/
def isValidAndNormalized (p : PA) : Bool :=
  p.isValid && p.rep.all (fun x => !hasSequences4 x)

/-- rs: `is_equiv_internal` -/
def isEquivInternal (p : PA) (other : List UInt8) : Bool :=
  p.len.toNat == other.length &&
    other.zipIdx.all (fun (ch, i) => (p.get ch &&& ((1 : BitVec 64) <<< i)) != 0)

/-- `other[l]` -/
def sym (b : List UInt8) (i : Nat) : UInt8 := b.getD i 0

def nextD (p : PA) (b : List UInt8) (l : Nat) (d : BitVec 64) : BitVec 64 :=
  (d <<< 1) &&& p.get (sym b (l + 1))

/-- rs: `has_common_substring_internal`, the inner `while d != 0` loop;
    returns `(found, l at exit)` -/
def csInner (p : PA) (b : List UInt8) (r : Nat) (l : Nat) (d : BitVec 64) : Bool × Nat :=
  if d = 0 then (false, l)
  else if r ≤ l then (false, l)   -- unreachable guard (makes the definition total)
  else if l + 1 = r ∧ nextD p b l d ≠ 0 then (true, l + 1)
  else csInner p b r (l + 1) (nextD p b l d)
termination_by r - l

theorem csInner_le (p : PA) (b : List UInt8) (r l : Nat) (d : BitVec 64) (h : l ≤ r) :
    (csInner p b r l d).2 ≤ r ∧ l ≤ (csInner p b r l d).2 := by
  fun_induction csInner p b r l d with
  | case1 l => simp; exact h
  | case2 l d hd hr => simp; omega
  | case3 l d hd hr hc => simp; omega
  | case4 l d hd hr hc ih => have := ih (by omega); omega

/-- rs: `has_common_substring_internal`, the outer `loop` with the Boyer–Moore-like skip -/
def csOuter (p : PA) (b : List UInt8) (l0 : Nat) : Bool :=
  if (csInner p b (l0 + 6) l0 (p.get (sym b l0))).1 then true
  else if (csInner p b (l0 + 6) l0 (p.get (sym b l0))).2 < 7 then false
  else csOuter p b ((csInner p b (l0 + 6) l0 (p.get (sym b l0))).2 - 7)
termination_by l0
decreasing_by
  have := (csInner_le p b (l0+6) l0 (p.get (sym b l0)) (by omega)).1
  omega

/-- rs: `has_common_substring_internal` -/
def hasCommonSubstringInternal (p : PA) (other : List UInt8) : Bool :=
  if p.len.toNat < MIN_LCS_FOR_COMPARISON ∨ other.length < MIN_LCS_FOR_COMPARISON then false
  else csOuter p other (other.length - MIN_LCS_FOR_COMPARISON)

/-- rs: `edit_distance_internal`, one iteration of the `for &ch in other` loop -/
def edStep (v e : BitVec 64) : BitVec 64 := (v + (e &&& v)) ||| (v - (e &&& v))

def edRows (p : PA) (other : List UInt8) : BitVec 64 :=
  other.foldl (fun v ch => edStep v (p.get ch)) (BitVec.allOnes 64)

/-- rs: `u64::count_zeros` -/
def countZeros (v : BitVec 64) : Nat := ((List.range 64).filter (fun i => !v.getLsbD i)).length

/-- rs: `edit_distance_internal` (u32 arithmetic; no wrap on the valid domain) -/
def editDistanceInternal (p : PA) (other : List UInt8) : Nat :=
  p.len.toNat + other.length - 2 * countZeros (edRows p other)

/-- rs: compare.rs `raw_score_by_edit_distance_internal` -/
def rawScoreByEditDistanceInternal (l1 l2 : Nat) (d : Nat) : Nat :=
  let subscore := (d * FULL_SIZE) / (l1 + l2)
  100 - (100 * subscore) / FULL_SIZE

/-- rs: compare.rs `raw_score_by_edit_distance` (`none` = an `assert!` fails) -/
def rawScoreByEditDistance (l1 l2 : Nat) (d : Nat) : Option Nat :=
  if l1 < 7 || l2 < 7 || l1 > 64 || l2 > 64 then none
  else if d > l1 + l2 - 14 then none
  else some (rawScoreByEditDistanceInternal l1 l2 d)

/-- rs: compare.rs `LOG_BLOCK_SIZE_CAPPING_BORDER` -/
def CAPPING_BORDER : Nat := 4

/-- rs: compare.rs `score_cap_on_block_hash_comparison_internal` -/
def scoreCapInternal (log l1 l2 : Nat) : Nat := (1 <<< log) * min l1 l2

/-- rs: compare.rs `score_cap_on_block_hash_comparison` -/
def scoreCap (log l1 l2 : Nat) : Nat :=
  if log ≥ CAPPING_BORDER then 100 else scoreCapInternal log l1 l2

/-- rs: `score_strings_raw_internal` -/
def scoreStringsRawInternal (p : PA) (other : List UInt8) : Nat :=
  if !p.hasCommonSubstringInternal other then 0
  else rawScoreByEditDistanceInternal p.len.toNat other.length (p.editDistanceInternal other)

/-- rs: `score_strings_internal` -/
def scoreStringsInternal (p : PA) (other : List UInt8) (log : Nat) : Nat :=
  let score := p.scoreStringsRawInternal other
  if log ≥ CAPPING_BORDER then score
  else min score (scoreCapInternal log p.len.toNat other.length)

/-- rs: `clear_representation_only` -/
def clearRepresentationOnly (p : PA) : PA := { p with rep := List.replicate 64 0 }

/-- rs: `clear` -/
def clear (_p : PA) : PA := { rep := List.replicate 64 0, len := 0 }

/-- rs: `init_from_partial`, the `for (i, &ch)` loop: `representation[ch] |= 1 << i` -/
def initLoop : List UInt8 → Nat → List (BitVec 64) → List (BitVec 64)
  | [], _, rep => rep
  | ch :: rest, i, rep =>
    initLoop rest (i + 1) (rep.set ch.toNat (rep.getD ch.toNat 0 ||| ((1 : BitVec 64) <<< i)))

/-- rs: `init_from_partial` -/
def initFromPartial (p : PA) (bh : List UInt8) : PA :=
  { rep := initLoop bh 0 p.rep, len := bh.length.toUInt8 }

/-- rs: `BlockHashPositionArrayImplMut::init_from` (`none` = an `assert!` fails) -/
def initFrom (p : PA) (bh : List UInt8) : Option PA :=
  if !(bh.length ≤ 64) then none
  else if !(bh.all (· < 64)) then none
  else some (p.clearRepresentationOnly.initFromPartial bh)

/-! checked public entry points (`BlockHashPositionArrayImpl`): `none` = an `assert!` fails -/

def isEquiv (p : PA) (other : List UInt8) : Option Bool :=
  if !p.isValid || !(other.length ≤ 64) || !(other.all (· < 64)) then none
  else some (p.isEquivInternal other)

def hasCommonSubstring (p : PA) (other : List UInt8) : Option Bool :=
  if !p.isValid || !(other.all (· < 64)) then none
  else some (p.hasCommonSubstringInternal other)

def editDistance (p : PA) (other : List UInt8) : Option Nat :=
  if !p.isValid || !(p.len.toNat ≤ 64) || !(other.length ≤ 64) || !(other.all (· < 64)) then none
  else some (p.editDistanceInternal other)

def scoreStringsRaw (p : PA) (other : List UInt8) : Option Nat :=
  if !p.isValidAndNormalized || !(p.len.toNat ≤ 64) || !(other.length ≤ 64) || !(other.all (· < 64)) then none
  else some (p.scoreStringsRawInternal other)

def scoreStrings (p : PA) (other : List UInt8) (log : Nat) : Option Nat :=
  if !p.isValidAndNormalized || !(p.len.toNat ≤ 64) || !(other.length ≤ 64) || !(other.all (· < 64))
      || !(log ≤ 31) then none
  else some (p.scoreStringsInternal other log)

end PA
end Ffuzzy
