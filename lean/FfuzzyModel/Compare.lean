/-
  Model of ffuzzy/src/internals/compare.rs (`FuzzyHashCompareTarget`, `FuzzyHashData::compare*`)
  and compare_easy.rs.
-/
import FfuzzyModel.PosArray
import FfuzzyModel.Dual
namespace Ffuzzy

/-- rs: compare.rs `FuzzyHashCompareTarget` -/
structure Target where
  bh1 : List (BitVec 64)
  bh2 : List (BitVec 64)
  len1 : UInt8
  len2 : UInt8
  log : UInt8
  deriving Repr, DecidableEq

namespace Target

/-- rs: `FuzzyHashCompareTarget::new` -/
def new : Target :=
  { bh1 := List.replicate 64 0, bh2 := List.replicate 64 0, len1 := 0, len2 := 0, log := 0 }

/-- rs: `block_hash_1_internal` / `block_hash_2_internal` -/
def pa1 (t : Target) : PA := ⟨t.bh1, t.len1⟩
def pa2 (t : Target) : PA := ⟨t.bh2, t.len2⟩

/-- rs: `full_eq` -/
def fullEq (a b : Target) : Bool :=
  a.bh1 == b.bh1 && a.bh2 == b.bh2 && a.len1 == b.len1 && a.len2 == b.len2 && a.log == b.log

/-- rs: `init_from_partial` (ORs the new bits into the existing masks) -/
def initFromPartial (t : Target) (h : FH) : Target :=
  let p1 := (PA.mk t.bh1 h.len1).initFromPartial h.blockHash1
  let p2 := (PA.mk t.bh2 h.len2).initFromPartial h.blockHash2
  { bh1 := p1.rep, bh2 := p2.rep, len1 := p1.len, len2 := p2.len, log := h.log }

/-- rs: `init_from` = clear both representations + `init_from_partial` -/
def initFrom (t : Target) (h : FH) : Target :=
  initFromPartial { t with bh1 := List.replicate 64 0, bh2 := List.replicate 64 0 } h

/-- rs: `From<&FuzzyHashData<_, _, true>>` -/
def fromHash (h : FH) : Target := initFromPartial new h

/-- rs: `is_equiv_except_block_size` -/
def isEquivExceptBlockSize (t : Target) (h : FH) : Bool :=
  t.pa1.isEquivInternal h.blockHash1 && t.pa2.isEquivInternal h.blockHash2

/-- rs: `is_equiv` -/
def isEquiv (t : Target) (h : FH) : Bool :=
  if t.log != h.log then false else t.isEquivExceptBlockSize h

/-- rs: `is_valid` -/
def isValid (t : Target) : Bool :=
  BlockSize.isLogValid t.log && t.pa1.isValidAndNormalized && t.pa2.isValidAndNormalized

/-- rs: `compare_unequal_near_eq_internal` -/
def compareUnequalNearEq (t : Target) (o : FH) : Nat :=
  max (t.pa1.scoreStringsInternal o.blockHash1 t.log.toNat)
      (t.pa2.scoreStringsInternal o.blockHash2 (t.log.toNat + 1))

/-- rs: `compare_near_eq_internal` -/
def compareNearEq (t : Target) (o : FH) : Nat :=
  if t.isEquivExceptBlockSize o then 100 else t.compareUnequalNearEq o

/-- rs: `compare_unequal_near_lt_internal` -/
def compareUnequalNearLt (t : Target) (o : FH) : Nat :=
  t.pa2.scoreStringsInternal o.blockHash1 o.log.toNat

/-- rs: `compare_unequal_near_gt_internal` -/
def compareUnequalNearGt (t : Target) (o : FH) : Nat :=
  t.pa1.scoreStringsInternal o.blockHash2 t.log.toNat

/-- rs: `compare` -/
def compare (t : Target) (o : FH) : Nat :=
  match BlockSize.compareSizes t.log o.log with
  | .far => 0
  | .nearEq => t.compareNearEq o
  | .nearLt => t.compareUnequalNearLt o
  | .nearGt => t.compareUnequalNearGt o

/-- rs: `compare_unequal_internal` -/
def compareUnequal (t : Target) (o : FH) : Nat :=
  match BlockSize.compareSizes t.log o.log with
  | .far => 0
  | .nearEq => t.compareUnequalNearEq o
  | .nearLt => t.compareUnequalNearLt o
  | .nearGt => t.compareUnequalNearGt o

/-- rs: `is_comparison_candidate` (and the three `_near_*_internal` helpers) -/
def isComparisonCandidate (t : Target) (o : FH) : Bool :=
  match BlockSize.compareSizes t.log o.log with
  | .far => false
  | .nearEq => t.pa1.hasCommonSubstringInternal o.blockHash1
                || t.pa2.hasCommonSubstringInternal o.blockHash2
  | .nearLt => t.pa2.hasCommonSubstringInternal o.blockHash1
  | .nearGt => t.pa1.hasCommonSubstringInternal o.blockHash2

end Target

/-- rs: compare.rs `FuzzyHashData::compare_optimized_internal` -/
def FH.compareOptimized (a b : FH) (checkEquality : Bool) : Nat :=
  match BlockSize.compareSizes a.log b.log with
  | .nearEq =>
    if checkEquality && FH.eq a b then 100
    else (Target.fromHash a).compareUnequalNearEq b
  | .nearLt => (PA.new.initFromPartial a.blockHash2).scoreStringsInternal b.blockHash1 b.log.toNat
  | .nearGt => (PA.new.initFromPartial a.blockHash1).scoreStringsInternal b.blockHash2 a.log.toNat
  | .far => 0

/-- rs: compare.rs `FuzzyHashData::compare` -/
def FH.compare (a b : FH) : Nat := FH.compareOptimized a b true

/-- rs: compare_easy.rs `compare`: parse both as `LongFuzzyHash`, then `lhs.compare(rhs)`;
    errors carry the side (`false` = left) -/
def compareEasy (cfg : Cfg) (l r : List UInt8) : Except (Bool × ParseError) Nat :=
  match FH.parse cfg FULL_SIZE true l with
  | .error e => .error (false, e)
  | .ok (a, _) =>
    match FH.parse cfg FULL_SIZE true r with
    | .error e => .error (true, e)
    | .ok (b, _) => .ok (FH.compare a b)

/-! ### hash/block.rs windows -/

/-- rs: block.rs `NumericWindows` as the produced sequence: the i-th value is the base-64 number of
    `bh[i..i+7]`, computed by the rolling `((hash << 6) | v) & MASK` update -/
def numericWindowsLoop : List UInt8 → BitVec 64 → List (BitVec 64)
  | [], _ => []
  | v :: rest, hash =>
    let hash := ((hash <<< 6) ||| BitVec.ofNat 64 v.toNat) &&& ((1 : BitVec 64) <<< 42) - 1
    hash :: numericWindowsLoop rest hash

def numericWindows (bh : List UInt8) : List (BitVec 64) :=
  if bh.length < MIN_LCS_FOR_COMPARISON then []
  else
    let init := (bh.take 6).zipIdx.foldl
      (fun acc (p : UInt8 × Nat) => acc ||| (BitVec.ofNat 64 p.1.toNat <<< (6 * (5 - p.2)))) (0 : BitVec 64)
    numericWindowsLoop (bh.drop 6) init

/-- rs: block.rs `IndexWindows` -/
def indexWindows (bh : List UInt8) (log : UInt8) : List (BitVec 64) :=
  (numericWindows bh).map (fun x => x ||| (BitVec.ofNat 64 log.toNat <<< 42))

/-- rs: `slice::windows(7)` -/
def windows7 : List UInt8 → List (List UInt8)
  | [] => []
  | x :: xs => if (x :: xs).length < 7 then [] else (x :: xs).take 7 :: windows7 xs

end Ffuzzy
