/-
  Line-protocol driver: one operation per input line, one result line per operation.
  Each result line is `<model result>\t<spec result or ->`.
  The Rust harness (`/verif/harness`) prints, for the same operation lines, the implementation's
  result in the same canonical form as the model column.
-/
import FfuzzyModel.Basic
import FfuzzyModel.Rolling
import FfuzzyModel.Fnv
import FfuzzyModel.Base64
import FfuzzyModel.BlockSize
import FfuzzyModel.Hash
import FfuzzyModel.Parse
import FfuzzyModel.Dual
import FfuzzyModel.PosArray
import FfuzzyModel.Compare
import FfuzzyModel.Generator
import FfuzzyModel.Stream
import FfuzzyModel.Spec.Score
import FfuzzyModel.Spec.Ctph
import FfuzzyModel.Spec.Grammar
namespace Ffuzzy.Driver
open Ffuzzy

def b2s (b : Bool) : String := if b then "1" else "0"

def strOfBytes (l : List UInt8) : String := String.ofList (l.map fun b => Char.ofNat b.toNat)

def hx (l : List UInt8) : String := hexOfBytes l

/-- type codes of the six hash types: capacity of block hash 2, normalising?, dual? -/
structure Ty where
  s2 : Nat
  norm : Bool
  dual : Bool

def tyOf (s : String) : Option Ty :=
  match s with
  | "R" => some ⟨32, false, false⟩
  | "LR" => some ⟨64, false, false⟩
  | "N" => some ⟨32, true, false⟩
  | "LN" => some ⟨64, true, false⟩
  | "D" => some ⟨32, false, true⟩
  | "LD" => some ⟨64, false, true⟩
  | _ => none

def kindStr : ParseErrorKind → String
  | .blockSizeIsEmpty => "BlockSizeIsEmpty"
  | .blockSizeStartsWithZero => "BlockSizeStartsWithZero"
  | .blockSizeIsInvalid => "BlockSizeIsInvalid"
  | .blockSizeIsTooLarge => "BlockSizeIsTooLarge"
  | .blockHashIsTooLong => "BlockHashIsTooLong"
  | .unexpectedCharacter => "UnexpectedCharacter"
  | .unexpectedEndOfString => "UnexpectedEndOfString"

def originStr : ParseErrorOrigin → String
  | .blockSize => "BlockSize" | .blockHash1 => "BlockHash1" | .blockHash2 => "BlockHash2"

def genErrStr : GenErr → String
  | .fixedSizeMismatch => "FixedSizeMismatch"
  | .fixedSizeTooLarge => "FixedSizeTooLarge"
  | .inputSizeTooLarge => "InputSizeTooLarge"
  | .outputOverflow => "OutputOverflow"

def ordStr : Ordering → String | .lt => "lt" | .eq => "eq" | .gt => "gt"

def fhText (h : FH) : String := strOfBytes h.text

def symText (k : Nat) (b1 b2 : List UInt8) : String :=
  toString (3 * 2 ^ k) ++ ":" ++ strOfBytes (b1.map b64Char) ++ ":" ++ strOfBytes (b2.map b64Char)

def digestStr : Except GenErr Digest → String
  | .error e => "ERR(" ++ genErrStr e ++ ")"
  | .ok d => symText d.log d.bh1 d.bh2

def natsOf (s : String) : List Nat :=
  if s == "-" then [] else (s.splitOn ",").filterMap String.toNat?

/-! ### prim -/

/-- chunks `form:hex` of a hasher history (the update form is a presentation of the same bytes) -/
def histChunks (chunks : List String) : Option (List (List UInt8)) :=
  chunks.mapM fun c =>
    match c.splitOn ":" with
    | [f, h] => if ["u", "i", "b", "a", "A", "n"].contains f then bytesOfHex h else none
    | _ => none

def natList (l : List Nat) : String :=
  if l.isEmpty then "-" else ",".intercalate (l.map toString)

def runPrim (args : List String) : String × String :=
  match args with
  | ["roll", h] =>
    match bytesOfHex h with
    | some bs => (toString ((Roll.new.update bs).value.toNat), toString (rollSpec bs).toNat)
    | none => ("bad-op", "-")
  | ["fnv", h] =>
    match bytesOfHex h with
    | some bs => (toString (fnvUpdate fnvInit bs).toNat, toString (fnvSpec bs).toNat)
    | none => ("bad-op", "-")
  | "rollh" :: chunks =>
    match histChunks chunks with
    | some cs =>
      let vals := (cs.foldl (fun (st : Roll × List Nat) c => let r := st.1.update c; (r, st.2 ++ [r.value.toNat])) (Roll.new, [])).2
      let refs := (cs.foldl (fun (st : List UInt8 × List Nat) c => let p := st.1 ++ c; (p, st.2 ++ [(rollSpec p).toNat])) ([], [])).2
      (natList vals, natList refs)
    | none => ("bad-op", "-")
  | "fnvh" :: chunks =>
    match histChunks chunks with
    | some cs =>
      let vals := (cs.foldl (fun (st : UInt8 × List Nat) c => let r := fnvUpdate st.1 c; (r, st.2 ++ [r.toNat])) (fnvInit, [])).2
      let refs := (cs.foldl (fun (st : List UInt8 × List Nat) c => let p := st.1 ++ c; (p, st.2 ++ [(fnvSpec p).toNat])) ([], [])).2
      (natList vals, natList refs)
    | none => ("bad-op", "-")
  | _ => ("bad-op", "-")

/-! ### bs -/

def relStr : Rel → String | .nearLt => "NearLt" | .nearEq => "NearEq" | .nearGt => "NearGt" | .far => "Far"

def specRel (a b : Nat) : String :=
  if a = b then "NearEq" else if a + 1 = b then "NearLt" else if a = b + 1 then "NearGt" else "Far"

def runBs (args : List String) : String × String :=
  match args with
  | ["valid", x] =>
    match x.toNat? with
    | some v =>
      (b2s (BlockSize.isValid v.toUInt32),
       b2s ((List.range 31).any fun n => v = 3 * 2 ^ n))
    | none => ("bad-op", "-")
  | ["fromlog", x] =>
    match x.toNat? with
    | some n =>
      ((match BlockSize.fromLog n.toUInt8 with | some v => toString v.toNat | none => "none"),
       if n < 31 then toString (3 * 2 ^ n) else "none")
    | none => ("bad-op", "-")
  | ["logvalid", x] =>
    match x.toNat? with
    | some v =>
      ((match BlockSize.logFromValid v.toUInt32 with | some n => toString n.toNat | none => "PANIC"),
       match (List.range 31).find? (fun n => v = 3 * 2 ^ n) with
       | some n => toString n | none => "PANIC")
    | none => ("bad-op", "-")
  | ["str", x] =>
    match x.toNat? with
    | some n => (strOfBytes (BlockSize.str n.toUInt8), toString (3 * 2 ^ n))
    | none => ("bad-op", "-")
  | ["rel", a, b] =>
    match a.toNat?, b.toNat? with
    | some a, some b =>
      let l := a.toUInt8; let r := b.toUInt8
      (s!"{b2s (BlockSize.isNear l r)} {b2s (BlockSize.isNearEq l r)} {b2s (BlockSize.isNearLt l r)} {b2s (BlockSize.isNearGt l r)} {relStr (BlockSize.compareSizes l r)} {ordStr (BlockSize.cmp l r)}",
       s!"{b2s (a = b ∨ a + 1 = b ∨ a = b + 1)} {b2s (a = b)} {b2s (a + 1 = b)} {b2s (a = b + 1)} {specRel a b} {ordStr (compare a b)}")
    | _, _ => ("bad-op", "-")
  | ["raw", l1, l2, d] =>
    match l1.toNat?, l2.toNat?, d.toNat? with
    | some l1, some l2, some d =>
      ((match PA.rawScoreByEditDistance l1 l2 d with | some s => toString s | none => "PANIC"),
       if 7 ≤ l1 ∧ l1 ≤ 64 ∧ 7 ≤ l2 ∧ l2 ≤ 64 ∧ d ≤ l1 + l2 - 14
       then toString (100 - (100 * ((64 * d) / (l1 + l2))) / 64) else "PANIC")
    | _, _, _ => ("bad-op", "-")
  | ["cap", n, l1, l2] =>
    match n.toNat?, l1.toNat?, l2.toNat? with
    | some n, some l1, some l2 =>
      (toString (PA.scoreCap n l1 l2), if n < 4 then toString (2 ^ n * min l1 l2) else "100")
    | _, _, _ => ("bad-op", "-")
  | ["const"] =>
    (s!"MIN={BlockSize.MIN.toNat} NUM_VALID={BlockSize.NUM_VALID} FULL={FULL_SIZE} HALF={HALF_SIZE} MAXSEQ={MAX_SEQUENCE_SIZE} MINLCS={MIN_LCS_FOR_COMPARISON} WINDOW=7 MAXIN={Gen.MAX_INPUT_SIZE} MINREC={Gen.MIN_RECOMMENDED_INPUT_SIZE} BORDER={PA.CAPPING_BORDER} MAXLEN={FH.maxLenInStr 64} MAXLEN_S={FH.maxLenInStr 32} MAXLEN_L={FH.maxLenInStr 64} NWBITS=42 IWBITS=47",
     "-")
  | _ => ("bad-op", "-")

/-! ### parse -/

def parseErrStr (e : ParseError) : String := s!"ERR {kindStr e.kind} {originStr e.origin}"

def refStr (r : Except ParseErrorOrigin Spec.RefOk) : String :=
  match r with
  | .error o => s!"ERR * {originStr o}"
  | .ok r => s!"OK {r.log} {hx r.bh1} {hx r.bh2} {r.index} v=1"

def runParse (cfg : Cfg) (args : List String) : String × String :=
  match args with
  | [t, h] =>
    match tyOf t, bytesOfHex h with
    | some ty, some bs =>
      if ty.dual then
        match DH.parse cfg ty.s2 bs with
        | none => ("PANIC", refStr (Spec.refParse cfg ty.s2 true true bs))
        | some (.error e) => (parseErrStr e, refStr (Spec.refParse cfg ty.s2 true true bs))
        | some (.ok (d, idx)) =>
          (s!"OK {d.norm.log.toNat} {hx d.norm.blockHash1} {hx d.norm.blockHash2} {idx} v={b2s (DH.isValid ty.s2 d)} fe={b2s (DH.freshEq ty.s2 d)}",
           refStr (Spec.refParse cfg ty.s2 true true bs))
      else
        match FH.parse cfg ty.s2 ty.norm bs with
        | .error e => (parseErrStr e, refStr (Spec.refParse cfg ty.s2 ty.norm false bs))
        | .ok (f, idx) =>
          (s!"OK {f.log.toNat} {hx f.blockHash1} {hx f.blockHash2} {idx} v={b2s (FH.isValid ty.s2 ty.norm f)}",
           refStr (Spec.refParse cfg ty.s2 ty.norm false bs))
    | _, _ => ("bad-op", "-")
  | _ => ("bad-op", "-")

end Ffuzzy.Driver
