/-
  Basic definitions shared by the executable model of a4lg/ffuzzy.
  IMPORT-FREE (core Lean only) so that the line-protocol driver links as a native executable.
-/
namespace Ffuzzy

/-- Build configuration of the Rust crate that the model is instantiated with. -/
structure Cfg where
  debugAssertions : Bool := true
  strictParser : Bool := false
  deriving Repr, DecidableEq

/-- Slice helpers mirroring `dst[i..i+s.len()].copy_from_slice(s)` and `dst[i..j].fill(v)`.
    They are only used in-range; `WF` lemmas show the length is preserved. -/
def setSlice (a : List α) (i : Nat) (s : List α) : List α :=
  a.take i ++ s ++ a.drop (i + s.length)

def fillSlice (a : List α) (i j : Nat) (v : α) : List α :=
  a.take i ++ List.replicate (j - i) v ++ a.drop j

/-- pad a list with `v` up to length `n` (a fresh zero-initialised array written from index 0) -/
def padTo (l : List α) (n : Nat) (v : α) : List α :=
  l ++ List.replicate (n - l.length) v

/-! ### hex encoding used by the line protocol -/

def hexDigit (n : Nat) : Char :=
  if n < 10 then Char.ofNat (48 + n) else Char.ofNat (87 + n)

def hexOfByte (b : UInt8) : String :=
  String.ofList [hexDigit (b.toNat / 16), hexDigit (b.toNat % 16)]

def hexOfBytes (l : List UInt8) : String :=
  if l.isEmpty then "-" else String.join (l.map hexOfByte)

def hexVal (c : UInt8) : Option UInt8 :=
  if 48 ≤ c && c ≤ 57 then some (c - 48)
  else if 97 ≤ c && c ≤ 102 then some (c - 87)
  else if 65 ≤ c && c ≤ 70 then some (c - 55)
  else none

/-- decode a hex string ("-" = empty) -/
def bytesOfHex (s : String) : Option (List UInt8) :=
  if s == "-" then some [] else
  let bs := s.toUTF8
  if bs.size % 2 != 0 then none else
  let rec go (i : Nat) (fuel : Nat) (acc : Array UInt8) : Option (Array UInt8) :=
    match fuel with
    | 0 => some acc
    | fuel + 1 =>
      match hexVal (bs.get! i), hexVal (bs.get! (i + 1)) with
      | some h, some l => go (i + 2) fuel (acc.push (h * 16 + l))
      | _, _ => none
  (go 0 (bs.size / 2) (Array.mkEmpty (bs.size / 2))).map Array.toList

end Ffuzzy
