/-
  Reference grammar of fuzzy-hash texts (specification for C04 / C05):
  `<block size>:<base64 chars>:<base64 chars>[,<anything>]`.
-/
import FfuzzyModel.Parse
import FfuzzyModel.Spec.Score
namespace Ffuzzy.Spec

def isDigit (c : UInt8) : Bool := 48 ≤ c && c ≤ 57
def isB64 (c : UInt8) : Bool := b64Index c != b64Invalid

def decimalValue (ds : List UInt8) : Nat := ds.foldl (fun acc d => acc * 10 + (d - 48).toNat) 0

/-- the block size field denotes one of the 31 valid sizes in canonical decimal; returns its log -/
def blockSizeLog (ds : List UInt8) : Option Nat :=
  if ds.isEmpty || ds.head? == some 48 then none
  else (List.range 31).find? fun n => decimalValue ds = 3 * 2 ^ n

structure RefOk where
  log : Nat
  bh1 : List UInt8
  bh2 : List UInt8
  index : Nat
  deriving Repr, DecidableEq

/-- capacity test of the statement: after run-collapsing for normalising types under the default
    parser; on the raw text for raw and dual types and for all types under the strict parser -/
def fits (cfg : Cfg) (norm dual : Bool) (cap : Nat) (x : List UInt8) : Bool :=
  if norm && !dual && !cfg.strictParser then (collapse x).length ≤ cap else x.length ≤ cap

/-- reference parser: `Except origin RefOk`.  `norm` = the stored block hashes are run-collapsed
    (normalising and dual types). -/
def refParse (cfg : Cfg) (s2 : Nat) (norm dual : Bool) (t : List UInt8) : Except ParseErrorOrigin RefOk :=
  let ds := t.takeWhile isDigit
  let r0 := t.drop ds.length
  match r0 with
  | [] => .error .blockSize
  | c0 :: r1 =>
    if c0 != 58 then .error .blockSize else
    match blockSizeLog ds with
    | none => .error .blockSize
    | some log =>
      let x1 := r1.takeWhile isB64
      let r2 := r1.drop x1.length
      if !fits cfg norm dual FULL_SIZE x1 then .error .blockHash1 else
      match r2 with
      | [] => .error .blockHash1
      | c1 :: r3 =>
        if c1 != 58 then .error .blockHash1 else
        let x2 := r3.takeWhile isB64
        let r4 := r3.drop x2.length
        if !fits cfg norm dual s2 x2 then .error .blockHash2 else
        let ok : RefOk :=
          { log := log,
            bh1 := (if norm then collapse x1 else x1).map b64Index,
            bh2 := (if norm then collapse x2 else x2).map b64Index,
            index := ds.length + 1 + x1.length + 1 + x2.length }
        match r4 with
        | [] => .ok ok
        | c2 :: _ => if c2 == 44 then .ok ok else .error .blockHash2

/-- the text of a hash given as `(log, symbols, symbols)` -/
def textOf (log : Nat) (b1 b2 : List UInt8) : List UInt8 :=
  (toString (3 * 2 ^ log)).toUTF8.toList ++ [58] ++ b1.map b64Char ++ [58] ++ b2.map b64Char

end Ffuzzy.Spec
