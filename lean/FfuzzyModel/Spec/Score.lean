/-
  Executable specifications for the comparison side: textbook LCS, declarative common 7-gram,
  and the ssdeep score exactly as property C02 states it.
-/
import FfuzzyModel.Hash
namespace Ffuzzy.Spec

/-- textbook longest-common-subsequence length -/
def lcs [DecidableEq α] : List α → List α → Nat
  | [], _ => 0
  | _ :: _, [] => 0
  | x :: xs, y :: ys =>
    if x = y then lcs xs ys + 1 else max (lcs xs (y :: ys)) (lcs (x :: xs) ys)

/-- one DP row: from `prev = (ys.tails).map (lcs xs)` compute `(ys.tails).map (lcs (x :: xs))` -/
def lcsRow [DecidableEq α] (x : α) : List α → List Nat → List Nat
  | [], _ => [0]
  | y :: ys, prev =>
    let rest := lcsRow x ys prev.tail
    let v := if x = y then prev.tail.headD 0 + 1 else max (prev.headD 0) (rest.headD 0)
    v :: rest

/-- quadratic dynamic-programming LCS used as run-time oracle; `lcsDP_eq_lcs` proves it equal to `lcs` -/
def lcsDP [DecidableEq α] (a b : List α) : Nat :=
  (a.foldr (fun x prev => lcsRow x b prev) (List.replicate (b.length + 1) 0)).headD 0

/-- the two strings share a contiguous substring of 7 symbols -/
def common7 (a b : List UInt8) : Bool :=
  (List.range (a.length - 6)).any fun i =>
    (List.range (b.length - 6)).any fun j =>
      a.length ≥ 7 && b.length ≥ 7 && (a.drop i).take 7 == (b.drop j).take 7

/-- insert/delete edit distance -/
def editDistance (a b : List UInt8) : Nat := a.length + b.length - 2 * lcs a b

/-- run-time version of `editDistance` -/
def editDistanceDP (a b : List UInt8) : Nat := a.length + b.length - 2 * lcsDP a b

/-- score of one pair of block hashes at log block size `k` (may be 31 for block hash 2),
    parameterised by the edit-distance function so that the driver can run it with the DP -/
def scorePairWith (ed : List UInt8 → List UInt8 → Nat) (x y : List UInt8) (k : Nat) : Nat :=
  if !common7 x y then 0
  else
    let d := ed x y
    let raw := 100 - (100 * ((64 * d) / (x.length + y.length))) / 64
    if k < 4 then min raw (2 ^ k * min x.length y.length) else raw

/-- the ssdeep 2.14.1 similarity score on normalised hashes `(ka, a1, a2)`, `(kb, b1, b2)` -/
def scoreWith (ed : List UInt8 → List UInt8 → Nat)
    (ka : Nat) (a1 a2 : List UInt8) (kb : Nat) (b1 b2 : List UInt8) : Nat :=
  if ka = kb ∧ a1 = b1 ∧ a2 = b2 then 100
  else if ka = kb then max (scorePairWith ed a1 b1 ka) (scorePairWith ed a2 b2 (ka + 1))
  else if ka + 1 = kb then scorePairWith ed a2 b1 kb
  else if ka = kb + 1 then scorePairWith ed a1 b2 ka
  else 0

def scorePair := scorePairWith editDistance
def score := scoreWith editDistance
/-- run-time version (`lcsDP` instead of the exponential recursion) -/
def scoreDP := scoreWith editDistanceDP

/-- collapse every run of more than three identical elements to exactly three -/
def collapseAux [DecidableEq α] : List α → Option α → Nat → List α
  | [], _, _ => []
  | x :: xs, prev, run =>
    if prev = some x then
      if run ≥ 3 then collapseAux xs prev run else x :: collapseAux xs prev (run + 1)
    else x :: collapseAux xs (some x) 1

def collapse [DecidableEq α] (l : List α) : List α := collapseAux l none 0

end Ffuzzy.Spec
