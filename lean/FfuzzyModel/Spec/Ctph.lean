/-
  Declarative specification of the ssdeep 2.14.1 CTPH digest (property C01), independent of the
  incremental engine: rolling value from the closed form over the trailing window, piece hashes
  from full 32-bit FNV-1, cut positions as a filter, block size chosen from the input size and the
  piece counts.
-/
import FfuzzyModel.Rolling
import FfuzzyModel.Fnv
import FfuzzyModel.Generator
namespace Ffuzzy.Spec

/-- rolling value after each prefix, from the closed form over the last 7 bytes -/
def rollValsAux : List UInt8 → List UInt8 → List UInt32
  | _, [] => []
  | w, c :: cs =>
    let w' := w.drop 1 ++ [c]
    rollSpecWindow w' :: rollValsAux w' cs

def rollVals (bs : List UInt8) : List UInt32 := rollValsAux (List.replicate 7 0) bs

/-- positions (1-based end offsets) where a piece ends at level `k`:
    the rolling value `v` satisfies `v % (3·2^k) = 3·2^k − 1` -/
def cuts (rv : List UInt32) (k : Nat) : List Nat :=
  (rv.zipIdx.filter fun (v, _) => v.toNat % (3 * 2 ^ k) = 3 * 2 ^ k - 1).map fun (_, t) => t + 1

/-- low 6 bits of FNV-1 over `bs[lo..hi)` -/
def pieceHash (bs : Array UInt8) (lo hi : Nat) : UInt8 := fnvSpec (bs.extract lo hi).toList

/-- digest characters of one level with piece cap `cap` (64, or 32 for the truncated block hash 2):
    the first `cap − 1` pieces, then — if there are at least `cap` cuts — one character for
    everything from the `(cap−1)`-th cut to the last cut; plus the hash of the unfinished tail -/
def levelDigest (bs : Array UInt8) (cs : List Nat) (cap : Nat) : List UInt8 × UInt8 :=
  let firsts := cs.take (cap - 1)
  let starts := 0 :: firsts
  let pieces := (starts.zip firsts).map fun (lo, hi) => pieceHash bs lo hi
  let prev := firsts.getLast?.getD 0
  let stored := if cs.length ≥ cap then pieces ++ [pieceHash bs prev (cs.getLast?.getD 0)] else pieces
  (stored, pieceHash bs prev bs.size)

/-- append / merge the tail character when the final rolling value is non-zero -/
def withTail (stored : List UInt8) (tail : UInt8) (cap : Nat) (finalNonZero : Bool) : List UInt8 :=
  if finalNonZero then
    if stored.length = cap then stored.set (cap - 1) tail else stored ++ [tail]
  else stored

/-- least `k` with `192·2^k ≥ n` -/
def initialLog (n : Nat) : Nat := (List.range 64).find? (fun k => 192 * 2 ^ k ≥ n) |>.getD 63

/-- block-size choice: start from `min 30 (initialLog n)`, halve while the level has < 32 pieces -/
def chooseLog (rv : List UInt32) (n : Nat) : Nat :=
  let rec go : Nat → Nat
    | 0 => 0
    | k + 1 => if min ((cuts rv (k + 1)).length) 63 < 32 then go k else k + 1
  go (min 30 (initialLog n))

/-- everything that does not depend on the output variant -/
structure Analysis where
  arr : Array UInt8
  rv : List UInt32
  finalNonZero : Bool
  k : Nat
  bh1 : List UInt8

def analyze (bs : List UInt8) : Analysis :=
  let arr := bs.toArray
  let rv := rollVals bs
  let finalNonZero := (rv.getLast?.getD 0) != 0
  let k := chooseLog rv bs.length
  let (d1, t1) := levelDigest arr (cuts rv k) 64
  { arr := arr, rv := rv, finalNonZero := finalNonZero, k := k, bh1 := withTail d1 t1 64 finalNonZero }

def digestOf (a : Analysis) (trunc : Bool) (s2 : Nat) : Except GenErr Digest :=
  let n := a.arr.size
  if n > Gen.MAX_INPUT_SIZE then .error .inputSizeTooLarge else
  let cap2 := if trunc then 32 else 64
  -- level 31 never ends a piece in 32-bit arithmetic: its digest is the hash of the whole input
  let (d2, t2) := if a.k + 1 ≤ 30 then levelDigest a.arr (cuts a.rv (a.k + 1)) cap2
                  else ([], pieceHash a.arr 0 n)
  let bh2 := withTail d2 t2 cap2 a.finalNonZero
  if !trunc && s2 = 32 && bh2.length > 32 then .error .outputOverflow
  else .ok ⟨a.k, a.bh1, bh2⟩

/-- the CTPH digest; `s2` is the capacity of block hash 2 of the output type -/
def digest (bs : List UInt8) (trunc : Bool) (s2 : Nat) : Except GenErr Digest :=
  digestOf (analyze bs) trunc s2

end Ffuzzy.Spec
