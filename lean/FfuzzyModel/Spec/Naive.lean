/-
  The reference engine of spamsum / ssdeep (what libfuzzy computes, without ffuzzy's fork /
  elimination / size-limit optimisations): 32 independent block-size levels, every level updated on
  every byte, a piece ends at level `k` when the rolling value plus one is a non-zero multiple of `3·2^k`.
  Property C01 is stated against this engine (`FfuzzyProofs/Properties/C01.lean`); it is also compared
  at run time with the declarative digest of `Spec/Ctph.lean`.
-/
import FfuzzyModel.Generator
namespace Ffuzzy.Spec

/-- a piece ends at level `k` on rolling value `v` -/
def trig (k : Nat) (v : UInt32) : Bool := v + 1 != 0 && (v + 1).toNat % (3 * 2 ^ k) == 0

structure Naive where
  roll : Roll
  lv : Array Ctx
  size : Nat

def Naive.new : Naive := { roll := Roll.new, lv := Array.replicate 32 Ctx.new, size := 0 }

/-- one level on one byte: both piece hashes consume the byte; on a trigger the piece is stored -/
def levelStep (k : Nat) (v : UInt32) (ch : UInt8) (c : Ctx) : Ctx :=
  let c := { c with hFull := fnvStep c.hFull ch, hHalf := fnvStep c.hHalf ch }
  if trig k v then c.storePiece else c

def Naive.step (n : Naive) (ch : UInt8) : Naive :=
  let roll := n.roll.updateByByte ch
  { roll := roll, size := n.size + 1, lv := n.lv.mapIdx fun k c => levelStep k roll.value ch c }

def Naive.feed (bs : List UInt8) : Naive := bs.foldl Naive.step Naive.new

def Naive.at (n : Naive) (k : Nat) : Ctx := n.lv.getD k Ctx.new

/-- halve the block size while the level has fewer than 32 pieces -/
def naiveGuess (n : Naive) : Nat → Nat
  | 0 => 0
  | k + 1 => if (n.at (k + 1)).idx < 32 then naiveGuess n k else k + 1

/-- the digest: block size from the input size and the piece counts, block hash 1 from that level,
    block hash 2 from the level of the doubled block size (level 31 never ends a piece) -/
def Naive.digest (n : Naive) (trunc : Bool) (s2 : Nat) : Except GenErr Digest :=
  if Gen.MAX_INPUT_SIZE < n.size then .error .inputSizeTooLarge
  else
    let k := naiveGuess n (min 30 (Gen.logBlockSizeFromInputSize n.size 0))
    let nz := n.roll.value != 0
    match (n.at (k + 1)).digest2 nz trunc s2 with
    | .error e => .error e
    | .ok b2 => .ok ⟨k, (n.at k).digest1 nz, b2⟩

def naiveDigest (bs : List UInt8) (trunc : Bool) (s2 : Nat) : Except GenErr Digest :=
  (Naive.feed bs).digest trunc s2

end Ffuzzy.Spec
