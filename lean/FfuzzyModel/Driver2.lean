/-
  Line-protocol driver, part 2: formatting, normalisation, dual hashes, ordering, position arrays,
  comparison, windows.
-/
import FfuzzyModel.Driver
namespace Ffuzzy.Driver
open Ffuzzy

def natArg (s : String) : Option Nat := s.toNat?

/-- `S` / `L` → capacity of block hash 2 -/
def capOf (s : String) : Option Nat :=
  match s with | "S" => some 32 | "L" => some 64 | _ => none

/-! ### fmt (C05) -/

def runFmt (cfg : Cfg) (args : List String) : String × String :=
  match args with
  | [t, k, b1, b2, bl] =>
    match tyOf t, natArg k, bytesOfHex b1, bytesOfHex b2, natArg bl with
    | some ty, some k, some b1, some b2, some bl =>
      match FH.newFromInternalsNearRaw ty.s2 ty.norm k.toUInt8 b1 b2 with
      | none => ("PANIC", "-")
      | some h =>
        let text := h.toStringBytes
        let buf := List.replicate bl (0xAA : UInt8)
        let (store, clean) :=
          match h.storeIntoBytes buf with
          | none => ("ERR", true)
          | some (buf', n) =>
            (s!"OK:{n}", buf'.take n == text && (buf'.drop n).all (· == 0xAA))
        let rt := match FH.parse cfg ty.s2 ty.norm text with
          | .ok (h', i) => FH.eq h h' && FH.fullEq h h' && i == text.length
          | .error _ => false
        (s!"text={strOfBytes text} lis={h.lenInStr} max={FH.maxLenInStr ty.s2} routes=1 store={store} clean={b2s clean} rt={b2s rt}",
         s!"text={strOfBytes (Spec.textOf k b1 b2)} lis={(Spec.textOf k b1 b2).length} max={if ty.s2 = 32 then 108 else 140} routes=1 store={if bl < (Spec.textOf k b1 b2).length then "ERR" else s!"OK:{(Spec.textOf k b1 b2).length}"} clean=1 rt=1")
    | _, _, _, _, _ => ("bad-op", "-")
  | _ => ("bad-op", "-")

def runFmt2 (cfg : Cfg) (args : List String) : String × String :=
  match args with
  | [t, h] =>
    match tyOf t, bytesOfHex h with
    | some ty, some bs =>
      let m := match FH.parse cfg ty.s2 ty.norm bs with
        | .error _ => "ERR"
        | .ok (f, _) => s!"text={fhText f}"
      let sp := match Spec.refParse cfg ty.s2 ty.norm false bs with
        | .error _ => "ERR"
        | .ok r => s!"text={strOfBytes (Spec.textOf r.log r.bh1 r.bh2)}"
      (m, sp)
    | _, _ => ("bad-op", "-")
  | _ => ("bad-op", "-")

/-! ### norm (C06) -/

def runNorm (cfg : Cfg) (args : List String) : String × String :=
  match args with
  | [c, k, b1, b2] =>
    match capOf c, natArg k, bytesOfHex b1, bytesOfHex b2 with
    | some s2, some k, some b1, some b2 =>
      match FH.newFromInternalsNearRaw s2 false k.toUInt8 b1 b2 with
      | none => ("PANIC", "-")
      | some raw =>
        let r1 := FH.normalize false raw
        let r2 := FH.normalizeInPlace false raw
        let r3 := FH.cloneNormalized false raw
        let r4 := FH.normalize false raw        -- From<raw> for norm
        let r5 := match FH.parse cfg s2 true raw.text with
          | .ok (f, _) => fhText f | .error _ => "ERR"
        let r6 := match DH.fromRawForm s2 raw with
          | some d => fhText d.norm | none => "PANIC"
        let r7 := FH.normalize false raw        -- from_raw_form
        let all := [r1, r2, r3, r4, r7]
        let v := all.all (FH.isValid s2 true)
        let idem := FH.fullEq (FH.normalizeInPlace false r2) r2 && FH.fullEq (FH.normalizeInPlace true r1) r1
        let ct := strOfBytes (Spec.textOf k (Spec.collapse b1) (Spec.collapse b2))
        (s!"in={b2s (FH.isNormalized false raw)} r={fhText r1},{fhText r2},{fhText r3},{fhText r4},{r5},{r6},{fhText r7} out={b2s (FH.isNormalized false r2)} idem={b2s idem} v={b2s v}",
         s!"in={b2s (Spec.collapse b1 == b1 && Spec.collapse b2 == b2)} r={ct},{ct},{ct},{ct},{ct},{ct},{ct} out=1 idem=1 v=1")
    | _, _, _, _ => ("bad-op", "-")
  | _ => ("bad-op", "-")

/-- `normx <k> <bh1> <bh2>`: a long raw hash whose normalisation may or may not fit the short form:
    normalise-then-narrow vs. parsing the raw text directly into the short / long normalising types -/
def runNormX (cfg : Cfg) (args : List String) : String × String :=
  match args with
  | [k, b1, b2] =>
    match natArg k, bytesOfHex b1, bytesOfHex b2 with
    | some k, some b1, some b2 =>
      match FH.newFromInternalsNearRaw 64 false k.toUInt8 b1 b2 with
      | none => ("PANIC", "-")
      | some raw =>
        let ln := FH.normalize false raw
        let r1 := match FH.tryFromLong ln with | some n => fhText n | none => "ERR"
        let r2 := match FH.parse cfg 32 true raw.text with | .ok (f, _) => fhText f | .error _ => "ERR"
        let r3 := match FH.parse cfg 64 true raw.text with
          | .ok (f, _) => (match FH.tryFromLong f with | some n => fhText n | none => "ERR")
          | .error _ => "ERR"
        let c2 := Spec.collapse b2
        let sp := if c2.length ≤ 32 then strOfBytes (Spec.textOf k (Spec.collapse b1) c2) else "ERR"
        -- under the strict parser the short normalising type rejects a raw block hash 2 above its capacity
        let sp2 := if cfg.strictParser && b2.length > 32 then "ERR" else sp
        (s!"r={r1},{r2},{r3}", s!"r={sp},{sp2},{sp}")
    | _, _, _ => ("bad-op", "-")
  | _ => ("bad-op", "-")

/-! ### dual (C07) -/

def dhEqAll (l : List DH) : Bool :=
  match l with
  | [] => true
  | d :: rest => rest.all fun e => DH.eq d e && d == e

def runDual (cfg : Cfg) (args : List String) : String × String :=
  match args with
  | [c, k, b1, b2] =>
    match capOf c, natArg k, bytesOfHex b1, bytesOfHex b2 with
    | some s2, some k, some b1, some b2 =>
      match FH.newFromInternalsNearRaw s2 false k.toUInt8 b1 b2 with
      | none => ("PANIC", "-")
      | some raw =>
        let a := DH.fromRawForm s2 raw
        let b := DH.newFromInternalsNearRaw s2 k.toUInt8 b1 b2
        let c := match DH.parse cfg s2 raw.text with
          | some (.ok (d, _)) => some d | _ => none
        let e := DH.newFromInternals s2 (BlockSize.fromLogInternal k.toUInt8) b1 b2
        -- a reused object that still holds a hash whose RLE blocks are completely filled
        let dirtyRaw := FH.newFromInternalsNearRaw s2 false 30 (List.replicate 64 63) (List.replicate s2 62)
        let f := (dirtyRaw.bind (DH.fromRawForm s2)).bind fun d => DH.initFromRawForm d raw
        match a, b, c, e, f with
        | some a, some b, some c, some e, some f =>
          let same := dhEqAll [a, b, c, e, f]
          let hw := [b, c, e, f].all fun d => DH.hashWrites d == DH.hashWrites a
          let ce := [b, c, e, f].all fun d => DH.cmp a d == .eq
          let rawBack := DH.toRawForm s2 a
          let nip := DH.normalizeInPlace s2 a
          let fn := DH.fromNormalized s2 a.norm
          let fr := DH.fromRawForm s2 (FH.toRawForm a.norm)
          let nipOk := nip == fn && (some nip == fr) && DH.isValid s2 nip && nip.isNormalized
          let ct := strOfBytes (Spec.textOf k (Spec.collapse b1) (Spec.collapse b2))
          let rt := strOfBytes (Spec.textOf k b1 b2)
          (s!"n={fhText a.norm} raw={fhText rawBack} rfe={b2s (FH.fullEq rawBack raw)} v={b2s (DH.isValid s2 a)} same={b2s same} hw={b2s hw} ce={b2s ce} isn={b2s a.isNormalized} nip={b2s nipOk}",
           s!"n={ct} raw={rt} rfe=1 v=1 same=1 hw=1 ce=1 isn={b2s (Spec.collapse b1 == b1 && Spec.collapse b2 == b2)} nip=1")
        | _, _, _, _, _ => ("PANIC", "-")
    | _, _, _, _ => ("bad-op", "-")
  | _ => ("bad-op", "-")

def runDual2 (args : List String) : String × String :=
  match args with
  | [c, k1, a1, a2, k2, b1, b2] =>
    match capOf c, natArg k1, bytesOfHex a1, bytesOfHex a2, natArg k2, bytesOfHex b1, bytesOfHex b2 with
    | some s2, some k1, some a1, some a2, some k2, some b1, some b2 =>
      match DH.newFromInternalsNearRaw s2 k1.toUInt8 a1 a2, DH.newFromInternalsNearRaw s2 k2.toUInt8 b1 b2 with
      | some x, some y =>
        let req := k1 == k2 && a1 == b1 && a2 == b2
        let nc := FH.cmp x.norm y.norm
        (s!"eq={b2s (DH.eq x y)} heq={b2s (DH.hashWrites x == DH.hashWrites y)} ceq={b2s (DH.cmp x y == .eq)} anti={b2s (DH.cmp x y == (DH.cmp y x).swap)} ncmp={ordStr nc} cmp={if nc == .eq && DH.cmp x y != .eq then "ne" else ordStr (DH.cmp x y)}",
         s!"eq={b2s req} heq={b2s req} ceq={b2s req} anti=1 ncmp={ordStr nc}" ++ (if nc != .eq then s!" cmp={ordStr nc}" else ""))
      | _, _ => ("PANIC", "-")
    | _, _, _, _, _, _, _ => ("bad-op", "-")
  | _ => ("bad-op", "-")

/-! ### ord (C16) -/

/-- documented order: block size, then block hash 1 lexicographically (proper prefix first), then block hash 2 -/
def specLex : List UInt8 → List UInt8 → Ordering
  | [], [] => .eq
  | [], _ :: _ => .lt
  | _ :: _, [] => .gt
  | x :: xs, y :: ys => if x < y then .lt else if y < x then .gt else specLex xs ys

def runOrd (args : List String) : String × String :=
  match args with
  | [t, k1, a1, a2, k2, b1, b2] =>
    match tyOf t, natArg k1, bytesOfHex a1, bytesOfHex a2, natArg k2, bytesOfHex b1, bytesOfHex b2 with
    | some ty, some k1, some a1, some a2, some k2, some b1, some b2 =>
      match FH.newFromInternalsNearRaw ty.s2 ty.norm k1.toUInt8 a1 a2,
            FH.newFromInternalsNearRaw ty.s2 ty.norm k2.toUInt8 b1 b2 with
      | some x, some y =>
        let req := k1 == k2 && a1 == b1 && a2 == b2
        let sc := (compare k1 k2).then ((specLex a1 b1).then (specLex a2 b2))
        (s!"eq={b2s (FH.eq x y)} heq={b2s (FH.hashWrites x == FH.hashWrites y)} cmp={ordStr (FH.cmp x y)} teq={b2s (x.text == y.text)} anti={b2s (FH.cmp y x == (FH.cmp x y).swap)}",
         s!"eq={b2s req} heq={b2s req} cmp={ordStr sc} teq={b2s req} anti=1")
      | _, _ => ("PANIC", "-")
    | _, _, _, _, _, _, _ => ("bad-op", "-")
  | _ => ("bad-op", "-")

/-- insertion sort by `FH.cmp` on indices (model of `sort()` on a vector of hashes) -/
def sortIdx (hs : Array FH) : List Nat :=
  let ins (acc : List Nat) (i : Nat) : List Nat :=
    let rec go : List Nat → List Nat
      | [] => [i]
      | j :: rest => if FH.cmp (hs.getD i (FH.new 32)) (hs.getD j (FH.new 32)) == .lt then i :: j :: rest else j :: go rest
    go acc
  (List.range hs.size).foldl ins []

/-! ### position arrays (C08, C09, C17) -/

def optNat : Option Nat → String | some n => toString n | none => "PANIC"
def optBool : Option Bool → String | some b => b2s b | none => "PANIC"

def runPa (args : List String) : String × String :=
  match args with
  | ["ed", a, b] =>
    match bytesOfHex a, bytesOfHex b with
    | some a, some b =>
      match PA.new.initFrom a with
      | none => ("PANIC", "-")
      | some p =>
        let ok := a.length ≤ 64 ∧ b.length ≤ 64 ∧ b.all (· < 64)
        (optNat (p.editDistance b), if ok then toString (Spec.editDistanceDP a b) else "PANIC")
    | _, _ => ("bad-op", "-")
  | ["hs", x, len] =>
    match x.toNat?, len.toNat? with
    | some x, some len =>
      let v := BitVec.ofNat 64 x
      -- specification: some `len` consecutive positions of the 64 are all set
      let naive := len = 0 || (len ≤ 64 && (List.range (65 - len)).any fun i => (List.range len).all fun j => v.getLsbD (i + j))
      (b2s (hasSequences v len), b2s naive)
    | _, _ => ("bad-op", "-")
  | ["cs", a, b] =>
    match bytesOfHex a, bytesOfHex b with
    | some a, some b =>
      match PA.new.initFrom a with
      | none => ("PANIC", "-")
      | some p =>
        (optBool (p.hasCommonSubstring b), if b.all (· < 64) then b2s (Spec.common7 a b) else "PANIC")
    | _, _ => ("bad-op", "-")
  | _ => ("bad-op", "-")

def isNormSyms (l : List UInt8) : Bool := Spec.collapse l == l

/-- `pah <items separated by ;> <probe>`: items are hex strings or `c` (clear) -/
def runPaHist (args : List String) : String × String :=
  match args with
  | [seq, probe] =>
    match bytesOfHex probe with
    | none => ("bad-op", "-")
    | some probe =>
      let items := seq.splitOn ";"
      let step (st : Option (PA × List UInt8)) (it : String) : Option (PA × List UInt8) :=
        match st with
        | none => none
        | some (p, last) =>
          if it == "c" then some (p.clear, [])
          else match bytesOfHex it with
            | none => none
            | some bs => match p.initFrom bs with
              | none => some (p, last)     -- panic inside init_from: assert fires before any mutation
              | some p' => some (p', bs)
      match items.foldl step (some (PA.new, [])) with
      | none => ("bad-op", "-")
      | some (p, last) =>
        let fresh := (PA.new.initFrom last).getD PA.new
        (s!"v={b2s p.isValid} vn={b2s p.isValidAndNormalized} len={p.len.toNat} eqv={optBool (p.isEquiv last)} fe={b2s (p == fresh)} ed={optNat (p.editDistance probe)} cs={optBool (p.hasCommonSubstring probe)}",
         s!"v=1 vn={b2s (isNormSyms last)} len={last.length} eqv=1 fe=1 ed={Spec.editDistanceDP last probe} cs={b2s (Spec.common7 last probe)}")
  | _ => ("bad-op", "-")

/-- parse `k:bh1hex:bh2hex` -/
def hashArg (s : String) : Option (Nat × List UInt8 × List UInt8) :=
  match s.splitOn ":" with
  | [k, a, b] =>
    match natArg k, bytesOfHex a, bytesOfHex b with
    | some k, some a, some b => some (k, a, b)
    | _, _, _ => none
  | _ => none

def specCandidate (ka : Nat) (a1 a2 : List UInt8) (kb : Nat) (b1 b2 : List UInt8) : Bool :=
  if ka = kb then Spec.common7 a1 b1 || Spec.common7 a2 b2
  else if ka + 1 = kb then Spec.common7 a2 b1
  else if ka = kb + 1 then Spec.common7 a1 b2
  else false

/-- `tgt <S|L> <h1;h2;…> <probe>` -/
def runTgt (args : List String) : String × String :=
  match args with
  | [c, seq, probe] =>
    match capOf c, hashArg probe with
    | some s2, some (pk, p1, p2) =>
      let hs := (seq.splitOn ";").filterMap hashArg
      let mk (h : Nat × List UInt8 × List UInt8) : Option FH :=
        FH.newFromInternalsNearRaw s2 true h.1.toUInt8 h.2.1 h.2.2
      match hs, mk (pk, p1, p2) with
      | h0 :: rest, some pr =>
        match mk h0 with
        | none => ("PANIC", "-")
        | some f0 =>
          let t0 := Target.fromHash f0
          let res := rest.foldl (fun (acc : Option (Target × FH)) h =>
            match acc, mk h with
            | some (t, _), some f => some (t.initFrom f, f)
            | _, _ => none) (some (t0, f0))
          match res with
          | none => ("PANIC", "-")
          | some (t, last) =>
            let lastAbs := (hs.getLast?).getD h0
            let fresh := Target.fromHash last
            (s!"v={b2s t.isValid} fe={b2s (t.fullEq fresh)} eqv={b2s (t.isEquiv last)} eqp={b2s (t.isEquiv f0)} s={t.compare pr} c={b2s (t.isComparisonCandidate pr)} e1={optNat (t.pa1.editDistance pr.blockHash1)} e2={optNat (t.pa2.editDistance pr.blockHash2)} h1={optBool (t.pa1.hasCommonSubstring pr.blockHash1)} h2={optBool (t.pa2.hasCommonSubstring pr.blockHash2)}",
             s!"v=1 fe=1 eqv=1 eqp={b2s (h0 == lastAbs)} s={Spec.scoreDP lastAbs.1 lastAbs.2.1 lastAbs.2.2 pk p1 p2} c={b2s (specCandidate lastAbs.1 lastAbs.2.1 lastAbs.2.2 pk p1 p2)} e1={Spec.editDistanceDP last.blockHash1 pr.blockHash1} e2={Spec.editDistanceDP last.blockHash2 pr.blockHash2} h1={b2s (Spec.common7 last.blockHash1 pr.blockHash1)} h2={b2s (Spec.common7 last.blockHash2 pr.blockHash2)}")
      | _, _ => ("PANIC", "-")
    | _, _ => ("bad-op", "-")
  | _ => ("bad-op", "-")

/-! ### comparison (C02, C10) -/

def listInter (a b : List (BitVec 64)) : Bool := a.any fun x => b.contains x

def runCmp (args : List String) : String × String :=
  match args with
  | [k1, a1, a2, k2, b1, b2] =>
    match natArg k1, bytesOfHex a1, bytesOfHex a2, natArg k2, bytesOfHex b1, bytesOfHex b2 with
    | some k1, some a1, some a2, some k2, some b1, some b2 =>
      match FH.newFromInternalsNearRaw 64 true k1.toUInt8 a1 a2,
            FH.newFromInternalsNearRaw 64 true k2.toUInt8 b1 b2 with
      | some x, some y =>
        let t := Target.fromHash x
        let s1 := FH.compare x y
        let s2 := t.compare y
        let s := if s1 == s2 then toString s1 else s!"DISAGREE({s1},{s2})"
        let wa := indexWindows x.blockHash1 x.log ++ indexWindows x.blockHash2 (x.log + 1)
        let wb := indexWindows y.blockHash1 y.log ++ indexWindows y.blockHash2 (y.log + 1)
        (s!"s={s} c={b2s (t.isComparisonCandidate y)} w={b2s (listInter wa wb)} r={FH.compare y x}",
         s!"s={Spec.scoreDP k1 a1 a2 k2 b1 b2} c={b2s (specCandidate k1 a1 a2 k2 b1 b2)} w={b2s (specCandidate k1 a1 a2 k2 b1 b2)} r={Spec.scoreDP k2 b1 b2 k1 a1 a2}")
      | _, _ => ("PANIC", "-")
    | _, _, _, _, _, _ => ("bad-op", "-")
  | _ => ("bad-op", "-")

def runCmpS (cfg : Cfg) (args : List String) : String × String :=
  match args with
  | [a, b] =>
    match bytesOfHex a, bytesOfHex b with
    | some a, some b =>
      let m := match compareEasy cfg a b with
        | .ok s => s!"OK {s}"
        | .error (side, e) => s!"ERR {if side then "Right" else "Left"} {kindStr e.kind} {originStr e.origin}"
      let sp := match Spec.refParse cfg 64 true false a with
        | .error o => s!"ERR Left * {originStr o}"
        | .ok x => match Spec.refParse cfg 64 true false b with
          | .error o => s!"ERR Right * {originStr o}"
          | .ok y => s!"OK {Spec.scoreDP x.log x.bh1 x.bh2 y.log y.bh1 y.bh2}"
      (m, sp)
    | _, _ => ("bad-op", "-")
  | _ => ("bad-op", "-")

def natsStr (l : List Nat) : String := if l.isEmpty then "-" else ",".intercalate (l.map toString)

/-- base-64 value of a 7-symbol slice -/
def slice64 (w : List UInt8) : Nat := w.foldl (fun acc v => acc * 64 + v.toNat) 0

def runWin (args : List String) : String × String :=
  match args with
  | [c, k, b1, b2] =>
    match capOf c, natArg k, bytesOfHex b1, bytesOfHex b2 with
    | some s2, some k, some b1, some b2 =>
      match FH.newFromInternalsNearRaw s2 true k.toUInt8 b1 b2 with
      | none => ("PANIC", "-")
      | some h =>
        let n1 := (numericWindows h.blockHash1).map BitVec.toNat
        let n2 := (numericWindows h.blockHash2).map BitVec.toNat
        let i1 := (indexWindows h.blockHash1 h.log).map BitVec.toNat
        let i2 := (indexWindows h.blockHash2 (h.log + 1)).map BitVec.toNat
        let w1 := (windows7 b1).map slice64
        let w2 := (windows7 b2).map slice64
        (s!"n1={natsStr n1} i1={natsStr i1} n2={natsStr n2} i2={natsStr i2} w1={(windows7 h.blockHash1).length} w2={(windows7 h.blockHash2).length}",
         s!"n1={natsStr w1} i1={natsStr (w1.map (· + k * 2 ^ 42))} n2={natsStr w2} i2={natsStr (w2.map (· + (k + 1) * 2 ^ 42))} w1={b1.length - 6} w2={b2.length - 6}")
    | _, _, _, _ => ("bad-op", "-")
  | _ => ("bad-op", "-")

end Ffuzzy.Driver
