/-
  Model of ffuzzy/src/internals/hash_dual.rs: RLE encoding, compress / expand, validity,
  constructors, conversions, parser front end, Eq / Hash / Ord.
  `c1 = 16`, `c2 = s2 / 4`.
-/
import FfuzzyModel.Parse
namespace Ffuzzy

namespace Rle
def MAX_RUN_LENGTH : Nat := 4
def TERMINATOR : UInt8 := 0

/-- rs: `rle_encoding::encode` -/
def encode (pos len : UInt8) : UInt8 := pos ||| ((len - 1) <<< 6)

/-- rs: `rle_encoding::decode` -/
def decode (v : UInt8) : UInt8 × UInt8 := (v &&& 63, (v >>> 6) + 1)
end Rle

/-- rs: hash_dual.rs `algorithms::update_rle_block`; `none` = a slice / index is out of range (panic) -/
def updateRleBlock (rle : List UInt8) (rleOffset pos len : Nat) : Option (List UInt8 × Nat) :=
  let extendLenMinusOne := len - MAX_SEQUENCE_SIZE - 1
  let seqFillSize := extendLenMinusOne / Rle.MAX_RUN_LENGTH
  let start := rleOffset
  if start + seqFillSize < rle.length then
    let rle := fillSlice rle start (start + seqFillSize) (Rle.encode pos.toUInt8 Rle.MAX_RUN_LENGTH.toUInt8)
    let rle := rle.set (start + seqFillSize)
      (Rle.encode pos.toUInt8 ((extendLenMinusOne % Rle.MAX_RUN_LENGTH).toUInt8 + 1))
    some (rle, start + seqFillSize + 1)
  else none

/-- loop state of `compress_block_hash_with_rle` -/
structure CompressSt where
  out : List UInt8
  rle : List UInt8
  rleOffset : Nat := 0
  seq : Nat := 0
  len : Nat := 0
  prev : UInt8 := b64Invalid

/-- rs: hash_dual.rs `compress_block_hash_with_rle`, the `for &curr in blockhash_in` loop -/
def compressLoop : List UInt8 → CompressSt → Option CompressSt
  | [], s => some s
  | curr :: rest, s =>
    if curr == s.prev then
      if s.seq + 1 ≥ MAX_SEQUENCE_SIZE then compressLoop rest { s with seq := s.seq + 1 }
      else compressLoop rest { s with seq := s.seq + 1, out := s.out.set s.len curr, len := s.len + 1 }
    else
      let upd : Option (List UInt8 × Nat) :=
        if s.seq ≥ MAX_SEQUENCE_SIZE then updateRleBlock s.rle s.rleOffset (s.len - 1) (s.seq + 1)
        else some (s.rle, s.rleOffset)
      match upd with
      | none => none
      | some (rle, off) =>
        compressLoop rest { s with rle := rle, rleOffset := off, seq := 0, prev := curr,
                                   out := s.out.set s.len curr, len := s.len + 1 }

/-- rs: hash_dual.rs `compress_block_hash_with_rle`: returns `(blockhash_out, rle_block_out, len)` -/
def compressBlockHash (out rle : List UInt8) (input : List UInt8) : Option (List UInt8 × List UInt8 × UInt8) :=
  match compressLoop input { out := out, rle := rle } with
  | none => none
  | some s =>
    let upd : Option (List UInt8 × Nat) :=
      if s.seq ≥ MAX_SEQUENCE_SIZE then updateRleBlock s.rle s.rleOffset (s.len - 1) (s.seq + 1)
      else some (s.rle, s.rleOffset)
    match upd with
    | none => none
    | some (rle, off) =>
      some (fillSlice s.out s.len s.out.length 0, fillSlice rle off rle.length Rle.TERMINATOR, s.len.toUInt8)

/-- loop state of `expand_block_hash_using_rle` -/
structure ExpandSt where
  out : List UInt8
  offsetSrc : Nat := 0
  offsetDst : Nat := 0
  lenOut : Nat

/-- rs: hash_dual.rs `expand_block_hash_using_rle`, the `for &rle in rle_block_in` loop -/
def expandLoop (inp : List UInt8) : List UInt8 → ExpandSt → ExpandSt
  | [], s => s
  | r :: rest, s =>
    let (pos, len) := Rle.decode r
    if pos == 0 then s
    else
      let pos := pos.toNat
      let len := len.toNat
      let copyLen := pos - s.offsetSrc
      let out := setSlice s.out s.offsetDst ((inp.drop s.offsetSrc).take copyLen)
      let lastch := inp.getD pos 0
      let out := fillSlice out (s.offsetDst + copyLen) (s.offsetDst + copyLen + len) lastch
      expandLoop inp rest { out := out, offsetSrc := s.offsetSrc + copyLen,
                            offsetDst := s.offsetDst + copyLen + len, lenOut := s.lenOut + len }

/-- rs: hash_dual.rs `expand_block_hash_using_rle`: returns `(blockhash_out, len_out)` -/
def expandBlockHash (out : List UInt8) (inp : List UInt8) (lenIn : UInt8) (rle : List UInt8) :
    List UInt8 × UInt8 :=
  let s := expandLoop inp rle { out := out, lenOut := lenIn.toNat }
  let copyLen := s.lenOut - s.offsetDst
  let o := setSlice s.out s.offsetDst ((inp.drop s.offsetSrc).take copyLen)
  (fillSlice o (s.offsetDst + copyLen) o.length 0, s.lenOut.toUInt8)

/-- rs: hash_dual.rs `is_valid_rle_block_for_block_hash`, loop with state
    `(expanded_len, terminator_expected, prev_pos, prev_len)` -/
def rleValidLoop (bh : List UInt8) (bhLen : UInt8) : List UInt8 → Nat → Bool → UInt8 → UInt8 → Option Nat
  | [], expanded, _, _, _ => some expanded
  | r :: rest, expanded, termExpected, prevPos, prevLen =>
    if r != Rle.TERMINATOR && termExpected then none
    else if r == Rle.TERMINATOR then rleValidLoop bh bhLen rest expanded true prevPos prevLen
    else
      let (pos, len) := Rle.decode r
      if pos < 2 || pos ≥ bhLen || pos < prevPos then none
      else if prevPos == pos then
        if prevLen != 4 then none
        else rleValidLoop bh bhLen rest (expanded + len.toNat) termExpected pos len
      else
        let e := pos.toNat
        let st := e - 2
        let ch := bh.getD st 0
        if ((bh.drop (st + 1)).take (e - st)).any (· != ch) then none
        else rleValidLoop bh bhLen rest (expanded + len.toNat) termExpected pos len

/-- rs: hash_dual.rs `is_valid_rle_block_for_block_hash` -/
def isValidRleBlock (bh rle : List UInt8) (bhLen : UInt8) : Bool :=
  match rleValidLoop bh bhLen rle bhLen.toNat false 0 0 with
  | none => false
  | some expanded => !(expanded > bh.length)

/-- rs: hash_dual.rs `FuzzyHashDualData<S1, S2, C1, C2>` -/
structure DH where
  rle1 : List UInt8
  rle2 : List UInt8
  norm : FH
  deriving Repr, DecidableEq

namespace DH

def c1 : Nat := FULL_SIZE / 4
def c2 (s2 : Nat) : Nat := s2 / 4

/-- rs: `FuzzyHashDualData::new` -/
def new (s2 : Nat) : DH :=
  { rle1 := List.replicate c1 0, rle2 := List.replicate (c2 s2) 0, norm := FH.new s2 }

/-- rs: `init_from_raw_form` (overwrites a possibly dirty `self`); `none` = panic inside the RLE update -/
def initFromRawForm (self : DH) (hash : FH) : Option DH :=
  match compressBlockHash self.norm.bh1 self.rle1 hash.blockHash1 with
  | none => none
  | some (b1, r1, l1) =>
    match compressBlockHash self.norm.bh2 self.rle2 hash.blockHash2 with
    | none => none
    | some (b2, r2, l2) =>
      some { rle1 := r1, rle2 := r2, norm := { bh1 := b1, bh2 := b2, len1 := l1, len2 := l2, log := hash.log } }

def fromRawForm (s2 : Nat) (hash : FH) : Option DH := initFromRawForm (new s2) hash

/-- rs: `new_from_internals_near_raw_internal` -/
def newFromInternalsNearRawInternal (s2 : Nat) (log : UInt8) (b1 b2 : List UInt8) : Option DH :=
  let h := new s2
  match compressBlockHash h.norm.bh1 h.rle1 b1 with
  | none => none
  | some (o1, r1, l1) =>
    match compressBlockHash h.norm.bh2 h.rle2 b2 with
    | none => none
    | some (o2, r2, l2) =>
      some { rle1 := r1, rle2 := r2, norm := { bh1 := o1, bh2 := o2, len1 := l1, len2 := l2, log := log } }

/-- rs: `new_from_internals_near_raw` (`none` = an `assert!` fails / panic) -/
def newFromInternalsNearRaw (s2 : Nat) (log : UInt8) (b1 b2 : List UInt8) : Option DH :=
  if !(BlockSize.isLogValid log) then none
  else if !(b1.length ≤ FULL_SIZE) then none
  else if !(b2.length ≤ s2) then none
  else if !(b1.all (· < 64)) then none
  else if !(b2.all (· < 64)) then none
  else newFromInternalsNearRawInternal s2 log b1 b2

/-- rs: `new_from_internals` -/
def newFromInternals (s2 : Nat) (blockSize : UInt32) (b1 b2 : List UInt8) : Option DH :=
  if !(BlockSize.isValid blockSize) then none
  else newFromInternalsNearRaw s2 (BlockSize.logFromValidInternal blockSize) b1 b2

/-- rs: `from_normalized` -/
def fromNormalized (s2 : Nat) (h : FH) : DH :=
  { rle1 := List.replicate c1 0, rle2 := List.replicate (c2 s2) 0, norm := h }

/-- rs: `into_mut_raw_form` -/
def intoMutRawForm (self : DH) (dest : FH) : FH :=
  let (b1, l1) := expandBlockHash dest.bh1 self.norm.bh1 self.norm.len1 self.rle1
  let (b2, l2) := expandBlockHash dest.bh2 self.norm.bh2 self.norm.len2 self.rle2
  { bh1 := b1, bh2 := b2, len1 := l1, len2 := l2, log := self.norm.log }

/-- rs: `to_raw_form` -/
def toRawForm (s2 : Nat) (self : DH) : FH := intoMutRawForm self (FH.new s2)

/-- rs: `normalize_in_place` -/
def normalizeInPlace (s2 : Nat) (self : DH) : DH :=
  { self with rle1 := List.replicate c1 0, rle2 := List.replicate (c2 s2) 0 }

/-- rs: `is_normalized` -/
def isNormalized (self : DH) : Bool := self.rle1.getD 0 0 == 0 && self.rle2.getD 0 0 == 0

/-- rs: `is_valid` -/
def isValid (s2 : Nat) (self : DH) : Bool :=
  FH.isValid s2 true self.norm
    && isValidRleBlock self.norm.bh1 self.rle1 self.norm.len1
    && isValidRleBlock self.norm.bh2 self.rle2 self.norm.len2

/-- fold the parser's `report_norm_seq(pos, len)` calls into an RLE block, as the closures of
    `from_bytes_with_last_index_internal` do -/
def applyReports (rle : List UInt8) : List (Nat × Nat) → Nat → Option (List UInt8)
  | [], _ => some rle
  | (pos, len) :: rest, off =>
    match updateRleBlock rle off (pos + MAX_SEQUENCE_SIZE - 1) len with
    | none => none
    | some (rle, off) => applyReports rle rest off

/-- rs: hash_dual.rs `from_bytes_with_last_index_internal`.
    Outer `none` = panic (out-of-range RLE update, only reachable without the F1 repair). -/
def parse (cfg : Cfg) (s2 : Nat) (str : List UInt8) : Option (Except ParseError (DH × Nat)) :=
  -- The closures run while parsing; a panic there pre-empts any later parse error.
  -- We therefore evaluate block hash 1's reports before looking at the overall result.
  match parseBlockSize str with
  | .error e => some (.error e)
  | .ok (_, offset) =>
    let r1 := parseBlockHash cfg FULL_SIZE (List.replicate FULL_SIZE 0) true true (str.drop offset)
    match applyReports (List.replicate c1 0) r1.reports 0 with
    | none => none
    | some rle1 =>
      match parseThreeFields cfg s2 true true str with
      | .error e =>
        -- an error in block hash 2 may still be preceded by a panic in its closure
        if e.origin == .blockHash2 then
          let r2 := parseBlockHash cfg s2 (List.replicate s2 0) true true
                      ((str.drop offset).drop r1.consumed)
          match applyReports (List.replicate (c2 s2) 0) r2.reports 0 with
          | none => none
          | some _ => some (.error e)
        else some (.error e)
      | .ok p =>
        match applyReports (List.replicate (c2 s2) 0) p.reports2 0 with
        | none => none
        | some rle2 =>
          some (.ok ({ rle1 := rle1, rle2 := rle2,
                       norm := { bh1 := p.bh1, bh2 := p.bh2, len1 := p.len1.toUInt8,
                                 len2 := p.len2.toUInt8, log := p.log } }, p.index))

/-- rs: `PartialEq` -/
def eq (a b : DH) : Bool := FH.eq a.norm b.norm && a.rle1 == b.rle1 && a.rle2 == b.rle2

/-- the harness' observation of the reverse-normalization data: the object is `==` the dual hash
    freshly built from its own raw form -/
def freshEq (s2 : Nat) (a : DH) : Bool :=
  match fromRawForm s2 (toRawForm s2 a) with
  | some f => eq f a
  | none => false

/-- rs: `Hash` -/
def hashWrites (a : DH) : List (List UInt8) := FH.hashWrites a.norm ++ [a.rle1, a.rle2]

/-- rs: `Ord`: tuple `(norm_hash, rle_block1, rle_block2)` -/
def cmp (a b : DH) : Ordering :=
  (FH.cmp a.norm b.norm).then <| (FH.cmpBytes a.rle1 b.rle1).then (FH.cmpBytes a.rle2 b.rle2)

end DH
end Ffuzzy
