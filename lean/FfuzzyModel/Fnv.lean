/-
  Model of ffuzzy/src/internals/generate/hashes/partial_fnv.rs
-/
import FfuzzyModel.Basic
namespace Ffuzzy

/-- rs: partial_fnv.rs `FNV_HASH_INIT` = 0x28021967 % 64 -/
def fnvInit : UInt8 := 0x27

/-- rs: partial_fnv.rs `FNV_TABLE[state][ch % 64]`; the table content is
    `((state * 0x01000193) as u8 ^ ch) % 64` — proved equal to the table dumped from the
    compiled crate in `FfuzzyProofs/Tables.lean`. -/
def fnvStep (s : UInt8) (ch : UInt8) : UInt8 :=
  (((s.toUInt32 * 0x01000193).toUInt8) ^^^ (ch % 64)) % 64

/-- rs: the `opt-reduce-fnv-table` variant keeps a full `u8` state and masks on read -/
def fnvStepReduced (s : UInt8) (ch : UInt8) : UInt8 :=
  ((s.toUInt32 * 0x01000193) ^^^ ch.toUInt32).toUInt8

def fnvValueReduced (s : UInt8) : UInt8 := s &&& 63

def fnvUpdate (s : UInt8) (bs : List UInt8) : UInt8 := bs.foldl fnvStep s

/-- Specification (C19): 32-bit FNV-1 with ssdeep's initial value -/
def fnv1Full (bs : List UInt8) : UInt32 :=
  bs.foldl (fun h c => (h * 0x01000193) ^^^ c.toUInt32) 0x28021967

def fnvSpec (bs : List UInt8) : UInt8 := (fnv1Full bs).toUInt8 &&& 63

end Ffuzzy
