/-
  Model of ffuzzy/src/internals/hash/algorithms.rs (normalize / verify / insert) and of
  ffuzzy/src/internals/hash.rs (`FuzzyHashData`: constructors, accessors, formatting,
  normalisation, validity, Eq / Hash / Ord, conversions).

  Representation follows the code: fixed-capacity arrays (lists of length S1 = 64 and S2 ∈ {32, 64}),
  two length bytes and the log block size.  The const generics `(S2, NORM)` are explicit arguments.
-/
import FfuzzyModel.Basic
import FfuzzyModel.Base64
import FfuzzyModel.BlockSize
namespace Ffuzzy

def FULL_SIZE : Nat := 64
def HALF_SIZE : Nat := 32
def MAX_SEQUENCE_SIZE : Nat := 3
def MIN_LCS_FOR_COMPARISON : Nat := 7
def ALPHABET_SIZE : Nat := 64

/-! ## hash/algorithms.rs -/

/-- rs: algorithms.rs `normalize_block_hash_in_place_internal`, the `for i in 0..old_len` loop.
    Reads `blockhash[i]` from, and writes `blockhash[len]` to, the same (mutated) array. -/
def normLoop (bh : List UInt8) (oldLen i seq : Nat) (prev : UInt8) (len : Nat) : List UInt8 × Nat :=
  if i < oldLen then
    let curr := bh.getD i 0
    if curr == prev then
      if seq + 1 ≥ MAX_SEQUENCE_SIZE then normLoop bh oldLen (i + 1) MAX_SEQUENCE_SIZE prev len
      else normLoop (bh.set len curr) oldLen (i + 1) (seq + 1) prev (len + 1)
    else normLoop (bh.set len curr) oldLen (i + 1) 0 curr (len + 1)
  else (bh, len)
termination_by oldLen - i

/-- rs: algorithms.rs `normalize_block_hash_in_place_internal` -/
def normalizeBlockHashInPlace (bh : List UInt8) (len : UInt8) (originallyNormalized : Bool) :
    List UInt8 × UInt8 :=
  if originallyNormalized then (bh, len) else
    let (bh', l) := normLoop bh len.toNat 0 0 b64Invalid 0
    (fillSlice bh' l len.toNat 0, l.toUInt8)

/-- rs: algorithms.rs `verify_block_hash_internal`, the normalisation scan -/
def verifyNormLoop (rangeIn : Bool) : List UInt8 → Nat → UInt8 → Bool
  | [], _, _ => true
  | curr :: rest, seq, prev =>
    if rangeIn && curr ≥ 64 then false
    else if curr == prev then
      if seq + 1 ≥ MAX_SEQUENCE_SIZE then false else verifyNormLoop rangeIn rest (seq + 1) prev
    else verifyNormLoop rangeIn rest 0 curr

/-- rs: algorithms.rs `verify_block_hash_internal` -/
def verifyBlockHash (bh : List UInt8) (len : UInt8) (rangeIn rangeOut verifyNorm : Bool) : Bool :=
  let out := bh.drop len.toNat
  let inn := bh.take len.toNat
  (if verifyNorm then verifyNormLoop rangeIn inn 0 b64Invalid
   else !(rangeIn && inn.any (· ≥ 64)))
  && !(rangeOut && out.any (· != 0))

/-- rs: `verify_block_hash_input::<N, EXPECT_NORM>` -/
def verifyBlockHashInput (bh : List UInt8) (len : UInt8) (expectNorm rangeIn rangeOut : Bool) : Bool :=
  verifyBlockHash bh len rangeIn rangeOut expectNorm

/-- rs: `verify_block_hash_current::<N, TYPE_NORM>` -/
def verifyBlockHashCurrent (bh : List UInt8) (len : UInt8) (typeNorm rangeIn rangeOut : Bool) : Bool :=
  verifyBlockHash bh len rangeIn rangeOut (!typeNorm)

/-- rs: algorithms.rs `insert_block_hash_into_bytes` (the bytes written at the start of `buf`) -/
def insertBlockHash (bh : List UInt8) (len : UInt8) : List UInt8 :=
  (bh.take len.toNat).map b64Char

/-! ## hash.rs: `FuzzyHashData<S1, S2, NORM>` -/

structure FH where
  bh1 : List UInt8
  bh2 : List UInt8
  len1 : UInt8
  len2 : UInt8
  log : UInt8
  deriving Repr, DecidableEq

namespace FH

/-- rs: hash.rs `FuzzyHashData::new` -/
def new (s2 : Nat) : FH :=
  { bh1 := List.replicate FULL_SIZE 0, bh2 := List.replicate s2 0, len1 := 0, len2 := 0, log := 0 }

/-- rs: accessors `block_hash_1()` / `block_hash_2()` -/
def blockHash1 (h : FH) : List UInt8 := h.bh1.take h.len1.toNat
def blockHash2 (h : FH) : List UInt8 := h.bh2.take h.len2.toNat

/-- rs: hash.rs `init_from_internals_raw` (`none` = an `assert!` fails). -/
def initFromInternalsRaw (s2 : Nat) (norm : Bool) (_self : FH) (log : UInt8)
    (b1 b2 : List UInt8) (l1 l2 : UInt8) : Option FH :=
  if !(BlockSize.isLogValid log) then none
  else if !(l1.toNat ≤ FULL_SIZE) then none
  else if !(l2.toNat ≤ s2) then none
  else if !(verifyBlockHashInput b1 l1 norm true true) then none
  else if !(verifyBlockHashInput b2 l2 norm true true) then none
  else some { bh1 := b1, bh2 := b2, len1 := l1, len2 := l2, log := log }

/-- rs: hash.rs `new_from_internals_raw` -/
def newFromInternalsRaw (s2 : Nat) (norm : Bool) (log : UInt8) (b1 b2 : List UInt8) (l1 l2 : UInt8) :
    Option FH :=
  initFromInternalsRaw s2 norm (new s2) log b1 b2 l1 l2

/-- rs: hash.rs `new_from_internals_near_raw_internal` (the copy; debug assertions are
    subsumed by the `assert!`s of the checked caller) -/
def newFromInternalsNearRawInternal (s2 : Nat) (log : UInt8) (b1 b2 : List UInt8) : FH :=
  let h := new s2
  { bh1 := setSlice h.bh1 0 b1, bh2 := setSlice h.bh2 0 b2,
    len1 := b1.length.toUInt8, len2 := b2.length.toUInt8, log := log }

/-- rs: hash.rs `new_from_internals_near_raw` (`none` = an `assert!` fails) -/
def newFromInternalsNearRaw (s2 : Nat) (norm : Bool) (log : UInt8) (b1 b2 : List UInt8) : Option FH :=
  if !(BlockSize.isLogValid log) then none
  else if !(b1.length ≤ FULL_SIZE) then none
  else if !(b2.length ≤ s2) then none
  else
    let h := newFromInternalsNearRawInternal s2 log b1 b2
    if !(verifyBlockHashInput h.bh1 h.len1 norm true false) then none
    else if !(verifyBlockHashInput h.bh2 h.len2 norm true false) then none
    else some h

/-- rs: hash.rs `new_from_internals` (after the F2 repair it forwards to the asserting constructor) -/
def newFromInternals (s2 : Nat) (norm : Bool) (blockSize : UInt32) (b1 b2 : List UInt8) : Option FH :=
  if !(BlockSize.isValid blockSize) then none
  else newFromInternalsNearRaw s2 norm (BlockSize.logFromValidInternal blockSize) b1 b2

/-- rs: hash.rs `len_in_str` -/
def lenInStr (h : FH) : Nat :=
  (BlockSize.str h.log).length + h.len1.toNat + h.len2.toNat + 2

/-- rs: hash.rs `MAX_LEN_IN_STR` -/
def maxLenInStr (s2 : Nat) : Nat := BlockSize.MAX_BLOCK_SIZE_LEN_IN_CHARS + FULL_SIZE + s2 + 2

/-- the text written by `store_into_bytes` -/
def text (h : FH) : List UInt8 :=
  BlockSize.str h.log ++ [58] ++ insertBlockHash h.bh1 h.len1 ++ [58] ++ insertBlockHash h.bh2 h.len2

/-- rs: hash.rs `store_into_bytes`: `none` = `StringizationOverflow` (buffer untouched),
    `some (buf', n)` otherwise -/
def storeIntoBytes (h : FH) (buf : List UInt8) : Option (List UInt8 × Nat) :=
  if buf.length < h.lenInStr then none
  else some (setSlice buf 0 h.text, h.lenInStr)

/-- rs: hash.rs `to_string` / `Display` -/
def toStringBytes (h : FH) : List UInt8 := h.text

/-- rs: hash.rs `is_normalized` -/
def isNormalized (norm : Bool) (h : FH) : Bool :=
  verifyBlockHashCurrent h.bh1 h.len1 norm false false
    && verifyBlockHashCurrent h.bh2 h.len2 norm false false

/-- rs: hash.rs `normalize_in_place_internal::<IN_NORM>` -/
def normalizeInPlaceInternal (inNorm : Bool) (h : FH) : FH :=
  let (b1, l1) := normalizeBlockHashInPlace h.bh1 h.len1 inNorm
  let (b2, l2) := normalizeBlockHashInPlace h.bh2 h.len2 inNorm
  { h with bh1 := b1, len1 := l1, bh2 := b2, len2 := l2 }

/-- rs: `normalize_in_place`, `normalize`, `clone_normalized` (type `NORM` = `norm`) -/
def normalizeInPlace (norm : Bool) (h : FH) : FH := normalizeInPlaceInternal norm h
def normalize (norm : Bool) (h : FH) : FH := normalizeInPlaceInternal norm h
def cloneNormalized (norm : Bool) (h : FH) : FH := normalizeInPlaceInternal norm h

/-- rs: hash.rs `is_valid` -/
def isValid (s2 : Nat) (norm : Bool) (h : FH) : Bool :=
  BlockSize.isLogValid h.log
    && decide (h.len1.toNat ≤ FULL_SIZE)
    && decide (h.len2.toNat ≤ s2)
    && verifyBlockHashInput h.bh1 h.len1 norm true true
    && verifyBlockHashInput h.bh2 h.len2 norm true true

/-- rs: hash.rs `full_eq` -/
def fullEq (a b : FH) : Bool :=
  a.bh1 == b.bh1 && a.bh2 == b.bh2 && a.len1 == b.len1 && a.len2 == b.len2 && a.log == b.log

/-- rs: hash.rs `PartialEq::eq` -/
def eq (a b : FH) : Bool :=
  if !(a.len1 == b.len1 && a.len2 == b.len2 && a.log == b.log) then false
  else a.blockHash1 == b.blockHash1 && a.blockHash2 == b.blockHash2

/-- rs: hash.rs `Hash::hash`, as the sequence of `write*` calls (each a byte string) -/
def hashWrites (h : FH) : List (List UInt8) :=
  [[h.log], [h.len1], [h.len2], h.blockHash1, h.blockHash2]

/-- lexicographic comparison of byte lists = Rust's `Ord` for `[u8; N]` / slices -/
def cmpBytes : List UInt8 → List UInt8 → Ordering
  | [], [] => .eq
  | [], _ :: _ => .lt
  | _ :: _, [] => .gt
  | x :: xs, y :: ys => if x < y then .lt else if y < x then .gt else cmpBytes xs ys

/-- rs: hash.rs `Ord::cmp`: tuple `(log, &bh1, len1, &bh2, len2)` -/
def cmp (a b : FH) : Ordering :=
  (compare a.log b.log).then <|
  (cmpBytes a.bh1 b.bh1).then <|
  (compare a.len1 b.len1).then <|
  (cmpBytes a.bh2 b.bh2).then <|
  (compare a.len2 b.len2)

/-! ### conversions (hash.rs lines 1734–1897) -/

/-- rs: `to_raw_form`, `into_mut_raw_form`, `From<norm> for raw`, `from_normalized`: plain field copy -/
def toRawForm (h : FH) : FH := h
def intoMutRawForm (h : FH) (_dest : FH) : FH :=
  { bh1 := h.bh1, bh2 := h.bh2, len1 := h.len1, len2 := h.len2, log := h.log }

/-- rs: `to_long_form` -/
def toLongForm (h : FH) : FH :=
  { bh1 := h.bh1, bh2 := setSlice (List.replicate FULL_SIZE 0) 0 h.bh2,
    len1 := h.len1, len2 := h.len2, log := h.log }

/-- rs: `into_mut_long_form` (destination array partially overwritten, rest cleared) -/
def intoMutLongForm (h : FH) (dest : FH) : FH :=
  { bh1 := h.bh1,
    bh2 := fillSlice (setSlice dest.bh2 0 h.bh2) HALF_SIZE FULL_SIZE 0,
    len1 := h.len1, len2 := h.len2, log := h.log }

/-- rs: `From<short_type!(true)> for long_type!(false)` -/
def shortNormToLongRaw (h : FH) : FH :=
  let d := new FULL_SIZE
  { bh1 := h.bh1, bh2 := setSlice d.bh2 0 h.bh2, len1 := h.len1, len2 := h.len2, log := h.log }

/-- rs: `try_into_mut_short`: `none` = `BlockHashOverflow`, destination untouched -/
def tryIntoMutShort (h : FH) (_dest : FH) : Option FH :=
  if h.len2.toNat > HALF_SIZE then none
  else some { bh1 := h.bh1, bh2 := h.bh2.take HALF_SIZE, len1 := h.len1, len2 := h.len2, log := h.log }

/-- rs: `TryFrom<long> for short` -/
def tryFromLong (h : FH) : Option FH := tryIntoMutShort h (new HALF_SIZE)

end FH
end Ffuzzy
