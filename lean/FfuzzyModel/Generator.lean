/-
  Model of ffuzzy/src/internals/generate.rs (`BlockHashContext`, `Generator`) and
  generate_easy.rs (`hash_buf`).
-/
import FfuzzyModel.Rolling
import FfuzzyModel.Fnv
import FfuzzyModel.Hash
namespace Ffuzzy

/-- rs: generate.rs `BLOCKHASH_CHAR_NIL` -/
def NIL : UInt8 := 0xff

def U64_MAX : Nat := 18446744073709551615

/-- rs: generate.rs `struct BlockHashContext` -/
structure Ctx where
  idx : Nat
  bh : Array UInt8
  chHalf : UInt8
  hFull : UInt8
  hHalf : UInt8
  deriving Repr, DecidableEq

/-- rs: `BlockHashContext::new` -/
def Ctx.new : Ctx :=
  { idx := 0, bh := Array.replicate 64 NIL, chHalf := NIL, hFull := fnvInit, hHalf := fnvInit }

/-- rs: `BlockHashContext::reset` (partial: only cell 63 of the digest is re-initialised) -/
def Ctx.reset (c : Ctx) : Ctx :=
  { idx := 0, bh := c.bh.setIfInBounds 63 NIL, chHalf := NIL, hFull := fnvInit, hHalf := fnvInit }

inductive GenErr where
  | fixedSizeMismatch | fixedSizeTooLarge | inputSizeTooLarge | outputOverflow
  deriving Repr, DecidableEq

/-- rs: generate.rs `struct GeneratorInnerData`; `panicked` records an out-of-range access of
    `bh_context` (a Rust panic) so that panic-freedom is a statement about the model -/
structure Gen where
  inputSize : Nat
  fixedSize : Option Nat
  elimBorder : Nat
  bhStart : Nat
  bhEnd : Nat
  bhEndLimit : Nat
  rollMask : Nat
  roll : Roll
  ctx : Array Ctx
  hLast : UInt8
  isLast : Bool
  panicked : Bool := false
  deriving Repr, DecidableEq

/-- result of `finalize_raw_internal`: log block size and the two block hashes (as written into the
    zero-initialised arrays of a fresh `FuzzyHashData`) -/
structure Digest where
  log : Nat
  bh1 : List UInt8
  bh2 : List UInt8
  deriving Repr, DecidableEq

namespace Gen

/-- rs: `guessed_preferred_max_input_size_at(0)` -/
def SIZE_UNIT : Nat := 192
/-- rs: `MAX_INPUT_SIZE` = 192 GiB -/
def MAX_INPUT_SIZE : Nat := 206158430208
/-- rs: `MIN_RECOMMENDED_INPUT_SIZE` -/
def MIN_RECOMMENDED_INPUT_SIZE : Nat := 4097

/-- rs: `Generator::new` -/
def new : Gen :=
  { inputSize := 0, fixedSize := none, elimBorder := SIZE_UNIT, bhStart := 0, bhEnd := 1,
    bhEndLimit := 30, rollMask := 0, roll := Roll.new, ctx := Array.replicate 31 Ctx.new,
    hLast := fnvInit, isLast := false }

/-- rs: `Generator::reset` (partial) -/
def reset (g : Gen) : Gen :=
  { g with inputSize := 0, fixedSize := none, elimBorder := SIZE_UNIT, bhStart := 0, bhEnd := 1,
           bhEndLimit := 30, rollMask := 0, roll := Roll.new,
           ctx := g.ctx.modify 0 Ctx.reset, isLast := false }

/-- rs: `may_warn_about_small_input_size` -/
def mayWarn (g : Gen) : Bool := g.fixedSize.getD g.inputSize < MIN_RECOMMENDED_INPUT_SIZE

/-- rs: `get_log_block_size_from_input_size` -/
def logBlockSizeFromInputSize (size start : Nat) : Nat :=
  if size ≤ SIZE_UNIT then start
  else max start (u64Ilog2 ((size - 1) / SIZE_UNIT) + 1)

/-- rs: `set_fixed_input_size` -/
def setFixedInputSize (g : Gen) (size : Nat) : Except GenErr Gen :=
  if size > MAX_INPUT_SIZE then .error .fixedSizeTooLarge
  else if g.fixedSize.isSome && g.fixedSize != some size then .error .fixedSizeMismatch
  else .ok { g with fixedSize := some size,
                    bhEndLimit := min 30 (logBlockSizeFromInputSize size 0 + 1) }

/-- `u64::saturating_add` -/
def satAdd (a b : Nat) : Nat := min (a + b) U64_MAX

/-- `bh_context[k]` (out of range reads give a fresh context; range is checked separately) -/
def ctxAt (g : Gen) (k : Nat) : Ctx := g.ctx.getD k Ctx.new

/-- rs: first half of the `bh_loop_2!` body: `if bh_curr!().blockhash_index == 0 { … }` —
    activation of the last hash or fork of the next block hash context -/
def forkStep (g : Gen) (i : Nat) : Gen :=
  let cur := g.ctxAt i
  if cur.idx = 0 then
    if g.bhEnd > g.bhEndLimit then
      if g.bhEndLimit = 30 && !g.isLast then { g with hLast := cur.hFull, isLast := true } else g
    else
      if i + 1 < 31 then
        let nxt := (g.ctxAt (i + 1)).reset
        let nxt := { nxt with hFull := cur.hFull, hHalf := cur.hHalf }
        { g with ctx := g.ctx.setIfInBounds (i + 1) nxt, bhEnd := g.bhEnd + 1 }
      else { g with panicked := true }
  else g

/-- rs: storing a piece into `bh_curr_reused!()`:
    `blockhash[idx] = h_full.value(); blockhash_ch_half = h_half.value();` and the index / hash resets -/
def _root_.Ffuzzy.Ctx.storePiece (c : Ctx) : Ctx :=
  let c := { c with bh := c.bh.setIfInBounds c.idx c.hFull, chHalf := c.hHalf }
  if c.idx < 63 then
    let c := { c with idx := c.idx + 1, hFull := fnvInit }
    if c.idx < 32 then { c with chHalf := NIL, hHalf := fnvInit } else c
  else c

/-- rs: the `else if bhidx_end - bhidx_start >= 2 && elim_border < … && bh_next!().blockhash_index >= HALF_SIZE`
    branch (block hash elimination); `wasFull` = the context was already at index 63.
    `bh_next!()` is only evaluated when the first two conjuncts hold. -/
def elimStep (g : Gen) (i : Nat) (wasFull : Bool) : Gen :=
  if wasFull && g.bhEnd - g.bhStart ≥ 2 && g.elimBorder < g.fixedSize.getD g.inputSize then
    if i + 1 < 31 then
      if (g.ctxAt (i + 1)).idx ≥ 32 then
        { g with bhStart := g.bhStart + 1,
                 rollMask := (g.rollMask * 2 + 1) % 4294967296,
                 elimBorder := (g.elimBorder * 2) % 18446744073709551616 }
      else g
    else { g with panicked := true }
  else g

/-- rs: the body of `bh_loop_2!` for loop index `i`, then the loop control
    (`if (h & 1) != 0 { break }`, `h >>= 1`, `i += 1`, `if i >= bhidx_end { break }`). -/
def bhLoop2 (g : Gen) (i : Nat) (h : Nat) : Gen :=
  if hi : i < 31 then
    let g := g.forkStep i
    if g.panicked then g else
    let cur := g.ctxAt i
    if cur.idx ≥ 64 then { g with panicked := true } else
    let g := { g with ctx := g.ctx.setIfInBounds i cur.storePiece }
    let g := g.elimStep i (decide (cur.idx ≥ 63))
    if g.panicked then g
    else if h % 2 = 1 then g
    else if i + 1 ≥ g.bhEnd then g
    else bhLoop2 g (i + 1) (h / 2)
  else { g with panicked := true }
termination_by 31 - i

/-- rs: `for bh1 in &mut bh_context[bhidx_start..bhidx_end] { bh1.h_full.update_by_byte(ch); … }`:
    update contexts `k, k+1, …, k+n-1` -/
def updCtxs (ch : UInt8) : Nat → Nat → Array Ctx → Array Ctx
  | _, 0, ctx => ctx
  | k, n + 1, ctx =>
    updCtxs ch (k + 1) n (ctx.modify k fun c =>
      { c with hFull := fnvStep c.hFull ch, hHalf := fnvStep c.hHalf ch })

/-- rs: `generator_update_template!`, the body of `for ch in $buffer` after `$proc_per_byte` -/
def stepByte (g : Gen) (ch : UInt8) : Gen :=
  if g.panicked then g else
  let roll := g.roll.updateByByte ch
  let hLast := if g.isLast then fnvStep g.hLast ch else g.hLast
  -- `for bh1 in &mut bh_context[bhidx_start..bhidx_end]` (slice: panics if out of range)
  if g.bhStart > g.bhEnd || g.bhEnd > 31 then { g with panicked := true } else
  let ctx := updCtxs ch g.bhStart (g.bhEnd - g.bhStart) g.ctx
  let g := { g with roll := roll, hLast := hLast, ctx := ctx }
  let hOrg : UInt32 := roll.value + 1
  let h : Nat := hOrg.toNat / 3
  if hOrg = 0 then g
  else if h &&& g.rollMask != 0 then g
  else if hOrg.toNat % 3 != 0 then g
  else bhLoop2 g g.bhStart (h >>> g.bhStart)

/-- rs: `Generator::update` (size accounted up front) -/
def update (g : Gen) (buf : List UInt8) : Gen :=
  buf.foldl stepByte { g with inputSize := satAdd g.inputSize buf.length }

/-- rs: `Generator::update_by_iter` (size accounted per byte, before the byte is processed) -/
def updateByIter (g : Gen) (buf : List UInt8) : Gen :=
  buf.foldl (fun g ch => stepByte { g with inputSize := satAdd g.inputSize 1 } ch) g

/-- rs: `Generator::update_by_byte` -/
def updateByByte (g : Gen) (ch : UInt8) : Gen :=
  stepByte { g with inputSize := satAdd g.inputSize 1 } ch

/-- rs: `guess_output_log_block_size`, the `while` loop -/
def guessLoop (g : Gen) (k : Nat) : Nat :=
  match k with
  | 0 => 0
  | k' + 1 =>
    if k' + 1 > g.bhStart && (g.ctxAt (k' + 1)).idx < 32 then guessLoop g k' else k' + 1

/-- rs: `guess_output_log_block_size` -/
def guessOutputLogBlockSize (g : Gen) : Nat :=
  let k := logBlockSizeFromInputSize g.inputSize g.bhStart
  let k := min k (g.bhEnd - 1)
  guessLoop g k

/-- rs: `finalize_raw_internal`, "Copy block hash 1": the stored pieces (the 64th cell counts when it
    is filled) plus — when the final rolling value is non-zero — the hash of the unfinished piece,
    which replaces the 64th character when 64 are stored -/
def _root_.Ffuzzy.Ctx.digest1 (c : Ctx) (rollNZ : Bool) : List UInt8 :=
  let sz := if c.bh.getD 63 NIL != NIL then c.idx + 1 else c.idx
  let d1 := c.bh.toList.take sz
  if rollNZ then
    if sz = 64 then d1.set 63 c.hFull else d1 ++ [c.hFull]
  else d1

/-- rs: `finalize_raw_internal`, "Copy block hash 2 (normal path)" from the context of the doubled
    block size, for the four `(truncate, S2)` instances -/
def _root_.Ffuzzy.Ctx.digest2 (b1 : Ctx) (rollNZ truncate : Bool) (s2 : Nat) : Except GenErr (List UInt8) :=
  let isLong := s2 == 64
  if truncate then
    if b1.chHalf != NIL then
      let last := if rollNZ then b1.hHalf else b1.chHalf
      .ok (b1.bh.toList.take 31 ++ [last])
    else
      let d := b1.bh.toList.take b1.idx
      .ok (if rollNZ then d ++ [b1.hHalf] else d)
  else
    let sz := if b1.bh.getD 63 NIL != NIL then b1.idx + 1 else b1.idx
    if !isLong && sz > s2 then .error .outputOverflow
    else
      let d := b1.bh.toList.take sz
      if rollNZ then
        if !isLong then
          if sz ≥ s2 then .error .outputOverflow else .ok (d ++ [b1.hFull])
        else
          if sz = 64 then .ok (d.set 63 b1.hFull) else .ok (d ++ [b1.hFull])
      else .ok d

/-- rs: `finalize_raw_internal::<S1 = 64, S2>(truncate)` -/
def finalizeRaw (g : Gen) (truncate : Bool) (s2 : Nat) : Except GenErr Digest :=
  if g.fixedSize.isSome && g.fixedSize != some g.inputSize then .error .fixedSizeMismatch
  else if MAX_INPUT_SIZE < g.inputSize then .error .inputSizeTooLarge
  else
    let k := g.guessOutputLogBlockSize
    let rollNZ := g.roll.value != 0
    let bh0 := g.ctxAt k
    let bh1 := bh0.digest1 rollNZ
    if k < g.bhEnd - 1 then
      -- Copy block hash 2 (normal path)
      match (g.ctxAt (k + 1)).digest2 rollNZ truncate s2 with
      | .error e => .error e
      | .ok bh2 => .ok ⟨k, bh1, bh2⟩
    else if rollNZ then
      if k = 0 then .ok ⟨k, bh1, [bh0.hFull]⟩ else .ok ⟨k, bh1, [g.hLast]⟩
    else .ok ⟨k, bh1, []⟩

/-- rs: `finalize` -/
def finalize (g : Gen) : Except GenErr Digest := g.finalizeRaw true 32
/-- rs: `finalize_without_truncation` -/
def finalizeWithoutTruncation (g : Gen) : Except GenErr Digest := g.finalizeRaw false 64

/-- rs: the verification hook `verif_with_prefix_zeroes` -/
def withPrefixZeroes (n : Nat) : Gen :=
  let g := new
  let roll := (List.replicate (n % 7) (0 : UInt8)).foldl Roll.updateByByte g.roll
  let f := (List.replicate (n % 16) (0 : UInt8)).foldl fnvStep fnvInit
  { g with inputSize := n, roll := roll,
           ctx := g.ctx.modify 0 fun c => { c with hFull := f, hHalf := f } }

/-- rs: generate_easy.rs `hash_buf` -/
def hashBuf (buf : List UInt8) : Except GenErr Digest :=
  match new.setFixedInputSize buf.length with
  | .error e => .error e
  | .ok g => (g.update buf).finalize

end Gen

/-- the `FuzzyHashData` object `finalize_raw_internal` returns -/
def Digest.toFH (d : Digest) (s2 : Nat) : FH :=
  { bh1 := padTo d.bh1 FULL_SIZE 0, bh2 := padTo d.bh2 s2 0,
    len1 := d.bh1.length.toUInt8, len2 := d.bh2.length.toUInt8, log := d.log.toUInt8 }

end Ffuzzy
