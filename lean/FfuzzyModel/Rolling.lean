/-
  Model of ffuzzy/src/internals/generate/hashes/rolling_hash.rs
-/
import FfuzzyModel.Basic
namespace Ffuzzy

/-- rs: rolling_hash.rs `struct RollingHash` (window as a list of 7 bytes) -/
structure Roll where
  index : Nat
  h1 : UInt32
  h2 : UInt32
  h3 : UInt32
  window : List UInt8
  deriving Repr, DecidableEq

/-- rs: rolling_hash.rs `RollingHash::new` -/
def Roll.new : Roll := { index := 0, h1 := 0, h2 := 0, h3 := 0, window := List.replicate 7 0 }

/-- rs: rolling_hash.rs `RollingHash::update_by_byte` (same statement order) -/
def Roll.updateByByte (r : Roll) (ch : UInt8) : Roll :=
  let h2 := r.h2 - r.h1
  let h2 := h2 + 7 * ch.toUInt32
  let h1 := r.h1 + ch.toUInt32
  let h1 := h1 - (r.window.getD r.index 0).toUInt32
  let window := r.window.set r.index ch
  let index := r.index + 1
  let index := if index = 7 then 0 else index
  let h3 := r.h3 <<< 5
  let h3 := h3 ^^^ ch.toUInt32
  { index := index, h1 := h1, h2 := h2, h3 := h3, window := window }

/-- rs: rolling_hash.rs `RollingHash::value` -/
def Roll.value (r : Roll) : UInt32 := r.h1 + r.h2 + r.h3

/-- rs: `update`, `update_by_iter`, `+=` all loop over `update_by_byte` -/
def Roll.update (r : Roll) (bs : List UInt8) : Roll := bs.foldl Roll.updateByByte r

/-! ### Specification (C19): the value depends on the last 7 bytes only -/

/-- the last 7 bytes, zero padded on the left (oldest first) -/
def lastWindow (bs : List UInt8) : List UInt8 :=
  let w := bs.drop (bs.length - 7)
  List.replicate (7 - w.length) 0 ++ w

/-- closed form over a 7 byte window `w` (oldest first):
    sum + position-weighted sum + shift-by-5-and-xor fold, all in 32-bit wrapping arithmetic -/
def weightedSum : List UInt8 → UInt32 → UInt32
  | [], _ => 0
  | c :: cs, k => k * c.toUInt32 + weightedSum cs (k + 1)

def rollSpecWindow (w : List UInt8) : UInt32 :=
  let s1 : UInt32 := w.foldl (fun acc c => acc + c.toUInt32) 0
  let s2 : UInt32 := weightedSum w 1
  let s3 : UInt32 := w.foldl (fun acc c => (acc <<< 5) ^^^ c.toUInt32) 0
  s1 + s2 + s3

def rollSpec (bs : List UInt8) : UInt32 := rollSpecWindow (lastWindow bs)

end Ffuzzy
