/-
  Model of ffuzzy/src/internals/hash/block.rs (`block_size`, `block_hash` windows) and utils.rs
-/
import FfuzzyModel.Basic
namespace Ffuzzy

inductive Rel where | nearLt | nearEq | nearGt | far
  deriving Repr, DecidableEq

namespace BlockSize

def MIN : UInt32 := 3
def NUM_VALID : Nat := 31

/-- rs: `u32::is_power_of_two` -/
def isPow2 (x : UInt32) : Bool := x != 0 && (x &&& (x - 1)) == 0

/-- rs: block.rs `block_size::is_valid` -/
def isValid (x : UInt32) : Bool := x % MIN == 0 && isPow2 (x / MIN)

/-- rs: block.rs `block_size::is_log_valid` -/
def isLogValid (n : UInt8) : Bool := n < 31

/-- rs: block.rs `from_log_internal_const`: `MIN << log_block_size` -/
def fromLogInternal (n : UInt8) : UInt32 := MIN <<< n.toUInt32

/-- rs: block.rs `from_log` -/
def fromLog (n : UInt8) : Option UInt32 := if isLogValid n then some (fromLogInternal n) else none

/-- rs: block.rs `LOG_DEBRUIJN_TABLE` -/
def debruijnTable : List UInt8 :=
  [0x00, 0x01, 0x02, 0x06, 0x03, 0x0b, 0x07, 0x10,
   0x04, 0x0e, 0x0c, 0x18, 0x08, 0x15, 0x11, 0x1a,
   0x1e, 0x05, 0x0a, 0x0f, 0x0d, 0x17, 0x14, 0x19,
   0x1d, 0x09, 0x16, 0x13, 0x1c, 0x12, 0x1b, 0xff]

/-- rs: block.rs `debruijn_index` -/
def debruijnIndex (x : UInt32) : Nat := ((x * 0x017713ca) >>> 27).toNat

/-- rs: block.rs `log_from_valid_internal` -/
def logFromValidInternal (x : UInt32) : UInt8 := debruijnTable.getD (debruijnIndex x) 0xff

/-- rs: block.rs `log_from_valid` (panics — `none` — when the block size is invalid) -/
def logFromValid (x : UInt32) : Option UInt8 :=
  if isValid x then some (logFromValidInternal x) else none

/-- rs: block.rs `is_near`: `u32::wrapping_sub(lhs, rhs).wrapping_add(1) <= 2` -/
def isNear (l r : UInt8) : Bool := (l.toUInt32 - r.toUInt32) + 1 ≤ 2
def isNearEq (l r : UInt8) : Bool := l == r
/-- rs: `(rhs as i32) - (lhs as i32) == 1` -/
def isNearLt (l r : UInt8) : Bool := (r.toNat : Int) - (l.toNat : Int) == 1
def isNearGt (l r : UInt8) : Bool := isNearLt r l

/-- rs: block.rs `compare_sizes` -/
def compareSizes (l r : UInt8) : Rel :=
  let d : Int := (l.toNat : Int) - (r.toNat : Int)
  if d == -1 then .nearLt else if d == 0 then .nearEq else if d == 1 then .nearGt else .far

/-- rs: block.rs `block_size::cmp` -/
def cmp (l r : UInt8) : Ordering := compare l r

/-- canonical decimal digits (ASCII) of a natural number, most significant first (fuel 20 ≥ digits of u64) -/
def decDigitsAux : Nat → Nat → List UInt8 → List UInt8
  | 0, _, acc => acc
  | fuel + 1, n, acc =>
    let acc := (48 + n % 10).toUInt8 :: acc
    if n / 10 = 0 then acc else decDigitsAux fuel (n / 10) acc

def decDigits (n : Nat) : List UInt8 := decDigitsAux 20 n []

/-- rs: block.rs `BLOCK_SIZES_STR[n]` as bytes: canonical decimal of `3·2^n`
    (the strings observed from the compiled crate are proved equal in `FfuzzyProofs/Tables.lean`) -/
def str (n : UInt8) : List UInt8 := decDigits (3 * 2 ^ n.toNat)

def MAX_BLOCK_SIZE_LEN_IN_CHARS : Nat := 10

end BlockSize

/-- rs: utils.rs `u64_lsb_ones` -/
def u64LsbOnes (n : Nat) : BitVec 64 := (if n = 64 then 0 else (1 : BitVec 64) <<< n) - 1

/-- rs: utils.rs `u64_ilog2` (for a non-zero value) -/
def u64Ilog2 (v : Nat) : Nat := Nat.log2 v

end Ffuzzy
