import FfuzzyModel.Driver3
open Ffuzzy Ffuzzy.Driver

partial def loop (h : IO.FS.Stream) (out : IO.FS.Stream) (cfg : Cfg) : IO Unit := do
  let line ← h.getLine
  if line.isEmpty then return ()
  let l := line.trimAscii.toString
  if l.startsWith "cfg " then
    let cfg' : Cfg :=
      { debugAssertions := (l.splitOn " ").contains "debug=1",
        strictParser := (l.splitOn " ").contains "strict=1" }
    out.putStrLn "cfg-ok\t-"
    loop h out cfg'
  else
    let (m, s) := runLine cfg l
    out.putStrLn (m ++ "\t" ++ s)
    loop h out cfg

def main : IO Unit := do
  let stdin ← IO.getStdin
  let stdout ← IO.getStdout
  loop stdin stdout {}
