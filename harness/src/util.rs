//! Small utilities: hex coding, PRNG, panic capture, recording hasher.

use std::panic::{catch_unwind, AssertUnwindSafe};

pub fn hexenc(bs: &[u8]) -> String {
    if bs.is_empty() {
        return "-".to_string();
    }
    let mut s = String::with_capacity(bs.len() * 2);
    for b in bs {
        s.push(char::from_digit((b >> 4) as u32, 16).unwrap());
        s.push(char::from_digit((b & 15) as u32, 16).unwrap());
    }
    s
}

pub fn hexdec(s: &str) -> Option<Vec<u8>> {
    if s == "-" {
        return Some(vec![]);
    }
    let b = s.as_bytes();
    if b.len() % 2 != 0 {
        return None;
    }
    let mut out = Vec::with_capacity(b.len() / 2);
    for i in (0..b.len()).step_by(2) {
        let h = (b[i] as char).to_digit(16)?;
        let l = (b[i + 1] as char).to_digit(16)?;
        out.push((h * 16 + l) as u8);
    }
    Some(out)
}

/// xorshift64* PRNG: every random choice of the harness derives from one of these.
#[derive(Clone)]
pub struct Rng(pub u64);

impl Rng {
    pub fn new(seed: u64) -> Self {
        Rng(seed.wrapping_mul(0x9E3779B97F4A7C15) ^ 0xD1B54A32D192ED03 | 1)
    }
    pub fn next(&mut self) -> u64 {
        let mut x = self.0;
        x ^= x >> 12;
        x ^= x << 25;
        x ^= x >> 27;
        self.0 = x;
        x.wrapping_mul(0x2545F4914F6CDD1D)
    }
    /// uniform in 0..n (n > 0)
    pub fn below(&mut self, n: u64) -> u64 {
        self.next() % n
    }
    pub fn range(&mut self, lo: u64, hi_incl: u64) -> u64 {
        lo + self.below(hi_incl - lo + 1)
    }
    pub fn chance(&mut self, num: u64, den: u64) -> bool {
        self.below(den) < num
    }
    pub fn pick<'a, T>(&mut self, v: &'a [T]) -> &'a T {
        &v[self.below(v.len() as u64) as usize]
    }
    pub fn byte(&mut self) -> u8 {
        (self.next() >> 32) as u8
    }
    pub fn bytes(&mut self, n: usize) -> Vec<u8> {
        (0..n).map(|_| self.byte()).collect()
    }
}

/// Run `f`, mapping a panic to `None`.
pub fn guarded<T>(f: impl FnOnce() -> T) -> Option<T> {
    catch_unwind(AssertUnwindSafe(f)).ok()
}

pub fn silence_panics() {
    std::panic::set_hook(Box::new(|_| {}));
}

/// A `Hasher` that records every `write*` call.
#[derive(Default)]
pub struct RecHasher {
    pub writes: Vec<Vec<u8>>,
}

impl std::hash::Hasher for RecHasher {
    fn finish(&self) -> u64 {
        0
    }
    fn write(&mut self, bytes: &[u8]) {
        self.writes.push(bytes.to_vec());
    }
}

pub fn hash_writes<T: std::hash::Hash>(t: &T) -> Vec<Vec<u8>> {
    let mut h = RecHasher::default();
    t.hash(&mut h);
    h.writes
}

pub fn b2s(b: bool) -> &'static str {
    if b {
        "1"
    } else {
        "0"
    }
}
