//! Correspondence harness for the Lean model of a4lg/ffuzzy.
//!
//!   corr gen <family> <tier> <seed>   print operation lines for a family
//!   corr exec                         read operation lines on stdin, print implementation results
//!   corr info                         print the build configuration of the linked crate

mod exec;
mod gen;
mod tables;
mod util;
mod words;

use std::io::{BufRead, Write};

fn main() {
    let args: Vec<String> = std::env::args().collect();
    util::silence_panics();
    match args.get(1).map(|s| s.as_str()) {
        Some("gen") => {
            let family = args.get(2).expect("family");
            let tier = args.get(3).map(|s| s.as_str()).unwrap_or("quick");
            let seed: u64 = args.get(4).and_then(|s| s.parse().ok()).unwrap_or(1);
            let out = std::io::stdout();
            let mut out = std::io::BufWriter::new(out.lock());
            gen::generate(family, tier == "thorough", seed, &mut |l: &str| {
                out.write_all(l.as_bytes()).unwrap();
                out.write_all(b"\n").unwrap();
            });
        }
        Some("exec") => {
            let stdin = std::io::stdin();
            let out = std::io::stdout();
            let mut out = std::io::BufWriter::new(out.lock());
            for line in stdin.lock().lines() {
                let line = line.unwrap();
                let r = exec::exec_line(line.trim());
                out.write_all(r.as_bytes()).unwrap();
                out.write_all(b"\n").unwrap();
            }
        }
        Some("tables") => {
            print!("{}", tables::dump());
        }
        Some("info") => {
            println!(
                "debug_assertions={} ff-default={} ff-unsafe={} ff-unchecked={} ff-reduce-fnv={} ff-strict={}",
                cfg!(debug_assertions),
                cfg!(feature = "ff-default"),
                cfg!(feature = "ff-unsafe"),
                cfg!(feature = "ff-unchecked"),
                cfg!(feature = "ff-reduce-fnv"),
                cfg!(feature = "ff-strict")
            );
        }
        _ => {
            eprintln!("usage: corr gen <family> <tier> <seed> | corr exec | corr info");
            std::process::exit(2);
        }
    }
}
