//! Dumps, as a Lean source file, every table-like fact observable from the compiled crate.
#![allow(deprecated)]

use ssdeep::internal_hashes::{PartialFNVHash, RollingHash};
use ssdeep::{block_hash, block_size, FuzzyHashCompareTarget, Generator, LongRawFuzzyHash, RawFuzzyHash};

fn list_u8(v: &[u8]) -> String {
    format!("[{}]", v.iter().map(|x| x.to_string()).collect::<Vec<_>>().join(", "))
}

pub fn dump() -> String {
    let mut o = String::new();
    o.push_str("/- GENERATED on every run by `/verif/harness` (`corr tables`) from the compiled crate. Do not edit. -/\n");
    o.push_str("namespace Ffuzzy.Generated\n\n");
    // base64 alphabet: the character printed for each symbol
    let alpha: Vec<u8> = (0..64u8)
        .map(|i| {
            let h = RawFuzzyHash::new_from_internals_near_raw(0, &[i], &[]);
            format!("{}", h).as_bytes()[2]
        })
        .collect();
    o.push_str(&format!("def b64Alphabet : List UInt8 := {}\n\n", list_u8(&alpha)));
    // reverse table: the symbol each byte parses to (64 = rejected)
    let rev: Vec<u8> = (0..=255u8)
        .map(|c| {
            let t = [b'3', b':', c, b':'];
            match RawFuzzyHash::from_bytes(&t) {
                Ok(h) if h.block_hash_1().len() == 1 => h.block_hash_1()[0],
                _ => 64,
            }
        })
        .collect();
    o.push_str(&format!("def b64Rev : List UInt8 := {}\n\n", list_u8(&rev)));
    // block sizes
    let strs: Vec<String> = (0..31u8)
        .map(|n| {
            let h = RawFuzzyHash::new_from_internals_near_raw(n, &[], &[]);
            let s = format!("{}", h);
            list_u8(s.trim_end_matches("::").as_bytes())
        })
        .collect();
    o.push_str(&format!("def blockSizeStr : List (List UInt8) := [{}]\n\n", strs.join(", ")));
    let from_log: Vec<String> = (0..31u8).map(|n| block_size::from_log(n).unwrap().to_string()).collect();
    o.push_str(&format!("def fromLog : List Nat := [{}]\n\n", from_log.join(", ")));
    let log_from: Vec<String> = (0..31u8).map(|n| block_size::log_from_valid(3u32 << n).to_string()).collect();
    o.push_str(&format!("def logFromValid : List Nat := [{}]\n\n", log_from.join(", ")));
    // FNV transition table, observed: state s is reached by a shortest byte prefix
    let mut prefix: Vec<Option<Vec<u8>>> = vec![None; 64];
    let mut queue: std::collections::VecDeque<Vec<u8>> = std::collections::VecDeque::new();
    let init = PartialFNVHash::new().value();
    prefix[init as usize % 64] = Some(vec![]);
    queue.push_back(vec![]);
    while let Some(p) = queue.pop_front() {
        for c in 0..=255u8 {
            let mut h = PartialFNVHash::new();
            h.update(&p);
            h.update_by_byte(c);
            let v = h.value() as usize % 64;
            if prefix[v].is_none() {
                let mut q = p.clone();
                q.push(c);
                prefix[v] = Some(q.clone());
                queue.push_back(q);
            }
        }
    }
    o.push_str(&format!("def fnvInit : Nat := {}\n\n", init));
    let mut row_names = Vec::new();
    for s in 0..64usize {
        let row: Vec<u8> = match &prefix[s] {
            Some(p) => (0..=255u8)
                .map(|c| {
                    let mut h = PartialFNVHash::new();
                    h.update(p);
                    h.update_by_byte(c);
                    h.value()
                })
                .collect(),
            None => vec![255; 256], // unreachable state: poisons the proof obligation
        };
        o.push_str(&format!("def fnvRow{} : List UInt8 := {}\n", s, list_u8(&row)));
        row_names.push(format!("fnvRow{}", s));
    }
    o.push_str(&format!("\ndef fnvRows : List (List UInt8) := [{}]\n\n", row_names.join(", ")));
    // scalar constants
    let consts: Vec<(&str, u64)> = vec![
        ("MIN", block_size::MIN as u64),
        ("NUM_VALID", block_size::NUM_VALID as u64),
        ("FULL_SIZE", block_hash::FULL_SIZE as u64),
        ("HALF_SIZE", block_hash::HALF_SIZE as u64),
        ("MAX_SEQUENCE_SIZE", block_hash::MAX_SEQUENCE_SIZE as u64),
        ("MIN_LCS_FOR_COMPARISON", block_hash::MIN_LCS_FOR_COMPARISON as u64),
        ("WINDOW_SIZE", RollingHash::WINDOW_SIZE as u64),
        ("MAX_INPUT_SIZE", Generator::MAX_INPUT_SIZE),
        ("MIN_RECOMMENDED_INPUT_SIZE", Generator::MIN_RECOMMENDED_INPUT_SIZE),
        ("CAPPING_BORDER", FuzzyHashCompareTarget::LOG_BLOCK_SIZE_CAPPING_BORDER as u64),
        ("MAX_LEN_IN_STR", ssdeep::MAX_LEN_IN_STR as u64),
        ("MAX_LEN_IN_STR_SHORT", RawFuzzyHash::MAX_LEN_IN_STR as u64),
        ("MAX_LEN_IN_STR_LONG", LongRawFuzzyHash::MAX_LEN_IN_STR as u64),
        ("NUMERIC_WINDOW_BITS", block_hash::NumericWindows::BITS as u64),
        ("NUMERIC_WINDOW_MASK", block_hash::NumericWindows::MASK),
        ("INDEX_WINDOW_BITS", block_hash::IndexWindows::BITS as u64),
        ("INDEX_WINDOW_MASK", block_hash::IndexWindows::MASK),
    ];
    for (n, v) in consts {
        o.push_str(&format!("def {} : Nat := {}\n", n, v));
    }
    o.push_str("\nend Ffuzzy.Generated\n");
    o
}
