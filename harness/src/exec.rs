//! Executes one operation line on the real crate and prints the canonical result
//! (the same text the Lean driver prints in its model column).

#![allow(deprecated)]

use crate::util::*;
use ssdeep::internal_comparison::{
    BlockHashPositionArray, BlockHashPositionArrayData, BlockHashPositionArrayImpl,
};
use ssdeep::internal_hashes::{PartialFNVHash, RollingHash};
use ssdeep::{
    block_hash, block_size, BlockSizeRelation, DualFuzzyHash, FuzzyHash, FuzzyHashCompareTarget,
    Generator, GeneratorError, LongDualFuzzyHash, LongFuzzyHash, LongRawFuzzyHash, ParseError,
    ParseErrorKind, ParseErrorOrigin,
    ParseErrorInfo, RawFuzzyHash,
};
use std::cmp::Ordering;

type R = RawFuzzyHash;
type LR = LongRawFuzzyHash;
type N = FuzzyHash;
type LN = LongFuzzyHash;
type D = DualFuzzyHash;
type LD = LongDualFuzzyHash;

const PANIC: &str = "PANIC";
const BAD: &str = "bad-op";

macro_rules! plain_dispatch {
    ($code:expr, $T:ident, $body:block, $else:block) => {
        match $code {
            "R" => { type $T = R; $body }
            "LR" => { type $T = LR; $body }
            "N" => { type $T = N; $body }
            "LN" => { type $T = LN; $body }
            _ => $else,
        }
    };
}

macro_rules! dual_dispatch {
    ($code:expr, $T:ident, $body:block, $else:block) => {
        match $code {
            "D" => { type $T = D; $body }
            "LD" => { type $T = LD; $body }
            _ => $else,
        }
    };
}

fn ord_str(o: Ordering) -> &'static str {
    match o {
        Ordering::Less => "lt",
        Ordering::Equal => "eq",
        Ordering::Greater => "gt",
    }
}

fn gen_err(e: GeneratorError) -> String {
    // the size-too-large classification of the error type is part of the error contract (C12)
    let big = matches!(e, GeneratorError::FixedSizeTooLarge | GeneratorError::InputSizeTooLarge);
    if e.is_size_too_large_error() != big { return format!("INCONSISTENT(is_size_too_large_error:{:?})", e); }
    format!("ERR({})", gen_err_name(e))
}
fn gen_err_name(e: GeneratorError) -> &'static str {
    match e {
        GeneratorError::FixedSizeMismatch => "FixedSizeMismatch",
        GeneratorError::FixedSizeTooLarge => "FixedSizeTooLarge",
        GeneratorError::InputSizeTooLarge => "InputSizeTooLarge",
        GeneratorError::OutputOverflow => "OutputOverflow",
        _ => "UnknownGeneratorError",
    }
}

fn nat(s: &str) -> Option<u64> {
    s.parse::<u64>().ok()
}

// ---------------------------------------------------------------------------------------------
// prim
// ---------------------------------------------------------------------------------------------

fn run_prim(a: &[&str]) -> String {
    match a {
        ["roll", h] => {
            let bs = match hexdec(h) { Some(b) => b, None => return BAD.into() };
            let mut v = Vec::new();
            let mut x = RollingHash::new(); x.update(&bs); v.push(x.value());
            let mut x = RollingHash::new(); x.update_by_iter(bs.iter().copied()); v.push(x.value());
            let mut x = RollingHash::new(); for &c in &bs { x.update_by_byte(c); } v.push(x.value());
            let mut x = RollingHash::new(); x += &bs[..]; v.push(x.value());
            let mut x = RollingHash::new(); for &c in &bs { x += c; } v.push(x.value());
            if v.iter().all(|&y| y == v[0]) { format!("{}", v[0]) } else { format!("FORMS {:?}", v) }
        }
        ["fnv", h] => {
            let bs = match hexdec(h) { Some(b) => b, None => return BAD.into() };
            let mut v = Vec::new();
            let mut x = PartialFNVHash::new(); x.update(&bs); v.push(x.value());
            let mut x = PartialFNVHash::new(); x.update_by_iter(bs.iter().copied()); v.push(x.value());
            let mut x = PartialFNVHash::new(); for &c in &bs { x.update_by_byte(c); } v.push(x.value());
            let mut x = PartialFNVHash::new(); x += &bs[..]; v.push(x.value());
            let mut x = PartialFNVHash::new(); for &c in &bs { x += c; } v.push(x.value());
            if v.iter().all(|&y| y == v[0]) { format!("{}", v[0]) } else { format!("FORMS {:?}", v) }
        }
        // one hasher, a history of chunks each fed through its own update form; value after each chunk
        [which @ ("rollh" | "fnvh"), chunks @ ..] => {
            let mut r = RollingHash::new();
            let mut f = PartialFNVHash::new();
            let mut out = Vec::new();
            for c in chunks {
                let (form, h) = match c.split_once(':') { Some(x) => x, None => return BAD.into() };
                let bs = match hexdec(h) { Some(b) => b, None => return BAD.into() };
                macro_rules! feed { ($x:ident) => { match form {
                    "u" => { $x.update(&bs); }
                    "i" => { $x.update_by_iter(bs.iter().copied()); }
                    "b" => { for &c in &bs { $x.update_by_byte(c); } }
                    "a" => { $x += &bs[..]; }
                    "A" => { for &c in &bs { $x += c; } }
                    "n" => { match bs.len() {
                        1 => { $x += <&[u8; 1]>::try_from(&bs[..]).unwrap(); }
                        3 => { $x += <&[u8; 3]>::try_from(&bs[..]).unwrap(); }
                        7 => { $x += <&[u8; 7]>::try_from(&bs[..]).unwrap(); }
                        8 => { $x += <&[u8; 8]>::try_from(&bs[..]).unwrap(); }
                        13 => { $x += <&[u8; 13]>::try_from(&bs[..]).unwrap(); }
                        _ => { $x += &bs[..]; }
                    } }
                    _ => return BAD.into(),
                } } }
                if *which == "rollh" { feed!(r); out.push(r.value().to_string()); }
                else { feed!(f); out.push(f.value().to_string()); }
            }
            if out.is_empty() { "-".into() } else { out.join(",") }
        }
        _ => BAD.into(),
    }
}

// ---------------------------------------------------------------------------------------------
// bs
// ---------------------------------------------------------------------------------------------

/// every `Default` implementation yields the same object as `new()`
fn defaults_are_new() -> bool {
    let g = format!("{:?}", Generator::default()) == format!("{:?}", Generator::new());
    let h = R::default().full_eq(&R::new()) && N::default().full_eq(&N::new())
        && LR::default().full_eq(&LR::new()) && LN::default().full_eq(&LN::new())
        && D::default() == D::new() && LD::default() == LD::new() && D::default().is_valid() && LD::default().is_valid();
    let t = FuzzyHashCompareTarget::default().full_eq(&FuzzyHashCompareTarget::new());
    let p = BlockHashPositionArray::default() == BlockHashPositionArray::new();
    let r = RollingHash::default().value() == RollingHash::new().value()
        && PartialFNVHash::default().value() == PartialFNVHash::new().value();
    g && h && t && p && r
}

fn run_bs(a: &[&str]) -> String {
    match a {
        ["valid", x] => match nat(x) {
            Some(v) if v <= u32::MAX as u64 => b2s(block_size::is_valid(v as u32)).into(),
            _ => BAD.into(),
        },
        ["fromlog", x] => match nat(x) {
            Some(n) if n <= 255 && block_size::is_log_valid(n as u8) != block_size::from_log(n as u8).is_some() => "INCONSISTENT(is_log_valid)".into(),
            Some(n) if n <= 255 => match block_size::from_log(n as u8) {
                Some(v) => {
                    #[cfg(feature = "ff-unchecked")]
                    #[allow(unsafe_code)]
                    unsafe {
                        if block_size::from_log_unchecked(n as u8) != v || block_size::log_from_valid_unchecked(v) != n as u8 {
                            return "UNCHECKED-DISAGREE".into();
                        }
                    }
                    format!("{}", v)
                }
                None => "none".into(),
            },
            _ => BAD.into(),
        },
        ["logvalid", x] => match nat(x) {
            Some(v) if v <= u32::MAX as u64 => match guarded(|| block_size::log_from_valid(v as u32)) {
                Some(n) => format!("{}", n),
                None => PANIC.into(),
            },
            _ => BAD.into(),
        },
        ["str", x] => match nat(x) {
            Some(n) if n < 31 => {
                let h = R::new_from_internals_near_raw(n as u8, &[], &[]);
                let s = format!("{}", h);
                s.trim_end_matches("::").to_string()
            }
            _ => BAD.into(),
        },
        ["rel", x, y] => match (nat(x), nat(y)) {
            (Some(l), Some(r)) if l < 31 && r < 31 => {
                let (l, r) = (l as u8, r as u8);
                let rel = match block_size::compare_sizes(l, r) {
                    BlockSizeRelation::NearLt => "NearLt",
                    BlockSizeRelation::NearEq => "NearEq",
                    BlockSizeRelation::NearGt => "NearGt",
                    BlockSizeRelation::Far => "Far",
                };
                {
                    // the same relations asked of hash objects
                    let (hl, hr) = (N::new_from_internals_near_raw(l, &[1], &[2]), N::new_from_internals_near_raw(r, &[3], &[]));
                    let same = N::compare_block_sizes(&hl, &hr) == block_size::compare_sizes(l, r)
                        && N::is_block_sizes_near(&hl, &hr) == block_size::is_near(l, r)
                        && N::is_block_sizes_near_eq(&hl, &hr) == block_size::is_near_eq(l, r)
                        && N::is_block_sizes_near_lt(&hl, &hr) == block_size::is_near_lt(l, r)
                        && N::is_block_sizes_near_gt(&hl, &hr) == block_size::is_near_gt(l, r)
                        && hl.cmp_by_block_size(&hr) == block_size::cmp(l, r)
                        && LR::compare_block_sizes(LR::from(hl.to_long_form()), LR::from(hr.to_long_form())) == block_size::compare_sizes(l, r);
                    let same = same && block_size::compare_sizes(l, r).is_near() == block_size::is_near(l, r);
                    if !same { return "INCONSISTENT(object block size relations)".into(); }
                }
                format!(
                    "{} {} {} {} {} {}",
                    b2s(block_size::is_near(l, r)),
                    b2s(block_size::is_near_eq(l, r)),
                    b2s(block_size::is_near_lt(l, r)),
                    b2s(block_size::is_near_gt(l, r)),
                    rel,
                    ord_str(block_size::cmp(l, r))
                )
            }
            _ => BAD.into(),
        },
        ["raw", l1, l2, d] => match (nat(l1), nat(l2), nat(d)) {
            (Some(l1), Some(l2), Some(d)) if l1 < 256 && l2 < 256 && d <= u32::MAX as u64 => {
                match guarded(|| {
                    FuzzyHashCompareTarget::raw_score_by_edit_distance(l1 as u8, l2 as u8, d as u32)
                }) {
                    Some(s) => {
                        #[cfg(feature = "ff-unchecked")]
                        #[allow(unsafe_code)]
                        unsafe {
                            if FuzzyHashCompareTarget::raw_score_by_edit_distance_unchecked(l1 as u8, l2 as u8, d as u32) != s {
                                return "UNCHECKED-DISAGREE".into();
                            }
                        }
                        format!("{}", s)
                    }
                    None => PANIC.into(),
                }
            }
            _ => BAD.into(),
        },
        ["cap", n, l1, l2] => match (nat(n), nat(l1), nat(l2)) {
            (Some(n), Some(l1), Some(l2)) if n < 256 && l1 < 256 && l2 < 256 => {
                let c = match guarded(|| FuzzyHashCompareTarget::score_cap_on_block_hash_comparison(n as u8, l1 as u8, l2 as u8)) {
                    Some(c) => c, None => return PANIC.into() };
                #[cfg(feature = "ff-unchecked")]
                #[allow(unsafe_code)]
                unsafe {
                    // documented contract of the unchecked twin: logarithm below the capping border,
                    // lengths of at most 64
                    if n < FuzzyHashCompareTarget::LOG_BLOCK_SIZE_CAPPING_BORDER as u64 && l1 <= 64 && l2 <= 64
                        && FuzzyHashCompareTarget::score_cap_on_block_hash_comparison_unchecked(n as u8, l1 as u8, l2 as u8) != c {
                        return "UNCHECKED-DISAGREE".into();
                    }
                }
                format!("{}", c)
            }
            _ => BAD.into(),
        },
        ["const"] if !defaults_are_new() => "INCONSISTENT(Default != new)".into(),
        ["const"] => format!(
            "MIN={} NUM_VALID={} FULL={} HALF={} MAXSEQ={} MINLCS={} WINDOW={} MAXIN={} MINREC={} BORDER={} MAXLEN={} MAXLEN_S={} MAXLEN_L={} NWBITS={} IWBITS={}",
            block_size::MIN,
            block_size::NUM_VALID,
            block_hash::FULL_SIZE,
            block_hash::HALF_SIZE,
            block_hash::MAX_SEQUENCE_SIZE,
            block_hash::MIN_LCS_FOR_COMPARISON,
            RollingHash::WINDOW_SIZE,
            Generator::MAX_INPUT_SIZE,
            Generator::MIN_RECOMMENDED_INPUT_SIZE,
            FuzzyHashCompareTarget::LOG_BLOCK_SIZE_CAPPING_BORDER,
            ssdeep::MAX_LEN_IN_STR,
            R::MAX_LEN_IN_STR,
            LR::MAX_LEN_IN_STR,
            block_hash::NumericWindows::BITS,
            block_hash::IndexWindows::BITS
        ),
        _ => BAD.into(),
    }
}

// ---------------------------------------------------------------------------------------------
// parse
// ---------------------------------------------------------------------------------------------

// Names of error kinds / origins are spelled out here (not taken from `Debug`, whose text is not API).
fn kind_str(k: ParseErrorKind) -> &'static str {
    match k {
        ParseErrorKind::BlockSizeIsEmpty => "BlockSizeIsEmpty",
        ParseErrorKind::BlockSizeStartsWithZero => "BlockSizeStartsWithZero",
        ParseErrorKind::BlockSizeIsInvalid => "BlockSizeIsInvalid",
        ParseErrorKind::BlockSizeIsTooLarge => "BlockSizeIsTooLarge",
        ParseErrorKind::BlockHashIsTooLong => "BlockHashIsTooLong",
        ParseErrorKind::UnexpectedCharacter => "UnexpectedCharacter",
        ParseErrorKind::UnexpectedEndOfString => "UnexpectedEndOfString",
        _ => "UnknownKind",
    }
}
fn origin_str(o: ParseErrorOrigin) -> &'static str {
    match o {
        ParseErrorOrigin::BlockSize => "BlockSize",
        ParseErrorOrigin::BlockHash1 => "BlockHash1",
        ParseErrorOrigin::BlockHash2 => "BlockHash2",
    }
}
fn perr(e: &ParseError) -> String {
    format!("ERR {} {}", kind_str(e.kind()), origin_str(e.origin()))
}

const SENTINEL: usize = 0x5EED_1234;

macro_rules! parse_all_routes {
    ($T:ident, $bs:expr, $eqfn:expr) => {{
        let bs: &[u8] = $bs;
        let r1 = guarded(|| <$T>::from_bytes(bs));
        let mut idx = SENTINEL;
        let r2 = guarded(|| <$T>::from_bytes_with_last_index(bs, &mut idx));
        let r3 = match std::str::from_utf8(bs) {
            Ok(s) => Some(guarded(|| s.parse::<$T>())),
            Err(_) => None,
        };
        // consistency of the three entry points
        let mut consistent = true;
        match (&r1, &r2) {
            (None, None) => {}
            (Some(Ok(a)), Some(Ok(b))) => consistent &= $eqfn(a, b),
            (Some(Err(a)), Some(Err(b))) => {
                consistent &= a == b;
                consistent &= idx == SENTINEL;
            }
            _ => consistent = false,
        }
        if let Some(r3) = &r3 {
            match (&r1, r3) {
                (None, None) => {}
                (Some(Ok(a)), Some(Ok(b))) => consistent &= $eqfn(a, b),
                (Some(Err(a)), Some(Err(b))) => consistent &= a == b,
                _ => consistent = false,
            }
        }
        (r1, idx, consistent)
    }};
}

fn run_parse(a: &[&str]) -> String {
    match a {
        [t, h] => {
            let bs = match hexdec(h) { Some(b) => b, None => return BAD.into() };
            plain_dispatch!(*t, T, {
                let (r1, idx, consistent) = parse_all_routes!(T, &bs, |a: &T, b: &T| a.full_eq(b));
                if !consistent { return "INCONSISTENT".into(); }
                match r1 {
                    None => PANIC.into(),
                    Some(Err(e)) => perr(&e),
                    Some(Ok(f)) => format!(
                        "OK {} {} {} {} v={}",
                        f.log_block_size(),
                        hexenc(f.block_hash_1()),
                        hexenc(f.block_hash_2()),
                        idx,
                        b2s(f.is_valid())
                    ),
                }
            }, {
                dual_dispatch!(*t, T, {
                    let (r1, idx, consistent) = parse_all_routes!(T, &bs, |a: &T, b: &T| a == b && hash_writes(a) == hash_writes(b));
                    if !consistent { return "INCONSISTENT".into(); }
                    match r1 {
                        None => PANIC.into(),
                        Some(Err(e)) => perr(&e),
                        Some(Ok(d)) => {
                            let n = d.as_normalized();
                            let fe = d.fresh_eq_();
                            format!(
                                "OK {} {} {} {} v={} fe={}",
                                n.log_block_size(),
                                hexenc(n.block_hash_1()),
                                hexenc(n.block_hash_2()),
                                idx,
                                b2s(d.is_valid()),
                                b2s(fe)
                            )
                        }
                    }
                }, { BAD.into() })
            })
        }
        _ => BAD.into(),
    }
}

/// `d` is indistinguishable (`==`, `cmp`, hash-trait output) from the dual hash freshly built from its
/// own raw form.  This is how stale or non-canonical reverse-normalization data is observed; the RLE
/// bytes themselves are private, and what a `Hash` impl feeds (and in which order) is not specified.
trait DualFresh { fn fresh_eq_(&self) -> bool; }
macro_rules! impl_dual_fresh {
    ($DUAL:ident) => {
        impl DualFresh for $DUAL {
            fn fresh_eq_(&self) -> bool {
                let d = self;
                guarded(|| {
                    let f = $DUAL::from_raw_form(&d.to_raw_form());
                    f == *d && f.cmp(d) == Ordering::Equal && hash_writes(&f) == hash_writes(d) && f.is_valid() == d.is_valid()
                }).unwrap_or(false)
            }
        }
    };
}
impl_dual_fresh!(D);
impl_dual_fresh!(LD);

// ---------------------------------------------------------------------------------------------
// fmt
// ---------------------------------------------------------------------------------------------

fn run_fmt(a: &[&str]) -> String {
    match a {
        [t, k, b1, b2, bl] => {
            let (k, b1, b2, bl) = match (nat(k), hexdec(b1), hexdec(b2), nat(bl)) {
                (Some(k), Some(b1), Some(b2), Some(bl)) if k < 256 => (k as u8, b1, b2, bl as usize),
                _ => return BAD.into(),
            };
            plain_dispatch!(*t, T, {
                let h = match guarded(|| T::new_from_internals_near_raw(k, &b1, &b2)) {
                    Some(h) => h,
                    None => return PANIC.into(),
                };
                let disp = format!("{}", h);
                let mut routes = true;
                // array views / lengths and the raw-array constructors give the same object
                {
                    let (a1, a2) = (h.block_hash_1_as_array(), h.block_hash_2_as_array());
                    let (l1, l2) = (h.block_hash_1_len(), h.block_hash_2_len());
                    routes &= l1 == h.block_hash_1().len() && l2 == h.block_hash_2().len()
                        && &a1[..l1] == h.block_hash_1() && &a2[..l2] == h.block_hash_2()
                        && a1[l1..].iter().all(|&x| x == 0) && a2[l2..].iter().all(|&x| x == 0);
                    let c = T::new_from_internals_raw(k, a1, a2, l1 as u8, l2 as u8);
                    let mut c2 = T::new_from_internals_near_raw(7, &[9, 8, 7, 6, 5, 4, 3, 2, 1], &[1, 2, 3]);
                    c2.init_from_internals_raw(k, a1, a2, l1 as u8, l2 as u8);
                    routes &= c.full_eq(&h) && c2.full_eq(&h);
                    #[cfg(feature = "ff-unchecked")]
                    #[allow(unsafe_code)]
                    unsafe {
                        let u1 = T::new_from_internals_near_raw_unchecked(k, &b1, &b2);
                        let u2 = T::new_from_internals_unchecked(block_size::from_log(k).unwrap(), &b1, &b2);
                        let u3 = T::new_from_internals_raw_unchecked(k, a1, a2, l1 as u8, l2 as u8);
                        let mut u4 = T::new_from_internals_near_raw(7, &[9, 8, 7, 6, 5, 4, 3, 2, 1], &[1, 2, 3]);
                        u4.init_from_internals_raw_unchecked(k, a1, a2, l1 as u8, l2 as u8);
                        if !(u1.full_eq(&h) && u2.full_eq(&h) && u3.full_eq(&h) && u4.full_eq(&h)) {
                            return "UNCHECKED-DISAGREE".into();
                        }
                    }
                }
                // formatting parameters (width, fill, alignment, precision, flags) do not apply to a hash:
                // every spelling prints the same text in every build
                routes &= format!("{:80}", h) == disp && format!("{:<90}", h) == disp && format!("{:>90}", h) == disp
                    && format!("{:*^100}", h) == disp && format!("{:.5}", h) == disp && format!("{:.0}", h) == disp
                    && format!("{:#}", h) == disp && format!("{:+}", h) == disp && format!("{:0150}", h) == disp
                    && format!("{:w$.p$}", h, w = bl, p = bl / 2) == disp;
                #[cfg(feature = "ff-default")]
                {
                    let ts = h.to_string();
                    let fs: String = String::from(h);
                    routes &= ts == disp && fs == disp;
                }
                let lis = h.len_in_str();
                let mut buf = vec![0xAAu8; bl];
                let (store, clean) = match h.store_into_bytes(&mut buf) {
                    Ok(n) => {
                        routes &= n <= buf.len() && &buf[..n.min(buf.len())] == disp.as_bytes();
                        (format!("OK:{}", n), buf[n.min(buf.len())..].iter().all(|&x| x == 0xAA))
                    }
                    Err(_) => ("ERR".to_string(), buf.iter().all(|&x| x == 0xAA)),
                };
                // exact-size and oversized buffers must give the same bytes too
                let mut big = vec![0x55u8; lis + 8];
                if let Ok(n) = h.store_into_bytes(&mut big) {
                    routes &= &big[..n] == disp.as_bytes() && big[n..].iter().all(|&x| x == 0x55);
                } else {
                    routes = false;
                }
                let mut idx = SENTINEL;
                let rt = match T::from_bytes_with_last_index(disp.as_bytes(), &mut idx) {
                    Ok(h2) => h2 == h && h2.full_eq(&h) && idx == disp.len(),
                    Err(_) => false,
                };
                format!(
                    "text={} lis={} max={} routes={} store={} clean={} rt={}",
                    disp, lis, T::MAX_LEN_IN_STR, b2s(routes), store, b2s(clean), b2s(rt)
                )
            }, { BAD.into() })
        }
        _ => BAD.into(),
    }
}

fn run_fmt2(a: &[&str]) -> String {
    match a {
        [t, h] => {
            let bs = match hexdec(h) { Some(b) => b, None => return BAD.into() };
            plain_dispatch!(*t, T, {
                let via_bytes = match guarded(|| T::from_bytes(&bs)) {
                    None => PANIC.to_string(),
                    Some(Err(_)) => "ERR".to_string(),
                    Some(Ok(f)) => format!("text={}", f),
                };
                // the `str::parse` entry point must agree with the byte entry point on every UTF-8 text
                let via_str = match std::str::from_utf8(&bs) {
                    Err(_) => via_bytes.clone(),
                    Ok(st) => match guarded(|| st.parse::<T>()) {
                        None => PANIC.to_string(),
                        Some(Err(_)) => "ERR".to_string(),
                        Some(Ok(f)) => format!("text={}", f.to_string()),
                    },
                };
                if via_str == via_bytes { via_bytes } else { format!("{} ENTRY-DISAGREE(str::parse:{})", via_bytes, via_str) }
            }, { BAD.into() })
        }
        _ => BAD.into(),
    }
}

// ---------------------------------------------------------------------------------------------
// norm
// ---------------------------------------------------------------------------------------------

macro_rules! norm_impl {
    ($RAW:ident, $NORM:ident, $DUAL:ident, $k:expr, $b1:expr, $b2:expr) => {{
        let raw = match guarded(|| $RAW::new_from_internals_near_raw($k, $b1, $b2)) {
            Some(h) => h,
            None => return PANIC.into(),
        };
        let r1: $NORM = raw.normalize();
        let mut r2: $RAW = raw;
        r2.normalize_in_place();
        let r3: $RAW = raw.clone_normalized();
        let r4: $NORM = $NORM::from(raw);
        let text = format!("{}", raw);
        let r5 = match guarded(|| text.parse::<$NORM>()) {
            Some(Ok(f)) => format!("{}", f),
            Some(Err(_)) => "ERR".to_string(),
            None => PANIC.to_string(),
        };
        let r6 = match guarded(|| format!("{}", $DUAL::from_raw_form(&raw).as_normalized())) {
            Some(s) => s,
            None => PANIC.to_string(),
        };
        // the same route through a dual object that held something else before (long runs in both parts)
        let r6 = match guarded(|| {
            let dirty = $RAW::new_from_internals_near_raw(5, &[1, 1, 1, 1, 1, 2, 2, 2, 2, 2, 2, 2, 2, 2, 3], &[4, 4, 4, 4, 4, 4, 5, 6, 6, 6, 6, 6, 6, 6, 6, 6]);
            let mut d = $DUAL::from_raw_form(&dirty);
            d.init_from_raw_form(&raw);
            format!("{}", d.as_normalized())
        }) {
            Some(s) if s == r6 => r6,
            Some(s) => format!("ROUTES-DISAGREE(fresh-dual:{};reused-dual:{})", r6, s),
            None => PANIC.to_string(),
        };
        let r7: $NORM = $NORM::from_raw_form(&raw);
        let v = r1.is_valid() && r2.is_valid() && r3.is_valid() && r4.is_valid() && r7.is_valid()
            && $NORM::from(r2).is_valid() && $NORM::from(r3).is_valid();
        let mut r2b = r2;
        r2b.normalize_in_place();
        let mut r1b = r1;
        r1b.normalize_in_place();
        let idem = r2b.full_eq(&r2) && r1b.full_eq(&r1) && r1.normalize().full_eq(&r1)
            && r1.clone_normalized().full_eq(&r1);
        format!(
            "in={} r={},{},{},{},{},{},{} out={} idem={} v={}",
            b2s(raw.is_normalized()), r1, r2, r3, r4, r5, r6, r7,
            b2s(r2.is_normalized() && r1.is_normalized()), b2s(idem), b2s(v)
        )
    }};
}

fn run_norm(a: &[&str]) -> String {
    match a {
        [c, k, b1, b2] => {
            let (k, b1, b2) = match (nat(k), hexdec(b1), hexdec(b2)) {
                (Some(k), Some(b1), Some(b2)) if k < 256 => (k as u8, b1, b2),
                _ => return BAD.into(),
            };
            match *c {
                "S" => norm_impl!(R, N, D, k, &b1, &b2),
                "L" => norm_impl!(LR, LN, LD, k, &b1, &b2),
                _ => BAD.into(),
            }
        }
        _ => BAD.into(),
    }
}

fn run_normx(a: &[&str]) -> String {
    match a {
        [k, b1, b2] => {
            let (k, b1, b2) = match (nat(k), hexdec(b1), hexdec(b2)) {
                (Some(k), Some(b1), Some(b2)) if k < 256 => (k as u8, b1, b2),
                _ => return BAD.into(),
            };
            let raw = match guarded(|| LR::new_from_internals_near_raw(k, &b1, &b2)) {
                Some(h) => h,
                None => return PANIC.into(),
            };
            let text = format!("{}", raw);
            let r1 = match N::try_from(raw.normalize()) { Ok(n) => format!("{}", n), Err(_) => "ERR".to_string() };
            let r2 = match guarded(|| text.parse::<N>()) {
                Some(Ok(n)) => format!("{}", n), Some(Err(_)) => "ERR".to_string(), None => PANIC.to_string() };
            let r3 = match guarded(|| text.parse::<LN>()) {
                Some(Ok(n)) => match N::try_from(n) { Ok(n) => format!("{}", n), Err(_) => "ERR".to_string() },
                Some(Err(_)) => "ERR".to_string(),
                None => PANIC.to_string(),
            };
            format!("r={},{},{}", r1, r2, r3)
        }
        _ => BAD.into(),
    }
}

// ---------------------------------------------------------------------------------------------
// dual
// ---------------------------------------------------------------------------------------------

macro_rules! dual_impl {
    ($RAW:ident, $NORM:ident, $DUAL:ident, $k:expr, $b1:expr, $b2:expr) => {{
        let raw = match guarded(|| $RAW::new_from_internals_near_raw($k, $b1, $b2)) {
            Some(h) => h,
            None => return PANIC.into(),
        };
        let text = format!("{}", raw);
        let all = guarded(|| {
            let a = $DUAL::from_raw_form(&raw);
            let b = $DUAL::new_from_internals_near_raw($k, $b1, $b2);
            let c = text.parse::<$DUAL>().ok();
            let d = $DUAL::from(raw);
            let e = $DUAL::new_from_internals(block_size::from_log($k).unwrap(), $b1, $b2);
            // a reused object that still holds a hash whose RLE blocks are completely filled
            let dirty_raw = $RAW::new_from_internals_near_raw(30, &[63u8; 64], &[62u8; $RAW::MAX_BLOCK_HASH_SIZE_2]);
            let mut f = $DUAL::from_raw_form(&dirty_raw);
            f.init_from_raw_form(&raw);
            (a, b, c, d, e, f)
        });
        let (a, b, c, d, e, f) = match all {
            Some((a, b, Some(c), d, e, f)) => (a, b, c, d, e, f),
            _ => return PANIC.into(),
        };
        let others = [b, c, d, e, f];
        let same = others.iter().all(|x| *x == a && x.as_normalized().full_eq(a.as_normalized()));
        let hw = others.iter().all(|x| hash_writes(x) == hash_writes(&a));
        let ce = others.iter().all(|x| a.cmp(x) == Ordering::Equal && a.partial_cmp(x) == Some(Ordering::Equal));
        let raw_back = a.to_raw_form();
        let mut dirty = $RAW::new_from_internals_near_raw(30, &[63u8; 64], &[62u8; 32]);
        a.into_mut_raw_form(&mut dirty);
        let mut rfe = raw_back.full_eq(&raw) && dirty.full_eq(&raw);
        #[cfg(feature = "ff-default")]
        {
            rfe &= a.to_raw_form_string() == text && a.to_normalized_string() == format!("{}", a.as_normalized());
        }
        rfe &= a.to_normalized().full_eq(a.as_normalized());
        rfe &= format!("{:>100.3}", a) == format!("{}", a) && format!("{:<7}", a) == format!("{}", a);
        let mut nip = a;
        nip.normalize_in_place();
        let fnm = $DUAL::from_normalized(a.as_normalized());
        let fr = $DUAL::from_raw_form(&a.as_normalized().to_raw_form());
        let fnm2 = $DUAL::from(*a.as_normalized());
        let nip_ok = nip == fnm && nip == fr && nip == fnm2 && hash_writes(&nip) == hash_writes(&fnm)
            && hash_writes(&nip) == hash_writes(&fr) && nip.is_valid() && nip.is_normalized();
        format!(
            "n={} raw={} rfe={} v={} same={} hw={} ce={} isn={} nip={}",
            a.as_normalized(), raw_back, b2s(rfe), b2s(a.is_valid()), b2s(same), b2s(hw), b2s(ce),
            b2s(a.is_normalized()), b2s(nip_ok)
        )
    }};
}

fn run_dual(a: &[&str]) -> String {
    match a {
        [c, k, b1, b2] => {
            let (k, b1, b2) = match (nat(k), hexdec(b1), hexdec(b2)) {
                (Some(k), Some(b1), Some(b2)) if k < 31 => (k as u8, b1, b2),
                _ => return BAD.into(),
            };
            match *c {
                "S" => dual_impl!(R, N, D, k, &b1, &b2),
                "L" => dual_impl!(LR, LN, LD, k, &b1, &b2),
                _ => BAD.into(),
            }
        }
        _ => BAD.into(),
    }
}

macro_rules! dual2_impl {
    ($DUAL:ident, $k1:expr, $a1:expr, $a2:expr, $k2:expr, $b1:expr, $b2:expr) => {{
        let xy = guarded(|| {
            ($DUAL::new_from_internals_near_raw($k1, $a1, $a2), $DUAL::new_from_internals_near_raw($k2, $b1, $b2))
        });
        let (x, y) = match xy { Some(p) => p, None => return PANIC.into() };
        let c = x.cmp(&y);
        let nc = x.as_normalized().cmp(y.as_normalized());
        // dual hashes sharing a normalized part are ordered deterministically, but which of two raw
        // forms comes first is not specified: only "equal or not" is printed in that case
        let cs = if nc == Ordering::Equal && c != Ordering::Equal { "ne" } else { ord_str(c) };
        format!(
            "eq={} heq={} ceq={} anti={} ncmp={} cmp={}",
            b2s(x == y), b2s(hash_writes(&x) == hash_writes(&y)), b2s(c == Ordering::Equal),
            b2s(c == y.cmp(&x).reverse() && x.partial_cmp(&y) == Some(c)), ord_str(nc), cs
        )
    }};
}

fn run_dual2(a: &[&str]) -> String {
    match a {
        [c, k1, a1, a2, k2, b1, b2] => {
            let p = (nat(k1), hexdec(a1), hexdec(a2), nat(k2), hexdec(b1), hexdec(b2));
            let (k1, a1, a2, k2, b1, b2) = match p {
                (Some(k1), Some(a1), Some(a2), Some(k2), Some(b1), Some(b2)) if k1 < 256 && k2 < 256 =>
                    (k1 as u8, a1, a2, k2 as u8, b1, b2),
                _ => return BAD.into(),
            };
            match *c {
                "S" => dual2_impl!(D, k1, &a1, &a2, k2, &b1, &b2),
                "L" => dual2_impl!(LD, k1, &a1, &a2, k2, &b1, &b2),
                _ => BAD.into(),
            }
        }
        _ => BAD.into(),
    }
}

// ---------------------------------------------------------------------------------------------
// ord
// ---------------------------------------------------------------------------------------------

fn run_ord(a: &[&str]) -> String {
    match a {
        [t, k1, a1, a2, k2, b1, b2] => {
            let p = (nat(k1), hexdec(a1), hexdec(a2), nat(k2), hexdec(b1), hexdec(b2));
            let (k1, a1, a2, k2, b1, b2) = match p {
                (Some(k1), Some(a1), Some(a2), Some(k2), Some(b1), Some(b2)) if k1 < 256 && k2 < 256 =>
                    (k1 as u8, a1, a2, k2 as u8, b1, b2),
                _ => return BAD.into(),
            };
            plain_dispatch!(*t, T, {
                let xy = guarded(|| {
                    (T::new_from_internals_near_raw(k1, &a1, &a2), T::new_from_internals_near_raw(k2, &b1, &b2))
                });
                let (x, y) = match xy { Some(p) => p, None => return PANIC.into() };
                let c = x.cmp(&y);
                // sort() must agree with cmp
                let mut v = vec![y, x];
                v.sort();
                let sorted_ok = v[0].cmp(&v[1]) != Ordering::Greater;
                format!(
                    "eq={} heq={} cmp={} teq={} anti={}",
                    b2s(x == y), b2s(hash_writes(&x) == hash_writes(&y)), ord_str(c),
                    b2s(format!("{}", x) == format!("{}", y)),
                    b2s(y.cmp(&x) == c.reverse() && x.partial_cmp(&y) == Some(c) && sorted_ok)
                )
            }, { BAD.into() })
        }
        _ => BAD.into(),
    }
}

// ---------------------------------------------------------------------------------------------
// position arrays
// ---------------------------------------------------------------------------------------------

fn is_norm_syms(s: &[u8]) -> bool {
    s.windows(4).all(|w| !(w[0] == w[1] && w[1] == w[2] && w[2] == w[3]))
}

fn opt_u32(x: Option<u32>) -> String {
    match x { Some(v) => format!("{}", v), None => PANIC.into() }
}
fn opt_bool(x: Option<bool>) -> String {
    match x { Some(v) => b2s(v).into(), None => PANIC.into() }
}

fn run_pa(a: &[&str]) -> String {
    match a {
        ["hs", x, len] => {
            use ssdeep::internal_comparison::block_hash_position_array_element as el;
            let (x, len) = match (nat(x), nat(len)) { (Some(x), Some(l)) if l <= u32::MAX as u64 => (x, l as u32), _ => return BAD.into() };
            let r = el::has_sequences(x, len);
            macro_rules! c { ($($n:literal),*) => { match len { $($n => Some(el::has_sequences_const::<$n>(x)),)* _ => None } } }
            let rc = c!(0, 1, 2, 3, 4, 5, 6, 7, 8, 9, 15, 16, 17, 31, 32, 33, 62, 63, 64, 65);
            if let Some(rc) = rc { if rc != r { return format!("DISAGREE(const:{},dyn:{})", rc, r); } }
            b2s(r).into()
        }
        [op, x, y] if *op == "ed" || *op == "cs" => {
            let (x, y) = match (hexdec(x), hexdec(y)) { (Some(x), Some(y)) => (x, y), _ => return BAD.into() };
            let mut pa = BlockHashPositionArray::new();
            if guarded(|| pa.init_from(&x)).is_none() {
                return PANIC.into();
            }
            // the same string loaded into a comparison target (only possible when it is a
            // valid normalized block hash): block_hash_1() and block_hash_2() views
            let tgt = if x.len() <= 64 && x.iter().all(|&c| c < 64) && is_norm_syms(&x) {
                guarded(|| {
                    let h = LN::new_from_internals_near_raw(0, &x, &x);
                    FuzzyHashCompareTarget::from(&h)
                })
            } else {
                None
            };
            // unchecked position-array entry points under their contracts (C14)
            #[cfg(feature = "ff-unchecked")]
            #[allow(unsafe_code)]
            {
                use ssdeep::internal_comparison::BlockHashPositionArrayImplUnchecked;
                if pa.is_valid() && y.len() <= 64 && y.iter().all(|&c| c < 64) {
                    let bad = unsafe {
                        pa.edit_distance_unchecked(&y) != pa.edit_distance(&y)
                            || pa.has_common_substring_unchecked(&y) != pa.has_common_substring(&y)
                            || pa.is_equiv_unchecked(&y) != pa.is_equiv(&y)
                            || (pa.is_valid_and_normalized() && is_norm_syms(&y) && (
                                pa.score_strings_raw_unchecked(&y) != pa.score_strings_raw(&y)
                                || (0..=31u8).any(|n| pa.score_strings_unchecked(&y, n) != pa.score_strings(&y, n))))
                    };
                    if bad { return "UNCHECKED-DISAGREE".into(); }
                }
            }
            if *op == "ed" {
                let r = guarded(|| pa.edit_distance(&y));
                if let Some(t) = &tgt {
                    let r1 = guarded(|| t.block_hash_1().edit_distance(&y));
                    let r2 = guarded(|| t.block_hash_2().edit_distance(&y));
                    if r1 != r || r2 != r {
                        return format!("DISAGREE({:?},{:?},{:?})", r, r1, r2);
                    }
                }
                opt_u32(r)
            } else {
                let r = guarded(|| pa.has_common_substring(&y));
                if let Some(t) = &tgt {
                    let r1 = guarded(|| t.block_hash_1().has_common_substring(&y));
                    let r2 = guarded(|| t.block_hash_2().has_common_substring(&y));
                    if r1 != r || r2 != r {
                        return format!("DISAGREE({:?},{:?},{:?})", r, r1, r2);
                    }
                }
                opt_bool(r)
            }
        }
        _ => BAD.into(),
    }
}

fn run_pah(a: &[&str]) -> String {
    match a {
        [seq, probe] => {
            let probe = match hexdec(probe) { Some(p) => p, None => return BAD.into() };
            let mut pa = BlockHashPositionArray::new();
            let mut last: Vec<u8> = vec![];
            for it in seq.split(';') {
                if it == "c" {
                    pa.clear();
                    last = vec![];
                } else {
                    let bs = match hexdec(it) { Some(b) => b, None => return BAD.into() };
                    if guarded(|| pa.init_from(&bs)).is_some() {
                        last = bs;
                    }
                }
            }
            let mut fresh = BlockHashPositionArray::new();
            let _ = guarded(|| fresh.init_from(&last));
            format!(
                "v={} vn={} len={} eqv={} fe={} ed={} cs={}",
                b2s(pa.is_valid()), b2s(pa.is_valid_and_normalized()), pa.len(),
                opt_bool(guarded(|| pa.is_equiv(&last))), b2s(pa == fresh),
                opt_u32(guarded(|| pa.edit_distance(&probe))),
                opt_bool(guarded(|| pa.has_common_substring(&probe)))
            )
        }
        _ => BAD.into(),
    }
}

fn hash_arg(s: &str) -> Option<(u8, Vec<u8>, Vec<u8>)> {
    let p: Vec<&str> = s.split(':').collect();
    if p.len() != 3 { return None; }
    let k = nat(p[0])?;
    if k > 255 { return None; }
    Some((k as u8, hexdec(p[1])?, hexdec(p[2])?))
}

macro_rules! tgt_impl {
    ($NORM:ident, $hs:expr, $probe:expr) => {{
        let hs: &Vec<(u8, Vec<u8>, Vec<u8>)> = $hs;
        let mk = |h: &(u8, Vec<u8>, Vec<u8>)| guarded(|| $NORM::new_from_internals_near_raw(h.0, &h.1, &h.2));
        let pr = match mk($probe) { Some(p) => p, None => return PANIC.into() };
        let f0 = match mk(&hs[0]) { Some(p) => p, None => return PANIC.into() };
        let mut t = FuzzyHashCompareTarget::from(&f0);
        let mut last = f0;
        for h in &hs[1..] {
            let f = match mk(h) { Some(p) => p, None => return PANIC.into() };
            t.init_from(&f);
            last = f;
        }
        let fresh = FuzzyHashCompareTarget::from(last);
        let mut fresh2 = FuzzyHashCompareTarget::new();
        fresh2.init_from(&last);
        let s = t.compare(&pr);
        let s_ok = s == fresh.compare(&pr);
        format!(
            "v={} fe={} eqv={} eqp={} s={} c={} e1={} e2={} h1={} h2={}",
            b2s(t.is_valid()), b2s(t.full_eq(&fresh) && t.full_eq(&fresh2) && s_ok),
            b2s(t.is_equiv(&last)), b2s(t.is_equiv(&f0)), s, b2s(t.is_comparison_candidate(&pr)),
            opt_u32(guarded(|| t.block_hash_1().edit_distance(pr.block_hash_1()))),
            opt_u32(guarded(|| t.block_hash_2().edit_distance(pr.block_hash_2()))),
            opt_bool(guarded(|| t.block_hash_1().has_common_substring(pr.block_hash_1()))),
            opt_bool(guarded(|| t.block_hash_2().has_common_substring(pr.block_hash_2())))
        )
    }};
}

fn run_tgt(a: &[&str]) -> String {
    match a {
        [c, seq, probe] => {
            let probe = match hash_arg(probe) { Some(p) => p, None => return BAD.into() };
            let hs: Vec<_> = seq.split(';').filter_map(hash_arg).collect();
            if hs.is_empty() { return PANIC.into(); }
            match *c {
                "S" => tgt_impl!(N, &hs, &probe),
                "L" => tgt_impl!(LN, &hs, &probe),
                _ => BAD.into(),
            }
        }
        _ => BAD.into(),
    }
}

// ---------------------------------------------------------------------------------------------
// cmp
// ---------------------------------------------------------------------------------------------

fn run_cmp(a: &[&str]) -> String {
    match a {
        [k1, a1, a2, k2, b1, b2] => {
            let p = (nat(k1), hexdec(a1), hexdec(a2), nat(k2), hexdec(b1), hexdec(b2));
            let (k1, a1, a2, k2, b1, b2) = match p {
                (Some(k1), Some(a1), Some(a2), Some(k2), Some(b1), Some(b2)) if k1 < 256 && k2 < 256 =>
                    (k1 as u8, a1, a2, k2 as u8, b1, b2),
                _ => return BAD.into(),
            };
            let xy = guarded(|| {
                (LN::new_from_internals_near_raw(k1, &a1, &a2), LN::new_from_internals_near_raw(k2, &b1, &b2))
            });
            let (x, y) = match xy { Some(p) => p, None => return PANIC.into() };
            let mut scores: Vec<u32> = Vec::new();
            let mut cands: Vec<bool> = Vec::new();
            // long operands
            scores.push(x.compare(&y));
            let tx = FuzzyHashCompareTarget::from(&x);
            scores.push(tx.compare(&y));
            cands.push(tx.is_comparison_candidate(&y));
            // reused target (init_from after unrelated content)
            let mut tr = FuzzyHashCompareTarget::from(&y);
            tr.init_from(&x);
            scores.push(tr.compare(&y));
            cands.push(tr.is_comparison_candidate(&y));
            // dual operand (long)
            let dy = LD::from_normalized(&y);
            scores.push(tx.compare(&dy));
            cands.push(tx.is_comparison_candidate(&dy));
            let tdx = FuzzyHashCompareTarget::from(LD::from_normalized(&x));
            scores.push(tdx.compare(&y));
            // string function
            #[cfg(feature = "ff-default")]
            {
                match ssdeep::compare(&format!("{}", x), &format!("{}", y)) {
                    Ok(s) => scores.push(s),
                    Err(_) => scores.push(u32::MAX),
                }
            }
            // compare_unequal* variants under their preconditions
            if x != y {
                scores.push(x.compare_unequal(&y));
                scores.push(tx.compare_unequal(&y));
                match block_size::compare_sizes(k1, k2) {
                    BlockSizeRelation::NearEq => {
                        scores.push(tx.compare_unequal_near_eq(&y));
                        scores.push(tx.compare_near_eq(&y));
                        cands.push(tx.is_comparison_candidate_near_eq(&y));
                    }
                    BlockSizeRelation::NearLt => {
                        scores.push(tx.compare_unequal_near_lt(&y));
                        cands.push(tx.is_comparison_candidate_near_lt(&y));
                    }
                    BlockSizeRelation::NearGt => {
                        scores.push(tx.compare_unequal_near_gt(&y));
                        cands.push(tx.is_comparison_candidate_near_gt(&y));
                    }
                    BlockSizeRelation::Far => {}
                }
                // the unchecked entry points under their documented contracts (C14)
                #[cfg(feature = "ff-unchecked")]
                #[allow(unsafe_code)]
                unsafe {
                    scores.push(x.compare_unequal_unchecked(&y));
                    scores.push(tx.compare_unequal_unchecked(&y));
                    match block_size::compare_sizes(k1, k2) {
                        BlockSizeRelation::NearEq => {
                            scores.push(tx.compare_unequal_near_eq_unchecked(&y));
                            scores.push(tx.compare_near_eq_unchecked(&y));
                            cands.push(tx.is_comparison_candidate_near_eq_unchecked(&y));
                        }
                        BlockSizeRelation::NearLt => {
                            scores.push(tx.compare_unequal_near_lt_unchecked(&y));
                            cands.push(tx.is_comparison_candidate_near_lt_unchecked(&y));
                        }
                        BlockSizeRelation::NearGt => {
                            scores.push(tx.compare_unequal_near_gt_unchecked(&y));
                            cands.push(tx.is_comparison_candidate_near_gt_unchecked(&y));
                        }
                        BlockSizeRelation::Far => {}
                    }
                }
            } else {
                scores.push(tx.compare_near_eq(&y));
                #[cfg(feature = "ff-unchecked")]
                #[allow(unsafe_code)]
                unsafe { scores.push(tx.compare_near_eq_unchecked(&y)); }
            }
            // short operands when both fit
            if a2.len() <= 32 && b2.len() <= 32 {
                let sx = N::try_from(x).unwrap();
                let sy = N::try_from(y).unwrap();
                scores.push(sx.compare(&sy));
                let tsx = FuzzyHashCompareTarget::from(&sx);
                scores.push(tsx.compare(&sy));
                scores.push(tx.compare(&LN::from(sy)));
                cands.push(tsx.is_comparison_candidate(&sy));
                let dsy = D::from_normalized(&sy);
                scores.push(tsx.compare(&dsy));
                cands.push(tsx.is_comparison_candidate(&dsy));
            }
            let s = if scores.iter().all(|&v| v == scores[0]) { format!("{}", scores[0]) }
                    else { format!("DISAGREE({:?})", scores) };
            let c = if cands.iter().all(|&v| v == cands[0]) { b2s(cands[0]).to_string() }
                    else { format!("DISAGREE({:?})", cands) };
            // window intersection
            let wa: Vec<u64> = x.block_hash_1_index_windows().chain(x.block_hash_2_index_windows()).collect();
            let wb: Vec<u64> = y.block_hash_1_index_windows().chain(y.block_hash_2_index_windows()).collect();
            let w = wa.iter().any(|v| wb.contains(v));
            format!("s={} c={} w={} r={}", s, c, b2s(w), y.compare(&x))
        }
        _ => BAD.into(),
    }
}

#[cfg(feature = "ff-default")]
fn run_cmps(a: &[&str]) -> String {
    match a {
        [x, y] => {
            let (x, y) = match (hexdec(x), hexdec(y)) { (Some(x), Some(y)) => (x, y), _ => return BAD.into() };
            let (sx, sy) = match (std::str::from_utf8(&x), std::str::from_utf8(&y)) {
                (Ok(a), Ok(b)) => (a, b),
                _ => return BAD.into(),
            };
            match guarded(|| ssdeep::compare(sx, sy)) {
                None => PANIC.into(),
                Some(Ok(s)) => format!("OK {}", s),
                Some(Err(e)) => format!("ERR {} {} {}",
                    match e.side() { ssdeep::ParseErrorSide::Left => "Left", ssdeep::ParseErrorSide::Right => "Right" },
                    kind_str(e.kind()), origin_str(e.origin())),
            }
        }
        _ => BAD.into(),
    }
}
#[cfg(not(feature = "ff-default"))]
fn run_cmps(_a: &[&str]) -> String { "SKIP".into() }

fn nats_str(v: &[u64]) -> String {
    if v.is_empty() { "-".into() } else { v.iter().map(|x| x.to_string()).collect::<Vec<_>>().join(",") }
}

macro_rules! win_impl {
    ($NORM:ident, $k:expr, $b1:expr, $b2:expr) => {{
        let h = match guarded(|| $NORM::new_from_internals_near_raw($k, $b1, $b2)) {
            Some(h) => h, None => return PANIC.into(),
        };
        let n1: Vec<u64> = h.block_hash_1_numeric_windows().collect();
        let n2: Vec<u64> = h.block_hash_2_numeric_windows().collect();
        let i1: Vec<u64> = h.block_hash_1_index_windows().collect();
        let i2: Vec<u64> = h.block_hash_2_index_windows().collect();
        let lens_ok = h.block_hash_1_numeric_windows().len() == n1.len()
            && h.block_hash_2_index_windows().len() == i2.len();
        format!(
            "n1={} i1={} n2={} i2={} w1={} w2={}{}",
            nats_str(&n1), nats_str(&i1), nats_str(&n2), nats_str(&i2),
            h.block_hash_1_windows().count(), h.block_hash_2_windows().count(),
            if lens_ok { "" } else { " LEN-MISMATCH" }
        )
    }};
}

fn run_win(a: &[&str]) -> String {
    match a {
        [c, k, b1, b2] => {
            let (k, b1, b2) = match (nat(k), hexdec(b1), hexdec(b2)) {
                (Some(k), Some(b1), Some(b2)) if k < 256 => (k as u8, b1, b2),
                _ => return BAD.into(),
            };
            match *c {
                "S" => win_impl!(N, k, &b1, &b2),
                "L" => win_impl!(LN, k, &b1, &b2),
                _ => BAD.into(),
            }
        }
        _ => BAD.into(),
    }
}

// ---------------------------------------------------------------------------------------------
// gen
// ---------------------------------------------------------------------------------------------

fn dig<T: std::fmt::Display>(r: Result<T, GeneratorError>) -> String {
    match r { Ok(h) => format!("{}", h), Err(e) => gen_err(e) }
}

fn fin_all(g: &Generator) -> String {
    let r = guarded(|| {
        let before = format!("{:?}", g);
        let a = dig(g.finalize());
        let b = dig(g.finalize_without_truncation());
        let c = dig(g.finalize_raw::<false, 64, 32>());
        let d = dig(g.finalize_raw::<true, 64, 64>());
        // finalisation must not disturb the generator (observed through Debug) and a clone
        // finalises identically
        let after = format!("{:?}", g);
        let a2 = dig(g.clone().finalize());
        let undisturbed = before == after && a2 == a;
        (a, b, c, d, undisturbed)
    });
    match r {
        None => "f=PANIC".into(),
        Some((a, b, c, d, undisturbed)) => format!(
            "f={}|{}|{}|{} n={} w={}{}",
            a, b, c, d, g.input_size(), b2s(g.may_warn_about_small_input_size()),
            if undisturbed { "" } else { " DISTURBED" }
        ),
    }
}

fn payload_of(parts: &[&str]) -> Option<Vec<u8>> {
    match parts {
        [_, h] => hexdec(h),
        [_, h, c] => {
            let pat = hexdec(h)?;
            let n = nat(c)? as usize;
            let mut v = Vec::with_capacity(pat.len() * n);
            for _ in 0..n { v.extend_from_slice(&pat); }
            Some(v)
        }
        _ => None,
    }
}

/// byte iterator over a slice announcing only `(0, hi)` as its size hint
struct Hinted<'a> { it: std::slice::Iter<'a, u8>, hi: Option<usize> }
impl<'a> Iterator for Hinted<'a> {
    type Item = u8;
    fn next(&mut self) -> Option<u8> { self.it.next().copied() }
    fn size_hint(&self) -> (usize, Option<usize>) { (0, self.hi) }
}

fn run_gen(toks: &[&str]) -> String {
    let mut g = Generator::new();
    let mut parked = Generator::new();
    let mut out: Vec<String> = Vec::new();
    for tok in toks {
        let parts: Vec<&str> = tok.split(':').collect();
        match parts.as_slice() {
            ["r"] => g.reset(),
            ["c"] => { g = g.clone(); }
            // park a copy (into a used object, via clone_from) / overwrite the used generator with it
            ["p"] => { parked.clone_from(&g); }
            ["q"] => { g.clone_from(&parked); }
            ["f"] => out.push(fin_all(&g)),
            ["z", n] => match nat(n) {
                Some(n) => { g = Generator::verif_with_prefix_zeroes(n); }
                None => out.push(BAD.into()),
            },
            [s, n] if *s == "s" || *s == "S" => match nat(n) {
                Some(n) => {
                    let r = if *s == "s" { g.set_fixed_input_size(n) } else { g.set_fixed_input_size_in_usize(n as usize) };
                    match r { Ok(()) => out.push("s=OK".into()), Err(e) => out.push(format!("s={}", gen_err(e))) }
                }
                None => out.push(BAD.into()),
            },
            _ => {
                let form = if parts.len() == 3 { &parts[0][1.min(parts[0].len())..] } else { parts[0] };
                if !["u", "a", "i", "b", "A", "j", "k", "K", "n"].contains(&form) { out.push(BAD.into()); continue; }
                let bs = match payload_of(&parts) { Some(b) => b, None => { out.push(BAD.into()); continue; } };
                let r = guarded(|| {
                    let mut g2 = g.clone();
                    match form {
                        "u" => { g2.update(&bs); }
                        "a" => { g2 += &bs[..]; }
                        "i" => { g2.update_by_iter(bs.iter().copied()); }
                        "b" => { for &c in &bs { g2.update_by_byte(c); } }
                        "A" => { for &c in &bs { g2 += c; } }
                        // iterators with a loose (but legal) size hint
                        "j" => { g2.update_by_iter(Hinted { it: bs.iter(), hi: None }); }
                        "k" => { g2.update_by_iter(Hinted { it: bs.iter(), hi: Some(bs.len() * 3 + 500) }); }
                        "K" => { g2.update_by_iter(Hinted { it: bs.iter(), hi: Some(usize::MAX) }); }
                        "n" => { match bs.len() {
                            1 => { g2 += <&[u8; 1]>::try_from(&bs[..]).unwrap(); }
                            5 => { g2 += <&[u8; 5]>::try_from(&bs[..]).unwrap(); }
                            7 => { g2 += <&[u8; 7]>::try_from(&bs[..]).unwrap(); }
                            8 => { g2 += <&[u8; 8]>::try_from(&bs[..]).unwrap(); }
                            _ => { g2 += &bs[..]; }
                        } }
                        _ => {}
                    }
                    g2
                });
                match r { Some(g2) => g = g2, None => { out.push("f=PANIC".into()); } }
            }
        }
    }
    out.join(" ")
}

#[cfg(feature = "ff-default")]
fn run_hb(a: &[&str]) -> String {
    match a {
        [h] => {
            let bs = match hexdec(h) { Some(b) => b, None => return BAD.into() };
            match guarded(|| ssdeep::hash_buf(&bs)) { None => PANIC.into(), Some(r) => dig(r) }
        }
        _ => BAD.into(),
    }
}
#[cfg(not(feature = "ff-default"))]
fn run_hb(_a: &[&str]) -> String { "SKIP".into() }

// ---------------------------------------------------------------------------------------------
// stream / file
// ---------------------------------------------------------------------------------------------

#[cfg(feature = "ff-default")]
mod stream {
    use super::*;
    use ssdeep::GeneratorOrIOError;
    use std::io::{self, ErrorKind, Read};

    pub const KINDS: [ErrorKind; 8] = [
        ErrorKind::NotFound, ErrorKind::PermissionDenied, ErrorKind::ConnectionReset,
        ErrorKind::BrokenPipe, ErrorKind::WouldBlock, ErrorKind::Interrupted,
        ErrorKind::UnexpectedEof, ErrorKind::Other,
    ];

    /// A reader whose behaviour does not depend on the size of the caller's buffer (an internal detail
    /// of `hash_stream`): `chunks` are the sizes of the successive pieces it is willing to deliver (a
    /// piece larger than the buffer takes several calls; a 0 makes it report end-of-stream there),
    /// after the list it delivers as much as fits; `fail` = (byte offset, kind): exactly one read error,
    /// raised when that many bytes have been delivered (pieces never straddle the offset).
    struct ScriptReader<'a> {
        data: &'a [u8],
        chunks: Vec<usize>,
        ci: usize,
        rem: usize,
        delivered: usize,
        fail: Option<(usize, usize)>,
        failed: bool,
    }

    impl Read for ScriptReader<'_> {
        fn read(&mut self, buf: &mut [u8]) -> io::Result<usize> {
            if let Some((f, k)) = self.fail {
                if !self.failed && self.delivered == f {
                    self.failed = true;
                    return Err(io::Error::new(KINDS[k % KINDS.len()], "scripted failure"));
                }
            }
            let mut want = usize::MAX;
            if self.ci < self.chunks.len() {
                if self.rem == 0 {
                    self.rem = self.chunks[self.ci];
                    if self.rem == 0 { self.ci += 1; return Ok(0); }
                }
                want = self.rem;
            }
            let mut n = want.min(buf.len()).min(self.data.len());
            if let Some((f, _)) = self.fail {
                if !self.failed && self.delivered < f { n = n.min(f - self.delivered); }
            }
            buf[..n].copy_from_slice(&self.data[..n]);
            self.data = &self.data[n..];
            self.delivered += n;
            if self.ci < self.chunks.len() {
                self.rem -= n;
                if self.rem == 0 { self.ci += 1; }
            }
            Ok(n)
        }
    }

    fn res(r: Option<Result<RawFuzzyHash, GeneratorOrIOError>>, with_kind: bool) -> String {
        match r {
            None => PANIC.into(),
            Some(Ok(h)) => format!("OK {}", h),
            Some(Err(GeneratorOrIOError::GeneratorError(e))) => format!("GENERR {}", gen_err_name(e)),
            Some(Err(GeneratorOrIOError::IOError(e))) => {
                if with_kind {
                    let k = KINDS.iter().position(|k| *k == e.kind()).map(|p| p as i64).unwrap_or(-1);
                    format!("IOERR {}", k)
                } else {
                    "IOERR".into()
                }
            }
        }
    }

    pub fn run_stream(a: &[&str]) -> String {
        match a {
            [d, sz, fl] => {
                let data = match hexdec(d) { Some(b) => b, None => return BAD.into() };
                let sizes: Vec<usize> = if *sz == "-" { vec![] } else {
                    sz.split(',').filter_map(|x| x.parse::<usize>().ok()).collect()
                };
                let fail = if *fl == "-" { None } else {
                    let p: Vec<&str> = fl.split(':').collect();
                    if p.len() != 2 { return BAD.into(); }
                    match (p[0].parse::<usize>(), p[1].parse::<usize>()) {
                        (Ok(i), Ok(k)) => Some((i, k)), _ => return BAD.into(),
                    }
                };
                let mut rd = ScriptReader { data: &data, chunks: sizes, ci: 0, rem: 0, delivered: 0, fail, failed: false };
                res(guarded(|| ssdeep::hash_stream(&mut rd)), true)
            }
            _ => BAD.into(),
        }
    }

    pub fn run_file(a: &[&str]) -> String {
        let dir = std::env::var("VERIF_TMP").unwrap_or_else(|_| "/verif/.cache/tmp".to_string());
        let _ = std::fs::create_dir_all(&dir);
        match a {
            ["missing"] => res(guarded(|| ssdeep::hash_file(format!("{}/does-not-exist-{}", dir, std::process::id()))), false),
            ["dir"] => res(guarded(|| ssdeep::hash_file(&dir)), false),
            [m, d] => {
                // `m` is what the metadata reports, `d` what reading delivers.  Regular files have
                // m == len(d); a mismatch is produced by the harness through procfs (see gen.rs),
                // in which case the op line already carries the observed content.
                let data = match hexdec(d) { Some(b) => b, None => return BAD.into() };
                let m = match nat(m) { Some(m) => m, None => return BAD.into() };
                if m as usize == data.len() {
                    let path = format!("{}/f-{}-{}", dir, std::process::id(), data.len());
                    if std::fs::write(&path, &data).is_err() { return "SKIP".into(); }
                    let r = res(guarded(|| ssdeep::hash_file(&path)), false);
                    let _ = std::fs::remove_file(&path);
                    r
                } else {
                    // find a procfs entry with this (metadata size, content)
                    for p in crate::gen::PROCFS_CANDIDATES {
                        if let (Ok(md), Ok(c)) = (std::fs::metadata(p), std::fs::read(p)) {
                            if md.len() == m && c == data {
                                return res(guarded(|| ssdeep::hash_file(p)), false);
                            }
                        }
                    }
                    "SKIP".into()
                }
            }
            _ => BAD.into(),
        }
    }
}

#[cfg(not(feature = "ff-default"))]
mod stream {
    pub fn run_stream(_a: &[&str]) -> String { "SKIP".into() }
    pub fn run_file(_a: &[&str]) -> String { "SKIP".into() }
}

// ---------------------------------------------------------------------------------------------
// ops: object store interpreter
// ---------------------------------------------------------------------------------------------

struct Store {
    r: R, lr: LR, n: N, ln: LN, d: D, ld: LD,
    t: FuzzyHashCompareTarget,
    p: BlockHashPositionArray,
}

fn dbg_ok<T: std::fmt::Debug>(t: &T) -> bool {
    guarded(|| format!("{:?}", t)).is_some()
}

macro_rules! fh_st {
    ($name:expr, $h:expr) => {{
        let h = &$h;
        let ok = dbg_ok(h) && guarded(|| h.full_eq(h)).unwrap_or(false);
        format!("{}={}|{}{}", $name, h, b2s(h.is_valid()), if ok { "" } else { "|DBGPANIC" })
    }};
}
macro_rules! dh_st {
    ($name:expr, $d:expr) => {{
        let d = &$d;
        let fe = d.fresh_eq_();
        let raw = match guarded(|| format!("{}", d.to_raw_form())) { Some(s) => s, None => PANIC.to_string() };
        format!("{}={}|{}|{}|{}{}", $name, d.as_normalized(), raw, b2s(d.is_valid()), b2s(fe),
            if dbg_ok(d) { "" } else { "|DBGPANIC" })
    }};
}
fn t_st(t: &FuzzyHashCompareTarget) -> String {
    format!("T={}|{}|{}|{}{}", t.log_block_size(), t.block_hash_1().len(), t.block_hash_2().len(), b2s(t.is_valid()),
        if dbg_ok(t) && t.full_eq(t) { "" } else { "|DBGPANIC" })
}
fn p_st(p: &BlockHashPositionArray) -> String {
    format!("P={}|{}|{}", p.len(), b2s(p.is_valid()), b2s(p.is_valid_and_normalized()))
}

fn store_op(st: &mut Store, tok: &str) -> String {
    let parts: Vec<&str> = tok.split(':').collect();
    macro_rules! set_show {
        ($slot:ident, $name:expr, $val:expr) => {{
            match guarded(|| $val) {
                Some(v) => { st.$slot = v; fh_st!($name, st.$slot) }
                None => PANIC.to_string(),
            }
        }};
    }
    macro_rules! set_show_d {
        ($slot:ident, $name:expr, $val:expr) => {{
            match guarded(|| $val) {
                Some(v) => { st.$slot = v; dh_st!($name, st.$slot) }
                None => PANIC.to_string(),
            }
        }};
    }
    match parts.as_slice() {
        ["gen", t, h] => {
            let bs = match hexdec(h) { Some(b) => b, None => return BAD.into() };
            let mut g = Generator::new();
            g.update(&bs);
            if *t == "R" {
                match g.finalize() { Ok(h) => { st.r = h; fh_st!("R", st.r) } Err(_) => "ERR".into() }
            } else {
                match g.finalize_without_truncation() { Ok(h) => { st.lr = h; fh_st!("LR", st.lr) } Err(_) => "ERR".into() }
            }
        }
        ["parse", t, h] => {
            let bs = match hexdec(h) { Some(b) => b, None => return BAD.into() };
            macro_rules! pp { ($slot:ident, $T:ident, $name:expr, $show:ident) => {
                match guarded(|| $T::from_bytes(&bs)) {
                    None => PANIC.to_string(),
                    Some(Err(_)) => "ERR".to_string(),
                    Some(Ok(v)) => { st.$slot = v; $show!($name, st.$slot) }
                }
            }; }
            match *t {
                "R" => pp!(r, R, "R", fh_st), "LR" => pp!(lr, LR, "LR", fh_st),
                "N" => pp!(n, N, "N", fh_st), "LN" => pp!(ln, LN, "LN", fh_st),
                "D" => pp!(d, D, "D", dh_st), "LD" => pp!(ld, LD, "LD", dh_st),
                _ => BAD.into(),
            }
        }
        ["new", t, k, b1, b2] => {
            let (k, b1, b2) = match (nat(k), hexdec(b1), hexdec(b2)) {
                (Some(k), Some(b1), Some(b2)) if k < 256 => (k as u8, b1, b2), _ => return BAD.into() };
            match *t {
                "R" => set_show!(r, "R", R::new_from_internals_near_raw(k, &b1, &b2)),
                "LR" => set_show!(lr, "LR", LR::new_from_internals_near_raw(k, &b1, &b2)),
                "N" => set_show!(n, "N", N::new_from_internals_near_raw(k, &b1, &b2)),
                "LN" => set_show!(ln, "LN", LN::new_from_internals_near_raw(k, &b1, &b2)),
                "D" => set_show_d!(d, "D", D::new_from_internals_near_raw(k, &b1, &b2)),
                "LD" => set_show_d!(ld, "LD", LD::new_from_internals_near_raw(k, &b1, &b2)),
                _ => BAD.into(),
            }
        }
        ["newbs", t, bsz, b1, b2] => {
            let (bsz, b1, b2) = match (nat(bsz), hexdec(b1), hexdec(b2)) {
                (Some(k), Some(b1), Some(b2)) if k <= u32::MAX as u64 => (k as u32, b1, b2), _ => return BAD.into() };
            match *t {
                "R" => set_show!(r, "R", R::new_from_internals(bsz, &b1, &b2)),
                "LR" => set_show!(lr, "LR", LR::new_from_internals(bsz, &b1, &b2)),
                "N" => set_show!(n, "N", N::new_from_internals(bsz, &b1, &b2)),
                "LN" => set_show!(ln, "LN", LN::new_from_internals(bsz, &b1, &b2)),
                "D" => set_show_d!(d, "D", D::new_from_internals(bsz, &b1, &b2)),
                "LD" => set_show_d!(ld, "LD", LD::new_from_internals(bsz, &b1, &b2)),
                _ => BAD.into(),
            }
        }
        ["init", t, k, a1, a2, l1, l2] => {
            let p = (nat(k), hexdec(a1), hexdec(a2), nat(l1), nat(l2));
            let (k, a1, a2, l1, l2) = match p {
                (Some(k), Some(a1), Some(a2), Some(l1), Some(l2)) if k < 256 && l1 < 256 && l2 < 256 =>
                    (k as u8, a1, a2, l1 as u8, l2 as u8),
                _ => return BAD.into(),
            };
            macro_rules! ii { ($slot:ident, $name:expr, $S2:expr, $T:ty) => {{
                if a1.len() != 64 || a2.len() != $S2 { return BAD.into(); }
                let x1: [u8; 64] = a1.clone().try_into().unwrap();
                let x2: [u8; $S2] = a2.clone().try_into().unwrap();
                let mut tmp = st.$slot;
                let r_init = guarded(|| { tmp.init_from_internals_raw(k, &x1, &x2, l1, l2); tmp });
                // the constructor form has the same contract: it panics on exactly the same arguments
                // and otherwise builds the same object
                let r_new = guarded(|| <$T>::new_from_internals_raw(k, &x1, &x2, l1, l2));
                match (&r_init, &r_new) {
                    (Some(a), Some(b)) if a.full_eq(b) => {}
                    (None, None) => {}
                    _ => return format!("DISAGREE(new_from_internals_raw:{},init_from_internals_raw:{})", r_new.is_some(), r_init.is_some()),
                }
                match r_init {
                    Some(v) => { st.$slot = v; fh_st!($name, st.$slot) }
                    None => PANIC.to_string(),
                }
            }}; }
            match *t {
                "R" => ii!(r, "R", 32, R), "LR" => ii!(lr, "LR", 64, LR), "N" => ii!(n, "N", 32, N), "LN" => ii!(ln, "LN", 64, LN),
                _ => BAD.into(),
            }
        }
        ["norm", t] => match *t {
            "R" => { st.r.normalize_in_place(); fh_st!("R", st.r) }
            "LR" => { st.lr.normalize_in_place(); fh_st!("LR", st.lr) }
            "N" => { st.n.normalize_in_place(); fh_st!("N", st.n) }
            "LN" => { st.ln.normalize_in_place(); fh_st!("LN", st.ln) }
            "D" => { st.d.normalize_in_place(); dh_st!("D", st.d) }
            "LD" => { st.ld.normalize_in_place(); dh_st!("LD", st.ld) }
            _ => BAD.into(),
        },
        ["cv", name] => match *name {
            "R>N" => { st.n = st.r.normalize(); fh_st!("N", st.n) }
            "LR>LN" => { st.ln = LN::from(st.lr); fh_st!("LN", st.ln) }
            "N>R" => { st.r = st.n.to_raw_form(); fh_st!("R", st.r) }
            "N>R!" => { st.n.into_mut_raw_form(&mut st.r); fh_st!("R", st.r) }
            "LN>LR" => { st.lr = LR::from(st.ln); fh_st!("LR", st.lr) }
            "LN>LR!" => { st.ln.into_mut_raw_form(&mut st.lr); fh_st!("LR", st.lr) }
            "R>LR" => {
                st.lr = st.r.to_long_form();
                // the named constructor and the trait conversion are the same edge
                if !(LR::from_short_form(&st.r).full_eq(&st.lr) && LR::from(st.r).full_eq(&st.lr)) { return "DISAGREE(from_short_form)".into(); }
                fh_st!("LR", st.lr)
            }
            "R>LR!" => { st.r.into_mut_long_form(&mut st.lr); fh_st!("LR", st.lr) }
            "N>LN" => {
                st.ln = LN::from(st.n);
                if !(LN::from_short_form(&st.n).full_eq(&st.ln) && st.n.to_long_form().full_eq(&st.ln)) { return "DISAGREE(from_short_form)".into(); }
                fh_st!("LN", st.ln)
            }
            "N>LN!" => { st.n.into_mut_long_form(&mut st.ln); fh_st!("LN", st.ln) }
            "N>LR" => { st.lr = LR::from(st.n); fh_st!("LR", st.lr) }
            "LR>R?" => match R::try_from(st.lr) {
                Ok(h) => { st.r = h; fh_st!("R", st.r) } Err(_) => format!("ERR {}", fh_st!("R", st.r)) },
            "LR>R?!" => match st.lr.try_into_mut_short(&mut st.r) {
                Ok(()) => fh_st!("R", st.r), Err(_) => format!("ERR {}", fh_st!("R", st.r)) },
            "LN>N?" => match N::try_from(st.ln) {
                Ok(h) => { st.n = h; fh_st!("N", st.n) } Err(_) => format!("ERR {}", fh_st!("N", st.n)) },
            "LN>N?!" => match st.ln.try_into_mut_short(&mut st.n) {
                Ok(()) => fh_st!("N", st.n), Err(_) => format!("ERR {}", fh_st!("N", st.n)) },
            "R>D" => set_show_d!(d, "D", D::from_raw_form(&st.r)),
            "R>D!" => { let mut tmp = st.d; let r = st.r; set_show_d!(d, "D", { tmp.init_from_raw_form(&r); tmp }) }
            "LR>LD" => set_show_d!(ld, "LD", LD::from(st.lr)),
            "LR>LD!" => { let mut tmp = st.ld; let r = st.lr; set_show_d!(ld, "LD", { tmp.init_from_raw_form(&r); tmp }) }
            "N>D" => { st.d = D::from_normalized(&st.n); dh_st!("D", st.d) }
            "LN>LD" => { st.ld = LD::from(st.ln); dh_st!("LD", st.ld) }
            "D>R" => set_show!(r, "R", st.d.to_raw_form()),
            "D>R!" => { let mut tmp = st.r; let d = st.d; set_show!(r, "R", { d.into_mut_raw_form(&mut tmp); tmp }) }
            "LD>LR" => set_show!(lr, "LR", st.ld.to_raw_form()),
            "LD>LR!" => { let mut tmp = st.lr; let d = st.ld; set_show!(lr, "LR", { d.into_mut_raw_form(&mut tmp); tmp }) }
            "D>N" => { st.n = st.d.to_normalized(); fh_st!("N", st.n) }
            "LD>LN" => { st.ln = *st.ld.as_normalized(); fh_st!("LN", st.ln) }
            _ => BAD.into(),
        },
        ["tgt", t] => {
            match *t {
                "N" => st.t.init_from(&st.n), "LN" => st.t.init_from(&st.ln),
                "D" => st.t.init_from(&st.d), "LD" => st.t.init_from(&st.ld),
                _ => return BAD.into(),
            }
            t_st(&st.t)
        }
        ["tgtnew", t] => {
            st.t = match *t {
                "N" => FuzzyHashCompareTarget::from(&st.n), "LN" => FuzzyHashCompareTarget::from(st.ln),
                "D" => FuzzyHashCompareTarget::from(&st.d), "LD" => FuzzyHashCompareTarget::from(st.ld),
                _ => return BAD.into(),
            };
            t_st(&st.t)
        }
        ["pa", h] => {
            let bs = match hexdec(h) { Some(b) => b, None => return BAD.into() };
            match guarded(|| st.p.init_from(&bs)) { Some(()) => p_st(&st.p), None => PANIC.into() }
        }
        ["pac"] => { st.p.clear(); p_st(&st.p) }
        _ => BAD.into(),
    }
}

fn run_ops(toks: &[&str]) -> String {
    let mut st = Store {
        r: R::new(), lr: LR::new(), n: N::new(), ln: LN::new(), d: D::new(), ld: LD::new(),
        t: FuzzyHashCompareTarget::new(), p: BlockHashPositionArray::new(),
    };
    let out: Vec<String> = toks.iter().map(|t| store_op(&mut st, t)).collect();
    out.join(" ")
}

// ---------------------------------------------------------------------------------------------

pub fn exec_line(line: &str) -> String {
    let toks: Vec<&str> = line.split(' ').filter(|s| !s.is_empty()).collect();
    if toks.is_empty() {
        return BAD.into();
    }
    let r = guarded(|| match toks[0] {
        "cfg" => "cfg-ok".to_string(),
        "prim" => run_prim(&toks[1..]),
        "bs" => run_bs(&toks[1..]),
        "parse" => run_parse(&toks[1..]),
        "fmt" => run_fmt(&toks[1..]),
        "fmt2" => run_fmt2(&toks[1..]),
        "norm" => run_norm(&toks[1..]),
        "normx" => run_normx(&toks[1..]),
        "dual" => run_dual(&toks[1..]),
        "dual2" => run_dual2(&toks[1..]),
        "ord" => run_ord(&toks[1..]),
        "pa" => run_pa(&toks[1..]),
        "pah" => run_pah(&toks[1..]),
        "tgt" => run_tgt(&toks[1..]),
        "cmp" => run_cmp(&toks[1..]),
        "cmps" => run_cmps(&toks[1..]),
        "win" => run_win(&toks[1..]),
        "gen" => run_gen(&toks[1..]),
        "hb" => run_hb(&toks[1..]),
        "stream" => stream::run_stream(&toks[1..]),
        "file" => stream::run_file(&toks[1..]),
        "ops" => run_ops(&toks[1..]),
        _ => BAD.to_string(),
    });
    r.unwrap_or_else(|| "PANIC-UNCAUGHT".to_string())
}
