//! Operation generators, one per correspondence family.  Every random choice derives from `Rng`.
#![allow(deprecated)]

use crate::util::*;
use crate::words::{EDGEWORDS, MAXWORDS, WORDS};
use ssdeep::internal_hashes::{PartialFNVHash, RollingHash};

/// pseudo files whose metadata size disagrees with what reading delivers: procfs reports 0 and
/// delivers content; sysfs attributes report a page (4096) and deliver a few bytes or nothing
pub const PROCFS_CANDIDATES: &[&str] = &[
    "/proc/version", "/proc/filesystems", "/proc/cpuinfo",
    "/sys/kernel/address_bits", "/sys/devices/system/cpu/possible", "/sys/kernel/fscaps",
    "/sys/kernel/profiling", "/sys/module/kernel/parameters/panic", "/sys/class/net/lo/mtu", "/sys/power/state",
];

type Emit<'a> = &'a mut dyn FnMut(&str);

// ---------------------------------------------------------------------------------------------
// block-hash building blocks
// ---------------------------------------------------------------------------------------------

/// collapse runs longer than three (the harness' own, independent, normalisation)
pub fn collapse(s: &[u8]) -> Vec<u8> {
    let mut out: Vec<u8> = Vec::new();
    for &c in s {
        let n = out.len();
        if n >= 3 && out[n - 1] == c && out[n - 2] == c && out[n - 3] == c {
            continue;
        }
        out.push(c);
    }
    out
}

/// a block hash (symbols < 64) in one of several styles; may contain long runs
fn rand_bh(r: &mut Rng, maxlen: usize) -> Vec<u8> {
    let len = match r.below(10) {
        0 => 0,
        1 => maxlen,
        2 => maxlen.saturating_sub(1),
        3 => r.range(0, 8) as usize,
        _ => r.range(0, maxlen as u64) as usize,
    };
    let style = r.below(6);
    let mut v = Vec::with_capacity(len);
    match style {
        0 => {
            for _ in 0..len { v.push(r.below(64) as u8); }
        }
        1 => {
            let alpha = r.range(1, 3);
            for _ in 0..len { v.push(r.below(alpha) as u8); }
        }
        2 | 3 => {
            // run layout
            while v.len() < len {
                let c = r.below(64) as u8;
                let run = match r.below(6) { 0 => 1, 1 => 2, 2 => 3, 3 => 4, 4 => r.range(4, 9), _ => r.range(1, 64) } as usize;
                for _ in 0..run.min(len - v.len()) { v.push(c); }
            }
        }
        4 => {
            // ascending with trailing symbol 0 ("A") corner
            for i in 0..len { v.push((i % 64) as u8); }
            if len > 0 && r.chance(1, 2) { let l = v.len(); v[l - 1] = 0; }
        }
        _ => {
            // periodic
            let p = r.range(1, 9) as usize;
            let base: Vec<u8> = (0..p).map(|_| r.below(64) as u8).collect();
            for i in 0..len { v.push(base[i % p]); }
        }
    }
    v
}

fn rand_norm_bh(r: &mut Rng, maxlen: usize) -> Vec<u8> {
    let mut v = collapse(&rand_bh(r, maxlen));
    v.truncate(maxlen);
    v
}

/// derive a related block hash: edits, rotation, run insertion, truncation
fn mutate_bh(r: &mut Rng, s: &[u8], maxlen: usize) -> Vec<u8> {
    let mut v = s.to_vec();
    let n = r.range(1, 4);
    for _ in 0..n {
        match r.below(6) {
            0 if !v.is_empty() => { let i = r.below(v.len() as u64) as usize; v.remove(i); }
            1 => { let i = r.range(0, v.len() as u64) as usize; v.insert(i, r.below(64) as u8); }
            2 if !v.is_empty() => { let i = r.below(v.len() as u64) as usize; v[i] = r.below(64) as u8; }
            3 if !v.is_empty() => { let k = r.below(v.len() as u64) as usize; v.rotate_left(k); }
            4 if !v.is_empty() => {
                let i = r.below(v.len() as u64) as usize;
                let c = v[i];
                for _ in 0..r.range(1, 5) { v.insert(i, c); }
            }
            _ => { let k = r.range(0, v.len() as u64) as usize; v.truncate(k); }
        }
    }
    v.truncate(maxlen);
    v
}

fn b64(s: &[u8]) -> Vec<u8> {
    const T: &[u8; 64] = b"ABCDEFGHIJKLMNOPQRSTUVWXYZabcdefghijklmnopqrstuvwxyz0123456789+/";
    s.iter().map(|&c| T[(c & 63) as usize]).collect()
}

fn text_of(k: u8, b1: &[u8], b2: &[u8]) -> Vec<u8> {
    let mut t = format!("{}", 3u64 << k).into_bytes();
    t.push(b':');
    t.extend(b64(b1));
    t.push(b':');
    t.extend(b64(b2));
    t
}

// ---------------------------------------------------------------------------------------------
// prim (C19)
// ---------------------------------------------------------------------------------------------

fn gen_prim(thorough: bool, r: &mut Rng, emit: Emit) {
    // rolling hash: all prefixes of random / structured strings
    let nstr = if thorough { 400 } else { 60 };
    for i in 0..nstr {
        let len = r.range(0, 40) as usize;
        let s: Vec<u8> = match i % 5 {
            0 => r.bytes(len),
            1 => vec![0u8; len],
            2 => vec![0xffu8; len],
            3 => (0..len).map(|j| (j * 37) as u8).collect(),
            _ => (0..len).map(|_| *r.pick(&[0u8, 1, 0x80, 0xff])).collect(),
        };
        for p in 0..=s.len() {
            emit(&format!("prim roll {}", hexenc(&s[..p])));
        }
    }
    for _ in 0..(if thorough { 200 } else { 30 }) {
        let len = r.range(100, 5000) as usize;
        emit(&format!("prim roll {}", hexenc(&r.bytes(len))));
    }
    // one hasher fed a history of chunks through mixed update forms (chunk lengths around the window
    // size, so that every ring-buffer phase meets every form); value checked after each chunk
    const FORMS: [&str; 6] = ["u", "i", "b", "a", "A", "n"];
    for which in ["rollh", "fnvh"] {
        for i in 0..(if thorough { 3000 } else { 400 }) {
            let n = r.range(1, 9) as usize;
            let mut line = format!("prim {}", which);
            for _ in 0..n {
                let len = match r.below(8) { 0 => 0, 1 => r.range(1, 6), 2 => 7, 3 => 8, 4 => 13, 5 => r.range(6, 16), 6 => r.range(14, 40), _ => r.range(1, 3) } as usize;
                let bs = if i % 7 == 0 { vec![*r.pick(&[0u8, 0xff, 0x41]); len] } else { r.bytes(len) };
                line.push_str(&format!(" {}:{}", r.pick(&FORMS), hexenc(&bs)));
            }
            emit(&line);
        }
    }
    // bytes that are neutral for part of the state (low six bits zero: the 6-bit FNV state only sees
    // `ch & 63`; zero bytes: the rolling sums), arranged in aligned 8- and 16-byte segments mixed with
    // arbitrary ones, so that any block-wise shortcut over "neutral" data meets a half-neutral block
    // (round-5 seeded change C19: a 16-byte skip testing only the first 8 bytes)
    for i in 0..(if thorough { 3000 } else { 500 }) {
        let nseg = r.range(1, 8) as usize;
        let mut bs: Vec<u8> = Vec::new();
        if i % 3 == 0 { let l = r.below(16) as usize; bs.extend(r.bytes(l)); }    // misalign
        for _ in 0..nseg {
            let seglen = *r.pick(&[4usize, 8, 8, 8, 16]);
            match r.below(4) {
                0 => for _ in 0..seglen { bs.push(*r.pick(&[0u8, 0x40, 0x80, 0xc0])); },
                1 => for _ in 0..seglen { bs.push(0); },
                2 => for _ in 0..seglen { bs.push(*r.pick(&[0u8, 0x40, 0x80, 0xc0, 0x01, 0x3f, 0x7f])); },
                _ => bs.extend(r.bytes(seglen)),
            }
        }
        match i % 4 {
            0 => emit(&format!("prim fnv {}", hexenc(&bs))),
            1 => emit(&format!("prim roll {}", hexenc(&bs))),
            _ => {
                // the same bytes as a chunk history, cut at segment-ish places
                let which = if i % 4 == 2 { "fnvh" } else { "rollh" };
                let mut line = format!("prim {}", which);
                let mut pos = 0usize;
                while pos < bs.len() {
                    let n = (*r.pick(&[1usize, 7, 8, 16, 16, 24, 32, 33])).min(bs.len() - pos);
                    line.push_str(&format!(" {}:{}", r.pick(&FORMS), hexenc(&bs[pos..pos + n])));
                    pos += n;
                }
                emit(&line);
            }
        }
    }
    for w in WORDS.iter() {
        emit(&format!("prim roll {}", hexenc(&w.1)));
    }
    for w in MAXWORDS.iter() {
        emit(&format!("prim roll {}", hexenc(w)));
    }
    // FNV: exhaustively all 64 states x 256 bytes, states reached by a shortest byte prefix
    let mut prefix: Vec<Option<Vec<u8>>> = vec![None; 64];
    let mut queue: Vec<Vec<u8>> = vec![vec![]];
    prefix[PartialFNVHash::new().value() as usize] = Some(vec![]);
    while let Some(p) = queue.pop() {
        for c in 0..=255u8 {
            let mut h = PartialFNVHash::new();
            h.update(&p);
            h.update_by_byte(c);
            let v = h.value() as usize;
            if v < 64 && prefix[v].is_none() {
                let mut q = p.clone();
                q.push(c);
                prefix[v] = Some(q.clone());
                queue.insert(0, q);
            }
        }
    }
    for s in 0..64 {
        if let Some(p) = &prefix[s] {
            for c in 0..=255u8 {
                let mut q = p.clone();
                q.push(c);
                emit(&format!("prim fnv {}", hexenc(&q)));
            }
        }
    }
    for _ in 0..(if thorough { 3000 } else { 400 }) {
        let len = r.range(0, 300) as usize;
        let s = if r.chance(1, 4) { vec![0u8; len] } else { r.bytes(len) };
        emit(&format!("prim fnv {}", hexenc(&s)));
    }
}

// ---------------------------------------------------------------------------------------------
// bs (C20)
// ---------------------------------------------------------------------------------------------

fn gen_bs(thorough: bool, r: &mut Rng, emit: Emit) {
    emit("bs const");
    for n in 0..34u64 {
        let base = 3u64 << n;
        for d in [-3i64, -2, -1, 0, 1, 2, 3] {
            let v = base as i64 + d;
            if v >= 0 && v <= u32::MAX as i64 { emit(&format!("bs valid {}", v)); emit(&format!("bs logvalid {}", v)); }
        }
        let p = 1u64 << n;
        if p <= u32::MAX as u64 { emit(&format!("bs valid {}", p)); emit(&format!("bs valid {}", p * 3 % (1 << 32))); }
    }
    for v in [0u64, 1, 2, 9, 15, 18, 4294967295, 4294967293, 3221225472, 2147483648, 1073741824, 1610612736] {
        emit(&format!("bs valid {}", v));
        emit(&format!("bs logvalid {}", v));
    }
    // neighbours of valid sizes at every bit distance, sums of two powers, and the multiples of the
    // inverse of 3 modulo 2^32 (a wrapping "exact division" would accept 2^31 = 3 * 2^31 mod 2^32;
    // round-3 seeded change C20)
    for k in 0..32u64 {
        for j in 0..32u64 {
            for v in [(3u64 << k).wrapping_add(1 << j), (3u64 << k).wrapping_sub(1 << j), (1u64 << k) + (1u64 << j), (0xaaaa_aaabu64 << k).wrapping_mul(1 << j) ] {
                emit(&format!("bs valid {}", v & 0xffff_ffff));
            }
        }
        emit(&format!("bs logvalid {}", (3u64 << k) & 0xffff_ffff));
        emit(&format!("bs logvalid {}", (1u64 << k) & 0xffff_ffff));
        emit(&format!("bs logvalid {}", (0xaaaa_aaabu64 << k) & 0xffff_ffff));
    }
    for _ in 0..(if thorough { 200000 } else { 3000 }) {
        let v = match r.below(3) { 0 => r.next() as u32 as u64, 1 => (3u64 << r.below(31)) ^ (1u64 << r.below(32)), _ => (r.next() as u32 as u64) / 3 * 3 };
        emit(&format!("bs valid {}", v & 0xffff_ffff));
    }
    // multiply-shift (de Bruijn) lookup on every valid size is covered above; invalid sizes panic
    for n in 0..=255u64 { emit(&format!("bs fromlog {}", n)); }
    for n in 0..31u64 { emit(&format!("bs str {}", n)); }
    for a in 0..31u64 { for b in 0..31u64 { emit(&format!("bs rel {} {}", a, b)); } }
    // raw score: the whole domain in the thorough tier, a sample plus every border otherwise
    for l1 in 7..=64u64 {
        for l2 in 7..=64u64 {
            let dmax = l1 + l2 - 14;
            if thorough {
                for d in 0..=dmax { emit(&format!("bs raw {} {} {}", l1, l2, d)); }
            } else {
                for d in [0, 1, dmax / 2, dmax.saturating_sub(1), dmax] { emit(&format!("bs raw {} {} {}", l1, l2, d)); }
                emit(&format!("bs raw {} {} {}", l1, l2, r.range(0, dmax)));
            }
            emit(&format!("bs raw {} {} {}", l1, l2, dmax + 1));
        }
    }
    for (l1, l2, d) in [(6u64, 7u64, 0u64), (7, 6, 0), (65, 7, 0), (7, 65, 0), (0, 0, 0), (255, 255, 0), (64, 64, 115), (64, 64, 4000000000)] {
        emit(&format!("bs raw {} {} {}", l1, l2, d));
    }
    for n in 0..=31u64 {
        for l1 in 0..=64u64 {
            if thorough {
                for l2 in 0..=64u64 { emit(&format!("bs cap {} {} {}", n, l1, l2)); }
            } else {
                for l2 in [0u64, 1, 7, l1, 32, 63, 64] { emit(&format!("bs cap {} {} {}", n, l1, l2)); }
                emit(&format!("bs cap {} {} {}", n, l1, r.range(0, 64)));
            }
        }
    }
    if thorough { emit("bs validall"); }
}

// ---------------------------------------------------------------------------------------------
// parse (C04) / fmt2
// ---------------------------------------------------------------------------------------------

const TYPES: [&str; 6] = ["R", "LR", "N", "LN", "D", "LD"];
const PLAIN: [&str; 4] = ["R", "LR", "N", "LN"];

fn rand_block_size_field(r: &mut Rng) -> Vec<u8> {
    match r.below(20) {
        0 => b"".to_vec(),
        1 => b"0".to_vec(),
        2 => format!("0{}", 3u64 << r.below(31)).into_bytes(),
        3 => format!("{}", r.below(5000)).into_bytes(),
        4 => format!("{}", 3u64 << r.range(31, 40)).into_bytes(),
        // values a wrapping / modular validity test could confuse with a valid size
        10 => format!("{}", 1u64 << r.below(33)).into_bytes(),
        // a valid size plus a multiple of 2^32 / 2^64 (wrapping accumulators of either width)
        13 => format!("{}", (3u128 << r.below(31)) + ((r.range(1, 5) as u128) << 32)).into_bytes(),
        14 => format!("{}", (3u128 << r.below(31)) + ((r.range(1, 5) as u128) << 64)).into_bytes(),
        15 => format!("{}", *r.pick(&[7516192768u128, 5905580032, 5100273664, 11811160064, 18446744073709551619, 18446744073709551615, 18446744073709551616,
                                       36893488147419103238, 340282366920938463463374607431768211455])).into_bytes(),
        11 => format!("{}", *r.pick(&[2147483648u64, 2147483649, 2147483647, 4294967295, 4294967294, 4294967293, 1431655765, 2863311531, 1431655766, 715827883])).into_bytes(),
        12 => format!("{}", ((3u64 << r.below(31)) as i64 + *r.pick(&[-1i64, 1, -3, 3]) * (1i64 << r.below(31))).rem_euclid(1 << 32)).into_bytes(),
        5 => b"4294967296".to_vec(),
        6 => b"99999999999999999999".to_vec(),
        7 => format!("{}", (3u64 << r.below(31)) + 1).into_bytes(),
        8 => { let mut v = format!("{}", 3u64 << r.below(31)).into_bytes(); v.insert(0, b'+'); v }
        9 => { let mut v = format!("{}", 3u64 << r.below(31)).into_bytes(); v.push(b' '); v }
        _ => format!("{}", 3u64 << r.below(31)).into_bytes(),
    }
}

/// block hash text of length 0..~200, including runs that overflow raw but fit after collapsing
fn rand_bh_text(r: &mut Rng, cap: usize) -> Vec<u8> {
    let syms: Vec<u8> = match r.below(8) {
        0 => {
            // raw-overflowing, fits normalised: `cap`-ish distinct symbols with long runs inside
            let mut v: Vec<u8> = Vec::new();
            let target = r.range(cap.saturating_sub(6) as u64, cap as u64 + 3) as usize;
            let mut distinct = 0usize;
            while distinct < target {
                let c = r.below(64) as u8;
                let run = if r.chance(1, 5) { r.range(4, 40) as usize } else { r.range(1, 3) as usize };
                for _ in 0..run { v.push(c); }
                distinct += run.min(3);
            }
            v
        }
        1 => { let n = r.range(cap as u64 - 2, cap as u64 + 4) as usize; (0..n).map(|i| (i % 64) as u8).collect() }
        2 => { let n = r.range(60, 200) as usize; vec![r.below(64) as u8; n] }
        3 => { let n = r.range(0, 200) as usize; rand_bh(r, n.max(1)) }
        _ => rand_bh(r, cap),
    };
    b64(&syms)
}

fn rand_hash_text(r: &mut Rng) -> Vec<u8> {
    let mut t = rand_block_size_field(r);
    let sep1: &[u8] = match r.below(30) { 0 => b"", 1 => b",", 2 => b";", _ => b":" };
    t.extend_from_slice(sep1);
    t.extend(rand_bh_text(r, 64));
    let sep2: &[u8] = match r.below(30) { 0 => b"", 1 => b",", 2 => b"=", _ => b":" };
    t.extend_from_slice(sep2);
    let cap2 = if r.chance(1, 2) { 32 } else { 64 };
    t.extend(rand_bh_text(r, cap2));
    match r.below(12) {
        0 => t.extend_from_slice(b",\"file name.txt\""),
        1 => t.extend_from_slice(b":"),
        2 => t.extend_from_slice(b","),
        3 => t.push(r.byte()),
        4 => t.extend_from_slice(b" "),
        5 => { t.push(b','); t.extend(r.bytes(5)); }
        _ => {}
    }
    // byte-level mutation
    if r.chance(1, 5) && !t.is_empty() {
        let i = r.below(t.len() as u64) as usize;
        match r.below(4) {
            0 => { t.remove(i); }
            1 => { t.insert(i, *r.pick(&[b':', b',', b'!', 0x80, 0xff, b'A', b'/', b'=', 0])); }
            2 => { t[i] = *r.pick(&[b':', b',', b'-', 0xc3, b'z', b'+']); }
            _ => { t.truncate(i); }
        }
    }
    t
}

fn gen_parse(thorough: bool, r: &mut Rng, emit: Emit) {
    // fixed corner cases first
    let fixed: Vec<Vec<u8>> = vec![
        b"".to_vec(), b":".to_vec(), b"3".to_vec(), b"3:".to_vec(), b"3::".to_vec(), b"3::,".to_vec(),
        b"3:a:b".to_vec(), b"3:a:b,c".to_vec(), b"3:a:b:c".to_vec(), b"3:a,b".to_vec(), b"03::".to_vec(),
        b"4::".to_vec(), b"3221225472::".to_vec(), b"6442450944::".to_vec(), b"4294967296::".to_vec(),
        b"2147483648::".to_vec(), b"2147483648:ABC:DEF".to_vec(), b"1073741824:ABC:DEF".to_vec(), b"4294967295::".to_vec(),
        b"1431655765::".to_vec(), b"2863311531::".to_vec(), b"1::".to_vec(), b"2::".to_vec(), b"0::".to_vec(),
        b"3:@:".to_vec(), b"3::@".to_vec(), b"x".to_vec(), b"3:\xff:".to_vec(),
    ];
    for t in &fixed { for ty in TYPES { emit(&format!("parse {} {}", ty, hexenc(t))); } }
    // every byte value as a character of block hash 1, of block hash 2 and of the block size field (the
    // neighbours of the Base64 ranges — '@' '[' '`' '{' '.' '=' '-' '_' — are where an arithmetic
    // decoder slips: round-12 seeded change), for every type
    for b in 0..=255u8 {
        for (i, ty) in TYPES.iter().enumerate() {
            if !thorough && (b as usize + i) % 2 == 1 && !(b'+'..=b'{').contains(&b) { continue; }
            emit(&format!("parse {} {}", ty, hexenc(&[b"3:A", &[b][..], b"B:C"].concat())));
            emit(&format!("parse {} {}", ty, hexenc(&[b"3:A:B", &[b][..], b"C"].concat())));
            if i < 2 { emit(&format!("parse {} {}", ty, hexenc(&[b"1", &[b][..], b"2:A:B"].concat()))); }
        }
    }
    // very long runs of one symbol (counters narrower than usize: 255 / 256 / 257, 65535 / 65536 / 65537),
    // alone, after a prefix, in either block hash
    for l in [250usize, 254, 255, 256, 257, 258, 259, 260, 300, 511, 512, 513, 1000, 65535, 65536, 65537, 65540] {
        if l > 2000 && !thorough && l != 65537 { continue; }
        for (pre, field) in [(0usize, 1u8), (5, 1), (0, 2), (29, 2), (61, 1)] {
            let mut t = b"6:".to_vec();
            let prefix: Vec<u8> = b64(&(0..pre).map(|i| ((i * 3 + 1) % 64) as u8).collect::<Vec<u8>>());
            if field == 1 { t.extend(&prefix); t.extend(vec![b'/'; l]); t.extend_from_slice(b":xyz"); }
            else { t.extend_from_slice(b"abc:"); t.extend(&prefix); t.extend(vec![b'/'; l]); }
            for ty in TYPES { emit(&format!("parse {} {}", ty, hexenc(&t))); }
        }
    }
    // run of one symbol of every length around both capacities, each position of the field
    let lens: Vec<usize> = if thorough { (0..=140).collect() } else { vec![0, 1, 3, 4, 31, 32, 33, 34, 35, 36, 63, 64, 65, 66, 67, 68, 69, 100, 130] };
    for &l in &lens {
        for (f1, f2) in [(l, 0usize), (0usize, l), (l, l)] {
            let mut t = b"3:".to_vec();
            t.extend(vec![b'A'; f1]);
            t.push(b':');
            t.extend(vec![b'B'; f2]);
            for ty in TYPES { emit(&format!("parse {} {}", ty, hexenc(&t))); }
        }
        // prefix of distinct symbols followed by a run: the run decides raw vs normalised overflow
        for pre in [28usize, 29, 30, 60, 61, 62] {
            let mut t = b"6:".to_vec();
            t.extend(b64(&(0..pre).map(|i| (i % 63 + 1) as u8).collect::<Vec<_>>()));
            t.extend(vec![b'A'; l]);
            t.push(b':');
            t.extend(b64(&(0..pre.min(31)).map(|i| (i % 63 + 1) as u8).collect::<Vec<_>>()));
            t.extend(vec![b'A'; l]);
            for ty in TYPES { emit(&format!("parse {} {}", ty, hexenc(&t))); }
        }
    }
    let n = if thorough { 40000 } else { 2500 };
    for _ in 0..n {
        let t = rand_hash_text(r);
        if r.chance(1, 3) {
            for ty in TYPES { emit(&format!("parse {} {}", ty, hexenc(&t))); }
        } else {
            emit(&format!("parse {} {}", r.pick(&TYPES), hexenc(&t)));
        }
    }
}

// ---------------------------------------------------------------------------------------------
// fmt (C05)
// ---------------------------------------------------------------------------------------------

fn cap2_of(ty: &str) -> usize { if ty.starts_with('L') { 64 } else { 32 } }
fn is_norm_ty(ty: &str) -> bool { ty.ends_with('N') }

fn rand_obj(r: &mut Rng, ty: &str) -> (u8, Vec<u8>, Vec<u8>) {
    let k = r.below(31) as u8;
    let (b1, b2) = if is_norm_ty(ty) && !r.chance(1, 30) {
        (rand_norm_bh(r, 64), rand_norm_bh(r, cap2_of(ty)))
    } else {
        (rand_bh(r, 64), rand_bh(r, cap2_of(ty)))
    };
    (k, b1, b2)
}

fn gen_fmt(thorough: bool, r: &mut Rng, emit: Emit) {
    // every block size with full-length block hashes: the maximum length is attained
    for k in 0..31u8 {
        for ty in PLAIN {
            let b1: Vec<u8> = (0..64).map(|i| (i % 64) as u8).collect();
            let b2: Vec<u8> = (0..cap2_of(ty)).map(|i| ((i * 7) % 64) as u8).collect();
            let max = 10 + 64 + cap2_of(ty) + 2;
            for bl in [0usize, max - 1, max, max + 8] {
                emit(&format!("fmt {} {} {} {} {}", ty, k, hexenc(&b1), hexenc(&b2), bl));
            }
        }
    }
    // buffers of every length 0..max+8 for a few objects
    for ty in PLAIN {
        for _ in 0..(if thorough { 6 } else { 1 }) {
            let (k, b1, b2) = rand_obj(r, ty);
            let max = 10 + 64 + cap2_of(ty) + 2;
            for bl in 0..=(max + 8) {
                emit(&format!("fmt {} {} {} {} {}", ty, k, hexenc(&b1), hexenc(&b2), bl));
            }
        }
    }
    let n = if thorough { 20000 } else { 1500 };
    for _ in 0..n {
        let ty = *r.pick(&PLAIN);
        let (k, b1, b2) = rand_obj(r, ty);
        let lis = format!("{}", 3u64 << k).len() + b1.len() + b2.len() + 2;
        let bl = match r.below(5) { 0 => lis, 1 => lis.saturating_sub(1), 2 => lis + 1, 3 => r.range(0, 150) as usize, _ => 148 };
        emit(&format!("fmt {} {} {} {} {}", ty, k, hexenc(&b1), hexenc(&b2), bl));
    }
    // out-of-contract constructor arguments (must panic, never yield an object)
    for ty in PLAIN {
        emit(&format!("fmt {} 31 - - 10", ty));
        emit(&format!("fmt {} 3 40 - 10", ty));
        emit(&format!("fmt {} 3 - ff 10", ty));
        emit(&format!("fmt {} 3 {} - 200", ty, hexenc(&vec![1u8; 65])));
        emit(&format!("fmt {} 3 - {} 200", ty, hexenc(&(0..cap2_of(ty) + 1).map(|i| (i % 64) as u8).collect::<Vec<_>>())));
    }
    // text -> object -> text on accepted (and rejected) texts
    for _ in 0..n {
        let t = if r.chance(4, 5) {
            let ty = *r.pick(&PLAIN);
            let (k, b1, b2) = rand_obj(r, ty);
            let mut t = text_of(k, &b1, &b2);
            match r.below(10) {
                0 | 1 => t.extend_from_slice(b",name"),
                2 => t.push(b','),
                // bytes after block hash 2 that are not a comma: an accepted text would not print back
                3 => t.extend_from_slice(*r.pick(&[&b" "[..], b"\n", b"\r\n", b"\t", b"\xc2\xa0", b"\0", b"\0,x", b" ,x", b"\n,x", b":", b"="])),
                4 => { t.push(b','); t.extend_from_slice(*r.pick(&[&b" "[..], b"\n", b"\0", b"\xff", b"\"a b\"\n"])); }
                _ => {}
            }
            t
        } else { rand_hash_text(r) };
        emit(&format!("fmt2 {} {}", r.pick(&PLAIN), hexenc(&t)));
    }
}

// ---------------------------------------------------------------------------------------------
// norm (C06) and dual (C07)
// ---------------------------------------------------------------------------------------------

/// one run of `run` copies of symbol 0 at position `pos` inside distinct filler symbols
fn run_layout(pos: usize, run: usize, total: usize) -> Vec<u8> {
    let mut v: Vec<u8> = Vec::new();
    for i in 0..pos.min(total) { v.push((i % 62 + 1) as u8); }
    for _ in 0..run { if v.len() < total { v.push(if pos > 0 && (pos - 1) % 62 + 1 == 63 { 0 } else { 63 }); } }
    let mut i = 0;
    while v.len() < total { v.push(((pos + i) % 61 + 1) as u8); i += 1; }
    v
}

fn gen_runs(thorough: bool, r: &mut Rng, fam: &str, emit: Emit) {
    // every short string over a 2- and a 3-symbol alphabet: all head / tail / interleaving shapes of
    // runs (x y y y y, x y x x x, ...), as block hash 1, as block hash 2, and as a prefix / suffix of a
    // longer random block hash (rounds 3 and 5: shortcuts that mis-seed the run state from the first
    // few characters)
    {
        let mut small = all_strings(2, if thorough { 10 } else { 8 });
        small.extend(all_strings(3, if thorough { 7 } else { 5 }).into_iter().filter(|s| s.contains(&2)));
        for (i, s0) in small.iter().enumerate() {
            let s: Vec<u8> = s0.iter().map(|&c| [17u8, 0, 63][c as usize]).collect();
            let (c, cap2) = if i % 2 == 0 { ("S", 32usize) } else { ("L", 64usize) };
            let k = (i % 31) as u8;
            match i % 4 {
                0 => emit(&format!("{} {} {} {} {}", fam, c, k, hexenc(&s), hexenc(&rand_bh(r, cap2)))),
                1 => emit(&format!("{} {} {} {} {}", fam, c, k, hexenc(&rand_bh(r, 64)), hexenc(&s))),
                2 => { let mut v = s.clone(); v.extend(rand_bh(r, 30)); v.truncate(64); emit(&format!("{} {} {} {} {}", fam, c, k, hexenc(&v), hexenc(&s))); }
                _ => { let mut v = rand_bh(r, 20); v.extend(&s); v.truncate(cap2); emit(&format!("{} {} {} {} {}", fam, c, k, hexenc(&s), hexenc(&v))); }
            }
        }
    }
    // maximum-size objects: every block size (1 to 10 decimal digits), both block hashes at capacity,
    // without any run and with runs (the longest texts a type can print; round-9 seeded change: a
    // stack buffer one byte short for the largest dual hash)
    for k in 0..31u8 {
        for (c, cap2) in [("S", 32usize), ("L", 64usize)] {
            let b1: Vec<u8> = (0..64).map(|i| ((i * 5 + k as usize) % 64) as u8).collect();
            let b2: Vec<u8> = (0..cap2).map(|i| ((i * 7 + 1) % 64) as u8).collect();
            emit(&format!("{} {} {} {} {}", fam, c, k, hexenc(&b1), hexenc(&b2)));
            if k % 5 == 0 || k >= 28 {
                let mut r1 = b1.clone(); for i in 20..30 { r1[i] = 9; }
                let mut r2 = b2.clone(); for i in (cap2 - 6)..cap2 { r2[i] = 3; }
                emit(&format!("{} {} {} {} {}", fam, c, k, hexenc(&r1), hexenc(&r2)));
            }
        }
    }
    for (c, cap2) in [("S", 32usize), ("L", 64usize)] {
        // every run length at every position (thorough), a sample otherwise
        for run in 1..=64usize {
            for pos in 0..=(64 - run) {
                if !thorough && !(r.chance(1, 12) || pos == 0 || pos + run == 64 || run == 4 || run == 5) { continue; }
                let total = if r.chance(1, 2) { 64 } else { (pos + run + r.below(4) as usize).min(64) };
                let b1 = run_layout(pos, run, total);
                let b2: Vec<u8> = if run <= cap2 && pos + run <= cap2 {
                    run_layout(pos, run, (pos + run + r.below(3) as usize).min(cap2))
                } else { rand_bh(r, cap2) };
                emit(&format!("{} {} {} {} {}", fam, c, r.below(31), hexenc(&b1), hexenc(&b2)));
            }
        }
        // several runs, adjacent runs of different symbols, runs touching both ends
        let n = if thorough { 6000 } else { 600 };
        for _ in 0..n {
            let mk = |r: &mut Rng, cap: usize| -> Vec<u8> {
                let mut v: Vec<u8> = Vec::new();
                let target = match r.below(4) { 0 => cap, _ => r.range(0, cap as u64) as usize };
                while v.len() < target {
                    let al = if r.chance(1, 3) { 2 } else { 64 };
                    let c = r.below(al) as u8;
                    let run = match r.below(5) { 0 => 1, 1 => 3, 2 => 4, 3 => r.range(4, 12), _ => r.range(1, 64) } as usize;
                    for _ in 0..run.min(target - v.len()) { v.push(c); }
                }
                v
            };
            let b1 = mk(r, 64);
            let b2 = mk(r, cap2);
            emit(&format!("{} {} {} {} {}", fam, c, r.below(31), hexenc(&b1), hexenc(&b2)));
        }
        for _ in 0..(n / 3) {
            let b1 = rand_bh(r, 64);
            let b2 = rand_bh(r, cap2);
            emit(&format!("{} {} {} {} {}", fam, c, r.below(31), hexenc(&b1), hexenc(&b2)));
        }
    }
}

/// long raw hashes whose block hash 2 collapses to a length around the short capacity (28..36)
fn gen_normx(thorough: bool, r: &mut Rng, emit: Emit) {
    let n = if thorough { 6000 } else { 700 };
    for _ in 0..n {
        let target = r.range(28, 36) as usize;
        let mut b2: Vec<u8> = Vec::new();
        let mut norm_len = 0usize;
        let mut prev = 255u8;
        while norm_len < target && b2.len() < 64 {
            let mut c = r.below(64) as u8;
            if c == prev { c = (c + 1) % 64; }
            prev = c;
            let left = target - norm_len;
            let run = match r.below(5) { 0 | 1 => 1, 2 => 3, 3 => r.range(4, 9) as usize, _ => r.range(1, 12) as usize };
            let run = run.min(64 - b2.len());
            // a final long run touching the collapsed capacity is the interesting layout
            for _ in 0..run { b2.push(c); }
            norm_len += run.min(3).min(left.max(1));
        }
        if r.chance(1, 3) { let c = *b2.last().unwrap_or(&1); while b2.len() < 64 && r.chance(2, 3) { b2.push(c); } }
        let b1 = if r.chance(1, 2) { rand_bh(r, 64) } else {
            // block hash 1: 61 distinct symbols followed by a run reaching the capacity
            let mut v: Vec<u8> = (0..r.range(58, 61)).map(|i| (i % 63 + 1) as u8).collect();
            while v.len() < 64 { v.push(0); }
            v
        };
        emit(&format!("normx {} {} {}", r.below(31), hexenc(&b1), hexenc(&b2)));
    }
}

fn gen_dual2(thorough: bool, r: &mut Rng, emit: Emit) {
    let n = if thorough { 8000 } else { 800 };
    for _ in 0..n {
        let (c, cap2) = if r.chance(1, 2) { ("S", 32usize) } else { ("L", 64usize) };
        let k1 = r.below(31) as u8;
        let a1 = rand_bh(r, 64);
        let a2 = rand_bh(r, cap2);
        let (k2, b1, b2) = match r.below(5) {
            0 => (k1, a1.clone(), a2.clone()),
            1 => {
                // same normalisation, different raw: lengthen / shorten a run
                let mut b = collapse(&a1);
                if let Some(i) = (0..b.len().saturating_sub(2)).find(|&i| b[i] == b[i + 1] && b[i + 1] == b[i + 2]) {
                    for _ in 0..r.range(1, 4) { if b.len() < 64 { b.insert(i, b[i]); } }
                }
                (k1, b, a2.clone())
            }
            2 => (k1, collapse(&a1), collapse(&a2)),
            3 => (r.below(31) as u8, a1.clone(), a2.clone()),
            _ => (k1, mutate_bh(r, &a1, 64), mutate_bh(r, &a2, cap2)),
        };
        emit(&format!("dual2 {} {} {} {} {} {} {}", c, k1, hexenc(&a1), hexenc(&a2), k2, hexenc(&b1), hexenc(&b2)));
    }
    // same normalised form, raw forms differing in exactly one run — the j-th of many (up to the 16 / 8
    // RLE entries a block can hold), by 1..3 (same entry count), by 4 (one entry more) or by a lot (several
    // entries); near-full block hashes with many short runs; equality, ordering and hashing must see the
    // difference wherever it sits in the RLE block (round-5 seeded changes C07 m1 / m3, C16 m2)
    for i in 0..(if thorough { 8000 } else { 1000 }) {
        let (c, cap2) = if r.chance(1, 2) { ("S", 32usize) } else { ("L", 64usize) };
        let k = r.below(31) as u8;
        let build = |r: &mut Rng, cap: usize, dense: bool| -> Vec<(u8, usize)> {
            let mut segs: Vec<(u8, usize)> = Vec::new();
            let mut total = 0usize;
            let mut prev = 64u8;
            loop {
                let mut sym = r.below(64) as u8; if sym == prev { sym = (sym + 1) % 64; }
                let len = if dense { *r.pick(&[4usize, 4, 5, 6, 7, 1, 2]) } else { match r.below(6) { 0 => 1, 1 => 2, 2 => 3, 3 => r.range(4, 7) as usize, 4 => r.range(8, 12) as usize, _ => r.range(1, 40) as usize } };
                if total + len > cap { break; }
                segs.push((sym, len)); total += len; prev = sym;
                if !dense && r.chance(1, 12) { break; }
            }
            segs
        };
        let flat = |segs: &[(u8, usize)]| -> Vec<u8> { segs.iter().flat_map(|&(c, n)| std::iter::repeat(c).take(n)).collect() };
        let vary = |r: &mut Rng, segs: &[(u8, usize)], cap: usize, late: bool| -> Vec<(u8, usize)> {
            let mut out = segs.to_vec();
            let idx: Vec<usize> = (0..out.len()).filter(|&j| out[j].1 >= 3).collect();
            if idx.is_empty() { return out; }
            let j = if late { idx[idx.len() - 1 - (r.below(2) as usize).min(idx.len() - 1)] } else { *r.pick(&idx) };
            let total: usize = out.iter().map(|s| s.1).sum();
            let room = cap - total;
            let old = out[j].1;
            let cands: Vec<usize> = [3usize, 4, 5, 6, 7, 8, 9, old + 1, old + 2, old + 3, old + 4, old + 5, old.saturating_sub(1), old.saturating_sub(4), old + room]
                .iter().copied().filter(|&n| n >= 3 && n != old && n <= old + room).collect();
            if !cands.is_empty() { out[j].1 = *r.pick(&cands); }
            out
        };
        let dense = i % 3 != 0;
        let s1 = build(r, 64, dense);
        let s2 = build(r, cap2, dense);
        let late = i % 2 == 0;
        let (t1, t2) = match r.below(3) { 0 => (vary(r, &s1, 64, late), s2.clone()), 1 => (s1.clone(), vary(r, &s2, cap2, late)), _ => (vary(r, &s1, 64, late), vary(r, &s2, cap2, late)) };
        emit(&format!("dual2 {} {} {} {} {} {} {}", c, k, hexenc(&flat(&s1)), hexenc(&flat(&s2)), k, hexenc(&flat(&t1)), hexenc(&flat(&t2))));
        // the same hash against its own normalisation (a dual hash without any reverse-normalisation
        // data), in both operand orders, and against the normalisation of one block hash only
        if i % 4 == 0 {
            let (n1, n2) = (collapse(&flat(&s1)), collapse(&flat(&s2)));
            emit(&format!("dual2 {} {} {} {} {} {} {}", c, k, hexenc(&n1), hexenc(&n2), k, hexenc(&flat(&s1)), hexenc(&flat(&s2))));
            emit(&format!("dual2 {} {} {} {} {} {} {}", c, k, hexenc(&flat(&s1)), hexenc(&flat(&s2)), k, hexenc(&n1), hexenc(&n2)));
            emit(&format!("dual2 {} {} {} {} {} {} {}", c, k, hexenc(&n1), hexenc(&flat(&s2)), k, hexenc(&flat(&s1)), hexenc(&n2)));
        }
    }
}

// ---------------------------------------------------------------------------------------------
// ord (C16)
// ---------------------------------------------------------------------------------------------

fn gen_ord(thorough: bool, r: &mut Rng, emit: Emit) {
    let n = if thorough { 20000 } else { 2000 };
    for _ in 0..n {
        let ty = *r.pick(&PLAIN);
        let (k1, a1, a2) = rand_obj(r, ty);
        let norm = is_norm_ty(ty);
        let fix = |v: Vec<u8>, cap: usize| -> Vec<u8> { let mut v = if norm { collapse(&v) } else { v }; v.truncate(cap); v };
        let (k2, b1, b2) = match r.below(8) {
            0 => (k1, a1.clone(), a2.clone()),
            1 => { let mut b = a1.clone(); b.push(0); (k1, fix(b, 64), a2.clone()) }             // trailing 'A'
            2 => { let mut b = a2.clone(); b.push(0); (k1, a1.clone(), fix(b, cap2_of(ty))) }
            3 => { let mut b = a1.clone(); b.pop(); (k1, b, a2.clone()) }                          // proper prefix
            4 => { let mut b = a1.clone(); if !b.is_empty() { let l = b.len(); b[l - 1] = 0; } (k1, fix(b, 64), a2.clone()) }
            5 => (r.below(31) as u8, a1.clone(), a2.clone()),
            6 => (k1, fix(mutate_bh(r, &a1, 64), 64), a2.clone()),
            _ => { let o = rand_obj(r, ty); (o.0, o.1, o.2) }
        };
        emit(&format!("ord {} {} {} {} {} {} {}", ty, k1, hexenc(&a1), hexenc(&a2), k2, hexenc(&b1), hexenc(&b2)));
    }
    // tiny objects: empty / one-two symbol block hashes (symbol 0 = 'A' is also the padding byte), every
    // pair of block sizes among a few — equality must still see the block size and the lengths
    let tiny: Vec<Vec<u8>> = vec![vec![], vec![0], vec![0, 0], vec![0, 0, 0], vec![1], vec![1, 0], vec![0, 1], vec![63]];
    for ty in PLAIN {
        for (i, x1) in tiny.iter().enumerate() {
            for (j, y1) in tiny.iter().enumerate() {
                if !thorough && (i * 3 + j) % 4 != 0 && !(i < 3 && j < 3) { continue; }
                for (k1, k2) in [(0u8, 0u8), (0, 1), (1, 0), (5, 30), (30, 30)] {
                    emit(&format!("ord {} {} {} {} {} {} {}", ty, k1, hexenc(x1), hexenc(&tiny[(i + j) % tiny.len()]), k2, hexenc(y1), hexenc(&tiny[(i + j) % tiny.len()])));
                    emit(&format!("ord {} {} {} {} {} {} {}", ty, k1, hexenc(&tiny[(i * j) % tiny.len()]), hexenc(x1), k2, hexenc(&tiny[(i * j) % tiny.len()]), hexenc(y1)));
                }
            }
        }
    }
}

// ---------------------------------------------------------------------------------------------
// posarr (C08, C09, C17)
// ---------------------------------------------------------------------------------------------

fn all_strings(alpha: u8, maxlen: usize) -> Vec<Vec<u8>> {
    let mut out: Vec<Vec<u8>> = vec![vec![]];
    let mut cur: Vec<Vec<u8>> = vec![vec![]];
    for _ in 0..maxlen {
        let mut next = Vec::new();
        for s in &cur { for c in 0..alpha { let mut t = s.clone(); t.push(c); next.push(t); } }
        out.extend(next.iter().cloned());
        cur = next;
    }
    out
}

fn gen_posarr(thorough: bool, r: &mut Rng, emit: Emit) {
    // exhaustive small domains
    let s2 = all_strings(2, if thorough { 7 } else { 5 });
    for a in &s2 { for b in &s2 { emit(&format!("pa ed {} {}", hexenc(a), hexenc(b))); } }
    let s3 = all_strings(3, if thorough { 4 } else { 3 });
    for a in &s3 { for b in &s3 { emit(&format!("pa ed {} {}", hexenc(a), hexenc(b))); } }
    // binary strings of length 7..10 for the substring scan
    let s2l = all_strings(2, if thorough { 10 } else { 8 });
    let long: Vec<&Vec<u8>> = s2l.iter().filter(|s| s.len() >= 7).collect();
    for a in &long { for b in &long { if thorough || r.chance(1, 8) { emit(&format!("pa cs {} {}", hexenc(a), hexenc(b))); } } }
    // random / structured, full length, carry chains
    let n = if thorough { 30000 } else { 3000 };
    for i in 0..n {
        let a = match i % 6 { 0 => rand_bh(r, 64), 1 => vec![r.below(64) as u8; r.range(0, 64) as usize], 2 => { let l = r.range(62, 64) as usize; (0..l).map(|_| r.below(2) as u8).collect() }, _ => rand_bh(r, 64) };
        let b = match r.below(6) {
            0 => a.clone(),
            1 => { let mut b = a.clone(); if !b.is_empty() { let k = r.below(b.len() as u64) as usize; b.rotate_left(k); } b }  // shifted copy
            2 => mutate_bh(r, &a, 64),
            3 => { let l = r.range(62, 64) as usize; (0..l).map(|_| r.below(2) as u8).collect() }
            4 => { let mut b = a.clone(); b.reverse(); b }
            _ => rand_bh(r, 64),
        };
        emit(&format!("pa ed {} {}", hexenc(&a), hexenc(&b)));
        emit(&format!("pa ed {} {}", hexenc(&b), hexenc(&a)));
        emit(&format!("pa cs {} {}", hexenc(&a), hexenc(&b)));
    }
    // a shared 7-gram planted at (offset in a, offset in b); 6-gram near misses
    for la in [7usize, 8, 20, 63, 64] {
        for lb in [7usize, 9, 33, 64] {
            for oa in 0..=(la - 7) {
                for ob in 0..=(lb - 7) {
                    if !thorough && !(r.chance(1, 10) || oa == 0 || ob == 0 || oa == la - 7 || ob == lb - 7) { continue; }
                    // disjoint alphabets (a: 0..20, b: 20..40), gram from 40..64
                    let mut a: Vec<u8> = (0..la).map(|_| r.below(20) as u8).collect();
                    let mut b: Vec<u8> = (0..lb).map(|_| 20 + r.below(20) as u8).collect();
                    let gram: Vec<u8> = (0..7).map(|_| 40 + r.below(24) as u8).collect();
                    a[oa..oa + 7].copy_from_slice(&gram);
                    b[ob..ob + 7].copy_from_slice(&gram);
                    emit(&format!("pa cs {} {}", hexenc(&a), hexenc(&b)));
                    // near miss: break one position of the planted gram in b
                    let mut b2 = b.clone();
                    b2[ob + r.below(7) as usize] = 20;
                    emit(&format!("pa cs {} {}", hexenc(&a), hexenc(&b2)));
                }
            }
        }
    }
    // has_sequences (the run detector behind is_valid_and_normalized): every length 0..=66, words made
    // of runs of chosen lengths at chosen offsets, all-ones, single gaps
    for len in 0..=66u32 {
        for _ in 0..(if thorough { 40 } else { 8 }) {
            let mut x: u64 = 0;
            for _ in 0..r.range(1, 4) {
                let rl = match r.below(4) { 0 => len as u64, 1 => (len as u64).saturating_sub(1), 2 => len as u64 + 1, _ => r.range(1, 64) }.min(64);
                let off = r.below(65 - rl).min(63);
                let m = if rl == 64 { u64::MAX } else { ((1u64 << rl) - 1) << off };
                x |= m;
            }
            if r.chance(1, 6) { x = u64::MAX; }
            if r.chance(1, 6) { x = u64::MAX & !(1u64 << r.below(64)); }
            if r.chance(1, 10) { x = r.next(); }
            emit(&format!("pa hs {} {}", x, len));
        }
        emit(&format!("pa hs 0 {}", len));
        emit(&format!("pa hs {} {}", u64::MAX, len));
    }
    // out-of-contract arguments
    emit(&format!("pa ed {} -", hexenc(&vec![1u8; 65])));
    emit("pa ed 40 -");
    emit("pa ed 01 40");
    emit(&format!("pa ed 01 {}", hexenc(&vec![1u8; 65])));
    emit("pa cs 01020304050607 01020304050640");
    // histories (C17)
    let m = if thorough { 6000 } else { 600 };
    for _ in 0..m {
        let steps = r.range(1, 6);
        let mut items: Vec<String> = Vec::new();
        for _ in 0..steps {
            if r.chance(1, 6) { items.push("c".into()); } else {
                let s = match r.below(4) { 0 => rand_norm_bh(r, 64), 1 => vec![r.below(64) as u8; r.range(0, 64) as usize], _ => rand_bh(r, 64) };
                let mut s = s;
                if r.chance(1, 40) { s.push(64); }
                // longer than a position array can hold (65.., and multiples of 64 where a shift wraps)
                if r.chance(1, 25) { let l = *r.pick(&[65usize, 66, 70, 127, 128, 129, 192, 256, 320]); let mut base = rand_norm_bh(r, 64); if base.is_empty() { base = vec![1, 2, 3]; } s = (0..l).map(|i| base[i % base.len()]).collect(); }
                items.push(hexenc(&s));
            }
        }
        let probe = rand_bh(r, 64);
        emit(&format!("pah {} {}", items.join(";"), hexenc(&probe)));
    }
    // full-length strings beginning and ending with runs of one symbol (see gen_target)
    for a in 1..=3usize {
        for b in 1..=3usize {
            let c = (a * 9 + b) as u8;
            let mut v: Vec<u8> = vec![c; a];
            while v.len() < 64 - b { let x = ((v.len() * 5 + 11) % 64) as u8; v.push(if x == c { (x + 1) % 64 } else { x }); }
            v.extend(vec![c; b]);
            emit(&format!("pah {} {}", hexenc(&v), hexenc(&v)));
            emit(&format!("pah {};{} {}", hexenc(&rand_bh(r, 64)), hexenc(&v), hexenc(&v[..60])));
            emit(&format!("pa ed {} {}", hexenc(&v), hexenc(&v[3..])));
            emit(&format!("pa cs {} {}", hexenc(&v), hexenc(&v[50..])));
        }
    }
    // related histories: each string is a prefix / extension / one-symbol edit / full-length version
    // of the previous one; the probe shares a 7-gram with the first, the previous or the last string
    for _ in 0..(if thorough { 6000 } else { 800 }) {
        let steps = r.range(2, 6);
        let mut items: Vec<String> = Vec::new();
        let mut strs: Vec<Vec<u8>> = Vec::new();
        let mut prev = match r.below(3) { 0 => related_bh(r, &[], 64), _ => rand_norm_bh(r, 64) };
        for _ in 0..steps {
            if r.chance(1, 10) { items.push("c".into()); }
            items.push(hexenc(&prev));
            strs.push(prev.clone());
            prev = related_bh(r, &prev, 64);
        }
        let probe = match r.below(4) { 0 => strs[0].clone(), 1 => strs[strs.len() - 1].clone(), 2 => strs[strs.len().saturating_sub(2)].clone(), _ => mutate_bh(r, &strs[strs.len() - 1], 64) };
        emit(&format!("pah {} {}", items.join(";"), hexenc(&probe)));
    }
}

/// the next string of a reuse history, related to the previous one: proper prefix, extension,
/// empty, full length (64), same length with one symbol changed, or unrelated (rounds 3-5 of the
/// seeded changes: stale masks survive exactly when old and new contents are related this way)
fn related_bh(r: &mut Rng, prev: &[u8], cap: usize) -> Vec<u8> {
    let v: Vec<u8> = match r.below(9) {
        0 => { let l = r.range(0, prev.len() as u64) as usize; prev[..l].to_vec() }                      // (proper) prefix
        1 => { let mut v = prev.to_vec(); for _ in 0..r.range(1, 12) { v.push(r.below(64) as u8); } v }    // extension
        2 => vec![],
        3 => { let mut v = rand_norm_bh(r, cap); while v.len() < cap { v.push(((v.len() * 7 + 3) % 64) as u8); } v } // full
        4 => { let mut v = prev.to_vec(); if !v.is_empty() { let i = r.below(v.len() as u64) as usize; v[i] = r.below(64) as u8; } v }
        5 => { let l = r.below(prev.len() as u64 + 1) as usize; prev[l..].to_vec() }                        // suffix
        6 => prev.to_vec(),
        _ => rand_norm_bh(r, cap),
    };
    fixn(v, cap)
}

fn hash_arg(k: u8, b1: &[u8], b2: &[u8]) -> String { format!("{}:{}:{}", k, hexenc(b1), hexenc(b2)) }

fn gen_target(thorough: bool, r: &mut Rng, emit: Emit) {
    let m = if thorough { 8000 } else { 800 };
    for _ in 0..m {
        let (c, cap2) = if r.chance(1, 2) { ("S", 32usize) } else { ("L", 64usize) };
        let steps = r.range(1, 5);
        let mut hs: Vec<(u8, Vec<u8>, Vec<u8>)> = Vec::new();
        for i in 0..steps {
            let long_first = i == 0 && r.chance(1, 2);
            let k = r.below(31) as u8;
            let b1 = if long_first { let mut v = rand_norm_bh(r, 64); while v.len() < 60 { v.push(((v.len() * 5) % 64) as u8); } collapse(&v) } else { rand_norm_bh(r, 64) };
            let b2 = rand_norm_bh(r, cap2);
            hs.push((k, b1, b2));
        }
        let last = hs.last().unwrap().clone();
        let probe = match r.below(4) {
            0 => last.clone(),
            1 => { let f = hs[0].clone(); ((last.0), f.1, f.2) }
            2 => (last.0.saturating_add(1).min(30), { let mut v = collapse(&mutate_bh(r, &last.2, 64)); v.truncate(64); v }, rand_norm_bh(r, cap2)),
            _ => (last.0, { let mut v = collapse(&mutate_bh(r, &last.1, 64)); v.truncate(64); v }, { let mut v = collapse(&mutate_bh(r, &last.2, cap2)); v.truncate(cap2); v }),
        };
        let seq: Vec<String> = hs.iter().map(|h| hash_arg(h.0, &h.1, &h.2)).collect();
        emit(&format!("tgt {} {} {}", c, seq.join(";"), hash_arg(probe.0, &probe.1, &probe.2)));
    }
    // full-length (64-symbol) block hashes that begin and end with runs of the same symbol (a bit trick
    // that rotates instead of shifting would join the two runs across the word boundary: round-10
    // seeded change in is_valid_and_normalized), as block hash 1, as long block hash 2, and as probe
    for a in 1..=3usize {
        for b in 1..=3usize {
            for k in [0u8, 7, 30] {
                let c = (a * 7 + b) as u8;
                let mut v: Vec<u8> = vec![c; a];
                while v.len() < 64 - b { let x = ((v.len() * 5 + 11) % 64) as u8; v.push(if x == c { (x + 1) % 64 } else { x }); }
                v.extend(vec![c; b]);
                let other = rand_norm_bh(r, 64);
                emit(&format!("tgt L {} {}", hash_arg(k, &v, &other), hash_arg(k, &v, &v)));
                emit(&format!("tgt L {};{} {}", hash_arg(k, &other, &other), hash_arg(k, &other, &v), hash_arg(k.saturating_sub(1), &other, &v)));
                emit(&format!("tgt S {} {}", hash_arg(k, &v, &fixn(other.clone(), 32)), hash_arg(k, &mutate_bh(r, &v, 64).iter().copied().take(64).collect::<Vec<u8>>(), &[])));
            }
        }
    }
    // related histories (see related_bh): both block hashes evolve by prefix / extension / emptying /
    // filling to capacity; the probe is the first, previous or last hash or a light edit of one of them
    for _ in 0..(if thorough { 8000 } else { 1000 }) {
        let (c, cap2) = if r.chance(1, 2) { ("S", 32usize) } else { ("L", 64usize) };
        let steps = r.range(2, 5) as usize;
        let mut hs: Vec<(u8, Vec<u8>, Vec<u8>)> = Vec::new();
        let mut k = r.below(31) as u8;
        let mut b1 = match r.below(3) { 0 => vec![], 1 => related_bh(r, &[], 64), _ => rand_norm_bh(r, 64) };
        let mut b2 = match r.below(3) { 0 => vec![], 1 => related_bh(r, &[], cap2), _ => rand_norm_bh(r, cap2) };
        for _ in 0..steps {
            hs.push((k, b1.clone(), b2.clone()));
            if r.chance(1, 3) { k = r.below(31) as u8; }
            match r.below(4) { 0 => { b1 = related_bh(r, &b1, 64); } 1 => { b2 = related_bh(r, &b2, cap2); } _ => { b1 = related_bh(r, &b1, 64); b2 = related_bh(r, &b2, cap2); } }
        }
        let last = hs[hs.len() - 1].clone();
        let pick = match r.below(3) { 0 => hs[0].clone(), 1 => hs[hs.len().saturating_sub(2)].clone(), _ => last.clone() };
        let probe = match r.below(4) {
            0 => (last.0, pick.1.clone(), pick.2.clone()),
            1 => (last.0.saturating_add(1).min(30), fixn(pick.2.clone(), 64), rand_norm_bh(r, cap2)),
            2 => (last.0, fixn(mutate_bh(r, &pick.1, 64), 64), fixn(mutate_bh(r, &pick.2, cap2), cap2)),
            _ => (last.0.saturating_sub(1), rand_norm_bh(r, 64), fixn(pick.1.clone(), cap2)),
        };
        let seq: Vec<String> = hs.iter().map(|h| hash_arg(h.0, &h.1, &h.2)).collect();
        emit(&format!("tgt {} {} {}", c, seq.join(";"), hash_arg(probe.0, &probe.1, &probe.2)));
    }
}

// ---------------------------------------------------------------------------------------------
// cmp (C02, C10)
// ---------------------------------------------------------------------------------------------

fn fixn(v: Vec<u8>, cap: usize) -> Vec<u8> { let mut v = collapse(&v); v.truncate(cap); v }

fn gen_cmp(thorough: bool, r: &mut Rng, emit: Emit) {
    let n = if thorough { 60000 } else { 5000 };
    for i in 0..n {
        let cap2 = if r.chance(1, 2) { 32 } else { 64 };
        let k1 = match r.below(4) { 0 => r.below(5) as u8, 1 => 30 - r.below(3) as u8, _ => r.below(31) as u8 };
        let minlen = if r.chance(3, 4) { 7 } else { 0 };
        let mk = |r: &mut Rng, cap: usize| -> Vec<u8> { let mut v = rand_norm_bh(r, cap); if v.len() < minlen { v = fixn((0..(minlen + r.below(20) as usize)).map(|_| r.below(64) as u8).collect(), cap); } v };
        let a1 = mk(r, 64);
        let a2 = mk(r, cap2);
        // block size relation: every one of far / near-lt / eq / near-gt
        let k2 = match i % 7 { 0 | 1 | 2 => k1, 3 => k1.saturating_add(1).min(30), 4 => k1.saturating_sub(1), 5 => k1.saturating_add(2).min(30), _ => r.below(31) as u8 };
        let (b1, b2) = match r.below(8) {
            0 => (a1.clone(), a2.clone()),
            1 => (fixn(mutate_bh(r, &a1, 64), 64), fixn(mutate_bh(r, &a2, cap2), cap2)),
            2 => (fixn(mutate_bh(r, &a2, 64), 64), mk(r, cap2)),                 // crossing: b1 ~ a2
            3 => (mk(r, 64), fixn(mutate_bh(r, &a1, cap2), cap2)),               // crossing: b2 ~ a1
            4 => (fixn(mutate_bh(r, &a1, 64), 64), mk(r, cap2)),
            5 => (mk(r, 64), fixn(mutate_bh(r, &a2, cap2), cap2)),
            6 => {
                // share exactly one 7-gram
                let mut b = mk(r, 64);
                if a1.len() >= 7 && b.len() >= 7 {
                    let oa = r.below((a1.len() - 6) as u64) as usize;
                    let ob = r.below((b.len() - 6) as u64) as usize;
                    let g: Vec<u8> = a1[oa..oa + 7].to_vec();
                    b[ob..ob + 7].copy_from_slice(&g);
                }
                (fixn(b, 64), mk(r, cap2))
            }
            _ => (mk(r, 64), mk(r, cap2)),
        };
        emit(&format!("cmp {} {} {} {} {} {}", k1, hexenc(&a1), hexenc(&a2), k2, hexenc(&b1), hexenc(&b2)));
    }
    // the capping region: block sizes 3..96 (the cap `2^k * min(len)` is below 100 only for k <= 3 and
    // short block hashes), both block hashes short (7..=16, lengths independent), the partner a light
    // edit of the original so that the raw score exceeds the cap; every block-size relation around the
    // capping border (round-4 seeded change C02: the cap of block hash 1 skipped at k = 3)
    for i in 0..(if thorough { 20000 } else { 1500 }) {
        let k1 = r.below(6) as u8;
        let k2 = match i % 5 { 0 | 1 | 2 => k1, 3 => k1 + 1, _ => k1.saturating_sub(1) };
        let short = |r: &mut Rng| -> Vec<u8> { let l = r.range(7, 16) as usize; fixn((0..l + 3).map(|_| r.below(64) as u8).collect(), l) };
        let edit = |r: &mut Rng, s: &[u8], cap: usize| -> Vec<u8> {
            let mut v = s.to_vec();
            match r.below(5) {
                0 => { let i = r.below(v.len() as u64) as usize; v[i] = r.below(64) as u8; }
                1 => { v.push(r.below(64) as u8); }
                2 => { v.pop(); }
                3 => { v.insert(0, r.below(64) as u8); }
                _ => { let l = r.range(7, v.len() as u64) as usize; v.truncate(l); }
            }
            fixn(v, cap)
        };
        let (a1, a2) = (short(r), short(r));
        let (b1, b2) = match r.below(5) {
            0 => (edit(r, &a1, 64), short(r)),
            1 => (short(r), edit(r, &a2, 32)),
            2 => (edit(r, &a1, 64), edit(r, &a2, 32)),
            3 => (edit(r, &a2, 64), short(r)),       // crossing pairs (near-lt / near-gt)
            _ => (short(r), edit(r, &a1, 32)),
        };
        emit(&format!("cmp {} {} {} {} {} {}", k1, hexenc(&a1), hexenc(&a2), k2, hexenc(&b1), hexenc(&b2)));
    }
    // block sizes differing by a factor of two: only the crossing pair (bh2 of the smaller / bh1 of the
    // larger size) is compared; the block hashes that do NOT take part are empty, shorter than 7 or
    // exactly 7, the participating ones exactly 7, 8 or long (round-8 seeded change: a length pre-filter
    // looking at the wrong block hash)
    for i in 0..(if thorough { 6000 } else { 600 }) {
        let k = r.range(0, 29) as u8;
        let lens = [0usize, 1, 6, 7, 8, 20, 32];
        let part: Vec<u8> = { let l = *r.pick(&[7usize, 7, 8, 12, 32]); fixn((0..l + 2).map(|_| r.below(64) as u8).collect(), l) };
        let other_part = match r.below(3) { 0 => part.clone(), 1 => fixn(mutate_bh(r, &part, 32), 32), _ => { let mut v = rand_norm_bh(r, 24); v.extend(&part); fixn(v, 32) } };
        let idle = |r: &mut Rng| -> Vec<u8> { let l = *r.pick(&lens); fixn((0..l + 2).map(|_| r.below(64) as u8).collect(), l) };
        let (a1, b2) = (idle(r), idle(r));
        // a = (k, a1, part)   b = (k + 1, other_part, b2): a's block hash 2 meets b's block hash 1
        if i % 2 == 0 {
            emit(&format!("cmp {} {} {} {} {} {}", k, hexenc(&a1), hexenc(&part), k + 1, hexenc(&other_part), hexenc(&b2)));
        } else {
            emit(&format!("cmp {} {} {} {} {} {}", k + 1, hexenc(&other_part), hexenc(&b2), k, hexenc(&a1), hexenc(&part)));
        }
    }
    // hashes that differ only by trailing symbols 0 ('A', the same byte as the padding of the arrays),
    // including empty block hashes: "equal" shortcuts must compare lengths too (round-5 seeded change C10)
    for _ in 0..(if thorough { 4000 } else { 400 }) {
        let k = r.below(31) as u8;
        let base = |r: &mut Rng, cap: usize| -> Vec<u8> { match r.below(4) { 0 => vec![], 1 => fixn((0..r.range(1, 6)).map(|_| r.below(64) as u8).collect(), cap), _ => { let mut v = rand_norm_bh(r, cap - 3); while v.last() == Some(&0) { v.pop(); } v } } };
        let zeros = |r: &mut Rng, v: &[u8], cap: usize| -> Vec<u8> { let mut v = v.to_vec(); for _ in 0..r.range(1, 3) { v.push(0); } fixn(v, cap) };
        let (a1, a2) = (base(r, 64), base(r, 32));
        let (b1, b2) = match r.below(3) { 0 => (zeros(r, &a1, 64), a2.clone()), 1 => (a1.clone(), zeros(r, &a2, 32)), _ => (zeros(r, &a1, 64), zeros(r, &a2, 32)) };
        let k2 = match r.below(4) { 0 => k.saturating_add(1).min(30), 1 => k.saturating_sub(1), _ => k };
        emit(&format!("cmp {} {} {} {} {} {}", k, hexenc(&a1), hexenc(&a2), k2, hexenc(&b1), hexenc(&b2)));
        emit(&format!("cmp {} {} {} {} {} {}", k2, hexenc(&b1), hexenc(&b2), k, hexenc(&a1), hexenc(&a2)));
    }
    // string front end on raw (not normalised) texts and on malformed ones
    let m = if thorough { 6000 } else { 500 };
    for _ in 0..m {
        let k = r.below(31) as u8;
        let a = text_of(k, &rand_bh(r, 64), &rand_bh(r, 64));
        let b = match r.below(4) {
            0 => a.clone(),
            1 => rand_hash_text(r),
            _ => text_of(if r.chance(1, 2) { k } else { (k + 1).min(30) }, &rand_bh(r, 64), &rand_bh(r, 64)),
        };
        if std::str::from_utf8(&a).is_ok() && std::str::from_utf8(&b).is_ok() {
            emit(&format!("cmps {} {}", hexenc(&a), hexenc(&b)));
            emit(&format!("cmps {} {}", hexenc(&b), hexenc(&a)));
        }
    }
}

fn gen_win(thorough: bool, r: &mut Rng, emit: Emit) {
    let n = if thorough { 8000 } else { 800 };
    for _ in 0..n {
        let (c, cap2) = if r.chance(1, 2) { ("S", 32usize) } else { ("L", 64usize) };
        let k = match r.below(3) { 0 => 30, 1 => 0, _ => r.below(31) } as u8;
        emit(&format!("win {} {} {} {}", c, k, hexenc(&rand_norm_bh(r, 64)), hexenc(&rand_norm_bh(r, cap2))));
    }
    for l in 0..=10usize {
        let v: Vec<u8> = (0..l).map(|i| (63 - i) as u8).collect();
        emit(&format!("win L 30 {} {}", hexenc(&v), hexenc(&v)));
    }
}

// ---------------------------------------------------------------------------------------------
// gen (C01, C03, C12, C13)
// ---------------------------------------------------------------------------------------------

fn word(level: usize, r: &mut Rng) -> [u8; 7] {
    // a level without a table entry falls back to the next higher level
    let mut level = level;
    loop {
        let c: Vec<&(usize, [u8; 7])> = WORDS.iter().filter(|w| w.0 == level).collect();
        if !c.is_empty() { return c[r.below(c.len() as u64) as usize].1; }
        level += 1;
    }
}

/// payload in one of the styles the property's quantifier names
fn rand_payload(r: &mut Rng, len: usize) -> Vec<u8> {
    match r.below(7) {
        0 => r.bytes(len),
        1 => (0..len).map(|_| r.below(3) as u8).collect(),                      // low entropy
        2 => { let p = r.range(1, 40) as usize; let base = r.bytes(p); (0..len).map(|i| base[i % p]).collect() } // periodic
        3 => (0..len).map(|_| if r.chance(9, 10) { 0 } else { r.byte() }).collect(), // zero heavy
        4 => {
            // adversarial: trigger words at chosen levels separated by short fillers
            let mut v = Vec::with_capacity(len + 8);
            let top = r.range(0, 30) as usize;
            while v.len() + 7 <= len {
                let lvl = match r.below(4) { 0 => top, 1 => r.range(0, top as u64) as usize, _ => r.range(0, 6.min(top as u64)) as usize };
                if r.chance(1, 12) { let mw: [u8; 7] = *r.pick(MAXWORDS); v.extend_from_slice(&mw); } else { v.extend_from_slice(&word(lvl, r)); }
                if r.chance(1, 3) { for _ in 0..r.range(1, 5) { v.push(0); } }
            }
            v.truncate(len);
            while v.len() < len { v.push(0); }
            v
        }
        5 => {
            // one level repeated: fills that level (and all below) with 64+ pieces
            let lvl = r.range(0, 30) as usize;
            let w = word(lvl, r);
            let mut v = Vec::with_capacity(len + 8);
            while v.len() + 7 <= len { v.extend_from_slice(&w); }
            while v.len() < len { v.push(1); }
            v
        }
        _ => {
            // text-like
            (0..len).map(|_| b"etaoin shrdlu\n"[r.below(14) as usize]).collect()
        }
    }
}

/// split `data` into update tokens of random forms with boundaries at arbitrary offsets
fn chunked(r: &mut Rng, data: &[u8], toks: &mut Vec<String>, allow_fin: bool) {
    let mut pos = 0usize;
    let style = r.below(4);
    // keep the number of mid-stream finalisations per history small (each costs a full spec digest)
    let approx_chunks = match style { 0 => 1, 1 => data.len() / 5 + 1, 2 => data.len() / 350 + 1, _ => 8 } as u64;
    let fin_den = 12u64.max(approx_chunks / 3);
    while pos < data.len() {
        let rest = data.len() - pos;
        let n = match style {
            0 => rest,
            1 => r.range(1, 9).min(rest as u64) as usize,              // inside a 7-byte window
            2 => r.range(1, 700).min(rest as u64) as usize,
            _ => r.range(1, (rest as u64).max(1)) as usize,
        };
        let form = match r.below(12) { 0 | 1 | 2 | 3 => "u", 4 | 5 => "i", 6 => if n <= 64 { "b" } else { "u" }, 7 => "a", 8 => if n <= 16 { "A" } else { "i" },
            9 => *r.pick(&["j", "k", "K"]), 10 => "n", _ => "u" };
        toks.push(format!("{}:{}", form, hexenc(&data[pos..pos + n])));
        pos += n;
        if allow_fin && r.chance(1, fin_den) { toks.push("f".into()); }
        if allow_fin && r.chance(1, 2 * fin_den) { toks.push("c".into()); }
        if allow_fin && r.chance(1, 3 * fin_den) { toks.push("p".into()); }
        if allow_fin && r.chance(1, 4 * fin_den) { toks.push("q".into()); }
    }
}

fn gen_gen(thorough: bool, r: &mut Rng, emit: Emit) {
    // 1. sizes on, just below and just above every block-size border, fed directly
    let direct_max = if thorough { 13 } else { 10 };
    for n in 0..=direct_max {
        let border = 192usize << n;
        for d in [-2i64, -1, 0, 1, 2] {
            let len = (border as i64 + d) as usize;
            let data = rand_payload(r, len);
            let mut toks = vec![];
            if r.chance(1, 2) { toks.push(format!("u:{}", hexenc(&data))); } else { chunked(r, &data, &mut toks, false); }
            toks.push("f".into());
            emit(&format!("gen {}", toks.join(" ")));
        }
    }
    // 1b. iterators whose size hint is loose (legal: lower bound 0, upper bound absent / over-estimated /
    //     usize::MAX), totals at and just below every border so that a full block hash meets a piece
    //     boundary while an over-estimate would already be past the border (round-3 seeded change C03)
    for n in 0..=(if thorough { 9 } else { 6 }) {
        let border = 192usize << n;
        for rep in 0..(if thorough { 40 } else { 12 }) {
            let len = border - r.below(if rep % 4 == 0 { 24u64 << n } else { 8u64 << n }) as usize;
            let data = rand_payload(r, len);
            let mut toks = vec![];
            let cutn = r.below(3) as usize;
            let mut cuts: Vec<usize> = (0..cutn).map(|_| r.below(len as u64 + 1) as usize).collect();
            cuts.push(0); cuts.push(len); cuts.sort(); cuts.dedup();
            for w in cuts.windows(2) {
                toks.push(format!("{}:{}", r.pick(&["j", "k", "K", "k", "K", "i"]), hexenc(&data[w[0]..w[1]])));
            }
            toks.push("f".into());
            emit(&format!("gen {}", toks.join(" ")));
        }
    }
    // 2. through the zero-prefix hook: every border up to the limit, suffix creating pieces
    for n in 0..=30usize {
        let border: u64 = 192u64 << n;
        for d in [-2i64, -1, 0, 1, 2] {
            let suffix_len = match r.below(3) { 0 => 0, 1 => r.range(1, 600) as usize, _ => 7 * r.range(1, 80) as usize };
            let total = (border as i64 + d) as u64;
            if total < suffix_len as u64 { continue; }
            let top = r.range(0, 30) as usize;
            let mut suffix: Vec<u8> = Vec::new();
            while suffix.len() + 7 <= suffix_len {
                let lvl = match r.below(3) { 0 => top, 1 => 30, _ => r.range(0, top as u64) as usize };
                suffix.extend_from_slice(&word(lvl, r));
            }
            while suffix.len() < suffix_len { suffix.push(if r.chance(1, 2) { 0 } else { 1 }); }
            let mut toks = vec![format!("z:{}", total - suffix_len as u64)];
            if r.chance(1, 3) { toks.push(format!("s:{}", total)); }
            chunked(r, &suffix, &mut toks, true);
            toks.push("f".into());
            emit(&format!("gen {}", toks.join(" ")));
        }
    }
    // around the hard limit
    let max: u64 = 192u64 << 30;
    for total in [max - 1, max, max + 1, max + 2, max / 2, max / 2 + 1, max / 2 - 1] {
        for sl in [0usize, 1, 7 * 64, 7 * 64 + 1] {
            let w = word(30, r);
            let mut suffix: Vec<u8> = Vec::new();
            while suffix.len() + 7 <= sl { suffix.extend_from_slice(&w); }
            while suffix.len() < sl { suffix.push(1); }
            let mut toks = vec![format!("z:{}", total - sl as u64)];
            chunked(r, &suffix, &mut toks, false);
            toks.push("f".into());
            emit(&format!("gen {}", toks.join(" ")));
        }
    }
    emit(&format!("gen s:{} f s:{} s:{} z:{} s:{} f", max + 1, max, max - 1, max, max + 1));
    // the top block size with a declared size: totals in (96 GiB, 192 GiB], 32..70 pieces at level 30
    // (the last-piece hash must be active whether or not the size was declared: round-5 seeded change C13)
    for i in 0..(if thorough { 60 } else { 16 }) {
        let total = match i % 4 { 0 => max, 1 => max / 2 + 1 + r.below(1000), 2 => max - r.below(1000), _ => r.range(max / 2 + 1, max) };
        let w = word(30, r);
        let reps = match i % 3 { 0 => 32, 1 => 33, _ => r.range(31, 70) } as usize;
        let mut suffix: Vec<u8> = Vec::new();
        for _ in 0..reps { suffix.extend_from_slice(&w); }
        if i % 5 == 0 { suffix.push(1); }
        let mut toks = vec![format!("z:{}", total - suffix.len() as u64)];
        if i % 2 == 0 { toks.push(format!("s:{}", total)); }
        chunked(r, &suffix, &mut toks, false);
        if i % 2 == 1 && r.chance(1, 2) { toks.push(format!("s:{}", total)); }
        toks.push("f".into());
        emit(&format!("gen {}", toks.join(" ")));
    }
    // reaching the limit exactly / passing it with the last call, through every update form
    for form in ["u", "i", "b", "a", "A", "n", "j", "K"] {
        let w = hexenc(&word(30, r));
        emit(&format!("gen z:{} {}:{} f", max - 7, form, w));
        emit(&format!("gen z:{} {}:{} f", max - 6, form, w));
        emit(&format!("gen z:{} {}:{} f {}:01 f", max - 14, form, w, form));
        emit(&format!("gen z:{} u:{} {}:{} f", max - 14, w, form, w));
    }
    // the small-input warning border (4097), fed for real, through the hook and as a declared size
    for n in [0u64, 1, 4095, 4096, 4097, 4098, 8192] {
        let data = rand_payload(r, n as usize);
        emit(&format!("gen u:{} f", hexenc(&data)));
        emit(&format!("gen i:{} f s:{} f", hexenc(&data), n));
        emit(&format!("gen z:{} f", n));
        emit(&format!("gen s:{} f", n));
        emit(&format!("gen s:{} pu:00:{} f", n, n));
        emit(&format!("gen u:0102 s:{} f", n));
    }
    // the two multi-GiB vectors of the repository's test suite
    {
        let w = hexenc(b"`]]]_CT");
        emit(&format!("gen z:{} pu:{}:64 f u:01 f", 96u64 * 1024 * 1024 * 1024 - 7 * 64, w));
        emit(&format!("gen z:{} pi:{}:64 f b:01 f", 192u64 * 1024 * 1024 * 1024 - 7 * 64, w));
    }
    // hook validation: really feeding zeros vs the hook
    let zmax = if thorough { 4096 } else { 300 };
    for n in 0..=zmax {
        emit(&format!("gen pu:00:{} f u:0102030405060708 f", n));
        emit(&format!("gen z:{} f u:0102030405060708 f", n));
    }
    for e in (12..=(if thorough { 26 } else { 20 })).step_by(2) {
        let n = (1u64 << e) + r.below(100);
        emit(&format!("gen pu:00:{} f u:05 f", n));
        emit(&format!("gen z:{} f u:05 f", n));
    }
    // boundary values of the trigger test (round-2 seeded change C01: the largest quotient 0x55555555
    // was no longer recognised): each edge word in a small input (block size 3 stays selected), at the
    // end of a long run of itself, and — when it ends a piece at level n — after a zero prefix that
    // makes level n the initial block size, by every update form
    for (horg, w) in EDGEWORDS.iter() {
        let lvl: Option<usize> = if *horg != 0 && *horg % 3 == 0 { Some((*horg / 3).trailing_zeros() as usize) } else { None };
        for form in ["u", "i", "b"] {
            let pre = r.range(0, 40) as usize;
            let post = r.range(0, 40) as usize;
            let mut data: Vec<u8> = rand_payload(r, pre);
            data.extend_from_slice(w);
            data.extend_from_slice(&rand_payload(r, post));
            emit(&format!("gen {}:{} f", form, hexenc(&data)));
            let reps = r.range(1, 12);
            emit(&format!("gen p{}:{}:{} f", if form == "b" { "u" } else { form }, hexenc(w), reps));
        }
        if let Some(l) = lvl {
            let l = l.min(30);
            let reps = r.range(33, 90);
            emit(&format!("gen z:{} pu:{}:{} f", (192u64 << l).saturating_sub(7 * reps), hexenc(w), reps));
            emit(&format!("gen z:{} pi:{}:{} f", (192u64 << l) + r.range(1, 100), hexenc(w), reps));
            emit(&format!("gen pu:{}:{} f", hexenc(w), r.range(64, 200)));
        }
    }
    // the `h_org == 0` early exit: a window whose rolling hash is u32::MAX, its last byte delivered
    // by each update form, total sizes on and around block-size borders, with and without a hint
    for w in MAXWORDS.iter() {
        for form in ["u", "i", "b", "a", "A"] {
            for total in [7usize, 100, 192, 193, 194, 385, 4097] {
                let pos = r.range(0, (total - 7) as u64) as usize;
                let mut data: Vec<u8> = (0..total).map(|_| r.below(3) as u8).collect();
                data[pos..pos + 7].copy_from_slice(w);
                let hint = r.chance(1, 3);
                let mut toks: Vec<String> = vec![];
                if hint { toks.push(format!("s:{}", total)); }
                if pos + 6 > 0 { toks.push(format!("u:{}", hexenc(&data[..pos + 6]))); }
                toks.push(format!("{}:{}", form, hexenc(&data[pos + 6..pos + 7])));
                if pos + 7 < total { toks.push(format!("{}:{}", if r.chance(1, 2) { form } else { "u" }, hexenc(&data[pos + 7..]))); }
                toks.push("f".into());
                emit(&format!("gen {}", toks.join(" ")));
                emit(&format!("gen {}:{} f", form, hexenc(&data)));
            }
        }
    }
    // 3. random histories
    let n = if thorough { 4000 } else { 500 };
    let maxlen = if thorough { 300000 } else { 40000 };
    for _ in 0..n {
        let len = match r.below(6) { 0 => r.range(0, 40), 1 => r.range(0, 700), 2 => r.range(4000, 4200), _ => r.range(0, maxlen) } as usize;
        let data = rand_payload(r, len);
        let mut toks: Vec<String> = vec![];
        let hint_at = r.below(5);  // 0: none, 1: before, 2: middle, 3: wrong, 4: after all updates
        if hint_at == 1 { toks.push(format!("s:{}", len)); }
        if hint_at == 3 { toks.push(format!("s:{}", if r.chance(1, 2) { len as u64 + r.range(1, 1000) } else { (len as u64).saturating_sub(r.range(1, 10)) })); }
        if hint_at == 2 {
            let cut = r.range(0, len as u64) as usize;
            chunked(r, &data[..cut], &mut toks, true);
            toks.push(format!("{}:{}", if r.chance(1, 2) { "s" } else { "S" }, len));
            if r.chance(1, 5) { toks.push(format!("s:{}", len + 1)); }
            if r.chance(1, 5) { toks.push(format!("s:{}", len)); }
            chunked(r, &data[cut..], &mut toks, true);
        } else {
            chunked(r, &data, &mut toks, true);
        }
        if hint_at == 4 { toks.push(format!("s:{}", len)); }
        toks.push("f".into());
        // continue after a finalisation
        if r.chance(1, 4) {
            let el = r.range(1, 300) as usize;
            let extra = rand_payload(r, el);
            chunked(r, &extra, &mut toks, false);
            toks.push("f".into());
        }
        // reset and a second, independent history
        if r.chance(1, 3) {
            toks.push("r".into());
            if r.chance(1, 3) { toks.push("f".into()); }
            let len2 = r.range(0, 5000) as usize;
            let d2 = rand_payload(r, len2);
            if r.chance(1, 3) { toks.push(format!("s:{}", len2)); }
            chunked(r, &d2, &mut toks, true);
            toks.push("f".into());
        }
        emit(&format!("gen {}", toks.join(" ")));
    }
    // 3b. refused declarations: the real size is declared (early or in the middle), then other sizes —
    //     smaller, larger, zero, on block-size borders, above the limit — are declared at various
    //     points and must be refused without any effect on the generator (round-2 seeded change C12:
    //     a refused smaller size rewrote the fork limit)
    for _ in 0..(if thorough { 1500 } else { 250 }) {
        let len = match r.below(4) { 0 => r.range(0, 700), 1 => r.range(400, 6000), _ => r.range(400, maxlen) } as usize;
        let data = rand_payload(r, len);
        let mut toks: Vec<String> = vec![];
        let ncuts = r.range(1, 5) as usize;
        let mut cuts: Vec<usize> = (0..ncuts).map(|_| match r.below(3) { 0 => 0, 1 => r.range(0, 64.min(len as u64)) as usize, _ => r.range(0, len as u64) as usize }).collect();
        cuts.sort();
        let declare_at = r.below(ncuts as u64 + 1) as usize; // index of the cut where the real size is declared (ncuts = never)
        let mut pos = 0usize;
        for (ci, &c) in cuts.iter().enumerate() {
            chunked(r, &data[pos..c], &mut toks, true);
            pos = c;
            if ci == declare_at { toks.push(format!("{}:{}", if r.chance(1, 2) { "s" } else { "S" }, len)); }
            if r.chance(2, 3) {
                let l = len as u64;
                let m = match r.below(9) {
                    0 => 0,
                    1 => r.range(0, 200),
                    2 => l / 2,
                    3 => l >> r.range(1, 12),
                    4 => l.saturating_sub(1),
                    5 => l + 1,
                    6 => 192u64 << r.range(0, 20),
                    7 => (192u64 << 30) + r.range(1, 1000),
                    _ => l,
                };
                toks.push(format!("s:{}", m));
            }
        }
        chunked(r, &data[pos..], &mut toks, true);
        if declare_at == ncuts && r.chance(1, 2) { toks.push(format!("s:{}", len)); }
        toks.push("f".into());
        emit(&format!("gen {}", toks.join(" ")));
    }
    // 4. first phases that eliminate levels / activate the last hash, then reset, then a hint
    for _ in 0..(if thorough { 300 } else { 60 }) {
        let lvl = r.range(8, 30) as usize;
        let w = word(lvl, r);
        let reps = r.range(64, 140);
        let zeros = match r.below(3) { 0 => 0u64, 1 => (192u64 << r.range(1, lvl as u64)) + r.below(50), _ => 192u64 << lvl };
        let mut toks = vec![format!("z:{}", zeros), format!("pu:{}:{}", hexenc(&w), reps), "f".into(), "r".into()];
        let len2 = r.range(0, 3000) as usize;
        let d2 = rand_payload(r, len2);
        match r.below(3) { 0 => toks.push(format!("s:{}", len2)), 1 => toks.push(format!("s:{}", r.range(0, 100000))), _ => {} }
        chunked(r, &d2, &mut toks, true);
        toks.push("f".into());
        emit(&format!("gen {}", toks.join(" ")));
    }
    // 4b. reset after a first history that leaves little trace: a size declared (any magnitude) with no or
    //     tiny data (no piece boundary), possibly finalised / refused; after `reset` the second history
    //     declares nothing (or only at the end) and is large enough to need contexts above whatever fork
    //     limit the first declaration set (round-3 seeded change C12: reset kept the declared fork limit)
    for _ in 0..(if thorough { 600 } else { 120 }) {
        let mut toks: Vec<String> = vec![];
        let d = match r.below(7) { 0 => 0, 1 => r.range(1, 191), 2 => r.range(192, 400), 3 => 192u64 << r.range(0, 12), 4 => r.range(0, 100000), 5 => 192u64 << 30, _ => r.range(1, 20) };
        let pre = match r.below(4) { 0 => vec![], 1 => b"0000X".to_vec(), 2 => vec![0u8; r.range(0, 30) as usize], _ => { let pl = r.range(0, 12) as usize; rand_payload(r, pl) } };
        match r.below(3) {
            0 => { toks.push(format!("s:{}", d)); chunked(r, &pre, &mut toks, false); }
            1 => { chunked(r, &pre, &mut toks, false); toks.push(format!("s:{}", d)); }
            _ => { toks.push(format!("S:{}", d)); }
        }
        if r.chance(1, 3) { toks.push("f".into()); }
        if r.chance(1, 4) { toks.push(format!("s:{}", r.range(0, 1000))); }
        toks.push("r".into());
        let len2 = match r.below(3) { 0 => r.range(193, 1500), 1 => r.range(1000, 8000), _ => r.range(193, 40000) } as usize;
        let d2 = rand_payload(r, len2);
        let fin2 = r.chance(1, 2);
        chunked(r, &d2, &mut toks, fin2);
        if r.chance(1, 4) { toks.push(format!("s:{}", len2)); }
        toks.push("f".into());
        emit(&format!("gen {}", toks.join(" ")));
    }
    // 4c. clone_from into used generators: park a copy early (few pieces), run the generator far ahead
    //     (block hashes filled, levels eliminated), restore from the parked copy and continue; also park
    //     late / restore into a fresh or reset generator (round-5 seeded change C03 m2: a hand-written
    //     clone_from copying only the used prefix of each block hash)
    for i in 0..(if thorough { 800 } else { 150 }) {
        let mut toks: Vec<String> = vec![];
        let l1 = match r.below(3) { 0 => 0, 1 => r.range(1, 200), _ => r.range(200, 3000) } as usize;
        let l2 = r.range(500, 20000) as usize;
        let l3 = r.range(0, 3000) as usize;
        let (d1, d2, d3) = (rand_payload(r, l1), rand_payload(r, l2), rand_payload(r, l3));
        if i % 5 == 0 { toks.push(format!("s:{}", l1 + l3)); }
        chunked(r, &d1, &mut toks, false);
        toks.push("p".into());
        if i % 7 == 0 { toks.push("f".into()); }
        chunked(r, &d2, &mut toks, false);
        if i % 4 == 0 { toks.push("f".into()); }
        match i % 6 { 0 => { toks.push("r".into()); toks.push("q".into()); } 1 => { toks.push("p".into()); toks.push("r".into()); toks.push("q".into()); } _ => toks.push("q".into()) }
        toks.push("f".into());
        chunked(r, &d3, &mut toks, false);
        toks.push("f".into());
        if i % 3 == 0 { toks.push("q".into()); toks.push("f".into()); }
        emit(&format!("gen {}", toks.join(" ")));
    }
    // hash_buf
    for _ in 0..(if thorough { 2000 } else { 300 }) {
        let len = match r.below(4) { 0 => r.range(0, 200), 1 => r.range(4090, 4100), _ => r.range(0, maxlen) } as usize;
        emit(&format!("hb {}", hexenc(&rand_payload(r, len))));
    }
}

// ---------------------------------------------------------------------------------------------
// stream (C18)
// ---------------------------------------------------------------------------------------------

fn gen_stream(thorough: bool, r: &mut Rng, emit: Emit) {
    let n = if thorough { 3000 } else { 400 };
    for _ in 0..n {
        let len = match r.below(5) { 0 => 0, 1 => r.range(1, 50), 2 => r.range(32700, 32900), 3 => r.range(65500, 65600), _ => r.range(0, 100000) } as usize;
        let data = rand_payload(r, len);
        let nsz = r.range(0, 30);
        let sizes: Vec<String> = (0..nsz).map(|_| match r.below(6) { 0 => 1u64, 1 => 32768, 2 => 40000, 3 => r.range(1, 100), 4 => if r.chance(1, 6) { 0 } else { 7 }, _ => r.range(1, 40000) }.to_string()).collect();
        let sz = if sizes.is_empty() { "-".to_string() } else { sizes.join(",") };
        // every interesting fault position (a byte offset): before the first byte, inside, around
        // multiples of 32 KiB, after the last byte (the read that would report end-of-stream), beyond
        let l = len as u64;
        let fail = match r.below(3) { 0 => "-".to_string(), _ => format!("{}:{}", match r.below(9) {
            0 => 0, 1 => l, 2 => l.saturating_sub(1), 3 => l + 1 + r.below(10), 4 => 32768 * r.range(1, 3), 5 => 32768 * r.range(1, 3) - 1,
            6 => 32768 * r.range(1, 3) + 1, 7 => r.range(0, 40), _ => r.range(0, l.max(1)) }, r.below(8)) };
        emit(&format!("stream {} {} {}", hexenc(&data), sz, fail));
    }
    // a fault at every piece boundary of one scripted reader, and one byte to either side
    let data = rand_payload(r, 70000);
    for f in [0u64, 1, 2, 3, 4, 32770, 32771, 32772, 65538, 65539, 65540, 65638, 65639, 65640, 69999, 70000, 70001] {
        for k in [0u64, 5, 7] { emit(&format!("stream {} 1,2,32768,32768,100,5000 {}:{}", hexenc(&data), f, k)); }
    }
    // files
    for len in [0usize, 1, 100, 4096, 4097, 32768, 32769, 70000] {
        let d = rand_payload(r, len);
        emit(&format!("file {} {}", len, hexenc(&d)));
    }
    for p in PROCFS_CANDIDATES {
        if let (Ok(md), Ok(c)) = (std::fs::metadata(p), std::fs::read(p)) {
            if c.len() < 60000 { emit(&format!("file {} {}", md.len(), hexenc(&c))); }
        }
    }
    emit("file missing");
    emit("file dir");
}

// ---------------------------------------------------------------------------------------------
// ops (C11, C15)
// ---------------------------------------------------------------------------------------------

const CVS: [&str; 30] = [
    "R>N", "LR>LN", "N>R", "N>R!", "LN>LR", "LN>LR!", "R>LR", "R>LR!", "N>LN", "N>LN!", "N>LR",
    "LR>R?", "LR>R?!", "LN>N?", "LN>N?!", "R>D", "R>D!", "LR>LD", "LR>LD!", "N>D", "LN>LD",
    "D>R", "D>R!", "LD>LR", "LD>LR!", "D>N", "LD>LN", "R>N", "N>LN!", "LR>R?!",
];

fn gen_ops(thorough: bool, r: &mut Rng, emit: Emit) {
    let n = if thorough { 20000 } else { 1500 };
    for _ in 0..n {
        let steps = r.range(3, 25);
        let mut toks: Vec<String> = Vec::new();
        for _ in 0..steps {
            match r.below(20) {
                0 | 1 | 2 | 3 => {
                    let ty = *r.pick(&TYPES);
                    let (k, b1, b2) = if ty.ends_with('D') { rand_obj(r, if ty == "D" { "R" } else { "LR" }) } else { rand_obj(r, ty) };
                    toks.push(format!("new:{}:{}:{}:{}", ty, k, hexenc(&b1), hexenc(&b2)));
                }
                4 => {
                    // out-of-contract constructor arguments
                    let ty = *r.pick(&TYPES);
                    let bad = match r.below(5) {
                        0 => format!("new:{}:{}:{}:-", ty, r.range(31, 255), hexenc(&rand_bh(r, 10))),
                        1 => format!("new:{}:3:{}:-", ty, hexenc(&[1, 2, r.range(64, 255) as u8])),
                        2 => format!("new:{}:3:-:{}", ty, hexenc(&vec![5u8; 65])),
                        3 => format!("newbs:{}:{}:{}:-", ty, r.range(0, 100), hexenc(&rand_bh(r, 10))),
                        _ => format!("newbs:{}:3:{}:{}", ty, hexenc(&[r.range(64, 255) as u8]), hexenc(&[1, 1, 1, 1, 1])),
                    };
                    toks.push(bad);
                }
                5 => {
                    let ty = *r.pick(&TYPES);
                    let (k, b1, b2) = if ty.ends_with('D') { rand_obj(r, if ty == "D" { "R" } else { "LR" }) } else { rand_obj(r, ty) };
                    toks.push(format!("newbs:{}:{}:{}:{}", ty, 3u64 << k, hexenc(&b1), hexenc(&b2)));
                }
                6 => {
                    let ty = *r.pick(&TYPES);
                    let t = if r.chance(4, 5) { let o = rand_obj(r, "LR"); text_of(o.0, &o.1, &o.2) } else { rand_hash_text(r) };
                    toks.push(format!("parse:{}:{}", ty, hexenc(&t)));
                }
                7 => {
                    let ty = if r.chance(1, 2) { "R" } else { "LR" };
                    let gl = r.range(0, 3000) as usize;
                    toks.push(format!("gen:{}:{}", ty, hexenc(&rand_payload(r, gl))));
                }
                8 => {
                    // init_from_internals_raw with whole arrays (dirty tails, wrong lengths, non-normalised)
                    let ty = *r.pick(&PLAIN);
                    let cap2 = cap2_of(ty);
                    let (k, b1, b2) = rand_obj(r, ty);
                    let mut a1 = b1.clone(); a1.resize(64, 0);
                    let mut a2 = b2.clone(); a2.resize(cap2, 0);
                    let (mut l1, mut l2) = (b1.len() as u64, b2.len() as u64);
                    match r.below(6) {
                        0 => { if b1.len() < 64 { a1[63] = 1; } }
                        1 => { l1 = r.range(0, 80); }
                        2 => { l2 = r.range(0, 80); }
                        3 => { if !a2.is_empty() { a2[cap2 - 1] = 7; } }
                        _ => {}
                    }
                    toks.push(format!("init:{}:{}:{}:{}:{}:{}", ty, if r.chance(1, 10) { 31 } else { k }, hexenc(&a1), hexenc(&a2), l1, l2));
                }
                9 => toks.push(format!("norm:{}", r.pick(&TYPES))),
                10 => toks.push(format!("{}:{}", if r.chance(1, 2) { "tgt" } else { "tgtnew" }, r.pick(&["N", "LN", "D", "LD"]))),
                11 => {
                    let mut s = rand_bh(r, 64);
                    if r.chance(1, 20) { s.push(64); }
                    if r.chance(1, 12) { let l = *r.pick(&[65usize, 66, 100, 128, 129, 256, 320]); let mut base = rand_norm_bh(r, 64); if base.is_empty() { base = vec![1, 2, 3]; } s = (0..l).map(|i| base[i % base.len()]).collect(); }
                    toks.push(format!("pa:{}", hexenc(&s)));
                }
                12 => toks.push("pac".into()),
                _ => toks.push(format!("cv:{}", r.pick(&CVS))),
            }
        }
        emit(&format!("ops {}", toks.join(" ")));
    }
    // conversion chains starting from one valid hash of every variant (C15)
    for _ in 0..n {
        let ty = *r.pick(&TYPES);
        let (k, b1, b2) = if ty.ends_with('D') { rand_obj(r, if ty == "D" { "R" } else { "LR" }) } else { rand_obj(r, ty) };
        let mut toks = vec![];
        // dirty destinations first
        for d in TYPES { if r.chance(1, 2) { let o = if d.ends_with('D') { rand_obj(r, if d == "D" { "R" } else { "LR" }) } else { rand_obj(r, d) }; toks.push(format!("new:{}:{}:{}:{}", d, o.0, hexenc(&o.1), hexenc(&o.2))); } }
        toks.push(format!("new:{}:{}:{}:{}", ty, k, hexenc(&b1), hexenc(&b2)));
        for _ in 0..r.range(1, 6) { toks.push(format!("cv:{}", r.pick(&CVS))); }
        emit(&format!("ops {}", toks.join(" ")));
    }
}

// ---------------------------------------------------------------------------------------------

pub fn families() -> &'static [&'static str] {
    &["prim", "bs", "parse", "fmt", "norm", "dual", "ord", "posarr", "target", "cmp", "win", "gen", "stream", "ops"]
}

pub fn generate(family: &str, thorough: bool, seed: u64, emit: Emit) {
    // one PRNG per (family, seed)
    let fam_no = families().iter().position(|f| *f == family).unwrap_or(99) as u64;
    let mut r = Rng::new(seed.wrapping_mul(1000003).wrapping_add(fam_no));
    // re-validate the adversarial word table against the real rolling hash
    for (lvl, w) in WORDS.iter() {
        let mut h = RollingHash::new();
        h.update(w);
        let v = h.value().wrapping_add(1);
        assert!(v != 0 && v % 3 == 0 && ((v / 3).trailing_zeros() as usize) == *lvl, "word table entry invalid");
    }
    for w in MAXWORDS.iter() {
        let mut h = RollingHash::new();
        h.update(w);
        assert!(h.value() == u32::MAX, "max-word table entry invalid");
    }
    for (horg, w) in EDGEWORDS.iter() {
        let mut h = RollingHash::new();
        h.update(w);
        assert!(h.value().wrapping_add(1) == *horg, "edge-word table entry invalid");
    }
    match family {
        "prim" => gen_prim(thorough, &mut r, emit),
        "bs" => gen_bs(thorough, &mut r, emit),
        "parse" => gen_parse(thorough, &mut r, emit),
        "fmt" => gen_fmt(thorough, &mut r, emit),
        "norm" => { gen_runs(thorough, &mut r, "norm", emit); gen_normx(thorough, &mut r, emit); }
        "dual" => { gen_runs(thorough, &mut r, "dual", emit); gen_dual2(thorough, &mut r, emit); }
        "ord" => gen_ord(thorough, &mut r, emit),
        "posarr" => gen_posarr(thorough, &mut r, emit),
        "target" => gen_target(thorough, &mut r, emit),
        "cmp" => gen_cmp(thorough, &mut r, emit),
        "win" => gen_win(thorough, &mut r, emit),
        "gen" => gen_gen(thorough, &mut r, emit),
        "stream" => gen_stream(thorough, &mut r, emit),
        "ops" => gen_ops(thorough, &mut r, emit),
        _ => { eprintln!("unknown family {}", family); std::process::exit(2); }
    }
}
