#!/bin/bash
# Build the framework from files on disk only (offline): Lean model/proofs/driver and the harness binaries.
set -e
cd "$(dirname "$0")"
export CARGO_NET_OFFLINE=true
mkdir -p .cache/tmp .cache/work .cache/bin
[ -f harness/Cargo.lock ] || cp /repo/Cargo.lock harness/Cargo.lock
python3 - <<'PY'
import sys, os
sys.path.insert(0, "tools")
import checklib as L
base = L.build_harness("default-debug")
L.regen_tables(base)
rc, out = L.lake_build(["FfuzzyModel", "ffdriver", "FfuzzyProofs"])
if rc != 0:
    print(out[-4000:]); sys.exit(1)
for c in L.PROPS["C14"]["configs_quick"]:
    L.build_harness(c)
print("setup ok")
PY
