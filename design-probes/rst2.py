import random, sys
sys.argv=['x','7','1']
from ctph import *
exec(open('rnd.py').read().split("bad=0; stats")[0])
def reset(g):
    g.size=0; g.fixed=None; g.border=192; g.st=0; g.en=1; g.lim=30; g.mask=0
    g.roll=Roll(); g.c[0].reset(); g.last=False
random.seed(5)
bad=0; diffst=0
for it in range(400):
    g=Gen()
    # life 1: many top words => all levels forked & full
    life1=[c for _ in range(random.randint(0,120)) for c in words[30]]+gen_input()
    g.update(life1)
    reset(g)
    bs=gen_input()
    hint=random.random()<0.7
    f=Gen()
    if hint: g.set_fixed(len(bs)); f.set_fixed(len(bs))
    g.update(bs); f.update(bs)
    exp=[txt(decl(bs,True,32)),txt(decl(bs,False,64)),txt(decl(bs,False,32))]
    r=[txt(g.finalize(True,32)),txt(g.finalize(False,64)),txt(g.finalize(False,32))]
    if r!=exp: bad+=1; print("MISMATCH",len(bs),r,exp)
    if g.st!=f.st: diffst+=1
print("bad",bad,"internal st differs from fresh in",diffst,"runs")
