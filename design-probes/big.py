from ctph import *
def zgen(n):
    g=Gen(); g.size=n; g.roll.i=n%7
    h=INIT
    for _ in range(n%16): h=fnv(h,0)
    g.c[0].hf=g.c[0].hh=h
    return g
last=list(b"`]]]_CT")*64
g=zgen(96*2**30-7*64); g.update(last)
print(txt(g.finalize(False,64))); print(txt(g.finalize(False,32))); print(txt(g.finalize(True,32)))
g.update([1])
print(txt(g.finalize(True,32)), txt(g.finalize(False,64)), g.st, g.en, g.last)
g=zgen(192*2**30-1); g.update([0,0]); print(txt(g.finalize(True,32)))
g=zgen(192*2**30-1); g.update([0]); print(txt(g.finalize(True,32)))
