#!/usr/bin/env python3
# Design-time sanity model: ffuzzy engine transliteration, naive 32-level engine, declarative CTPH.
import sys, os, random
B64="ABCDEFGHIJKLMNOPQRSTUVWXYZabcdefghijklmnopqrstuvwxyz0123456789+/"
M32=0xffffffff
INIT=0x27
def fnv(h,c): return ((h*0x01000193)^c)&63
NIL=0xff
class Roll:
    def __init__(s): s.w=[0]*7; s.i=0; s.h1=s.h2=s.h3=0
    def upd(s,c):
        s.h2=(s.h2-s.h1)&M32; s.h2=(s.h2+7*c)&M32
        s.h1=(s.h1+c)&M32; s.h1=(s.h1-s.w[s.i])&M32
        s.w[s.i]=c; s.i=(s.i+1)%7
        s.h3=((s.h3<<5)&M32)^c
    def val(s): return (s.h1+s.h2+s.h3)&M32
class Ctx:
    def __init__(s): s.idx=0; s.d=[NIL]*64; s.chh=NIL; s.hf=INIT; s.hh=INIT
    def reset(s): s.idx=0; s.d[63]=NIL; s.chh=NIL; s.hf=INIT; s.hh=INIT
def glog(size,start):
    if size<=192: return start
    hs=(size-1)//192
    return max(start, hs.bit_length()-1+1)
class Gen:
    def __init__(s):
        s.size=0; s.fixed=None; s.border=192; s.st=0; s.en=1; s.lim=30; s.mask=0
        s.roll=Roll(); s.c=[Ctx() for _ in range(31)]; s.hl=INIT; s.last=False
    def set_fixed(s,n):
        if n>192<<30: return 'TooLarge'
        if s.fixed is not None and s.fixed!=n: return 'Mismatch'
        s.fixed=n; s.lim=min(30,glog(n,0)+1); return 'Ok'
    def step(s,ch):
        s.roll.upd(ch)
        if s.last: s.hl=fnv(s.hl,ch)
        for i in range(s.st,s.en):
            s.c[i].hf=fnv(s.c[i].hf,ch); s.c[i].hh=fnv(s.c[i].hh,ch)
        horg=(s.roll.val()+1)&M32
        h=horg//3
        if horg==0: return
        if h&s.mask: return
        if horg%3: return
        h>>=s.st
        i=s.st
        while True:
            c=s.c[i]
            if c.idx==0:
                if s.en>s.lim:
                    if s.lim==30 and not s.last:
                        s.hl=c.hf; s.last=True
                else:
                    n=s.c[i+1]; n.reset(); n.hf=c.hf; n.hh=c.hh; s.en+=1
            c.d[c.idx]=c.hf; c.chh=c.hh
            if c.idx<63:
                c.idx+=1; c.hf=INIT
                if c.idx<32: c.chh=NIL; c.hh=INIT
            elif s.en-s.st>=2 and s.border<(s.fixed if s.fixed is not None else s.size) and s.c[i+1].idx>=32:
                s.st+=1; s.mask=(s.mask*2+1)&M32; s.border=(s.border*2)&((1<<64)-1)
            if h&1: break
            h>>=1
            i+=1
            if i>=s.en: break
    def update(s,buf):
        s.size+=len(buf)
        for ch in buf: s.step(ch)
    def update_iter(s,buf):
        for ch in buf:
            s.size+=1; s.step(ch)
    def finalize(s,trunc,S2):
        if s.fixed is not None and s.fixed!=s.size: return 'Mismatch'
        if s.size>192<<30: return 'TooLarge'
        k=glog(s.size,s.st); k=min(k,s.en-1)
        while k>s.st and s.c[k].idx<32: k-=1
        rv=s.roll.val()
        b0=s.c[k]
        sz=b0.idx
        if b0.d[63]!=NIL: sz+=1
        bh1=b0.d[:sz]
        if rv!=0:
            if sz==64: bh1[63]=b0.hf
            else: bh1.append(b0.hf)
        if k<s.en-1:
            b1=s.c[k+1]
            if trunc:
                sz=b1.idx
                if b1.chh!=NIL:
                    assert sz>=32
                    bh2=b1.d[:31]+[b1.hh if rv!=0 else b1.chh]
                else:
                    bh2=b1.d[:sz]
                    if rv!=0: bh2.append(b1.hh)
            else:
                sz=b1.idx
                if b1.d[63]!=NIL: sz+=1
                if S2==32 and sz>32: return 'Overflow'
                bh2=b1.d[:sz]
                if rv!=0:
                    if S2==32:
                        if sz>=32: return 'Overflow'
                        bh2.append(b1.hf)
                    else:
                        if sz==64: bh2[63]=b1.hf
                        else: bh2.append(b1.hf)
        elif rv!=0:
            assert k==0 or k==30,(k,s.st,s.en)
            bh2=[b0.hf] if k==0 else [s.hl]
        else: bh2=[]
        return (k,bh1,bh2)
def txt(r):
    if isinstance(r,str): return r
    k,a,b=r
    return "%d:%s:%s"%(3<<k,''.join(B64[x] for x in a),''.join(B64[x] for x in b))

# ---- declarative spec
def rollvals(bs):
    r=Roll(); out=[]
    for c in bs: r.upd(c); out.append(r.val())
    return out
def fnvs(bs,lo,hi):
    h=INIT
    for c in bs[lo:hi]: h=fnv(h,c)
    return h
def decl_level(bs,rv,k,cap):
    """digest of level k with piece cap `cap` (64 full / 32 half): returns (stored list incl. merged last, tail char or None, count of cuts)"""
    bsz=3<<k
    cuts=[t+1 for t,v in enumerate(rv) if v%bsz==bsz-1]
    n=len(bs)
    out=[]
    prev=0
    for j,c in enumerate(cuts[:cap-1]):
        out.append(fnvs(bs,prev,c)); prev=c
    if len(cuts)>=cap:
        out.append(fnvs(bs,prev,cuts[-1]))   # merged last piece: from (cap-1)th cut to the last cut
    tail=fnvs(bs,prev,n)                        # since last reset
    return out,tail,len(cuts)
def decl(bs,trunc,S2):
    n=len(bs)
    if n>192<<30: return 'TooLarge'
    rv=rollvals(bs)
    final=rv[-1] if rv else 0
    g=glog(n,0)
    k=min(g,30)
    while k>0 and min(decl_level(bs,rv,k,64)[2],63)<32: k-=1
    d,t,_=decl_level(bs,rv,k,64)
    bh1=list(d)
    if final!=0:
        if len(bh1)==64: bh1[63]=t
        else: bh1.append(t)
    # bh2 from level k+1 (level 31 never cuts)
    if trunc:
        d,t,_=decl_level(bs,rv,k+1,32) if k+1<=30 else ([],fnvs(bs,0,n),0)
        bh2=list(d)
        if final!=0:
            if len(bh2)==32: bh2[31]=t
            else: bh2.append(t)
    else:
        d,t,_=decl_level(bs,rv,k+1,64) if k+1<=30 else ([],fnvs(bs,0,n),0)
        bh2=list(d)
        if final!=0:
            if len(bh2)==64: bh2[63]=t
            else: bh2.append(t)
        if S2==32 and len(bh2)>32: return 'Overflow'
    return (k,bh1,bh2)

if __name__=="__main__":
    root="/repo/ffuzzy/"
    ok=bad=0
    for line in open(root+"data/testsuite/generate-small.ssdeep.txt"):
        line=line.strip()
        if not line or line.startswith('#'): continue
        fn,flags,exp=line.split()
        flags=int(flags)
        if flags&4: continue   # normalized expectation
        bs=open(root+fn,'rb').read()
        for (fl,trunc,S2) in ((1,True,32),(2,False,64)):
            if not flags&fl: continue
            g=Gen(); g.update(bs); a=txt(g.finalize(trunc,S2)); d=txt(decl(bs,trunc,S2))
            if a==exp and d==exp: ok+=1
            else:
                bad+=1; print("MISMATCH",fn,flags,exp,a,d)
    print("vectors ok",ok,"bad",bad)
