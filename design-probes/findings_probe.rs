use ssdeep::*;
use std::panic;
fn main() {
    // F1: dual parser with raw-too-long but normalized-ok block hash
    for n in [64usize, 65, 66, 67, 68, 70, 100] {
        let s = format!("3:{}:", "A".repeat(n));
        let r = panic::catch_unwind(|| {
            let d = DualFuzzyHash::from_bytes(s.as_bytes());
            match d {
                Ok(d) => format!("Ok valid={}", d.is_valid()),
                Err(e) => format!("Err {:?}", e),
            }
        });
        let raw = RawFuzzyHash::from_bytes(s.as_bytes()).map(|h| h.is_valid());
        let nrm = FuzzyHash::from_bytes(s.as_bytes()).map(|h| h.is_valid());
        println!("n={} dual={:?} raw={:?} norm={:?}", n, r, raw, nrm);
    }
    // bh2 for short dual
    for n in [32usize, 33, 35, 36] {
        let s = format!("3::{}", "A".repeat(n));
        let r = panic::catch_unwind(|| {
            let d = DualFuzzyHash::from_bytes(s.as_bytes());
            match d {
                Ok(d) => format!("Ok valid={}", d.is_valid()),
                Err(e) => format!("Err {:?}", e),
            }
        });
        println!("bh2 n={} dual={:?}", n, r);
    }
    // mixed: 61 distinct + 4 A's = 65 raw, norm 64
    // F2: new_from_internals with invalid symbol
    let r = panic::catch_unwind(|| {
        let h = RawFuzzyHash::new_from_internals(3, &[100u8], &[]);
        format!("returned valid={}", h.is_valid())
    });
    println!("F2 raw new_from_internals sym=100: {:?}", r);
    let r = panic::catch_unwind(|| {
        let h = FuzzyHash::new_from_internals(3, &[1u8,1,1,1,1], &[]);
        format!("returned valid={}", h.is_valid())
    });
    println!("F2 norm new_from_internals run5: {:?}", r);
    let r = panic::catch_unwind(|| {
        let h = FuzzyHash::new_from_internals_near_raw(0, &[1u8,1,1,1,1], &[]);
        format!("returned valid={}", h.is_valid())
    });
    println!("near_raw norm run5: {:?}", r);
}
