import random, sys
from ctph import *
random.seed(int(sys.argv[1]) if len(sys.argv)>1 else 1)
def rollof(w):
    r=Roll()
    for c in w: r.upd(c)
    return r.val()
# find words: exact level n (divisible by 3*2^n, not by 3*2^(n+1))
words={}
top=list(b"`]]]_CT")
v=(rollof(top)+1)&M32
print("top word horg",v, "div by 3<<30:", v%(3<<30)==0)
tries=0
while len(words)<14 and tries<3_000_000:
    tries+=1
    w=[random.randrange(256) for _ in range(7)]
    h=(rollof(w)+1)&M32
    if h==0 or h%3: continue
    h//=3
    n=0
    while h%2==0 and n<30: h//=2; n+=1
    if n not in words: words[n]=w
print("levels found",sorted(words))
words[30]=top
lv=sorted(words)
def gen_input():
    parts=[]
    style=random.random()
    nparts=random.randint(0,400)
    for _ in range(nparts):
        r=random.random()
        if r<0.55:
            n=random.choice(lv) if style<0.5 else random.choice(lv[-4:])
            parts.append(words[n])
        elif r<0.8: parts.append([random.randrange(256) for _ in range(random.randint(1,20))])
        elif r<0.9: parts.append([0]*random.randint(1,30))
        else: parts.append([random.randrange(4) for _ in range(random.randint(1,40))])
    return [c for p in parts for c in p]
bad=0; stats={'elim':0,'last':0,'full':0,'zero':0,'ovf':0}
for it in range(int(sys.argv[2]) if len(sys.argv)>2 else 300):
    bs=gen_input()
    if random.random()<0.15: bs=bs+[0]*7
    exp=[txt(decl(bs,True,32)),txt(decl(bs,False,64)),txt(decl(bs,False,32))]
    def fin(g): return [txt(g.finalize(True,32)),txt(g.finalize(False,64)),txt(g.finalize(False,32))]
    g1=Gen(); g1.update(bs)
    g2=Gen(); g2.update_iter(bs)
    g3=Gen(); 
    i=0
    while i<len(bs):
        j=min(len(bs),i+random.randint(1,50))
        (g3.update if random.random()<0.5 else g3.update_iter)(bs[i:j]); i=j
        if random.random()<0.1: g3.finalize(True,32)
    g4=Gen(); g4.set_fixed(len(bs)); g4.update(bs)
    g5=Gen(); k=random.randint(0,len(bs)); g5.update(bs[:k]); g5.set_fixed(len(bs)); g5.update_iter(bs[k:])
    for name,g in (('slice',g1),('iter',g2),('chunks',g3),('fixed',g4),('latefixed',g5)):
        r=fin(g)
        if r!=exp:
            bad+=1; print("MISMATCH",name,len(bs),r,exp); 
    stats['elim']+=g1.st; stats['last']+=g1.last; stats['full']+= any(c.d[63]!=NIL for c in g1.c[:g1.en]); stats['zero']+= (g1.roll.val()==0); stats['ovf']+= exp[2]=='Overflow'
print("bad",bad,stats)
