#!/bin/bash
# convenience: run every registered check (quick by default) and validate the evidence files
cd "$(dirname "$0")"
tier=${1:-quick}
rc=0
for i in $(seq -w 1 20); do
  ./check C$i --tier $tier 2>/dev/null | tail -4 || rc=1
done
python3-vt - <<'PY'
import json,jsonschema,glob
sch=json.load(open('/root/.vp/EVIDENCE.schema.json'))
bad=0
for f in sorted(glob.glob('/verif/evidence/C*.json')):
    try: jsonschema.validate(json.load(open(f)),sch)
    except Exception as e: print(f,'INVALID',str(e)[:200]); bad+=1
print('evidence files invalid:',bad)
PY
