#!/usr/bin/env python3
"""Regenerates /verif/MANIFEST.json from tools/theorems.json (levels, notes) — keeps both in sync."""
import json, os
V = os.path.dirname(os.path.dirname(os.path.abspath(__file__)))
reg = json.load(open(os.path.join(V, "tools", "theorems.json")))
hooks_commits = ["70994ca"]
checks = []
for pid in sorted(reg):
    r = reg[pid]
    checks.append({
        "property_id": pid,
        "quick_cmd": "./check %s --tier quick" % pid,
        "thorough_cmd": "./check %s --tier thorough" % pid,
        "evidence_file": "/verif/evidence/%s.json" % pid,
        "replay_cmd_template": "./check %s --replay {path}" % pid,
        "engine": "lean4-model+correspondence",
        "level_claimed": {"category": r["level"], "text": r["level_text"], "design_ref": r.get("design_ref", "DESIGN.md section 7 (%s)" % pid)},
        "level_note": r["level_note"],
        "technique": r["technique"],
    })
m = {
    "version": 1,
    "setup_cmd": "./setup.sh",
    "hooks": {
        "guard": "--cfg a4lg_ffuzzy_verif",
        "enable": "RUSTFLAGS=--cfg a4lg_ffuzzy_verif (set in /verif/harness/.cargo/config.toml; the harness has a path dependency on /repo/ffuzzy)",
        "baseline_off_cmd": "cd /repo && cargo nextest run --workspace --no-fail-fast --tool-config-file pb:/w/lib/nextest.toml --profile pb --test-threads 8 --offline || (cd /repo && cargo test --workspace --no-fail-fast --offline)",
        "source_commits": hooks_commits,
        "add_only": True,
    },
    "engines": [{
        "name": "lean4-model+correspondence",
        "path": "/verif/lean, /verif/harness, /verif/check",
        "serves_properties": sorted(reg),
        "kind_free_text": "Lean 4 model + theorems (kernel checked, axioms audited); hand-written model tied to the code by regenerated-table obligations and a line-protocol differential correspondence against the real crate; executable specs as run-time oracles",
    }],
    "checks": checks,
    "notes": "All 20 properties are decided with the Lean-4 machinery; `level_claimed.category` is `proof` only where every full-strength theorem of the property is discharged, otherwise `other` (see level text and DESIGN.md). Findings F1 (C04) and F2 (C11) were repaired in /repo by two `fix:` commits and are recorded in /verif/known-findings.txt.",
    "not_applicable": [],
}
json.dump(m, open(os.path.join(V, "MANIFEST.json"), "w"), indent=1)
print("MANIFEST.json written with", len(checks), "checks")
