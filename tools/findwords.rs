// One-off search tool (rustc -O tools/findwords.rs): 7-byte windows whose rolling hash plus one
// (`h_org`) is one of a set of boundary values — the largest / smallest multiples of 3*2^n, the
// values next to u32::MAX.  Output: Rust table lines for harness/src/words.rs (EDGEWORDS).
use std::collections::HashMap;
use std::sync::{Arc, Mutex};
use std::thread;

fn roll(w: &[u8; 7]) -> u32 {
    let mut h1: u32 = 0; let mut h2: u32 = 0; let mut h3: u32 = 0;
    for (i, &b) in w.iter().enumerate() {
        h1 = h1.wrapping_add(b as u32);
        h2 = h2.wrapping_add((i as u32 + 1).wrapping_mul(b as u32));
        h3 = (h3 << 5) ^ (b as u32);
    }
    h1.wrapping_add(h2).wrapping_add(h3)
}

fn main() {
    let mut targets: Vec<u32> = vec![0xFFFF_FFFF, 0xFFFF_FFFE, 0xFFFF_FFFD, 0xFFFF_FFFC, 1, 2];
    for n in 0..=30u32 {
        let m = 3u64 << n;
        targets.push(m as u32);
        targets.push(((0xFFFF_FFFFu64 / m) * m) as u32);
    }
    targets.sort(); targets.dedup();
    let want: HashMap<u32, ()> = targets.iter().map(|&t| (t, ())).collect();
    let want = Arc::new(want);
    let found: Arc<Mutex<HashMap<u32, Vec<[u8; 7]>>>> = Arc::new(Mutex::new(HashMap::new()));
    let mut hs = vec![];
    for t in 0..16u64 {
        let want = want.clone(); let found = found.clone();
        hs.push(thread::spawn(move || {
            // all seven bytes vary (the top bits of the value are fixed by the first three bytes)
            let mut x: u64 = 0x9E37_79B9_7F4A_7C15u64.wrapping_mul(t + 1) | 1;
            for _ in 0..2_500_000_000u64 {
                x ^= x << 13; x ^= x >> 7; x ^= x << 17;
                let b = x.to_le_bytes();
                let w = [b[0], b[1], b[2], b[3], b[4], b[5], b[6]];
                let h = roll(&w).wrapping_add(1);
                if want.contains_key(&h) {
                    let mut f = found.lock().unwrap();
                    let e = f.entry(h).or_insert_with(Vec::new);
                    if e.len() < 2 { e.push(w); }
                }
            }
        }));
    }
    for h in hs { h.join().unwrap(); }
    let f = found.lock().unwrap();
    let mut keys: Vec<&u32> = f.keys().collect(); keys.sort();
    println!("pub const EDGEWORDS: &[(u32, [u8; 7])] = &[");
    for k in keys { for w in &f[k] { println!("    (0x{:08X}, {:?}),", k, w); } }
    println!("];");
    let missing: Vec<String> = targets.iter().filter(|t| !f.contains_key(t)).map(|t| format!("0x{:08X}", t)).collect();
    eprintln!("missing: {:?}", missing);
}
