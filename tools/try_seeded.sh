#!/bin/bash
# usage: try_seeded.sh <Cxx> [extra check ids...]
# 1. confirm in the scratch worktree /tmp/mut/<id>: existing suite passes with the change, demo fails with it and passes without it
# 2. apply the patch to /repo, run the checks, undo
id=$1; shift
w=/tmp/mut/$id; o=/tmp/mut/out/$id
export CARGO_NET_OFFLINE=true
cd $w || exit 2
# make sure the worktree holds exactly the delivered patch
git checkout -q -- ffuzzy/src
git apply $o/patch.diff || { echo "delivered patch does not apply to the worktree"; exit 2; }
[ -f ffuzzy/tests/demo_$id.rs ] || cp $o/demo_$id.rs ffuzzy/tests/demo_$id.rs
echo "== with change: unit tests / doctests / demo"
cargo test --offline --lib 2>&1 | grep "test result" 
cargo test --offline --doc 2>&1 | grep "test result"
cargo test --offline --test demo_$id 2>&1 | grep "test result"
echo "== without change: demo"
# (no `git stash`: the stash is shared by all worktrees of the repository)
git diff -- ffuzzy/src > /tmp/mut/out/$id/.current.diff
git apply -R /tmp/mut/out/$id/.current.diff
cargo test --offline --test demo_$id 2>&1 | grep "test result"
git apply /tmp/mut/out/$id/.current.diff
echo "== checks against /repo with the patch applied"
git -C /repo apply $o/patch.diff || { echo "patch does not apply"; exit 2; }
cd /verif
for c in $id "$@"; do ./check $c 2>/dev/null | tail -4; done
git -C /repo checkout -- .
git -C /repo status --short | head -3
