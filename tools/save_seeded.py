#!/usr/bin/env python3
"""save_seeded.py <name> <property> <caught_by> <needs...>  — copies /tmp/mut/out/<name> into /verif/seeded/<name>"""
import sys, os, shutil, json
name, prop, caught = sys.argv[1], sys.argv[2], sys.argv[3]
needs = " ".join(sys.argv[4:])
src = "/tmp/mut/out/" + name
dst = "/verif/seeded/" + name
os.makedirs(dst, exist_ok=True)
for f in os.listdir(src):
    if f in ("property.txt",):
        continue
    shutil.copy(os.path.join(src, f), os.path.join(dst, f))
meta = {"property": prop, "needs_to_manifest": needs,
        "confirmed": "scratch worktree /tmp/mut/%s: cargo test --offline --lib (198 passed) and --doc pass with the change; demo test fails with the change and passes without it (tools/try_seeded.sh)" % name,
        "detected_by": caught,
        "ran": "tools/try_seeded.sh %s  (git -C /repo apply patch.diff; ./check ...; git -C /repo checkout -- .)" % name}
json.dump(meta, open(os.path.join(dst, "meta.json"), "w"), indent=1)
print("saved", dst, os.listdir(dst))
