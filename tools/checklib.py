#!/usr/bin/env python3
"""Orchestration of the ffuzzy verification checks (see /verif/DESIGN.md).

One entry point:  ./check <Cxx> [--tier quick|thorough] [--replay FILE]

Steps of a check: build the harness against /repo's working tree (hooks on), regenerate the
observed tables into the Lean project, build the Lean model / proofs / driver, audit the proofs,
run the correspondence families of the property (implementation vs model vs executable spec),
decide, write evidence, print VIOLATION / KNOWN-FINDING lines.
"""
import fcntl
import hashlib
import json
import os
import re
import subprocess
import sys
import time
from concurrent.futures import ThreadPoolExecutor

VERIF = os.path.dirname(os.path.dirname(os.path.abspath(__file__)))
CACHE = os.path.join(VERIF, ".cache")
LEAN = os.path.join(VERIF, "lean")
HARNESS = os.path.join(VERIF, "harness")
TARGET = os.path.join(CACHE, "target")
BIN = os.path.join(CACHE, "bin")
WORK = os.path.join(CACHE, "work")
DRIVER = os.path.join(LEAN, ".lake", "build", "bin", "ffdriver")
ALLOWED_AXIOMS = {"propext", "Classical.choice", "Quot.sound"}

ENV = dict(os.environ)
ENV["CARGO_NET_OFFLINE"] = "true"
ENV["VERIF_TMP"] = os.path.join(CACHE, "tmp")

# --------------------------------------------------------------------------------------------
# property table
# --------------------------------------------------------------------------------------------

# family -> list of op prefixes to keep (None = all)
PROPS = {
    "C01": {"families": {"gen": None}, "tables": False},
    "C02": {"families": {"cmp": None}, "tables": False},
    "C03": {"families": {"gen": None, "stream": ["stream"]}, "tables": False},
    "C04": {"families": {"parse": None}, "tables": True},
    "C05": {"families": {"fmt": None}, "tables": True},
    "C06": {"families": {"norm": None}, "tables": False},
    "C07": {"families": {"dual": None}, "tables": False},
    "C08": {"families": {"posarr": ["pa ed", "pah"], "target": None}, "tables": False},
    "C09": {"families": {"posarr": ["pa cs", "pah"], "target": None}, "tables": False},
    "C10": {"families": {"cmp": ["cmp "], "win": None}, "tables": False},
    "C11": {"families": {"ops": None}, "tables": False, "configs_quick": ["default-debug", "default-release"],
            "configs_thorough": ["default-debug", "default-release"]},
    "C12": {"families": {"gen": ["gen "]}, "tables": False},
    "C13": {"families": {"gen": ["gen "], "bs": ["bs const"]}, "tables": True},
    "C14": {"families": {f: None for f in ["prim", "bs", "parse", "fmt", "norm", "dual", "ord", "posarr", "target",
                                             "cmp", "win", "gen", "stream", "ops"]},
            "tables": False,
            "configs_quick": ["default-debug", "default-release", "unsafe-release", "unchecked-debug",
                              "reducefnv-debug", "unsafe+reducefnv-release", "strict-debug", "nodefault-debug"],
            "configs_thorough": ["default-debug", "default-release", "unsafe-debug", "unsafe-release",
                                 "unchecked-debug", "unchecked-release", "reducefnv-debug", "reducefnv-release",
                                 "unsafe+reducefnv-debug", "unsafe+reducefnv-release", "strict-debug",
                                 "strict-release", "nodefault-debug", "nodefault-release"]},
    "C15": {"families": {"ops": None}, "tables": False},
    "C16": {"families": {"ord": None, "dual": ["dual2"]}, "tables": False},
    "C17": {"families": {"target": None, "posarr": ["pah", "pa hs"]}, "tables": False},
    "C18": {"families": {"stream": None}, "tables": False},
    "C19": {"families": {"prim": None}, "tables": True},
    "C20": {"families": {"bs": None}, "tables": True},
}

CONFIGS = {
    "default": [],
    "unsafe": ["--features", "ff-unsafe"],
    "unchecked": ["--features", "ff-unchecked"],
    "reducefnv": ["--features", "ff-reduce-fnv"],
    "unsafe+reducefnv": ["--features", "ff-unsafe,ff-reduce-fnv"],
    "strict": ["--features", "ff-strict"],
    "nodefault": ["--no-default-features"],
}


def log(*a):
    print(*a, file=sys.stderr, flush=True)


def sha(path):
    h = hashlib.sha256()
    with open(path, "rb") as f:
        for b in iter(lambda: f.read(1 << 20), b""):
            h.update(b)
    return h.hexdigest()[:20]


class Lock:
    def __init__(self, name):
        os.makedirs(CACHE, exist_ok=True)
        self.path = os.path.join(CACHE, name + ".lock")

    def __enter__(self):
        self.f = open(self.path, "w")
        fcntl.flock(self.f, fcntl.LOCK_EX)
        return self

    def __exit__(self, *a):
        fcntl.flock(self.f, fcntl.LOCK_UN)
        self.f.close()


# --------------------------------------------------------------------------------------------
# building
# --------------------------------------------------------------------------------------------

def build_harness(config):
    """config = '<features>-<debug|release>'; returns path of the copied binary"""
    feat, prof = config.rsplit("-", 1)
    args = ["cargo", "build", "--offline", "--quiet"] + CONFIGS[feat] + (["--release"] if prof == "release" else [])
    out = os.path.join(BIN, config)
    with Lock("cargo"):
        lock = os.path.join(HARNESS, "Cargo.lock")
        if not os.path.exists(lock):
            import shutil
            shutil.copy("/repo/Cargo.lock", lock)
        t = time.time()
        r = subprocess.run(args, cwd=HARNESS, env=ENV, capture_output=True, text=True)
        if r.returncode != 0:
            raise BuildError("cargo build failed for %s:\n%s" % (config, r.stderr[-4000:]))
        src = os.path.join(TARGET, "release" if prof == "release" else "debug", "ffuzzy-verif-harness")
        os.makedirs(out, exist_ok=True)
        dst = os.path.join(out, "corr")
        if not os.path.exists(dst) or sha(dst) != sha(src):
            tmp = dst + ".tmp%d" % os.getpid()
            import shutil
            shutil.copy(src, tmp)
            os.replace(tmp, dst)
        log("[build] harness %s (%.1fs)" % (config, time.time() - t))
    return os.path.join(out, "corr")


class BuildError(Exception):
    pass


def regen_tables(corr):
    out = subprocess.run([corr, "tables"], capture_output=True, text=True, env=ENV)
    if out.returncode != 0:
        raise BuildError("table dump failed: " + out.stderr[-2000:])
    path = os.path.join(LEAN, "FfuzzyModel", "Generated", "Tables.lean")
    old = open(path).read() if os.path.exists(path) else None
    if old != out.stdout:
        with open(path, "w") as f:
            f.write(out.stdout)
        log("[tables] regenerated (content changed)")
    return out.stdout


def lake_build(targets):
    with Lock("lake"):
        t = time.time()
        r = subprocess.run(["lake", "build"] + targets, cwd=LEAN, env=ENV, capture_output=True, text=True)
        log("[build] lake %s (%.1fs) rc=%d" % (" ".join(targets), time.time() - t, r.returncode))
        return r.returncode, r.stdout + r.stderr


def load_theorems():
    with open(os.path.join(VERIF, "tools", "theorems.json")) as f:
        return json.load(f)


def source_audit():
    """textual audit of the Lean sources: forbidden constructs outside comments"""
    bad = []
    pat = re.compile(r"\bsorry\b|\badmit\b|^\s*axiom\s|native_decide|bv_decide|implemented_by|\bunsafe\s|maxHeartbeats\s+0")
    for root, _, files in os.walk(LEAN):
        if ".lake" in root:
            continue
        for fn in files:
            if not fn.endswith(".lean"):
                continue
            p = os.path.join(root, fn)
            txt = open(p).read()
            # strip block and line comments
            txt = re.sub(r"/-.*?-/", lambda m: "\n" * m.group(0).count("\n"), txt, flags=re.S)
            for i, line in enumerate(txt.split("\n")):
                line = line.split("--")[0]
                if pat.search(line):
                    bad.append("%s:%d: %s" % (os.path.relpath(p, VERIF), i + 1, line.strip()[:120]))
    return bad


def axiom_audit(theorems):
    """returns {theorem: [axioms]} for theorems that exist; missing theorems are absent"""
    if not theorems:
        return {}, ""
    os.makedirs(WORK, exist_ok=True)
    path = os.path.join(WORK, "Audit_%d.lean" % os.getpid())
    with open(path, "w") as f:
        f.write("import FfuzzyProofs\n")
        for t in theorems:
            f.write("#print axioms %s\n" % t)
    r = subprocess.run(["lake", "env", "lean", path], cwd=LEAN, env=ENV, capture_output=True, text=True)
    os.unlink(path)
    res = {}
    txt = r.stdout + r.stderr
    for m in re.finditer(r"'([^']+)' depends on axioms: \[([^\]]*)\]", txt, flags=re.S):
        res[m.group(1)] = [a.strip() for a in m.group(2).replace("\n", " ").split(",") if a.strip()]
    for m in re.finditer(r"'([^']+)' does not depend on any axioms", txt):
        res[m.group(1)] = []
    return res, txt


def modules_of(theorems):
    """Lean modules (under FfuzzyProofs) that declare the given theorems"""
    mods = set()
    root = os.path.join(LEAN, "FfuzzyProofs")
    files = []
    for d, _, fs in os.walk(root):
        for f in fs:
            if f.endswith(".lean"):
                files.append(os.path.join(d, f))
    texts = {f: open(f).read() for f in files}
    for t in theorems:
        last = t.split(".")[-1]
        for f, txt in texts.items():
            if re.search(r"^theorem\s+%s\b" % re.escape(last), txt, flags=re.M):
                rel = os.path.relpath(f, LEAN)[:-5].replace(os.sep, ".")
                mods.add(rel)
    return sorted(mods)


def leanchecker(mods):
    """independent re-check of the compiled modules; returns (ok, text)"""
    bad = []
    for m in mods:
        r = subprocess.run(["lake", "env", "leanchecker", m], cwd=LEAN, env=ENV, capture_output=True, text=True)
        if r.returncode != 0:
            bad.append("%s: %s" % (m, (r.stdout + r.stderr)[-500:]))
    return (not bad), "\n".join(bad)


# --------------------------------------------------------------------------------------------
# correspondence
# --------------------------------------------------------------------------------------------

def gen_ops(corr, family, tier, seed):
    r = subprocess.run([corr, "gen", family, tier, str(seed)], capture_output=True, env=ENV)
    if r.returncode != 0:
        raise BuildError("op generation failed for %s: %s" % (family, r.stderr.decode()[-2000:]))
    lines = [l for l in r.stdout.decode().split("\n") if l]
    corpus = os.path.join(VERIF, "corpus", family + ".ops")
    if os.path.exists(corpus):
        pre = [l for l in open(corpus).read().split("\n") if l and not l.startswith("#")]
        lines = pre + lines
    return lines


def run_exec(corr, lines):
    r = subprocess.run([corr, "exec"], input=("\n".join(lines) + "\n").encode(), capture_output=True, env=ENV)
    out = r.stdout.decode(errors="replace").split("\n")
    if out and out[-1] == "":
        out.pop()
    if r.returncode != 0 or len(out) != len(lines):
        # the process died (abort / UB): report the first line without a result
        return out + ["CRASHED"] * (len(lines) - len(out))
    return out


def run_driver(lines, strict=False, shards=12):
    if not lines:
        return []
    n = max(1, min(shards, len(lines) // 50 + 1))
    # balance shards by byte size (round robin over lines sorted by length)
    idx = sorted(range(len(lines)), key=lambda i: -len(lines[i]))
    parts = [[] for _ in range(n)]
    for j, i in enumerate(idx):
        parts[j % n].append(i)
    results = [None] * len(lines)

    def work(part):
        inp = ("cfg strict=%d debug=1\n" % (1 if strict else 0)) + "\n".join(lines[i] for i in part) + "\n"
        r = subprocess.run([DRIVER], input=inp.encode(), capture_output=True)
        out = r.stdout.decode(errors="replace").split("\n")[1:]
        if out and out[-1] == "":
            out.pop()
        if r.returncode != 0 or len(out) != len(part):
            raise BuildError("model driver failed (rc=%d, %d/%d lines): %s" % (r.returncode, len(out), len(part), r.stderr.decode()[-500:]))
        return part, out

    with ThreadPoolExecutor(max_workers=n) as ex:
        for part, out in ex.map(work, parts):
            for i, o in zip(part, out):
                results[i] = o
    return results


def tokmatch(spec, actual):
    """spec is a prefix pattern over space separated tokens, '*' matches any token"""
    if spec in ("-", "*", ""):
        return True
    st = spec.split(" ")
    at = actual.split(" ")
    if len(st) > len(at):
        return False
    return all(a == "*" or a == b for a, b in zip(st, at))


def spec_silent_on_diff(spec, impl, model):
    """True when every token on which implementation and model differ is one the executable
    specification says nothing about ('*' or beyond the spec's prefix): then the (proved) model is the
    only reference for the difference and the op is a failing input for it."""
    st, it, mt = spec.split(" "), impl.split(" "), model.split(" ")
    n = max(len(it), len(mt))
    for i in range(n):
        a = it[i] if i < len(it) else None
        b = mt[i] if i < len(mt) else None
        if a != b:
            if i < len(st) and st[i] != "*":
                return False
    return True


ORACLE_BAD = re.compile(r"DISAGREE|INCONSISTENT|DISTURBED|DBGPANIC|CRASHED|PANIC-UNCAUGHT|LEN-MISMATCH|FORMS")


def impl_oracle_failure(op, impl):
    """property-level oracles evaluated on the implementation's own output (model independent)"""
    if ORACLE_BAD.search(impl):
        return "implementation output is internally inconsistent: " + ORACLE_BAD.search(impl).group(0)
    fam = op.split(" ", 1)[0]
    if fam == "ops":
        # every object a safe operation yields passes its validity check (C11)
        for tok in impl.split(" "):
            m = re.match(r"^(R|LR|N|LN)=[^|]*\|(\d)", tok)
            if m and m.group(2) == "0":
                return "invalid object after a safe operation: " + tok
            m = re.match(r"^(D|LD)=[^|]*\|[^|]*\|(\d)\|", tok)
            if m and m.group(2) == "0":
                return "invalid dual object after a safe operation: " + tok
            m = re.match(r"^T=\d+\|\d+\|\d+\|(\d)", tok)
            if m and m.group(1) == "0":
                return "invalid comparison target after a safe operation: " + tok
            m = re.match(r"^P=\d+\|(\d)\|", tok)
            if m and m.group(1) == "0":
                return "invalid position array after a safe operation: " + tok
    if fam in ("parse",) and impl.startswith("OK") and " v=0" in impl:
        return "parser returned an object failing is_valid()"
    if fam in ("norm", "dual") and (" v=0" in impl):
        return "invalid object"
    return None


def family_cache_key(corr, family, tier, seed, strict):
    return "%s-%s-%s-%s-%s-%d" % (family, tier, seed, sha(corr), sha(DRIVER), 1 if strict else 0)


WORK_CACHE_LIMIT = 1500 * 1024 * 1024   # bytes kept under .cache/work (every changed binary adds entries)


def prune_work_cache():
    """delete the least recently used transcripts until the cache is below its limit"""
    try:
        ents = []
        for n in os.listdir(WORK):
            p = os.path.join(WORK, n)
            try:
                st = os.stat(p)
            except OSError:
                continue
            ents.append((st.st_mtime, st.st_size, p))
        total = sum(e[1] for e in ents)
        if total <= WORK_CACHE_LIMIT:
            return
        for _, size, p in sorted(ents):
            try:
                os.remove(p)
            except OSError:
                pass
            total -= size
            if total <= WORK_CACHE_LIMIT * 0.7:
                break
    except OSError:
        pass


def run_family(corr, base_corr, family, tier, seed, strict=False, keep=None):
    """returns dict(ops, impl, model, spec) restricted to `keep` prefixes; cached by binary hashes"""
    os.makedirs(WORK, exist_ok=True)
    key = family_cache_key(corr, family, tier, seed, strict) + "-" + sha(base_corr)
    cpath = os.path.join(WORK, "fam-" + hashlib.sha256(key.encode()).hexdigest()[:24] + ".json")
    data = None
    use_cache = tier != "thorough"      # thorough transcripts are gigabytes per configuration: never stored
    if use_cache and os.path.exists(cpath):
        try:
            data = json.load(open(cpath))
            os.utime(cpath, None)       # least-recently-used pruning below
        except Exception:
            data = None
    if data is None:
        t = time.time()
        ops = gen_ops(base_corr, family, tier, seed)
        impl = run_exec(corr, ops)
        md = run_driver(ops, strict=strict)
        model, spec = [], []
        for l in md:
            m, _, s = l.partition("\t")
            model.append(m)
            spec.append(s)
        data = {"ops": ops, "impl": impl, "model": model, "spec": spec, "secs": time.time() - t}
        if use_cache:
            tmp = cpath + ".tmp%d" % os.getpid()
            json.dump(data, open(tmp, "w"))
            os.replace(tmp, cpath)
            prune_work_cache()
        log("[corr] %s/%s seed=%s strict=%s: %d ops in %.1fs" % (family, tier, seed, strict, len(ops), data["secs"]))
    else:
        log("[corr] %s/%s seed=%s strict=%s: %d ops (cached, binaries unchanged)" % (family, tier, seed, strict, len(data["ops"])))
    if keep is not None:
        idx = [i for i, o in enumerate(data["ops"]) if any(o.startswith(p) for p in keep)]
        data = {k: ([v[i] for i in idx] if isinstance(v, list) else v) for k, v in data.items()}
    return data


# observables of the shared `gen` family that each property's statement constrains (tokens of a result
# line are `s=<declaration result>`, `f=<digest in the four output forms>`, `n=<input size>`,
# `w=<may-warn query>`; anything else — bad-op, panic markers — is always kept)
PROJECT = {
    ("C01", "gen"): ("f=",),
    ("C03", "gen"): ("f=", "n="),
    ("C12", "gen"): ("s=", "f=", "n="),
    ("C13", "gen"): ("s=", "f=", "w="),
    # reuse histories of a position array (`pah`): the distance / substring answer of the reused object
    ("C08", "posarr"): ("ed=",),
    ("C09", "posarr"): ("cs=",),
    # reuse histories of a compare target (`tgt`): distance / substring / candidate answers only
    ("C08", "target"): ("e1=", "e2="),
    ("C09", "target"): ("h1=", "h2=", "c="),
}
_KNOWN_TOK = re.compile(r"^[a-z]+=")


def project3(pid, family, impl, model, spec):
    """restrict the three result strings to the tokens the property constrains; the spec is a positional
    pattern over the model's tokens ('*' = no oracle), so it is cut at the same positions as the model"""
    allowed = PROJECT.get((pid, family))
    if allowed is None:
        return impl, model, spec
    keep = lambda t: (not _KNOWN_TOK.match(t)) or t.startswith(allowed)
    mt = model.split(" ")
    pi = " ".join(t for t in impl.split(" ") if keep(t))
    pm = " ".join(t for t in mt if keep(t))
    if spec in ("-", "*", ""):
        ps = spec
    else:
        st = spec.split(" ")
        ps = " ".join(t for j, t in enumerate(st) if (keep(mt[j]) if j < len(mt) else True))
        if ps == "":
            ps = "-"
    return pi, pm, ps


def shape(family, op, res):
    """coarse branch tag of a result, for the coverage histogram"""
    head = " ".join(op.split(" ")[:2]) if family in ("prim", "bs", "posarr") else op.split(" ", 1)[0]
    if family == "parse":
        return head + ":" + " ".join(res.split(" ")[:3]) if res.startswith("ERR") else head + ":OK"
    if family == "gen":
        tags = set()
        for m in re.finditer(r"f=(\d+):", res):
            tags.add("bs=" + m.group(1))
        if "ERR(" in res:
            tags.update(re.findall(r"ERR\((\w+)\)", res))
        if " z:" in op:
            tags.add("zero-prefix")
        if " r " in op:
            tags.add("reset")
        if " s:" in op or " S:" in op:
            tags.add("hint")
        return head + ":" + ",".join(sorted(tags))
    if family == "cmp":
        m = re.match(r"s=(\d+) c=(\d)", res)
        if m:
            s = int(m.group(1))
            return head + ":score=" + ("0" if s == 0 else "100" if s == 100 else "mid") + ",cand=" + m.group(2)
    r = re.sub(r"[0-9a-f]{6,}", "#", res)
    r = re.sub(r"\d+", "n", r)
    return head + ":" + r[:60]


TRIVIAL = re.compile(r"^(bad-op|SKIP|PANIC|ERR\b.*|)$")


def write_json(path, obj):
    os.makedirs(os.path.dirname(path), exist_ok=True)
    tmp = path + ".tmp%d" % os.getpid()
    with open(tmp, "w") as f:
        json.dump(obj, f, indent=1)
    os.replace(tmp, path)


def known_findings():
    path = os.path.join(VERIF, "known-findings.txt")
    out = []
    if os.path.exists(path):
        for l in open(path):
            l = l.strip()
            m = re.match(r"^finding: property=(\S+) op=(.*)$", l)
            if m:
                out.append((m.group(1), m.group(2).strip()))
    return out
